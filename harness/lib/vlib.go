// Package vlib is the /verif-owned harness library. It is injected into the
// repository build with `go test -overlay` as internal/vlib, so the overlay
// tests in internal/... packages can share it. It never decides a property:
// it records observations (ndjson traces) and controls schedules (gates).
package vlib

import (
	"bufio"
	"encoding/json"
	"fmt"
	"os"
	"runtime"
	"strconv"
	"strings"
	"sync"
	"sync/atomic"
	"time"

	"github.com/drand/drand/v2/internal/vhook"
)

// ---------- trace writer ----------

// Trace is an ndjson trace file. Seq numbers are taken under the trace mutex,
// callers must call Emit at the linearization point (inside the lock protecting
// the state change) when ordering matters.
type Trace struct {
	mu  sync.Mutex
	f   *os.File
	w   *bufio.Writer
	seq int
}

// E is one trace event.
type E map[string]any

func OpenTrace(path string) (*Trace, error) {
	f, err := os.Create(path)
	if err != nil {
		return nil, err
	}
	return &Trace{f: f, w: bufio.NewWriter(f)}, nil
}

// MustOpenTraceEnv opens the trace named by env var VERIF_OUT.
func MustOpenTraceEnv() *Trace {
	p := os.Getenv("VERIF_OUT")
	if p == "" {
		panic("VERIF_OUT not set")
	}
	t, err := OpenTrace(p)
	if err != nil {
		panic(err)
	}
	return t
}

func (t *Trace) Emit(ev string, fields E) {
	t.mu.Lock()
	defer t.mu.Unlock()
	t.seq++
	m := make(map[string]any, len(fields)+2)
	for k, v := range fields {
		m[k] = v
	}
	m["ev"] = ev
	m["seq"] = t.seq
	b, err := json.Marshal(m)
	if err != nil {
		panic(err)
	}
	t.w.Write(b)
	t.w.WriteByte('\n')
}

func (t *Trace) Len() int {
	t.mu.Lock()
	defer t.mu.Unlock()
	return t.seq
}

func (t *Trace) Close() error {
	t.mu.Lock()
	defer t.mu.Unlock()
	if err := t.w.Flush(); err != nil {
		return err
	}
	return t.f.Close()
}

// ---------- scripts (TLC behaviours -> steps) ----------

// LoadJSONLines reads a file of JSON values, one per line.
func LoadJSONLines(path string) ([]json.RawMessage, error) {
	f, err := os.Open(path)
	if err != nil {
		return nil, err
	}
	defer f.Close()
	var out []json.RawMessage
	sc := bufio.NewScanner(f)
	sc.Buffer(make([]byte, 1<<20), 1<<28)
	for sc.Scan() {
		line := strings.TrimSpace(sc.Text())
		if line == "" {
			continue
		}
		out = append(out, json.RawMessage(append([]byte(nil), line...)))
	}
	return out, sc.Err()
}

func EnvInt(name string, def int) int {
	if v := os.Getenv(name); v != "" {
		if n, err := strconv.Atoi(v); err == nil {
			return n
		}
	}
	return def
}

func EnvStr(name, def string) string {
	if v := os.Getenv(name); v != "" {
		return v
	}
	return def
}

// ---------- gates ----------

// Sched routes vhook points to recorders and gates.
type Sched struct {
	mu     sync.Mutex
	gates  map[string][]*Gate
	stamps map[string][]func(args []any)
	counts map[string]int
}

// Gate parks goroutines reaching a hook point until released.
type Gate struct {
	s      *Sched
	point  string
	pred   func(args []any) bool
	parked chan []any    // signalled when a goroutine parks (carries args)
	rel    chan struct{} // one token per release
	once   bool
	used   bool
	open   bool
	nPark  int64
}

// NumParked returns how many goroutines are parked at the gate right now.
func (g *Gate) NumParked() int { return int(atomic.LoadInt64(&g.nPark)) }

var current *Sched

// NewSched installs a fresh scheduler as the vhook target.
func NewSched() *Sched {
	s := &Sched{gates: map[string][]*Gate{}, stamps: map[string][]func([]any){}, counts: map[string]int{}}
	current = s
	vhook.Set(s.at)
	return s
}

// Uninstall removes the scheduler (hooks become no-ops). Parked goroutines of
// opened gates continue.
func (s *Sched) Uninstall() {
	s.mu.Lock()
	for _, gs := range s.gates {
		for _, g := range gs {
			if !g.open {
				g.open = true
				close(g.rel)
			}
		}
	}
	s.gates = map[string][]*Gate{}
	s.mu.Unlock()
	vhook.Set(nil)
}

func (s *Sched) at(point string, args ...any) {
	s.mu.Lock()
	s.counts[point]++
	stamps := append([]func([]any){}, s.stamps[point]...)
	var g *Gate
	for _, c := range s.gates[point] {
		if c.open || (c.once && c.used) {
			continue
		}
		if c.pred == nil || c.pred(args) {
			g = c
			if c.once {
				c.used = true
			}
			break
		}
	}
	s.mu.Unlock()
	for _, f := range stamps {
		f(args)
	}
	if g != nil {
		atomic.AddInt64(&g.nPark, 1)
		g.parked <- args
		<-g.rel
		atomic.AddInt64(&g.nPark, -1)
	}
}

// Count returns how many times a point was reached.
func (s *Sched) Count(point string) int {
	s.mu.Lock()
	defer s.mu.Unlock()
	return s.counts[point]
}

// OnPoint registers a recorder called (synchronously, in the instrumented
// goroutine, before any gate) whenever point is reached.
func (s *Sched) OnPoint(point string, f func(args []any)) {
	s.mu.Lock()
	defer s.mu.Unlock()
	s.stamps[point] = append(s.stamps[point], f)
}

// Gate registers a gate at point; every matching arrival parks until Release.
func (s *Sched) Gate(point string, pred func(args []any) bool) *Gate {
	g := &Gate{s: s, point: point, pred: pred, parked: make(chan []any, 1024), rel: make(chan struct{}, 1024)}
	s.mu.Lock()
	s.gates[point] = append(s.gates[point], g)
	s.mu.Unlock()
	return g
}

// GateOnce is a gate that parks only the first matching arrival.
func (s *Sched) GateOnce(point string, pred func(args []any) bool) *Gate {
	g := s.Gate(point, pred)
	g.once = true
	return g
}

// WaitParked waits until a goroutine is parked at the gate; returns its args.
func (g *Gate) WaitParked(d time.Duration) ([]any, bool) {
	select {
	case a := <-g.parked:
		return a, true
	case <-time.After(d):
		return nil, false
	}
}

// Release lets one parked goroutine continue.
func (g *Gate) Release() { g.rel <- struct{}{} }

// Open releases everything parked now and in the future.
func (g *Gate) Open() {
	g.s.mu.Lock()
	if !g.open {
		g.open = true
		close(g.rel)
	}
	g.s.mu.Unlock()
}

// ---------- calls under deadline ----------

// CallResult is the outcome of a call run under a deadline.
type CallResult struct {
	Returned bool
	Panic    string
	Stack    string // goroutine dump when the call did not return
}

// LoadFactor is >= 1: how much longer than on an idle machine things may take right now (1-minute load average
// per CPU, capped at 8).  Real-time deadlines of the harnesses are stretched by it so that a busy machine is
// not mistaken for a blocked call.
func LoadFactor() float64 {
	b, err := os.ReadFile("/proc/loadavg")
	if err != nil {
		return 1
	}
	var l1 float64
	if _, err := fmt.Sscanf(string(b), "%f", &l1); err != nil {
		return 1
	}
	f := l1 / float64(runtime.NumCPU())
	if f < 1 {
		return 1
	}
	if f > 8 {
		return 8
	}
	return f
}

// Stretch scales a real-time deadline by the current load factor.
func Stretch(d time.Duration) time.Duration { return time.Duration(float64(d) * LoadFactor()) }

// Call runs f in its own goroutine and waits at most d (stretched by the load factor) for it to return.
func Call(d time.Duration, f func()) CallResult {
	d = Stretch(d)
	done := make(chan CallResult, 1)
	go func() {
		defer func() {
			if r := recover(); r != nil {
				done <- CallResult{Returned: true, Panic: fmt.Sprint(r)}
			}
		}()
		f()
		done <- CallResult{Returned: true}
	}()
	select {
	case r := <-done:
		return r
	case <-time.After(d):
		buf := make([]byte, 1<<20)
		n := runtime.Stack(buf, true)
		return CallResult{Returned: false, Stack: string(buf[:n])}
	}
}

// Eventually polls cond until true or timeout.
func Eventually(d time.Duration, cond func() bool) bool {
	deadline := time.Now().Add(Stretch(d))
	for {
		if cond() {
			return true
		}
		if time.Now().After(deadline) {
			return false
		}
		time.Sleep(2 * time.Millisecond)
	}
}

// GoID returns the id of the calling goroutine (parsed from its stack header); used to attribute an effect to the
// hook point the same goroutine passed just before.
func GoID() int64 {
	var buf [64]byte
	n := runtime.Stack(buf[:], false)
	// "goroutine 123 [running]:"
	var id int64
	for _, c := range buf[len("goroutine "):n] {
		if c < '0' || c > '9' {
			break
		}
		id = id*10 + int64(c-'0')
	}
	return id
}
