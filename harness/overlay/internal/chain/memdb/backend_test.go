package memdb

// Overlay test (injected by /verif with `go test -overlay`): drives the REAL in-memory
// ring store with call scripts - TLC behaviours of spec/StoreBackend.tla and seeded
// long random sequences - and records every call and what it returned as an ndjson
// trace that TLC validates with spec/Trace_StoreBackend.tla.  It asserts nothing itself.
//
// The common driver (vsbDriver and helpers) is textually the same as in
// internal/chain/boltdb/zz_verif_backend_test.go; only vsbOpen differs.

import (
	"context"
	"encoding/json"
	"errors"
	"fmt"
	"math/rand"
	"os"
	"strconv"
	"strings"
	"sync"
	"testing"
	"time"

	"github.com/drand/drand/v2/common"
	"github.com/drand/drand/v2/internal/chain"
	chainerrors "github.com/drand/drand/v2/internal/chain/errors"
	"github.com/drand/drand/v2/internal/vlib"
)

// ---------------------------------------------------------------- scripts

type vsbStep struct {
	Op    string `json:"op"`
	Round uint64 `json:"round"`
	V     int    `json:"v"`
}

type vsbScript struct {
	Name    string    `json:"name"`
	Backend string    `json:"backend"`
	K       int       `json:"k"`
	Fast    bool      `json:"fast"` // many short TLC scripts: bolt files are opened without fsync
	Steps   []vsbStep `json:"steps"`
}

// ---------------------------------------------------------------- values

const vsbPad = "drand-verif-c18-padding-so-that-a-signature-has-the-size-of-a-real-one-0123456789abcdef"

// vsbSig is the signature of the beacon put for round r with identity v.
func vsbSig(r uint64, v int) []byte { return []byte(fmt.Sprintf("s|%d|%d|%s", r, v, vsbPad)) }

// vsbPrev is its previous signature (identity 0: none, as in unchained schemes).
func vsbPrev(r uint64, v int) []byte {
	if v == 0 {
		return nil
	}
	return []byte(fmt.Sprintf("p|%d|%d|%s", r, v, vsbPad))
}

// vsbIdent decodes returned bytes into the identity the spec uses: ["s",r,v],
// ["p",r,v], [] for no bytes, ["?",0,0] for anything else.
func vsbIdent(b []byte) []any {
	if len(b) == 0 {
		return []any{}
	}
	parts := strings.SplitN(string(b), "|", 4)
	if len(parts) != 4 || (parts[0] != "s" && parts[0] != "p") || parts[3] != vsbPad {
		return []any{"?", 0, 0}
	}
	r, err1 := strconv.ParseUint(parts[1], 10, 64)
	v, err2 := strconv.Atoi(parts[2])
	if err1 != nil || err2 != nil {
		return []any{"?", 0, 0}
	}
	return []any{parts[0], r, v}
}

func vsbErrClass(err error) string {
	if errors.Is(err, chainerrors.ErrNoBeaconStored) {
		return "notfound"
	}
	return "other"
}

// vsbRes is the uniform result record (StoreBackend!Res).
func vsbRes(bc *common.Beacon, err error) vlib.E {
	r := vlib.E{"ok": false, "err": "", "round": 0, "sig": []any{}, "prev": []any{}, "n": 0}
	switch {
	case err != nil:
		r["err"] = vsbErrClass(err)
	case bc == nil:
		r["err"] = "nilbeacon"
	default:
		r["ok"], r["round"], r["sig"], r["prev"] = true, bc.Round, vsbIdent(bc.Signature), vsbIdent(bc.PreviousSig)
	}
	return r
}

func vsbDone(err error) vlib.E { return vsbRes(&common.Beacon{}, err) }

// ---------------------------------------------------------------- driver

type vsbPending struct {
	st   vsbStep
	done chan error
}

type vsbDriver struct {
	tr      *vlib.Trace
	ctx     context.Context
	s       chain.Store
	backend string
	lo, hi  uint64 // least and greatest round of the script (dump range)
	every   int    // dump after every n-th mutation
	nmut    int
	aborted bool
	// bolt kinds: mutations requested while the read transaction of a cursor is open
	pending  *vsbPending
	deferred []vsbStep
	late     bool
}

func (d *vsbDriver) isBolt() bool { return d.backend != "memdb" }

func (d *vsbDriver) emit(st vsbStep, res vlib.E, dump vlib.E) {
	ev := vlib.E{"op": st.Op, "round": st.Round, "v": st.V, "res": res}
	if d.late {
		ev["late"] = true // diagnostic only: a write that waited for the cursor's read transaction
	}
	if dump != nil {
		ev["dump"] = dump
	}
	d.tr.Emit("Op", ev)
}

func (d *vsbDriver) abort(detail string) {
	if !d.aborted {
		d.tr.Emit("Abort", vlib.E{"detail": detail})
	}
	d.aborted = true
}

// dump observes the content through the API: Get of every round 0..hi and Len.
func (d *vsbDriver) dump() vlib.E {
	items := [][]any{}
	bad := false
	for r := d.lo; r <= d.hi; r++ {
		bc, err := d.s.Get(d.ctx, r)
		switch {
		case err == nil && bc != nil:
			items = append(items, []any{r, bc.Round, vsbIdent(bc.Signature), vsbIdent(bc.PreviousSig)})
		case err == nil || !errors.Is(err, chainerrors.ErrNoBeaconStored):
			bad = true
		}
	}
	n, err := d.s.Len(d.ctx)
	if err != nil {
		bad = true
	}
	return vlib.E{"lo": d.lo, "hi": d.hi, "items": items, "len": n, "err": bad}
}

func (d *vsbDriver) mutate(st vsbStep) error {
	if st.Op == "put" {
		// a fresh beacon per call: memdb keeps the pointer
		return d.s.Put(d.ctx, &common.Beacon{Round: st.Round, Signature: vsbSig(st.Round, st.V), PreviousSig: vsbPrev(st.Round, st.V)})
	}
	return d.s.Del(d.ctx, st.Round)
}

// plain performs a call outside of (or, memdb, inside) a cursor callback.
func (d *vsbDriver) plain(st vsbStep, mayDump bool) {
	switch st.Op {
	case "put", "del":
		err := d.mutate(st)
		d.nmut++
		var dump vlib.E
		if mayDump && err == nil && d.every > 0 && d.nmut%d.every == 0 {
			dump = d.dump()
		}
		d.emit(st, vsbDone(err), dump)
	case "get":
		d.emit(st, vsbRes(d.s.Get(d.ctx, st.Round)), nil)
	case "last":
		d.emit(st, vsbRes(d.s.Last(d.ctx)), nil)
	case "len":
		n, err := d.s.Len(d.ctx)
		r := vsbDone(err)
		r["n"] = n
		d.emit(st, r, nil)
	default:
		d.abort("script: call " + st.Op + " outside of a cursor")
	}
}

// mutateInReadTx: bolt kinds.  A write transaction may have to wait for the open read
// transaction (remap), so it runs in its own goroutine; if it has not returned shortly it is
// left pending and every later mutation of this callback is deferred until the callback has
// returned.  The cursor works on the snapshot either way, and the event is emitted when the
// call returns.
func (d *vsbDriver) mutateInReadTx(st vsbStep) {
	if d.pending != nil {
		d.deferred = append(d.deferred, st)
		return
	}
	done := make(chan error, 1)
	go func() { done <- d.mutate(st) }()
	select {
	case err := <-done:
		d.nmut++
		d.emit(st, vsbDone(err), nil)
	case <-time.After(10 * time.Millisecond):
		d.pending = &vsbPending{st: st, done: done}
	}
}

func (d *vsbDriver) cursor(open vsbStep, inner []vsbStep, closeStep vsbStep) {
	var cerr error
	r := vlib.Call(60*time.Second, func() {
		cerr = d.s.Cursor(d.ctx, func(ctx context.Context, c chain.Cursor) error {
			d.emit(open, vsbDone(nil), nil)
			for _, st := range inner {
				switch st.Op {
				case "first":
					d.emit(st, vsbRes(c.First(ctx)), nil)
				case "next":
					d.emit(st, vsbRes(c.Next(ctx)), nil)
				case "seek":
					d.emit(st, vsbRes(c.Seek(ctx, st.Round)), nil)
				case "clast":
					d.emit(st, vsbRes(c.Last(ctx)), nil)
				case "put", "del":
					if d.isBolt() {
						d.mutateInReadTx(st)
					} else {
						d.plain(st, true)
					}
				case "get", "last", "len":
					if d.isBolt() {
						d.abort("script: " + st.Op + " inside a bolt cursor callback")
						return nil
					}
					d.plain(st, true)
				default:
					d.abort("script: unknown call " + st.Op)
					return nil
				}
			}
			return nil
		})
	})
	if !r.Returned {
		d.abort("Cursor did not return: " + vsbFirstLines(r.Stack, 12))
		return
	}
	if r.Panic != "" {
		d.abort("panic in Cursor: " + r.Panic)
		return
	}
	d.emit(closeStep, vsbDone(cerr), nil)
	d.late = true
	defer func() { d.late = false }()
	if d.pending != nil {
		select {
		case err := <-d.pending.done:
			d.nmut++
			d.emit(d.pending.st, vsbDone(err), nil)
		case <-time.After(30 * time.Second):
			d.abort("write transaction did not return after the read transaction was closed")
			return
		}
		d.pending = nil
	}
	for _, st := range d.deferred {
		d.plain(st, false)
	}
	d.deferred = nil
}

func vsbFirstLines(s string, n int) string {
	l := strings.Split(s, "\n")
	if len(l) > n {
		l = l[:n]
	}
	return strings.Join(l, " / ")
}

func (d *vsbDriver) run(sc vsbScript) {
	steps := sc.Steps
	for i := 0; i < len(steps) && !d.aborted; {
		st := steps[i]
		if st.Op == "open" {
			j := i + 1
			for j < len(steps) && steps[j].Op != "close" {
				j++
			}
			d.cursor(st, steps[i+1:j], vsbStep{Op: "close"})
			i = j + 1
			continue
		}
		r := vlib.Call(60*time.Second, func() { d.plain(st, true) })
		if !r.Returned {
			d.abort("call " + st.Op + " did not return: " + vsbFirstLines(r.Stack, 12))
		} else if r.Panic != "" {
			d.abort("panic in " + st.Op + ": " + r.Panic)
		}
		i++
	}
}

// vsbRange: least and greatest round a script mentions, and how often to dump that range
// (0 = never: the range is too wide to enumerate).
func vsbRange(sc vsbScript) (lo, hi uint64, every int) {
	first := true
	for _, st := range sc.Steps {
		switch st.Op {
		case "put", "get", "del", "seek":
			if first || st.Round < lo {
				lo = st.Round
			}
			if first || st.Round > hi {
				hi = st.Round
			}
			first = false
		}
	}
	switch span := hi - lo; {
	case span <= 16:
		every = 1
	case span <= 100:
		every = 25
	case span <= 1000:
		every = 100
	}
	return lo, hi, every
}

// ---------------------------------------------------------------- seeded long random sequences

// vsbRandom: gaps, deletions, re-puts, dense appends and cursors whose callback interleaves
// cursor calls with mutations (bolt kinds: Put/Del from another goroutine; memdb: everything).
func vsbRandom(rng *rand.Rand, name, backend string, k, n int, span uint64) vsbScript {
	return vsbRandomFrom(rng, name, backend, k, n, span, func() uint64 { return uint64(rng.Int63n(int64(span) + 1)) })
}

// vsbClusters: round numbers around the byte boundaries of the 8-byte big-endian key
// (ascending key order = ascending round order only with big-endian keys), up to 2^31 (TLC integers).
var vsbClusters = []uint64{0, 250, 65530, 1<<24 - 4, 1<<31 - 1000}

func vsbRandomWide(rng *rand.Rand, name, backend string, k, n int) vsbScript {
	return vsbRandomFrom(rng, name, backend, k, n, 0, func() uint64 {
		return vsbClusters[rng.Intn(len(vsbClusters))] + uint64(rng.Intn(9))
	})
}

func vsbRandomFrom(rng *rand.Rand, name, backend string, k, n int, span uint64, rnd func() uint64) vsbScript {
	sc := vsbScript{Name: name, Backend: backend, K: k}
	isBolt := backend != "memdb"
	top := uint64(0)
	put := func() vsbStep {
		r := rnd()
		if rng.Intn(3) == 0 && top < span { // dense append (what a running chain does)
			top++
			r = top
		}
		if r > top {
			top = r
		}
		return vsbStep{Op: "put", Round: r, V: rng.Intn(3)}
	}
	open := false
	for len(sc.Steps) < n {
		x := rng.Intn(100)
		if !open {
			switch {
			case x < 34:
				sc.Steps = append(sc.Steps, put())
			case x < 46:
				sc.Steps = append(sc.Steps, vsbStep{Op: "del", Round: rnd()})
			case x < 64:
				sc.Steps = append(sc.Steps, vsbStep{Op: "get", Round: rnd()})
			case x < 70:
				sc.Steps = append(sc.Steps, vsbStep{Op: "last"})
			case x < 75:
				sc.Steps = append(sc.Steps, vsbStep{Op: "len"})
			default:
				sc.Steps = append(sc.Steps, vsbStep{Op: "open"})
				open = true
			}
			continue
		}
		switch {
		case x < 12:
			sc.Steps = append(sc.Steps, vsbStep{Op: "first"})
		case x < 50:
			sc.Steps = append(sc.Steps, vsbStep{Op: "next"})
		case x < 66:
			sc.Steps = append(sc.Steps, vsbStep{Op: "seek", Round: rnd()})
		case x < 71:
			sc.Steps = append(sc.Steps, vsbStep{Op: "clast"})
		case x < 79:
			sc.Steps = append(sc.Steps, put())
		case x < 84:
			sc.Steps = append(sc.Steps, vsbStep{Op: "del", Round: rnd()})
		case x < 90 && !isBolt:
			sc.Steps = append(sc.Steps, vsbStep{Op: "get", Round: rnd()})
		case x < 92 && !isBolt:
			sc.Steps = append(sc.Steps, vsbStep{Op: "len"})
		default:
			sc.Steps = append(sc.Steps, vsbStep{Op: "close"})
			open = false
		}
	}
	if open {
		sc.Steps = append(sc.Steps, vsbStep{Op: "close"})
	}
	return sc
}

// vsbIterate: fill, then iterate the whole store with First/Next (the way SyncChain and the
// repository's own users walk a store), with seeks into the middle.
func vsbIterate(rng *rand.Rand, name, backend string, k int, span uint64, dense bool) vsbScript {
	sc := vsbScript{Name: name, Backend: backend, K: k}
	for r := uint64(0); r <= span; r++ {
		if dense || rng.Intn(3) != 0 {
			sc.Steps = append(sc.Steps, vsbStep{Op: "put", Round: r, V: 1 + rng.Intn(2)})
		}
	}
	sc.Steps = append(sc.Steps, vsbStep{Op: "len"}, vsbStep{Op: "last"}, vsbStep{Op: "open"}, vsbStep{Op: "first"})
	for r := uint64(0); r <= span+1; r++ {
		sc.Steps = append(sc.Steps, vsbStep{Op: "next"})
	}
	sc.Steps = append(sc.Steps, vsbStep{Op: "seek", Round: span / 2})
	for r := uint64(0); r <= span/2+1; r++ {
		sc.Steps = append(sc.Steps, vsbStep{Op: "next"})
	}
	sc.Steps = append(sc.Steps, vsbStep{Op: "clast"}, vsbStep{Op: "next"}, vsbStep{Op: "close"})
	return sc
}

func vsbBuiltin(seed int64, quick bool, backends []string, ks map[string][]int) []vsbScript {
	rng := rand.New(rand.NewSource(seed*7919 + 17))
	var out []vsbScript
	nshort, nlong, longLen, longSpan := 4, 1, 400, uint64(60)
	if !quick {
		nshort, nlong, longLen, longSpan = 30, 8, 2500, 400
	}
	for _, be := range backends {
		for _, k := range ks[be] {
			for i := 0; i < nshort; i++ {
				out = append(out, vsbRandom(rng, fmt.Sprintf("random-%s-%d", be, i), be, k, 120, uint64(6+rng.Intn(10))))
			}
			for i := 0; i < nlong; i++ {
				out = append(out, vsbRandom(rng, fmt.Sprintf("randomlong-%s-%d", be, i), be, k, longLen, longSpan))
				out = append(out, vsbRandomWide(rng, fmt.Sprintf("randomwide-%s-%d", be, i), be, k, longLen))
			}
			out = append(out, vsbIterate(rng, "iterate-dense-"+be, be, k, longSpan, true))
			out = append(out, vsbIterate(rng, "iterate-gaps-"+be, be, k, longSpan, false))
		}
	}
	return out
}

func vsbLoad(t *testing.T, mine func(string) bool) []vsbScript {
	var scripts []vsbScript
	if in := os.Getenv("VERIF_IN"); in != "" {
		lines, err := vlib.LoadJSONLines(in)
		if err != nil {
			t.Fatal(err)
		}
		for _, l := range lines {
			var s vsbScript
			if err := json.Unmarshal(l, &s); err != nil {
				t.Fatal(err)
			}
			if mine(s.Backend) {
				scripts = append(scripts, s)
			}
		}
	}
	return scripts
}

// ---------------------------------------------------------------- the real store

// vsbOpen creates the real ring.  NewStore refuses a bufferSize below 10, so the small
// capacities of the TLC configs (k = 3) are built with the same field values NewStore sets
// (the struct literal below is NewStore minus the guard); k >= 10 goes through NewStore.
func vsbOpen(k int) chain.Store {
	if k >= 10 {
		return NewStore(k)
	}
	return &Store{storeMtx: &sync.RWMutex{}, store: make([]*common.Beacon, 0, k), bufferSize: k}
}

func TestVerifBackend(t *testing.T) {
	if os.Getenv("VERIF_OUT") == "" {
		t.Skip("verif harness only")
	}
	tr := vlib.MustOpenTraceEnv()
	defer tr.Close()
	seed := int64(vlib.EnvInt("VERIF_SEED", 1))
	quick := vlib.EnvStr("VERIF_TIER", "quick") == "quick"
	scripts := vsbLoad(t, func(b string) bool { return b == "memdb" })
	if os.Getenv("VERIF_NOBUILTIN") == "" {
		scripts = append(scripts, vsbBuiltin(seed, quick, []string{"memdb"}, map[string][]int{"memdb": {10, 3, 37}})...)
	}
	for _, sc := range scripts {
		tr.Emit("Reset", vlib.E{"scenario": sc.Name, "backend": sc.Backend, "k": sc.K})
		if sc.K < 1 {
			tr.Emit("Abort", vlib.E{"detail": "script: capacity missing"})
			continue
		}
		d := &vsbDriver{tr: tr, ctx: context.Background(), s: vsbOpen(sc.K), backend: sc.Backend}
		d.lo, d.hi, d.every = vsbRange(sc)
		d.run(sc)
	}
}
