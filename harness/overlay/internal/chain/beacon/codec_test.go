package beacon

// Overlay test (injected by /verif with `go test -overlay`): beacons of spec/Codec.tla through the
// wire form used between nodes (beaconToProto -> protobuf bytes -> protoToBeacon, convert.go).
// It asserts nothing; Trace_Codec.tla decides.

import (
	"bytes"
	"encoding/json"
	"os"
	"testing"

	"google.golang.org/protobuf/proto"

	"github.com/drand/drand/v2/common"
	"github.com/drand/drand/v2/crypto"
	"github.com/drand/drand/v2/internal/vlib"
	pb "github.com/drand/drand/v2/protobuf/drand"
)

func vcdBeaconBytes(label string) []byte {
	switch label {
	case "short":
		return []byte{0x01}
	case "g1":
		return bytes.Repeat([]byte{0xa5, 0x5a, 0x00}, 16)
	case "g2":
		return bytes.Repeat([]byte{0xff, 0x00, 0x7f, 0x80}, 24)
	case "zeros":
		return make([]byte, 48)
	}
	return nil
}

func TestVerifCodecBeacon(t *testing.T) {
	if os.Getenv("VERIF_OUT") == "" {
		t.Skip("verif harness only")
	}
	tr := vlib.MustOpenTraceEnv()
	defer tr.Close()
	lines, err := vlib.LoadJSONLines(os.Getenv("VERIF_IN"))
	if err != nil {
		t.Fatal(err)
	}
	for _, l := range lines {
		var x struct {
			V    map[string]any `json:"v"`
			Path string         `json:"path"`
		}
		if err := json.Unmarshal(l, &x); err != nil {
			t.Fatal(err)
		}
		v := x.V
		str := func(k string) string { s, _ := v[k].(string); return s }
		orig := &common.Beacon{Signature: vcdBeaconBytes(str("sig"))}
		switch str("prev") {
		case "empty":
			orig.PreviousSig = []byte{}
		case "present":
			orig.PreviousSig = vcdBeaconBytes("g2")
		}
		switch str("round") {
		case "one":
			orig.Round = 1
		case "max":
			orig.Round = ^uint64(0)
		}
		ev := vlib.E{"scheme": crypto.DefaultSchemeID, "v": v, "path": x.Path, "over": map[string]any{"type": "none"}, "err": "", "rest": true, "restdiff": "", "hasheq": true, "p": map[string]any{}}
		wire, err := proto.Marshal(beaconToProto(orig, "a"))
		p2 := new(pb.BeaconPacket)
		if err == nil {
			err = proto.Unmarshal(wire, p2)
		}
		if err != nil {
			ev["err"] = err.Error()
			tr.Emit("RT", ev)
			continue
		}
		b := protoToBeacon(p2)
		p := map[string]any{"type": "beacon", "prev": "other", "sig": "other", "round": "other"}
		switch {
		case len(b.PreviousSig) == 0:
			p["prev"] = "absent"
		case bytes.Equal(b.PreviousSig, vcdBeaconBytes("g2")):
			p["prev"] = "present"
		}
		for _, lab := range []string{"short", "g1", "g2", "zeros"} {
			if bytes.Equal(b.Signature, vcdBeaconBytes(lab)) {
				p["sig"] = lab
			}
		}
		switch b.Round {
		case 0:
			p["round"] = "zero"
		case 1:
			p["round"] = "one"
		case ^uint64(0):
			p["round"] = "max"
		}
		ev["p"] = p
		if p2.GetMetadata().GetBeaconID() != "a" {
			ev["rest"], ev["restdiff"] = false, "beaconID"
		}
		tr.Emit("RT", ev)
	}
}
