package beacon

// Overlay test (injected by /verif with `go test -overlay`) for property C10.
// It drives the REAL SyncManager (Run / Sync / tryNode / ReSync / CheckPastBeacons /
// CorrectPastBeacons) behind the real store stacks with an in-memory
// net.ProtocolClient whose SyncChain streams are fed by scripted peer behaviours
// (spec/SyncClient.tla: ItemOf), a fake clock, a real bolt store and real BLS
// beacons of a fabricated chain.  Everything it sees is written to an ndjson trace
// that TLC validates against spec/Trace_SyncClient.tla.  It asserts nothing itself:
// "verifies" booleans come from an independent VerifyBeacon oracle.

import (
	"bytes"
	"context"
	"crypto/sha256"
	"encoding/hex"
	"encoding/json"
	"errors"
	"fmt"
	"math/rand"
	"os"
	"runtime"
	"strconv"
	"strings"
	"sync"
	"sync/atomic"
	"testing"
	"time"

	clock "github.com/jonboulle/clockwork"
	"google.golang.org/grpc"

	"github.com/drand/drand/v2/common"
	pchain "github.com/drand/drand/v2/common/chain"
	"github.com/drand/drand/v2/common/key"
	"github.com/drand/drand/v2/common/log"
	"github.com/drand/drand/v2/crypto"
	"github.com/drand/drand/v2/crypto/vault"
	"github.com/drand/drand/v2/internal/chain"
	"github.com/drand/drand/v2/internal/chain/boltdb"
	"github.com/drand/drand/v2/internal/chain/memdb"
	"github.com/drand/drand/v2/internal/net"
	"github.com/drand/drand/v2/internal/vlib"
	proto "github.com/drand/drand/v2/protobuf/drand"
	"github.com/drand/kyber"
	"github.com/drand/kyber/share"
	"github.com/drand/kyber/share/dkg"
	"github.com/drand/kyber/util/random"
)

const (
	vscChainLen = 8 // rounds fabricated per chain
	vscBeaconID = "vsc-chain"
	vscSelfAddr = "vsc-self:1"
	vscPeriod   = 10 * time.Second
)

// ---------------------------------------------------------------- scenarios

type vscPeerType struct {
	First string `json:"first"`
	Later string `json:"later"`
	K     int    `json:"k"`
	Head  uint64 `json:"head"`
}

type vscScenario struct {
	Name    string        `json:"name"`
	Mode    string        `json:"mode"` // run | follow | repair
	Chained bool          `json:"chained"`
	Scheme  string        `json:"scheme"` // optional override of the scheme name
	Start   uint64        `json:"start"`
	Target  uint64        `json:"target"`
	Peers   []vscPeerType `json:"peers"`
	Corrupt [][]any       `json:"corrupt"` // [round, "del"|"bad"]
	Env     []string      `json:"env"`     // scripted environment prefix: tick | req | agg
	Budget  int           `json:"budget"`  // periods of the fair environment (run mode)
	AggRace uint64        `json:"aggrace"` // run mode: the aggregator stores this round while tryNode is parked before its Put
	// repair mode, interrupted corrections:
	Backend string `json:"backend"`  // trimmed (default) | bolt (untrimmed) | memdb
	AbortAt string `json:"abort_at"` // "beforePut": cancel the repair's context at the AbortN-th write attempt (hook
	//                                   sync.beforePut); "afterOp": right after the AbortN-th store operation of the repair
	AbortN  int `json:"abort_n"`
	FailPut int `json:"fail_put"` // the FailPut-th write of the repair fails (nothing is written)
	// Clock: "" = far beyond the chain; "h+N" = the node's clock is at round (start height + N)
	Clock string `json:"clock"`
}

// ---------------------------------------------------------------- fabricated chain

type vscChain struct {
	sch     *crypto.Scheme
	group   *key.Group
	share   *key.Share
	node    *key.Node
	pub     kyber.Point
	seed    []byte
	beacons []*common.Beacon // index = round, [0] = genesis
	badSig  [][]byte         // per round: a well-formed signature made with another key
}

var vscChains = map[string]*vscChain{}

func vscSign(sch *crypto.Scheme, pri *share.PriPoly, pub *share.PubPoly, msg []byte, t, n int) ([]byte, error) {
	var sigs [][]byte
	for _, s := range pri.Shares(n)[:t] {
		ps, err := sch.ThresholdScheme.Sign(s, msg)
		if err != nil {
			return nil, err
		}
		sigs = append(sigs, ps)
	}
	return sch.ThresholdScheme.Recover(pub, msg, sigs, t, n)
}

func vscGetChain(name string) (*vscChain, error) {
	if c, ok := vscChains[name]; ok {
		return c, nil
	}
	sch, err := crypto.SchemeFromName(name)
	if err != nil {
		return nil, err
	}
	const n, t = 3, 2
	mk := func() (*share.PriPoly, *share.PubPoly) {
		pri := share.NewPriPoly(sch.KeyGroup, t, sch.KeyGroup.Scalar().Pick(random.New()), random.New())
		return pri, pri.Commit(sch.KeyGroup.Point().Base())
	}
	pri, pub := mk()
	opri, opub := mk()
	_, commits := pub.Info()
	var nodes []*key.Node
	for i := 0; i < n; i++ {
		addr := fmt.Sprintf("vsc-member-%d:1", i)
		if i == 0 {
			addr = vscSelfAddr
		}
		kp, err := key.NewKeyPair(addr, sch)
		if err != nil {
			return nil, err
		}
		nodes = append(nodes, &key.Node{Index: uint32(i), Identity: kp.Public})
	}
	seed := sha256.Sum256([]byte("vsc genesis seed " + name))
	g := key.LoadGroup(nodes, 1000, &key.DistPublic{Coefficients: commits}, vscPeriod, 0, sch, vscBeaconID)
	g.Threshold = t
	g.GenesisSeed = seed[:]
	c := &vscChain{sch: sch, group: g, node: nodes[0], pub: pub.Commit(), seed: seed[:]}
	c.share = &key.Share{DistKeyShare: dkg.DistKeyShare{Share: pri.Shares(n)[0], Commits: commits}, Scheme: sch}
	c.beacons = []*common.Beacon{chain.GenesisBeacon(seed[:])}
	c.badSig = [][]byte{nil}
	for r := uint64(1); r <= vscChainLen; r++ {
		b := &common.Beacon{Round: r}
		if name == crypto.DefaultSchemeID {
			b.PreviousSig = c.beacons[r-1].Signature
		}
		msg := sch.DigestBeacon(b)
		if b.Signature, err = vscSign(sch, pri, pub, msg, t, n); err != nil {
			return nil, err
		}
		bad, err := vscSign(sch, opri, opub, msg, t, n)
		if err != nil {
			return nil, err
		}
		c.beacons = append(c.beacons, b)
		c.badSig = append(c.badSig, bad)
	}
	vscChains[name] = c
	return c, nil
}

// independent oracle: does this beacon verify under the pinned chain information?
func (c *vscChain) verifies(b *common.Beacon) bool {
	if b == nil {
		return false
	}
	if b.Round == 0 {
		return bytes.Equal(b.Signature, c.seed)
	}
	sch, err := crypto.SchemeFromName(c.sch.Name)
	if err != nil {
		return false
	}
	cp := &common.Beacon{Round: b.Round, Signature: b.Signature, PreviousSig: b.PreviousSig}
	if c.sch.Name != crypto.DefaultSchemeID {
		cp.PreviousSig = nil
	}
	return sch.VerifyBeacon(cp, c.pub) == nil
}

func (c *vscChain) clone(r uint64) *common.Beacon {
	b := c.beacons[r]
	return &common.Beacon{Round: b.Round, Signature: append([]byte{}, b.Signature...), PreviousSig: append([]byte{}, b.PreviousSig...)}
}

func vscDigest(b []byte) string {
	if len(b) == 0 {
		return "-"
	}
	h := sha256.Sum256(b)
	return hex.EncodeToString(h[:4])
}

// ---------------------------------------------------------------- goroutine helpers

func vscGoID() int64 {
	var buf [64]byte
	n := runtime.Stack(buf[:], false)
	s := strings.TrimPrefix(string(buf[:n]), "goroutine ")
	if i := strings.IndexByte(s, ' '); i > 0 {
		id, _ := strconv.ParseInt(s[:i], 10, 64)
		return id
	}
	return -1
}

// vscSyncGoroutines inspects all goroutine stacks: busy = some goroutine executing
// SyncManager code is not parked in the select of tryNode or Run; total = number of
// goroutines with a SyncManager frame.
func vscSyncGoroutines() (total int, busy int, dump string) {
	buf := make([]byte, 1<<20)
	n := runtime.Stack(buf, true)
	dump = string(buf[:n])
	for _, blk := range strings.Split(dump, "\n\n") {
		if !strings.Contains(blk, "beacon.(*SyncManager).") {
			continue
		}
		lines := strings.Split(blk, "\n")
		if len(lines) < 2 {
			continue
		}
		total++
		state := ""
		if i, j := strings.IndexByte(lines[0], '['), strings.IndexByte(lines[0], ']'); i >= 0 && j > i {
			state = strings.Split(lines[0][i+1:j], ",")[0]
		}
		inner := lines[1]
		parked := state == "select" &&
			(strings.Contains(inner, "beacon.(*SyncManager).tryNode(") || strings.Contains(inner, "beacon.(*SyncManager).Run("))
		if !parked {
			busy++
		}
	}
	return
}

// ---------------------------------------------------------------- harness state

type vscStream struct {
	sid     int
	peer    int // 1-based index in the scenario's peer list
	kind    string
	from    uint64
	items   []vscItem
	end     string // "block" | "close"
	ctx     context.Context
	ch      chan *proto.BeaconPacket
	mu      sync.Mutex
	emitted []bool
	state   string // offering | waiting | gone
	recvd   int
}

type vscItem struct {
	t     string // good | wrong | badsig | foreign
	round uint64
	pkt   *proto.BeaconPacket
}

type vscHarness struct {
	t      *testing.T
	tr     *vlib.Trace
	sc     vscScenario
	ch     *vscChain
	mu     sync.Mutex
	calls  map[int]int       // peer -> streams opened
	byGo   map[int64]int     // goroutine -> sid of the stream it is reading
	tasks  map[int64]int     // goroutine -> small task number
	strs   []*vscStream      // all streams of the scenario
	rawMu  sync.Mutex        // serialises base-store puts with their observation
	raw    chain.Store       // the bolt store (unwrapped)
	quiet  bool              // suppress Put events (set-up)
	aggGo  int64             // goroutine that plays the aggregator
	poll   func()            // called at every iteration of settle (gates)
	repairing    atomic.Bool  // a correction is running: count its store operations
	ops, puts    atomic.Int64 // store operations / write attempts of the correction so far
	attempts     atomic.Int64 // sync.beforePut hits of the correction
	repairCancel context.CancelFunc
	timedOut bool
}

// ItemOf of spec/SyncClient.tla, concretised with real beacons.
func (h *vscHarness) script(kind string, k int, from uint64, hd uint64) (items []vscItem, end string) {
	if hd > vscChainLen {
		hd = vscChainLen
	}
	mk := func(t string, round uint64) vscItem {
		b := h.ch.clone(round)
		id := vscBeaconID
		switch t {
		case "badsig":
			b.Signature = append([]byte{}, h.ch.badSig[round]...)
		case "foreign":
			id = "vsc-other-chain"
		}
		return vscItem{t: t, round: round, pkt: beaconToProto(b, id)}
	}
	if from > hd || from == 0 {
		return nil, "close"
	}
	for pos := 0; ; pos++ {
		r := from + uint64(pos)
		switch kind {
		case "Honest":
			if r > hd {
				return items, "block"
			}
			items = append(items, mk("good", r))
		case "Stall":
			if pos >= k || r > hd {
				return items, "block"
			}
			items = append(items, mk("good", r))
		case "CloseEarly":
			if pos >= k || r > hd {
				return items, "close"
			}
			items = append(items, mk("good", r))
		case "BadSig", "ForeignId":
			if r > hd {
				return items, "block"
			}
			if pos == k {
				if kind == "BadSig" {
					items = append(items, mk("badsig", r))
				} else {
					items = append(items, mk("foreign", r))
				}
			} else {
				items = append(items, mk("good", r))
			}
		case "WrongRound":
			if pos < k {
				if r > hd {
					return items, "block"
				}
				items = append(items, mk("good", r))
			} else {
				if r+1 > hd {
					return items, "block"
				}
				if pos == k {
					items = append(items, mk("wrong", r+1))
				} else {
					items = append(items, mk("good", r+1))
				}
			}
		default:
			return nil, "close"
		}
	}
}

func (h *vscHarness) taskOf(g int64) int {
	if n, ok := h.tasks[g]; ok {
		return n
	}
	h.tasks[g] = len(h.tasks) + 1
	return h.tasks[g]
}

// ---------------------------------------------------------------- in-memory ProtocolClient

type vscClient struct{ h *vscHarness }

var _ net.ProtocolClient = (*vscClient)(nil)

func (c *vscClient) GetIdentity(context.Context, net.Peer, *proto.IdentityRequest, ...net.CallOption) (*proto.IdentityResponse, error) {
	return nil, errors.New("vsc: not implemented")
}
func (c *vscClient) PartialBeacon(context.Context, net.Peer, *proto.PartialBeaconPacket, ...net.CallOption) error {
	return nil
}
func (c *vscClient) Status(context.Context, net.Peer, *proto.StatusRequest, ...grpc.CallOption) (*proto.StatusResponse, error) {
	return nil, errors.New("vsc: not implemented")
}
func (c *vscClient) Check(context.Context, net.Peer) error { return nil }

func vscPeerAddr(i int) string { return fmt.Sprintf("vsc-peer-%d:1", i) }

func (c *vscClient) SyncChain(ctx context.Context, p net.Peer, in *proto.SyncRequest, _ ...net.CallOption) (chan *proto.BeaconPacket, error) {
	h := c.h
	g := vscGoID()
	idx := 0
	for i := range h.sc.Peers {
		if vscPeerAddr(i+1) == p.Address() {
			idx = i + 1
		}
	}
	h.mu.Lock()
	task := h.taskOf(g)
	sid := len(h.strs) + 1
	if idx == 0 { // our own address or an unknown peer: the code must never do this
		h.strs = append(h.strs, &vscStream{sid: sid, state: "gone"})
		h.mu.Unlock()
		h.tr.Emit("Open", vlib.E{"sid": sid, "task": task, "peer": 0, "from": in.GetFromRound(), "kind": "Self", "res": "err",
			"reqid": in.GetMetadata().GetBeaconID() == vscBeaconID})
		return nil, errors.New("vsc: no such peer")
	}
	pt := h.sc.Peers[idx-1]
	kind := pt.First
	if h.calls[idx] > 0 {
		kind = pt.Later
	}
	h.calls[idx]++
	st := &vscStream{sid: sid, peer: idx, kind: kind, from: in.GetFromRound(), ctx: ctx, state: "offering"}
	if kind == "Silent" {
		st.state = "gone"
		h.strs = append(h.strs, st)
		h.mu.Unlock()
		h.tr.Emit("Open", vlib.E{"sid": sid, "task": task, "peer": idx, "from": st.from, "kind": kind, "res": "err",
			"reqid": in.GetMetadata().GetBeaconID() == vscBeaconID})
		return nil, errors.New("vsc: peer unreachable")
	}
	st.items, st.end = h.script(kind, pt.K, st.from, pt.Head)
	st.emitted = make([]bool, len(st.items))
	st.ch = make(chan *proto.BeaconPacket) // unbuffered: a completed send means tryNode took the item
	h.strs = append(h.strs, st)
	h.byGo[g] = sid
	h.mu.Unlock()
	h.tr.Emit("Open", vlib.E{"sid": sid, "task": task, "peer": idx, "from": st.from, "kind": kind, "res": "ok",
		"reqid": in.GetMetadata().GetBeaconID() == vscBeaconID})
	go h.feed(st)
	return st.ch, nil
}

func (h *vscHarness) setState(st *vscStream, s string) {
	st.mu.Lock()
	st.state = s
	st.mu.Unlock()
}

// ensureRecv emits the Recv event of item j once (called by the feeder after the send
// completed and by the reader's own observation points, whichever comes first).
func (h *vscHarness) ensureRecv(st *vscStream, j int) {
	st.mu.Lock()
	defer st.mu.Unlock()
	if j < 0 || j >= len(st.items) || st.emitted[j] {
		return
	}
	st.emitted[j] = true
	st.recvd = j + 1
	it := st.items[j]
	h.tr.Emit("Recv", vlib.E{"sid": st.sid, "j": j, "t": it.t, "round": it.round})
}

func (st *vscStream) indexOfRound(round uint64) int {
	for j, it := range st.items {
		if it.round == round {
			return j
		}
	}
	return -1
}

func (h *vscHarness) feed(st *vscStream) {
	for j, it := range st.items {
		select {
		case st.ch <- it.pkt:
			h.ensureRecv(st, j)
		case <-st.ctx.Done():
			h.tr.Emit("CtxDone", vlib.E{"sid": st.sid, "recvd": st.recvd})
			h.setState(st, "gone")
			return
		}
	}
	if st.end == "close" {
		close(st.ch)
		h.tr.Emit("Close", vlib.E{"sid": st.sid, "recvd": st.recvd})
		h.setState(st, "waiting")
		<-st.ctx.Done()
		h.setState(st, "gone")
		return
	}
	h.setState(st, "waiting")
	<-st.ctx.Done()
	h.tr.Emit("CtxDone", vlib.E{"sid": st.sid, "recvd": st.recvd})
	h.setState(st, "gone")
}

func (h *vscHarness) streamOfGo(g int64) *vscStream {
	h.mu.Lock()
	defer h.mu.Unlock()
	if sid, ok := h.byGo[g]; ok && sid >= 1 && sid <= len(h.strs) {
		return h.strs[sid-1]
	}
	return nil
}

// ---------------------------------------------------------------- observing base store

type vscObsStore struct {
	chain.Store
	h *vscHarness
}

var errVscInjected = errors.New("vsc: injected write failure")

// afterOp: the environment may cancel the correction's context right after one of its store operations
func (h *vscHarness) afterOp() {
	if !h.repairing.Load() {
		return
	}
	n := h.ops.Add(1)
	if h.sc.AbortAt == "afterOp" && int(n) == h.sc.AbortN && h.repairCancel != nil {
		h.tr.Emit("Abort", vlib.E{"at": "afterOp", "n": n})
		h.repairCancel()
	}
}

func (s *vscObsStore) sidOf(round uint64) int {
	h := s.h
	g := vscGoID()
	if st := h.streamOfGo(g); st != nil {
		h.ensureRecv(st, st.indexOfRound(round))
		return st.sid
	} else if g == h.aggGo {
		return -1
	}
	return 0
}

func (s *vscObsStore) Put(ctx context.Context, b *common.Beacon) error {
	h := s.h
	if h.quiet {
		return s.Store.Put(ctx, b)
	}
	sid := s.sidOf(b.Round)
	h.rawMu.Lock()
	hb := int64(-1)
	if l, err := s.Store.Last(context.Background()); err == nil {
		hb = int64(l.Round)
	}
	var err error
	if h.repairing.Load() && h.sc.FailPut > 0 && int(h.puts.Add(1)) == h.sc.FailPut {
		h.tr.Emit("Abort", vlib.E{"at": "failPut", "n": h.sc.FailPut})
		err = errVscInjected
	} else {
		err = s.Store.Put(ctx, b)
	}
	res := "ok"
	if err != nil {
		res = "err"
	} else if h.sc.Backend == "memdb" {
		// the in-memory store silently keeps an entry it already has: say what is there now
		if cur, gerr := s.Store.Get(context.Background(), b.Round); gerr == nil && !bytes.Equal(cur.Signature, b.Signature) {
			res = "ignored"
		}
	}
	same := b.Round <= vscChainLen && bytes.Equal(b.Signature, h.ch.beacons[b.Round].Signature)
	h.tr.Emit("Put", vlib.E{"sid": sid, "round": b.Round, "verifies": h.ch.verifies(b), "same": same, "hb": hb, "res": res,
		"sig": vscDigest(b.Signature)})
	h.rawMu.Unlock()
	h.afterOp()
	return err
}

func (s *vscObsStore) Del(ctx context.Context, round uint64) error {
	h := s.h
	if h.quiet {
		return s.Store.Del(ctx, round)
	}
	sid := s.sidOf(round)
	h.rawMu.Lock()
	err := s.Store.Del(ctx, round)
	res := "ok"
	if err != nil {
		res = "err"
	}
	h.tr.Emit("Del", vlib.E{"sid": sid, "round": round, "res": res})
	h.rawMu.Unlock()
	h.afterOp()
	return err
}

// ---------------------------------------------------------------- quiescence

// settle waits until every goroutine running SyncManager code is parked in the select of
// tryNode / Run, every live feeder has exhausted its script and the manager's channels are
// empty.  Returns false when the cap expires (reported as inconclusive, never as a verdict).
func (h *vscHarness) settle(sm *SyncManager, extra func() bool) bool {
	deadline := time.Now().Add(8 * time.Second)
	okRuns := 0
	for time.Now().Before(deadline) {
		if h.poll != nil {
			h.poll()
		}
		q := len(sm.newReq) == 0 && len(sm.newSyncedBeacon) == 0
		if q {
			h.mu.Lock()
			for _, st := range h.strs {
				st.mu.Lock()
				if st.state == "offering" {
					q = false
				}
				st.mu.Unlock()
			}
			h.mu.Unlock()
		}
		if q {
			_, busy, _ := vscSyncGoroutines()
			q = busy == 0
		}
		if q && extra != nil {
			q = extra()
		}
		if q {
			okRuns++
			if okRuns >= 3 {
				return true
			}
		} else {
			okRuns = 0
		}
		time.Sleep(300 * time.Microsecond)
	}
	_, _, dump := vscSyncGoroutines()
	if len(dump) > 2500 {
		dump = dump[:2500]
	}
	h.timedOut = true
	h.tr.Emit("Timeout", vlib.E{"what": "settle", "dump": dump})
	return false
}

func (h *vscHarness) waitNoSyncGoroutines() {
	vlib.Eventually(5*time.Second, func() bool { n, _, _ := vscSyncGoroutines(); return n == 0 })
}

// class of every round as an outside reader sees it
func (h *vscHarness) snapshot() (head int64, rounds [][]any) {
	ctx := context.Background()
	head = -1 // Last() itself can fail (chained trimmed store whose penultimate entry is missing)
	if l, err := h.raw.Last(ctx); err == nil {
		head = int64(l.Round)
	}
	for r := uint64(0); r <= vscChainLen; r++ {
		b, err := h.raw.Get(ctx, r)
		if err == nil && h.sc.Chained && r > 0 && len(b.PreviousSig) == 0 {
			// store opened without the previous-signature flag (pure follower): read it as a client would
			b = &common.Beacon{Round: b.Round, Signature: b.Signature}
			if p, perr := h.raw.Get(ctx, r-1); perr == nil {
				b.PreviousSig = p.Signature
			}
		}
		switch {
		case err != nil:
			rounds = append(rounds, []any{r, "none", "-"})
		case h.ch.verifies(b):
			rounds = append(rounds, []any{r, "ok", vscDigest(b.Signature)})
		default:
			rounds = append(rounds, []any{r, "bad", vscDigest(b.Signature)})
		}
	}
	return
}

// the rounds a cursor scan of the raw store delivers (as SyncChain and the public API read the chain)
func (h *vscHarness) cursorRounds() []uint64 {
	out := []uint64{}
	_ = h.raw.Cursor(context.Background(), func(ctx context.Context, c chain.Cursor) error {
		for b, err := c.First(ctx); b != nil && err == nil; b, err = c.Next(ctx) {
			out = append(out, b.Round)
			if len(out) > 4*vscChainLen {
				break
			}
		}
		return nil
	})
	return out
}

func (h *vscHarness) openStreams() [][]any {
	out := [][]any{}
	h.mu.Lock()
	defer h.mu.Unlock()
	for _, st := range h.strs {
		st.mu.Lock()
		if st.state == "waiting" && st.end == "block" {
			out = append(out, []any{st.sid, st.peer, st.kind})
		}
		st.mu.Unlock()
	}
	return out
}

func vscErrClass(err error) string {
	switch {
	case err == nil:
		return "nil"
	case errors.Is(err, ErrFailedAll):
		return "failedall"
	case strings.Contains(err.Error(), "ctx done") || errors.Is(err, context.Canceled):
		return "ctx"
	default:
		return "other"
	}
}

// ---------------------------------------------------------------- one scenario

func (h *vscHarness) peersList() []net.Peer {
	ps := []net.Peer{net.CreatePeer(vscSelfAddr)} // our own address is in the list, as in a group
	for i := range h.sc.Peers {
		ps = append(ps, net.CreatePeer(vscPeerAddr(i+1)))
	}
	return ps
}

func (h *vscHarness) goal() uint64 {
	if h.sc.Target > 0 {
		return h.sc.Target
	}
	g := uint64(0)
	for _, p := range h.sc.Peers {
		if p.Later == "Honest" && p.Head > g {
			g = p.Head
		}
	}
	return g
}

func (h *vscHarness) honestAhead() bool {
	for _, p := range h.sc.Peers {
		if p.Later == "Honest" && p.Head >= h.goal() && h.goal() > 0 {
			return true
		}
	}
	return false
}

func vscTempDir(t *testing.T) string {
	for _, base := range []string{"/dev/shm", ""} {
		if d, err := os.MkdirTemp(base, "vsc-bolt-"); err == nil {
			t.Cleanup(func() { os.RemoveAll(d) })
			return d
		}
	}
	return t.TempDir()
}

func vscRunScenario(t *testing.T, tr *vlib.Trace, sc vscScenario, seed int64) {
	name := sc.Scheme
	if name == "" {
		name = crypto.UnchainedSchemeID
		if sc.Chained {
			name = crypto.DefaultSchemeID
		}
	}
	ch, err := vscGetChain(name)
	if err != nil {
		t.Fatalf("vsc: chain %s: %v", name, err)
	}
	sc.Chained = name == crypto.DefaultSchemeID
	h := &vscHarness{t: t, tr: tr, sc: sc, ch: ch, calls: map[int]int{}, byGo: map[int64]int{}, tasks: map[int64]int{}}
	rand.Seed(seed) //nolint // deterministic rand.Perm when GODEBUG=randseednop=0
	lg := log.New(nil, log.FatalLevel, false)

	peers := [][]any{}
	for _, p := range sc.Peers {
		peers = append(peers, []any{p.First, p.Later, p.K, p.Head})
	}
	corrupt := sc.Corrupt
	if corrupt == nil {
		corrupt = [][]any{}
	}
	budget := sc.Budget
	if budget == 0 {
		budget = 150
	}
	tr.Emit("Reset", vlib.E{"scenario": sc.Name, "mode": sc.Mode, "chained": sc.Chained, "scheme": name, "start": sc.Start,
		"target": sc.Target, "maxr": vscChainLen, "peers": peers, "corrupt": corrupt, "budget": budget, "harness": "beacon", "backend": func() string {
			if sc.Backend == "" {
				return "trimmed"
			}
			return sc.Backend
		}()})

	// ---- base store, preloaded and (repair) corrupted
	bctx := context.Background()
	if sc.Chained && sc.Mode != "follow" { // createDBStore: only when the process knows its group
		bctx = chain.SetPreviousRequiredOnContext(bctx)
	}
	var raw chain.Store
	switch sc.Backend {
	case "", "trimmed":
		sc.Backend, h.sc.Backend = "trimmed", "trimmed"
		raw, err = boltdb.NewBoltStore(bctx, lg, vscTempDir(t))
	case "bolt": // the untrimmed format (full beacons as JSON)
		raw, err = boltdb.NewBoltStore(boltdb.IsATest(bctx), lg, vscTempDir(t))
	case "memdb":
		raw = memdb.NewStore(64)
	default:
		t.Fatalf("vsc: unknown backend %q", sc.Backend)
	}
	if err != nil {
		t.Fatalf("vsc: bolt: %v", err)
	}
	h.raw = raw
	h.quiet = true
	for r := uint64(0); r <= sc.Start; r++ {
		if err := raw.Put(bctx, ch.clone(r)); err != nil {
			t.Fatalf("vsc: preload: %v", err)
		}
	}
	// corruption happens on the live node's disk: after the stack was built, before the check
	corruptNow := func() {
		for _, c := range sc.Corrupt {
			r := uint64(c[0].(float64))
			if c[1].(string) == "del" {
				err = raw.Del(bctx, r)
			} else {
				b := ch.clone(r)
				b.Signature = append([]byte{}, ch.badSig[r]...)
				if sc.Backend == "memdb" { // its Put keeps an existing entry
					_ = raw.Del(bctx, r)
				}
				err = raw.Put(bctx, b)
			}
			if err != nil {
				t.Fatalf("vsc: corrupt: %v", err)
			}
		}
	}
	base := &vscObsStore{Store: raw, h: h}
	clk := clock.NewFakeClockAt(time.Unix(ch.group.GenesisTime, 0).Add(vscPeriod * (vscChainLen + 2)))
	if strings.HasPrefix(sc.Clock, "h+") {
		off, _ := strconv.Atoi(sc.Clock[2:])
		if r := int(sc.Start) + off; r >= 1 { // round R starts at genesis + (R-1) periods
			clk = clock.NewFakeClockAt(time.Unix(ch.group.GenesisTime, 0).Add(vscPeriod * time.Duration(r-1)))
		}
	}
	client := &vscClient{h: h}
	ctx, cancel := context.WithCancel(context.Background())
	sched := vlib.NewSched()
	defer sched.Uninstall()
	sched.OnPoint("sync.beforePut", func(args []any) {
		if st := h.streamOfGo(vscGoID()); st != nil && len(args) >= 2 {
			round, _ := args[1].(uint64)
			h.ensureRecv(st, st.indexOfRound(round))
			tr.Emit("BeforePut", vlib.E{"sid": st.sid, "round": round})
			if h.repairing.Load() && h.sc.AbortAt == "beforePut" && int(h.attempts.Add(1)) == h.sc.AbortN && h.repairCancel != nil {
				tr.Emit("Abort", vlib.E{"at": "beforePut", "n": h.sc.AbortN})
				h.repairCancel()
			}
		}
	})

	var sm *SyncManager
	var cleanup func()
	switch sc.Mode {
	case "run", "repair":
		// the participant's stack, exactly as NewHandler builds it
		cf := &Config{Public: ch.node, Share: ch.share, Group: ch.group, Clock: clk}
		v := vault.NewVault(lg, ch.group, ch.share, ch.sch)
		cs, err := newChainStore(ctx, lg, cf, client, v, base, nil)
		if err != nil {
			t.Fatalf("vsc: newChainStore: %v", err)
		}
		corruptNow()
		h.quiet = false
		sm = cs.syncm
		cleanup = func() { cs.Stop() }
		if sc.Mode == "run" {
			h.runMode(ctx, cs, sched, budget)
		} else {
			h.repairMode(ctx, cs)
		}
	case "follow":
		// the stack StartFollowChain composes (internal/core/drand_beacon_control.go), replicated:
		// scheme store over the raw store, append store, callback store, SyncManager, go Run(), one direct Sync.
		info := pchain.NewChainInfo(ch.group)
		ss, err := NewSchemeStore(ctx, base, ch.sch)
		if err != nil {
			t.Fatalf("vsc: scheme store: %v", err)
		}
		as, err := newAppendStore(ctx, ss) // since fix F4 (beacon.NewAppendStore in StartFollowChain)
		if err != nil {
			t.Fatalf("vsc: append store: %v", err)
		}
		cbs := NewCallbackStore(lg, as)
		h.quiet = false
		sm, err = NewSyncManager(ctx, &SyncConfig{Log: lg, Store: cbs, BoltdbStore: base, Info: info, Client: client,
			Clock: clk, NodeAddr: vscSelfAddr})
		if err != nil {
			t.Fatalf("vsc: NewSyncManager: %v", err)
		}
		go sm.Run()
		cleanup = func() { sm.Stop(); cbs.Close() }
		h.followMode(ctx, sm)
	default:
		t.Fatalf("vsc: unknown mode %q", sc.Mode)
	}
	cancel()
	sched.Uninstall()
	vlib.Eventually(5*time.Second, func() bool { _, busy, _ := vscSyncGoroutines(); return busy == 0 })
	cleanup()
	h.waitNoSyncGoroutines()
	vlib.Eventually(2*time.Second, func() bool {
		h.mu.Lock()
		defer h.mu.Unlock()
		for _, st := range h.strs {
			st.mu.Lock()
			s := st.state
			st.mu.Unlock()
			if s != "gone" {
				return false
			}
		}
		return true
	})
}

func (h *vscHarness) end(ticks int, returned bool, ret string, quiescent bool, liveness bool) {
	head, rounds := h.snapshot()
	h.tr.Emit("End", vlib.E{"head": head, "rounds": rounds, "ticks": ticks, "returned": returned, "ret": ret,
		"quiescent": quiescent && !h.timedOut, "blocked": h.openStreams(), "liveness": liveness && !h.timedOut})
}

// participant: SyncManager.Run fed by RunSync requests, one per period while behind
func (h *vscHarness) runMode(ctx context.Context, cs *chainStore, sched *vlib.Sched, budget int) {
	peers := h.peersList()
	sm := cs.syncm
	ticks := 0
	head := func() uint64 {
		l, err := h.raw.Last(context.Background())
		if err != nil {
			return 0
		}
		return l.Round
	}
	_ = head
	var gate *vlib.Gate
	if h.sc.AggRace > 0 {
		gate = sched.GateOnce("sync.beforePut", func(args []any) bool {
			r, _ := args[1].(uint64)
			return len(args) >= 2 && r == h.sc.AggRace
		})
	}
	aggPut := func(r uint64) {
		if r == 0 || r > vscChainLen {
			return
		}
		h.aggGo = vscGoID()
		err := cs.Put(ctx, h.ch.clone(r)) // what chainStore.tryAppend does
		h.tr.Emit("AggPut", vlib.E{"round": r, "res": vscErrClass(err), "already": errors.Is(err, ErrBeaconAlreadyStored)})
	}
	req := func() bool {
		h.tr.Emit("Req", vlib.E{"upTo": h.sc.Target})
		r := vlib.Call(3*time.Second, func() { cs.RunSync(ctx, h.sc.Target, peers) })
		if !r.Returned {
			h.timedOut = true
			h.tr.Emit("Timeout", vlib.E{"what": "RunSync blocked"})
		}
		return r.Returned
	}
	tick := func() {
		cs.conf.Clock.(*clock.FakeClock).Advance(vscPeriod)
		ticks++
		h.tr.Emit("Tick", vlib.E{"n": ticks})
	}
	// while a reader is parked at the gate the system is not quiet: the aggregator stores the
	// round first, then the reader continues into its own Put
	h.poll = func() {
		if gate == nil {
			return
		}
		if args, ok := gate.WaitParked(0); ok {
			r, _ := args[1].(uint64)
			aggPut(r)
			gate.Release()
			gate = nil
		}
	}
	wait := func() bool { return h.settle(sm, nil) }
	for _, e := range h.sc.Env {
		switch e {
		case "tick":
			tick()
		case "req":
			if !req() {
				h.end(ticks, false, "", false, false)
				return
			}
		case "agg":
			aggPut(head() + 1)
		}
		if !wait() {
			h.end(ticks, false, "", false, false)
			return
		}
	}
	// fair environment: every period a tick and a request (Handler.run while behind)
	limit := budget
	if !h.honestAhead() {
		limit = 12
	}
	for i := 0; i < limit && head() < h.goal(); i++ {
		tick()
		if !req() || !wait() {
			h.end(ticks, false, "", false, false)
			return
		}
	}
	if gate != nil {
		gate.Open()
	}
	h.end(ticks, false, "", true, ticks >= limit || head() >= h.goal())
}

// follow: one direct Sync as StartFollowChain issues it
func (h *vscHarness) followMode(ctx context.Context, sm *SyncManager) {
	peers := h.peersList()
	done := make(chan error, 1)
	go func() { done <- sm.Sync(ctx, NewRequestInfo(ctx, h.sc.Target, peers)) }()
	returned, ret := false, ""
	ok := h.settle(sm, func() bool {
		if returned {
			return true
		}
		select {
		case err := <-done:
			returned, ret = true, vscErrClass(err)
			h.tr.Emit("SyncRet", vlib.E{"err": ret})
			return true
		default:
			// not returned: quiescent only if the reader is parked on a silent stream
			n, _, _ := vscSyncGoroutines()
			return n >= 2 // Run + the parked tryNode
		}
	})
	// liveness of follow mode is decided on the real StartFollowChain (internal/core harness)
	h.end(0, returned, ret, ok, false)
}

// repair: ValidateChain + RunReSync, the two calls StartCheckChain makes
func (h *vscHarness) repairMode(ctx context.Context, cs *chainStore) {
	peers := h.peersList()
	sm := cs.syncm
	_, pre := h.snapshot()
	var oracle []uint64
	for _, r := range pre {
		if r[1].(string) != "ok" && r[0].(uint64) >= 1 {
			oracle = append(oracle, r[0].(uint64))
		}
	}
	if oracle == nil {
		oracle = []uint64{}
	}
	head, _ := h.snapshot()
	var reported []uint64
	var cerr error
	r := vlib.Call(5*time.Second, func() { reported, cerr = cs.ValidateChain(ctx, h.sc.Target, func(uint64, uint64) {}) })
	if reported == nil {
		reported = []uint64{}
	}
	h.tr.Emit("Check", vlib.E{"upTo": h.sc.Target, "reported": reported, "oracle": oracle, "head": head,
		"err": vscErrClass(cerr), "returned": r.Returned})
	if !r.Returned {
		h.timedOut = true
		h.end(0, false, "", false, false)
		return
	}
	interrupted := h.sc.AbortAt != "" || h.sc.FailPut > 0
	rctx, rcancel := context.WithCancel(ctx)
	defer rcancel()
	h.repairCancel = rcancel
	preCur := h.cursorRounds()
	h.repairing.Store(true)
	done := make(chan error, 1)
	go func() { done <- cs.RunReSync(rctx, reported, peers, func(uint64, uint64) {}) }()
	returned, ret := false, ""
	ok := h.settle(sm, func() bool {
		if returned {
			return true
		}
		select {
		case err := <-done:
			returned, ret = true, vscErrClass(err)
		default:
			// not returned: quiescent only if a reader is parked on a silent stream
			n, _, _ := vscSyncGoroutines()
			return n >= 2 // Run + the parked tryNode
		}
		return true
	})
	h.repairing.Store(false)
	_, post := h.snapshot()
	h.tr.Emit("Corrected", vlib.E{"returned": returned, "err": ret, "pre": pre, "post": post, "reported": reported,
		"interrupted": interrupted, "pre_cursor": preCur, "post_cursor": h.cursorRounds(), "ops": h.ops.Load()})
	h.end(0, returned, ret, ok, !interrupted)
}

// ---------------------------------------------------------------- built-in directed scenarios

func vscPT(first, later string, k int, head uint64) vscPeerType {
	return vscPeerType{First: first, Later: later, K: k, Head: head}
}

// corrections interrupted between two store operations, on every back-end
func vscRepairAbortScenarios() []vscScenario {
	H := vscPT("Honest", "Honest", 0, 6)
	var out []vscScenario
	for _, be := range []string{"trimmed", "bolt", "memdb"} {
		for _, chained := range []bool{true, false} {
			c := "u"
			if chained {
				c = "c"
			}
			base := vscScenario{Mode: "repair", Chained: chained, Backend: be, Start: 5, Target: 5,
				Corrupt: [][]any{{float64(2), "bad"}, {float64(4), "bad"}}, Peers: []vscPeerType{H, H, H}}
			for _, v := range []struct {
				tag      string
				at       string
				n, fails int
			}{{"after-op1", "afterOp", 1, 0}, {"after-op3", "afterOp", 3, 0}, {"before-put2", "beforePut", 2, 0}, {"fail-put1", "", 0, 1}, {"fail-put2", "", 0, 2}} {
				sc := base
				sc.Name = fmt.Sprintf("repair-abort-%s-%s-%s", be, v.tag, c)
				sc.AbortAt, sc.AbortN, sc.FailPut = v.at, v.n, v.fails
				out = append(out, sc)
			}
		}
	}
	return out
}

// check + repair with every kind of target (0 = the CLI default, below / at / beyond the stored head) while the
// node's clock is at or ahead of its head
func vscRepairTargetScenarios() []vscScenario {
	H := vscPT("Honest", "Honest", 0, 8)
	sets := map[string][]vscPeerType{
		"honest":  {H, H, H},
		"failing": {vscPT("CloseEarly", "Honest", 0, 8), vscPT("Silent", "Silent", 0, 8), vscPT("CloseEarly", "CloseEarly", 0, 8)},
		"lying":   {vscPT("WrongRound", "WrongRound", 0, 8), vscPT("BadSig", "BadSig", 0, 8), H},
	}
	var out []vscScenario
	for _, chained := range []bool{true, false} {
		c := "u"
		if chained {
			c = "c"
		}
		for _, tg := range []uint64{0, 4, 5, 8} {
			for _, ck := range []string{"h+0", "h+1", "h+4"} {
				for _, ps := range []string{"honest", "failing", "lying"} {
					out = append(out, vscScenario{Name: fmt.Sprintf("repair-target%d-clock%s-%s-%s", tg, ck[2:], ps, c), Mode: "repair",
						Chained: chained, Start: 5, Target: tg, Clock: ck, Corrupt: [][]any{{float64(2), "bad"}}, Peers: sets[ps]})
				}
			}
		}
	}
	return out
}

func vscBuiltin(quick bool) []vscScenario {
	H := func(hd uint64) vscPeerType { return vscPT("Honest", "Honest", 0, hd) }
	var out []vscScenario
	for _, chained := range []bool{true, false} {
		c := "u"
		if chained {
			c = "c"
		}
		out = append(out,
			vscScenario{Name: "run-honest-" + c, Mode: "run", Chained: chained, Start: 0, Target: 5, Peers: []vscPeerType{H(6), H(6), H(6)}},
			vscScenario{Name: "run-liars-" + c, Mode: "run", Chained: chained, Start: 1, Target: 5,
				Peers: []vscPeerType{vscPT("BadSig", "BadSig", 1, 6), vscPT("WrongRound", "WrongRound", 1, 6), H(6)}},
			vscScenario{Name: "run-stalls-" + c, Mode: "run", Chained: chained, Start: 1, Target: 4,
				Peers: []vscPeerType{vscPT("Stall", "Stall", 1, 6), vscPT("Stall", "Stall", 0, 6), H(6)}},
			vscScenario{Name: "run-transient-" + c, Mode: "run", Chained: chained, Start: 0, Target: 3,
				Peers: []vscPeerType{vscPT("CloseEarly", "Honest", 1, 6), vscPT("Silent", "Silent", 0, 6), vscPT("ForeignId", "ForeignId", 0, 6)}},
			vscScenario{Name: "run-follow-" + c, Mode: "run", Chained: chained, Start: 2, Target: 0,
				Peers: []vscPeerType{vscPT("CloseEarly", "CloseEarly", 2, 6), H(5), vscPT("Stall", "Stall", 1, 6)}},
			vscScenario{Name: "run-aggrace-" + c, Mode: "run", Chained: chained, Start: 1, Target: 4, AggRace: 3,
				Peers: []vscPeerType{H(6), H(6), H(6)}},
			vscScenario{Name: "run-agg-" + c, Mode: "run", Chained: chained, Start: 0, Target: 4, Env: []string{"agg", "req", "agg", "tick", "req"},
				Peers: []vscPeerType{vscPT("Stall", "Stall", 1, 6), H(6), vscPT("WrongRound", "WrongRound", 0, 6)}},
			vscScenario{Name: "follow-honest-" + c, Mode: "follow", Chained: chained, Start: 0, Target: 4, Peers: []vscPeerType{H(6), H(6), H(6)}},
			vscScenario{Name: "follow-wrong-" + c, Mode: "follow", Chained: chained, Start: 1, Target: 5,
				Peers: []vscPeerType{vscPT("WrongRound", "WrongRound", 1, 6), vscPT("WrongRound", "WrongRound", 0, 6), vscPT("WrongRound", "WrongRound", 1, 6)}},
			vscScenario{Name: "repair-honest-" + c, Mode: "repair", Chained: chained, Start: 5, Target: 5,
				Corrupt: [][]any{{float64(2), "bad"}, {float64(4), "del"}}, Peers: []vscPeerType{H(6), H(6), H(6)}},
			vscScenario{Name: "repair-mixed-" + c, Mode: "repair", Chained: chained, Start: 4, Target: 6,
				Corrupt: [][]any{{float64(1), "del"}, {float64(3), "bad"}},
				Peers: []vscPeerType{vscPT("BadSig", "BadSig", 0, 6), vscPT("CloseEarly", "Honest", 0, 6), vscPT("ForeignId", "ForeignId", 0, 6)}},
			vscScenario{Name: "repair-clean-" + c, Mode: "repair", Chained: chained, Start: 3, Target: 3, Peers: []vscPeerType{H(6), H(6), H(6)}},
		)
	}
	return out
}

func TestVerifSyncClient(t *testing.T) {
	if os.Getenv("VERIF_OUT") == "" {
		t.Skip("verif harness only")
	}
	tr := vlib.MustOpenTraceEnv()
	defer tr.Close()
	seed := int64(vlib.EnvInt("VERIF_SEED", 1))
	quick := vlib.EnvStr("VERIF_TIER", "quick") == "quick"
	var scs []vscScenario
	if in := os.Getenv("VERIF_IN"); in != "" {
		lines, err := vlib.LoadJSONLines(in)
		if err != nil {
			t.Fatal(err)
		}
		for _, l := range lines {
			var s vscScenario
			if err := json.Unmarshal(l, &s); err != nil {
				t.Fatal(err)
			}
			lying := false
			for _, p := range s.Peers {
				lying = lying || p.First == "LyingInfo"
			}
			if lying {
				continue // chain-info lies concern StartFollowChain only (internal/core harness)
			}
			scs = append(scs, s)
		}
	}
	if os.Getenv("VERIF_NOBUILTIN") == "" {
		scs = append(scs, vscBuiltin(quick)...)
		scs = append(scs, vscRepairAbortScenarios()...)
		scs = append(scs, vscRepairTargetScenarios()...)
	}
	if os.Getenv("VERIF_ONLY") == "repair-abort" { // light entry point (also used by the C02 engine)
		scs = append(vscRepairAbortScenarios(), vscRepairTargetScenarios()...)
	}
	if os.Getenv("VERIF_ONLY") == "repair" { // light entry point of the C01 engine: every directed chain-repair scenario
		scs = nil
		for _, sc := range vscBuiltin(quick) {
			if sc.Mode == "repair" {
				scs = append(scs, sc)
			}
		}
		scs = append(scs, vscRepairAbortScenarios()...)
		scs = append(scs, vscRepairTargetScenarios()...)
	}
	for i, sc := range scs {
		vscRunScenario(t, tr, sc, seed*1000+int64(i))
	}
}
