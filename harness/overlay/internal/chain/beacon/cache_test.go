package beacon

// Overlay test (injected by /verif with `go test -overlay`): drives the real
// partialCache with scripts (TLC behaviours and seeded directed floods) and
// records every call plus the projected state as an ndjson trace that TLC
// validates against spec/PartialCache.tla.  It asserts nothing itself.

import (
	"time"
	"encoding/binary"
	"encoding/json"
	"fmt"
	"math/rand"
	"os"
	"sort"
	"testing"

	"github.com/drand/drand/v2/common/log"
	"github.com/drand/drand/v2/crypto"
	"github.com/drand/drand/v2/internal/vlib"
	"github.com/drand/drand/v2/protobuf/drand"
)

type vcStep struct {
	Kind  string `json:"kind"`
	Idx   int    `json:"idx"`
	Round uint64 `json:"round"`
	Prev  int    `json:"prev"`
}

type vcScript struct {
	Name  string   `json:"name"`
	Steps []vcStep `json:"steps"`
}

func vcPrev(p int) []byte {
	b := make([]byte, 4)
	binary.BigEndian.PutUint32(b, uint32(p))
	return b
}

func vcProject(c *partialCache) (sigs [][]int, rcvd []any, held [][]int, total int) {
	decodeID := func(id string) (int, int) {
		r := binary.BigEndian.Uint64([]byte(id)[:8])
		p := 0
		if len(id) >= 12 {
			p = int(binary.BigEndian.Uint32([]byte(id)[8:12]))
		}
		return int(r), p
	}
	heldCnt := map[int]int{}
	for id, rc := range c.rounds {
		r, p := decodeID(id)
		for idx, sig := range rc.sigs {
			tag := int(binary.BigEndian.Uint32(sig[2:6]))
			sigs = append(sigs, []int{r, p, idx, tag})
			heldCnt[idx]++
			total++
		}
	}
	sort.Slice(sigs, func(i, j int) bool { return fmt.Sprint(sigs[i]) < fmt.Sprint(sigs[j]) })
	idxs := map[int]bool{}
	for idx := range c.rcvd {
		idxs[idx] = true
	}
	for idx := range heldCnt {
		idxs[idx] = true
	}
	var keys []int
	for k := range idxs {
		keys = append(keys, k)
	}
	sort.Ints(keys)
	for _, idx := range keys {
		ids := [][]int{}
		for _, id := range c.rcvd[idx] {
			r, p := decodeID(id)
			ids = append(ids, []int{r, p})
		}
		total += len(ids)
		if len(ids) > 0 {
			rcvd = append(rcvd, []any{idx, ids})
		}
		if len(ids) > 0 || heldCnt[idx] > 0 {
			held = append(held, []int{idx, heldCnt[idx], len(ids)})
		}
	}
	if sigs == nil {
		sigs = [][]int{}
	}
	if rcvd == nil {
		rcvd = []any{}
	}
	if held == nil {
		held = [][]int{}
	}
	return
}

func vcBuiltin(seed int64, quick bool) []vcScript {
	rng := rand.New(rand.NewSource(seed))
	M := MaxPartialsPerNode
	var out []vcScript
	// single signer flood: M+k fresh ids (rounds 1..4 x many previous signatures)
	{
		s := vcScript{Name: "single-flood"}
		for k := 0; k < 2*M+M/2+7; k++ {
			s.Steps = append(s.Steps, vcStep{"append", 1, uint64(1 + k%4), k / 4})
			if k%37 == 5 { // duplicates
				s.Steps = append(s.Steps, vcStep{"append", 1, uint64(1 + k%4), k / 4})
			}
		}
		out = append(out, s)
	}
	// victim + flooder: honest signers 2,3 contributed to (1,0); flooder 1 floods
	{
		s := vcScript{Name: "victim-flood"}
		s.Steps = append(s.Steps, vcStep{"append", 2, 1, 0}, vcStep{"append", 3, 1, 0}, vcStep{"append", 1, 1, 0})
		for k := 1; k < M+30; k++ {
			s.Steps = append(s.Steps, vcStep{"append", 1, uint64(1 + k%4), 1000 + k})
		}
		s.Steps = append(s.Steps, vcStep{"append", 4, 1, 0}, vcStep{"flush", 0, 1, 0})
		for k := 1; k < 20; k++ {
			s.Steps = append(s.Steps, vcStep{"append", 1, uint64(2 + k%3), 3000 + k})
		}
		s.Steps = append(s.Steps, vcStep{"flush", 0, 4, 0})
		out = append(out, s)
	}
	// two colluding signers: 1 creates rounds, 2 joins them
	{
		s := vcScript{Name: "pair-flood"}
		for k := 0; k < M+M/2; k++ {
			s.Steps = append(s.Steps, vcStep{"append", 1, uint64(1 + k%4), 5000 + k}, vcStep{"append", 2, uint64(1 + k%4), 5000 + k})
		}
		out = append(out, s)
	}
	// random small-alphabet runs with flushes (many collisions and duplicates)
	nr := 6
	if !quick {
		nr = 40
	}
	for i := 0; i < nr; i++ {
		s := vcScript{Name: fmt.Sprintf("random-%d", i)}
		n := 40 + rng.Intn(120)
		for k := 0; k < n; k++ {
			if rng.Intn(12) == 0 {
				s.Steps = append(s.Steps, vcStep{"flush", 0, uint64(rng.Intn(5)), 0})
			} else {
				s.Steps = append(s.Steps, vcStep{"append", 1 + rng.Intn(4), uint64(1 + rng.Intn(5)), rng.Intn(4)})
			}
		}
		out = append(out, s)
	}
	// random large flood of 3 signers beyond the real constant
	nl := 1
	if !quick {
		nl = 6
	}
	for i := 0; i < nl; i++ {
		s := vcScript{Name: fmt.Sprintf("random-flood-%d", i)}
		n := 3*M + rng.Intn(2*M)
		for k := 0; k < n; k++ {
			switch rng.Intn(20) {
			case 0:
				s.Steps = append(s.Steps, vcStep{"flush", 0, uint64(rng.Intn(3)), 0})
			default:
				s.Steps = append(s.Steps, vcStep{"append", 1 + rng.Intn(3), uint64(1 + rng.Intn(4)), rng.Intn(M)})
			}
		}
		out = append(out, s)
	}
	return out
}

func TestVerifCache(t *testing.T) {
	if os.Getenv("VERIF_OUT") == "" {
		t.Skip("verif harness only")
	}
	tr := vlib.MustOpenTraceEnv()
	defer tr.Close()
	seed := int64(vlib.EnvInt("VERIF_SEED", 1))
	quick := vlib.EnvStr("VERIF_TIER", "quick") == "quick"
	var scripts []vcScript
	if in := os.Getenv("VERIF_IN"); in != "" {
		lines, err := vlib.LoadJSONLines(in)
		if err != nil {
			t.Fatal(err)
		}
		for _, l := range lines {
			var s vcScript
			if err := json.Unmarshal(l, &s); err != nil {
				t.Fatal(err)
			}
			scripts = append(scripts, s)
		}
	}
	if os.Getenv("VERIF_NOBUILTIN") == "" {
		scripts = append(scripts, vcBuiltin(seed, quick)...)
	}
	sch, err := crypto.GetSchemeFromEnv()
	if err != nil {
		t.Fatal(err)
	}
	plen := sch.SigGroup.PointLen() + 2
	tag := 0
	for _, sc := range scripts {
		c := newPartialCache(log.New(nil, log.ErrorLevel, false), sch)
		tr.Emit("Reset", vlib.E{"scenario": sc.Name, "max": MaxPartialsPerNode})
	steps:
		for si, st := range sc.Steps {
			switch st.Kind {
			case "append":
				tag++
				sig := make([]byte, plen)
				binary.BigEndian.PutUint16(sig[0:2], uint16(st.Idx))
				binary.BigEndian.PutUint32(sig[2:6], uint32(tag))
				p := &drand.PartialBeaconPacket{Round: st.Round, PreviousSignature: vcPrev(st.Prev), PartialSig: sig}
				var err error
				if r := vlib.Call(30*time.Second, func() { err = c.Append(p) }); !r.Returned || r.Panic != "" {
					// the aggregator goroutine would die here: recorded, the rest of this scenario is skipped
					tr.Emit("Panic", vlib.E{"op": "append", "idx": st.Idx, "round": st.Round, "prev": st.Prev, "what": r.Panic, "returned": r.Returned})
					break steps
				}
				ln := 0
				if rc := c.GetRoundCache(st.Round, vcPrev(st.Prev)); rc != nil {
					ln = rc.Len()
					if len(rc.Partials()) != ln {
						ln = -len(rc.Partials())
					}
				}
				sigs, rcvd, held, total := vcProject(c)
				ev := vlib.E{"idx": st.Idx, "round": st.Round, "prev": st.Prev, "tag": tag, "err": err != nil, "len": ln, "held": held}
				if total <= 80 || si%16 == 0 || si == len(sc.Steps)-1 {
					ev["sigs"], ev["rcvd"] = sigs, rcvd
				}
				tr.Emit("Append", ev)
			case "flush":
				if r := vlib.Call(30*time.Second, func() { c.FlushRounds(st.Round) }); !r.Returned || r.Panic != "" {
					tr.Emit("Panic", vlib.E{"op": "flush", "idx": -1, "round": st.Round, "prev": 0, "what": r.Panic, "returned": r.Returned})
					break steps
				}
				sigs, rcvd, held, total := vcProject(c)
				ev := vlib.E{"round": st.Round, "held": held}
				if total <= 80 || si%16 == 0 || si == len(sc.Steps)-1 {
					ev["sigs"], ev["rcvd"] = sigs, rcvd
				}
				tr.Emit("Flush", ev)
			}
		}
	}
}
