package beacon

// Overlay harness (injected by /verif with `go test -overlay`): drives the REAL
// SyncChain + callbackStore + appendStore over real boltdb (trimmed/untrimmed)
// and memdb stores.  TLC behaviours of spec/SyncServe.tla (Sim_SyncServe) are
// executed step by step: the stream's Send and the vhook points
// serve.beforeScan / serve.afterScan / serve.registered / cb.beforeDispatch /
// cb.dispatch are gates the script opens one at a time.  Every observation is
// written to an ndjson trace that TLC validates with spec/Trace_SyncServe.tla.
// Nothing is asserted here.

import (
	"context"
	"crypto/sha256"
	"encoding/hex"
	"encoding/json"
	"errors"
	"fmt"
	"math/rand"
	"os"
	"path/filepath"
	"runtime"
	"strconv"
	"strings"
	"sync"
	"sync/atomic"
	"testing"
	"time"

	bolt "go.etcd.io/bbolt"
	"google.golang.org/grpc/peer"

	"github.com/drand/drand/v2/common"
	"github.com/drand/drand/v2/common/log"
	"github.com/drand/drand/v2/crypto"
	"github.com/drand/drand/v2/internal/chain"
	"github.com/drand/drand/v2/internal/chain/boltdb"
	chainerrors "github.com/drand/drand/v2/internal/chain/errors"
	"github.com/drand/drand/v2/internal/chain/memdb"
	"github.com/drand/drand/v2/internal/vlib"
	proto "github.com/drand/drand/v2/protobuf/drand"
)

// ---------------------------------------------------------------- script format

type vsvStep struct {
	A string `json:"a"`
	S int    `json:"s"`
	W int    `json:"w"`
	X uint64 `json:"x"`
}

type vsvScript struct {
	Name     string    `json:"name"`
	Backend  string    `json:"backend"` // bolt (trimmed) | boltu (untrimmed) | mem
	Init     uint64    `json:"init"`    // rounds 0..Init stored before the scenario
	Buf      int       `json:"buf"`     // memdb buffer size
	SameAddr bool      `json:"sameaddr"`
	Fresh    bool      `json:"fresh"` // bolt: do not pre-size the file (see vsvPad)
	Steps    []vsvStep `json:"steps"`
	// what the specification predicts (compared by the trace spec, never here)
	Sent [][]uint64 `json:"sent"`
	Why  []string   `json:"why"`
	Wpc  []string   `json:"wpc"`
	Tags []string   `json:"tags"`
	// the behaviour contains a choice the real code takes at random (select with two ready cases)
	Nondet bool `json:"nondet"`
}

// ---------------------------------------------------------------- small helpers

type vsvAddr string

func (a vsvAddr) Network() string { return "tcp" }
func (a vsvAddr) String() string  { return string(a) }

type vsvReq struct{ from uint64 }

func (r vsvReq) GetFromRound() uint64         { return r.from }
func (r vsvReq) GetMetadata() *proto.Metadata { return &proto.Metadata{BeaconID: "default"} }

var errVsvSend = errors.New("vsv: consumer went away")
var errVsvTeardown = errors.New("vsv: scenario over")

func vsvDigest(b []byte) string {
	h := sha256.Sum256(b)
	return hex.EncodeToString(h[:4])
}

func vsvGid() uint64 {
	var buf [64]byte
	n := runtime.Stack(buf[:], false)
	f := strings.Fields(string(buf[:n]))
	if len(f) < 2 {
		return 0
	}
	g, _ := strconv.ParseUint(f[1], 10, 64)
	return g
}

// ---------------------------------------------------------------- scenario

type vsvArr struct {
	point string // beforeScan afterScan registered beforeDispatch dispatch send end putdone
	s     int
	r     uint64
	err   error
	rel   chan error
}

type vsvStream struct {
	sc     *vsvScn
	n      int
	from   uint64
	addr   string
	ctx    context.Context
	cancel context.CancelFunc
	mode   atomic.Value  // "reading" | "stalled" | "disc"
	resume chan struct{} // closed when a stalled consumer starts reading again
	ended  atomic.Bool
}

type vsvScn struct {
	tr             *vlib.Trace
	name           string
	no             int
	gated          bool
	closed         atomic.Bool
	tdown          chan struct{}
	events         chan *vsvArr
	pending        []*vsvArr
	mu             sync.Mutex
	streams        map[int]*vsvStream
	gids           map[uint64]int
	sigs           map[uint64][]byte
	store          CallbackStore
	base           chain.Store
	dir            string
	wg             sync.WaitGroup
	head           uint64
	same           bool
	diverged       bool
	wblocked       bool
	cancelAtStored map[uint64]context.CancelFunc // Puts whose context is cancelled at append.stored
	regOwner       map[string]int                // callback id -> stream, mirrors callbackStore.newJob (updated under its write lock)
	expect         map[int]int                   // beacons dispatched to the stream's callback
	got            map[int]int                   // live Sends completed by the stream
	entered        map[int]int                   // Sends entered by the stream
	nondet         bool
	chans          map[string]chan struct{}
}

var vsvCur atomic.Pointer[vsvScn]

func (sc *vsvScn) sig(r uint64) []byte {
	sc.mu.Lock()
	defer sc.mu.Unlock()
	if b, ok := sc.sigs[r]; ok {
		return b
	}
	h := sha256.Sum256([]byte(fmt.Sprintf("vsv-%d-%d", sc.no, r)))
	b := append([]byte{}, h[:]...)
	sc.sigs[r] = b
	return b
}

func (sc *vsvScn) streamOfGid() int {
	g := vsvGid()
	sc.mu.Lock()
	defer sc.mu.Unlock()
	return sc.gids[g]
}

func (sc *vsvScn) addrIndex(id string) int {
	// id = "SyncChain-vsv<no>-c<k>:4444"
	i := strings.LastIndex(id, "-c")
	j := strings.LastIndex(id, ":")
	if i < 0 || j < i {
		return 0
	}
	k, _ := strconv.Atoi(id[i+2 : j])
	return k
}

func (sc *vsvScn) mine(id string) bool {
	return strings.HasPrefix(id, fmt.Sprintf("SyncChain-vsv%d-", sc.no))
}

// park blocks the calling (instrumented) goroutine until the driver releases it.
func (sc *vsvScn) park(a *vsvArr) error {
	a.rel = make(chan error, 1)
	select {
	case sc.events <- a:
	case <-sc.tdown:
		return errVsvTeardown
	}
	select {
	case e := <-a.rel:
		return e
	case <-sc.tdown:
		return errVsvTeardown
	}
}

func (sc *vsvScn) post(a *vsvArr) {
	select {
	case sc.events <- a:
	case <-sc.tdown:
	}
}

// vsvAt is the vhook target.
func vsvAt(point string, args []any) {
	sc := vsvCur.Load()
	if sc == nil || sc.closed.Load() {
		return
	}
	switch point {
	case "append.stored":
		r := args[0].(uint64)
		sc.tr.Emit("Stored", vlib.E{"r": r, "dg": vsvDigest(sc.sig(r))})
		sc.mu.Lock()
		cancel := sc.cancelAtStored[r]
		delete(sc.cancelAtStored, r)
		sc.mu.Unlock()
		if cancel != nil {
			// the caller of Put goes away right after the write was committed
			sc.tr.Emit("WCancel", vlib.E{"r": r, "at": "stored"})
			cancel()
		}
	case "cb.beforeDispatch":
		if sc.gated {
			sc.park(&vsvArr{point: "beforeDispatch", r: args[0].(uint64)})
		}
	case "cb.dispatch":
		r := args[0].(uint64)
		sc.mu.Lock()
		for _, n := range sc.regOwner {
			sc.expect[n]++
		}
		sc.mu.Unlock()
		sc.tr.Emit("Dispatch", vlib.E{"r": r})
		if sc.gated {
			sc.park(&vsvArr{point: "dispatch", r: r})
		}
	case "cb.add":
		id := args[0].(string)
		if sc.mine(id) {
			n := sc.streamOfGid()
			sc.mu.Lock()
			sc.regOwner[id] = n
			sc.mu.Unlock()
			sc.tr.Emit("CbAdd", vlib.E{"s": n, "a": sc.addrIndex(id)})
		}
	case "cb.remove":
		id := args[0].(string)
		if sc.mine(id) {
			sc.mu.Lock()
			delete(sc.regOwner, id)
			sc.mu.Unlock()
			sc.tr.Emit("CbRemove", vlib.E{"a": sc.addrIndex(id), "by": sc.streamOfGid()})
		}
	case "serve.beforeScan", "serve.afterScan", "serve.registered":
		id := args[0].(string)
		if !sc.mine(id) {
			return
		}
		s := sc.streamOfGid()
		name := strings.TrimPrefix(point, "serve.")
		switch name {
		case "beforeScan":
			sc.tr.Emit("BeforeScan", vlib.E{"s": s})
		case "afterScan":
			sc.tr.Emit("AfterScan", vlib.E{"s": s})
		case "registered":
			sc.mu.Lock()
			sc.regOwner[id] = s // normally already set at cb.add
			sc.mu.Unlock()
			sc.tr.Emit("Registered", vlib.E{"s": s})
			close(sc.chanFor("reg", uint64(s)))
		}
		if sc.gated {
			sc.park(&vsvArr{point: name, s: s})
		}
	}
}

func (st *vsvStream) Context() context.Context { return st.ctx }

func (st *vsvStream) Send(p *proto.BeaconPacket) error {
	sc := st.sc
	if sc.closed.Load() {
		return errVsvTeardown
	}
	r := p.GetRound()
	dg := vsvDigest(p.GetSignature())
	sc.tr.Emit("SendEnter", vlib.E{"s": st.n, "r": r})
	sc.mu.Lock()
	sc.entered[st.n]++
	sc.mu.Unlock()
	if sc.gated {
		if err := sc.park(&vsvArr{point: "send", s: st.n, r: r}); err != nil {
			return err
		}
	} else if st.mode.Load().(string) == "stalled" {
		select {
		case <-sc.tdown:
			return errVsvTeardown
		case <-st.resume:
		}
	}
	if sc.closed.Load() {
		return errVsvTeardown
	}
	if err := st.ctx.Err(); err != nil {
		sc.tr.Emit("Send", vlib.E{"s": st.n, "r": r, "dg": dg, "res": "ctx"})
		return err
	}
	if st.mode.Load().(string) == "disc" {
		sc.tr.Emit("Send", vlib.E{"s": st.n, "r": r, "dg": dg, "res": "err"})
		return errVsvSend
	}
	sc.tr.Emit("Send", vlib.E{"s": st.n, "r": r, "dg": dg, "res": "ok"})
	sc.mu.Lock()
	if sc.regOwner["SyncChain-"+st.addr] == st.n {
		sc.got[st.n]++
	}
	sc.mu.Unlock()
	return nil
}

func vsvNewScn(tr *vlib.Trace, no int, sc vsvScript, gated bool, workdir string, l log.Logger) (*vsvScn, error) {
	s := &vsvScn{tr: tr, name: sc.Name, no: no, gated: gated, tdown: make(chan struct{}),
		events: make(chan *vsvArr, 8192), streams: map[int]*vsvStream{}, gids: map[uint64]int{},
		sigs: map[uint64][]byte{}, same: sc.SameAddr, chans: map[string]chan struct{}{},
		cancelAtStored: map[uint64]context.CancelFunc{}, regOwner: map[string]int{}, expect: map[int]int{}, got: map[int]int{}, entered: map[int]int{}}
	ctx := context.Background()
	var base chain.Store
	var err error
	buf := sc.Buf
	switch sc.Backend {
	case "bolt", "boltu":
		s.dir = filepath.Join(workdir, fmt.Sprintf("vsvdb-%d", no))
		os.RemoveAll(s.dir)
		if err = os.MkdirAll(s.dir, 0o755); err != nil {
			return nil, err
		}
		if !sc.Fresh {
			if err = vsvPad(filepath.Join(s.dir, boltdb.BoltFileName)); err != nil {
				return nil, err
			}
		}
		c := ctx
		if sc.Backend == "boltu" {
			c = boltdb.IsATest(ctx)
		}
		base, err = boltdb.NewBoltStore(c, l, s.dir)
	case "mem":
		if buf < 10 {
			buf = 2000
		}
		base = memdb.NewStore(buf)
	default:
		err = fmt.Errorf("unknown backend %q", sc.Backend)
	}
	if err != nil {
		return nil, err
	}
	init := [][]any{}
	for r := uint64(0); r <= sc.Init; r++ {
		if err := base.Put(ctx, &common.Beacon{Round: r, Signature: s.sig(r)}); err != nil {
			return nil, err
		}
		init = append(init, []any{r, vsvDigest(s.sig(r))})
	}
	// with memdb only the last `buf` rounds are retained
	lo := uint64(0)
	if sc.Backend == "mem" && int(sc.Init)+1 > buf {
		lo = sc.Init + 1 - uint64(buf)
	}
	sch, err := crypto.SchemeFromName(crypto.UnchainedSchemeID)
	if err != nil {
		return nil, err
	}
	ss, err := NewSchemeStore(ctx, base, sch)
	if err != nil {
		return nil, err
	}
	as, err := newAppendStore(ctx, ss)
	if err != nil {
		return nil, err
	}
	s.base = base
	s.store = NewCallbackStore(l, as)
	s.head = sc.Init
	be := sc.Backend
	if be == "boltu" {
		be = "bolt"
	}
	tr.Emit("Reset", vlib.E{"scenario": sc.Name, "backend": be, "impl": sc.Backend, "q": CallbackWorkerQueue, "init": init,
		"head": sc.Init, "lo": lo, "buf": buf, "gated": gated, "same": sc.SameAddr})
	vsvCur.Store(s)
	return s, nil
}

// vsvPad pre-sizes a bolt file: a large bucket is written and deleted again, which leaves free
// pages inside the file, so the writes of a scenario never have to grow (re-map) the file.  bbolt
// cannot re-map while a read transaction is open, i.e. a Put that has to grow the file waits for
// every cursor scan in progress; that hole is exhibited by the dedicated "scanstall" scenario on a
// fresh file and kept out of all other scenarios, so that the rest of the behaviour stays reachable.
func vsvPad(path string) error {
	db, err := bolt.Open(path, boltdb.BoltStoreOpenPerm, nil)
	if err != nil {
		return err
	}
	defer db.Close()
	err = db.Update(func(tx *bolt.Tx) error {
		if _, err := tx.CreateBucketIfNotExists([]byte("beacons")); err != nil {
			return err
		}
		b, err := tx.CreateBucketIfNotExists([]byte("vsvpad"))
		if err != nil {
			return err
		}
		v := make([]byte, 4000)
		for i := 0; i < 96; i++ {
			if err := b.Put([]byte(fmt.Sprintf("k%04d", i)), v); err != nil {
				return err
			}
		}
		return nil
	})
	if err != nil {
		return err
	}
	return db.Update(func(tx *bolt.Tx) error { return tx.DeleteBucket([]byte("vsvpad")) })
}

func (s *vsvScn) open(n int, from uint64, l log.Logger) *vsvStream {
	k := n
	if s.same {
		k = 1
	}
	addr := fmt.Sprintf("vsv%d-c%d:4444", s.no, k)
	ctx, cancel := context.WithCancel(context.Background())
	ctx = peer.NewContext(ctx, &peer.Peer{Addr: vsvAddr(addr)})
	st := &vsvStream{sc: s, n: n, from: from, addr: addr, ctx: ctx, cancel: cancel, resume: make(chan struct{})}
	st.mode.Store("reading")
	s.mu.Lock()
	s.streams[n] = st
	s.mu.Unlock()
	s.tr.Emit("Open", vlib.E{"s": n, "from": from, "a": k})
	s.wg.Add(1)
	go func() {
		defer s.wg.Done()
		g := vsvGid()
		s.mu.Lock()
		s.gids[g] = n
		s.mu.Unlock()
		err := SyncChain(l, s.store, vsvReq{from}, st)
		st.ended.Store(true)
		cancel() // gRPC cancels the stream context when the handler returns
		if s.closed.Load() {
			return
		}
		why := "other"
		switch {
		case err == nil:
			why = "nil"
		case errors.Is(err, chainerrors.ErrNoBeaconStored):
			why = "refused"
		case errors.Is(err, ErrCallbackReplaced):
			why = "replaced"
		case errors.Is(err, errVsvSend):
			why = "senderr"
		case errors.Is(err, context.Canceled):
			why = "ctx"
		}
		s.tr.Emit("End", vlib.E{"s": n, "why": why})
		s.post(&vsvArr{point: "end", s: n, err: err})
	}()
	return st
}

// put starts callbackStore.Put(round) in its own goroutine.
// put starts callbackStore.Put(round) in its own goroutine.  mode "": live context; "stored": the
// context is cancelled inside the append.stored hook (the write is committed, the dispatch has not
// begun); "before": the context is already cancelled when Put is called.
func (s *vsvScn) put(r uint64, mode string) {
	b := &common.Beacon{Round: r, Signature: s.sig(r)}
	ctx, cancel := context.WithCancel(context.Background())
	s.tr.Emit("PutCall", vlib.E{"r": r, "dg": vsvDigest(s.sig(r))})
	key := "put"
	switch mode {
	case "stored":
		s.mu.Lock()
		s.cancelAtStored[r] = cancel
		s.mu.Unlock()
	case "before":
		s.tr.Emit("WCancel", vlib.E{"r": r, "at": "before"})
		cancel()
		key = "putx"
	}
	s.wg.Add(1)
	go func() {
		defer s.wg.Done()
		defer cancel()
		err := s.store.Put(ctx, b)
		if s.closed.Load() {
			return
		}
		res := "ok"
		if errors.Is(err, context.Canceled) {
			res = "canceled"
		} else if err != nil {
			res = "err"
		}
		s.tr.Emit("PutDone", vlib.E{"r": r, "res": res})
		close(s.chanFor(key, r))
		pt := "putdone"
		if mode == "before" {
			pt = "putaborted"
		}
		s.post(&vsvArr{point: pt, r: r, err: err})
	}()
}

func (s *vsvScn) wait(d time.Duration, match func(a *vsvArr) bool) *vsvArr {
	for i, a := range s.pending {
		if match(a) {
			s.pending = append(s.pending[:i], s.pending[i+1:]...)
			return a
		}
	}
	deadline := time.After(d)
	for {
		select {
		case a := <-s.events:
			if match(a) {
				return a
			}
			s.pending = append(s.pending, a)
		case <-deadline:
			return nil
		}
	}
}

// peek waits until a matching arrival exists but leaves it parked.
func (s *vsvScn) peek(d time.Duration, match func(a *vsvArr) bool) bool {
	a := s.wait(d, match)
	if a == nil {
		return false
	}
	s.pending = append(s.pending, a)
	return true
}

// vsvBlockedWhere inspects a goroutine dump: where is the goroutine that runs fn blocked?
func vsvBlockedWhere(dump, fn string) string {
	for _, g := range strings.Split(dump, "\n\n") {
		if !strings.Contains(g, fn) {
			continue
		}
		hdr := g
		if i := strings.Index(g, "\n"); i >= 0 {
			hdr = g[:i]
		}
		switch {
		case strings.Contains(g, "bbolt.(*DB).mmap"):
			return "bolt-remap"
		case strings.Contains(hdr, "chan send"):
			return "chan send"
		case strings.Contains(hdr, "RWMutex.RLock"), strings.Contains(hdr, "RWMutex.Lock"), strings.Contains(hdr, "sync.Mutex.Lock"), strings.Contains(hdr, "semacquire"):
			if strings.Contains(g, "RWMutex).RLock") {
				return "RLock"
			}
			return "Lock"
		case strings.Contains(hdr, "running"), strings.Contains(hdr, "runnable"):
			return "running"
		default:
			return "other:" + hdr
		}
	}
	return ""
}

// vsvIsPrimitive: the goroutine state found in a dump is a blocking primitive (not merely slow).
func vsvIsPrimitive(w string) bool {
	return w == "chan send" || w == "Lock" || w == "RLock" || w == "bolt-remap"
}

// blocked establishes whether the goroutine running fn is blocked: the awaited completion (ch) is
// waited for through vlib.Call; if it does not come, two goroutine dumps 100 ms apart must show
// that goroutine parked at the same blocking primitive.  A goroutine that is merely slow (running,
// runnable, in a syscall) is waited for; "unknown" after 20 s is reported as such, never as blocked.
func (s *vsvScn) blocked(fn string, ch <-chan struct{}) (string, bool) {
	for k := 0; k < 80; k++ {
		res := vlib.Call(150*time.Millisecond, func() {
			select {
			case <-ch:
			case <-s.tdown:
			}
		})
		if res.Returned {
			return "", false
		}
		w1 := vsvBlockedWhere(res.Stack, fn)
		if !vsvIsPrimitive(w1) {
			continue
		}
		time.Sleep(100 * time.Millisecond)
		select {
		case <-ch:
			return "", false
		default:
		}
		buf := make([]byte, 1<<20)
		n := runtime.Stack(buf, true)
		w2 := vsvBlockedWhere(string(buf[:n]), fn)
		if w1 == w2 {
			return w1, true
		}
	}
	return "unknown", true
}

// putFree performs one un-gated Put and reports where it is parked if it does not return.
func (s *vsvScn) putFree(r uint64) bool {
	b := &common.Beacon{Round: r, Signature: s.sig(r)}
	s.tr.Emit("PutCall", vlib.E{"r": r, "dg": vsvDigest(s.sig(r))})
	done := make(chan struct{})
	s.wg.Add(1)
	go func() {
		defer s.wg.Done()
		s.store.Put(context.Background(), b)
		close(done)
	}()
	if where, bl := s.blocked("(*callbackStore).Put(", done); bl {
		if where == "unknown" {
			s.tr.Emit("Diverged", vlib.E{"step": 0, "a": "Put", "s": 0, "x": r, "want": "completion or a blocking primitive"})
		} else {
			s.tr.Emit("PutBlocked", vlib.E{"r": r, "where": where})
		}
		return false
	}
	s.tr.Emit("PutDone", vlib.E{"r": r, "res": "ok"})
	return true
}

// settle waits until every stream that is still registered, open and healthy has been handed every
// beacon dispatched to its callback (state based, not time based); gives up after d.
func (s *vsvScn) settle(d time.Duration) {
	vlib.Eventually(d, func() bool {
		s.mu.Lock()
		defer s.mu.Unlock()
		for _, n := range s.regOwner {
			st := s.streams[n]
			if st == nil || st.ended.Load() || st.ctx.Err() != nil || st.mode.Load().(string) != "reading" {
				continue
			}
			if s.got[n] < s.expect[n] {
				return false
			}
		}
		return true
	})
}

func (s *vsvScn) chanFor(kind string, k uint64) chan struct{} {
	s.mu.Lock()
	defer s.mu.Unlock()
	key := kind + strconv.FormatUint(k, 10)
	c, ok := s.chans[key]
	if !ok {
		c = make(chan struct{})
		s.chans[key] = c
	}
	return c
}

func (s *vsvScn) teardown() {
	s.closed.Store(true)
	close(s.tdown)
	s.mu.Lock()
	for _, st := range s.streams {
		st.cancel()
	}
	s.mu.Unlock()
	done := make(chan struct{})
	go func() { s.wg.Wait(); close(done) }()
	select {
	case <-done:
	case <-time.After(2 * time.Second):
	}
	cl := make(chan struct{})
	go func() { s.store.Close(); close(cl) }()
	select {
	case <-cl:
	case <-time.After(time.Second):
	}
	vsvCur.Store(nil)
	if s.dir != "" {
		os.RemoveAll(s.dir)
	}
}

// ---------------------------------------------------------------- gated replay of a TLC behaviour

// vsvStepWait is how long the driver waits for an arrival that the specification predicts.  It only
// matters when the real code does something else (mutated code, model drift): the arrival of a
// DIFFERENT point of the same stream is recognised immediately, a missing arrival costs the timeout,
// which is halved (down to 1 s) after every expiry so that a systematically deviating tree stays cheap.
var vsvStepWait = 10 * time.Second

var vsvDivergences = 0

func vsvImpatient() {
	if vsvStepWait > time.Second {
		vsvStepWait /= 2
	}
}

// scanNext waits for the next arrival of stream n's SyncChain goroutine; ok iff it is one of want.
func (s *vsvScn) scanNext(n int, take bool, want ...string) (*vsvArr, bool) {
	a := s.wait(vsvStepWait, func(a *vsvArr) bool {
		return a.s == n && (a.point == "beforeScan" || a.point == "afterScan" || a.point == "end" ||
			a.point == "registered" || a.point == "send")
	})
	if a == nil {
		vsvImpatient()
		return nil, false
	}
	for _, w := range want {
		if a.point == w {
			if !take {
				s.pending = append(s.pending, a)
			}
			return a, true
		}
	}
	s.pending = append(s.pending, a)
	return a, false
}

func (s *vsvScn) diverge(i int, st vsvStep, want string) {
	if s.nondet {
		return // the behaviour contains a random choice of the real code (select): another legal branch was taken
	}
	if s.wblocked {
		// a Put is parked on a full queue: which of the other callbacks it served before is decided by
		// Go's map iteration order, the rest of the generated behaviour is one of several legal ones
		s.nondet = true
		return
	}
	s.diverged = true
	vsvDivergences++
	if vsvStepWait > 2*time.Second {
		vsvStepWait = 2 * time.Second
	}
	s.tr.Emit("Diverged", vlib.E{"step": i, "a": st.A, "s": st.S, "x": st.X, "want": want})
}

func vsvRun(tr *vlib.Trace, no int, sc vsvScript, workdir string, l log.Logger) {
	s, err := vsvNewScn(tr, no, sc, true, workdir, l)
	if err != nil {
		tr.Emit("Reset", vlib.E{"scenario": sc.Name, "error": err.Error()})
		return
	}
	defer s.teardown()
	s.nondet = sc.Nondet
	isS := func(pt string, n int) func(a *vsvArr) bool {
		return func(a *vsvArr) bool { return a.point == pt && a.s == n }
	}
	isR := func(pt string, r uint64) func(a *vsvArr) bool {
		return func(a *vsvArr) bool { return a.point == pt && a.r == r }
	}
	anyOf := func(n int, pts ...string) func(a *vsvArr) bool {
		return func(a *vsvArr) bool {
			if a.s != n {
				return false
			}
			for _, p := range pts {
				if a.point == p {
					return true
				}
			}
			return false
		}
	}
	wround := map[int]uint64{}
	writerBlocked := false
	hold := false
	for _, st := range sc.Steps {
		if st.A == "Release" {
			hold = true // the script schedules the release from serve.registered itself
		}
	}
steps:
	for i, st := range sc.Steps {
		switch st.A {
		case "Open":
			s.open(st.S, st.X, l)
			if _, ok := s.scanNext(st.S, false, "beforeScan", "afterScan", "end"); !ok {
				s.diverge(i, st, "beforeScan|afterScan|end")
				break steps
			}
		case "ScanBegin":
			a, ok := s.scanNext(st.S, true, "beforeScan")
			if !ok {
				s.diverge(i, st, "beforeScan")
				break steps
			}
			a.rel <- nil
			if _, ok := s.scanNext(st.S, false, "send", "afterScan", "end"); !ok {
				s.diverge(i, st, "send|afterScan|end")
				break steps
			}
		case "ScanSend", "Deliver":
			var a *vsvArr
			if st.A == "ScanSend" {
				var ok bool
				if a, ok = s.scanNext(st.S, true, "send", "end"); !ok {
					s.diverge(i, st, "send")
					break steps
				}
			} else if a = s.wait(vsvStepWait, anyOf(st.S, "send", "end")); a == nil {
				vsvImpatient()
				s.diverge(i, st, "send")
				break steps
			}
			if a.point == "end" { // the stream returned by itself (cancelled context): the End step consumes it
				s.pending = append(s.pending, a)
				continue
			}
			a.rel <- nil
			if st.A == "ScanSend" {
				if _, ok := s.scanNext(st.S, false, "send", "afterScan", "end"); !ok {
					s.diverge(i, st, "send|afterScan|end")
					break steps
				}
			} else {
				// the worker returns from the callback; make the completion observable
				time.Sleep(200 * time.Microsecond)
			}
		case "Register":
			a, ok := s.scanNext(st.S, true, "afterScan")
			if !ok {
				s.diverge(i, st, "afterScan")
				break steps
			}
			a.rel <- nil
			if where, b := s.blocked("(*callbackStore).AddCallback(", s.chanFor("reg", uint64(st.S))); b {
				if where == "unknown" {
					s.diverge(i, st, "registered or a blocking primitive")
					break steps
				}
				s.tr.Emit("StreamBlocked", vlib.E{"s": st.S, "where": where})
			} else if !hold {
				if r := s.wait(vsvStepWait, isS("registered", st.S)); r != nil {
					r.rel <- nil
				}
			}
		case "Registered":
			if !s.peek(vsvStepWait, isS("registered", st.S)) {
				s.diverge(i, st, "registered")
				break steps
			}
			if !hold {
				s.wait(time.Second, isS("registered", st.S)).rel <- nil
			}
		case "Release":
			a := s.wait(vsvStepWait, isS("registered", st.S))
			if a == nil {
				s.diverge(i, st, "registered")
				break steps
			}
			a.rel <- nil
		case "PutAborted":
			s.put(st.X, "before")
			if s.wait(vsvStepWait, isR("putaborted", st.X)) == nil {
				vsvImpatient()
				s.diverge(i, st, "putaborted")
				break steps
			}
		case "Store", "StoreC":
			wround[st.W] = st.X
			if st.A == "StoreC" {
				s.put(st.X, "stored")
			} else {
				s.put(st.X, "")
			}
			if !s.peek(vsvStepWait, func(a *vsvArr) bool {
				return (a.point == "beforeDispatch" || a.point == "putdone") && a.r == st.X
			}) {
				s.diverge(i, st, "beforeDispatch")
				break steps
			}
		case "RLock":
			a := s.wait(vsvStepWait, func(a *vsvArr) bool {
				return (a.point == "beforeDispatch" || a.point == "putdone") && a.r == st.X
			})
			if a == nil || a.point == "putdone" {
				if a != nil { // the Put returned without dispatching
					s.pending = append(s.pending, a)
				}
				s.diverge(i, st, "beforeDispatch")
				break steps
			}
			a.rel <- nil
			if !s.peek(vsvStepWait, isR("dispatch", st.X)) {
				s.diverge(i, st, "dispatch")
				break steps
			}
		case "Dispatch", "DispatchBlocked":
			if a := s.wait(vsvStepWait, isR("dispatch", st.X)); a != nil {
				a.rel <- nil
			} else if !writerBlocked {
				s.diverge(i, st, "dispatch")
				break steps
			}
			if where, b := s.blocked("(*callbackStore).Put(", s.chanFor("put", st.X)); b {
				if where == "unknown" {
					s.diverge(i, st, "putdone or a blocking primitive")
					break steps
				}
				writerBlocked = true
				s.wblocked = true
				s.tr.Emit("PutBlocked", vlib.E{"r": st.X, "where": where})
			} else {
				writerBlocked = false
				s.wait(time.Second, isR("putdone", st.X))
			}
		case "WorkTake":
			if st.X == 0 {
				time.Sleep(200 * time.Microsecond) // close pair: nothing to observe here
				continue
			}
			stm := s.streams[st.S]
			if stm != nil && stm.ctx.Err() != nil {
				time.Sleep(200 * time.Microsecond) // dropped by the callback's context check
				continue
			}
			w := vsvStepWait
			if writerBlocked {
				w = 300 * time.Millisecond
			}
			// the worker either enters Send or - when SyncChain has returned meanwhile (the two run
			// concurrently) - drops the beacon at the callback's context check
			got := false
			for dl := time.Now().Add(w); time.Now().Before(dl); {
				if s.peek(20*time.Millisecond, isS("send", st.S)) {
					got = true
					break
				}
				if stm != nil && (stm.ended.Load() || stm.ctx.Err() != nil) {
					if s.peek(20*time.Millisecond, isS("send", st.S)) {
						got = true
					}
					break
				}
			}
			if !got && !writerBlocked && !(stm != nil && (stm.ended.Load() || stm.ctx.Err() != nil)) {
				vsvImpatient()
				s.diverge(i, st, "send")
				break steps
			}
		case "End":
			a := s.wait(vsvStepWait, isS("end", st.S))
			if a == nil {
				s.diverge(i, st, "end")
				break steps
			}
		case "stall", "disc":
			mode := "stalled"
			if st.A == "disc" {
				mode = "disc"
			}
			s.streams[st.S].mode.Store(mode)
			s.tr.Emit("Fault", vlib.E{"s": st.S, "k": st.A})
		case "cancel":
			s.tr.Emit("Fault", vlib.E{"s": st.S, "k": "cancel"})
			s.streams[st.S].cancel()
		case "end":
		}
	}
	s.quiesce(sc, 30*time.Millisecond)
}

// quiesce records the final observation of a scenario: what is still parked / running.
func (s *vsvScn) quiesce(sc vsvScript, settle time.Duration) {
	// collect late arrivals
	for {
		a := s.wait(settle, func(*vsvArr) bool { return false })
		if a == nil {
			break
		}
	}
	parked := [][]any{}
	for _, a := range s.pending {
		if a.rel != nil && a.point != "wake" {
			parked = append(parked, []any{a.point, a.s, a.r})
		}
	}
	exp := vlib.E{"parked": parked, "diverged": s.diverged, "nondet": s.nondet}
	if sc.Sent != nil {
		exp["xsent"] = sc.Sent
		exp["xwhy"] = sc.Why
		exp["xtags"] = sc.Tags
	}
	s.tr.Emit("Quiesce", exp)
}

// ---------------------------------------------------------------- un-gated concurrent soak

// vsvSoak: a writer appends while several clients connect, read for a while, disconnect and
// reconnect (own address each: no replacement; or one shared address).  Nothing is gated; the
// order of the events is the order of the trace sequence numbers taken inside Send / the hooks.
func vsvSoak(tr *vlib.Trace, no int, name, backend string, seed int64, nclients, nputs int, same bool, workdir string, l log.Logger) {
	sc := vsvScript{Name: name, Backend: backend, Init: 12, SameAddr: same, Buf: 4000}
	s, err := vsvNewScn(tr, no, sc, false, workdir, l)
	if err != nil {
		tr.Emit("Reset", vlib.E{"scenario": name, "error": err.Error()})
		return
	}
	defer s.teardown()
	rng := rand.New(rand.NewSource(seed))
	var wg sync.WaitGroup
	stop := make(chan struct{})
	var nstream atomic.Int32
	var headNow atomic.Uint64
	headNow.Store(sc.Init)
	for c := 0; c < nclients; c++ {
		wg.Add(1)
		crng := rand.New(rand.NewSource(rng.Int63()))
		go func() {
			defer wg.Done()
			for {
				select {
				case <-stop:
					return
				default:
				}
				n := int(nstream.Add(1))
				h := headNow.Load()
				var from uint64
				switch crng.Intn(4) {
				case 0:
					from = 0
				case 1:
					from = h
				case 2:
					from = 1 + uint64(crng.Intn(int(h)))
				default:
					from = h + 1
				}
				st := s.open(n, from, l)
				life := time.Duration(1+crng.Intn(12)) * time.Millisecond
				select {
				case <-stop:
					return // keep the last stream of each client open until the end
				case <-time.After(life):
				}
				if crng.Intn(3) == 0 {
					s.tr.Emit("Fault", vlib.E{"s": n, "k": "disc"})
					st.mode.Store("disc")
				} else {
					s.tr.Emit("Fault", vlib.E{"s": n, "k": "cancel"})
					st.cancel()
				}
				vlib.Eventually(2*time.Second, func() bool { return st.ended.Load() })
			}
		}()
	}
	for r := sc.Init + 1; r <= sc.Init+uint64(nputs); r++ {
		if !s.putFree(r) {
			break
		}
		headNow.Store(r)
		time.Sleep(time.Duration(rng.Intn(1500)) * time.Microsecond)
	}
	close(stop)
	wg.Wait()
	s.settle(15 * time.Second)
	s.tr.Emit("Quiesce", vlib.E{"parked": [][]any{}, "diverged": false})
}

// vsvStall: free-running scenario at the REAL queue capacity: one stream's consumer stops reading,
// a second healthy stream is attached, the writer appends CallbackWorkerQueue+k beacons, then a
// third client tries to connect.
func vsvStall(tr *vlib.Trace, no int, name, backend string, extra int, workdir string, l log.Logger) {
	sc := vsvScript{Name: name, Backend: backend, Init: 3, Buf: 4000}
	s, err := vsvNewScn(tr, no, sc, false, workdir, l)
	if err != nil {
		tr.Emit("Reset", vlib.E{"scenario": name, "error": err.Error()})
		return
	}
	defer s.teardown()
	a := s.open(1, 0, l)
	s.open(2, 2, l)
	reg := func(n int) bool {
		select {
		case <-s.chanFor("reg", uint64(n)):
			return true
		case <-time.After(2 * time.Second):
			return false
		}
	}
	reg(1)
	reg(2)
	s.tr.Emit("Fault", vlib.E{"s": 1, "k": "stall"})
	a.mode.Store("stalled")
	blockedAt := uint64(0)
	for r := sc.Init + 1; r <= sc.Init+uint64(CallbackWorkerQueue+extra); r++ {
		if !s.putFree(r) {
			blockedAt = r
			break
		}
	}
	if blockedAt != 0 {
		// a new client while the writer is wedged
		s.open(3, 1, l)
		if where, bl := s.blocked("(*callbackStore).AddCallback(", s.chanFor("reg", 3)); bl {
			s.tr.Emit("StreamBlocked", vlib.E{"s": 3, "where": where})
		}
	}
	s.settle(10 * time.Second)
	s.tr.Emit("Quiesce", vlib.E{"parked": [][]any{}, "diverged": false})
}

// vsvScanStall: a client whose consumer stops reading DURING the catch-up scan (the cursor's read
// transaction stays open) while the writer appends to a bolt file of production size (fresh).
func vsvScanStall(tr *vlib.Trace, no int, name, backend string, nputs int, workdir string, l log.Logger) {
	sc := vsvScript{Name: name, Backend: backend, Init: 3, Buf: 4000, Fresh: true}
	s, err := vsvNewScn(tr, no, sc, false, workdir, l)
	if err != nil {
		tr.Emit("Reset", vlib.E{"scenario": name, "error": err.Error()})
		return
	}
	defer s.teardown()
	st := s.open(1, 1, l)
	st.mode.Store("stalled")
	s.tr.Emit("Fault", vlib.E{"s": 1, "k": "stall"})
	vlib.Eventually(2*time.Second, func() bool { return s.tr.Len() >= 5 }) // Reset Open Fault BeforeScan SendEnter
	for r := sc.Init + 1; r <= sc.Init+uint64(nputs); r++ {
		if !s.putFree(r) {
			break
		}
	}
	s.tr.Emit("Quiesce", vlib.E{"parked": [][]any{}, "diverged": false})
}

// vsvSlowResume: a live stream whose client stops reading while the writer (its own goroutine)
// appends CallbackWorkerQueue+extra beacons, and then resumes.  Whatever the writer does meanwhile
// (on the unchanged tree it parks on the full queue until the client reads again), the client must
// afterwards be handed every round, once, in order.
func vsvSlowResume(tr *vlib.Trace, no int, name, backend string, extra int, workdir string, l log.Logger) {
	sc := vsvScript{Name: name, Backend: backend, Init: 3, Buf: 4000}
	s, err := vsvNewScn(tr, no, sc, false, workdir, l)
	if err != nil {
		tr.Emit("Reset", vlib.E{"scenario": name, "error": err.Error()})
		return
	}
	defer s.teardown()
	a := s.open(1, 0, l)
	select {
	case <-s.chanFor("reg", 1):
	case <-time.After(5 * time.Second):
	}
	// two beacons while the client still reads
	for r := sc.Init + 1; r <= sc.Init+2; r++ {
		s.putFree(r)
	}
	s.settle(5 * time.Second)
	s.tr.Emit("Fault", vlib.E{"s": 1, "k": "stall"})
	a.mode.Store("stalled")
	var cur atomic.Uint64
	writerDone := make(chan struct{})
	last := sc.Init + 2 + uint64(CallbackWorkerQueue+extra)
	s.wg.Add(1)
	go func() {
		defer s.wg.Done()
		defer close(writerDone)
		for r := sc.Init + 3; r <= last; r++ {
			cur.Store(r)
			b := &common.Beacon{Round: r, Signature: s.sig(r)}
			s.tr.Emit("PutCall", vlib.E{"r": r, "dg": vsvDigest(s.sig(r))})
			err := s.store.Put(context.Background(), b)
			if s.closed.Load() {
				return
			}
			res := "ok"
			if err != nil {
				res = "err"
			}
			s.tr.Emit("PutDone", vlib.E{"r": r, "res": res})
		}
	}()
	if where, bl := s.blocked("(*callbackStore).Put(", writerDone); bl && where != "unknown" {
		s.tr.Emit("PutBlocked", vlib.E{"r": cur.Load(), "where": where})
	}
	// the client reads again
	s.tr.Emit("Fault", vlib.E{"s": 1, "k": "resume"})
	a.mode.Store("reading")
	close(a.resume)
	select {
	case <-writerDone:
	case <-time.After(30 * time.Second):
		s.tr.Emit("Diverged", vlib.E{"step": 0, "a": "writer", "s": 0, "x": cur.Load(), "want": "writer finishes after the client resumed"})
	}
	// two more beacons once the client keeps up again
	for r := last + 1; r <= last+2; r++ {
		if !s.putFree(r) {
			break
		}
	}
	s.settle(10 * time.Second)
	s.tr.Emit("Quiesce", vlib.E{"parked": [][]any{}, "diverged": false})
}

// vsvReplStall: same-address replacement while the predecessor's consumer is stalled (real queue
// capacity, far fewer than CallbackWorkerQueue beacons): stream A goes live, its consumer stops
// reading, `pre` beacons are stored (A's worker is stuck in Send on the first, the others wait in A's
// queue), stream B connects from the SAME address (fromB = 0: live only, else scan + live) and
// `post` beacons are stored.  B is healthy: it must be handed every beacon dispatched to it.
func vsvReplStall(tr *vlib.Trace, no int, name, backend string, pre, post int, fromB uint64, workdir string, l log.Logger) {
	sc := vsvScript{Name: name, Backend: backend, Init: 3, Buf: 4000, SameAddr: true}
	s, err := vsvNewScn(tr, no, sc, false, workdir, l)
	if err != nil {
		tr.Emit("Reset", vlib.E{"scenario": name, "error": err.Error()})
		return
	}
	defer s.teardown()
	reg := func(n int) bool {
		select {
		case <-s.chanFor("reg", uint64(n)):
			return true
		case <-time.After(5 * time.Second):
			return false
		}
	}
	a := s.open(1, 0, l)
	reg(1)
	s.tr.Emit("Fault", vlib.E{"s": 1, "k": "stall"})
	a.mode.Store("stalled")
	r := sc.Init
	for k := 0; k < pre; k++ {
		r++
		if !s.putFree(r) {
			break
		}
	}
	// A's worker is inside Send now
	vlib.Eventually(5*time.Second, func() bool {
		s.mu.Lock()
		defer s.mu.Unlock()
		return pre == 0 || s.entered[1] > 0
	})
	s.open(2, fromB, l)
	if !reg(2) {
		if where, bl := s.blocked("(*callbackStore).AddCallback(", s.chanFor("reg", 2)); bl && where != "unknown" {
			s.tr.Emit("StreamBlocked", vlib.E{"s": 2, "where": where})
		}
	}
	for k := 0; k < post; k++ {
		r++
		if !s.putFree(r) {
			break
		}
	}
	s.settle(10 * time.Second)
	s.tr.Emit("Quiesce", vlib.E{"parked": [][]any{}, "diverged": false})
}

func vsvHas(sel, tok string) bool {
	for _, t := range strings.Split(sel, ",") {
		if t == tok {
			return true
		}
	}
	return false
}

// ---------------------------------------------------------------- entry point

func TestVerifServe(t *testing.T) {
	if os.Getenv("VERIF_OUT") == "" {
		t.Skip("verif harness only")
	}
	tr := vlib.MustOpenTraceEnv()
	defer tr.Close()
	seed := int64(vlib.EnvInt("VERIF_SEED", 1))
	quick := vlib.EnvStr("VERIF_TIER", "quick") == "quick"
	workdir := filepath.Dir(os.Getenv("VERIF_OUT"))
	if d := os.Getenv("VERIF_DBDIR"); d != "" {
		// database files of the scenarios (fsync on the work disk costs ~0.1 s per Put)
		workdir = filepath.Join(d, fmt.Sprintf("vsv-%d", os.Getpid()))
		if err := os.MkdirAll(workdir, 0o755); err != nil {
			t.Fatal(err)
		}
		defer os.RemoveAll(workdir)
	}
	shard := vlib.EnvInt("VERIF_SHARD", 0)
	l := log.New(nil, log.ErrorLevel, false)
	sched := vlib.NewSched()
	defer sched.Uninstall()
	for _, p := range []string{"append.stored", "cb.beforeDispatch", "cb.dispatch", "cb.add", "cb.remove",
		"serve.beforeScan", "serve.afterScan", "serve.registered"} {
		p := p
		sched.OnPoint(p, func(args []any) { vsvAt(p, args) })
	}
	no := shard * 1000000
	if in := os.Getenv("VERIF_IN"); in != "" {
		lines, err := vlib.LoadJSONLines(in)
		if err != nil {
			t.Fatal(err)
		}
		for _, ln := range lines {
			var sc vsvScript
			if err := json.Unmarshal(ln, &sc); err != nil {
				t.Fatal(err)
			}
			no++
			if vsvDivergences > 60 {
				tr.Emit("Reset", vlib.E{"scenario": sc.Name, "error": "skipped: too many divergences before"})
				continue
			}
			vsvRun(tr, no, sc, workdir, l)
		}
	}
	if os.Getenv("VERIF_NOBUILTIN") != "" {
		return
	}
	sel := vlib.EnvStr("VERIF_VSV_BUILTIN", "stall,scanstall,soak")
	backends := []string{"bolt"}
	if !quick {
		backends = []string{"bolt", "boltu", "mem"}
	}
	if b := os.Getenv("VERIF_VSV_BACKENDS"); b != "" {
		backends = strings.Split(b, ",")
	}
	for _, be := range backends {
		if vsvHas(sel, "slowresume") {
			no++
			vsvSlowResume(tr, no, "builtin-slowresume-"+be, be, 8, workdir, l)
		}
		if vsvHas(sel, "replstall") {
			no++
			vsvReplStall(tr, no, "builtin-replstall-busy-"+be, be, 1, 5, 0, workdir, l)
			no++
			vsvReplStall(tr, no, "builtin-replstall-queued-"+be, be, 4, 6, 2, workdir, l)
		}
		if vsvHas(sel, "scanstall") {
			no++
			vsvScanStall(tr, no, "builtin-scanstall-"+be, be, 400, workdir, l)
		}
		if vsvHas(sel, "stall") {
			no++
			vsvStall(tr, no, "builtin-stall-"+be, be, 5, workdir, l)
		}
		if !vsvHas(sel, "soak") {
			continue
		}
		nsoak, nputs := 2, 60
		if !quick {
			nsoak, nputs = 6, 200
		}
		for k := 0; k < nsoak; k++ {
			no++
			vsvSoak(tr, no, fmt.Sprintf("soak-%s-%d", be, k), be, seed*1000+int64(k), 4, nputs, false, workdir, l)
		}
		no++
		vsvSoak(tr, no, fmt.Sprintf("soaksame-%s-%d", be, 0), be, seed*1000+77, 3, nputs, true, workdir, l)
	}
}
