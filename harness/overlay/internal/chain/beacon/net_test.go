package beacon

// Overlay harness (injected by /verif): an in-memory network of REAL beacon
// Handlers with real threshold BLS, fake clocks and harness-controlled message
// delivery.  Scripts (TLC behaviours or seeded drivers) are interpreted step by
// step; every linearization point is recorded in an ndjson trace that TLC
// validates against spec/Beacon.tla (Trace_Beacon.tla).  Nothing is asserted here.

import (
	"bytes"
	"context"
	"crypto/sha256"
	"encoding/binary"
	"encoding/hex"
	"encoding/json"
	"errors"
	"fmt"
	"math/rand"
	"os"
	"sort"
	"sync"
	"sync/atomic"
	"testing"
	"time"

	clock "github.com/jonboulle/clockwork"
	"google.golang.org/grpc"
	"google.golang.org/grpc/peer"

	"github.com/drand/drand/v2/common"
	dchain "github.com/drand/drand/v2/common/chain"
	"github.com/drand/drand/v2/common/key"
	"github.com/drand/drand/v2/common/log"
	"github.com/drand/drand/v2/crypto"
	"github.com/drand/drand/v2/internal/chain"
	"github.com/drand/drand/v2/internal/chain/boltdb"
	"github.com/drand/drand/v2/internal/chain/memdb"
	"github.com/drand/drand/v2/internal/net"
	"github.com/drand/drand/v2/internal/vlib"
	proto "github.com/drand/drand/v2/protobuf/drand"
	"github.com/drand/kyber"
	"github.com/drand/kyber/share"
	"github.com/drand/kyber/share/dkg"
	"github.com/drand/kyber/util/random"
)

// ---------------------------------------------------------------- helpers

func vnDigest(b []byte) string {
	if len(b) == 0 {
		return "-"
	}
	h := sha256.Sum256(b)
	return hex.EncodeToString(h[:5])
}

type vnAddr string

func (a vnAddr) Network() string { return "vn" }
func (a vnAddr) String() string  { return string(a) }

// ---------------------------------------------------------------- network

type vnMsg struct {
	id       int
	from, to int
	pkt      *proto.PartialBeaconPacket
}

type vnEpoch struct {
	group  *key.Group
	shares map[int]*key.Share // by share index
	pub    *share.PubPoly
	// ghost: points of the SAME polynomial at indices that belong to no member of this epoch (a share that was never
	// handed out; a partial made with it verifies against the public polynomial but comes from no member)
	ghost map[int]*share.PriShare
}

const vnGhostMax = 9

// vnSplit separates the evaluations of vnPoly into member shares and ghost points.
func vnSplit(all map[int]*share.PriShare, members []int) (map[int]*share.PriShare, map[int]*share.PriShare) {
	mem, ghost := map[int]*share.PriShare{}, map[int]*share.PriShare{}
	is := map[int]bool{}
	for _, i := range members {
		is[i] = true
	}
	for i, s := range all {
		if is[i] {
			mem[i] = s
		} else {
			ghost[i] = s
		}
	}
	return mem, ghost
}

func vnWithGhosts(idxs []int) []int {
	out := append([]int{}, idxs...)
	have := map[int]bool{}
	for _, i := range idxs {
		have[i] = true
	}
	for i := 0; i <= vnGhostMax; i++ {
		if !have[i] {
			out = append(out, i)
		}
	}
	return out
}

type vnNode struct {
	idx     int // position in vn.nodes (stable identity "node i")
	pair    *key.Pair
	clk     *clock.FakeClock
	base    *vnStore
	h       *Handler
	up      bool
	epoch   int // epoch of the handler's *initial* share
	addr    string
	corrupt bool
}

type vnNet struct {
	t        *testing.T
	mu       sync.Mutex
	tr       *vlib.Trace
	sch      *crypto.Scheme
	chained  bool
	nodes    []*vnNode
	byAddr   map[string]*vnNode
	inflight []*vnMsg
	nextID   int
	epochs   []*vnEpoch
	secret   kyber.Scalar
	period   int64
	catchup  int64
	genesis  int64 // unix
	backend  string
	dir      string
	part     map[int]int // node -> partition id (nil = all connected)
	blackhole bool       // partitioned sync streams stay open and silent instead of failing
	sched    *vlib.Sched
	activity int64
	// counters for settle(), by node address
	cnt map[string]*vnCnt
	// sync streams
	syncOpen int64
	wants    sync.Map // goroutine id -> vnWant
	forgeN   int64 // forged sync answers so far (selects the next forgery kind)
	parkedRun func(addr string) int64 // goroutines of the run loop parked at a gate
	info     *dchain.Info
	rng      *rand.Rand
}

type vnCnt struct {
	runIdle, runTick, runCatchup     int64
	aggIdle, aggSubmit, putsOK       int64
	bcastPeers, sends                int64
	catchupArmed, catchupFired       int64
	lastSubmitFrom                   atomic.Value
}

func (vn *vnNet) c(addr string) *vnCnt {
	vn.mu.Lock()
	defer vn.mu.Unlock()
	c, ok := vn.cnt[addr]
	if !ok {
		c = &vnCnt{}
		vn.cnt[addr] = c
	}
	return c
}

func (vn *vnNet) T(n *vnNode) int64 { return n.clk.Now().Unix() - vn.genesis }

func (vn *vnNet) act() { atomic.AddInt64(&vn.activity, 1) }

// installHooks wires the vhook points to counters and trace stamps.
func (vn *vnNet) installHooks() {
	s := vlib.NewSched()
	vn.sched = s
	cnt := func(point string, f func(c *vnCnt, a []any)) {
		s.OnPoint(point, func(a []any) {
			vn.act()
			if len(a) == 0 {
				return
			}
			addr, _ := a[0].(string)
			f(vn.c(addr), a)
		})
	}
	cnt("run.idle", func(c *vnCnt, a []any) { atomic.AddInt64(&c.runIdle, 1) })
	cnt("run.tick", func(c *vnCnt, a []any) {
		atomic.AddInt64(&c.runTick, 1)
		if n := vn.byAddr[a[0].(string)]; n != nil {
			vn.tr.Emit("Tick", vlib.E{"node": n.idx, "round": a[1].(uint64), "clock": vn.T(n)})
		}
	})
	cnt("run.catchup", func(c *vnCnt, a []any) {
		atomic.AddInt64(&c.runCatchup, 1)
		b, cur := a[1].(uint64), a[2].(uint64)
		if b < cur {
			atomic.AddInt64(&c.catchupArmed, 1)
		}
		if n := vn.byAddr[a[0].(string)]; n != nil {
			vn.tr.Emit("Catchup", vlib.E{"node": n.idx, "b": b, "cur": cur, "clock": vn.T(n)})
		}
	})
	cnt("run.catchupFire", func(c *vnCnt, a []any) {
		atomic.AddInt64(&c.catchupFired, 1)
		if n := vn.byAddr[a[0].(string)]; n != nil {
			vn.tr.Emit("CatchupFire", vlib.E{"node": n.idx, "upon": a[1].(uint64), "clock": vn.T(n)})
		}
	})
	cnt("run.broadcast", func(c *vnCnt, a []any) {
		atomic.AddInt64(&c.bcastPeers, int64(a[2].(int)-1))
		if n := vn.byAddr[a[0].(string)]; n != nil {
			vn.tr.Emit("Bcast", vlib.E{"node": n.idx, "round": a[1].(uint64), "clock": vn.T(n)})
		}
	})
	cnt("agg.idle", func(c *vnCnt, a []any) { atomic.AddInt64(&c.aggIdle, 1) })
	cnt("agg.submit", func(c *vnCnt, a []any) {
		atomic.AddInt64(&c.aggSubmit, 1)
		c.lastSubmitFrom.Store(fmt.Sprintf("%s/%d", a[1].(string), a[2].(uint64)))
	})
	// the Put that follows on the same goroutine is the aggregator's / the sync manager's write of that round
	cnt("agg.beforeAppend", func(c *vnCnt, a []any) { vn.wants.Store(vlib.GoID(), vnWant{"agg", a[1].(uint64)}) })
	cnt("sync.beforePut", func(c *vnCnt, a []any) { vn.wants.Store(vlib.GoID(), vnWant{"sync", a[1].(uint64)}) })
	for _, p := range []string{"append.locked", "append.stored", "cb.beforeDispatch", "cb.dispatch", "cb.add", "serve.afterScan", "serve.registered"} {
		s.OnPoint(p, func(a []any) { vn.act() })
	}
}

// settle waits until every running node has finished reacting.
func (vn *vnNet) settle() bool {
	deadline := time.Now().Add(vlib.Stretch(6 * time.Second))
	stable := 0
	last := int64(-1)
	for {
		ok := true
		for _, n := range vn.nodes {
			if !n.up || n.h == nil {
				continue
			}
			c := vn.c(n.addr)
			var pk int64
			if vn.parkedRun != nil {
				pk = vn.parkedRun(n.addr)
			}
			if atomic.LoadInt64(&c.runIdle)+pk < 1+atomic.LoadInt64(&c.runTick)+atomic.LoadInt64(&c.runCatchup) {
				ok = false
			}
			if atomic.LoadInt64(&c.aggIdle) < 1+atomic.LoadInt64(&c.aggSubmit)+atomic.LoadInt64(&c.putsOK) {
				ok = false
			}
			if atomic.LoadInt64(&c.sends) < atomic.LoadInt64(&c.bcastPeers) {
				ok = false
			}
		}
		a := atomic.LoadInt64(&vn.activity)
		if ok && a == last {
			stable++
		} else {
			stable = 0
		}
		last = a
		need := 4
		if atomic.LoadInt64(&vn.syncOpen) > 0 {
			need = 12
		}
		if stable >= need {
			return true
		}
		if time.Now().After(deadline) {
			vn.tr.Emit("SettleTimeout", vlib.E{})
			return false
		}
		time.Sleep(time.Millisecond)
	}
}

// ---------------------------------------------------------------- store wrapper

type vnStore struct {
	chain.Store
	vn   *vnNet
	node *vnNode
	// mu makes "inner Put + StorePut event" one atomic step with respect to readers, so that the
	// trace order is a linearization (a reader can never observe a beacon before its StorePut line).
	mu sync.RWMutex
}

func (s *vnStore) Last(ctx context.Context) (*common.Beacon, error) {
	s.mu.RLock()
	defer s.mu.RUnlock()
	return s.Store.Last(ctx)
}

func (s *vnStore) Get(ctx context.Context, round uint64) (*common.Beacon, error) {
	s.mu.RLock()
	defer s.mu.RUnlock()
	return s.Store.Get(ctx, round)
}

func (s *vnStore) Cursor(ctx context.Context, fn func(context.Context, chain.Cursor) error) error {
	s.mu.RLock()
	defer s.mu.RUnlock()
	return s.Store.Cursor(ctx, fn)
}

func (s *vnStore) Put(ctx context.Context, b *common.Beacon) error {
	vn := s.vn
	verifies := false
	if b.Round > 0 {
		chk := &common.Beacon{Round: b.Round, Signature: b.Signature, PreviousSig: b.PreviousSig}
		verifies = vn.sch.VerifyBeacon(chk, vn.info.PublicKey) == nil
	}
	s.mu.Lock()
	defer s.mu.Unlock()
	err := s.Store.Put(ctx, b)
	vn.act()
	c := vn.c(s.node.addr)
	aw, sw := false, false
	if w, ok := vn.wants.Load(vlib.GoID()); ok && b.Round > 0 && w.(vnWant).round == b.Round {
		vn.wants.Delete(vlib.GoID())
		aw, sw = w.(vnWant).kind == "agg", w.(vnWant).kind == "sync"
	}
	res := "ok"
	if err != nil {
		res = "err"
	}
	vn.tr.Emit("StorePut", vlib.E{"node": s.node.idx, "round": b.Round, "sigd": vnDigest(b.Signature), "prevd": vnDigest(b.PreviousSig),
		"verifies": verifies, "res": res, "agg": aw, "sync": sw, "clock": vn.T(s.node)})
	if err == nil && b.Round != 0 {
		atomic.AddInt64(&c.putsOK, 1)
	}
	return err
}

// ---------------------------------------------------------------- protocol client

type vnClient struct {
	vn   *vnNet
	from *vnNode
}

func (c *vnClient) GetIdentity(ctx context.Context, p net.Peer, in *proto.IdentityRequest, opts ...net.CallOption) (*proto.IdentityResponse, error) {
	return nil, errors.New("not implemented")
}

func (c *vnClient) Status(context.Context, net.Peer, *proto.StatusRequest, ...grpc.CallOption) (*proto.StatusResponse, error) {
	return nil, errors.New("not implemented")
}

func (c *vnClient) Check(ctx context.Context, p net.Peer) error { return nil }

func (c *vnClient) connected(to *vnNode) bool {
	vn := c.vn
	if to == nil || !to.up {
		return false
	}
	if vn.part == nil {
		return true
	}
	return vn.part[c.from.idx] == vn.part[to.idx]
}

func (c *vnClient) PartialBeacon(ctx context.Context, p net.Peer, in *proto.PartialBeaconPacket, opts ...net.CallOption) error {
	vn := c.vn
	vn.act()
	vn.mu.Lock()
	to := vn.byAddr[p.Address()]
	ok := c.connected(to)
	toIdx := -1
	if to != nil {
		toIdx = to.idx
	}
	id := 0
	if ok {
		vn.nextID++
		id = vn.nextID
		cp := &proto.PartialBeaconPacket{Round: in.Round, PreviousSignature: append([]byte{}, in.PreviousSignature...),
			PartialSig: append([]byte{}, in.PartialSig...), Metadata: in.Metadata}
		vn.inflight = append(vn.inflight, &vnMsg{id: id, from: c.from.idx, to: to.idx, pkt: cp})
	}
	vn.mu.Unlock()
	sigEpoch := -1
	for e := len(vn.epochs) - 1; e >= 0; e-- {
		if vn.partialValid(e, in.Round, in.PreviousSignature, in.PartialSig) {
			sigEpoch = e
			break
		}
	}
	vn.tr.Emit("Send", vlib.E{"from": c.from.idx, "to": toIdx, "round": in.Round, "prevd": vnDigest(in.PreviousSignature),
		"clock": vn.T(c.from), "msg": id, "dropped": !ok, "sigEpoch": sigEpoch})
	atomic.AddInt64(&vn.c(c.from.addr).sends, 1)
	if !ok {
		return errors.New("vn: peer unreachable")
	}
	return nil
}

type vnStream struct {
	ctx  context.Context
	ch   chan *proto.BeaconPacket
	vn   *vnNet
	srv  *vnNode
	cli  *vnNode
	sent int
}

func (s *vnStream) Context() context.Context { return s.ctx }
func (s *vnStream) Send(b *proto.BeaconPacket) error {
	s.vn.act()
	select {
	case <-s.ctx.Done():
		return s.ctx.Err()
	default:
	}
	s.vn.tr.Emit("SyncItem", vlib.E{"peer": s.srv.idx, "node": s.cli.idx, "round": b.Round, "sigd": vnDigest(b.Signature)})
	select {
	case s.ch <- b:
		return nil
	case <-s.ctx.Done():
		return s.ctx.Err()
	}
}

func (c *vnClient) SyncChain(ctx context.Context, p net.Peer, in *proto.SyncRequest, opts ...net.CallOption) (chan *proto.BeaconPacket, error) {
	vn := c.vn
	vn.act()
	vn.mu.Lock()
	to := vn.byAddr[p.Address()]
	ok := c.connected(to) && to.h != nil
	vn.mu.Unlock()
	toIdx := -1
	if to != nil {
		toIdx = to.idx
	}
	vn.mu.Lock()
	hole := !ok && vn.blackhole && to != nil && vn.part != nil
	forged := to != nil && to.corrupt && (vn.part == nil || vn.part[c.from.idx] == vn.part[to.idx])
	vn.mu.Unlock()
	if forged {
		// a corrupted member answers the sync request with beacons that do not verify for their round:
		// random signature bytes, a real beacon relabelled with another round, a foreign beacon id
		vn.tr.Emit("SyncOpen", vlib.E{"node": c.from.idx, "peer": toIdx, "from": in.FromRound, "ok": true, "forged": true})
		ch := make(chan *proto.BeaconPacket, 8)
		go func() {
			defer close(ch)
			last, err := c.from.h.chain.Last(ctx)
			if err != nil {
				return
			}
			md := &proto.Metadata{BeaconID: "vnbeacon"}
			junk := make([]byte, len(last.Signature))
			for i := range junk {
				junk[i] = byte(7*i + 3)
			}
			prev := last.Signature
			if !vn.chained {
				prev = nil
			}
			// every forged answer uses the next kind, so that each kind is tried against each victim state
			kind := int(atomic.AddInt64(&vn.forgeN, 1)-1) % 4
			switch kind {
			case 0: // garbage signature for the requested round
				ch <- &proto.BeaconPacket{Round: in.FromRound, PreviousSignature: prev, Signature: junk, Metadata: md}
			case 1: // the victim's own last beacon relabelled as the next round
				ch <- &proto.BeaconPacket{Round: in.FromRound, PreviousSignature: prev, Signature: last.Signature, Metadata: md}
			case 2: // the victim's own last beacon sent again under the next round, previous signature untouched
				ch <- &proto.BeaconPacket{Round: in.FromRound, PreviousSignature: last.PreviousSig, Signature: last.Signature, Metadata: md}
			default: // right shape, foreign beacon id
				ch <- &proto.BeaconPacket{Round: in.FromRound, PreviousSignature: prev, Signature: junk, Metadata: &proto.Metadata{BeaconID: "other"}}
			}
		}()
		return ch, nil
	}
	vn.tr.Emit("SyncOpen", vlib.E{"node": c.from.idx, "peer": toIdx, "from": in.FromRound, "ok": ok, "silent": hole})
	if hole {
		// half-open connection: the stream is accepted but nothing ever arrives on it
		ch := make(chan *proto.BeaconPacket)
		go func() {
			<-ctx.Done()
			close(ch)
		}()
		return ch, nil
	}
	if !ok {
		return nil, errors.New("vn: peer unreachable")
	}
	sctx := peer.NewContext(ctx, &peer.Peer{Addr: vnAddr(c.from.addr)})
	st := &vnStream{ctx: sctx, ch: make(chan *proto.BeaconPacket, 4096), vn: vn, srv: to, cli: c.from}
	atomic.AddInt64(&vn.syncOpen, 1)
	h := to.h
	go func() {
		defer atomic.AddInt64(&vn.syncOpen, -1)
		defer close(st.ch)
		_ = SyncChain(h.l, h.chain, in, st)
		vn.act()
	}()
	return st.ch, nil
}

var _ net.ProtocolClient = (*vnClient)(nil)

// ---------------------------------------------------------------- construction

type vnConf struct {
	N, T     int
	Period   int64
	Catchup  int64
	Backend  string // memdb | bolt | trimmed
	StartAt  int64  // clock of all nodes at creation, relative to genesis (negative)
	Scenario string
	Group    []int // initial members (default: all)
}

// vnPoly builds a sharing of secret with threshold t for share indices idxs.
func vnPoly(sch *crypto.Scheme, secret kyber.Scalar, t int, idxs []int) (*share.PubPoly, map[int]*share.PriShare) {
	pri := share.NewPriPoly(sch.KeyGroup, t, secret, random.New())
	pub := pri.Commit(sch.KeyGroup.Point().Base())
	out := map[int]*share.PriShare{}
	for _, i := range idxs {
		out[i] = pri.Eval(i) // kyber v1.3: Eval(i) returns the share with I = i
	}
	return pub, out
}

func vnNewNet(t *testing.T, tr *vlib.Trace, cf vnConf, seed int64) *vnNet {
	sch, err := crypto.GetSchemeFromEnv()
	if err != nil {
		t.Fatal(err)
	}
	vn := &vnNet{t: t, tr: tr, sch: sch, chained: sch.Name == crypto.DefaultSchemeID, byAddr: map[string]*vnNode{},
		period: cf.Period, catchup: cf.Catchup, backend: cf.Backend, cnt: map[string]*vnCnt{}, rng: rand.New(rand.NewSource(seed))}
	vn.dir = t.TempDir()
	vn.genesis = 1_700_000_000
	vn.installHooks()
	// identities
	pairs := make([]*key.Pair, cf.N)
	for i := range pairs {
		addr := fmt.Sprintf("vn%d.test:%d", i, 4000+i)
		pairs[i], err = key.NewKeyPair(addr, sch)
		if err != nil {
			t.Fatal(err)
		}
	}
	vn.secret = sch.KeyGroup.Scalar().Pick(random.New())
	if len(cf.Group) == 0 {
		for i := 0; i < cf.N; i++ {
			cf.Group = append(cf.Group, i)
		}
	}
	idxs := make([]int, len(cf.Group))
	nodes := make([]*key.Node, len(cf.Group))
	for k, i := range cf.Group {
		idxs[k] = k
		nodes[k] = &key.Node{Index: uint32(k), Identity: pairs[i].Public}
	}
	pub, allShares := vnPoly(sch, vn.secret, cf.T, vnWithGhosts(idxs))
	shares, ghost0 := vnSplit(allShares, idxs)
	_, commits := pub.Info()
	group := key.LoadGroup(nodes, vn.genesis, &key.DistPublic{Coefficients: commits}, time.Duration(cf.Period)*time.Second,
		0, sch, "vnbeacon")
	group.CatchupPeriod = time.Duration(cf.Catchup) * time.Second
	group.Threshold = cf.T
	group.GenesisSeed = []byte("vn-genesis-seed-0123456789abcdef")
	ep := &vnEpoch{group: group, shares: map[int]*key.Share{}, pub: pub, ghost: ghost0}
	for i, s := range shares {
		ep.shares[i] = &key.Share{DistKeyShare: dkg.DistKeyShare{Share: s, Commits: commits}, Scheme: sch}
	}
	vn.epochs = []*vnEpoch{ep}
	vn.info = dchain.NewChainInfo(group)
	for i := 0; i < cf.N; i++ {
		n := &vnNode{idx: i, pair: pairs[i], addr: pairs[i].Public.Address()}
		n.clk = clock.NewFakeClockAt(time.Unix(vn.genesis+cf.StartAt, 0))
		vn.nodes = append(vn.nodes, n)
		vn.byAddr[n.addr] = n
	}
	tr.Emit("Init", vlib.E{"scenario": cf.Scenario, "n": cf.N, "t": cf.T, "chained": vn.chained, "period": cf.Period,
		"catchup": cf.Catchup, "scheme": sch.Name, "backend": cf.Backend, "start": cf.StartAt, "group": cf.Group})
	return vn
}

func (vn *vnNet) openBase(n *vnNode) chain.Store {
	ctx := context.Background()
	if vn.chained {
		// as core.createDBStore does for chained schemes
		ctx = chain.SetPreviousRequiredOnContext(ctx)
	}
	l := log.New(nil, log.ErrorLevel, false)
	var st chain.Store
	var err error
	switch vn.backend {
	case "bolt":
		st, err = boltdb.NewBoltStore(boltdb.IsATest(ctx), l, fmt.Sprintf("%s/n%d", vn.dir, n.idx))
	case "trimmed":
		st, err = boltdb.NewBoltStore(ctx, l, fmt.Sprintf("%s/n%d", vn.dir, n.idx))
	default:
		if n.base != nil { // memdb survives a handler restart inside one process only in the daemon; keep it
			return n.base.Store
		}
		st = memdb.NewStore(2000)
	}
	if err != nil {
		vn.t.Fatal(err)
	}
	return st
}

// startNode creates a fresh Handler for node n on its base store.
func (vn *vnNet) startNode(n *vnNode, epoch int, mode string) {
	ep := vn.epochs[epoch]
	kn := ep.group.Find(n.pair.Public)
	if kn == nil {
		vn.tr.Emit("Start", vlib.E{"node": n.idx, "mode": mode, "res": "not-in-group"})
		return
	}
	if vn.backend != "memdb" || n.base == nil {
		os.MkdirAll(fmt.Sprintf("%s/n%d", vn.dir, n.idx), 0o755)
		n.base = &vnStore{Store: vn.openBase(n), vn: vn, node: n}
	} else {
		n.base = &vnStore{Store: n.base.Store, vn: vn, node: n}
	}
	// counters restart with the handler
	vn.mu.Lock()
	vn.cnt[n.addr] = &vnCnt{}
	vn.mu.Unlock()
	conf := &Config{Group: ep.group, Public: kn, Share: ep.shares[int(kn.Index)], Clock: n.clk}
	l := log.New(nil, log.ErrorLevel, false)
	h, err := NewHandler(context.Background(), &vnClient{vn: vn, from: n}, n.base, conf, l, common.GetAppVersion())
	if err != nil {
		vn.tr.Emit("Start", vlib.E{"node": n.idx, "mode": mode, "res": "err:" + err.Error()})
		return
	}
	n.h, n.up, n.epoch = h, true, epoch
	res := "ok"
	switch mode {
	case "start":
		if err := h.Start(context.Background()); err != nil {
			res = "err:" + err.Error()
		}
	case "catchup":
		h.Catchup(context.Background())
	}
	vn.tr.Emit("Start", vlib.E{"node": n.idx, "mode": mode, "res": res, "epoch": epoch, "clock": vn.T(n), "share": int(kn.Index)})
}

func (vn *vnNet) stopNode(n *vnNode) {
	if n.h == nil || !n.up {
		return
	}
	n.up = false
	vn.tr.Emit("Stop", vlib.E{"node": n.idx, "clock": vn.T(n)})
	h := n.h
	r := vlib.Call(15*time.Second, func() { h.Stop(context.Background()) })
	if !r.Returned {
		vn.tr.Emit("StopBlocked", vlib.E{"node": n.idx})
	}
	if vn.backend == "memdb" {
		// chainStore.Stop closed the store; memdb Close is a no-op so the data stays
	}
	// drop in-flight messages to/from it
	vn.mu.Lock()
	var keep []*vnMsg
	for _, m := range vn.inflight {
		if m.to != n.idx {
			keep = append(keep, m)
		}
	}
	vn.inflight = keep
	vn.mu.Unlock()
}

// ---------------------------------------------------------------- steps

func (vn *vnNet) advance(n *vnNode, to int64) {
	now := vn.T(n)
	if to <= now {
		return
	}
	c := vn.c(n.addr)
	before := atomic.LoadInt64(&c.runTick)
	n.clk.Advance(time.Duration(to-now) * time.Second)
	vn.act()
	vn.tr.Emit("Clock", vlib.E{"node": n.idx, "now": to})
	// a period boundary was crossed: give the ticker goroutines time to hand the tick to the run loop
	// (unless the run loop is parked at a gate, or the node is down)
	floorDiv := func(a, b int64) int64 {
		q := a / b
		if a%b != 0 && (a < 0) != (b < 0) {
			q--
		}
		return q
	}
	crossed := to >= 0 && floorDiv(to, vn.period) > floorDiv(now, vn.period) || (now < 0 && to >= 0)
	if crossed && n.up && n.h != nil && (vn.parkedRun == nil || vn.parkedRun(n.addr) == 0) {
		vlib.Eventually(300*time.Millisecond, func() bool { return atomic.LoadInt64(&c.runTick) > before })
	}
}

// partial oracle: does sig verify as a partial of (round, prev) under epoch's public polynomial?
func (vn *vnNet) partialValid(epoch int, round uint64, prev, sig []byte) bool {
	msg := vn.sch.DigestBeacon(&common.Beacon{Round: round, PreviousSig: prev})
	return vn.sch.ThresholdScheme.VerifyPartial(vn.epochs[epoch].pub, msg, sig) == nil
}

func (vn *vnNet) nodeEpoch(n *vnNode) int {
	// which epoch's group is live in the node's vault (observed, by comparing the public polynomial commitment)
	g := n.h.crypto.GetGroup()
	for i := len(vn.epochs) - 1; i >= 0; i-- {
		if vn.epochs[i].group == g {
			return i
		}
	}
	return -1
}

func (vn *vnNet) deliverMsg(m *vnMsg, kind string) {
	to := vn.nodes[m.to]
	if !to.up || to.h == nil {
		vn.tr.Emit("Recv", vlib.E{"to": m.to, "from": m.from, "round": vnCapRound(m.pkt.Round), "prevd": vnDigest(m.pkt.PreviousSignature), "kind": kind, "res": "down", "msg": m.id})
		return
	}
	c := vn.c(to.addr)
	before := atomic.LoadInt64(&c.aggSubmit)
	idx := -1
	if len(m.pkt.PartialSig) >= 2 {
		idx = int(binary.BigEndian.Uint16(m.pkt.PartialSig[:2]))
	}
	ep := vn.nodeEpoch(to)
	valid := ep >= 0 && vn.partialValid(ep, m.pkt.Round, m.pkt.PreviousSignature, m.pkt.PartialSig)
	member := ep >= 0 && vn.epochs[ep].group.Node(uint32(idx)) != nil && idx >= 0
	own := ep >= 0 && idx == to.h.crypto.Index()
	fromAddr := "adv.test:1"
	if m.from >= 0 {
		fromAddr = vn.nodes[m.from].addr
	}
	ctx := peer.NewContext(context.Background(), &peer.Peer{Addr: vnAddr(fromAddr)})
	var err error
	// logged BEFORE the call: the aggregator may store the beacon before ProcessPartialBeacon returns
	vn.tr.Emit("Deliver", vlib.E{"to": m.to, "from": m.from, "idx": idx, "round": vnCapRound(m.pkt.Round), "prevd": vnDigest(m.pkt.PreviousSignature),
		"kind": kind, "valid": valid, "member": member, "own": own, "epoch": ep, "msg": m.id})
	r := vlib.Call(20*time.Second, func() { _, err = to.h.ProcessPartialBeacon(ctx, m.pkt) })
	res := "ok"
	if !r.Returned {
		res = "blocked"
	} else if r.Panic != "" {
		res = "panic"
	} else if err != nil {
		res = "err"
	}
	accepted := atomic.LoadInt64(&c.aggSubmit) > before
	vn.act()
	vn.tr.Emit("Recv", vlib.E{"to": m.to, "from": m.from, "idx": idx, "round": vnCapRound(m.pkt.Round), "prevd": vnDigest(m.pkt.PreviousSignature),
		"kind": kind, "valid": valid, "member": member, "own": own, "res": res, "accepted": accepted, "toClock": vn.T(to), "epoch": ep, "msg": m.id})
}

// vnCapRound keeps logged rounds inside TLC's integer range (adversarial partials may carry rounds near 2^64); a
// capped round is still far beyond any clock of a run.
func vnCapRound(r uint64) uint64 {
	if r > 1<<30 {
		return 1 << 30
	}
	return r
}

func (vn *vnNet) takeMsg(pred func(m *vnMsg) bool) *vnMsg {
	vn.mu.Lock()
	defer vn.mu.Unlock()
	for i, m := range vn.inflight {
		if pred(m) {
			vn.inflight = append(vn.inflight[:i:i], vn.inflight[i+1:]...)
			return m
		}
	}
	return nil
}

// deliverAll delivers in-flight messages (and the ones they trigger) until none is left.
func (vn *vnNet) deliverAll(order string, filter func(m *vnMsg) bool) {
	for k := 0; k < 10000; k++ {
		vn.settle()
		vn.mu.Lock()
		var cand []int
		for i, m := range vn.inflight {
			if filter == nil || filter(m) {
				cand = append(cand, i)
			}
		}
		if len(cand) == 0 {
			vn.mu.Unlock()
			return
		}
		pick := cand[0]
		if order == "random" {
			pick = cand[vn.rng.Intn(len(cand))]
		} else if order == "lifo" {
			pick = cand[len(cand)-1]
		}
		m := vn.inflight[pick]
		vn.inflight = append(vn.inflight[:pick:pick], vn.inflight[pick+1:]...)
		vn.mu.Unlock()
		vn.deliverMsg(m, "honest")
	}
}

// adversarial partial of the given kind addressed to node `to`, claiming signer index asIdx.
func (vn *vnNet) advPartial(to *vnNode, kind string, asIdx int, round uint64) *proto.PartialBeaconPacket {
	ep := vn.epochs[vn.nodeEpoch(to)]
	last, _ := to.h.chain.Last(context.Background())
	prev := []byte(nil)
	if vn.chained {
		// previous signature: the stored signature of round-1 if any node has it, else the victim's head
		prev = last.Signature
		for _, o := range vn.nodes {
			if o.h != nil && o.up && round > 0 {
				if b, err := o.h.chain.Get(context.Background(), round-1); err == nil && b != nil {
					prev = b.Signature
					break
				}
			}
		}
	}
	sign := func(sh *share.PriShare, r uint64, p []byte) []byte {
		msg := vn.sch.DigestBeacon(&common.Beacon{Round: r, PreviousSig: p})
		s, err := vn.sch.ThresholdScheme.Sign(sh, msg)
		if err != nil {
			vn.t.Fatal(err)
		}
		return s
	}
	realShare := func(i int) *share.PriShare {
		if s, ok := ep.shares[i]; ok {
			return s.Share
		}
		return &share.PriShare{I: i, V: vn.sch.KeyGroup.Scalar().Pick(random.New())}
	}
	var sig []byte
	switch kind {
	case "valid": // a corrupted member's correct partial (any round, any time)
		sig = sign(realShare(asIdx), round, prev)
	case "wrongKey": // signed with a share that is not on the polynomial
		sig = sign(&share.PriShare{I: asIdx, V: vn.sch.KeyGroup.Scalar().Pick(random.New())}, round, prev)
	case "wrongRound": // valid partial of another round presented for this round
		sig = sign(realShare(asIdx), round+1, prev)
	case "wrongPrev": // partial over a different previous signature than the one in the packet
		sig = sign(realShare(asIdx), round, append([]byte("x"), prev...))
		if !vn.chained { // unchained schemes ignore previous: use a different round digest instead
			sig = sign(realShare(asIdx), round+7, prev)
		}
	case "otherPrev": // internally consistent partial but built on a made-up previous signature
		prev = bytes.Repeat([]byte{0x42}, 48)
		sig = sign(realShare(asIdx), round, prev)
	case "truncated":
		sig = sign(realShare(asIdx), round, prev)
		sig = sig[:len(sig)-3]
	case "bitflip":
		sig = sign(realShare(asIdx), round, prev)
		sig[len(sig)-1] ^= 0x01
	case "validNonMember": // a point of the live polynomial at an index that no member holds: verifies, but comes from no member
		if g, ok := ep.ghost[asIdx]; ok {
			sig = sign(g, round, prev)
		} else {
			sig = sign(&share.PriShare{I: asIdx, V: vn.sch.KeyGroup.Scalar().Pick(random.New())}, round, prev)
		}
	case "nonMember": // index outside the group, self-consistent signature
		sig = sign(&share.PriShare{I: asIdx, V: vn.sch.KeyGroup.Scalar().Pick(random.New())}, round, prev)
	case "replayOwn": // the victim's own partial sent back to it
		sig = sign(realShare(to.h.crypto.Index()), round, prev)
	case "empty":
		sig = nil
	case "oldEpoch": // partial made with a share of the previous epoch
		old := vn.epochs[0]
		if s, ok := old.shares[asIdx]; ok {
			sig = sign(s.Share, round, prev)
		} else {
			sig = sign(realShare(asIdx), round, prev)
		}
	default:
		vn.t.Fatalf("unknown adversarial kind %s", kind)
	}
	md := proto.NewMetadata(common.GetAppVersion().ToProto())
	md.BeaconID = "vnbeacon"
	return &proto.PartialBeaconPacket{Round: round, PreviousSignature: prev, PartialSig: sig, Metadata: md}
}

func (vn *vnNet) scan(n *vnNode) {
	if n.base == nil {
		return
	}
	var rows [][]any
	ctx := context.Background()
	if vn.chained {
		ctx = chain.SetPreviousRequiredOnContext(ctx)
	}
	err := n.base.Store.Cursor(ctx, func(ctx context.Context, c chain.Cursor) error {
		for b, err := c.First(ctx); b != nil; b, err = c.Next(ctx) {
			if err != nil {
				return err
			}
			ver := b.Round == 0 || vn.sch.VerifyBeacon(&common.Beacon{Round: b.Round, Signature: b.Signature, PreviousSig: b.PreviousSig}, vn.info.PublicKey) == nil
			rows = append(rows, []any{b.Round, vnDigest(b.Signature), vnDigest(b.PreviousSig), ver})
		}
		return nil
	})
	e := vlib.E{"node": n.idx, "rows": rows}
	if rows == nil {
		e["rows"] = []any{}
	}
	if err != nil {
		e["err"] = err.Error()
	}
	vn.tr.Emit("Scan", e)
}

func (vn *vnNet) quiesce(label string) {
	settled := vn.settle()
	if !settled { // a busy machine: give the nodes a second (load-stretched) period before the heads are judged
		settled = vn.settle()
	}
	heads := make([]int64, len(vn.nodes))
	clocks := make([]int64, len(vn.nodes))
	ups := make([]bool, len(vn.nodes))
	liveEp := make([]int, len(vn.nodes))
	for i, n := range vn.nodes {
		heads[i] = -1
		liveEp[i] = -1
		if n.h != nil && n.up {
			liveEp[i] = vn.nodeEpoch(n)
		}
		if n.h != nil && n.up {
			if b, err := n.h.chain.Last(context.Background()); err == nil {
				heads[i] = int64(b.Round)
			}
		}
		clocks[i] = vn.T(n)
		ups[i] = n.up
	}
	vn.mu.Lock()
	inflight := len(vn.inflight)
	vn.mu.Unlock()
	vn.tr.Emit("Quiesce", vlib.E{"label": label, "live": len(label) >= 4 && label[:4] == "live", "catchup": len(label) >= 12 && label[:12] == "live-catchup", "heads": heads, "clocks": clocks, "up": ups, "inflight": inflight, "epochs": liveEp, "settled": settled})
}

func (vn *vnNet) shutdown() {
	for _, n := range vn.nodes {
		if n.up {
			vn.stopNode(n)
		}
	}
	vn.sched.Uninstall()
	for _, n := range vn.nodes {
		if n.base != nil && vn.backend == "memdb" {
			continue
		}
	}
}

// ---------------------------------------------------------------- script interpreter

type vnStep struct {
	Op    string  `json:"op"`
	Node  int     `json:"node"`
	To    int64   `json:"to"`
	From  int     `json:"from"`
	Round uint64  `json:"round"`
	Kind  string  `json:"kind"`
	As    int     `json:"as"`
	Mode  string  `json:"mode"`
	Order string  `json:"order"`
	Parts [][]int `json:"parts"`
	Label string  `json:"label"`
	Point string  `json:"point"`
	Nodes []int   `json:"nodes"`
	T     int     `json:"t"`
	Heads []int64 `json:"heads"`
}

type vnScript struct {
	Name    string   `json:"name"`
	N       int      `json:"n"`
	T       int      `json:"t"`
	Period  int64    `json:"period"`
	Catchup int64    `json:"catchup"`
	Backend string   `json:"backend"`
	StartAt int64    `json:"start"`
	Group   []int    `json:"group"`
	Steps   []vnStep `json:"steps"`
}

type vnWant struct {
	kind  string
	round uint64
}

type vnRun struct {
	vn    *vnNet
	gates map[string]*vlib.Gate
}

func (r *vnRun) exec(st vnStep) {
	vn := r.vn
	switch st.Op {
	case "startall":
		for _, n := range vn.nodes {
			if vn.epochs[0].group.Find(n.pair.Public) != nil {
				vn.startNode(n, 0, "start")
			}
		}
		vn.settle()
	case "start":
		vn.startNode(vn.nodes[st.Node], len(vn.epochs)-1, st.Mode)
		vn.settle()
	case "stop":
		vn.stopNode(vn.nodes[st.Node])
		vn.settle()
	case "advance":
		if st.Node < 0 {
			for _, n := range vn.nodes {
				vn.advance(n, st.To)
			}
		} else {
			vn.advance(vn.nodes[st.Node], st.To)
		}
		vn.settle()
	case "deliver": // one message from->to (round optional)
		m := vn.takeMsg(func(m *vnMsg) bool {
			return m.from == st.From && m.to == st.Node && (st.Round == 0 || m.pkt.Round == st.Round)
		})
		if m == nil {
			vn.tr.Emit("NoSuchMsg", vlib.E{"from": st.From, "to": st.Node, "round": st.Round})
			return
		}
		vn.deliverMsg(m, "honest")
		vn.settle()
	case "deliverall":
		vn.deliverAll(st.Order, nil)
	case "deliverto": // everything addressed to one node
		vn.deliverAll(st.Order, func(m *vnMsg) bool { return m.to == st.Node })
	case "dropall":
		vn.mu.Lock()
		n := len(vn.inflight)
		vn.inflight = nil
		vn.mu.Unlock()
		vn.tr.Emit("DropAll", vlib.E{"n": n})
	case "dup": // duplicate delivery of the next message to node
		m := vn.takeMsg(func(m *vnMsg) bool { return m.to == st.Node })
		if m != nil {
			vn.deliverMsg(m, "honest")
			vn.settle()
			vn.deliverMsg(m, "dup")
			vn.settle()
		}
	case "adv":
		to := vn.nodes[st.Node]
		if to.h == nil || !to.up {
			return
		}
		pkt := vn.advPartial(to, st.Kind, st.As, st.Round)
		vn.deliverMsg(&vnMsg{id: -1, from: -1, to: to.idx, pkt: pkt}, st.Kind)
		vn.settle()
	case "partition":
		vn.mu.Lock()
		vn.part = map[int]int{}
		vn.blackhole = st.Mode == "blackhole"
		for pi, p := range st.Parts {
			for _, i := range p {
				vn.part[i] = pi + 1
			}
		}
		vn.mu.Unlock()
		vn.tr.Emit("Partition", vlib.E{"parts": st.Parts})
	case "heal":
		vn.mu.Lock()
		vn.part = nil
		vn.mu.Unlock()
		vn.tr.Emit("Heal", vlib.E{})
	case "quiesce":
		vn.quiesce(st.Label)
	case "scan":
		if st.Node < 0 {
			for _, n := range vn.nodes {
				vn.scan(n)
			}
		} else {
			vn.scan(vn.nodes[st.Node])
		}
	case "gate": // park node's goroutine at a hook point
		addr := vn.nodes[st.Node].addr
		g := vn.sched.Gate(st.Point, func(a []any) bool { s, _ := a[0].(string); return s == addr })
		r.gates[fmt.Sprintf("%s/%d", st.Point, st.Node)] = g
	case "waitgate":
		g := r.gates[fmt.Sprintf("%s/%d", st.Point, st.Node)]
		if g != nil {
			_, ok := g.WaitParked(vlib.Stretch(5 * time.Second))
			vn.tr.Emit("Parked", vlib.E{"node": st.Node, "point": st.Point, "ok": ok})
		}
	case "release":
		g := r.gates[fmt.Sprintf("%s/%d", st.Point, st.Node)]
		if g != nil {
			g.Release()
		}
		vn.settle()
	case "opengate":
		g := r.gates[fmt.Sprintf("%s/%d", st.Point, st.Node)]
		if g != nil {
			g.Open()
		}
		vn.settle()
	case "reshare":
		vn.reshare(st)
	case "corrupt": // these members answer sync requests with forged streams from now on
		vn.mu.Lock()
		for _, i := range st.Nodes {
			vn.nodes[i].corrupt = true
		}
		vn.mu.Unlock()
		vn.tr.Emit("Note", vlib.E{"what": "corrupt", "nodes": st.Nodes})
	case "expect": // heads predicted by the TLC behaviour vs observed heads
		vn.settle()
		obs := make([]int64, len(vn.nodes))
		for i, n := range vn.nodes {
			obs[i] = -1
			if n.base != nil {
				if b, err := n.base.Store.Last(context.Background()); err == nil {
					obs[i] = int64(b.Round)
				}
			}
		}
		vn.tr.Emit("Expect", vlib.E{"heads": st.Heads, "obs": obs, "label": st.Label})
	default:
		vn.t.Fatalf("unknown op %q", st.Op)
	}
}

// reshare fabricates a new epoch (same secret, fresh polynomial) for the member set st.Nodes
// with threshold st.T, transition at round st.Round, and applies it the way production does:
// TransitionNewGroup on remaining members; joiners are started later with a "start" step
// (mode catchup); leavers keep running until stopped by the script.
func (vn *vnNet) reshare(st vnStep) {
	old := vn.epochs[len(vn.epochs)-1]
	nodes := make([]*key.Node, 0, len(st.Nodes))
	idxs := []int{}
	for k, ni := range st.Nodes {
		nodes = append(nodes, &key.Node{Index: uint32(k), Identity: vn.nodes[ni].pair.Public})
		idxs = append(idxs, k)
	}
	pub, allShares := vnPoly(vn.sch, vn.secret, st.T, vnWithGhosts(idxs))
	shares, ghost1 := vnSplit(allShares, idxs)
	_, commits := pub.Info()
	g := key.LoadGroup(nodes, vn.genesis, &key.DistPublic{Coefficients: commits}, old.group.Period, 0, vn.sch, old.group.ID)
	g.CatchupPeriod = old.group.CatchupPeriod
	g.Threshold = st.T
	g.GenesisSeed = old.group.GenesisSeed
	g.TransitionTime = common.TimeOfRound(old.group.Period, vn.genesis, st.Round)
	ep := &vnEpoch{group: g, shares: map[int]*key.Share{}, pub: pub, ghost: ghost1}
	for i, s := range shares {
		ep.shares[i] = &key.Share{DistKeyShare: dkg.DistKeyShare{Share: s, Commits: commits}, Scheme: vn.sch}
	}
	vn.epochs = append(vn.epochs, ep)
	e := len(vn.epochs) - 1
	vn.tr.Emit("Reshare", vlib.E{"epoch": e, "members": st.Nodes, "t": st.T, "tround": st.Round,
		"samekey": commits[0].Equal(vn.info.PublicKey)})
	for _, ni := range st.Nodes {
		n := vn.nodes[ni]
		if n.h != nil && n.up {
			kn := g.Find(n.pair.Public)
			n.h.TransitionNewGroup(context.Background(), ep.shares[int(kn.Index)], g)
			vn.tr.Emit("Transition", vlib.E{"node": ni, "epoch": e, "tround": st.Round, "share": int(kn.Index)})
		}
	}
	vn.settle()
}

func vnRunScript(t *testing.T, tr *vlib.Trace, sc vnScript, seed int64) {
	if sc.Period == 0 {
		sc.Period = 10
	}
	if sc.Catchup == 0 {
		sc.Catchup = 2
	}
	if sc.StartAt == 0 {
		sc.StartAt = -5
	}
	if sc.Backend == "" {
		sc.Backend = "memdb"
	}
	vn := vnNewNet(t, tr, vnConf{N: sc.N, T: sc.T, Period: sc.Period, Catchup: sc.Catchup, Backend: sc.Backend, StartAt: sc.StartAt, Scenario: sc.Name, Group: sc.Group}, seed)
	r := &vnRun{vn: vn, gates: map[string]*vlib.Gate{}}
	vn.parkedRun = func(addr string) int64 {
		var k int64
		for name, g := range r.gates {
			if len(name) > 9 && name[:9] == "run.tick/" && vn.nodes[int(name[9]-'0')].addr == addr {
				k += int64(g.NumParked())
			}
		}
		return k
	}
	defer vn.shutdown()
	for _, st := range sc.Steps {
		r.exec(st)
	}
	for _, g := range r.gates {
		g.Open()
	}
	vn.quiesce("end")
	for _, n := range vn.nodes {
		vn.scan(n)
	}
	tr.Emit("End", vlib.E{"scenario": sc.Name})
}

// ---------------------------------------------------------------- entry point

func TestVerifNet(t *testing.T) {
	if os.Getenv("VERIF_OUT") == "" {
		t.Skip("verif harness only")
	}
	tr := vlib.MustOpenTraceEnv()
	defer tr.Close()
	seed := int64(vlib.EnvInt("VERIF_SEED", 1))
	in := os.Getenv("VERIF_IN")
	if in == "" {
		t.Fatal("VERIF_IN (scripts) required")
	}
	lines, err := vlib.LoadJSONLines(in)
	if err != nil {
		t.Fatal(err)
	}
	for i, l := range lines {
		var sc vnScript
		if err := json.Unmarshal(l, &sc); err != nil {
			t.Fatal(err)
		}
		vnRunScript(t, tr, sc, seed+int64(i))
	}
	_ = sort.Ints
}
