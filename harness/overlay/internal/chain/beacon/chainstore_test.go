package beacon

// Overlay harness (injected by /verif): the real store stack of one node
// (base -> discrepancyStore -> schemeStore -> appendStore -> callbackStore) driven by the
// transition tour of spec/ChainStore.tla: every (state, operation) edge of the model is taken
// on the real stores; writers are the real chainStore.tryAppend (aggregator) and plain Put
// (sync client).  Results and the base store content are recorded; TLC judges them.

import (
	"context"
	"encoding/json"
	"errors"
	"fmt"
	"os"
	"strings"
	"testing"
	"time"

	clock "github.com/jonboulle/clockwork"

	"github.com/drand/drand/v2/common"
	"github.com/drand/drand/v2/common/key"
	"github.com/drand/drand/v2/common/log"
	"github.com/drand/drand/v2/crypto"
	"github.com/drand/drand/v2/internal/chain"
	"github.com/drand/drand/v2/internal/chain/boltdb"
	"github.com/drand/drand/v2/internal/chain/memdb"
	"github.com/drand/drand/v2/internal/vlib"
)

type vcsStep struct {
	Op   string `json:"op"`
	View uint64 `json:"view"`
	B    []int  `json:"b"`
}
type vcsScript struct {
	Name    string    `json:"name"`
	Chained bool      `json:"chained"`
	Backend string    `json:"backend"`
	Steps   []vcsStep `json:"steps"`
}

func vcsSig(k int) []byte {
	if k < 0 {
		return nil
	}
	return []byte(fmt.Sprintf("sig-%04d", k))
}
func vcsID(b []byte) int {
	if len(b) == 0 {
		return -1
	}
	var k int
	if _, err := fmt.Sscanf(string(b), "sig-%04d", &k); err != nil {
		return -99
	}
	return k
}

// vcsBase wraps the base store: a Put can be held inside the write and made to fail
// (what a cancelled context / full disk does to a bolt transaction).
type vcsBase struct {
	chain.Store
	hold    chan struct{} // non-nil: the next Put parks here
	parked  chan struct{}
	failErr error
}

func (b *vcsBase) Put(ctx context.Context, bc *common.Beacon) error {
	if h := b.hold; h != nil {
		b.hold = nil
		b.parked <- struct{}{}
		<-h
		if b.failErr != nil {
			return b.failErr
		}
	}
	return b.Store.Put(ctx, bc)
}

type vcsStack struct {
	base chain.Store
	cbs  CallbackStore
	cs   *chainStore
}

func vcsBuild(t *testing.T, base chain.Store, sch *crypto.Scheme) *vcsStack {
	ctx := context.Background()
	l := log.New(nil, log.ErrorLevel, false)
	g := &key.Group{Period: 10 * time.Second, GenesisTime: 1_700_000_000, Scheme: sch, ID: "vcs"}
	ds := newDiscrepancyStore(base, l, g, clock.NewFakeClock())
	ss, err := NewSchemeStore(ctx, ds, sch)
	if err != nil {
		t.Fatal(err)
	}
	as, err := newAppendStore(ctx, ss)
	if err != nil {
		t.Fatal(err)
	}
	cbs := NewCallbackStore(l, as)
	return &vcsStack{base: base, cbs: cbs, cs: &chainStore{CallbackStore: cbs, l: l, catchupBeacons: make(chan *common.Beacon, 1)}}
}

func vcsClass(err error) string {
	switch {
	case err == nil:
		return "ok"
	case errors.Is(err, ErrBeaconAlreadyStored):
		return "already"
	case strings.Contains(err.Error(), "duplicate beacon") && strings.Contains(err.Error(), "previous signature"):
		return "diffprev"
	case strings.Contains(err.Error(), "duplicate beacon"):
		return "diffsig"
	case strings.Contains(err.Error(), "invalid round inserted"):
		return "badround"
	case strings.Contains(err.Error(), "invalid previous signature"):
		return "badprev"
	}
	return "other:" + err.Error()
}

func vcsRows(base chain.Store) [][]int {
	rows := [][]int{}
	_ = base.Cursor(context.Background(), func(ctx context.Context, c chain.Cursor) error {
		for b, err := c.First(ctx); b != nil && err == nil; b, err = c.Next(ctx) {
			rows = append(rows, []int{int(b.Round), vcsID(b.Signature), vcsID(b.PreviousSig)})
		}
		return nil
	})
	return rows
}

func TestVerifChainStore(t *testing.T) {
	if os.Getenv("VERIF_OUT") == "" {
		t.Skip("verif harness only")
	}
	tr := vlib.MustOpenTraceEnv()
	defer tr.Close()
	lines, err := vlib.LoadJSONLines(os.Getenv("VERIF_IN"))
	if err != nil {
		t.Fatal(err)
	}
	for _, ln := range lines {
		var sc vcsScript
		if err := json.Unmarshal(ln, &sc); err != nil {
			t.Fatal(err)
		}
		schName := crypto.UnchainedSchemeID
		if sc.Chained {
			schName = crypto.DefaultSchemeID
		}
		sch, _ := crypto.SchemeFromName(schName)
		ctx := context.Background()
		if sc.Chained {
			ctx = chain.SetPreviousRequiredOnContext(ctx)
		}
		dir := t.TempDir()
		open := func() chain.Store {
			switch sc.Backend {
			case "bolt":
				s, err := boltdb.NewBoltStore(boltdb.IsATest(ctx), log.New(nil, log.ErrorLevel, false), dir)
				if err != nil {
					t.Fatal(err)
				}
				return s
			case "trimmed":
				s, err := boltdb.NewBoltStore(ctx, log.New(nil, log.ErrorLevel, false), dir)
				if err != nil {
					t.Fatal(err)
				}
				return s
			}
			return memdb.NewStore(64)
		}
		raw := open()
		wb := &vcsBase{Store: raw, parked: make(chan struct{}, 1)}
		var base chain.Store = wb
		// genesis, as NewHandler does
		if err := base.Put(ctx, chain.GenesisBeacon(vcsSig(0))); err != nil {
			t.Fatal(err)
		}
		st := vcsBuild(t, base, sch)
		tr.Emit("Init", vlib.E{"scenario": sc.Name, "chained": sc.Chained, "backend": sc.Backend})
		for _, s := range sc.Steps {
			switch s.Op {
			case "SyncPut", "AggPut":
				b := &common.Beacon{Round: uint64(s.B[0]), Signature: vcsSig(s.B[1]), PreviousSig: vcsSig(s.B[2])}
				res, ret := "", false
				if s.Op == "SyncPut" {
					var e error
					r := vlib.Call(5*time.Second, func() { e = st.cbs.Put(ctx, b) })
					res = vcsClass(e)
					if !r.Returned {
						res = "blocked"
					}
				} else {
					last := &common.Beacon{Round: s.View}
					// observe what Put returned underneath tryAppend through the store state; tryAppend only returns a bool
					r := vlib.Call(5*time.Second, func() { ret = st.cs.tryAppend(ctx, last, b) })
					res = "-"
					if !r.Returned {
						res = "blocked"
					}
					select {
					case <-st.cs.catchupBeacons:
					default:
					}
				}
				lastB, _ := st.cbs.Last(ctx)
				tr.Emit("Put", vlib.E{"op": s.Op, "view": s.View, "b": s.B, "res": res, "ret": ret, "rows": vcsRows(base),
					"last": []int{int(lastB.Round), vcsID(lastB.Signature), vcsID(lastB.PreviousSig)}})
			case "Restart":
				if sc.Backend != "memdb" {
					_ = base.Close()
					raw = open()
					wb = &vcsBase{Store: raw, parked: make(chan struct{}, 1)}
					base = wb
				}
				_ = base.Put(ctx, chain.GenesisBeacon(vcsSig(0)))
				st = vcsBuild(t, base, sch)
				tr.Emit("Restart", vlib.E{"rows": vcsRows(base)})
			case "FailRace":
				// writer A's base write of head+1 is held and then FAILS; writer B meanwhile tries head+2.
				lastB, _ := st.cbs.Last(ctx)
				mk := func(r uint64, sig int, prev []byte) *common.Beacon {
					return &common.Beacon{Round: r, Signature: vcsSig(sig), PreviousSig: prev}
				}
				a := mk(lastB.Round+1, 5, lastB.Signature)
				bb := mk(lastB.Round+2, 6, vcsSig(5))
				hold := make(chan struct{})
				wb.hold, wb.failErr = hold, context.Canceled
				resA, resB := make(chan string, 1), make(chan string, 1)
				go func() { resA <- vcsClass(st.cbs.Put(ctx, a)) }()
				parked := false
				select {
				case <-wb.parked:
					parked = true
				case <-time.After(2 * time.Second):
				}
				go func() { resB <- vcsClass(st.cbs.Put(ctx, bb)) }()
				time.Sleep(30 * time.Millisecond)
				close(hold)
				ra := <-resA
				rb := ""
				select {
				case rb = <-resB:
				case <-time.After(3 * time.Second):
					rb = "blocked"
				}
				wb.failErr = nil
				tr.Emit("FailRace", vlib.E{"parked": parked, "a": []int{int(a.Round), 5, vcsID(a.PreviousSig)}, "b": []int{int(bb.Round), 6, 5},
					"resA": ra, "resB": rb, "rows": vcsRows(base)})
			case "Race":
				// mutual exclusion of appendStore.Put: writer A is parked INSIDE the critical section,
				// writer B tries the same round with another signature; B must not enter.
				sched := vlib.NewSched()
				g := sched.GateOnce("append.locked", nil)
				lastB, _ := st.cbs.Last(ctx)
				r1 := lastB.Round + 1
				mk := func(sig int) *common.Beacon {
					return &common.Beacon{Round: r1, Signature: vcsSig(sig), PreviousSig: lastB.Signature}
				}
				errs := make(chan string, 2)
				go func() { errs <- vcsClass(st.cbs.Put(ctx, mk(7))) }()
				_, parked := g.WaitParked(2 * time.Second)
				go func() { errs <- vcsClass(st.cbs.Put(ctx, mk(8))) }()
				time.Sleep(30 * time.Millisecond)
				inside := sched.Count("append.locked")
				g.Open()
				ra, rb := <-errs, <-errs
				sched.Uninstall()
				tr.Emit("Race", vlib.E{"parked": parked, "inside": inside, "results": []string{ra, rb}, "rows": vcsRows(base)})
			}
		}
		_ = base.Close()
	}
}
