package beacon

// Overlay harness (injected by /verif): the hand-over of verified partials to the aggregator
// (chainStore.NewValidPartial -> newPartials -> runAggregator) <-> spec/PartialHandover.tla.
// A real handler of the in-memory network aggregates round 1 and is parked inside that work (gate at
// agg.beforeAppend: the aggregator holds one partial, its buffer is empty).  Then k distinct VALID partials of a
// member are delivered through the real ProcessPartialBeacon, each by its own caller.  Recorded: how many of the
// calls returned while the aggregator was stuck.  TLC judges (Trace_PartialHandover.tla).

import (
	"context"
	"os"
	"sync/atomic"
	"testing"
	"time"

	"github.com/drand/drand/v2/common"
	"github.com/drand/drand/v2/internal/vlib"
	"google.golang.org/grpc/peer"
)

func TestVerifHandover(t *testing.T) {
	out := os.Getenv("VERIF_OUT")
	if out == "" {
		t.Skip("verif harness only")
	}
	tr := vlib.MustOpenTraceEnv()
	defer tr.Close()
	seed := int64(vlib.EnvInt("VERIF_SEED", 1))
	for i, c := range []struct{ n, t, k int }{{3, 2, 40}, {4, 3, 25}, {3, 2, 7}} {
		vhRun(t, tr, out, c.n, c.t, c.k, seed+int64(i))
	}
}

func vhRun(t *testing.T, tr *vlib.Trace, out string, n, thr, k int, seed int64) {
	scen := "handover"
	nettr, err := vlib.OpenTrace(out + ".net") // the network's own events are not part of this trace
	if err != nil {
		t.Fatal(err)
	}
	defer nettr.Close()
	vn := vnNewNet(t, nettr, vnConf{N: n, T: thr, Period: 10, Catchup: 2, Backend: "memdb", StartAt: -5, Scenario: scen}, seed)
	r := &vnRun{vn: vn, gates: map[string]*vlib.Gate{}}
	defer vn.shutdown()
	defer func() {
		for _, g := range r.gates {
			g.Open()
		}
	}()
	victim := vn.nodes[0]
	r.exec(vnStep{Op: "startall"})
	r.exec(vnStep{Op: "gate", Point: "agg.beforeAppend", Node: 0})
	r.exec(vnStep{Op: "advance", Node: -1, To: 0})
	r.exec(vnStep{Op: "deliverto", Node: 0, Order: "fifo"})
	g := r.gates["agg.beforeAppend/0"]
	if _, ok := g.WaitParked(10 * time.Second); !ok {
		t.Fatalf("the aggregator of node 0 did not reach agg.beforeAppend")
	}
	// the aggregator is stuck holding the partial that completed round 1
	vlib.Eventually(2*time.Second, func() bool { return len(victim.h.chain.newPartials) == 0 })
	buffered := len(victim.h.chain.newPartials)
	capacity := cap(victim.h.chain.newPartials)
	tr.Emit("Busy", vlib.E{"scenario": scen, "node": 0, "cap": capacity, "buffered": buffered})

	var returned int64
	ctx := peer.NewContext(context.Background(), &peer.Peer{Addr: vnAddr(vn.nodes[1].addr)})
	for i := 0; i < k; i++ {
		// a valid partial of member 1 for round 2, each on a different made-up previous signature
		// (unchained schemes: identical digests; the hand-over happens before any de-duplication)
		pkt := vn.advPartial(victim, "valid", 1, 2)
		if vn.chained {
			pkt = vn.advPartial(victim, "otherPrev", 1, 2)
			pkt.PreviousSignature[0] = byte(i)
			pkt.PreviousSignature[1] = byte(i >> 8)
			msg := vn.sch.DigestBeacon(&common.Beacon{Round: 2, PreviousSig: pkt.PreviousSignature})
			sig, err := vn.sch.ThresholdScheme.Sign(vn.epochs[0].shares[1].Share, msg)
			if err != nil {
				t.Fatal(err)
			}
			pkt.PartialSig = sig
		}
		go func() {
			_, _ = victim.h.ProcessPartialBeacon(ctx, pkt)
			atomic.AddInt64(&returned, 1)
		}()
	}
	// quiescence: every call the buffer has room for has returned (slow machines: up to 30 s), and then the count
	// stays put for a second (a hand-over that does not block lets the remaining calls return at once)
	room := capacity - buffered
	if room > k {
		room = k
	}
	vlib.Eventually(30*time.Second, func() bool { return int(atomic.LoadInt64(&returned)) >= room })
	last, stable := int64(-1), 0
	for deadline := time.Now().Add(15 * time.Second); time.Now().Before(deadline) && stable < 20; {
		time.Sleep(50 * time.Millisecond)
		if cur := atomic.LoadInt64(&returned); cur == last {
			stable++
		} else {
			last, stable = cur, 0
		}
	}
	ret := int(atomic.LoadInt64(&returned))
	tr.Emit("Flood", vlib.E{"scenario": scen, "node": 0, "k": k, "cap": capacity, "buffered": buffered, "returned": ret, "blocked": k - ret,
		"inbuf": len(victim.h.chain.newPartials)})
	g.Open()
	ok := vlib.Eventually(20*time.Second, func() bool { return int(atomic.LoadInt64(&returned)) == k })
	tr.Emit("Drain", vlib.E{"scenario": scen, "node": 0, "k": k, "returned": int(atomic.LoadInt64(&returned)), "ok": ok})
}
