package core

// Overlay test (injected by /verif with `go test -overlay`) for property C13: "a crash at
// any point leaves a restartable, self-consistent node".  Fault enumeration driven by
// spec/Persist.tla: TLC prints the persistence steps of a scripted run and its crash points;
// this harness executes the run on a REAL DrandDaemon (bolt chain store, dkg.db, file key
// store, real beacon handler with a fake clock; the two other members of the 2-of-3 group are
// simulated in memory through net.ProtocolClient, the harness knows the group secret), logs
// every persistence step at the point where the code performs it (vhook stamps
// append.stored / cb.dispatch / key.save.created / key.reset.shareDeleted, a wrapping
// key.Store, and the harness' own calls of the real dkg.BoltStore), copies the node's
// directories at the selected steps while the writer is parked inside the stamp, and then
// starts a FRESH DrandDaemon (LoadBeaconsFromDisk) on every copy and logs what it found.
// It decides nothing: TLC (spec/Trace_Persist.tla) evaluates Mon_C13 on the recorded
// observations.  The only computations here are oracles ("which fabricated epoch is this
// group / share", "does this beacon verify under the chain's public key").
//
// Deviation (stated in the evidence): a DKG completion is fabricated.  The harness performs
// the three statements of dkg.Process.executeAndFinishDKG that follow the kyber protocol
// (DBState.Complete, store.SaveFinished, send on the completed-DKG fan-out) itself, in that
// order, on the daemon's real store and channel; everything downstream (onDKGCompleted,
// joinNetwork / transitionToNext / leaveNetwork, storeDKGOutput, fileStore, StartBeacon,
// TransitionNewGroup) is the real code.

import (
	"bytes"
	"context"
	"encoding/json"
	"errors"
	"fmt"
	"io"
	"os"
	"path/filepath"
	"reflect"
	"sort"
	"strings"
	"sync"
	"testing"
	"time"
	"unsafe"

	clock "github.com/jonboulle/clockwork"
	bolt "go.etcd.io/bbolt"
	"google.golang.org/grpc"

	"github.com/drand/drand/v2/common"
	"github.com/drand/drand/v2/common/key"
	dlog "github.com/drand/drand/v2/common/log"
	"github.com/drand/drand/v2/crypto"
	"github.com/drand/drand/v2/internal/chain"
	"github.com/drand/drand/v2/internal/chain/boltdb"
	"github.com/drand/drand/v2/internal/dkg"
	"github.com/drand/drand/v2/internal/net"
	"github.com/drand/drand/v2/internal/test"
	"github.com/drand/drand/v2/internal/util"
	"github.com/drand/drand/v2/internal/vlib"
	pdkg "github.com/drand/drand/v2/protobuf/dkg"
	"github.com/drand/drand/v2/protobuf/drand"
	"github.com/drand/kyber"
	"github.com/drand/kyber/share"
	kdkg "github.com/drand/kyber/share/dkg"
	"github.com/drand/kyber/util/random"
)

const (
	vpsBeaconID = "vps-chain"
	vpsPeriod   = 4 * time.Second
	vpsN        = 3
	vpsT        = 2
	vpsMe       = 1 // index of the node under test in the fabricated groups
	vpsPeer     = 0 // the simulated member that answers with its partial
)

// ---------------------------------------------------------------- input / trace

type vpsScenario struct {
	Name   string          `json:"name"`
	Script [][]any         `json:"script"` // [[do, arg], ...] as printed by TLC
	Points []int           `json:"points"` // crash points: after k observed persistence steps
	Scheme string          `json:"scheme"`
	Raw    json.RawMessage `json:"-"`
}

type vpsTrace struct {
	mu  sync.Mutex
	f   *os.File
	seq int
}

func (t *vpsTrace) Emit(ev string, fields vlib.E) {
	t.mu.Lock()
	defer t.mu.Unlock()
	t.seq++
	m := map[string]any{"ev": ev, "seq": t.seq}
	for k, v := range fields {
		m[k] = v
	}
	b, err := json.Marshal(m)
	if err != nil {
		panic(err)
	}
	t.f.Write(append(b, '\n'))
}

type vpsDiscard struct{}

func (vpsDiscard) Write(p []byte) (int, error) {
	if os.Getenv("VERIF_DEBUG") != "" {
		return os.Stderr.Write(p)
	}
	return len(p), nil
}
func (vpsDiscard) Sync() error { return nil }

func vpsLogger() dlog.Logger {
	lvl := dlog.PanicLevel
	if os.Getenv("VERIF_DEBUG") != "" {
		lvl = dlog.DebugLevel
	}
	return dlog.New(vpsDiscard{}, lvl, false)
}

// ---------------------------------------------------------------- fabricated universe

type vpsFab struct {
	sch     *crypto.Scheme
	pairs   []*key.Pair
	parts   []*pdkg.Participant
	secret  kyber.Scalar
	genesis int64
	seed    []byte
	mu      sync.Mutex
	polys   map[int]*share.PriPoly // epoch -> polynomial of the epoch's group
	groups  map[int]*key.Group
	shares  map[int]*key.Share // share of the node under test (epochs it is a member of)
}

func vpsNewFab(sch *crypto.Scheme, myAddr string, genesis int64) (*vpsFab, error) {
	f := &vpsFab{sch: sch, genesis: genesis, polys: map[int]*share.PriPoly{}, groups: map[int]*key.Group{}, shares: map[int]*key.Share{}}
	for i := 0; i < vpsN; i++ {
		addr := fmt.Sprintf("127.0.0.1:%d", 40000+i) // never dialled: the protocol client is in memory
		if i == vpsMe {
			addr = myAddr
		}
		p, err := key.NewKeyPair(addr, sch)
		if err != nil {
			return nil, err
		}
		f.pairs = append(f.pairs, p)
		part, err := util.PublicKeyAsParticipant(p.Public)
		if err != nil {
			return nil, err
		}
		f.parts = append(f.parts, part)
	}
	f.secret = sch.KeyGroup.Scalar().Pick(random.New())
	return f, nil
}

// epoch fabricates (once) the group of epoch e: a fresh degree t-1 polynomial with the SAME
// secret (what a resharing produces), the node under test a member or not.
func (f *vpsFab) epoch(e int, transition int64, member bool) (*key.Group, *key.Share) {
	f.mu.Lock()
	defer f.mu.Unlock()
	if g, ok := f.groups[e]; ok {
		return g, f.shares[e]
	}
	pri := share.NewPriPoly(f.sch.KeyGroup, vpsT, f.secret, random.New())
	pub := pri.Commit(f.sch.KeyGroup.Point().Base())
	_, commits := pub.Info()
	var nodes []*key.Node
	n := vpsN
	if !member {
		n = vpsN - 1
	}
	shares := pri.Shares(n)
	idx := 0
	for i := 0; i < vpsN; i++ {
		if !member && i == vpsMe {
			continue
		}
		nodes = append(nodes, &key.Node{Identity: f.pairs[i].Public, Index: uint32(idx)})
		idx++
	}
	g := key.LoadGroup(nodes, f.genesis, &key.DistPublic{Coefficients: commits}, vpsPeriod, transition, f.sch, vpsBeaconID)
	g.Threshold = vpsT
	g.CatchupPeriod = vpsPeriod / 2
	if f.seed == nil {
		f.seed = g.GetGenesisSeed()
	}
	g.GenesisSeed = f.seed
	f.polys[e] = pri
	f.groups[e] = g
	var ks *key.Share
	if member {
		ks = &key.Share{DistKeyShare: kdkg.DistKeyShare{Share: shares[vpsMe], Commits: commits}, Scheme: f.sch}
	} else {
		ks = &key.Share{DistKeyShare: kdkg.DistKeyShare{Share: shares[0], Commits: commits}, Scheme: f.sch}
	}
	f.shares[e] = ks
	return g, ks
}

// oracles: which fabricated epoch is this (0 = nil, -2 = none of them)
func (f *vpsFab) groupEpoch(g *key.Group) int {
	if g == nil {
		return 0
	}
	f.mu.Lock()
	defer f.mu.Unlock()
	h := g.Hash()
	for e, x := range f.groups {
		if bytes.Equal(h, x.Hash()) {
			return e
		}
	}
	return -2
}

func (f *vpsFab) shareEpoch(s *key.Share) int {
	if s == nil || s.Share == nil {
		return 0
	}
	f.mu.Lock()
	defer f.mu.Unlock()
	for e, x := range f.shares {
		if x.Share.I == s.Share.I && x.Share.V.Equal(s.Share.V) && len(x.Commits) == len(s.Commits) {
			same := true
			for i := range x.Commits {
				if !x.Commits[i].Equal(s.Commits[i]) {
					same = false
				}
			}
			if same {
				return e
			}
		}
	}
	return -2
}

func (f *vpsFab) pubKey() kyber.Point {
	return f.sch.KeyGroup.Point().Mul(f.secret, nil)
}

// verifies reports whether a stored beacon is valid for the chain's public key, the way an
// outside client decides it.
func (f *vpsFab) verifies(b *common.Beacon) bool {
	if b == nil {
		return false
	}
	if b.Round == 0 {
		return bytes.Equal(b.Signature, f.seed)
	}
	cp := &common.Beacon{Round: b.Round, Signature: b.Signature, PreviousSig: b.PreviousSig}
	if f.sch.Name != crypto.DefaultSchemeID {
		cp.PreviousSig = nil
	}
	return f.sch.VerifyBeacon(cp, f.pubKey()) == nil
}

func (f *vpsFab) state(e int, st dkg.Status, leaving bool) *dkg.DBState {
	s := &dkg.DBState{
		BeaconID: vpsBeaconID, Epoch: uint32(e), State: st, Threshold: vpsT,
		Timeout: time.Now().Add(2 * time.Hour), SchemeID: f.sch.Name,
		GenesisTime: time.Unix(f.genesis, 0).UTC(), GenesisSeed: f.seed,
		CatchupPeriod: vpsPeriod / 2, BeaconPeriod: vpsPeriod, Leader: f.parts[vpsPeer],
	}
	switch {
	case e == 1:
		s.Joining = append([]*pdkg.Participant{}, f.parts...)
	case leaving:
		for i, p := range f.parts {
			if i == vpsMe {
				s.Leaving = append(s.Leaving, p)
			} else {
				s.Remaining = append(s.Remaining, p)
			}
		}
	default:
		s.Remaining = append([]*pdkg.Participant{}, f.parts...)
	}
	s.Acceptors = append([]*pdkg.Participant{}, s.Remaining...)
	return s
}

// ---------------------------------------------------------------- in-memory peers

type vpsClient struct {
	fab *vpsFab
	mu  sync.Mutex
	dd  *DrandDaemon
}

var _ net.ProtocolClient = (*vpsClient)(nil)
var _ net.PublicClient = (*vpsClient)(nil)

func (c *vpsClient) GetIdentity(context.Context, net.Peer, *drand.IdentityRequest, ...net.CallOption) (*drand.IdentityResponse, error) {
	return nil, errors.New("vps: not implemented")
}
func (c *vpsClient) SyncChain(context.Context, net.Peer, *drand.SyncRequest, ...net.CallOption) (chan *drand.BeaconPacket, error) {
	return nil, errors.New("vps: peer does not serve sync")
}
func (c *vpsClient) Status(context.Context, net.Peer, *drand.StatusRequest, ...grpc.CallOption) (*drand.StatusResponse, error) {
	return nil, errors.New("vps: not implemented")
}
func (c *vpsClient) Check(context.Context, net.Peer) error { return nil }
func (c *vpsClient) PublicRandStream(context.Context, net.Peer, *drand.PublicRandRequest, ...net.CallOption) (chan *drand.PublicRandResponse, error) {
	return nil, errors.New("vps: not implemented")
}
func (c *vpsClient) PublicRand(context.Context, net.Peer, *drand.PublicRandRequest) (*drand.PublicRandResponse, error) {
	return nil, errors.New("vps: not implemented")
}
func (c *vpsClient) ChainInfo(context.Context, net.Peer, *drand.ChainInfoRequest) (*drand.ChainInfoPacket, error) {
	return nil, errors.New("vps: not implemented")
}
func (c *vpsClient) ListBeaconIDs(context.Context, net.Peer) (*drand.ListBeaconIDsResponse, error) {
	return nil, errors.New("vps: not implemented")
}

// PartialBeacon: the node under test sends its partial to a member.  The simulated member
// vpsPeer answers with its own partial for the same (round, previous), signed with its share
// of the epoch under whose public polynomial the received partial verifies.
func (c *vpsClient) PartialBeacon(ctx context.Context, p net.Peer, in *drand.PartialBeaconPacket, _ ...net.CallOption) error {
	f := c.fab
	if p.Address() != f.pairs[vpsPeer].Public.Address() {
		return nil
	}
	msg := f.sch.DigestBeacon(&common.Beacon{Round: in.GetRound(), PreviousSig: in.GetPreviousSignature()})
	f.mu.Lock()
	var pri *share.PriPoly
	var grp *key.Group
	for e, pp := range f.polys {
		pub := pp.Commit(f.sch.KeyGroup.Point().Base())
		if f.sch.ThresholdScheme.VerifyPartial(pub, msg, in.GetPartialSig()) == nil {
			pri, grp = pp, f.groups[e]
		}
	}
	f.mu.Unlock()
	if pri == nil {
		return errors.New("vps: partial verifies under no epoch")
	}
	// index of the simulated member in that epoch's group
	var ps *share.PriShare
	for _, n := range grp.Nodes {
		if n.Address() == f.pairs[vpsPeer].Public.Address() {
			ps = pri.Shares(len(grp.Nodes))[n.Index]
		}
	}
	if ps == nil {
		return errors.New("vps: peer not in group")
	}
	sig, err := f.sch.ThresholdScheme.Sign(ps, msg)
	if err != nil {
		return err
	}
	c.mu.Lock()
	dd := c.dd
	c.mu.Unlock()
	if dd == nil {
		return nil
	}
	out := &drand.PartialBeaconPacket{Round: in.GetRound(), PreviousSignature: in.GetPreviousSignature(), PartialSig: sig,
		Metadata: &drand.Metadata{BeaconID: vpsBeaconID}}
	go func() {
		defer func() { _ = recover() }()
		_, _ = dd.PartialBeacon(context.Background(), out)
	}()
	return nil
}

// ---------------------------------------------------------------- the run

type vpsStore struct {
	key.Store
	r *vpsRun
}

type vpsRun struct {
	t      *testing.T
	tr     *vpsTrace
	sc     vpsScenario
	fab    *vpsFab
	base   string // the node's config folder
	snaps  string // where the snapshots go
	clk    *clock.FakeClock
	dd     *DrandDaemon
	bp     *BeaconProcess
	dstore dkg.Store
	client *vpsClient

	mu       sync.Mutex
	j        int          // persistence steps observed so far
	sel      map[int]bool // crash points to realise
	snapTime map[int]time.Time
	// bolt commits observed at their real grain (see vpsWatchBolt)
	ncommit int       // commits since the last step
	pending string    // copy taken after the last commit, not yet followed by a step or a commit
	pendingT time.Time
	mids    []vpsMid  // crash points INSIDE a step: a commit that was followed by another commit
	served   map[uint64]bool
	saving   map[string]int // file kind -> epoch being saved (set by the store wrapper)
	resetN   int
	failed   string
}

// vpsMid is a crash point inside a persistence step of the specification: the directories as
// they were after the c-th bolt commit that followed step j, when a further commit followed
// before the step was over.
type vpsMid struct {
	j, c int
	dir  string
	at   time.Time
}

// vpsWatchBolt makes every committed write transaction of db observable at the moment it
// becomes the database's state: bbolt writes all pages of a transaction through db.ops.writeAt
// and commits by writing a meta page (page 0 or 1) last.  The wrapper installed here (the same
// seam bbolt's own failure-injection tests use) calls onCommit right after a meta page write
// succeeded, in the committing goroutine, which is parked meanwhile.
func vpsWatchBolt(db *bolt.DB, onCommit func()) error {
	if db == nil {
		return errors.New("nil bolt db")
	}
	v := reflect.ValueOf(db).Elem().FieldByName("ops")
	if !v.IsValid() {
		return errors.New("bolt.DB has no field ops")
	}
	w := v.FieldByName("writeAt")
	if !w.IsValid() {
		return errors.New("bolt.DB.ops has no field writeAt")
	}
	w = reflect.NewAt(w.Type(), unsafe.Pointer(w.UnsafeAddr())).Elem()
	orig, ok := w.Interface().(func([]byte, int64) (int, error))
	if !ok || orig == nil {
		return errors.New("bolt.DB.ops.writeAt has an unexpected type")
	}
	pageSize := int64(db.Info().PageSize)
	wrapped := func(b []byte, off int64) (int, error) {
		n, err := orig(b, off)
		if err == nil && int64(len(b)) == pageSize && (off == 0 || off == pageSize) {
			onCommit()
		}
		return n, err
	}
	w.Set(reflect.ValueOf(wrapped))
	return nil
}

// vpsBoltOf digs the *bolt.DB out of a store object (field "db" of dkg.BoltStore,
// boltdb.BoltStore, boltdb.trimmedStore).
func vpsBoltOf(store any) (*bolt.DB, error) {
	v := reflect.ValueOf(store)
	for v.IsValid() && (v.Kind() == reflect.Interface || v.Kind() == reflect.Ptr) {
		v = v.Elem()
	}
	if !v.IsValid() || v.Kind() != reflect.Struct {
		return nil, fmt.Errorf("store %T is not a struct", store)
	}
	f := v.FieldByName("db")
	if !f.IsValid() {
		return nil, fmt.Errorf("store %T has no field db", store)
	}
	if !f.CanAddr() {
		return nil, fmt.Errorf("store %T: field db not addressable", store)
	}
	f = reflect.NewAt(f.Type(), unsafe.Pointer(f.UnsafeAddr())).Elem()
	db, ok := f.Interface().(*bolt.DB)
	if !ok || db == nil {
		return nil, fmt.Errorf("store %T: field db is not a *bolt.DB", store)
	}
	return db, nil
}

func (r *vpsRun) watch(name string, store any) {
	db, err := vpsBoltOf(store)
	if err == nil {
		err = vpsWatchBolt(db, func() { r.committed(name) })
	}
	if err != nil {
		r.tr.Emit("Note", vlib.E{"what": "cannot watch bolt commits", "db": name, "err": err.Error()})
		return
	}
	r.tr.Emit("Watch", vlib.E{"db": name})
}

// committed: a write transaction of a database has just been committed (called in the
// committing goroutine).  A copy of the directories is taken; it becomes a crash point of its
// own if ANOTHER commit follows before the persistence step is over, i.e. when the code made
// one step of the specification out of several transactions.
func (r *vpsRun) committed(db string) {
	r.mu.Lock()
	defer r.mu.Unlock()
	if r.pending != "" {
		r.mids = append(r.mids, vpsMid{j: r.j, c: r.ncommit, dir: r.pending, at: r.pendingT})
		r.pending = ""
	}
	r.ncommit++
	r.tr.Emit("Commit", vlib.E{"db": db, "j": r.j, "c": r.ncommit})
	dir := filepath.Join(r.snaps, fmt.Sprintf("m%03d-%d", r.j, r.ncommit))
	if err := vpsCopyTree(r.base, dir); err != nil {
		r.failed = fmt.Sprintf("commit snapshot %d/%d: %v", r.j, r.ncommit, err)
		return
	}
	r.pending, r.pendingT = dir, r.clk.Now()
}

func (r *vpsRun) groupFile() string {
	return filepath.Join(r.base, common.MultiBeaconFolder, vpsBeaconID, key.GroupFolderName, "drand_group.toml")
}
func (r *vpsRun) shareFile() string {
	return filepath.Join(r.base, common.MultiBeaconFolder, vpsBeaconID, key.GroupFolderName, "dist_key.private")
}

func vpsCopyTree(src, dst string) error {
	return filepath.Walk(src, func(p string, info os.FileInfo, err error) error {
		if err != nil {
			return err
		}
		rel, _ := filepath.Rel(src, p)
		to := filepath.Join(dst, rel)
		if info.IsDir() {
			return os.MkdirAll(to, info.Mode().Perm()|0o700)
		}
		if !info.Mode().IsRegular() {
			return nil
		}
		in, err := os.Open(p)
		if err != nil {
			return err
		}
		defer in.Close()
		out, err := os.OpenFile(to, os.O_CREATE|os.O_WRONLY|os.O_TRUNC, info.Mode().Perm())
		if err != nil {
			return err
		}
		if _, err := io.Copy(out, in); err != nil {
			out.Close()
			return err
		}
		return out.Close()
	})
}

// observe is called at the point where the real code has just performed a persistence
// step (from the instrumented goroutine, which stays parked here while the directories are
// copied).  derive, if set, is applied to the copy (a torn file the live run cannot stop at).
func (r *vpsRun) observe(op, f string, a int, derive func(dir string) error) {
	r.mu.Lock()
	defer r.mu.Unlock()
	r.j++
	j := r.j
	// the step is over: the copy taken after its (last) commit is the state at this boundary
	if r.pending != "" {
		os.RemoveAll(r.pending)
		r.pending = ""
	}
	r.ncommit = 0
	if op == "Serve" {
		r.served[uint64(a)] = true
	}
	r.tr.Emit("Step", vlib.E{"j": j, "op": op, "f": f, "a": a, "derived": derive != nil})
	if !r.sel[j] {
		return
	}
	r.snapshotLocked(j, derive)
}

func (r *vpsRun) snapshotLocked(j int, derive func(dir string) error) {
	dir := filepath.Join(r.snaps, fmt.Sprintf("k%03d", j))
	if err := vpsCopyTree(r.base, dir); err != nil {
		r.failed = fmt.Sprintf("snapshot %d: %v", j, err)
		return
	}
	if derive != nil {
		if err := derive(dir); err != nil {
			r.failed = fmt.Sprintf("snapshot %d derive: %v", j, err)
		}
	}
	r.snapTime[j] = r.clk.Now()
}

func (w *vpsStore) SaveGroup(g *key.Group) error {
	r := w.r
	e := r.fab.groupEpoch(g)
	r.mu.Lock()
	r.saving["group"] = e
	r.mu.Unlock()
	err := w.Store.SaveGroup(g) // key.Save: the stamp key.save.created fires in here
	if err == nil {
		r.observe("WriteSome", "group", e, vpsHalve(filepath.Join(common.MultiBeaconFolder, vpsBeaconID, key.GroupFolderName, "drand_group.toml")))
		r.observe("Write", "group", e, nil)
	}
	return err
}

func (w *vpsStore) SaveShare(s *key.Share) error {
	r := w.r
	e := r.fab.shareEpoch(s)
	r.mu.Lock()
	r.saving["share"] = e
	r.mu.Unlock()
	err := w.Store.SaveShare(s)
	if err == nil {
		r.observe("WriteSome", "share", e, vpsHalve(filepath.Join(common.MultiBeaconFolder, vpsBeaconID, key.GroupFolderName, "dist_key.private")))
		r.observe("Write", "share", e, nil)
	}
	return err
}

func (w *vpsStore) Reset() error {
	err := w.Store.Reset() // fileStore.Reset: the stamp key.reset.shareDeleted fires in here
	if err == nil {
		w.r.observe("DeleteGroup", "group", 0, nil)
	}
	w.r.mu.Lock()
	w.r.resetN++
	w.r.mu.Unlock()
	return err
}

// vpsHalve: what a crash in the middle of the TOML encode leaves: the first half of the bytes.
func vpsHalve(rel string) func(dir string) error {
	return func(dir string) error {
		p := filepath.Join(dir, rel)
		st, err := os.Stat(p)
		if err != nil {
			return err
		}
		return os.Truncate(p, st.Size()/2)
	}
}

func vpsDKGStoreOf(dd *DrandDaemon) (dkg.Store, error) {
	p, ok := dd.dkg.(*dkg.Process)
	if !ok || p == nil {
		return nil, errors.New("daemon has no dkg.Process")
	}
	v := reflect.ValueOf(p).Elem().FieldByName("store")
	if !v.IsValid() {
		return nil, errors.New("dkg.Process has no field store")
	}
	v = reflect.NewAt(v.Type(), unsafe.Pointer(v.UnsafeAddr())).Elem()
	s, ok := v.Interface().(dkg.Store)
	if !ok || s == nil {
		return nil, errors.New("dkg.Process.store is not a dkg.Store")
	}
	return s, nil
}

func vpsNewDaemon(folder string, clk clock.Clock, client *vpsClient, addr string) (*DrandDaemon, error) {
	cfg := NewConfig(vpsLogger(),
		WithConfigFolder(folder),
		WithPrivateListenAddress(addr),
		WithControlPort(test.FreePort()),
		WithDBStorageEngine(chain.BoltDB),
		WithDkgKickoffGracePeriod(time.Second),
		WithDkgPhaseTimeout(2*time.Second),
	)
	cfg.clock = clk
	var dd *DrandDaemon
	var err error
	r := vlib.Call(30*time.Second, func() { dd, err = NewDrandDaemon(context.Background(), cfg) })
	if !r.Returned || r.Panic != "" {
		return nil, fmt.Errorf("NewDrandDaemon: returned=%v panic=%s", r.Returned, r.Panic)
	}
	if err != nil {
		return nil, err
	}
	// the network: in memory
	dd.privGateway.ProtocolClient = client
	dd.privGateway.PublicClient = client
	client.mu.Lock()
	client.dd = dd
	client.mu.Unlock()
	return dd, nil
}

func vpsStopDaemon(dd *DrandDaemon) bool {
	c, cancel := context.WithTimeout(context.Background(), 3*time.Second)
	defer cancel()
	r := vlib.Call(12*time.Second, func() { dd.Stop(c) })
	return r.Returned && r.Panic == ""
}

func (r *vpsRun) fail(format string, a ...any) {
	r.t.Fatalf("vps[%s]: "+format, append([]any{r.sc.Name}, a...)...)
}

func (r *vpsRun) head() uint64 {
	r.bp.state.RLock()
	b := r.bp.beacon
	r.bp.state.RUnlock()
	if b == nil {
		return 0
	}
	l, err := b.Store().Last(context.Background())
	if err != nil || l == nil {
		return 0
	}
	return l.Round
}

func (r *vpsRun) isServed(round uint64) bool {
	r.mu.Lock()
	defer r.mu.Unlock()
	return r.served[round]
}

// beacons: let time pass until n more rounds are stored and served.
func (r *vpsRun) beacons(n int) {
	target := r.head() + uint64(n)
	for i := 0; i < 400 && !r.isServed(target); i++ {
		time.Sleep(3 * time.Millisecond) // let sleepers register
		r.clk.Advance(time.Second)
		now := r.clk.Now().Unix()
		if now >= r.fab.genesis && (now-r.fab.genesis)%int64(vpsPeriod.Seconds()) == 0 {
			want := r.head() + 1
			vlib.Eventually(1500*time.Millisecond, func() bool { return r.isServed(want) })
		} else {
			vlib.Eventually(40*time.Millisecond, func() bool { return r.isServed(target) })
		}
	}
	if !r.isServed(target) {
		r.fail("round %d was not produced (head %d)", target, r.head())
	}
	// quiescence: the aggregator is done with this round
	time.Sleep(10 * time.Millisecond)
}

func (r *vpsRun) nextTransition() int64 {
	now := r.clk.Now().Unix()
	cur := common.CurrentRound(now, vpsPeriod, r.fab.genesis)
	return common.TimeOfRound(vpsPeriod, r.fab.genesis, cur+1)
}

// dkgCompletes: what dkg.Process does when a DKG of epoch e in which this node holds a
// share of the new group ends: SaveCurrent(...Executing), then executeAndFinishDKG's tail.
func (r *vpsRun) dkgCompletes(e int) {
	f := r.fab
	transition := f.genesis
	if e > 1 {
		transition = r.nextTransition()
	}
	g, ks := f.epoch(e, transition, true)
	for _, st := range []dkg.Status{dkg.Proposed, dkg.Executing} {
		if err := r.dstore.SaveCurrent(vpsBeaconID, f.state(e, st, false)); err != nil {
			r.fail("SaveCurrent: %v", err)
		}
		r.observe("SaveCurrentTx", st.String(), e, nil)
	}
	// executeAndFinishDKG: current, lastCompleted := GetCurrent, GetFinished; output := kyber;
	current, err := r.dstore.GetCurrent(vpsBeaconID)
	if err != nil {
		r.fail("GetCurrent: %v", err)
	}
	last, err := r.dstore.GetFinished(vpsBeaconID)
	if err != nil {
		r.fail("GetFinished: %v", err)
	}
	final, err := current.Complete(g, ks)
	if err != nil {
		r.fail("Complete: %v", err)
	}
	if err := r.dstore.SaveFinished(vpsBeaconID, final); err != nil {
		r.fail("SaveFinished: %v", err)
	}
	r.observe("SaveFinishedTx", "-", e, nil)
	first := r.head() == 0 && func() bool { r.bp.state.RLock(); defer r.bp.state.RUnlock(); return r.bp.beacon == nil }()
	before := r.stepCount()
	cr := vlib.Call(10*time.Second, func() {
		r.dd.completedDKGs.Chan() <- dkg.SharingOutput{BeaconID: vpsBeaconID, Old: last, New: *final}
	})
	if !cr.Returned {
		r.fail("completed-DKG fan-out blocked")
	}
	// the beacon process stores the output (group, share: 6 steps) and, the first time, starts the beacon
	applied := func() bool {
		r.bp.state.RLock()
		defer r.bp.state.RUnlock()
		return r.bp.beacon != nil && r.bp.group == g
	}
	ok := vlib.Eventually(20*time.Second, applied) && vlib.Eventually(2*time.Second, func() bool { return r.stepCount() >= before+6 })
	if !ok {
		// not what the script expects: go on if the node can, the trace spec judges the steps
		r.tr.Emit("Note", vlib.E{"what": "dkg output not stored as expected", "epoch": e, "steps": r.stepCount() - before, "applied": applied()})
		r.bp.state.RLock()
		has := r.bp.beacon != nil
		r.bp.state.RUnlock()
		if !has {
			r.fail("DKG output of epoch %d was not applied and no beacon handler exists (steps %d -> %d)", e, before, r.stepCount())
		}
	}
	if first {
		// StartBeacon -> newBeacon -> createDBStore + NewHandler stored the genesis beacon
		r.observe("GenesisTx", "-", 0, nil)
		// from now on every write transaction of the chain db is observed
		r.bp.state.RLock()
		st := r.bp.dbStore
		r.bp.state.RUnlock()
		r.watch("chain", st)
	}
}

func (r *vpsRun) stepCount() int {
	r.mu.Lock()
	defer r.mu.Unlock()
	return r.j
}

// left: a DKG of epoch e in which this node is a leaver: its state machine records
// Proposed then Left; nothing else is persisted.
func (r *vpsRun) left(e int) {
	for _, st := range []dkg.Status{dkg.Proposed, dkg.Left} {
		if err := r.dstore.SaveCurrent(vpsBeaconID, r.fab.state(e, st, true)); err != nil {
			r.fail("SaveCurrent: %v", err)
		}
		r.observe("SaveCurrentTx", st.String(), e, nil)
	}
}

// leaveCallback: a completed-DKG result whose new group does not contain this node reaches
// BeaconProcess.onDKGCompleted -> leaveNetwork (StopAt, then fileStore.Reset).
// NOT PART OF ANY REGISTERED RUN: no production path produces such a result in this tree
// (see spec/Persist.tla, Expand); kept so that the observation F16/F17 can be re-made by hand
// with a script containing ["leavecb", e].
func (r *vpsRun) leaveCallback(e int) {
	last, err := r.dstore.GetFinished(vpsBeaconID)
	if err != nil || last == nil {
		r.fail("GetFinished before leave: %v", err)
	}
	g, ks := r.fab.epoch(100+e, r.nextTransition(), false)
	st := r.fab.state(e, dkg.Complete, true)
	st.FinalGroup, st.KeyShare = g, ks
	r.mu.Lock()
	n0 := r.resetN
	r.mu.Unlock()
	cr := vlib.Call(10*time.Second, func() {
		r.dd.completedDKGs.Chan() <- dkg.SharingOutput{BeaconID: vpsBeaconID, Old: last, New: *st}
	})
	if !cr.Returned {
		r.fail("completed-DKG fan-out blocked")
	}
	done := func() bool { r.mu.Lock(); defer r.mu.Unlock(); return r.resetN > n0 }
	for i := 0; i < 40 && !done(); i++ {
		if vlib.Eventually(300*time.Millisecond, done) {
			break
		}
		// leaveNetwork sleeps on the clock until its stop time
		r.clk.Advance(time.Second)
	}
	if !done() {
		r.fail("leaveNetwork did not reset the key store")
	}
	r.bp.state.RLock()
	running := r.bp.beacon != nil && !r.bp.beacon.IsStopped()
	r.bp.state.RUnlock()
	r.tr.Emit("Note", vlib.E{"what": "after-leaveNetwork", "handlerStillRunning": running})
}

func vpsRunScenario(t *testing.T, tr *vpsTrace, sc vpsScenario, workdir string) {
	schName := sc.Scheme
	if schName == "" {
		schName = crypto.DefaultSchemeID
	}
	sch, err := crypto.SchemeFromName(schName)
	if err != nil {
		t.Fatalf("vps: scheme: %v", err)
	}
	r := &vpsRun{t: t, tr: tr, sc: sc, sel: map[int]bool{}, snapTime: map[int]time.Time{}, served: map[uint64]bool{}, saving: map[string]int{}}
	for _, k := range sc.Points {
		r.sel[k] = true
	}
	r.base = filepath.Join(workdir, "node")
	r.snaps = filepath.Join(workdir, "snaps")
	for _, d := range []string{r.base, r.snaps} {
		if err := os.MkdirAll(d, 0o755); err != nil {
			t.Fatalf("vps: %v", err)
		}
	}
	start := time.Now().Add(-time.Hour).Truncate(time.Second)
	r.clk = clock.NewFakeClockAt(start)
	myAddr := test.FreeBind("127.0.0.1")
	genesis := start.Add(2 * vpsPeriod).Unix()
	if r.fab, err = vpsNewFab(sch, myAddr, genesis); err != nil {
		t.Fatalf("vps: fabricate: %v", err)
	}
	tr.Emit("Reset", vlib.E{"scenario": sc.Name, "script": sc.Script, "scheme": schName, "points": len(sc.Points)})

	// a node that generated its key pair and was never started
	fstore := key.NewFileStore(filepath.Join(r.base, common.MultiBeaconFolder), vpsBeaconID)
	if err := fstore.SaveKeyPair(r.fab.pairs[vpsMe]); err != nil {
		t.Fatalf("vps: keypair: %v", err)
	}
	r.client = &vpsClient{fab: r.fab}
	if r.dd, err = vpsNewDaemon(r.base, r.clk, r.client, myAddr); err != nil {
		t.Fatalf("vps: daemon: %v", err)
	}
	stopped := false
	defer func() {
		if !stopped {
			vpsStopDaemon(r.dd)
		}
	}()
	if r.dstore, err = vpsDKGStoreOf(r.dd); err != nil {
		t.Fatalf("vps: %v", err)
	}
	r.watch("dkg", r.dstore)

	sched := vlib.NewSched()
	sched.OnPoint("append.stored", func(args []any) {
		if round, ok := args[0].(uint64); ok {
			r.observe("BeaconTx", "-", int(round), nil)
		}
	})
	sched.OnPoint("cb.dispatch", func(args []any) {
		if round, ok := args[0].(uint64); ok {
			r.observe("Serve", "-", int(round), nil)
		}
	})
	sched.OnPoint("key.save.created", func(args []any) {
		p, _ := args[0].(string)
		kind := ""
		switch p {
		case r.groupFile():
			kind = "group"
		case r.shareFile():
			kind = "share"
		default:
			return
		}
		r.mu.Lock()
		e := r.saving[kind]
		r.mu.Unlock()
		r.observe("CreateTruncate", kind, e, nil)
	})
	sched.OnPoint("key.reset.shareDeleted", func(args []any) {
		if p, _ := args[0].(string); p == r.shareFile() {
			r.observe("DeleteShare", "share", 0, nil)
		}
	})

	// crash point 0: nothing has happened yet
	if r.sel[0] {
		r.mu.Lock()
		r.snapshotLocked(0, nil)
		r.mu.Unlock()
	}
	// the daemon loads the beacon id: fresh install, waits for a DKG
	cr := vlib.Call(30*time.Second, func() {
		r.bp, err = r.dd.LoadBeaconFromStore(context.Background(), vpsBeaconID, &vpsStore{Store: fstore, r: r})
	})
	if !cr.Returned || cr.Panic != "" || err != nil || r.bp == nil {
		t.Fatalf("vps: initial load: returned=%v panic=%s err=%v", cr.Returned, cr.Panic, err)
	}

	for _, op := range sc.Script {
		if len(op) < 2 {
			continue
		}
		do, _ := op[0].(string)
		argf, _ := op[1].(float64)
		arg := int(argf)
		switch do {
		case "dkg":
			r.dkgCompletes(arg)
		case "beacons":
			r.beacons(arg)
		case "left":
			r.left(arg)
		case "leavecb":
			r.leaveCallback(arg)
		default:
			t.Fatalf("vps: unknown script op %q", do)
		}
		if r.failed != "" {
			t.Fatalf("vps: %s", r.failed)
		}
	}
	r.mu.Lock()
	total := r.j
	r.mu.Unlock()
	sched.Uninstall()
	stopped = true
	if !vpsStopDaemon(r.dd) {
		tr.Emit("Note", vlib.E{"what": "main daemon did not stop cleanly"})
	}
	tr.Emit("RunEnd", vlib.E{"steps": total})

	// ---- crash + restart, one fresh daemon per snapshot
	var ks []int
	for k := range r.snapTime {
		ks = append(ks, k)
	}
	sort.Ints(ks)
	for _, k := range ks {
		r.restart(k)
	}
	// crash points inside a step (only if the code made a step out of several transactions)
	r.mu.Lock()
	mids := append([]vpsMid{}, r.mids...)
	r.mu.Unlock()
	for _, m := range mids {
		r.restartAt(m.j, m.c, m.dir, m.at)
	}
	for _, k := range sc.Points {
		if _, ok := r.snapTime[k]; !ok {
			tr.Emit("Note", vlib.E{"what": "crash point not reached", "k": k})
		}
	}
	if os.Getenv("VERIF_KEEP") == "" {
		os.RemoveAll(workdir)
	}
}

// ---------------------------------------------------------------- restart on a snapshot

func vpsSafe(f func()) (panicked string) {
	defer func() {
		if x := recover(); x != nil {
			panicked = fmt.Sprint(x)
		}
	}()
	f()
	return ""
}

// readDisk: the abstract persistent state as fresh store objects read it from dir.
func (r *vpsRun) readDisk(dir string) vlib.E {
	f := r.fab
	ctx := context.Background()
	if f.sch.Name == crypto.DefaultSchemeID {
		ctx = chain.SetPreviousRequiredOnContext(ctx)
	}
	out := vlib.E{}
	// chain db
	rounds := []uint64{}
	verifies := true
	chainErr := ""
	dbDir := filepath.Join(dir, common.MultiBeaconFolder, vpsBeaconID, DefaultDBFolder)
	if _, err := os.Stat(filepath.Join(dbDir, boltdb.BoltFileName)); err == nil {
		if p := vpsSafe(func() {
			st, err := boltdb.NewBoltStore(ctx, vpsLogger(), dbDir)
			if err != nil {
				chainErr = err.Error()
				return
			}
			defer st.Close()
			err = st.Cursor(ctx, func(ctx context.Context, c chain.Cursor) error {
				for b, err := c.First(ctx); b != nil && err == nil; b, err = c.Next(ctx) {
					rounds = append(rounds, b.Round)
					if !f.verifies(b) {
						verifies = false
					}
				}
				return nil
			})
			if err != nil {
				chainErr = err.Error()
			}
		}); p != "" {
			chainErr = "panic: " + p
		}
	}
	if chainErr != "" {
		verifies = false
	}
	out["chain"] = rounds
	out["chainVerifies"] = verifies
	out["chainErr"] = chainErr
	// dkg.db
	cur := []any{0, "Fresh"}
	fin := []int{0, 0, 0}
	if p := vpsSafe(func() {
		ds, err := dkg.NewDKGStore(dir)
		if err != nil {
			out["dkgErr"] = err.Error()
			return
		}
		defer ds.Close()
		if c, err := ds.GetCurrent(vpsBeaconID); err == nil && c != nil {
			cur = []any{int(c.Epoch), c.State.String()}
		} else if err != nil {
			out["dkgErr"] = err.Error()
		}
		if fs, err := ds.GetFinished(vpsBeaconID); err == nil && fs != nil {
			fin = []int{int(fs.Epoch), f.groupEpoch(fs.FinalGroup), f.shareEpoch(fs.KeyShare)}
		} else if err != nil {
			out["dkgErr"] = err.Error()
		}
	}); p != "" {
		out["dkgErr"] = "panic: " + p
	}
	out["cur"] = cur
	out["fin"] = fin
	// key folder
	st := key.NewFileStore(filepath.Join(dir, common.MultiBeaconFolder), vpsBeaconID)
	readFile := func(path string, load func() (int, error)) (int, string) {
		if _, err := os.Stat(path); err != nil {
			return 0, ""
		}
		e, errs := -1, ""
		if p := vpsSafe(func() {
			v, err := load()
			if err != nil {
				errs = err.Error()
				return
			}
			e = v
		}); p != "" {
			errs = "panic: " + p
		}
		return e, errs
	}
	rel := func(p string) string { return filepath.Join(dir, strings.TrimPrefix(p, r.base)) }
	g, gerr := readFile(rel(r.groupFile()), func() (int, error) {
		grp, err := st.LoadGroup()
		if err != nil {
			return 0, err
		}
		if grp == nil {
			return 0, errors.New("empty group")
		}
		return f.groupEpoch(grp), nil
	})
	s, serr := readFile(rel(r.shareFile()), func() (int, error) {
		sh, err := st.LoadShare()
		if err != nil {
			return 0, err
		}
		e := f.shareEpoch(sh)
		if e == 0 {
			return 0, errors.New("empty share")
		}
		return e, nil
	})
	out["group"], out["share"] = g, s
	if gerr != "" {
		out["groupErr"] = vpsTrim(gerr)
	}
	if serr != "" {
		out["shareErr"] = vpsTrim(serr)
	}
	return out
}

func vpsTrim(s string) string {
	if len(s) > 200 {
		return s[:200]
	}
	return s
}

func (r *vpsRun) restart(k int) {
	r.restartAt(k, 0, filepath.Join(r.snaps, fmt.Sprintf("k%03d", k)), r.snapTime[k])
}

// restartAt: Crash after step k (c = 0) or after the c-th bolt commit inside the step that
// follows step k (c > 0), then Restart on the copy dir.
func (r *vpsRun) restartAt(k, c int, dir string, at time.Time) {
	// what a restart finds on disk: read by fresh objects from a scratch copy
	scratch := dir + "-read"
	if err := vpsCopyTree(dir, scratch); err != nil {
		r.fail("copy: %v", err)
	}
	obs := r.readDisk(scratch)
	os.RemoveAll(scratch)

	rec := vlib.E{"groupEpoch": obs["group"], "shareEpoch": obs["share"], "chainRounds": obs["chain"], "chainVerifies": obs["chainVerifies"]}
	clk := clock.NewFakeClockAt(at)
	client := &vpsClient{fab: r.fab}
	// (a fresh listen address: a previous restart that could not be stopped may still hold the node's own)
	dd, err := vpsNewDaemon(dir, clk, client, test.FreeBind("127.0.0.1"))
	if err != nil {
		r.fail("restart %d: daemon: %v", k, err)
	}
	var lerr error
	cr := vlib.Call(40*time.Second, func() { lerr = dd.LoadBeaconsFromDisk(context.Background(), "", false, "") })
	outcome, errs := "", ""
	loadedG, loadedS, handler := 0, 0, false
	switch {
	case !cr.Returned:
		outcome, errs = "refusesToStart", "LoadBeaconsFromDisk did not return"
	case cr.Panic != "":
		outcome, errs = "refusesToStart", "panic: "+cr.Panic
	case lerr != nil:
		outcome, errs = "refusesToStart", lerr.Error()
	default:
		dd.state.RLock()
		bp := dd.beaconProcesses[vpsBeaconID]
		dd.state.RUnlock()
		if bp == nil {
			outcome, errs = "refusesToStart", "beacon id not loaded"
			break
		}
		bp.state.RLock()
		loadedG, loadedS, handler = r.fab.groupEpoch(bp.group), r.fab.shareEpoch(bp.share), bp.beacon != nil
		bp.state.RUnlock()
		switch {
		case bp.group == nil && !handler:
			outcome = "startsFresh"
		case handler:
			outcome = "resumes"
		default:
			outcome, errs = "refusesToStart", "loaded without a beacon handler"
		}
	}
	// the completed epoch as the restarted daemon's DKG service reports it
	finE, finWhole := 0, true
	cur := []any{0, "Fresh"}
	if cr.Returned {
		var st *pdkg.DKGStatusResponse
		var serr error
		sr := vlib.Call(10*time.Second, func() {
			st, serr = dd.dkg.DKGStatus(context.Background(), &pdkg.DKGStatusRequest{BeaconID: vpsBeaconID})
		})
		if sr.Returned && sr.Panic == "" && serr == nil && st != nil {
			if st.Complete != nil {
				finE = int(st.Complete.Epoch)
			}
			if st.Current != nil {
				cur = []any{int(st.Current.Epoch), dkg.Status(st.Current.State).String()}
			}
		} else {
			finE = -2
			errs += fmt.Sprintf(" | DKGStatus: %v %s", serr, sr.Panic)
		}
	} else {
		finE = -2
	}
	stoppedOK := true
	if cr.Returned {
		stoppedOK = vpsStopDaemon(dd)
	}
	// the completed record itself (after the restart: a migration may have written it)
	scratch2 := dir + "-read2"
	post := vlib.E{}
	if stoppedOK {
		if err := vpsCopyTree(dir, scratch2); err == nil {
			post = r.readDisk(scratch2)
			os.RemoveAll(scratch2)
		}
	}
	finRec, _ := post["fin"].([]int)
	if finRec == nil {
		finRec, _ = obs["fin"].([]int)
	}
	if len(finRec) == 3 {
		if finE == 0 {
			finWhole = true
		} else {
			finWhole = finRec[0] == finE && finRec[1] == finRec[0] && finRec[2] == finRec[0]
		}
	}
	rec["finishedEpoch"], rec["finWhole"], rec["outcome"], rec["cur"] = finE, finWhole, outcome, cur
	r.mu.Lock()
	var served []int
	for rd := range r.served {
		served = append(served, int(rd))
	}
	r.mu.Unlock()
	sort.Ints(served)
	r.tr.Emit("Restart", vlib.E{"j": k, "c": c, "obs": obs, "rec": rec, "err": vpsTrim(errs),
		"loaded": []any{loadedG, loadedS, handler}, "stopped": stoppedOK, "finRecord": finRec})
	if os.Getenv("VERIF_KEEP") == "" {
		os.RemoveAll(dir)
	}
}

// ---------------------------------------------------------------- entry point

func TestVerifPersist(t *testing.T) {
	out := os.Getenv("VERIF_OUT")
	if out == "" {
		t.Skip("verif harness only")
	}
	f, err := os.OpenFile(out, os.O_CREATE|os.O_WRONLY|os.O_TRUNC, 0o644)
	if err != nil {
		t.Fatal(err)
	}
	defer f.Close()
	tr := &vpsTrace{f: f}
	in := os.Getenv("VERIF_IN")
	if in == "" {
		t.Fatal("vps: VERIF_IN (scenarios from TLC) is required")
	}
	lines, err := vlib.LoadJSONLines(in)
	if err != nil {
		t.Fatal(err)
	}
	base := ""
	for _, b := range []string{"/dev/shm", filepath.Dir(out)} {
		if d, err := os.MkdirTemp(b, "vps-persist-"); err == nil {
			base = d
			break
		}
	}
	if base == "" {
		t.Fatal("vps: no scratch directory")
	}
	defer os.RemoveAll(base)
	for i, l := range lines {
		var sc vpsScenario
		if err := json.Unmarshal(l, &sc); err != nil {
			t.Fatal(err)
		}
		vpsRunScenario(t, tr, sc, filepath.Join(base, fmt.Sprintf("s%02d", i)))
	}
}
