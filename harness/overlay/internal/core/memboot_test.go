package core

// Overlay harness (injected by /verif): BeaconProcess.storeCurrentFromPeerNetwork (start of a node with the in-memory
// store) on the catalogue of peer behaviours of spec/MemBoot.tla: every peer answers the request for the current
// round and the request for the latest round with one of: error, the genuine beacon, an older genuine beacon, a
// genuine signature relabelled with another round, garbage, a wrong previous signature, an empty signature, round 0.
// Which usable answer arrives first is scripted (the other usable peers answer only after the call gave up on
// them).  What ends up in the store is recorded; TLC judges it (Trace_MemBoot.tla).

import (
	"bytes"
	"context"
	"errors"
	"os"
	"testing"
	"time"

	clock "github.com/jonboulle/clockwork"

	"github.com/drand/drand/v2/common"
	"github.com/drand/drand/v2/common/key"
	"github.com/drand/drand/v2/common/log"
	"github.com/drand/drand/v2/crypto"
	"github.com/drand/drand/v2/internal/chain"
	"github.com/drand/drand/v2/internal/chain/memdb"
	"github.com/drand/drand/v2/internal/net"
	"github.com/drand/drand/v2/internal/vlib"
	"github.com/drand/drand/v2/protobuf/drand"
	"github.com/drand/kyber"
	"github.com/drand/kyber/util/random"
)

type vmbPeers struct {
	addrs       []string // peer index (1-based) -> address
	aT, aL      []*drand.PublicRandResponse
	fT, fL      int
	askedLatest bool
}

func (z *vmbPeers) PublicRand(ctx context.Context, p net.Peer, in *drand.PublicRandRequest) (*drand.PublicRandResponse, error) {
	idx := -1
	for i, a := range z.addrs {
		if a == p.Address() {
			idx = i
		}
	}
	if idx < 0 {
		return nil, errors.New("vmb: unknown peer")
	}
	ans, first := z.aT, z.fT
	if in.GetRound() == 0 {
		ans, first = z.aL, z.fL
		z.askedLatest = true
	}
	if ans[idx] == nil {
		return nil, errors.New("can't retrieve beacon")
	}
	if idx+1 != first {
		<-ctx.Done() // this answer comes too late
		return nil, ctx.Err()
	}
	return ans[idx], nil
}

func (z *vmbPeers) PublicRandStream(context.Context, net.Peer, *drand.PublicRandRequest, ...net.CallOption) (chan *drand.PublicRandResponse, error) {
	return nil, errors.New("not implemented")
}
func (z *vmbPeers) ChainInfo(context.Context, net.Peer, *drand.ChainInfoRequest) (*drand.ChainInfoPacket, error) {
	return nil, errors.New("not implemented")
}
func (z *vmbPeers) ListBeaconIDs(context.Context, net.Peer) (*drand.ListBeaconIDsResponse, error) {
	return nil, errors.New("not implemented")
}

func TestVerifMemBoot(t *testing.T) {
	if os.Getenv("VERIF_OUT") == "" {
		t.Skip("verif harness only")
	}
	tr := vlib.MustOpenTraceEnv()
	defer tr.Close()
	for _, name := range []string{crypto.DefaultSchemeID, crypto.UnchainedSchemeID, crypto.ShortSigSchemeID} {
		vmbScheme(t, tr, name)
	}
}

func vmbScheme(t *testing.T, tr *vlib.Trace, schemeName string) {
	sch, err := crypto.SchemeFromName(schemeName)
	if err != nil {
		t.Fatal(err)
	}
	chained := sch.Name == crypto.DefaultSchemeID
	ctx := context.Background()
	secret := sch.KeyGroup.Scalar().Pick(random.New())
	pub := sch.KeyGroup.Point().Mul(secret, nil)
	sign := func(round uint64, prev []byte) []byte {
		b := &common.Beacon{Round: round}
		if chained {
			b.PreviousSig = prev
		}
		sig, err := sch.AuthScheme.Sign(secret, sch.DigestBeacon(b))
		if err != nil {
			t.Fatal(err)
		}
		return sig
	}
	addrs := []string{"127.0.0.1:4001", "127.0.0.1:4002"}
	var pairs []*key.Pair
	var nodes []*key.Node
	for i, addr := range append([]string{"127.0.0.1:4000"}, addrs...) {
		p, err := key.NewKeyPair(addr, sch)
		if err != nil {
			t.Fatal(err)
		}
		pairs = append(pairs, p)
		nodes = append(nodes, &key.Node{Index: uint32(i), Identity: p.Public})
	}
	period := 10 * time.Second
	now := time.Unix(1_700_000_095, 0)
	genesis := now.Unix() - 95 // current round: 10
	group := key.LoadGroup(nodes, genesis, &key.DistPublic{Coefficients: []kyber.Point{pub}}, period, 0, sch, "default")
	group.GenesisSeed = []byte("vmb genesis seed")

	sig4 := sign(4, []byte("sig3"))
	sig5 := sign(5, sig4)
	sig8 := sign(8, []byte("sig7"))
	sig9 := sign(9, sig8)
	sig10 := sign(10, sig9)
	mk := func(round uint64, sig, prev []byte) *drand.PublicRandResponse {
		r := &drand.PublicRandResponse{Round: round, Signature: sig}
		if chained {
			r.PreviousSignature = prev
		}
		return r
	}
	// kind -> answer to the request for `asked` (10: the current round, 9: the latest one)
	kinds := []string{"err", "good", "old", "relabelled", "garbage", "wrongprev", "emptysig", "zero", "future"}
	answer := func(kind string, asked uint64) *drand.PublicRandResponse {
		sig, prev := sig10, sig9
		if asked == 9 {
			sig, prev = sig9, sig8
		}
		switch kind {
		case "err":
			return nil
		case "good":
			return mk(asked, sig, prev)
		case "old":
			return mk(5, sig5, sig4)
		case "relabelled": // genuine signature of the round before, presented as the round asked for
			return &drand.PublicRandResponse{Round: asked, Signature: prev, PreviousSignature: prev}
		case "garbage":
			return &drand.PublicRandResponse{Round: asked, Signature: []byte("garbage"), PreviousSignature: prev}
		case "wrongprev": // verifies for unchained schemes (no previous signature in the digest), not for the chained one
			return &drand.PublicRandResponse{Round: asked, Signature: sig, PreviousSignature: sig4}
		case "emptysig":
			return &drand.PublicRandResponse{Round: asked, PreviousSignature: prev}
		case "zero":
			return &drand.PublicRandResponse{Round: 0, Signature: []byte("not the genesis seed")}
		default: // "future": the genuine signature of round 10 under a round far ahead
			return &drand.PublicRandResponse{Round: 1000, Signature: sig10, PreviousSignature: sig9}
		}
	}
	abstract := func(r *drand.PublicRandResponse) vlib.E {
		if r == nil {
			return vlib.E{"err": true, "zero": false, "vok": false}
		}
		b := &common.Beacon{Round: r.GetRound(), Signature: r.GetSignature(), PreviousSig: r.GetPreviousSignature()}
		return vlib.E{"err": false, "zero": r.GetRound() == 0, "vok": r.GetRound() != 0 && sch.VerifyBeacon(b, pub) == nil}
	}
	gen := chain.GenesisBeacon(group.GenesisSeed)

	runCase := func(fresh bool, kT, kL []string, fT, fL int) {
		clkNow := now
		if fresh {
			clkNow = time.Unix(genesis+5, 0) // round 1
		}
		peers := &vmbPeers{addrs: addrs, fT: fT, fL: fL}
		var aT, aL []vlib.E
		for i := range addrs {
			peers.aT = append(peers.aT, answer(kT[i], 10))
			peers.aL = append(peers.aL, answer(kL[i], 9))
			aT = append(aT, abstract(peers.aT[i]))
			aL = append(aL, abstract(peers.aL[i]))
		}
		bp := &BeaconProcess{
			opts:        &Config{clock: clock.NewFakeClockAt(clkNow)},
			priv:        pairs[0],
			beaconID:    "default",
			group:       group,
			privGateway: &net.PrivateGateway{PublicClient: peers},
			version:     common.GetAppVersion(),
			log:         log.New(nil, log.ErrorLevel, false),
		}
		store := memdb.NewStore(10)
		var bootErr error
		if r := vlib.Call(20*time.Second, func() { bootErr = bp.storeCurrentFromPeerNetwork(ctx, store) }); !r.Returned || r.Panic != "" {
			t.Fatalf("storeCurrentFromPeerNetwork did not return (%v %v %d %d)", kT, kL, fT, fL)
		}
		stored, vok, sround := "none", false, uint64(0)
		if n, _ := store.Len(ctx); n > 0 {
			last, err := store.Last(ctx)
			if err != nil {
				t.Fatal(err)
			}
			sround = last.Round
			switch {
			case n > 1:
				stored = "other"
			case last.Round == 0 && bytes.Equal(last.Signature, gen.Signature):
				stored = "genesis"
			case last.Round == 0:
				stored = "other"
			default:
				stored, vok = "beacon", sch.VerifyBeacon(last, pub) == nil
			}
		}
		tr.Emit("Boot", vlib.E{"scheme": schemeName, "fresh": fresh, "kT": kT, "kL": kL, "aT": aT, "aL": aL, "fT": fT, "fL": fL,
			"askedLatest": peers.askedLatest, "failed": bootErr != nil, "stored": stored, "vok": vok, "sround": sround})
	}

	firsts := func(ks []string) []int {
		var out []int
		for i, k := range ks {
			if k != "err" {
				out = append(out, i+1)
			}
		}
		if len(out) == 0 {
			out = []int{1}
		}
		return out
	}
	allErr := []string{"err", "err"}
	runCase(true, []string{"relabelled", "relabelled"}, []string{"relabelled", "relabelled"}, 1, 1)
	runCase(true, allErr, allErr, 1, 1)
	for _, k1 := range kinds {
		for _, k2 := range kinds {
			kT := []string{k1, k2}
			if k1 == "err" && k2 == "err" {
				continue
			}
			// the latest-round answers should not matter here: vary them anyway (an implementation that falls back
			// to them must not store what they carry unverified)
			for _, kl := range []string{"relabelled", "good", "err", "zero", "garbage"} {
				for _, fT := range firsts(kT) {
					runCase(false, kT, []string{kl, kl}, fT, 1)
				}
			}
		}
	}
	for _, k1 := range kinds {
		for _, k2 := range kinds {
			kL := []string{k1, k2}
			for _, fL := range firsts(kL) {
				runCase(false, allErr, kL, 1, fL)
			}
		}
	}
}
