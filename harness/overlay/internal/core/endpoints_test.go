package core

// Overlay test (injected by /verif with `go test -overlay`): C14 "no message from the
// network can crash or wedge a node".  For every node state of spec/DaemonEndpoints.tla
// (fresh, proposal, running, stopped) it builds a REAL DrandDaemon (target chain
// "default" in that state + a running bystander chain "a"), and replays every
// (endpoint x request shape) edge: first directly on the service object under a
// deadline (a call that does not return is an observation, with the blocking
// primitive read from the goroutine dump), then through the daemon's real loopback
// gRPC / REST listeners (recovery interceptors in the path).  After every call it
// probes the same and the other endpoints, try-locks the daemon's own mutexes and
// checks that the beacon loops still run.  Every request is a protobuf message that
// went through Marshal/Unmarshal, i.e. something a remote party can put on the wire.
// The test asserts nothing: TLC judges the ndjson trace (Trace_DaemonEndpoints).

import (
	"context"
	"encoding/hex"
	"encoding/json"
	"errors"
	"fmt"
	"io"
	"math"
	"math/rand"
	"net/http"
	"net/http/httptest"
	"os"
	"regexp"
	"runtime"
	"runtime/debug"
	"sort"
	"strings"
	"sync"
	"testing"
	"time"

	"google.golang.org/grpc"
	"google.golang.org/grpc/codes"
	"google.golang.org/grpc/credentials/insecure"
	healthgrpc "google.golang.org/grpc/health/grpc_health_v1"
	"google.golang.org/grpc/status"
	"google.golang.org/protobuf/proto"
	"google.golang.org/protobuf/types/known/timestamppb"

	"github.com/drand/drand/v2/common"
	"github.com/drand/drand/v2/crypto"
	"github.com/drand/drand/v2/internal/vhook"
	"github.com/drand/drand/v2/internal/vlib"
	pdkg "github.com/drand/drand/v2/protobuf/dkg"
	"github.com/drand/drand/v2/protobuf/drand"
)

const (
	vdmeDeadline      = 5 * time.Second
	vdmeProbeDeadline = 1500 * time.Millisecond
)

// ---------------------------------------------------------------- trace with a write per event
// (vlib.Trace buffers until Close; if a request kills the process the observations made so far
// must survive, so this file writes every event straight to the file.)

type vdmeTrace struct {
	mu  sync.Mutex
	f   *os.File
	seq int
}

func (t *vdmeTrace) Emit(ev string, fields vlib.E) {
	t.mu.Lock()
	defer t.mu.Unlock()
	t.seq++
	m := map[string]any{"ev": ev, "seq": t.seq}
	for k, v := range fields {
		m[k] = v
	}
	b, err := json.Marshal(m)
	if err != nil {
		panic(err)
	}
	t.f.Write(append(b, '\n'))
}

// ---------------------------------------------------------------- request shapes

type vdmeCall struct {
	EP, ID, Hash, GM, Body string // the request class of spec/DaemonEndpoints.tla
	Ver                    string // version class announced in the metadata: none | compatible | incompatible ("" = none)
	Name                   string // the concrete variant
	Tick                   bool   // the handler may wait for the next round: time keeps running during the call
	Msg                    func(w *vdmWorld) proto.Message
	Path                   func(w *vdmWorld) string
}

type vdmeMeta struct {
	name, id, hash string
	build          func(w *vdmWorld) *drand.Metadata
}

func vdmeBytes(n int, fill byte) []byte {
	b := make([]byte, n)
	for i := range b {
		b[i] = fill + byte(i%7)
	}
	return b
}

func vdmeMetas() []vdmeMeta {
	h := func(w *vdmWorld, id string) []byte { return w.chains[id].hash }
	return []vdmeMeta{
		{"target", "default", "none", func(w *vdmWorld) *drand.Metadata { return &drand.Metadata{BeaconID: "default"} }},
		{"nilMeta", "none", "none", func(w *vdmWorld) *drand.Metadata { return nil }},
		{"emptyMeta", "none", "none", func(w *vdmWorld) *drand.Metadata { return &drand.Metadata{} }},
		{"targetWithHash", "default", "h_default", func(w *vdmWorld) *drand.Metadata {
			return &drand.Metadata{BeaconID: "default", ChainHash: h(w, "default")}
		}},
		{"hashOnlyTarget", "none", "h_default", func(w *vdmWorld) *drand.Metadata { return &drand.Metadata{ChainHash: h(w, "default")} }},
		{"hashOnlyBystander", "none", "h_a", func(w *vdmWorld) *drand.Metadata { return &drand.Metadata{ChainHash: h(w, "a")} }},
		{"bystander", "a", "none", func(w *vdmWorld) *drand.Metadata { return &drand.Metadata{BeaconID: "a"} }},
		{"mismatch", "default", "h_a", func(w *vdmWorld) *drand.Metadata {
			return &drand.Metadata{BeaconID: "default", ChainHash: h(w, "a")}
		}},
		{"unknownId", "unknown", "none", func(w *vdmWorld) *drand.Metadata { return &drand.Metadata{BeaconID: "nosuchbeacon"} }},
		{"unknownHash", "default", "unknown", func(w *vdmWorld) *drand.Metadata {
			return &drand.Metadata{BeaconID: "default", ChainHash: w.hashOf("unknown")}
		}},
		{"unknownHashOnly", "none", "unknown", func(w *vdmWorld) *drand.Metadata { return &drand.Metadata{ChainHash: w.hashOf("unknown")} }},
		{"truncatedHash", "default", "malformed", func(w *vdmWorld) *drand.Metadata {
			return &drand.Metadata{BeaconID: "default", ChainHash: h(w, "default")[:7]}
		}},
		{"oversizeHash", "default", "malformed", func(w *vdmWorld) *drand.Metadata {
			return &drand.Metadata{BeaconID: "default", ChainHash: vdmeBytes(1<<18, 3)}
		}},
		{"oversizeId", "unknown", "none", func(w *vdmWorld) *drand.Metadata {
			return &drand.Metadata{BeaconID: strings.Repeat("x", 1<<16)}
		}},
	}
}

// vdmeVer: what a request announces as node version (metadata.node_version), with every spelling of the
// optional prerelease tag; class = what the numbers make it for this build (same major, minor within one).
type vdmeVer struct {
	name, class string
	build       func() *drand.NodeVersion
}

func vdmeVers() []vdmeVer {
	sp := func(s string) *string { return &s }
	app := func(pre *string) func() *drand.NodeVersion {
		return func() *drand.NodeVersion { v := common.GetAppVersion().ToProto(); v.Prerelease = pre; return v }
	}
	raw := func(ma, mi, pa uint32, pre *string) func() *drand.NodeVersion {
		return func() *drand.NodeVersion { return &drand.NodeVersion{Major: ma, Minor: mi, Patch: pa, Prerelease: pre} }
	}
	app0 := common.GetAppVersion()
	return []vdmeVer{
		{"same", "compatible", app(nil)},
		{"same-pre-empty", "compatible", app(sp(""))},
		{"same-pre-dash", "compatible", app(sp("-"))},
		{"same-pre-tag", "compatible", app(sp("pre"))},
		{"same-pre-dashtag", "compatible", app(sp("-pre"))},
		{"same-pre-oversize", "compatible", app(sp(strings.Repeat("p", 1<<16)))},
		{"next-minor", "compatible", raw(app0.Major, app0.Minor+1, 0, nil)},
		{"zero", "incompatible", raw(0, 0, 0, nil)},
		{"zero-pre-empty", "incompatible", raw(0, 0, 0, sp(""))},
		{"huge", "incompatible", raw(math.MaxUint32, math.MaxUint32, math.MaxUint32, nil)},
		{"huge-pre-dashtag", "incompatible", raw(math.MaxUint32, math.MaxUint32, math.MaxUint32, sp("-pre"))},
		{"other-major-pre-dash", "incompatible", raw(app0.Major+7, 0, 0, sp("-"))},
	}
}

type vdmeBody struct {
	name, class string
	tick        bool
	build       func(w *vdmWorld, md *drand.Metadata) proto.Message
}

func (w *vdmWorld) vdmeLast(id string) uint64 {
	bp := w.loaded[id]
	if bp == nil {
		return 0
	}
	bp.state.RLock()
	b := bp.beacon
	bp.state.RUnlock()
	if b == nil {
		return 0
	}
	last, err := b.Store().Last(context.Background())
	if err != nil || last == nil {
		return 0
	}
	return last.Round
}

func vdmeBodies(ep string) []vdmeBody {
	switch ep {
	case "PartialBeacon":
		mk := func(name string, round func(w *vdmWorld) uint64, sig, prev []byte) vdmeBody {
			return vdmeBody{name, "any", false, func(w *vdmWorld, md *drand.Metadata) proto.Message {
				return &drand.PartialBeaconPacket{Round: round(w), PartialSig: sig, PreviousSignature: prev, Metadata: md}
			}}
		}
		cur := func(w *vdmWorld) uint64 { return w.vdmeLast("default") + 1 }
		zero := func(w *vdmWorld) uint64 { return 0 }
		one := func(w *vdmWorld) uint64 { return 1 }
		huge := func(w *vdmWorld) uint64 { return math.MaxUint64 }
		return []vdmeBody{
			mk("past-garbage", one, vdmeBytes(98, 1), vdmeBytes(96, 2)),
			mk("empty", zero, nil, nil),
			mk("next-emptysig", cur, nil, nil),
			mk("next-1byte", cur, []byte{0}, nil),
			mk("next-indexonly", cur, []byte{0, 0}, vdmeBytes(96, 2)),
			mk("next-ownindex-garbage", cur, append([]byte{0, 0}, vdmeBytes(96, 9)...), vdmeBytes(96, 2)),
			mk("next-index7-garbage", cur, append([]byte{0, 7}, vdmeBytes(96, 9)...), vdmeBytes(96, 2)),
			mk("next-truncated", cur, append([]byte{0, 0}, vdmeBytes(95, 9)...), vdmeBytes(95, 2)),
			mk("next-oversize", cur, vdmeBytes(1<<20, 5), vdmeBytes(1<<20, 6)),
			mk("huge-round", huge, vdmeBytes(98, 1), nil),
		}
	case "PublicRand", "PublicRandStream":
		mk := func(name, class string, tick bool, round func(w *vdmWorld) uint64) vdmeBody {
			return vdmeBody{name, class, tick, func(w *vdmWorld, md *drand.Metadata) proto.Message {
				return &drand.PublicRandRequest{Round: round(w), Metadata: md}
			}}
		}
		out := []vdmeBody{
			mk("latest", "any", false, func(w *vdmWorld) uint64 { return 0 }),
			mk("round1", "any", false, func(w *vdmWorld) uint64 { return 1 }),
			mk("huge", "any", false, func(w *vdmWorld) uint64 { return math.MaxUint64 }),
		}
		if ep == "PublicRand" {
			out = append(out, mk("next", "next", true, func(w *vdmWorld) uint64 { return w.vdmeLast("default") + 1 }))
		}
		return out
	case "SyncChain":
		mk := func(name string, from uint64) vdmeBody {
			return vdmeBody{name, "any", false, func(w *vdmWorld, md *drand.Metadata) proto.Message {
				return &drand.SyncRequest{FromRound: from, Metadata: md}
			}}
		}
		return []vdmeBody{mk("from1", 1), mk("from0", 0), mk("fromHuge", math.MaxUint64)}
	case "ChainInfo":
		return []vdmeBody{{"plain", "any", false, func(w *vdmWorld, md *drand.Metadata) proto.Message { return &drand.ChainInfoRequest{Metadata: md} }}}
	case "GetIdentity":
		return []vdmeBody{{"plain", "any", false, func(w *vdmWorld, md *drand.Metadata) proto.Message { return &drand.IdentityRequest{Metadata: md} }}}
	case "Status":
		mk := func(name string, conns func(w *vdmWorld) []*drand.Address) vdmeBody {
			return vdmeBody{name, "any", false, func(w *vdmWorld, md *drand.Metadata) proto.Message {
				return &drand.StatusRequest{CheckConn: conns(w), Metadata: md}
			}}
		}
		return []vdmeBody{
			mk("noconn", func(w *vdmWorld) []*drand.Address { return nil }),
			mk("self", func(w *vdmWorld) []*drand.Address { return []*drand.Address{{Address: w.addr}} }),
			mk("emptyAddress", func(w *vdmWorld) []*drand.Address { return []*drand.Address{{}, {Address: ""}} }),
			mk("deadPeer", func(w *vdmWorld) []*drand.Address { return []*drand.Address{{Address: "127.0.0.1:1"}} }),
			mk("garbageAddress", func(w *vdmWorld) []*drand.Address { return []*drand.Address{{Address: strings.Repeat("%", 300)}} }),
			mk("sameDeadTwice", func(w *vdmWorld) []*drand.Address { return []*drand.Address{{Address: "127.0.0.1:1"}, {Address: "127.0.0.1:1"}} }),
			mk("sameSelfTwice", func(w *vdmWorld) []*drand.Address { return []*drand.Address{{Address: w.addr}, {Address: w.addr}} }),
			mk("mixedRepeats", func(w *vdmWorld) []*drand.Address {
				return []*drand.Address{{Address: "127.0.0.1:1"}, {}, {Address: w.addr}, {Address: "127.0.0.1:2"}, {Address: "127.0.0.1:1"}, {Address: w.addr}}
			}),
			mk("manyDead", func(w *vdmWorld) []*drand.Address {
				var l []*drand.Address
				for i := 0; i < 12; i++ {
					l = append(l, &drand.Address{Address: fmt.Sprintf("127.0.0.1:%d", 1+i%6)})
				}
				return l
			}),
		}
	}
	return nil
}

// GossipPacket metadata classes
type vdmeGM struct {
	name, class, id string
	build           func(w *vdmWorld) *pdkg.GossipMetadata
}

func vdmeGMs() []vdmeGM {
	sig := vdmeBytes(8, 0x41)
	return []vdmeGM{
		{"ok", "ok", "default", func(w *vdmWorld) *pdkg.GossipMetadata {
			return &pdkg.GossipMetadata{BeaconID: "default", Address: "127.0.0.1:9", Signature: sig}
		}},
		{"nil", "nil", "none", func(w *vdmWorld) *pdkg.GossipMetadata { return nil }},
		{"empty", "shortSig", "none", func(w *vdmWorld) *pdkg.GossipMetadata { return &pdkg.GossipMetadata{} }},
		{"noSig", "shortSig", "default", func(w *vdmWorld) *pdkg.GossipMetadata { return &pdkg.GossipMetadata{BeaconID: "default"} }},
		{"shortSig", "shortSig", "default", func(w *vdmWorld) *pdkg.GossipMetadata {
			return &pdkg.GossipMetadata{BeaconID: "default", Address: "127.0.0.1:9", Signature: []byte{1, 2, 3}}
		}},
		{"oversizeSig", "ok", "default", func(w *vdmWorld) *pdkg.GossipMetadata {
			return &pdkg.GossipMetadata{BeaconID: "default", Address: "127.0.0.1:9", Signature: vdmeBytes(1<<20, 7)}
		}},
		{"ownAddress", "ok", "default", func(w *vdmWorld) *pdkg.GossipMetadata {
			return &pdkg.GossipMetadata{BeaconID: "default", Address: w.addr, Signature: vdmeBytes(96, 0x11)}
		}},
		{"unknownId", "ok", "unknown", func(w *vdmWorld) *pdkg.GossipMetadata {
			return &pdkg.GossipMetadata{BeaconID: "nosuchbeacon", Address: "127.0.0.1:9", Signature: sig}
		}},
		{"bystander", "ok", "a", func(w *vdmWorld) *pdkg.GossipMetadata {
			return &pdkg.GossipMetadata{BeaconID: "a", Address: "127.0.0.1:9", Signature: vdmeBytes(9, 0x51)}
		}},
	}
}

func (w *vdmWorld) vdmePart(id string) *pdkg.Participant {
	c := w.chains[id]
	kb, _ := c.pair.Public.Key.MarshalBinary()
	return &pdkg.Participant{Address: c.pair.Public.Addr, Key: kb, Signature: c.pair.Public.Signature}
}

func (w *vdmWorld) vdmePhantom() *pdkg.Participant {
	kb, _ := w.phantom.Public.Key.MarshalBinary()
	return &pdkg.Participant{Address: w.phantom.Public.Addr, Key: kb, Signature: w.phantom.Public.Signature}
}

type vdmeVariant struct {
	name, class string
	set         func(w *vdmWorld, p *pdkg.GossipPacket)
}

func vdmeInnerPacket(id string, bundle string) *pdkg.Packet {
	p := &pdkg.Packet{}
	if id != "-" {
		p.Metadata = &drand.Metadata{BeaconID: id}
	}
	switch bundle {
	case "deal":
		p.Bundle = &pdkg.Packet_Deal{Deal: &pdkg.DealBundle{}}
	case "dealGarbage":
		p.Bundle = &pdkg.Packet_Deal{Deal: &pdkg.DealBundle{DealerIndex: 4e9, Commits: [][]byte{nil, {1}, vdmeBytes(48, 1), vdmeBytes(1<<16, 2)},
			Deals: []*pdkg.Deal{{}, {ShareIndex: 4e9, EncryptedShare: vdmeBytes(1<<16, 3)}}, SessionId: vdmeBytes(32, 4), Signature: vdmeBytes(64, 5)}}
	case "response":
		p.Bundle = &pdkg.Packet_Response{Response: &pdkg.ResponseBundle{ShareIndex: 4e9, Responses: []*pdkg.Response{{}, {DealerIndex: 4e9, Status: true}}, Signature: vdmeBytes(64, 5)}}
	case "justification":
		p.Bundle = &pdkg.Packet_Justification{Justification: &pdkg.JustificationBundle{DealerIndex: 1, Justifications: []*pdkg.Justification{{}, {ShareIndex: 4e9, Share: vdmeBytes(31, 6)}}, Signature: vdmeBytes(64, 5)}}
	}
	return p
}

func vdmeVariants() []vdmeVariant {
	future := timestamppb.New(time.Now().Add(time.Hour))
	return []vdmeVariant{
		{"none", "none", func(w *vdmWorld, p *pdkg.GossipPacket) {}},
		{"proposal-empty", "proposalNoLeader", func(w *vdmWorld, p *pdkg.GossipPacket) { p.Packet = &pdkg.GossipPacket_Proposal{Proposal: &pdkg.ProposalTerms{}} }},
		{"proposal-plausible", "proposal", func(w *vdmWorld, p *pdkg.GossipPacket) {
			p.Packet = &pdkg.GossipPacket_Proposal{Proposal: &pdkg.ProposalTerms{BeaconID: "default", Epoch: 1, Leader: w.vdmePhantom(), Threshold: 2,
				Timeout: future, CatchupPeriodSeconds: 1, BeaconPeriodSeconds: 2, SchemeID: w.chains["default"].group.Scheme.Name, GenesisTime: future,
				Joining: []*pdkg.Participant{w.vdmePhantom(), w.vdmePart("default")}}}
		}},
		{"proposal-reshare-nilleader", "proposalNoLeader", func(w *vdmWorld, p *pdkg.GossipPacket) {
			p.Packet = &pdkg.GossipPacket_Proposal{Proposal: &pdkg.ProposalTerms{BeaconID: "default", Epoch: 2, Threshold: 1,
				Remaining: []*pdkg.Participant{w.vdmePart("default"), {}}, Leaving: []*pdkg.Participant{{Address: "x"}}, Joining: []*pdkg.Participant{{Key: vdmeBytes(5, 1)}}}}
		}},
		{"proposal-oversize", "proposal", func(w *vdmWorld, p *pdkg.GossipPacket) {
			js := make([]*pdkg.Participant, 3000)
			for i := range js {
				js[i] = &pdkg.Participant{Address: fmt.Sprintf("10.0.0.1:%d", i), Key: vdmeBytes(48, byte(i)), Signature: vdmeBytes(96, byte(i))}
			}
			p.Packet = &pdkg.GossipPacket_Proposal{Proposal: &pdkg.ProposalTerms{BeaconID: "default", Epoch: 1, Leader: js[0], Threshold: 1501, Timeout: future,
				BeaconPeriodSeconds: 1, SchemeID: "pedersen-bls-chained", GenesisTime: future, GenesisSeed: vdmeBytes(1<<16, 1), Joining: js}}
		}},
		{"accept-empty", "accept", func(w *vdmWorld, p *pdkg.GossipPacket) { p.Packet = &pdkg.GossipPacket_Accept{Accept: &pdkg.AcceptProposal{}} }},
		{"accept-phantom", "accept", func(w *vdmWorld, p *pdkg.GossipPacket) {
			p.Packet = &pdkg.GossipPacket_Accept{Accept: &pdkg.AcceptProposal{Acceptor: w.vdmePhantom()}}
		}},
		{"reject-empty", "reject", func(w *vdmWorld, p *pdkg.GossipPacket) { p.Packet = &pdkg.GossipPacket_Reject{Reject: &pdkg.RejectProposal{}} }},
		{"reject-me", "reject", func(w *vdmWorld, p *pdkg.GossipPacket) {
			p.Packet = &pdkg.GossipPacket_Reject{Reject: &pdkg.RejectProposal{Rejector: w.vdmePart("default"), Reason: strings.Repeat("r", 1<<16), Secret: vdmeBytes(9, 1)}}
		}},
		{"abort-empty", "abort", func(w *vdmWorld, p *pdkg.GossipPacket) { p.Packet = &pdkg.GossipPacket_Abort{Abort: &pdkg.AbortDKG{}} }},
		{"abort-oversize", "abort", func(w *vdmWorld, p *pdkg.GossipPacket) {
			p.Packet = &pdkg.GossipPacket_Abort{Abort: &pdkg.AbortDKG{Reason: strings.Repeat("a", 1<<20)}}
		}},
		{"execute-empty", "execute", func(w *vdmWorld, p *pdkg.GossipPacket) { p.Packet = &pdkg.GossipPacket_Execute{Execute: &pdkg.StartExecution{}} }},
		{"execute-now", "execute", func(w *vdmWorld, p *pdkg.GossipPacket) {
			p.Packet = &pdkg.GossipPacket_Execute{Execute: &pdkg.StartExecution{Time: timestamppb.Now()}}
		}},
		{"execute-badtime", "execute", func(w *vdmWorld, p *pdkg.GossipPacket) {
			p.Packet = &pdkg.GossipPacket_Execute{Execute: &pdkg.StartExecution{Time: &timestamppb.Timestamp{Seconds: math.MaxInt64, Nanos: -5}}}
		}},
		{"dkg-emptypacket", "dkgNilInner", func(w *vdmWorld, p *pdkg.GossipPacket) { p.Packet = &pdkg.GossipPacket_Dkg{Dkg: &pdkg.DKGPacket{}} }},
		{"dkg-nometa", "dkgNoMeta", func(w *vdmWorld, p *pdkg.GossipPacket) {
			p.Packet = &pdkg.GossipPacket_Dkg{Dkg: &pdkg.DKGPacket{Dkg: vdmeInnerPacket("-", "")}}
		}},
		{"dkg-nometa-deal", "dkgNoMeta", func(w *vdmWorld, p *pdkg.GossipPacket) {
			p.Packet = &pdkg.GossipPacket_Dkg{Dkg: &pdkg.DKGPacket{Dkg: vdmeInnerPacket("-", "deal")}}
		}},
		{"dkg-meta", "dkgWithMeta", func(w *vdmWorld, p *pdkg.GossipPacket) {
			p.Packet = &pdkg.GossipPacket_Dkg{Dkg: &pdkg.DKGPacket{Dkg: vdmeInnerPacket("default", "")}}
		}},
		{"dkg-meta-deal", "dkgWithMeta", func(w *vdmWorld, p *pdkg.GossipPacket) {
			p.Packet = &pdkg.GossipPacket_Dkg{Dkg: &pdkg.DKGPacket{Dkg: vdmeInnerPacket("default", "dealGarbage")}}
		}},
		{"dkg-meta-emptyid-response", "dkgWithMeta", func(w *vdmWorld, p *pdkg.GossipPacket) {
			p.Packet = &pdkg.GossipPacket_Dkg{Dkg: &pdkg.DKGPacket{Dkg: vdmeInnerPacket("", "response")}}
		}},
	}
}

func vdmeHTTPCalls() []vdmeCall {
	var out []vdmeCall
	seg := func(tok string) func(w *vdmWorld) string {
		return func(w *vdmWorld) string {
			if tok == "oversize" {
				return "/" + strings.Repeat("ab", 1<<15)
			}
			return w.httpSeg(tok)
		}
	}
	add := func(ep, hashTok, body, name, suffix string, tick bool, suf func(w *vdmWorld) string) {
		specHash := hashTok
		if hashTok == "oversize" {
			specHash = "unknown"
		}
		s := seg(hashTok)
		out = append(out, vdmeCall{EP: ep, ID: "none", Hash: specHash, GM: "-", Body: body, Name: name + "@" + hashTok, Tick: tick,
			Path: func(w *vdmWorld) string {
				if suf != nil {
					return s(w) + suf(w)
				}
				return s(w) + suffix
			}})
	}
	for _, h := range []string{"none", "h_default", "h_a", "unknown", "malformed", "oversize"} {
		add("HttpInfo", h, "any", "info", "/info", false, nil)
		add("HttpLatest", h, "any", "latest", "/public/latest", false, nil)
		add("HttpHealth", h, "any", "health", "/health", false, nil)
		add("HttpRound", h, "any", "round1", "/public/1", false, nil)
		add("HttpRound", h, "any", "round0", "/public/0", false, nil)
		add("HttpRound", h, "any", "roundMax", "/public/18446744073709551615", false, nil)
		add("HttpRound", h, "badRound", "roundNeg", "/public/-1", false, nil)
		add("HttpRound", h, "badRound", "roundAbc", "/public/abc", false, nil)
		add("HttpRound", h, "badRound", "roundOverflow", "/public/99999999999999999999999", false, nil)
	}
	for _, h := range []string{"none", "h_default"} {
		add("HttpRound", h, "any", "roundNext", "", true, func(w *vdmWorld) string { return fmt.Sprintf("/public/%d", w.vdmeLast("default")+1) })
	}
	out = append(out, vdmeCall{EP: "HttpChains", ID: "none", Hash: "none", GM: "-", Body: "any", Name: "chains", Path: func(w *vdmWorld) string { return "/chains" }})
	return out
}

// vdmeShapes: the request product.  quick = pairwise over (metadata x body); thorough = the full product.
func vdmeShapes(quick bool) []vdmeCall {
	var out []vdmeCall
	metas := vdmeMetas()
	for _, ep := range []string{"PartialBeacon", "PublicRand", "PublicRandStream", "SyncChain", "ChainInfo", "GetIdentity", "Status"} {
		bodies := vdmeBodies(ep)
		for mi, m := range metas {
			for bi, b := range bodies {
				if quick && !(bi == 0 || mi == 0 || m.name == "targetWithHash") {
					continue
				}
				m, b := m, b
				out = append(out, vdmeCall{EP: ep, ID: m.id, Hash: m.hash, GM: "-", Body: b.class, Name: m.name + "/" + b.name, Tick: b.tick,
					Msg: func(w *vdmWorld) proto.Message { return b.build(w, m.build(w)) }})
			}
		}
	}
	for _, ep := range []string{"PartialBeacon", "PublicRand", "PublicRandStream", "SyncChain", "ChainInfo", "GetIdentity", "Status"} {
		b := vdmeBodies(ep)[0]
		for _, v := range vdmeVers() {
			v := v
			out = append(out, vdmeCall{EP: ep, ID: "default", Hash: "none", GM: "-", Body: b.class, Ver: v.class, Name: "version:" + v.name + "/" + b.name,
				Msg: func(w *vdmWorld) proto.Message {
					return b.build(w, &drand.Metadata{BeaconID: "default", NodeVersion: v.build()})
				}})
		}
	}
	out = append(out,
		vdmeCall{EP: "ListBeaconIDs", ID: "none", Hash: "none", GM: "-", Body: "any", Name: "plain", Msg: func(w *vdmWorld) proto.Message { return &drand.ListBeaconIDsRequest{} }},
		vdmeCall{EP: "Metrics", ID: "none", Hash: "none", GM: "-", Body: "any", Name: "plain", Msg: func(w *vdmWorld) proto.Message { return &drand.MetricsRequest{} }},
	)
	gms, vars := vdmeGMs(), vdmeVariants()
	for gi, g := range gms {
		for vi, v := range vars {
			if quick && !(gi == 0 || vi == 0 || (g.name == "ownAddress" && vi%3 == 1)) {
				continue
			}
			g, v := g, v
			out = append(out, vdmeCall{EP: "DKGPacket", ID: g.id, Hash: "none", GM: g.class, Body: v.class, Name: g.name + "/" + v.name,
				Msg: func(w *vdmWorld) proto.Message {
					p := &pdkg.GossipPacket{Metadata: g.build(w)}
					v.set(w, p)
					return p
				}})
		}
	}
	type bc struct{ name, class, id, inner, bundle string }
	for _, b := range []bc{
		{"nilDkg", "nilDkg", "none", "nil", ""},
		{"noMeta", "noMeta", "none", "-", ""},
		{"noMeta-deal", "noMeta", "none", "-", "dealGarbage"},
		{"emptyId", "ok", "none", "", "deal"},
		{"unknownId", "ok", "unknown", "nosuchbeacon", "deal"},
		{"bystander", "ok", "a", "a", "response"},
		{"target-nobundle", "ok", "default", "default", ""},
		{"target-deal", "ok", "default", "default", "deal"},
		{"target-dealGarbage", "ok", "default", "default", "dealGarbage"},
		{"target-response", "ok", "default", "default", "response"},
		{"target-justification", "ok", "default", "default", "justification"},
	} {
		b := b
		out = append(out, vdmeCall{EP: "BroadcastDKG", ID: b.id, Hash: "none", GM: "-", Body: b.class, Name: b.name,
			Msg: func(w *vdmWorld) proto.Message {
				if b.inner == "nil" {
					return &pdkg.DKGPacket{}
				}
				return &pdkg.DKGPacket{Dkg: vdmeInnerPacket(b.inner, b.bundle)}
			}})
	}
	out = append(out, vdmeHTTPCalls()...)
	return out
}

// vdmeRandomShapes extends every class with seeded random protobuf-valid variants (thorough tier).
func vdmeRandomShapes(rng *rand.Rand, n int) []vdmeCall {
	var out []vdmeCall
	lens := []int{0, 1, 2, 3, 4, 7, 31, 32, 33, 47, 48, 49, 95, 96, 97, 98, 4096, 1 << 17}
	rb := func() []byte {
		if rng.Intn(6) == 0 {
			return nil
		}
		return vdmeBytes(lens[rng.Intn(len(lens))], byte(rng.Intn(256)))
	}
	rounds := []uint64{0, 1, 2, 3, 1 << 31, 1 << 32, 1 << 63, math.MaxUint64}
	metas := vdmeMetas()
	eps := []string{"PartialBeacon", "PublicRand", "PublicRandStream", "SyncChain", "Status"}
	for i := 0; i < n; i++ {
		ep := eps[rng.Intn(len(eps))]
		m := metas[rng.Intn(len(metas))]
		r := rounds[rng.Intn(len(rounds))]
		delta := uint64(rng.Intn(3))
		rel := rng.Intn(3) == 0
		sig, prev := rb(), rb()
		k := rng.Intn(4)
		name := fmt.Sprintf("rnd%d-%s", i, m.name)
		round := func(w *vdmWorld) uint64 {
			if rel {
				return w.vdmeLast("default") + delta
			}
			return r
		}
		c := vdmeCall{EP: ep, ID: m.id, Hash: m.hash, GM: "-", Body: "any", Name: name}
		switch ep {
		case "PartialBeacon":
			c.Msg = func(w *vdmWorld) proto.Message {
				return &drand.PartialBeaconPacket{Round: round(w), PartialSig: sig, PreviousSignature: prev, Metadata: m.build(w)}
			}
		case "PublicRand", "PublicRandStream":
			// a request for exactly the next round may wait for it: keep time running
			c.Tick = true
			if ep == "PublicRand" && rel && delta == 1 {
				c.Body = "next"
			}
			c.Msg = func(w *vdmWorld) proto.Message { return &drand.PublicRandRequest{Round: round(w), Metadata: m.build(w)} }
		case "SyncChain":
			c.Msg = func(w *vdmWorld) proto.Message { return &drand.SyncRequest{FromRound: round(w), Metadata: m.build(w)} }
		case "Status":
			c.Msg = func(w *vdmWorld) proto.Message {
				var conns []*drand.Address
				for j := 0; j < k; j++ {
					conns = append(conns, &drand.Address{Address: []string{"", w.addr, "127.0.0.1:1", "::::", "localhost"}[(j+i)%5]})
				}
				return &drand.StatusRequest{CheckConn: conns, Metadata: m.build(w)}
			}
		}
		out = append(out, c)
	}
	gms, vars := vdmeGMs(), vdmeVariants()
	for i := 0; i < n/2; i++ {
		g, v := gms[rng.Intn(len(gms))], vars[rng.Intn(len(vars))]
		sig := rb()
		cls := g.class
		if g.class != "nil" {
			if len(sig) < 4 {
				cls = "shortSig"
			} else {
				cls = "ok"
			}
		}
		addr := []string{"", "127.0.0.1:9", "x"}[rng.Intn(3)]
		out = append(out, vdmeCall{EP: "DKGPacket", ID: g.id, Hash: "none", GM: cls, Body: v.class, Name: fmt.Sprintf("rnd%d-%s/%s", i, g.name, v.name),
			Msg: func(w *vdmWorld) proto.Message {
				p := &pdkg.GossipPacket{Metadata: g.build(w)}
				if p.Metadata != nil {
					p.Metadata.Signature = sig
					p.Metadata.Address = addr
				}
				v.set(w, p)
				return p
			}})
	}
	return out
}

// ---------------------------------------------------------------- executing one request

type vdmeResult struct {
	res  string // ok | reject | panic | blocked
	err  string
	code string
	on   string // for blocked calls: blocking primitive and the drand function that waits
	slow bool   // returned, but only after the deadline (the goroutine was not waiting for a lock)
	// where a panic was caught: "handler" = inside the position of the recovery interceptor (contained on the real
	// listener), "interceptor" = in the node-version validators, which the listener chains outside of it
	stage string
}

var vdmeGoroutineRe = regexp.MustCompile(`^goroutine (\d+) \[([^\],]+)`)

func vdmeDump() string {
	for n := 8 << 20; ; n *= 2 {
		buf := make([]byte, n)
		if m := runtime.Stack(buf, true); m < n || n >= 256<<20 {
			return string(buf[:m])
		}
	}
}

func vdmeGoroutineID() string {
	buf := make([]byte, 64)
	n := runtime.Stack(buf, false)
	m := vdmeGoroutineRe.FindStringSubmatch(string(buf[:n]))
	if m == nil {
		return ""
	}
	return m[1]
}

// vdmeTopFrame: the innermost function of the drand module (not of this harness) in a stack
func vdmeTopFrame(stack string) string {
	for _, l := range strings.Split(stack, "\n") {
		if strings.HasPrefix(l, "github.com/drand/drand/v2/") && !strings.Contains(l, "vdm") && !strings.Contains(l, "/vlib.") {
			fn := strings.TrimPrefix(l, "github.com/drand/drand/v2/")
			if j := strings.LastIndex(fn, "("); j > 0 {
				fn = fn[:j]
			}
			return fn
		}
	}
	return "?"
}

// vdmeBlockedOn reads from a goroutine dump what goroutine g waits on:
// "<wait reason>@<innermost drand function>", e.g. "sync.Mutex.Lock@internal/dkg.(*Process).BroadcastDKG".
func vdmeBlockedOn(stack, g string) string {
	for _, blk := range strings.Split(stack, "\n\n") {
		lines := strings.Split(blk, "\n")
		m := vdmeGoroutineRe.FindStringSubmatch(lines[0])
		if m == nil || m[1] != g {
			continue
		}
		return m[2] + "@" + vdmeTopFrame(blk)
	}
	return "?"
}

// vdmeOnKind: what the goroutine dump says about a call that did not return.  Only a handler that is PARKED
// (mutex, rwmutex, chan, parked) counts as a wedge; "other" = running / not found: no verdict.
func vdmeOnKind(r vdmeResult) string {
	reason := r.on
	if i := strings.Index(reason, "@"); i >= 0 {
		reason = reason[:i]
	}
	switch {
	case r.res != "blocked":
		return "-"
	case strings.HasPrefix(reason, "sync.Mutex"):
		return "mutex"
	case strings.HasPrefix(reason, "sync.RWMutex"):
		return "rwmutex"
	case strings.HasPrefix(reason, "chan ") || reason == "select" || reason == "select (no cases)" ||
		strings.HasPrefix(reason, "sync.Cond") || strings.HasPrefix(reason, "sync.WaitGroup") || strings.HasPrefix(reason, "semacquire"):
		return "chan"
	case reason == "sleep" || reason == "IO wait":
		return "parked"
	}
	return "other"
}

// vdmeServerParked: for a request that got no answer through the listener, the serving goroutine of the gRPC /
// HTTP server that is parked inside drand code ("<wait reason>@<function>"), or "?" when the dump shows none.
func vdmeServerParked(dump string) string {
	for _, blk := range strings.Split(dump, "\n\n") {
		if !strings.Contains(blk, "grpc.(*Server).handleStream") && !strings.Contains(blk, "net/http.(*conn).serve") {
			continue
		}
		m := vdmeGoroutineRe.FindStringSubmatch(strings.Split(blk, "\n")[0])
		if m == nil || m[2] == "running" || m[2] == "runnable" || m[2] == "IO wait" {
			continue
		}
		if fn := vdmeTopFrame(blk); fn != "?" {
			return m[2] + "@" + fn
		}
	}
	return "?"
}

func vdmeClassify(err error) (string, string) {
	if err == nil {
		return "ok", ""
	}
	return "reject", vdmErrStr(err)
}

// vdmeDirect calls the service object itself.
func (w *vdmWorld) vdmeDirect(c vdmeCall, d time.Duration) vdmeResult {
	var out vdmeResult
	var msg proto.Message
	if c.Msg != nil {
		msg = vdmeWire(c.Msg(w))
	}
	path := ""
	if c.Path != nil {
		path = c.Path(w)
	}
	stopTick := w.vdmeTicker(c.Tick)
	defer stopTick()
	ctx := context.Background()
	gid := make(chan string, 1)
	done := make(chan struct{})
	r := vlib.Call(d, func() {
		defer close(done)
		gid <- vdmeGoroutineID()
		var err error
		// Every gRPC request first passes the daemon's node-version validators, exactly the functions the listener
		// installs.  The listener chains them BEFORE grpcrecovery: the handler they are given here recovers like
		// grpcrecovery does (panic -> codes.Internal), a panic of the validators themselves reaches the outer recover.
		stage := ""
		contain := func(p any) error {
			stage = "handler"
			out.on = vdmeTopFrame(string(debug.Stack()))
			out.err = vdmErrStr(fmt.Errorf("%v", p))
			return status.Errorf(codes.Internal, "%v", p)
		}
		unary := func(method string, h func(ctx context.Context) error) error {
			_, e := w.dd.NodeVersionValidator(ctx, msg, &grpc.UnaryServerInfo{Server: w.dd, FullMethod: method},
				func(ctx context.Context, _ interface{}) (_ interface{}, e error) {
					defer func() {
						if p := recover(); p != nil {
							e = contain(p)
						}
					}()
					return nil, h(ctx)
				})
			return e
		}
		stream := func(method string, ss grpc.ServerStream, h func() error) error {
			return w.dd.NodeVersionStreamValidator(w.dd, ss, &grpc.StreamServerInfo{FullMethod: method, IsServerStream: true},
				func(_ interface{}, _ grpc.ServerStream) (e error) {
					defer func() {
						if p := recover(); p != nil {
							e = contain(p)
						}
					}()
					return h()
				})
		}
		defer func() {
			if p := recover(); p != nil {
				stage = "handler" // (HTTP: net/http recovers a panicking handler per connection)
				if c.Msg != nil {
					stage = "interceptor"
				}
				out = vdmeResult{res: "panic", err: vdmErrStr(fmt.Errorf("%v", p)), on: vdmeTopFrame(string(debug.Stack())), stage: stage}
			}
		}()
		switch c.EP {
		case "PartialBeacon":
			err = unary("/drand.Protocol/PartialBeacon", func(ctx context.Context) error {
				_, e := w.dd.PartialBeacon(ctx, msg.(*drand.PartialBeaconPacket))
				return e
			})
		case "PublicRand":
			err = unary("/drand.Public/PublicRand", func(ctx context.Context) error {
				_, e := w.dd.PublicRand(ctx, msg.(*drand.PublicRandRequest))
				return e
			})
		case "PublicRandStream":
			s := &vdmPubStream{vdmStream: newVdmStream()}
			go func() { time.Sleep(300 * time.Millisecond); s.cancel() }()
			err = stream("/drand.Public/PublicRandStream", s, func() error { return w.dd.PublicRandStream(msg.(*drand.PublicRandRequest), s) })
			if len(s.gotPub) > 0 {
				err = nil
			}
		case "SyncChain":
			s := newVdmStream()
			go func() { time.Sleep(300 * time.Millisecond); s.cancel() }()
			err = stream("/drand.Protocol/SyncChain", s, func() error { return w.dd.SyncChain(msg.(*drand.SyncRequest), s) })
			if len(s.got) > 0 {
				err = nil
			}
		case "ChainInfo":
			err = unary("/drand.Public/ChainInfo", func(ctx context.Context) error {
				_, e := w.dd.ChainInfo(ctx, msg.(*drand.ChainInfoRequest))
				return e
			})
		case "GetIdentity":
			err = unary("/drand.Protocol/GetIdentity", func(ctx context.Context) error {
				_, e := w.dd.GetIdentity(ctx, msg.(*drand.IdentityRequest))
				return e
			})
		case "Status":
			err = unary("/drand.Protocol/Status", func(ctx context.Context) error {
				_, e := w.dd.Status(ctx, msg.(*drand.StatusRequest))
				return e
			})
		case "ListBeaconIDs":
			err = unary("/drand.Public/ListBeaconIDs", func(ctx context.Context) error {
				_, e := w.dd.ListBeaconIDs(ctx, msg.(*drand.ListBeaconIDsRequest))
				return e
			})
		case "Metrics":
			err = unary("/drand.Metrics/Metrics", func(ctx context.Context) error {
				_, e := w.dd.Metrics(ctx, msg.(*drand.MetricsRequest))
				return e
			})
		case "DKGPacket":
			err = unary("/dkg.DKGPublic/Packet", func(ctx context.Context) error {
				_, e := w.dd.Packet(ctx, msg.(*pdkg.GossipPacket))
				return e
			})
		case "BroadcastDKG":
			err = unary("/dkg.DKGPublic/BroadcastDKG", func(ctx context.Context) error {
				_, e := w.dd.BroadcastDKG(ctx, msg.(*pdkg.DKGPacket))
				return e
			})
		case "ProbeHttpTable":
			w.dd.handler.RemoveBeaconHandler("00-no-such-chain")
		default: // HTTP
			rec := httptest.NewRecorder()
			w.http.ServeHTTP(rec, httptest.NewRequest(http.MethodGet, path, nil))
			out.code = fmt.Sprint(rec.Code)
			if rec.Code != http.StatusOK {
				err = fmt.Errorf("http %d", rec.Code)
			}
		}
		if stage == "handler" {
			out.res, out.stage = "panic", "handler"
			return
		}
		out.res, out.err = vdmeClassify(err)
	})
	if !r.Returned {
		g := ""
		select {
		case g = <-gid:
		default:
		}
		// (vlib's dump is capped at 1 MiB, too little once wedged daemons have been abandoned)
		on := vdmeBlockedOn(vdmeDump(), g)
		if !strings.HasPrefix(on, "sync.Mutex") && !strings.HasPrefix(on, "sync.RWMutex") {
			// not waiting for a lock: on a busy machine the call may just be slow; give it more time
			select {
			case <-done:
				out.slow = true
				return out
			case <-time.After(4 * d):
				if g == "" {
					select {
					case g = <-gid:
					default:
					}
				}
				on = vdmeBlockedOn(vdmeDump(), g)
			}
		}
		return vdmeResult{res: "blocked", on: on}
	}
	if r.Panic != "" {
		return vdmeResult{res: "panic", err: vdmErrStr(errors.New(r.Panic))}
	}
	return out
}

// vdmeWire: what arrives after the message crossed the wire
func vdmeWire(m proto.Message) proto.Message {
	b, err := proto.Marshal(m)
	if err != nil {
		panic(err)
	}
	out := m.ProtoReflect().New().Interface()
	if err := proto.Unmarshal(b, out); err != nil {
		panic(err)
	}
	return out
}

func (w *vdmWorld) vdmeTicker(on bool) func() {
	if !on {
		return func() {}
	}
	stop := make(chan struct{})
	var wg sync.WaitGroup
	wg.Add(1)
	go func() {
		defer wg.Done()
		for {
			select {
			case <-stop:
				return
			case <-time.After(60 * time.Millisecond):
				w.clk.Advance(vdmPeriod)
			}
		}
	}()
	return func() { close(stop); wg.Wait() }
}

// vdmeNet sends the request through the daemon's real listeners (gRPC private gateway with the
// node-version and recovery interceptors; REST public gateway).
func (w *vdmWorld) vdmeNet(c vdmeCall, d time.Duration) vdmeResult {
	r := w.vdmeNetOnce(c, d)
	if r.res == "blocked" {
		// the client cannot tell a wedged handler from a slow machine: ask once more with four times the deadline
		r = w.vdmeNetOnce(c, 4*d)
		r.slow = r.res != "blocked"
	}
	return r
}

func (w *vdmWorld) vdmeNetOnce(c vdmeCall, d time.Duration) vdmeResult {
	var msg proto.Message
	if c.Msg != nil {
		msg = c.Msg(w)
	}
	stopTick := w.vdmeTicker(c.Tick)
	defer stopTick()
	ctx, cancel := context.WithTimeout(context.Background(), d)
	defer cancel()
	var err error
	big := grpc.MaxCallSendMsgSize(64 << 20)
	switch c.EP {
	case "PartialBeacon":
		_, err = drand.NewProtocolClient(w.conn).PartialBeacon(ctx, msg.(*drand.PartialBeaconPacket), big)
	case "PublicRand":
		_, err = drand.NewPublicClient(w.conn).PublicRand(ctx, msg.(*drand.PublicRandRequest), big)
	case "PublicRandStream":
		sctx, scancel := context.WithTimeout(ctx, 400*time.Millisecond)
		var s drand.Public_PublicRandStreamClient
		s, err = drand.NewPublicClient(w.conn).PublicRandStream(sctx, msg.(*drand.PublicRandRequest), big)
		if err == nil {
			_, err = s.Recv()
		}
		scancel()
		if status.Code(err) == codes.DeadlineExceeded || status.Code(err) == codes.Canceled {
			err = nil // the stream was open and idle: the client hung up
		}
	case "SyncChain":
		sctx, scancel := context.WithTimeout(ctx, 400*time.Millisecond)
		var s drand.Protocol_SyncChainClient
		s, err = drand.NewProtocolClient(w.conn).SyncChain(sctx, msg.(*drand.SyncRequest), big)
		if err == nil {
			_, err = s.Recv()
		}
		scancel()
		if status.Code(err) == codes.DeadlineExceeded || status.Code(err) == codes.Canceled {
			err = nil
		}
	case "ChainInfo":
		_, err = drand.NewPublicClient(w.conn).ChainInfo(ctx, msg.(*drand.ChainInfoRequest), big)
	case "GetIdentity":
		_, err = drand.NewProtocolClient(w.conn).GetIdentity(ctx, msg.(*drand.IdentityRequest), big)
	case "Status":
		_, err = drand.NewProtocolClient(w.conn).Status(ctx, msg.(*drand.StatusRequest), big)
	case "ListBeaconIDs":
		_, err = drand.NewPublicClient(w.conn).ListBeaconIDs(ctx, msg.(*drand.ListBeaconIDsRequest), big)
	case "Metrics":
		_, err = drand.NewMetricsClient(w.conn).Metrics(ctx, msg.(*drand.MetricsRequest), big)
	case "DKGPacket":
		_, err = pdkg.NewDKGPublicClient(w.conn).Packet(ctx, msg.(*pdkg.GossipPacket), big)
	case "BroadcastDKG":
		_, err = pdkg.NewDKGPublicClient(w.conn).BroadcastDKG(ctx, msg.(*pdkg.DKGPacket), big)
	default:
		req, _ := http.NewRequestWithContext(ctx, http.MethodGet, "http://"+w.pubAddr+c.Path(w), nil)
		var resp *http.Response
		resp, err = w.httpc.Do(req)
		if err == nil {
			io.Copy(io.Discard, resp.Body)
			resp.Body.Close()
			if resp.StatusCode != http.StatusOK {
				return vdmeResult{res: "reject", code: fmt.Sprint(resp.StatusCode)}
			}
			return vdmeResult{res: "ok", code: "200"}
		}
		if errors.Is(err, context.DeadlineExceeded) || strings.Contains(err.Error(), "deadline exceeded") {
			return vdmeResult{res: "blocked", on: "http-client-timeout"}
		}
		return vdmeResult{res: "reject", code: "transport", err: vdmErrStr(err)}
	}
	if err == nil {
		return vdmeResult{res: "ok"}
	}
	code := status.Code(err)
	if code == codes.DeadlineExceeded {
		return vdmeResult{res: "blocked", on: "grpc-deadline"}
	}
	return vdmeResult{res: "reject", code: code.String(), err: vdmErrStr(err)}
}

// alive: the process still answers on its real listeners
func (w *vdmWorld) vdmeAlive() bool {
	for i := 0; i < 3; i++ {
		if w.vdmeAliveOnce() {
			return true
		}
	}
	return false
}

func (w *vdmWorld) vdmeAliveOnce() bool {
	ctx, cancel := context.WithTimeout(context.Background(), 6*time.Second)
	defer cancel()
	resp, err := healthgrpc.NewHealthClient(w.conn).Check(ctx, &healthgrpc.HealthCheckRequest{})
	if err != nil || resp.GetStatus() != healthgrpc.HealthCheckResponse_SERVING {
		return false
	}
	req, _ := http.NewRequestWithContext(ctx, http.MethodGet, "http://"+w.pubAddr+"/chains", nil)
	r2, err := w.httpc.Do(req)
	if err != nil {
		return false
	}
	io.Copy(io.Discard, r2.Body)
	r2.Body.Close()
	return r2.StatusCode == http.StatusOK
}

// ---------------------------------------------------------------- probes and observations after a call

func vdmeProbes(c vdmeCall) []vdmeCall {
	md := func(id string) func(w *vdmWorld) *drand.Metadata {
		return func(w *vdmWorld) *drand.Metadata { return &drand.Metadata{BeaconID: id} }
	}
	same := vdmeCall{}
	switch c.EP {
	case "PartialBeacon":
		same = vdmeCall{EP: c.EP, ID: "a", Hash: "none", Msg: func(w *vdmWorld) proto.Message {
			return &drand.PartialBeaconPacket{Round: 1, PartialSig: vdmeBytes(98, 1), Metadata: md("a")(w)}
		}}
	case "PublicRand":
		same = vdmeCall{EP: c.EP, ID: "a", Hash: "none", Msg: func(w *vdmWorld) proto.Message { return &drand.PublicRandRequest{Metadata: md("a")(w)} }}
	case "PublicRandStream":
		same = vdmeCall{EP: c.EP, ID: "a", Hash: "none", Msg: func(w *vdmWorld) proto.Message { return &drand.PublicRandRequest{Round: 1, Metadata: md("a")(w)} }}
	case "SyncChain":
		same = vdmeCall{EP: c.EP, ID: "a", Hash: "none", Msg: func(w *vdmWorld) proto.Message { return &drand.SyncRequest{FromRound: 1, Metadata: md("a")(w)} }}
	case "ChainInfo":
		same = vdmeCall{EP: c.EP, ID: "a", Hash: "none", Msg: func(w *vdmWorld) proto.Message { return &drand.ChainInfoRequest{Metadata: md("a")(w)} }}
	case "GetIdentity":
		same = vdmeCall{EP: c.EP, ID: "a", Hash: "none", Msg: func(w *vdmWorld) proto.Message { return &drand.IdentityRequest{Metadata: md("a")(w)} }}
	case "Status":
		same = vdmeCall{EP: c.EP, ID: "a", Hash: "none", Msg: func(w *vdmWorld) proto.Message { return &drand.StatusRequest{Metadata: md("a")(w)} }}
	case "ListBeaconIDs":
		same = vdmeCall{EP: c.EP, ID: "none", Hash: "none", Msg: func(w *vdmWorld) proto.Message { return &drand.ListBeaconIDsRequest{} }}
	case "Metrics":
		same = vdmeCall{EP: c.EP, ID: "none", Hash: "none", Msg: func(w *vdmWorld) proto.Message { return &drand.MetricsRequest{} }}
	case "DKGPacket":
		same = vdmeCall{EP: c.EP, ID: "a", Hash: "none", GM: "ok", Body: "none", Msg: func(w *vdmWorld) proto.Message {
			return &pdkg.GossipPacket{Metadata: &pdkg.GossipMetadata{BeaconID: "a", Address: "127.0.0.1:9", Signature: vdmeBytes(8, 0x61)}}
		}}
	case "BroadcastDKG":
		same = vdmeCall{EP: c.EP, ID: "a", Hash: "none", Body: "ok", Msg: func(w *vdmWorld) proto.Message { return &pdkg.DKGPacket{Dkg: vdmeInnerPacket("a", "")} }}
	default:
		same = vdmeCall{EP: "HttpInfo", ID: "none", Hash: "h_a", Path: func(w *vdmWorld) string { return w.httpSeg("h_a") + "/info" }}
	}
	if same.GM == "" {
		same.GM = "-"
	}
	if same.Body == "" {
		same.Body = "any"
	}
	same.Name = "same"
	others := []vdmeCall{
		{EP: "ListBeaconIDs", ID: "none", Hash: "none", GM: "-", Body: "any", Name: "o-list", Msg: func(w *vdmWorld) proto.Message { return &drand.ListBeaconIDsRequest{} }},
		{EP: "GetIdentity", ID: "a", Hash: "none", GM: "-", Body: "any", Name: "o-identity", Msg: func(w *vdmWorld) proto.Message { return &drand.IdentityRequest{Metadata: md("a")(w)} }},
		{EP: "ChainInfo", ID: "none", Hash: "h_a", GM: "-", Body: "any", Name: "o-info", Msg: func(w *vdmWorld) proto.Message {
			return &drand.ChainInfoRequest{Metadata: &drand.Metadata{ChainHash: w.chains["a"].hash}}
		}},
		{EP: "Status", ID: "default", Hash: "none", GM: "-", Body: "any", Name: "o-status", Msg: func(w *vdmWorld) proto.Message { return &drand.StatusRequest{Metadata: md("default")(w)} }},
		{EP: "DKGPacket", ID: "a", Hash: "none", GM: "ok", Body: "none", Name: "o-dkgpacket", Msg: func(w *vdmWorld) proto.Message {
			return &pdkg.GossipPacket{Metadata: &pdkg.GossipMetadata{BeaconID: "a", Address: "127.0.0.1:9", Signature: vdmeBytes(8, 0x61)}}
		}},
		{EP: "BroadcastDKG", ID: "a", Hash: "none", GM: "-", Body: "ok", Name: "o-broadcast", Msg: func(w *vdmWorld) proto.Message { return &pdkg.DKGPacket{Dkg: vdmeInnerPacket("a", "")} }},
		{EP: "HttpHealth", ID: "none", Hash: "h_a", GM: "-", Body: "any", Name: "o-health", Path: func(w *vdmWorld) string { return w.httpSeg("h_a") + "/health" }},
		{EP: "HttpLatest", ID: "none", Hash: "h_a", GM: "-", Body: "any", Name: "o-latest", Path: func(w *vdmWorld) string { return w.httpSeg("h_a") + "/public/latest" }},
		// not a network endpoint: the daemon's own write access to the HTTP handler table (taken on load / stop / DKG result)
		{EP: "ProbeHttpTable", ID: "none", Hash: "none", GM: "-", Body: "any", Name: "o-httptable"},
	}
	return append([]vdmeCall{same}, others...)
}

func (w *vdmWorld) vdmeRunProbes(c vdmeCall) []map[string]string {
	return w.vdmeRunProbesD(c, vdmeProbeDeadline)
}

func (w *vdmWorld) vdmeRunProbesD(c vdmeCall, d time.Duration) []map[string]string {
	out := []map[string]string{}
	for _, p := range vdmeProbes(c) {
		r := w.vdmeDirect(p, d)
		out = append(out, map[string]string{"name": p.Name, "ep": p.EP, "id": p.ID, "hash": p.Hash, "gm": p.GM, "body": p.Body, "res": r.res, "on": r.on, "onKind": vdmeOnKind(r)})
	}
	return out
}

// tryLocks: the daemon's own mutexes are free (observed with TryLock, in-package)
func (w *vdmWorld) vdmeFree() [][]any {
	// a lock that a background goroutine of the daemon holds for an instant is not "left held":
	// only a lock that stays unavailable for half a second is reported
	try := func(l *sync.RWMutex) bool {
		return vlib.Eventually(500*time.Millisecond, func() bool {
			if l.TryLock() {
				l.Unlock()
				return true
			}
			return false
		})
	}
	out := [][]any{{"dd", try(&w.dd.state)}}
	ids := []string{}
	for id := range w.loaded {
		ids = append(ids, id)
	}
	sort.Strings(ids)
	for _, id := range ids {
		out = append(out, []any{"bp_" + id, try(&w.loaded[id].state)})
	}
	return out
}

// loopAlive: every running chain still produces rounds when time passes
func (w *vdmWorld) vdmeLoopAlive() bool {
	before := map[string]uint64{}
	for id := range w.loaded {
		before[id] = w.vdmeLast(id)
	}
	running := func(id string) bool {
		bp := w.loaded[id]
		bp.state.RLock()
		b := bp.beacon
		bp.state.RUnlock()
		return b != nil
	}
	need := func() bool {
		for id := range w.loaded {
			if running(id) && w.vdmeLast(id) <= before[id] {
				return true
			}
		}
		return false
	}
	for i := 0; i < 80 && need(); i++ {
		w.clk.Advance(vdmPeriod)
		vlib.Eventually(150*time.Millisecond, func() bool { return !need() })
	}
	return !need()
}

// ---------------------------------------------------------------- worlds per node state

func vdmeNewWorld(t *testing.T, sch *crypto.Scheme, ns string) (*vdmWorld, string, error) {
	w, err := vdmNewWorld(t, sch)
	if err != nil {
		return nil, "", err
	}
	w.seenG = map[string]bool{}
	for _, id := range []string{"default", "a"} {
		if err := w.provision(id, id == "a" || ns == "running" || ns == "stopped"); err != nil {
			return nil, "", err
		}
	}
	if ok, why := w.actLoad("a"); !ok {
		return nil, "", fmt.Errorf("load a: %s", why)
	}
	if ok, why := w.actLoad("default"); !ok {
		return nil, "", fmt.Errorf("load default: %s", why)
	}
	if !w.settle() {
		return nil, "", errors.New("chains did not start")
	}
	dkgState := "-"
	switch ns {
	case "proposal":
		// the node proposes a first DKG as leader (real DKG command); it stays in state Proposing
		_, err := w.dd.Command(context.Background(), &pdkg.DKGCommand{Metadata: &pdkg.CommandMetadata{BeaconID: "default"},
			Command: &pdkg.DKGCommand_Initial{Initial: &pdkg.FirstProposalOptions{Timeout: timestamppb.New(time.Now().Add(time.Hour)), Threshold: 1,
				PeriodSeconds: 2, Scheme: sch.Name, CatchupPeriodSeconds: 1, GenesisTime: timestamppb.New(time.Now().Add(time.Hour)),
				Joining: []*pdkg.Participant{w.vdmePart("default")}}}})
		st, err2 := w.dd.DKGStatus(context.Background(), &pdkg.DKGStatusRequest{BeaconID: "default"})
		if err2 != nil {
			return nil, "", fmt.Errorf("dkg status: %v (command: %v)", err2, err)
		}
		dkgState = fmt.Sprint(st.GetCurrent().GetState())
		if st.GetCurrent().GetState() != 2 { // dkg.Proposing
			return nil, "", fmt.Errorf("proposal not recorded: state %d, command error %v", st.GetCurrent().GetState(), err)
		}
	case "stopped":
		if ok, why := w.actStop("default"); !ok {
			return nil, "", fmt.Errorf("stop default: %s", why)
		}
	}
	conn, err := grpc.NewClient(w.addr, grpc.WithTransportCredentials(insecure.NewCredentials()))
	if err != nil {
		return nil, "", err
	}
	w.conn = conn
	w.httpc = &http.Client{}
	if !w.vdmeAlive() {
		return nil, "", errors.New("listeners do not answer")
	}
	return w, dkgState, nil
}

type vdmeLane struct {
	t     *testing.T
	tr    *vdmeTrace
	sch   *crypto.Scheme
	ns    string
	w     *vdmWorld
	nets  bool // also replay through the real listeners
	calls int
	dead  bool
	quick bool
	stuck map[string]int // request class -> number of daemons it wedged in this lane
}

func (l *vdmeLane) fresh() bool {
	if l.w != nil {
		l.w.abandoned = true
	}
	w, dkgState, err := vdmeNewWorld(l.t, l.sch, l.ns)
	if err != nil {
		l.tr.Emit("HarnessError", vlib.E{"ns": l.ns, "err": vdmErrStr(err)})
		l.w = nil
		l.dead = true
		return false
	}
	l.w = w
	ev := w.project()
	ev["ns"] = l.ns
	ev["dkgState"] = dkgState
	ev["scheme"] = l.sch.Name
	l.tr.Emit("World", ev)
	return true
}

func vdmeVerOf(c vdmeCall) string {
	if c.Ver == "" {
		return "none"
	}
	return c.Ver
}

func vdmeStageOf(r vdmeResult) string {
	if r.stage == "" {
		return "-"
	}
	return r.stage
}

func (l *vdmeLane) emit(c vdmeCall, via string, r vdmeResult, probes []map[string]string, free [][]any, loop, alive bool) {
	e := vlib.E{"ns": l.ns, "ep": c.EP, "id": c.ID, "hash": c.Hash, "gm": c.GM, "body": c.Body, "ver": vdmeVerOf(c), "shape": c.Name, "via": via,
		"res": r.res, "on": r.on, "onKind": vdmeOnKind(r), "stage": vdmeStageOf(r), "code": r.code, "slow": r.slow, "probes": probes, "free": free, "loop": loop, "alive": alive}
	if r.err != "" {
		e["err"] = r.err
	}
	l.tr.Emit("Call", e)
}

func (l *vdmeLane) run(c vdmeCall) {
	if l.dead || (l.w == nil && !l.fresh()) {
		return
	}
	cls := c.EP + "/" + c.GM + "/" + c.Body
	if (l.quick && l.stuck[cls] >= 2) || l.stuck[cls] >= 6 {
		return // a request class that wedged two (quick) / six (thorough) daemons in this node state is not sent again
	}
	l.calls++
	w := l.w
	begin := func(via string) {
		l.tr.Emit("Begin", vlib.E{"ns": l.ns, "ep": c.EP, "id": c.ID, "hash": c.Hash, "gm": c.GM, "body": c.Body, "ver": vdmeVerOf(c), "shape": c.Name, "via": via})
	}
	// (a) directly on the service objects
	begin("direct")
	r := w.vdmeDirect(c, vdmeDeadline)
	probes := w.vdmeRunProbes(c)
	if r.res == "blocked" {
		l.stuck[cls]++
		// is the daemon's own write access to its locks still possible with the handler parked?
		l.emit(c, "direct", r, probes, w.vdmeFree(), true, true)
		l.fresh() // the wedged daemon is abandoned
		return
	}
	free := w.vdmeFree()
	loop := w.vdmeLoopAlive()
	l.emit(c, "direct", r, probes, free, loop, true)
	if r.res == "panic" && r.stage == "interceptor" {
		// nothing recovers this panic on the real listener: sending the request there would kill this process
		// (and with it the observations of the other lanes); the direct observation is the evidence
		return
	}
	if vdmeDirty(probes, free, loop) {
		// whatever the request left behind must not be blamed on the next one
		if !l.fresh() {
			return
		}
		w = l.w
	}
	if !l.nets {
		return
	}
	// (b) through the real listeners
	begin("net")
	r2 := w.vdmeNet(c, vdmeDeadline)
	alive := w.vdmeAlive()
	probes2 := w.vdmeRunProbes(c)
	if r2.res == "blocked" {
		l.stuck[cls]++
		r2.on = vdmeServerParked(vdmeDump())
		l.emit(c, "net", r2, probes2, w.vdmeFree(), true, alive)
		l.fresh()
		return
	}
	free2 := w.vdmeFree()
	loop2 := w.vdmeLoopAlive()
	l.emit(c, "net", r2, probes2, free2, loop2, alive)
	if !alive || vdmeDirty(probes2, free2, loop2) {
		l.fresh()
	}
}

func vdmeDirty(probes []map[string]string, free [][]any, loop bool) bool {
	for _, p := range probes {
		if p["res"] == "blocked" {
			return true
		}
	}
	for _, f := range free {
		if ok, _ := f[1].(bool); !ok {
			return true
		}
	}
	return !loop
}

func TestVerifEndpoints(t *testing.T) {
	out := os.Getenv("VERIF_OUT")
	if out == "" {
		t.Skip("VERIF_OUT not set")
	}
	f, err := os.Create(out)
	if err != nil {
		t.Fatal(err)
	}
	defer f.Close()
	tr := &vdmeTrace{f: f}
	seed := int64(vlib.EnvInt("VERIF_SEED", 1))
	quick := vlib.EnvStr("VERIF_TIER", "quick") == "quick"
	sch, err := crypto.GetSchemeFromEnv()
	if err != nil {
		t.Fatal(err)
	}
	vhook.Set(nil)
	shapes := vdmeShapes(quick)
	nrand := 0
	if !quick {
		nrand = 300
	}
	only := os.Getenv("VERIF_ONLY") // "ep/body" filter, for replays
	states := []string{"fresh", "proposal", "running", "stopped"}
	if s := os.Getenv("VERIF_STATES"); s != "" {
		states = strings.Split(s, ",")
	}
	tr.Emit("Start", vlib.E{"shapes": len(shapes), "random": nrand, "tier": vlib.EnvStr("VERIF_TIER", "quick"), "states": states})
	var wg sync.WaitGroup
	for i, ns := range states {
		wg.Add(1)
		go func(i int, ns string) {
			defer wg.Done()
			rng := rand.New(rand.NewSource(seed*1000 + int64(i)))
			all := append([]vdmeCall{}, shapes...)
			all = append(all, vdmeRandomShapes(rng, nrand)...)
			// seed-dependent order: the sequences of requests a daemon sees differ between seeds
			rng.Shuffle(len(all), func(a, b int) { all[a], all[b] = all[b], all[a] })
			lane := &vdmeLane{t: t, tr: tr, sch: sch, ns: ns, nets: true, quick: quick, stuck: map[string]int{}}
			for _, c := range all {
				if only != "" && only != c.EP+"/"+c.Body && only != c.EP {
					continue
				}
				lane.run(c)
			}
			tr.Emit("LaneDone", vlib.E{"ns": ns, "calls": lane.calls})
			if lane.w != nil {
				lane.w.stopFn()
			}
		}(i, ns)
	}
	wg.Wait()
	tr.Emit("Done", vlib.E{})
	_ = hex.EncodeToString
}

// ---------------------------------------------------------------- a request concurrent with a DKG result being stored
//
// Conc part of spec/DaemonEndpoints.tla: one request interleaved with the daemon's own step
// "bp.storeDKGOutput -> dkgCallback -> AddBeaconHandler".  Two hook points make the
// interleavings that matter reproducible: the storing goroutine is parked right after it
// write-locked bp.state ("core.storeDKG.locked"); a request whose chain hash the daemon does not
// know is parked right before it read-locks bp.state ("core.readBeaconID.scan"; on the original
// code it held dd.state read-locked at that point - the lock-order inversion F40).
// Then both are released.  Each scenario runs on a fresh daemon.

func vdmeStackOf(all, needle string) string {
	for _, blk := range strings.Split(all, "\n\n") {
		if !strings.Contains(blk, needle) {
			continue
		}
		m := vdmeGoroutineRe.FindStringSubmatch(strings.Split(blk, "\n")[0])
		if m == nil {
			continue
		}
		return m[2] + "@" + vdmeTopFrame(blk)
	}
	return "?"
}

func vdmeConcScenario(t *testing.T, tr *vdmeTrace, sch *crypto.Scheme, ns string, c vdmeCall, order string) bool {
	w, _, err := vdmeNewWorld(t, sch, ns)
	if err != nil {
		tr.Emit("HarnessError", vlib.E{"ns": ns, "err": vdmErrStr(err)})
		return false
	}
	defer func() { w.stopFn() }()
	const deadline = 2500 * time.Millisecond
	s := vlib.NewSched()
	defer s.Uninstall()
	isDefault := func(a []any) bool { return len(a) > 0 && a[0] == "default" }
	g2 := s.GateOnce("core.storeDKG.locked", isDefault)
	g1 := s.GateOnce("core.readBeaconID.scan", isDefault)
	// thread 2: a DKG result for the target chain arrives
	ch := w.chains["default"]
	bp := w.loaded["default"]
	out := vdmSharingOutputFor(ch)
	w.dd.completedDKGs.Chan() <- out
	_, parked2 := g2.WaitParked(3 * time.Second)
	// thread 1: the request
	t1 := make(chan vdmeResult, 1)
	go func() { t1 <- w.vdmeDirect(c, deadline) }()
	_, parked1 := g1.WaitParked(300 * time.Millisecond)
	if order == "request-first" && parked1 {
		g1.Release()
		time.Sleep(40 * time.Millisecond)
		g2.Release()
	} else {
		if parked2 {
			g2.Release()
		}
		time.Sleep(40 * time.Millisecond)
		if parked1 {
			g1.Release()
		}
	}
	r1 := <-t1
	wait2 := deadline
	if r1.res == "blocked" {
		wait2 = 300 * time.Millisecond // the storing goroutine had the whole deadline of the request already
	}
	t2done := vlib.Eventually(wait2, func() bool {
		if !w.dd.state.TryRLock() {
			return false
		}
		_, has := w.dd.chainHashes[ch.hashHex]
		w.dd.state.RUnlock()
		if !has || !bp.state.TryRLock() {
			return false
		}
		b := bp.beacon
		bp.state.RUnlock()
		return b != nil
	})
	t2, t2on := "done", "-"
	if !t2done {
		t2, t2on = "blocked", vdmeStackOf(vdmeDump(), "storeDKGOutput")
	}
	probes := w.vdmeRunProbesD(c, 700*time.Millisecond)
	if r1.res == "blocked" || !t2done {
		w.abandoned = true
	}
	e := vlib.E{"ns": ns, "ep": c.EP, "id": c.ID, "hash": c.Hash, "gm": c.GM, "body": c.Body, "ver": vdmeVerOf(c), "stage": vdmeStageOf(r1), "shape": c.Name, "via": "direct",
		"event": "DKGComplete", "x": "default", "order": order, "parked1": parked1, "parked2": parked2,
		"res": r1.res, "on": r1.on, "onKind": vdmeOnKind(r1), "t2": t2, "t2on": t2on, "probes": probes}
	if r1.err != "" {
		e["err"] = r1.err
	}
	tr.Emit("Conc", e)
	return r1.res == "blocked" || !t2done
}

func TestVerifEndpointsConc(t *testing.T) {
	out := os.Getenv("VERIF_OUT")
	if out == "" {
		t.Skip("VERIF_OUT not set")
	}
	if !vhook.Enabled {
		t.Skip("hooks not compiled in")
	}
	f, err := os.Create(out)
	if err != nil {
		t.Fatal(err)
	}
	defer f.Close()
	tr := &vdmeTrace{f: f}
	seed := int64(vlib.EnvInt("VERIF_SEED", 1))
	quick := vlib.EnvStr("VERIF_TIER", "quick") == "quick"
	sch, err := crypto.GetSchemeFromEnv()
	if err != nil {
		t.Fatal(err)
	}
	rng := rand.New(rand.NewSource(seed))
	// one shape per request class (ep, id, hash, gm, body)
	seen := map[string]bool{}
	var classes []vdmeCall
	for _, c := range vdmeShapes(false) {
		k := c.EP + "|" + c.ID + "|" + c.Hash + "|" + c.GM + "|" + c.Body + "|" + c.Ver
		if seen[k] || c.Tick {
			continue
		}
		seen[k] = true
		classes = append(classes, c)
	}
	rng.Shuffle(len(classes), func(a, b int) { classes[a], classes[b] = classes[b], classes[a] })
	tr.Emit("Start", vlib.E{"shapes": len(classes), "tier": vlib.EnvStr("VERIF_TIER", "quick")})
	only := os.Getenv("VERIF_ONLY")
	n := 0
	perEp := map[string]int{}
	stuckPerHash := map[string]int{}
	for _, c := range classes {
		if only != "" && only != c.EP+"/"+c.Body && only != c.EP {
			continue
		}
		if quick {
			// every metadata class on one endpoint chosen by the seed, two classes of each other endpoint
			full := []string{"PublicRand", "PartialBeacon", "ChainInfo"}[int(seed)%3]
			if c.EP != full && perEp[c.EP] >= 2 {
				continue
			}
			perEp[c.EP]++
		}
		for _, ns := range []string{"fresh", "proposal"} {
			if quick && (n%2 == 0) != (ns == "fresh") {
				continue
			}
			key := c.Hash
			if !quick {
				key = c.EP + "|" + c.Hash + "|" + ns
			}
			if (quick && stuckPerHash[key] >= 2) || (!quick && stuckPerHash[key] >= 1) {
				continue // bound the number of wedged daemons per class (each costs several deadlines)
			}
			order := []string{"dkg-first", "request-first"}[rng.Intn(2)]
			if vdmeConcScenario(t, tr, sch, ns, c, order) {
				stuckPerHash[key]++
			}
		}
		n++
	}
	tr.Emit("Done", vlib.E{})
}
