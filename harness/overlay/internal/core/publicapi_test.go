package core

// Overlay harness (injected by /verif): BeaconProcess.PublicRand / PublicRandStream on a real
// beacon.Handler store stack with really signed beacons, driven by the transition tour of
// spec/PublicRand.tla.  The request goroutine is parked right after its Store().Last() read
// (wrapper around the base store) so that beacons can be stored inside the window before the
// callback is registered; the vhook stamp "cb.add" tells when the callback is registered.
// Nothing is asserted here: answers are recorded and judged by TLC (Trace_PublicRand.tla).

import (
	"bytes"
	"context"
	"crypto/sha256"
	"encoding/json"
	"os"
	"strings"
	"sync"
	"sync/atomic"
	"testing"
	"time"

	clock "github.com/jonboulle/clockwork"
	"google.golang.org/grpc/metadata"

	"github.com/drand/drand/v2/common"
	"github.com/drand/drand/v2/common/key"
	"github.com/drand/drand/v2/common/log"
	"github.com/drand/drand/v2/crypto"
	"github.com/drand/drand/v2/internal/chain"
	"github.com/drand/drand/v2/internal/chain/beacon"
	"github.com/drand/drand/v2/internal/chain/memdb"
	"github.com/drand/drand/v2/internal/vlib"
	"github.com/drand/drand/v2/protobuf/drand"
	"github.com/drand/kyber"
	"github.com/drand/kyber/share"
	"github.com/drand/kyber/share/dkg"
	"github.com/drand/kyber/util/random"
)

type vpaStep struct {
	Op string `json:"op"`
	R  uint64 `json:"r"`
}
type vpaScript struct {
	Name  string    `json:"name"`
	H0    int       `json:"h0"`
	Steps []vpaStep `json:"steps"`
}

// vpaWindowStore parks the caller of Last() (when armed) after the real read.
type vpaWindowStore struct {
	chain.Store
	armed  atomic.Bool
	parked chan struct{}
	rel    chan struct{}
}

func (s *vpaWindowStore) Last(ctx context.Context) (*common.Beacon, error) {
	b, err := s.Store.Last(ctx)
	if s.armed.CompareAndSwap(true, false) {
		s.parked <- struct{}{}
		<-s.rel
	}
	return b, err
}

type vpaStream struct {
	ctx context.Context
	mu  sync.Mutex
	out []*drand.PublicRandResponse
}

func (s *vpaStream) Send(r *drand.PublicRandResponse) error {
	s.mu.Lock()
	defer s.mu.Unlock()
	s.out = append(s.out, r)
	return nil
}
func (s *vpaStream) SetHeader(metadata.MD) error  { return nil }
func (s *vpaStream) SendHeader(metadata.MD) error { return nil }
func (s *vpaStream) SetTrailer(metadata.MD)       {}
func (s *vpaStream) Context() context.Context     { return s.ctx }
func (s *vpaStream) SendMsg(any) error            { return nil }
func (s *vpaStream) RecvMsg(any) error            { return nil }

type vpaEnv struct {
	sch   *crypto.Scheme
	pub   kyber.Point
	poly  *share.PubPoly
	pri   []*share.PriShare
	group *key.Group
	me    *key.Node
	n, t  int
	commits []kyber.Point
}

func vpaNewEnv(t *testing.T, sch *crypto.Scheme) *vpaEnv {
	const n, thr = 3, 2
	pri := share.NewPriPoly(sch.KeyGroup, thr, sch.KeyGroup.Scalar().Pick(random.New()), random.New())
	pub := pri.Commit(sch.KeyGroup.Point().Base())
	_, commits := pub.Info()
	nodes := make([]*key.Node, n)
	var first *key.Pair
	for i := 0; i < n; i++ {
		p, err := key.NewKeyPair("vpa"+string(rune('a'+i))+".test:900"+string(rune('0'+i)), sch)
		if err != nil {
			t.Fatal(err)
		}
		if i == 0 {
			first = p
		}
		nodes[i] = &key.Node{Index: uint32(i), Identity: p.Public}
	}
	g := key.LoadGroup(nodes, time.Now().Unix()-3600, &key.DistPublic{Coefficients: commits}, 2*time.Second, 0, sch, "vpa")
	g.Threshold = thr
	g.GenesisSeed = []byte("vpa-genesis-seed-0123456789abcdef")
	return &vpaEnv{sch: sch, pub: commits[0], poly: pub, pri: pri.Shares(n), group: g, me: g.Find(first.Public), n: n, t: thr, commits: commits}
}

func (e *vpaEnv) sign(t *testing.T, round uint64, prev []byte) *common.Beacon {
	if e.sch.Name != crypto.DefaultSchemeID {
		prev = nil
	}
	msg := e.sch.DigestBeacon(&common.Beacon{Round: round, PreviousSig: prev})
	var parts [][]byte
	for i := 0; i < e.t; i++ {
		p, err := e.sch.ThresholdScheme.Sign(e.pri[i], msg)
		if err != nil {
			t.Fatal(err)
		}
		parts = append(parts, p)
	}
	sig, err := e.sch.ThresholdScheme.Recover(e.poly, msg, parts, e.t, e.n)
	if err != nil {
		t.Fatal(err)
	}
	return &common.Beacon{Round: round, PreviousSig: prev, Signature: sig}
}

func TestVerifPublicAPI(t *testing.T) {
	if os.Getenv("VERIF_OUT") == "" {
		t.Skip("verif harness only")
	}
	tr := vlib.MustOpenTraceEnv()
	defer tr.Close()
	lines, err := vlib.LoadJSONLines(os.Getenv("VERIF_IN"))
	if err != nil {
		t.Fatal(err)
	}
	sch, err := crypto.GetSchemeFromEnv()
	if err != nil {
		t.Fatal(err)
	}
	env := vpaNewEnv(t, sch)
	l := log.New(nil, log.ErrorLevel, false)
	for _, ln := range lines {
		var sc vpaScript
		if err := json.Unmarshal(ln, &sc); err != nil {
			t.Fatal(err)
		}
		ctx := context.Background()
		base := &vpaWindowStore{Store: memdb.NewStore(200), parked: make(chan struct{}, 1), rel: make(chan struct{}, 1)}
		conf := &beacon.Config{Public: env.me, Group: env.group, Clock: clock.NewRealClock(),
			Share: &key.Share{DistKeyShare: dkg.DistKeyShare{Share: env.pri[env.me.Index], Commits: env.commits}, Scheme: sch}}
		h, err := beacon.NewHandler(ctx, nil, base, conf, l, common.GetAppVersion())
		if err != nil {
			t.Fatal(err)
		}
		bp := &BeaconProcess{beaconID: "vpa", chainHash: []byte{0x01}, group: env.group, beacon: h, log: l, version: common.GetAppVersion()}
		sched := vlib.NewSched()
		var cbAdds int64
		sched.OnPoint("cb.add", func(a []any) {
			if id, _ := a[0].(string); !strings.HasPrefix(id, "chainstore") && !strings.HasPrefix(id, "SyncChain") {
				atomic.AddInt64(&cbAdds, 1)
			}
		})
		// chain up to H0
		last, _ := h.Store().Last(ctx)
		prev := last.Signature
		head := uint64(0)
		put := func() {
			head++
			b := env.sign(t, head, prev)
			if err := h.Store().Put(ctx, b); err != nil {
				tr.Emit("Note", vlib.E{"what": "put failed: " + err.Error()})
			}
			prev = b.Signature
			tr.Emit("Put", vlib.E{"round": head})
		}
		tr.Emit("Init", vlib.E{"scenario": sc.Name, "h0": sc.H0, "scheme": sch.Name})
		for i := 0; i < sc.H0; i++ {
			put()
		}
		type ans struct {
			resp *drand.PublicRandResponse
			err  error
		}
		done := make(chan ans, 1)
		rctx, cancel := context.WithCancel(ctx)
		started, decided, wanted := false, false, uint64(0)
		release := func() {
			if started && !decided {
				decided = true
				base.rel <- struct{}{}
				// either the answer arrives (direct path) or the callback gets registered
				vlib.Eventually(3*time.Second, func() bool { return atomic.LoadInt64(&cbAdds) > 0 || len(done) > 0 })
				tr.Emit("Decide", vlib.E{"registered": atomic.LoadInt64(&cbAdds) > 0})
			}
		}
		for _, st := range sc.Steps {
			switch st.Op {
			case "Start":
				started, wanted = true, st.R
				base.armed.Store(true)
				go func() {
					r, e := bp.PublicRand(rctx, &drand.PublicRandRequest{Round: st.R})
					done <- ans{r, e}
				}()
				<-base.parked
				tr.Emit("Start", vlib.E{"r": st.R, "hread": head})
			case "Put":
				put()
				time.Sleep(5 * time.Millisecond) // let the callback worker deliver
			case "Decide":
				release()
			case "Answer", "Cancel":
				// nothing to do: the answer is collected below
			}
		}
		if started {
			release()
			var a ans
			select {
			case a = <-done:
			case <-time.After(300 * time.Millisecond):
				cancel() // the client gives up (model action Cancel)
				select {
				case a = <-done:
				case <-time.After(5 * time.Second):
					tr.Emit("Resp", vlib.E{"r": wanted, "ok": false, "round": 0, "blocked": true, "head": head})
					a = ans{nil, context.Canceled}
				}
			}
			e := vlib.E{"r": wanted, "ok": a.err == nil && a.resp != nil, "round": 0, "head": head, "verifies": false, "randok": false, "blocked": false}
			if a.err == nil && a.resp != nil {
				b := &common.Beacon{Round: a.resp.Round, Signature: a.resp.Signature, PreviousSig: a.resp.PreviousSignature}
				sum := sha256.Sum256(a.resp.Signature)
				e["round"] = a.resp.Round
				e["verifies"] = sch.VerifyBeacon(b, env.pub) == nil
				// the gRPC answer leaves Randomness empty (clients derive it); if present it must be sha256(signature)
				e["randok"] = len(a.resp.Randomness) == 0 || bytes.Equal(sum[:], a.resp.Randomness)
			}
			tr.Emit("Resp", e)
		}
		cancel()
		// public stream from round 1 over the same store, then two live beacons
		sctx, scancel := context.WithCancel(ctx)
		st := &vpaStream{ctx: sctx}
		sdone := make(chan error, 1)
		go func() { sdone <- bp.PublicRandStream(&drand.PublicRandRequest{Round: 1}, st) }()
		vlib.Eventually(2*time.Second, func() bool { st.mu.Lock(); defer st.mu.Unlock(); return len(st.out) >= int(head) })
		time.Sleep(20 * time.Millisecond)
		put()
		put()
		vlib.Eventually(2*time.Second, func() bool { st.mu.Lock(); defer st.mu.Unlock(); return len(st.out) >= int(head) })
		scancel()
		select {
		case <-sdone:
		case <-time.After(3 * time.Second):
		}
		st.mu.Lock()
		items := [][]any{}
		for _, r := range st.out {
			b := &common.Beacon{Round: r.Round, Signature: r.Signature, PreviousSig: r.PreviousSignature}
			sum := sha256.Sum256(r.Signature)
			items = append(items, []any{r.Round, sch.VerifyBeacon(b, env.pub) == nil, bytes.Equal(sum[:], r.Randomness)})
		}
		st.mu.Unlock()
		tr.Emit("Stream", vlib.E{"from": 1, "head": head, "items": items})
		sched.Uninstall()
		h.Stop(ctx)
	}
}
