package core

// Overlay test (injected by /verif with `go test -overlay`) for property C15
// "private keys and shares never leave the node".
//
// A REAL DrandDaemon (bolt chain store, debug-level logger writing to the
// harness, its real HTTP handler) hosts two chains: "default", a fabricated
// 2-of-2 group whose second member is played by the harness (so the daemon
// really broadcasts partial beacons, through a wrapped net.ProtocolClient, and
// really aggregates), installed as group+share files and loaded through the
// v1 migration path (the share goes into dkg.db); and "b", loaded without a
// group and completed by a DKG result put on the daemon's completed-DKG
// channel (the daemon itself writes the group and share files).
//
// In every lifecycle phase the harness calls every response emitter of the
// inventory of spec/Secrecy.tla (the call plan comes from TLC through
// VERIF_IN).  Every response, stream item, HTTP body, outgoing packet, log
// line, stdout line and every file of the config folder is scanned for the
// secret scalars (same oracle as internal/dkg/secrecy_test.go).  The test
// asserts nothing; spec/Trace_Secrecy.tla decides.

import (
	"bytes"
	"context"
	"encoding/base64"
	"encoding/hex"
	"encoding/json"
	"errors"
	"fmt"
	"io"
	"math/big"
	"math/rand"
	"net/http"
	"net/http/httptest"
	"os"
	"path/filepath"
	"strings"
	"sync"
	"syscall"
	"testing"
	"time"

	clock "github.com/jonboulle/clockwork"
	"go.opentelemetry.io/otel"
	sdktrace "go.opentelemetry.io/otel/sdk/trace"
	"go.opentelemetry.io/otel/sdk/trace/tracetest"
	"google.golang.org/grpc"
	"google.golang.org/protobuf/proto"

	"github.com/drand/drand/v2/common"
	chain2 "github.com/drand/drand/v2/common/chain"
	"github.com/drand/drand/v2/common/key"
	dlog "github.com/drand/drand/v2/common/log"
	"github.com/drand/drand/v2/crypto"
	"github.com/drand/drand/v2/internal/chain"
	"github.com/drand/drand/v2/internal/dkg"
	"github.com/drand/drand/v2/internal/fs"
	"github.com/drand/drand/v2/internal/net"
	"github.com/drand/drand/v2/internal/test"
	"github.com/drand/drand/v2/internal/vlib"
	pdkg "github.com/drand/drand/v2/protobuf/dkg"
	"github.com/drand/drand/v2/protobuf/drand"
	"github.com/drand/kyber"
	"github.com/drand/kyber/share"
	kdkg "github.com/drand/kyber/share/dkg"
	"github.com/drand/kyber/util/random"
)

const vsyPeriod = 2 * time.Second

// ---------------------------------------------------------------- the oracle: byte scan (same as internal/dkg/secrecy_test.go)

type vsyPat struct {
	enc string
	b   []byte
}

type vsySecret struct {
	class string
	name  string
	pats  []vsyPat
}

func vsyRev(b []byte) []byte {
	o := make([]byte, len(b))
	for i := range b {
		o[len(b)-1-i] = b[i]
	}
	return o
}

func vsyPatterns(raw []byte, str string) []vsyPat {
	var ps []vsyPat
	add := func(enc string, b []byte) {
		if len(b) >= 16 {
			ps = append(ps, vsyPat{enc, b})
		}
	}
	add("raw", raw)
	add("raw-le", vsyRev(raw))
	hx := hex.EncodeToString(raw)
	add("hex", []byte(hx))
	add("HEX", []byte(strings.ToUpper(hx)))
	add("hex-le", []byte(hex.EncodeToString(vsyRev(raw))))
	if str != "" && str != hx {
		add("string", []byte(str))
	}
	for k := 0; k < 3 && k < len(raw); k++ {
		n := (len(raw) - k) / 3 * 3
		add(fmt.Sprintf("b64std/%d", k), []byte(base64.RawStdEncoding.EncodeToString(raw[k:k+n])))
		add(fmt.Sprintf("b64url/%d", k), []byte(base64.RawURLEncoding.EncodeToString(raw[k:k+n])))
	}
	add("decimal", []byte(new(big.Int).SetBytes(raw).String()))
	var sp []string
	for _, c := range raw {
		sp = append(sp, fmt.Sprint(int(c)))
	}
	add("go-bytes", []byte(strings.Join(sp, " ")))
	add("json-ints", []byte(strings.Join(sp, ",")))
	return ps
}

func vsyScalarSecret(class, name string, s kyber.Scalar) *vsySecret {
	raw, _ := s.MarshalBinary()
	return &vsySecret{class: class, name: name, pats: vsyPatterns(raw, s.String())}
}

type vsyScanner struct{ secrets []*vsySecret }

func (sc *vsyScanner) scan(blob []byte) (secret []string) {
	for _, s := range sc.secrets {
		for _, p := range s.pats {
			if bytes.Contains(blob, p.b) {
				secret = append(secret, s.class+"/"+p.enc+":"+s.name)
				break
			}
		}
	}
	return
}

func vsyTrunc(xs []string, n int) []string {
	if len(xs) > n {
		return xs[:n]
	}
	if xs == nil {
		return []string{}
	}
	return xs
}

// ---------------------------------------------------------------- recording

type vsyBlob struct {
	key string // "channel/kind" of spec/Secrecy.tla Inventory ("<rpc>.err" = the error reply of that RPC)
	err bool
	cas string // the refusal path the harness drove
	b   []byte
}

type vsyFileObs struct {
	kind, path, step string
	epoch            int
	mode, dmode      int
	b                []byte
}

type vsyRec struct {
	mu    sync.Mutex
	blobs []vsyBlob
	files []vsyFileObs
}

func (r *vsyRec) add(key string, isErr bool, b []byte) {
	r.addCase(key, "", isErr, b)
}

func (r *vsyRec) addCase(key, cas string, isErr bool, b []byte) {
	if isErr && !strings.HasSuffix(key, ".err") {
		key += ".err" // an error reply is a response of its own kind
	}
	r.mu.Lock()
	r.blobs = append(r.blobs, vsyBlob{key, isErr, cas, append([]byte(nil), b...)})
	r.mu.Unlock()
}

func (r *vsyRec) addMsg(key string, m proto.Message, err error) {
	r.addReply(key, "", m, err)
}

func (r *vsyRec) addReply(key, cas string, m proto.Message, err error) {
	if err != nil {
		r.addCase(key, cas, true, []byte(err.Error()))
		return
	}
	if cas != "" {
		var b []byte
		if m != nil && fmt.Sprintf("%v", m) != "<nil>" {
			b, _ = proto.Marshal(m)
		}
		r.addCase(key, cas, false, b)
		return
	}
	if m == nil || (fmt.Sprintf("%v", m) == "<nil>") {
		r.add(key, false, nil)
		return
	}
	b, e := proto.Marshal(m)
	if e != nil {
		b = []byte("marshal error: " + e.Error())
	}
	r.add(key, false, b)
}

type vsySink struct {
	rec *vsyRec
	key string
}

func (s *vsySink) Write(p []byte) (int, error) {
	for _, line := range bytes.Split(p, []byte("\n")) {
		if len(line) > 0 {
			s.rec.add(s.key, false, line)
		}
	}
	return len(p), nil
}
func (s *vsySink) Sync() error { return nil }

func vsyFileKind(base string) string {
	switch base {
	case "drand_id.private":
		return "key.private"
	case "drand_id.public":
		return "key.public"
	case "drand_group.toml":
		return "group"
	case "dist_key.private":
		return "share"
	case "dkg.db":
		return "dkg.db"
	case "drand.db":
		return "chain.db"
	case "backup.db":
		return "backup"
	}
	return "other"
}

// ---------------------------------------------------------------- fabricated universe

type vsyChain struct {
	id      string
	pair    *key.Pair
	group   *key.Group
	share   *key.Share
	hashHex string
	epoch   int // 0 until the daemon holds the share of this chain
}

type vsyWorld struct {
	t       *testing.T
	sch     *crypto.Scheme
	rec     *vsyRec
	dd      *DrandDaemon
	clk     *clock.FakeClock
	folder  string
	addr    string
	http    http.Handler
	chains  map[string]*vsyChain
	ghost   *key.Pair
	gshare  *share.PriShare
	secrets *vsyScanner
	dbEpoch int
	cas     string // label of the refusal path being driven (recorded with the replies of call)
	stop    func()
}

// vsyPC wraps the daemon's protocol client: everything the node sends to a peer passes here.
type vsyPC struct {
	w *vsyWorld
}

func (c *vsyPC) GetIdentity(_ context.Context, p net.Peer, in *drand.IdentityRequest, _ ...net.CallOption) (*drand.IdentityResponse, error) {
	c.w.rec.addMsg("protocol.out/IdentityRequest", in, nil)
	return nil, errors.New("vsy: peer does not answer")
}

func (c *vsyPC) SyncChain(_ context.Context, p net.Peer, in *drand.SyncRequest, _ ...net.CallOption) (chan *drand.BeaconPacket, error) {
	c.w.rec.addMsg("protocol.out/SyncRequest", in, nil)
	return nil, errors.New("vsy: peer does not answer")
}

func (c *vsyPC) PartialBeacon(_ context.Context, p net.Peer, in *drand.PartialBeaconPacket, _ ...net.CallOption) error {
	c.w.rec.addMsg("protocol.out/PartialBeacon", in, nil)
	if p.Address() == c.w.ghost.Public.Addr {
		cp := proto.Clone(in).(*drand.PartialBeaconPacket)
		go c.w.ghostReply(cp)
	}
	return nil
}

func (c *vsyPC) Status(_ context.Context, p net.Peer, in *drand.StatusRequest, _ ...grpc.CallOption) (*drand.StatusResponse, error) {
	c.w.rec.addMsg("protocol.out/StatusRequest", in, nil)
	return nil, errors.New("vsy: peer does not answer")
}

func (c *vsyPC) Check(_ context.Context, p net.Peer) error {
	c.w.rec.add("protocol.out/Check", false, []byte(p.Address()))
	return nil
}

// ghostReply: the second member of the "default" group answers a partial with its own.
func (w *vsyWorld) ghostReply(in *drand.PartialBeaconPacket) {
	msg := w.sch.DigestBeacon(&common.Beacon{Round: in.GetRound(), PreviousSig: in.GetPreviousSignature()})
	sig, err := w.sch.ThresholdScheme.Sign(w.gshare, msg)
	if err != nil {
		return
	}
	md := drand.NewMetadata(common.GetAppVersion().ToProto())
	md.BeaconID = "default"
	pkt := &drand.PartialBeaconPacket{Round: in.GetRound(), PreviousSignature: in.GetPreviousSignature(), PartialSig: sig, Metadata: md}
	var resp *drand.Empty
	r := vlib.Call(10*time.Second, func() { resp, err = w.dd.PartialBeacon(context.Background(), pkt) })
	if r.Returned && r.Panic == "" {
		w.rec.addMsg("protocol/PartialBeacon", resp, err)
	}
}

func vsyFabricate(id string, sch *crypto.Scheme, addr string, ghost *key.Pair, genesis int64, rng *rand.Rand) (*vsyChain, *share.PriShare, kyber.Scalar, error) {
	pair, err := key.NewKeyPair(addr, sch)
	if err != nil {
		return nil, nil, nil, err
	}
	n := 1
	if ghost != nil {
		n = 2
	}
	secret := sch.KeyGroup.Scalar().Pick(random.New(rng))
	pri := share.NewPriPoly(sch.KeyGroup, n, secret, random.New(rng))
	pub := pri.Commit(sch.KeyGroup.Point().Base())
	shares := pri.Shares(n)
	_, commits := pub.Info()
	ks := &key.Share{DistKeyShare: kdkg.DistKeyShare{Share: shares[0], Commits: commits}, Scheme: sch}
	nodes := []*key.Node{{Identity: pair.Public, Index: 0}}
	var gs *share.PriShare
	if ghost != nil {
		nodes = append(nodes, &key.Node{Identity: ghost.Public, Index: 1})
		gs = shares[1]
	}
	g := key.LoadGroup(nodes, genesis, &key.DistPublic{Coefficients: commits}, vsyPeriod, 0, sch, id)
	g.Threshold = n
	g.CatchupPeriod = time.Second
	g.GenesisSeed = g.GetGenesisSeed()
	info := chain2.NewChainInfo(g)
	return &vsyChain{id: id, pair: pair, group: g, share: ks, hashHex: info.HashString()}, gs, secret, nil
}

func vsyNewWorld(t *testing.T, sch *crypto.Scheme, rec *vsyRec, rng *rand.Rand) (*vsyWorld, error) {
	ctx := context.Background()
	w := &vsyWorld{t: t, sch: sch, rec: rec, chains: map[string]*vsyChain{}, secrets: &vsyScanner{}}
	w.folder = filepath.Join(t.TempDir(), "drand")
	w.addr = test.FreeBind("127.0.0.1")
	ghost, err := key.NewKeyPair(test.FreeBind("127.0.0.1"), sch)
	if err != nil {
		return nil, err
	}
	w.ghost = ghost
	start := time.Now().Add(-time.Hour).Truncate(time.Second)
	w.clk = clock.NewFakeClockAt(start)
	genesis := start.Add(-10 * vsyPeriod).Unix()
	cd, gs, sec, err := vsyFabricate("default", sch, w.addr, ghost, genesis, rng)
	if err != nil {
		return nil, err
	}
	w.gshare = gs
	cb, _, secB, err := vsyFabricate("b", sch, w.addr, nil, genesis-6, rng)
	if err != nil {
		return nil, err
	}
	w.chains["default"], w.chains["b"] = cd, cb
	add := func(class, name string, s kyber.Scalar) {
		w.secrets.secrets = append(w.secrets.secrets, vsyScalarSecret(class, name, s))
	}
	add("PrivKey", "PrivKey:default", cd.pair.Key)
	add("PrivKey", "PrivKey:b", cb.pair.Key)
	add("PrivKey", "PrivKey:ghost", ghost.Key)
	add("Share", "Share:default", cd.share.Share.V)
	add("Share", "Share:ghost", gs.V)
	add("Share", "Share:b", cb.share.Share.V)
	add("Share", "GroupSecret:default", sec)
	add("Share", "GroupSecret:b", secB)

	// internal/drand-cli checkMigration (drand start) and keygenCmd create the multibeacon folder before the daemon
	if fs.CreateSecureFolder(filepath.Join(w.folder, common.MultiBeaconFolder)) == "" {
		return nil, errors.New("cannot create the multibeacon folder")
	}
	lg := dlog.New(&vsySink{rec: rec, key: "log/line"}, dlog.DebugLevel, true)
	cfg := NewConfig(lg,
		WithConfigFolder(w.folder),
		WithPrivateListenAddress(w.addr),
		WithPublicListenAddress(test.FreeBind("127.0.0.1")),
		WithControlPort(test.FreePort()),
		WithDBStorageEngine(chain.BoltDB),
		WithDkgKickoffGracePeriod(time.Second),
		WithDkgPhaseTimeout(2*time.Second),
	)
	cfg.clock = w.clk
	dd, err := NewDrandDaemon(ctx, cfg)
	if err != nil {
		return nil, err
	}
	w.dd = dd
	// every beacon handler created from now on sends through the harness
	dd.privGateway.ProtocolClient = &vsyPC{w: w}
	w.http = dd.handler.GetHTTPHandler()
	var once sync.Once
	w.stop = func() {
		once.Do(func() {
			c, cancel := context.WithTimeout(context.Background(), 3*time.Second)
			defer cancel()
			vlib.Call(8*time.Second, func() { dd.Stop(c) })
		})
	}
	t.Cleanup(w.stop)
	return w, nil
}

func (w *vsyWorld) provision(id string, withGroup bool) error {
	c := w.chains[id]
	st := key.NewFileStore(w.dd.opts.ConfigFolderMB(), id)
	if err := st.SaveKeyPair(c.pair); err != nil {
		return err
	}
	if withGroup {
		if err := st.SaveGroup(c.group); err != nil {
			return err
		}
		if err := st.SaveShare(c.share); err != nil {
			return err
		}
		c.epoch = 1
	}
	return nil
}

// snapshot records mode and content of every regular file of the config folder.
func (w *vsyWorld) snapshot(step string) {
	_ = filepath.Walk(w.folder, func(p string, info os.FileInfo, err error) error {
		if err != nil || info.IsDir() || !info.Mode().IsRegular() {
			return nil
		}
		b, _ := os.ReadFile(p)
		dm := 0
		if di, err := os.Stat(filepath.Dir(p)); err == nil {
			dm = int(di.Mode().Perm())
		}
		rel, _ := filepath.Rel(w.folder, p)
		kind := vsyFileKind(filepath.Base(p))
		e := 0
		switch {
		case kind == "dkg.db":
			e = w.dbEpoch
		case strings.Contains(rel, "/default/"):
			e = w.chains["default"].epoch
		case strings.Contains(rel, "/b/"):
			e = w.chains["b"].epoch
		}
		if kind == "backup" {
			e = 1
		}
		w.rec.mu.Lock()
		w.rec.files = append(w.rec.files, vsyFileObs{kind: kind, path: rel, step: step, epoch: e, mode: int(info.Mode().Perm()), dmode: dm, b: b})
		w.rec.mu.Unlock()
		return nil
	})
}

func (w *vsyWorld) flush(tr *vlib.Trace) {
	w.rec.mu.Lock()
	defer w.rec.mu.Unlock()
	for _, b := range w.rec.blobs {
		sec := w.secrets.scan(b.b)
		ev := vlib.E{"node": 1, "key": b.key, "err": b.err, "size": len(b.b), "secret": len(sec) > 0, "sens": false, "hits": vsyTrunc(sec, 4)}
		if b.cas != "" {
			ev["case"] = b.cas
		}
		tr.Emit("Emit", ev)
	}
	for _, f := range w.rec.files {
		sec := w.secrets.scan(f.b)
		tr.Emit("File", vlib.E{"node": 1, "kind": f.kind, "path": f.path, "step": f.step, "epoch": f.epoch, "ex": true, "mode": f.mode,
			"dirmode": f.dmode, "size": len(f.b), "holds": len(sec) > 0, "hits": vsyTrunc(sec, 4), "cmp": false})
	}
	w.rec.blobs, w.rec.files = nil, nil
}

func (w *vsyWorld) load(id string) error {
	var err error
	var resp *drand.LoadBeaconResponse
	r := vlib.Call(30*time.Second, func() {
		resp, err = w.dd.LoadBeacon(context.Background(), &drand.LoadBeaconRequest{Metadata: &drand.Metadata{BeaconID: id}})
	})
	if !r.Returned {
		return errors.New("LoadBeacon blocked")
	}
	if r.Panic != "" {
		return errors.New("LoadBeacon panic: " + r.Panic)
	}
	w.rec.addMsg("control/LoadBeacon", resp, err)
	return err
}

func (w *vsyWorld) bp(id string) *BeaconProcess {
	w.dd.state.RLock()
	defer w.dd.state.RUnlock()
	return w.dd.beaconProcesses[id]
}

func (w *vsyWorld) lastRound(id string) uint64 {
	bp := w.bp(id)
	if bp == nil {
		return 0
	}
	bp.state.RLock()
	b := bp.beacon
	bp.state.RUnlock()
	if b == nil {
		return 0
	}
	last, err := b.Store().Last(context.Background())
	if err != nil || last == nil {
		return 0
	}
	return last.Round
}

// settle advances the fake clock until the chain has stored at least `want` rounds.
func (w *vsyWorld) settle(id string, want uint64) bool {
	for i := 0; i < 80 && w.lastRound(id) < want; i++ {
		w.clk.Advance(vsyPeriod)
		vlib.Eventually(250*time.Millisecond, func() bool { return w.lastRound(id) >= want })
	}
	return w.lastRound(id) >= want
}

// ---------------------------------------------------------------- the calls of the plan

type vsySyncStream struct {
	ctx    context.Context
	cancel context.CancelFunc
	w      *vsyWorld
	key    string
	n      int
	drand.Protocol_SyncChainServer
}

func (s *vsySyncStream) Context() context.Context { return s.ctx }
func (s *vsySyncStream) Send(b *drand.BeaconPacket) error {
	s.w.rec.addMsg(s.key, b, nil)
	s.n++
	if s.n >= 2 {
		s.cancel()
		return errors.New("vsy: enough")
	}
	return nil
}

type vsyPubStream struct {
	ctx    context.Context
	cancel context.CancelFunc
	w      *vsyWorld
	n      int
	drand.Public_PublicRandStreamServer
}

func (s *vsyPubStream) Context() context.Context { return s.ctx }
func (s *vsyPubStream) Send(b *drand.PublicRandResponse) error {
	s.w.rec.addMsg("public/PublicRandStream", b, nil)
	s.n++
	if s.n >= 2 {
		s.cancel()
		return errors.New("vsy: enough")
	}
	return nil
}

type vsyProgStream struct {
	ctx context.Context
	w   *vsyWorld
	key string
	grpc.ServerStream
}

func (s *vsyProgStream) Context() context.Context { return s.ctx }
func (s *vsyProgStream) Send(p *drand.SyncProgress) error {
	s.w.rec.addMsg(s.key, p, nil)
	return nil
}

func (w *vsyWorld) httpGet(key, path string) {
	r := vlib.Call(15*time.Second, func() {
		rr := httptest.NewRecorder()
		w.http.ServeHTTP(rr, httptest.NewRequest(http.MethodGet, path, nil))
		body, _ := io.ReadAll(rr.Body)
		var hdr bytes.Buffer
		_ = rr.Header().Write(&hdr)
		w.rec.addCase(key, w.cas, rr.Code != http.StatusOK, append(hdr.Bytes(), body...))
	})
	if !r.Returned {
		w.rec.addCase(key, w.cas, true, []byte("blocked"))
	}
}

// call performs one response emitter of the inventory for chain id; false = the harness has no driver for it.
func (w *vsyWorld) call(key, id string) bool {
	ctx := context.Background()
	md := func() *drand.Metadata { return &drand.Metadata{BeaconID: id} }
	c := w.chains[id]
	if c == nil {
		c = &vsyChain{id: id, hashHex: strings.Repeat("ab", 32)} // a chain this daemon does not host
	}
	do := func(f func()) {
		r := vlib.Call(20*time.Second, f)
		if !r.Returned {
			w.rec.addCase(key, w.cas, true, []byte("blocked"))
		} else if r.Panic != "" {
			w.rec.addCase(key, w.cas, true, []byte("panic: "+r.Panic))
		}
	}
	switch key {
	case "protocol/GetIdentity":
		do(func() { r, err := w.dd.GetIdentity(ctx, &drand.IdentityRequest{Metadata: md()}); w.rec.addReply(key, w.cas, r, err) })
	case "protocol/PartialBeacon":
		do(func() {
			m := md()
			r, err := w.dd.PartialBeacon(ctx, &drand.PartialBeaconPacket{Round: 1, PartialSig: []byte{0, 1, 2, 3}, Metadata: m})
			w.rec.addReply(key, w.cas, r, err)
		})
	case "protocol/SyncChain":
		do(func() {
			cx, cancel := context.WithTimeout(ctx, 3*time.Second)
			defer cancel()
			st := &vsySyncStream{ctx: cx, cancel: cancel, w: w, key: key}
			err := w.dd.SyncChain(&drand.SyncRequest{FromRound: 1, Metadata: md()}, st)
			if err != nil && st.n == 0 {
				w.rec.addReply(key, w.cas, nil, err)
			}
		})
	case "protocol/Status":
		do(func() {
			r, err := w.dd.Status(ctx, &drand.StatusRequest{Metadata: md(), CheckConn: []*drand.Address{{Address: w.ghost.Public.Addr}}})
			w.rec.addReply(key, w.cas, r, err)
		})
	case "public/PublicRand":
		for _, round := range []uint64{0, 1} {
			rd := round
			do(func() { r, err := w.dd.PublicRand(ctx, &drand.PublicRandRequest{Round: rd, Metadata: md()}); w.rec.addReply(key, w.cas, r, err) })
		}
	case "public/PublicRandStream":
		do(func() {
			cx, cancel := context.WithTimeout(ctx, 3*time.Second)
			defer cancel()
			st := &vsyPubStream{ctx: cx, cancel: cancel, w: w}
			err := w.dd.PublicRandStream(&drand.PublicRandRequest{Round: 1, Metadata: md()}, st)
			if err != nil && st.n == 0 {
				w.rec.addReply(key, w.cas, nil, err)
			}
		})
	case "public/ChainInfo", "control/ChainInfo":
		do(func() { r, err := w.dd.ChainInfo(ctx, &drand.ChainInfoRequest{Metadata: md()}); w.rec.addReply(key, w.cas, r, err) })
	case "public/ListBeaconIDs":
		do(func() { r, err := w.dd.ListBeaconIDs(ctx, &drand.ListBeaconIDsRequest{}); w.rec.addReply(key, w.cas, r, err) })
	case "dkgpublic/Packet":
		do(func() {
			r, err := w.dd.Packet(ctx, &pdkg.GossipPacket{Metadata: &pdkg.GossipMetadata{BeaconID: id, Address: w.ghost.Public.Addr, Signature: []byte("0123456789abcdef")},
				Packet: &pdkg.GossipPacket_Abort{Abort: &pdkg.AbortDKG{Reason: "vsy"}}})
			w.rec.addReply(key, w.cas, r, err)
		})
	case "dkgpublic/BroadcastDKG":
		do(func() {
			r, err := w.dd.BroadcastDKG(ctx, &pdkg.DKGPacket{Dkg: &pdkg.Packet{Metadata: md(),
				Bundle: &pdkg.Packet_Response{Response: &pdkg.ResponseBundle{ShareIndex: 1, SessionId: []byte("vsy"), Signature: []byte("vsy")}}}})
			w.rec.addReply(key, w.cas, r, err)
		})
	case "metrics/Metrics":
		do(func() { r, err := w.dd.Metrics(ctx, &drand.MetricsRequest{}); w.rec.addReply(key, w.cas, r, err) })
	case "control/PingPong":
		do(func() { r, err := w.dd.PingPong(ctx, &drand.Ping{Metadata: md()}); w.rec.addReply(key, w.cas, r, err) })
	case "control/Status":
		do(func() { r, err := w.dd.Status(ctx, &drand.StatusRequest{Metadata: md()}); w.rec.addReply(key, w.cas, r, err) })
	case "control/ListSchemes":
		do(func() { r, err := w.dd.ListSchemes(ctx, &drand.ListSchemesRequest{}); w.rec.addReply(key, w.cas, r, err) })
	case "control/PublicKey":
		do(func() { r, err := w.dd.PublicKey(ctx, &drand.PublicKeyRequest{Metadata: md()}); w.rec.addReply(key, w.cas, r, err) })
	case "control/GroupFile":
		do(func() { r, err := w.dd.GroupFile(ctx, &drand.GroupRequest{Metadata: md()}); w.rec.addReply(key, w.cas, r, err) })
	case "control/LoadBeacon": // already running: the refusal is an answer too (the successful answers are recorded at load time)
		do(func() { r, err := w.dd.LoadBeacon(ctx, &drand.LoadBeaconRequest{Metadata: md()}); w.rec.addReply(key, w.cas, r, err) })
	case "control/StartFollowChain":
		do(func() {
			cx, cancel := context.WithTimeout(ctx, 3*time.Second)
			defer cancel()
			err := w.dd.StartFollowChain(&drand.StartSyncRequest{Metadata: md(), UpTo: 1}, &vsyProgStream{ctx: cx, w: w, key: key})
			w.rec.addReply(key, w.cas, nil, err)
		})
	case "control/StartCheckChain":
		do(func() {
			cx, cancel := context.WithTimeout(ctx, 5*time.Second)
			defer cancel()
			err := w.dd.StartCheckChain(&drand.StartSyncRequest{Metadata: md(), Nodes: []string{w.addr}, UpTo: 2}, &vsyProgStream{ctx: cx, w: w, key: key})
			w.rec.addReply(key, w.cas, nil, err)
		})
	case "control/BackupDatabase":
		do(func() {
			r, err := w.dd.BackupDatabase(ctx, &drand.BackupDBRequest{OutputFile: filepath.Join(w.folder, "backup.db"), Metadata: md()})
			w.rec.addReply(key, w.cas, r, err)
		})
	case "control/RemoteStatus":
		do(func() {
			r, err := w.dd.RemoteStatus(ctx, &drand.RemoteStatusRequest{Metadata: md(), Addresses: []*drand.Address{{Address: w.addr}, {Address: w.ghost.Public.Addr}}})
			w.rec.addReply(key, w.cas, r, err)
		})
	case "control/Shutdown":
		if w.chains[id] != nil {
			return true // exercised at the end of the scenario (it stops the chain)
		}
		do(func() { r, err := w.dd.Shutdown(ctx, &drand.ShutdownRequest{Metadata: md()}); w.rec.addReply(key, w.cas, r, err) })
	case "dkgcontrol/Command":
		do(func() {
			r, err := w.dd.Command(ctx, &pdkg.DKGCommand{Metadata: &pdkg.CommandMetadata{BeaconID: id}, Command: &pdkg.DKGCommand_Accept{Accept: &pdkg.AcceptOptions{}}})
			w.rec.addReply(key, w.cas, r, err)
		})
	case "dkgcontrol/DKGStatus":
		do(func() { r, err := w.dd.DKGStatus(ctx, &pdkg.DKGStatusRequest{BeaconID: id}); w.rec.addReply(key, w.cas, r, err) })
	case "http/chains":
		w.httpGet(key, "/chains")
	case "http/info":
		w.httpGet(key, "/"+c.hashHex+"/info")
		if id == "default" {
			w.httpGet(key, "/info")
		}
	case "http/public.latest":
		w.httpGet(key, "/"+c.hashHex+"/public/latest")
		if id == "default" {
			w.httpGet(key, "/public/latest")
		}
	case "http/public.round":
		w.httpGet(key, "/"+c.hashHex+"/public/1")
		if id == "default" {
			w.httpGet(key, "/public/1")
		}
	case "http/health":
		w.httpGet(key, "/"+c.hashHex+"/health")
		if id == "default" {
			w.httpGet(key, "/health")
		}
	default:
		return false
	}
	return true
}

// refusals drives the rejection paths of the peer-facing RPCs of a running chain: partial beacons that must be
// refused, requests for rounds that do not exist, and every RPC of the plan for a beacon id / chain hash this
// daemon does not host.  The error text is the reply the remote caller gets.
func (w *vsyWorld) refusals(plan vsyPlan, id string) {
	ctx := context.Background()
	last := w.lastRound(id)
	bp := w.bp(id)
	var prev []byte
	if bp != nil && bp.beacon != nil {
		if b, err := bp.beacon.Store().Last(ctx); err == nil && b != nil {
			prev = b.Signature
		}
	}
	partial := func(cas string, round uint64, idx int, mutate func([]byte) []byte, beacon string) {
		msg := w.sch.DigestBeacon(&common.Beacon{Round: round, PreviousSig: prev})
		sig, err := w.sch.ThresholdScheme.Sign(&share.PriShare{I: idx, V: w.sch.KeyGroup.Scalar().Pick(random.New())}, msg)
		if err != nil {
			return
		}
		if mutate != nil {
			sig = mutate(sig)
		}
		md := drand.NewMetadata(common.GetAppVersion().ToProto())
		md.BeaconID = beacon
		pkt := &drand.PartialBeaconPacket{Round: round, PreviousSignature: prev, PartialSig: sig, Metadata: md}
		var resp *drand.Empty
		r := vlib.Call(10*time.Second, func() { resp, err = w.dd.PartialBeacon(ctx, pkt) })
		if r.Returned && r.Panic == "" {
			w.rec.addReply("protocol/PartialBeacon", cas, resp, err)
		} else {
			w.rec.addCase("protocol/PartialBeacon", cas, true, []byte("blocked or panic: "+r.Panic))
		}
	}
	partial("partial beacon signed with a wrong share", last+1, 1, nil, id)
	partial("partial beacon with the node's own index", last+1, 0, nil, id)
	partial("partial beacon from an index outside the group", last+1, 7, nil, id)
	partial("partial beacon for a far future round", last+1000, 1, nil, id)
	partial("partial beacon with a truncated signature", last+1, 1, func(b []byte) []byte { return b[:len(b)/2] }, id)
	partial("partial beacon for an unknown beacon id", last+1, 1, nil, "nosuch")
	w.cas = "round that does not exist"
	for _, k := range []string{"public/PublicRand"} {
		key := k
		r := vlib.Call(10*time.Second, func() {
			resp, err := w.dd.PublicRand(ctx, &drand.PublicRandRequest{Round: last + 100000, Metadata: &drand.Metadata{BeaconID: id}})
			w.rec.addReply(key, w.cas, resp, err)
		})
		_ = r
	}
	if c := w.chains[id]; c != nil {
		w.httpGet("http/public.round", "/"+c.hashHex+"/public/"+fmt.Sprint(last+100000))
		w.cas = "malformed round"
		w.httpGet("http/public.round", "/"+c.hashHex+"/public/abc")
	}
	w.cas = "unknown beacon id"
	for _, k := range plan.Responses {
		w.call(k, "nosuch")
	}
	w.cas = ""
}

type vsyPlan struct {
	Responses   []string `json:"responses"`
	DamageForms []string `json:"damage_forms"`
	DamageFiles []string `json:"damage_files"`
}

// ---------------------------------------------------------------- damaged private files (fault family of Secrecy.tla)

// vsyDamage returns the file content with one fault placed relative to the line that holds the secret
// (anchor = the TOML key of that line).  The secret's value stays in the file in every form.
func vsyDamage(content []byte, anchor, form string) ([]byte, bool) {
	lines := strings.Split(strings.TrimRight(string(content), "\n"), "\n")
	at := -1
	for i, l := range lines {
		if strings.HasPrefix(l, anchor+" ") || strings.HasPrefix(l, anchor+"=") {
			at = i
			break
		}
	}
	if at < 0 {
		return nil, false
	}
	ins := func(i int, l string) []string {
		if i > len(lines) {
			i = len(lines)
		}
		out := append([]string{}, lines[:i]...)
		out = append(out, l)
		return append(out, lines[i:]...)
	}
	join := func(ls []string) []byte { return []byte(strings.Join(ls, "\n") + "\n") }
	switch form {
	case "syntax-before":
		return join(ins(at, `Comment = "edited by hand`)), true
	case "syntax-on":
		ls := append([]string{}, lines...)
		ls[at] = strings.TrimSuffix(ls[at], `"`)
		return join(ls), true
	case "syntax-after-1": // the classic slip: the next line loses its quotes
		if at+1 < len(lines) && strings.Contains(lines[at+1], `"`) {
			ls := append([]string{}, lines...)
			ls[at+1] = strings.ReplaceAll(ls[at+1], `"`, "")
			return join(ls), true
		}
		return join(ins(at+1, `SchemeNote = pedersen-bls-chained`)), true
	case "syntax-after-2":
		return join(ins(at+2, `Migrated = yes, by hand`)), true
	case "truncated-after":
		ls := append([]string{}, lines[:at+1]...)
		tail := "SchemeNa"
		if at+1 < len(lines) && len(lines[at+1]) > 4 {
			tail = lines[at+1][:len(lines[at+1])/2]
		}
		return []byte(strings.Join(ls, "\n") + "\n" + tail), true
	case "duplicated-key":
		return join(ins(at+1, lines[at])), true
	case "wrong-type-after":
		ls := append([]string{}, lines...)
		for i := at + 1; i < len(ls); i++ {
			if strings.HasPrefix(ls[i], "SchemeName") {
				ls[i] = "SchemeName = 5"
				return join(ls), true
			}
		}
		return join(ins(at+1, "SchemeName = 5")), true
	case "wrong-type-before":
		var ls []string
		for _, l := range lines {
			if !strings.HasPrefix(l, "SchemeName") {
				ls = append(ls, l)
			}
		}
		lines = ls
		return join(ins(0, "SchemeName = 5")), true
	case "empty":
		return []byte{}, true
	}
	return nil, false
}

func (w *vsyWorld) stopChain(id string) {
	if w.bp(id) == nil {
		return
	}
	vlib.Call(20*time.Second, func() {
		_, _ = w.dd.Shutdown(context.Background(), &drand.ShutdownRequest{Metadata: &drand.Metadata{BeaconID: id}})
	})
}

// damagedFiles: for every (file, form) of the plan the private file of the (stopped) chain `id` is damaged, every
// loader of that file is driven - the key store as the CLI uses it, the self-sign migration of daemon start, the
// control API LoadBeacon; for the key file also PublicKey of the RUNNING chain `running` - and the file is restored.
// Returned errors, replies, log lines and span errors are scanned like everything else.
func (w *vsyWorld) damagedFiles(tr *vlib.Trace, scenario string, plan vsyPlan, id, running string, lg dlog.Logger) {
	anchors := map[string]string{"key.private": "Key", "share": "Share", "group": "Threshold"}
	_ = os.RemoveAll(filepath.Join(w.dd.opts.ConfigFolderMB(), "nosuch"))
	pathOf := func(chain, kind string) string {
		base := filepath.Join(w.dd.opts.ConfigFolderMB(), chain)
		switch kind {
		case "key.private":
			return filepath.Join(base, key.FolderName, "drand_id.private")
		case "share":
			return filepath.Join(base, key.GroupFolderName, "dist_key.private")
		}
		return filepath.Join(base, key.GroupFolderName, "drand_group.toml")
	}
	ctx := context.Background()
	for _, kind := range plan.DamageFiles {
		anchor, ok := anchors[kind]
		if !ok {
			tr.Emit("Note", vlib.E{"scenario": scenario, "what": "no driver for damaged file", "key": kind, "phase": "damaged"})
			continue
		}
		for _, form := range plan.DamageForms {
			cas := fmt.Sprintf("damaged %s: %s", kind, form)
			targets := []string{id}
			if kind == "key.private" {
				targets = append(targets, running)
			}
			for _, chainID := range targets {
				p := pathOf(chainID, kind)
				orig, err := os.ReadFile(p)
				if err != nil {
					tr.Emit("Note", vlib.E{"scenario": scenario, "what": "file to damage is missing: " + err.Error(), "key": kind, "phase": "damaged"})
					continue
				}
				bad, ok := vsyDamage(orig, anchor, form)
				if !ok {
					tr.Emit("Note", vlib.E{"scenario": scenario, "what": "form not applicable: " + form, "key": kind, "phase": "damaged"})
					continue
				}
				if err := os.WriteFile(p, bad, 0o600); err != nil {
					continue
				}
				if chainID == running {
					// the running chain reads its key file at every PublicKey request
					r := vlib.Call(20*time.Second, func() {
						resp, err := w.dd.PublicKey(ctx, &drand.PublicKeyRequest{Metadata: &drand.Metadata{BeaconID: chainID}})
						w.rec.addReply("control/PublicKey", cas+" (running chain)", resp, err)
					})
					_ = r
				} else {
					st := key.NewFileStore(w.dd.opts.ConfigFolderMB(), chainID)
					report := func(what string, err error) {
						if err != nil {
							w.rec.addCase("stdout/line", cas+" ("+what+")", false, []byte(what+": "+err.Error()))
						}
					}
					switch kind {
					case "key.private":
						_, err := st.LoadKeyPair()
						report("key store LoadKeyPair", err)
					case "share":
						_, err := st.LoadShare()
						report("key store LoadShare", err)
					default:
						_, err := st.LoadGroup()
						report("key store LoadGroup", err)
					}
					report("self-sign migration", key.SelfSignAll(lg, w.dd.opts.ConfigFolderMB()))
					w.stopChain(chainID)
					r := vlib.Call(30*time.Second, func() {
						resp, err := w.dd.LoadBeacon(ctx, &drand.LoadBeaconRequest{Metadata: &drand.Metadata{BeaconID: chainID}})
						w.rec.addReply("control/LoadBeacon", cas, resp, err)
					})
					if !r.Returned {
						w.rec.addCase("control/LoadBeacon", cas, true, []byte("blocked"))
					}
					w.stopChain(chainID)
				}
				_ = os.WriteFile(p, orig, 0o600)
			}
		}
	}
}

// spans: what the tracing backend would receive (span name, status, attributes, recorded errors).
func (w *vsyWorld) spans(sr *tracetest.SpanRecorder) {
	for _, sp := range sr.Ended() {
		if len(sp.Events()) == 0 && sp.Status().Description == "" {
			continue
		}
		var b bytes.Buffer
		fmt.Fprintf(&b, "span %s status=%v %s", sp.Name(), sp.Status().Code, sp.Status().Description)
		for _, a := range sp.Attributes() {
			fmt.Fprintf(&b, " %s=%s", a.Key, a.Value.Emit())
		}
		for _, ev := range sp.Events() {
			fmt.Fprintf(&b, " event %s", ev.Name)
			for _, a := range ev.Attributes {
				fmt.Fprintf(&b, " %s=%s", a.Key, a.Value.Emit())
			}
		}
		w.rec.add("trace/span", false, b.Bytes())
	}
}

func (w *vsyWorld) runPlan(tr *vlib.Trace, scenario string, plan vsyPlan, id, phase string) {
	for _, k := range plan.Responses {
		if !w.call(k, id) {
			tr.Emit("Note", vlib.E{"scenario": scenario, "what": "no driver for emitter", "key": k, "phase": phase})
		}
	}
}

func vsyRunDaemon(t *testing.T, tr *vlib.Trace, sch *crypto.Scheme, plan vsyPlan, umask int, rng *rand.Rand) {
	name := "daemon-" + sch.Name
	rec := &vsyRec{}
	tr.Emit("Reset", vlib.E{"scenario": name, "class": "daemon", "scheme": sch.Name, "umask": umask})
	outf, err := os.CreateTemp(t.TempDir(), "stdout")
	if err != nil {
		tr.Emit("Abort", vlib.E{"scenario": name, "why": err.Error()})
		return
	}
	oldOut := os.Stdout
	os.Stdout = outf
	restored := false
	restore := func() {
		if restored {
			return
		}
		restored = true
		os.Stdout = oldOut
		outf.Sync()
		b, _ := os.ReadFile(outf.Name())
		(&vsySink{rec: rec, key: "stdout/line"}).Write(b)
	}
	defer restore()
	// spans go to an in-memory recorder instead of a tracing backend
	sr := tracetest.NewSpanRecorder()
	prevTP := otel.GetTracerProvider()
	otel.SetTracerProvider(sdktrace.NewTracerProvider(sdktrace.WithSpanProcessor(sr)))
	defer otel.SetTracerProvider(prevTP)
	var w *vsyWorld
	fail := func(why string) {
		restore()
		if w != nil {
			w.stop()
			w.snapshot("aborted")
			w.flush(tr)
		}
		tr.Emit("Abort", vlib.E{"scenario": name, "why": why})
		tr.Emit("End", vlib.E{"scenario": name})
	}
	w, err = vsyNewWorld(t, sch, rec, rng)
	if err != nil {
		fail("daemon: " + err.Error())
		return
	}
	// a v1-style installation of "default" (key pair, group, share); only a key pair for "b"
	if err := w.provision("default", true); err != nil {
		fail("provision default: " + err.Error())
		return
	}
	if err := w.provision("b", false); err != nil {
		fail("provision b: " + err.Error())
		return
	}
	w.snapshot("provisioned")
	// phase "keyed": chain b has a key pair and no group
	if err := w.load("b"); err != nil {
		fail("load b: " + err.Error())
		return
	}
	w.runPlan(tr, name, plan, "b", "keyed")
	w.snapshot("keyed")
	// phase "member": default is loaded (migration puts the share into dkg.db) and produces beacons with the ghost
	if err := w.load("default"); err != nil {
		fail("load default: " + err.Error())
		return
	}
	w.dbEpoch = 1
	w.snapshot("loaded")
	if !w.settle("default", 2) {
		fail("chain default did not produce 2 rounds with the ghost member")
		return
	}
	w.runPlan(tr, name, plan, "default", "member")
	w.refusals(plan, "default")
	w.snapshot("member")
	// chain b finishes a DKG: the daemon stores group and share itself, starts the beacon (1-of-1)
	cb := w.chains["b"]
	out := dkg.SharingOutput{BeaconID: "b", Old: nil, New: dkg.DBState{
		BeaconID: "b", Epoch: 2, State: dkg.Complete, Threshold: 1, SchemeID: sch.Name,
		GenesisTime: time.Unix(cb.group.GenesisTime, 0), GenesisSeed: cb.group.GenesisSeed,
		CatchupPeriod: cb.group.CatchupPeriod, BeaconPeriod: cb.group.Period, FinalGroup: cb.group, KeyShare: cb.share}}
	r := vlib.Call(10*time.Second, func() { w.dd.completedDKGs.Chan() <- out })
	if !r.Returned {
		fail("completed-DKG channel blocked")
		return
	}
	if !vlib.Eventually(20*time.Second, func() bool {
		bp := w.bp("b")
		if bp == nil {
			return false
		}
		bp.state.RLock()
		defer bp.state.RUnlock()
		return bp.beacon != nil
	}) {
		fail("DKG result for b not applied")
		return
	}
	cb.epoch = 1
	w.snapshot("dkgdone")
	if !w.settle("b", 2) {
		fail("chain b did not produce 2 rounds")
		return
	}
	w.runPlan(tr, name, plan, "b", "member-after-dkg")
	// shutdown of one chain, then of the daemon
	var sresp *drand.ShutdownResponse
	r = vlib.Call(20*time.Second, func() {
		sresp, err = w.dd.Shutdown(context.Background(), &drand.ShutdownRequest{Metadata: &drand.Metadata{BeaconID: "b"}})
	})
	if r.Returned && r.Panic == "" {
		rec.addMsg("control/Shutdown", sresp, err)
	}
	// chain b is stopped: its private files are damaged in every form of the plan and every loader is driven
	w.damagedFiles(tr, name, plan, "b", "default", w.dd.log)
	w.snapshot("final")
	w.stop()
	w.spans(sr)
	time.Sleep(100 * time.Millisecond)
	restore()
	w.flush(tr)
	tr.Emit("End", vlib.E{"scenario": name})
}

func TestVerifSecrecyDaemon(t *testing.T) {
	if os.Getenv("VERIF_OUT") == "" {
		t.Skip("harness test: needs VERIF_OUT")
	}
	tr := vlib.MustOpenTraceEnv()
	defer tr.Close()
	seed := int64(vlib.EnvInt("VERIF_SEED", 1))
	rng := rand.New(rand.NewSource(seed))
	quick := vlib.EnvStr("VERIF_TIER", "quick") == "quick"
	const umask = 0o022
	old := syscall.Umask(umask)
	defer syscall.Umask(old)
	var plan vsyPlan
	if in := os.Getenv("VERIF_IN"); in != "" {
		lines, err := vlib.LoadJSONLines(in)
		if err != nil || len(lines) == 0 {
			t.Fatalf("VERIF_IN: %v", err)
		}
		if err := json.Unmarshal(lines[0], &plan); err != nil {
			t.Fatalf("VERIF_IN: %v", err)
		}
	}
	ids := []string{crypto.DefaultSchemeID}
	if !quick {
		ids = crypto.ListSchemes()
	}
	if only := os.Getenv("VERIF_SCHEME"); only != "" {
		ids = []string{only}
	}
	for _, id := range ids {
		sch, err := crypto.GetSchemeByID(id)
		if err != nil {
			t.Fatalf("scheme %s: %v", id, err)
		}
		vsyRunDaemon(t, tr, sch, plan, umask, rng)
	}
}
