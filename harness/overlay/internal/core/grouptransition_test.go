package core

// Overlay harness (injected by /verif): BeaconProcess.validateGroupTransition on the complete catalogue of
// (old group, new group, now) cases of spec/GroupTransition.tla (two values per identity field, "" vs "default"
// ids, transition time before/at/after now).  Verdicts are recorded; TLC judges them.

import (
	"os"
	"testing"
	"time"

	clock "github.com/jonboulle/clockwork"

	"github.com/drand/drand/v2/common/key"
	"github.com/drand/drand/v2/common/log"
	"github.com/drand/drand/v2/internal/vlib"
)

func TestVerifGroupTransition(t *testing.T) {
	if os.Getenv("VERIF_OUT") == "" {
		t.Skip("verif harness only")
	}
	tr := vlib.MustOpenTraceEnv()
	defer tr.Close()
	base := int64(1_700_000_000)
	ids := map[int]string{0: "", 1: "default", 2: "other"}
	mk := func(g []int) *key.Group {
		return &key.Group{GenesisTime: base + int64(g[0]), Period: time.Duration(g[1]) * time.Second, ID: ids[g[2]],
			GenesisSeed: []byte{byte(g[3])}, TransitionTime: base + 1000 + int64(g[4])}
	}
	for now := 0; now <= 2; now++ {
		clk := clock.NewFakeClockAt(time.Unix(base+1000+int64(now), 0))
		bp := &BeaconProcess{log: log.New(nil, log.ErrorLevel, false), opts: &Config{clock: clk}}
		vals := []int{1, 2}
		for _, og := range vals {
			for _, op := range vals {
				for oi := 0; oi <= 2; oi++ {
					for _, os_ := range vals {
						for _, ng := range vals {
							for _, np := range vals {
								for ni := 0; ni <= 2; ni++ {
									for _, ns := range vals {
										for nt := 0; nt <= 2; nt++ {
											o := []int{og, op, oi, os_, 1}
											n := []int{ng, np, ni, ns, nt}
											err := bp.validateGroupTransition(mk(o), mk(n))
											tr.Emit("Validate", vlib.E{"old": o, "new": n, "now": now, "accepted": err == nil})
										}
									}
								}
							}
						}
					}
				}
			}
		}
	}
}
