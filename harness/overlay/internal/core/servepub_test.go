package core

// Overlay harness (injected by /verif) for property C11, public entry point: the REAL
// BeaconProcess.PublicRandStream wrapper (proxyRequest / proxyStream -> beacon.SyncChain) on a real
// beacon.Handler store stack over memdb.  One stream per scenario, requested from every start round
// of the domain of spec/SyncServe.tla (0, past, head, head+1, head+2, head+3, huge), then beacons are
// appended.  The trace uses the event vocabulary of TestVerifServe and is judged by TLC with
// spec/Trace_SyncServe.tla.  Nothing is asserted here.

import (
	"context"
	"crypto/sha256"
	"encoding/hex"
	"errors"
	"fmt"
	"os"
	"strings"
	"sync"
	"testing"
	"time"

	clock "github.com/jonboulle/clockwork"
	"google.golang.org/grpc/metadata"
	"google.golang.org/grpc/peer"

	"github.com/drand/drand/v2/common"
	"github.com/drand/drand/v2/common/key"
	"github.com/drand/drand/v2/common/log"
	"github.com/drand/drand/v2/crypto"
	"github.com/drand/drand/v2/internal/chain/beacon"
	chainerrors "github.com/drand/drand/v2/internal/chain/errors"
	"github.com/drand/drand/v2/internal/chain/memdb"
	"github.com/drand/drand/v2/internal/vlib"
	"github.com/drand/drand/v2/protobuf/drand"
	"github.com/drand/kyber/share"
	"github.com/drand/kyber/share/dkg"
	"github.com/drand/kyber/util/random"
)

type vspAddr string

func (a vspAddr) Network() string { return "tcp" }
func (a vspAddr) String() string  { return string(a) }

func vspDigest(b []byte) string {
	h := sha256.Sum256(b)
	return hex.EncodeToString(h[:4])
}

type vspStream struct {
	ctx  context.Context
	tr   *vlib.Trace
	mu   sync.Mutex
	done bool
	n    int
}

func (s *vspStream) Send(r *drand.PublicRandResponse) error {
	s.mu.Lock()
	defer s.mu.Unlock()
	if s.done {
		return errors.New("vsp: scenario over")
	}
	s.tr.Emit("SendEnter", vlib.E{"s": 1, "r": r.GetRound()})
	if err := s.ctx.Err(); err != nil {
		s.tr.Emit("Send", vlib.E{"s": 1, "r": r.GetRound(), "dg": vspDigest(r.GetSignature()), "res": "ctx"})
		return err
	}
	s.tr.Emit("Send", vlib.E{"s": 1, "r": r.GetRound(), "dg": vspDigest(r.GetSignature()), "res": "ok"})
	s.n++
	return nil
}
func (s *vspStream) SetHeader(metadata.MD) error  { return nil }
func (s *vspStream) SendHeader(metadata.MD) error { return nil }
func (s *vspStream) SetTrailer(metadata.MD)       {}
func (s *vspStream) Context() context.Context     { return s.ctx }
func (s *vspStream) SendMsg(any) error            { return nil }
func (s *vspStream) RecvMsg(any) error            { return nil }

func TestVerifServePublic(t *testing.T) {
	if os.Getenv("VERIF_OUT") == "" {
		t.Skip("verif harness only")
	}
	tr := vlib.MustOpenTraceEnv()
	defer tr.Close()
	sch, err := crypto.GetSchemeFromEnv()
	if err != nil {
		t.Fatal(err)
	}
	// a group of 3 with a fabricated distributed key (the beacons of this harness are not verified:
	// neither SyncChain nor the store stack verify signatures)
	const n, thr = 3, 2
	pri := share.NewPriPoly(sch.KeyGroup, thr, sch.KeyGroup.Scalar().Pick(random.New()), random.New())
	_, commits := pri.Commit(sch.KeyGroup.Point().Base()).Info()
	nodes := make([]*key.Node, n)
	var first *key.Pair
	for i := 0; i < n; i++ {
		p, err := key.NewKeyPair(fmt.Sprintf("vsp%d.test:910%d", i, i), sch)
		if err != nil {
			t.Fatal(err)
		}
		if i == 0 {
			first = p
		}
		nodes[i] = &key.Node{Index: uint32(i), Identity: p.Public}
	}
	group := key.LoadGroup(nodes, time.Now().Unix()-3600, &key.DistPublic{Coefficients: commits}, 2*time.Second, 0, sch, "vsp")
	group.Threshold = thr
	group.GenesisSeed = []byte("vsp-genesis-seed-0123456789abcdef")
	me := group.Find(first.Public)
	l := log.New(nil, log.ErrorLevel, false)

	const h0 = uint64(4)
	froms := []uint64{0, 2, h0, h0 + 1, h0 + 2, h0 + 3, 1000000000}
	for k, from := range froms {
		name := fmt.Sprintf("public-from-%d", k)
		ctx := context.Background()
		base := memdb.NewStore(2000)
		conf := &beacon.Config{Public: me, Group: group, Clock: clock.NewRealClock(),
			Share: &key.Share{DistKeyShare: dkg.DistKeyShare{Share: pri.Shares(n)[me.Index], Commits: commits}, Scheme: sch}}
		h, err := beacon.NewHandler(ctx, nil, base, conf, l, common.GetAppVersion())
		if err != nil {
			t.Fatal(err)
		}
		bp := &BeaconProcess{beaconID: "vsp", chainHash: []byte{0x01}, group: group, beacon: h, log: l, version: common.GetAppVersion()}
		sigs := map[uint64][]byte{}
		var smu sync.Mutex
		sig := func(r uint64) []byte {
			smu.Lock()
			defer smu.Unlock()
			if b, ok := sigs[r]; ok {
				return b
			}
			x := sha256.Sum256([]byte(fmt.Sprintf("vsp-%d-%d", k, r)))
			sigs[r] = append([]byte{}, x[:]...)
			return sigs[r]
		}
		last, err := h.Store().Last(ctx)
		if err != nil {
			t.Fatal(err)
		}
		smu.Lock()
		sigs[0] = last.Signature
		smu.Unlock()
		head := uint64(0)
		quiet := true // no events while the initial chain is built
		registered := make(chan struct{}, 1)
		sched := vlib.NewSched()
		sched.OnPoint("append.stored", func(a []any) {
			if !quiet {
				r := a[0].(uint64)
				tr.Emit("Stored", vlib.E{"r": r, "dg": vspDigest(sig(r))})
			}
		})
		sched.OnPoint("cb.dispatch", func(a []any) {
			if !quiet {
				tr.Emit("Dispatch", vlib.E{"r": a[0].(uint64)})
			}
		})
		isStream := func(a []any) bool { id, _ := a[0].(string); return strings.HasPrefix(id, "SyncChain-") }
		sched.OnPoint("cb.add", func(a []any) {
			if isStream(a) {
				tr.Emit("CbAdd", vlib.E{"s": 1, "a": 1})
			}
		})
		sched.OnPoint("cb.remove", func(a []any) {
			if isStream(a) {
				tr.Emit("CbRemove", vlib.E{"a": 1, "by": 1})
			}
		})
		sched.OnPoint("serve.beforeScan", func(a []any) { tr.Emit("BeforeScan", vlib.E{"s": 1}) })
		sched.OnPoint("serve.afterScan", func(a []any) { tr.Emit("AfterScan", vlib.E{"s": 1}) })
		sched.OnPoint("serve.registered", func(a []any) {
			tr.Emit("Registered", vlib.E{"s": 1})
			select {
			case registered <- struct{}{}:
			default:
			}
		})
		put := func() bool {
			head++
			lb, _ := h.Store().Last(ctx)
			b := &common.Beacon{Round: head, PreviousSig: lb.Signature, Signature: sig(head)}
			if !quiet {
				tr.Emit("PutCall", vlib.E{"r": head, "dg": vspDigest(sig(head))})
			}
			res := vlib.Call(20*time.Second, func() { err = h.Store().Put(ctx, b) })
			if !res.Returned {
				tr.Emit("Diverged", vlib.E{"step": 0, "a": "Put", "s": 0, "x": head, "want": "completion"})
				return false
			}
			if !quiet {
				r := "ok"
				if err != nil {
					r = "err"
				}
				tr.Emit("PutDone", vlib.E{"r": head, "res": r})
			}
			return true
		}
		init := [][]any{{0, vspDigest(sig(0))}}
		for head < h0 {
			put()
			init = append(init, []any{head, vspDigest(sig(head))})
		}
		quiet = false
		tr.Emit("Reset", vlib.E{"scenario": name, "backend": "mem", "impl": "core-public-mem", "q": beacon.CallbackWorkerQueue,
			"init": init, "head": h0, "lo": 0, "buf": 2000, "gated": false, "same": false})
		sctx, cancel := context.WithCancel(ctx)
		sctx = peer.NewContext(sctx, &peer.Peer{Addr: vspAddr(fmt.Sprintf("vsp%d-c1:4444", k))})
		st := &vspStream{ctx: sctx, tr: tr}
		tr.Emit("Open", vlib.E{"s": 1, "from": from, "a": 1})
		done := make(chan error, 1)
		go func() { done <- bp.PublicRandStream(&drand.PublicRandRequest{Round: from}, st) }()
		ended := false
		end := func(e error) {
			ended = true
			why := "other"
			switch {
			case e == nil:
				why = "nil"
			case errors.Is(e, chainerrors.ErrNoBeaconStored):
				why = "refused"
			case errors.Is(e, context.Canceled):
				why = "ctx"
			}
			tr.Emit("End", vlib.E{"s": 1, "why": why})
		}
		select {
		case <-registered:
		case e := <-done:
			end(e)
		case <-time.After(20 * time.Second):
			tr.Emit("Diverged", vlib.E{"step": 0, "a": "Open", "s": 1, "x": from, "want": "registered or refused"})
		}
		// four more beacons while the stream (if any) is live
		for i := 0; i < 4; i++ {
			if !put() {
				break
			}
		}
		// every live beacon dispatched to the stream has been handed over (or nothing moves any more)
		if !ended {
			want := int(0)
			if from != 0 && from <= h0 {
				want = int(h0-from) + 1
			}
			vlib.Eventually(10*time.Second, func() bool {
				st.mu.Lock()
				defer st.mu.Unlock()
				return st.n >= want+4
			})
		}
		tr.Emit("Quiesce", vlib.E{"parked": [][]any{}, "diverged": false})
		// teardown (after the verdict point): nothing is recorded any more
		st.mu.Lock()
		st.done = true
		st.mu.Unlock()
		quiet = true
		cancel()
		if !ended {
			select {
			case <-done:
			case <-time.After(5 * time.Second):
			}
		}
		sched.Uninstall()
		h.Stop(ctx)
	}
}
