package core

// Overlay test (injected by /verif with `go test -overlay`) for property C10, follow mode.
// Drives the REAL BeaconProcess.StartFollowChain (its chain-hash pinning, its own store
// stack, its SyncManager and its errChan loop) with the gateway's clients replaced by an
// in-memory one whose SyncChain streams are fed by scripted peer behaviours
// (spec/SyncClient.tla: ItemOf).  Same event vocabulary as TestVerifSyncClient of
// internal/chain/beacon, validated by spec/Trace_SyncClient.tla.  Asserts nothing itself.

import (
	"bytes"
	"context"
	"crypto/sha256"
	"encoding/hex"
	"encoding/json"
	"errors"
	"fmt"
	"math/rand"
	"os"
	"os/exec"
	"runtime"
	"strconv"
	"strings"
	"sync"
	"sync/atomic"
	"testing"
	"time"

	clock "github.com/jonboulle/clockwork"
	"google.golang.org/grpc"

	"github.com/drand/drand/v2/common"
	pchain "github.com/drand/drand/v2/common/chain"
	"github.com/drand/drand/v2/common/key"
	dlog "github.com/drand/drand/v2/common/log"
	"github.com/drand/drand/v2/crypto"
	"github.com/drand/drand/v2/internal/chain"
	"github.com/drand/drand/v2/internal/chain/boltdb"
	"github.com/drand/drand/v2/internal/fs"
	"github.com/drand/drand/v2/internal/net"
	"github.com/drand/drand/v2/internal/vlib"
	"github.com/drand/drand/v2/protobuf/drand"
	"github.com/drand/kyber"
	"github.com/drand/kyber/share"
	"github.com/drand/kyber/util/random"
)

const (
	vscChainLen = 8
	vscBeaconID = "vsc-chain"
	vscSelfAddr = "vsc-self:1"
	vscPeriod   = 1 * time.Second // StartFollowChain waits one REAL period before a retry
	vscAttempts = 3               // failed Sync attempts after which a scenario without an honest peer ahead is ended
	vscRetries  = 5               // failed attempts without a single stored beacon that make "no progress" an observation
)

type vscPeerType struct {
	First string `json:"first"`
	Later string `json:"later"`
	K     int    `json:"k"`
	Head  uint64 `json:"head"`
}

type vscScenario struct {
	Name    string        `json:"name"`
	Mode    string        `json:"mode"`
	Chained bool          `json:"chained"`
	Scheme  string        `json:"scheme"`
	Start   uint64        `json:"start"`
	Target  uint64        `json:"target"`
	Peers   []vscPeerType `json:"peers"`
	BadHash bool          `json:"badhash"` // the operator supplies another chain hash than the peers serve
	// Dispatch: instead of following, hand the progress callback of StartFollowChain these rounds, as the
	// callback worker does when they were stored before the cancellation landed
	Dispatch []uint64 `json:"dispatch"`
}

// vscTrace writes every event straight to the file (append, unbuffered): StartFollowChain can
// panic in a worker goroutine (close of a closed channel) and what was seen before must survive.
type vscTrace struct {
	mu  sync.Mutex
	f   *os.File
	seq int
}

func vscOpenTrace(path string) (*vscTrace, error) {
	f, err := os.OpenFile(path, os.O_CREATE|os.O_WRONLY|os.O_APPEND, 0o644)
	if err != nil {
		return nil, err
	}
	return &vscTrace{f: f}, nil
}

func (t *vscTrace) Emit(ev string, fields vlib.E) {
	t.mu.Lock()
	defer t.mu.Unlock()
	t.seq++
	m := map[string]any{"ev": ev, "seq": t.seq}
	for k, v := range fields {
		m[k] = v
	}
	b, err := json.Marshal(m)
	if err != nil {
		panic(err)
	}
	t.f.Write(append(b, '\n'))
}

// vscLogSink receives the process's log lines (it is the logger's output): every failed sync attempt of
// StartFollowChain is announced there, also when the attempt never reached a peer.
type vscLogSink struct{ failed atomic.Int64 }

func (s *vscLogSink) Write(b []byte) (int, error) {
	if bytes.Contains(b, []byte("Error while trying to follow chain")) {
		s.failed.Add(1)
	}
	return len(b), nil
}
func (s *vscLogSink) Sync() error { return nil }

// ---------------------------------------------------------------- fabricated chain

type vscChain struct {
	sch     *crypto.Scheme
	info    *pchain.Info
	pub     kyber.Point
	seed    []byte
	beacons []*common.Beacon
	badSig  [][]byte
	// the operator pinned another chain hash than the one of this chain
	unpinned bool
	// the self-signed chain of a LyingInfo peer: own key and genesis seed, same id / period / genesis time / scheme
	liar *vscChain
}

var vscChains = map[string]*vscChain{}

func vscSign(sch *crypto.Scheme, pri *share.PriPoly, pub *share.PubPoly, msg []byte, t, n int) ([]byte, error) {
	var sigs [][]byte
	for _, s := range pri.Shares(n)[:t] {
		ps, err := sch.ThresholdScheme.Sign(s, msg)
		if err != nil {
			return nil, err
		}
		sigs = append(sigs, ps)
	}
	return sch.ThresholdScheme.Recover(pub, msg, sigs, t, n)
}

func vscGetChain(name string) (*vscChain, error) {
	if c, ok := vscChains[name]; ok {
		return c, nil
	}
	c, err := vscMakeChain(name, "vsc genesis seed ")
	if err != nil {
		return nil, err
	}
	if c.liar, err = vscMakeChain(name, "vsc liar's genesis seed "); err != nil {
		return nil, err
	}
	vscChains[name] = c
	return c, nil
}

func vscMakeChain(name, seedLabel string) (*vscChain, error) {
	sch, err := crypto.SchemeFromName(name)
	if err != nil {
		return nil, err
	}
	const n, t = 3, 2
	mk := func() (*share.PriPoly, *share.PubPoly) {
		pri := share.NewPriPoly(sch.KeyGroup, t, sch.KeyGroup.Scalar().Pick(random.New()), random.New())
		return pri, pri.Commit(sch.KeyGroup.Point().Base())
	}
	pri, pub := mk()
	opri, opub := mk()
	seed := sha256.Sum256([]byte(seedLabel + name))
	c := &vscChain{sch: sch, pub: pub.Commit(), seed: seed[:]}
	c.info = &pchain.Info{PublicKey: pub.Commit(), ID: vscBeaconID, Period: vscPeriod, Scheme: name, GenesisTime: 1000, GenesisSeed: seed[:]}
	c.beacons = []*common.Beacon{chain.GenesisBeacon(seed[:])}
	c.badSig = [][]byte{nil}
	for r := uint64(1); r <= vscChainLen; r++ {
		b := &common.Beacon{Round: r}
		if name == crypto.DefaultSchemeID {
			b.PreviousSig = c.beacons[r-1].Signature
		}
		msg := sch.DigestBeacon(b)
		if b.Signature, err = vscSign(sch, pri, pub, msg, t, n); err != nil {
			return nil, err
		}
		bad, err := vscSign(sch, opri, opub, msg, t, n)
		if err != nil {
			return nil, err
		}
		c.beacons = append(c.beacons, b)
		c.badSig = append(c.badSig, bad)
	}
	return c, nil
}

func (c *vscChain) verifies(b *common.Beacon) bool {
	if b == nil || c.unpinned {
		return false // nothing verifies against a chain hash that no served chain information matches
	}
	if b.Round == 0 {
		return bytes.Equal(b.Signature, c.seed)
	}
	sch, err := crypto.SchemeFromName(c.sch.Name)
	if err != nil {
		return false
	}
	cp := &common.Beacon{Round: b.Round, Signature: b.Signature, PreviousSig: b.PreviousSig}
	if c.sch.Name != crypto.DefaultSchemeID {
		cp.PreviousSig = nil
	}
	return sch.VerifyBeacon(cp, c.pub) == nil
}

func (c *vscChain) clone(r uint64) *common.Beacon {
	b := c.beacons[r]
	return &common.Beacon{Round: b.Round, Signature: append([]byte{}, b.Signature...), PreviousSig: append([]byte{}, b.PreviousSig...)}
}

func vscDigest(b []byte) string {
	if len(b) == 0 {
		return "-"
	}
	h := sha256.Sum256(b)
	return hex.EncodeToString(h[:4])
}

func vscGoID() int64 {
	var buf [64]byte
	n := runtime.Stack(buf[:], false)
	s := strings.TrimPrefix(string(buf[:n]), "goroutine ")
	if i := strings.IndexByte(s, ' '); i > 0 {
		id, _ := strconv.ParseInt(s[:i], 10, 64)
		return id
	}
	return -1
}

// goroutines executing SyncManager code: total, not parked in the select of tryNode/Run;
// nilSend: the goroutine of StartFollowChain that delivers Sync's result is blocked for
// ever on a nil channel.
func vscSyncGoroutines() (total, busy int, nilSend int, dump string) {
	buf := make([]byte, 1<<20)
	n := runtime.Stack(buf, true)
	dump = string(buf[:n])
	for _, blk := range strings.Split(dump, "\n\n") {
		lines := strings.Split(blk, "\n")
		if len(lines) < 2 {
			continue
		}
		state := ""
		if i, j := strings.IndexByte(lines[0], '['), strings.IndexByte(lines[0], ']'); i >= 0 && j > i {
			state = strings.Split(lines[0][i+1:j], ",")[0]
		}
		if strings.Contains(blk, "(*BeaconProcess).StartFollowChain.func") && strings.HasPrefix(state, "chan send (nil chan)") {
			nilSend++ // such goroutines are never collected: callers compare with the count at scenario start
		}
		if !strings.Contains(blk, "beacon.(*SyncManager).") {
			continue
		}
		total++
		inner := lines[1]
		parked := state == "select" &&
			(strings.Contains(inner, "beacon.(*SyncManager).tryNode(") || strings.Contains(inner, "beacon.(*SyncManager).Run("))
		if !parked {
			busy++
		}
	}
	return
}

// ---------------------------------------------------------------- streams

type vscItem struct {
	t     string
	round uint64
	pkt   *drand.BeaconPacket
}

type vscStream struct {
	sid     int
	peer    int
	kind    string
	from    uint64
	items   []vscItem
	end     string
	ctx     context.Context
	ch      chan *drand.BeaconPacket
	mu      sync.Mutex
	emitted []bool
	state   string
	recvd   int
	// pending put attempt, resolved by reading the store back at the reader's next step
	pendRound uint64
	pendHb    int64
	pending   bool
}

type vscHarness struct {
	t        *testing.T
	tr       *vscTrace
	sc       vscScenario
	ch       *vscChain
	bp       *BeaconProcess
	mu       sync.Mutex
	calls    map[int]int
	byGo     map[int64]int
	tasks    map[int64]int
	strs     []*vscStream
	timedOut bool
	sink     *vscLogSink
	failedAtPut atomic.Int64 // failed attempts announced when the last beacon was stored
	nilBase  int // goroutines already stuck on a nil errChan when the scenario started
}

func vscPeerAddr(i int) string { return fmt.Sprintf("vsc-peer-%d:1", i) }

func (h *vscHarness) script(kind string, k int, from uint64, hd uint64) (items []vscItem, end string) {
	if hd > vscChainLen {
		hd = vscChainLen
	}
	mk := func(t string, round uint64) vscItem {
		b := h.ch.clone(round)
		id := vscBeaconID
		switch t {
		case "badsig":
			b.Signature = append([]byte{}, h.ch.badSig[round]...)
		case "foreign":
			id = "vsc-other-chain"
		}
		return vscItem{t: t, round: round, pkt: &drand.BeaconPacket{PreviousSignature: b.PreviousSig, Round: b.Round,
			Signature: b.Signature, Metadata: &drand.Metadata{BeaconID: id}}}
	}
	if from > hd || from == 0 {
		return nil, "close"
	}
	for pos := 0; ; pos++ {
		r := from + uint64(pos)
		switch kind {
		case "LyingInfo": // the peer's own self-signed chain
			if r > hd {
				return items, "block"
			}
			b := h.ch.liar.clone(r)
			items = append(items, vscItem{t: "forged", round: r, pkt: &drand.BeaconPacket{PreviousSignature: b.PreviousSig, Round: b.Round,
				Signature: b.Signature, Metadata: &drand.Metadata{BeaconID: vscBeaconID}}})
		case "Honest":
			if r > hd {
				return items, "block"
			}
			items = append(items, mk("good", r))
		case "Stall":
			if pos >= k || r > hd {
				return items, "block"
			}
			items = append(items, mk("good", r))
		case "CloseEarly":
			if pos >= k || r > hd {
				return items, "close"
			}
			items = append(items, mk("good", r))
		case "BadSig", "ForeignId":
			if r > hd {
				return items, "block"
			}
			switch {
			case pos == k && kind == "BadSig":
				items = append(items, mk("badsig", r))
			case pos == k:
				items = append(items, mk("foreign", r))
			default:
				items = append(items, mk("good", r))
			}
		case "WrongRound":
			if pos < k {
				if r > hd {
					return items, "block"
				}
				items = append(items, mk("good", r))
			} else {
				if r+1 > hd {
					return items, "block"
				}
				if pos == k {
					items = append(items, mk("wrong", r+1))
				} else {
					items = append(items, mk("good", r+1))
				}
			}
		default:
			return nil, "close"
		}
	}
}

type vscClient struct{ h *vscHarness }

var _ net.ProtocolClient = (*vscClient)(nil)
var _ net.PublicClient = (*vscClient)(nil)

func (c *vscClient) GetIdentity(context.Context, net.Peer, *drand.IdentityRequest, ...net.CallOption) (*drand.IdentityResponse, error) {
	return nil, errors.New("vsc: not implemented")
}
func (c *vscClient) PartialBeacon(context.Context, net.Peer, *drand.PartialBeaconPacket, ...net.CallOption) error {
	return nil
}
func (c *vscClient) Status(context.Context, net.Peer, *drand.StatusRequest, ...grpc.CallOption) (*drand.StatusResponse, error) {
	return nil, errors.New("vsc: not implemented")
}
func (c *vscClient) Check(context.Context, net.Peer) error { return nil }
func (c *vscClient) PublicRandStream(context.Context, net.Peer, *drand.PublicRandRequest, ...net.CallOption) (chan *drand.PublicRandResponse, error) {
	return nil, errors.New("vsc: not implemented")
}
func (c *vscClient) PublicRand(context.Context, net.Peer, *drand.PublicRandRequest) (*drand.PublicRandResponse, error) {
	return nil, errors.New("vsc: not implemented")
}
func (c *vscClient) ListBeaconIDs(context.Context, net.Peer) (*drand.ListBeaconIDsResponse, error) {
	return nil, errors.New("vsc: not implemented")
}
func (c *vscClient) ChainInfo(_ context.Context, p net.Peer, _ *drand.ChainInfoRequest) (*drand.ChainInfoPacket, error) {
	lying := false
	for i, pt := range c.h.sc.Peers {
		if vscPeerAddr(i+1) == p.Address() && pt.First == "LyingInfo" {
			lying = true
		}
	}
	c.h.tr.Emit("Progress", vlib.E{"what": "chaininfo", "peer": p.Address(), "lying": lying})
	if lying {
		// own public key and genesis seed, but the hash FIELD copied from the genuine chain
		pkt := c.h.ch.liar.info.ToProto(nil)
		pkt.Hash = c.h.ch.info.Hash()
		return pkt, nil
	}
	return c.h.ch.info.ToProto(nil), nil
}

func (c *vscClient) SyncChain(ctx context.Context, p net.Peer, in *drand.SyncRequest, _ ...net.CallOption) (chan *drand.BeaconPacket, error) {
	h := c.h
	g := vscGoID()
	idx := 0
	for i := range h.sc.Peers {
		if vscPeerAddr(i+1) == p.Address() {
			idx = i + 1
		}
	}
	h.mu.Lock()
	if _, ok := h.tasks[g]; !ok {
		h.tasks[g] = len(h.tasks) + 1
	}
	task := h.tasks[g]
	// the reader moved on to another peer: settle what it did with the previous stream's last item
	if prev, ok := h.byGo[g]; ok {
		pst := h.strs[prev-1]
		h.mu.Unlock()
		h.resolve(pst)
		h.mu.Lock()
	}
	sid := len(h.strs) + 1
	reqid := in.GetMetadata().GetBeaconID() == vscBeaconID
	if idx == 0 {
		h.strs = append(h.strs, &vscStream{sid: sid, state: "gone"})
		h.mu.Unlock()
		h.tr.Emit("Open", vlib.E{"sid": sid, "task": task, "peer": 0, "from": in.GetFromRound(), "kind": "Self", "res": "err", "reqid": reqid})
		return nil, errors.New("vsc: no such peer")
	}
	pt := h.sc.Peers[idx-1]
	kind := pt.First
	if h.calls[idx] > 0 {
		kind = pt.Later
	}
	h.calls[idx]++
	st := &vscStream{sid: sid, peer: idx, kind: kind, from: in.GetFromRound(), ctx: ctx, state: "offering"}
	if kind == "Silent" {
		st.state = "gone"
		h.strs = append(h.strs, st)
		h.mu.Unlock()
		h.tr.Emit("Open", vlib.E{"sid": sid, "task": task, "peer": idx, "from": st.from, "kind": kind, "res": "err", "reqid": reqid})
		return nil, errors.New("vsc: peer unreachable")
	}
	st.items, st.end = h.script(kind, pt.K, st.from, pt.Head)
	st.emitted = make([]bool, len(st.items))
	st.ch = make(chan *drand.BeaconPacket)
	h.strs = append(h.strs, st)
	h.byGo[g] = sid
	h.mu.Unlock()
	h.tr.Emit("Open", vlib.E{"sid": sid, "task": task, "peer": idx, "from": st.from, "kind": kind, "res": "ok", "reqid": reqid})
	go h.feed(st)
	return st.ch, nil
}

// resolve turns a pending put attempt into a Put observation by reading the store back.
func (h *vscHarness) resolve(st *vscStream) {
	st.mu.Lock()
	defer st.mu.Unlock()
	h.resolveLocked(st)
}

func (h *vscHarness) resolveLocked(st *vscStream) {
	if !st.pending {
		return
	}
	st.pending = false
	db := h.bp.dbStore
	if db == nil {
		return
	}
	b, err := db.Get(context.Background(), st.pendRound)
	if err != nil {
		return // the stack refused the beacon: nothing reached the store
	}
	full := h.withPrev(b)
	same := st.pendRound <= vscChainLen && bytes.Equal(b.Signature, h.ch.beacons[st.pendRound].Signature)
	h.failedAtPut.Store(h.sink.failed.Load())
	h.tr.Emit("Put", vlib.E{"sid": st.sid, "round": st.pendRound, "verifies": h.ch.verifies(full), "same": same, "hb": st.pendHb,
		"res": "ok", "sig": vscDigest(b.Signature), "observed": "read-back"})
}

func (h *vscHarness) withPrev(b *common.Beacon) *common.Beacon {
	if h.sc.Chained && b.Round > 0 && len(b.PreviousSig) == 0 {
		nb := &common.Beacon{Round: b.Round, Signature: b.Signature}
		if p, err := h.bp.dbStore.Get(context.Background(), b.Round-1); err == nil {
			nb.PreviousSig = p.Signature
		}
		return nb
	}
	return b
}

func (h *vscHarness) ensureRecv(st *vscStream, j int) {
	st.mu.Lock()
	defer st.mu.Unlock()
	if j < 0 || j >= len(st.items) || st.emitted[j] {
		return
	}
	h.resolveLocked(st) // the reader took item j, so it is done with item j-1
	st.emitted[j] = true
	st.recvd = j + 1
	it := st.items[j]
	h.tr.Emit("Recv", vlib.E{"sid": st.sid, "j": j, "t": it.t, "round": it.round})
}

func (st *vscStream) indexOfRound(round uint64) int {
	for j, it := range st.items {
		if it.round == round {
			return j
		}
	}
	return -1
}

func (h *vscHarness) setState(st *vscStream, s string) {
	st.mu.Lock()
	st.state = s
	st.mu.Unlock()
}

func (h *vscHarness) feed(st *vscStream) {
	for j, it := range st.items {
		select {
		case st.ch <- it.pkt:
			h.ensureRecv(st, j)
		case <-st.ctx.Done():
			h.resolve(st)
			h.tr.Emit("CtxDone", vlib.E{"sid": st.sid, "recvd": st.recvd})
			h.setState(st, "gone")
			return
		}
	}
	if st.end == "close" {
		close(st.ch)
		h.setState(st, "waiting")
		<-st.ctx.Done()
		h.resolve(st)
		h.tr.Emit("Close", vlib.E{"sid": st.sid, "recvd": st.recvd})
		h.setState(st, "gone")
		return
	}
	h.setState(st, "waiting")
	<-st.ctx.Done()
	h.resolve(st)
	h.tr.Emit("CtxDone", vlib.E{"sid": st.sid, "recvd": st.recvd})
	h.setState(st, "gone")
}

func (h *vscHarness) streamOfGo(g int64) *vscStream {
	h.mu.Lock()
	defer h.mu.Unlock()
	if sid, ok := h.byGo[g]; ok && sid >= 1 && sid <= len(h.strs) {
		return h.strs[sid-1]
	}
	return nil
}

// ---------------------------------------------------------------- control stream

type vscFollowStream struct {
	grpc.ServerStream
	ctx context.Context
	h   *vscHarness
}

func (s *vscFollowStream) Context() context.Context { return s.ctx }
func (s *vscFollowStream) Send(p *drand.SyncProgress) error {
	// the progress callback runs after the Put and before StartFollowChain can return and close its
	// store: read the store back now for the put attempt of that round
	s.h.mu.Lock()
	strs := append([]*vscStream{}, s.h.strs...)
	s.h.mu.Unlock()
	for _, st := range strs {
		st.mu.Lock()
		if st.pending && st.pendRound == p.GetCurrent() {
			s.h.resolveLocked(st)
		}
		st.mu.Unlock()
	}
	s.h.tr.Emit("Progress", vlib.E{"what": "send", "current": p.GetCurrent(), "target": p.GetTarget()})
	return nil
}

// ---------------------------------------------------------------- scenario

func (h *vscHarness) settle(ret chan error, returned *bool, rerr *string) bool {
	deadline := time.Now().Add(45 * time.Second) // generous: a retry costs one real period
	okRuns := 0
	for time.Now().Before(deadline) {
		if !*returned {
			select {
			case err := <-ret:
				*returned = true
				switch {
				case err == nil:
					*rerr = "nil"
				case errors.Is(err, context.Canceled):
					*rerr = "ctx"
				default:
					*rerr = "other:" + err.Error()
				}
			default:
			}
		}
		q := true
		h.mu.Lock()
		for _, st := range h.strs {
			st.mu.Lock()
			if st.state == "offering" {
				q = false
			}
			st.mu.Unlock()
		}
		h.mu.Unlock()
		if q {
			total, busy, nilSend, _ := vscSyncGoroutines()
			// quiescent: StartFollowChain returned, or its Sync is parked on a silent stream (Run + tryNode),
			// or Sync returned and its result is stuck on a nil errChan (code before fix F3), or the
			// follower is between two attempts after vscAttempts failed ones (only Run is left)
			// (vscRetries failed attempts in a row without a stored beacon when an honest peer is ahead)
			h.mu.Lock()
			attempts := len(h.tasks)
			h.mu.Unlock()
			need := int64(vscRetries)
			if !h.honestAhead() {
				need = vscAttempts
			}
			enough := h.sinceProgress() >= need || (!h.honestAhead() && attempts >= vscAttempts)
			q = busy == 0 && (*returned || total >= 2 || nilSend > h.nilBase || (enough && total == 1))
		}
		if q {
			okRuns++
			if okRuns >= 3 {
				return true
			}
		} else {
			okRuns = 0
		}
		time.Sleep(300 * time.Microsecond)
	}
	_, _, _, dump := vscSyncGoroutines()
	if len(dump) > 2500 {
		dump = dump[:2500]
	}
	h.timedOut = true
	h.tr.Emit("Timeout", vlib.E{"what": "settle", "dump": dump})
	return false
}

func (h *vscHarness) sinceProgress() int64 { return h.sink.failed.Load() - h.failedAtPut.Load() }

// an honest (possibly after a first transient failure) peer whose head reaches the goal of the request
func (h *vscHarness) honestAhead() bool {
	goal := h.sc.Target
	if goal == 0 {
		for _, p := range h.sc.Peers {
			if p.Later == "Honest" && p.Head > goal {
				goal = p.Head
			}
		}
	}
	for _, p := range h.sc.Peers {
		if p.Later == "Honest" && goal > 0 && p.Head >= goal {
			return true
		}
	}
	return false
}

func vscTempDir(t *testing.T) string {
	for _, base := range []string{"/dev/shm", ""} {
		if d, err := os.MkdirTemp(base, "vsc-follow-"); err == nil {
			t.Cleanup(func() { os.RemoveAll(d) })
			return d
		}
	}
	return t.TempDir()
}

func vscRunFollow(t *testing.T, tr *vscTrace, sc vscScenario, seed int64) {
	name := sc.Scheme
	if name == "" {
		name = crypto.UnchainedSchemeID
		if sc.Chained {
			name = crypto.DefaultSchemeID
		}
	}
	ch, err := vscGetChain(name)
	if err != nil {
		t.Fatalf("vsc: chain: %v", err)
	}
	sc.Chained = name == crypto.DefaultSchemeID
	if sc.BadHash {
		cp := *ch
		cp.unpinned = true
		ch = &cp
	}
	h := &vscHarness{t: t, tr: tr, sc: sc, ch: ch, calls: map[int]int{}, byGo: map[int64]int{}, tasks: map[int64]int{}}
	rand.Seed(seed) //nolint
	h.sink = &vscLogSink{}
	lg := dlog.New(h.sink, dlog.ErrorLevel, true)
	peers := [][]any{}
	for _, p := range sc.Peers {
		peers = append(peers, []any{p.First, p.Later, p.K, p.Head})
	}
	tr.Emit("Reset", vlib.E{"scenario": sc.Name, "mode": "follow", "chained": sc.Chained, "scheme": name, "start": sc.Start,
		"target": sc.Target, "maxr": vscChainLen, "peers": peers, "corrupt": [][]any{}, "budget": 0, "harness": "core"})

	clk := clock.NewFakeClockAt(time.Unix(ch.info.GenesisTime, 0).Add(vscPeriod * (vscChainLen + 2)))
	folder := vscTempDir(t)
	cfg := NewConfig(lg, WithConfigFolder(folder), WithDBStorageEngine(chain.BoltDB))
	cfg.clock = clk
	pair, err := key.NewKeyPair(vscSelfAddr, ch.sch)
	if err != nil {
		t.Fatalf("vsc: keypair: %v", err)
	}
	client := &vscClient{h: h}
	bp := &BeaconProcess{opts: cfg, priv: pair, beaconID: vscBeaconID, log: lg, version: common.GetAppVersion(),
		privGateway: &net.PrivateGateway{ProtocolClient: client, PublicClient: client}, exitCh: make(chan bool, 1)}
	h.bp = bp
	_, _, h.nilBase, _ = vscSyncGoroutines()

	// a follower that was stopped at height `start`: its database already holds 0..start
	if sc.Start > 0 {
		dbPath := cfg.DBFolder(vscBeaconID)
		fs.CreateSecureFolder(dbPath)
		pre, err := boltdb.NewBoltStore(context.Background(), lg, dbPath)
		if err != nil {
			t.Fatalf("vsc: preload: %v", err)
		}
		for r := uint64(0); r <= sc.Start; r++ {
			if err := pre.Put(context.Background(), ch.clone(r)); err != nil {
				t.Fatalf("vsc: preload: %v", err)
			}
		}
		pre.Close()
	}

	sched := vlib.NewSched()
	defer sched.Uninstall()
	sched.OnPoint("sync.beforePut", func(args []any) {
		st := h.streamOfGo(vscGoID())
		if st == nil || len(args) < 2 {
			return
		}
		round, _ := args[1].(uint64)
		h.ensureRecv(st, st.indexOfRound(round))
		hb := int64(-1)
		if bp.dbStore != nil {
			if l, err := bp.dbStore.Last(context.Background()); err == nil {
				hb = int64(l.Round)
			}
		}
		st.mu.Lock()
		st.pending, st.pendRound, st.pendHb = true, round, hb
		st.mu.Unlock()
		tr.Emit("BeforePut", vlib.E{"sid": st.sid, "round": round})
	})

	if len(sc.Dispatch) > 0 {
		// the real progress callback, driven as the callback worker drives it
		ctx, cancel := context.WithCancel(context.Background())
		cb, _ := bp.sendProgressCallback(ctx, &vscFollowStream{ctx: ctx, h: h}, sc.Target, ch.info, clk)
		for _, r := range sc.Dispatch {
			tr.Emit("Progress", vlib.E{"what": "dispatch", "round": r})
			cb(ch.clone(r), false)
		}
		cancel()
		tr.Emit("End", vlib.E{"head": -1, "rounds": [][]any{}, "ticks": 0, "returned": true, "ret": "dispatch", "quiescent": false,
			"blocked": [][]any{}, "liveness": false, "attempts": 0})
		sched.Uninstall()
		return
	}
	nodes := []string{vscSelfAddr}
	for i := range sc.Peers {
		nodes = append(nodes, vscPeerAddr(i+1))
	}
	hash := ch.info.Hash()
	if sc.BadHash {
		hash = append([]byte{}, hash...)
		hash[0] ^= 0xff
	}
	req := &drand.StartSyncRequest{Nodes: nodes, UpTo: sc.Target, Metadata: &drand.Metadata{BeaconID: vscBeaconID, ChainHash: hash}}
	ctx, cancel := context.WithCancel(context.Background())
	stream := &vscFollowStream{ctx: ctx, h: h}
	ret := make(chan error, 1)
	go func() { ret <- bp.StartFollowChain(ctx, req, stream) }()

	returned, rerr := false, ""
	ok := h.settle(ret, &returned, &rerr)
	opens := func() int { h.mu.Lock(); defer h.mu.Unlock(); return len(h.strs) }
	before := opens()
	if ok && !returned {
		// nothing is scheduled any more: let (fake and a little real) time pass and look again
		for i := 0; i < 6; i++ {
			clk.Advance(vscPeriod)
			time.Sleep(5 * time.Millisecond)
		}
		ok = h.settle(ret, &returned, &rerr)
	}
	_, _, nilCnt, _ := vscSyncGoroutines()
	nilSend := nilCnt > h.nilBase
	// final store, read through the process's own handle
	head := int64(-1)
	rounds := [][]any{}
	h.mu.Lock()
	for _, st := range h.strs {
		st.mu.Lock()
		h.resolveLocked(st)
		st.mu.Unlock()
	}
	h.mu.Unlock()
	snap := func(db chain.Store) {
		if l, err := db.Last(context.Background()); err == nil {
			head = int64(l.Round)
		}
		for r := uint64(0); r <= vscChainLen; r++ {
			b, err := db.Get(context.Background(), r)
			switch {
			case err != nil:
				rounds = append(rounds, []any{r, "none", "-"})
			case h.ch.verifies(h.withPrev(b)):
				rounds = append(rounds, []any{r, "ok", vscDigest(b.Signature)})
			default:
				rounds = append(rounds, []any{r, "bad", vscDigest(b.Signature)})
			}
		}
	}
	blocked := [][]any{}
	h.mu.Lock()
	for _, st := range h.strs {
		st.mu.Lock()
		if st.state == "waiting" && st.end == "block" {
			blocked = append(blocked, []any{st.sid, st.peer, st.kind})
		}
		st.mu.Unlock()
	}
	h.mu.Unlock()
	// stop the follower (it closes its store when it returns), then read the database as an outside reader
	followReturned := returned
	attempts := func() int { h.mu.Lock(); defer h.mu.Unlock(); return len(h.tasks) }()
	cancel()
	if !returned {
		select {
		case <-ret:
			returned = true
		case <-time.After(5 * time.Second):
			h.timedOut = true
			tr.Emit("Timeout", vlib.E{"what": "StartFollowChain did not return after cancel"})
		}
	}
	if returned {
		if db, err := boltdb.NewBoltStore(context.Background(), lg, cfg.DBFolder(vscBeaconID)); err == nil {
			bp.dbStore = db
			snap(db)
			db.Close()
		}
	}
	// `returned` of the End event = the last Sync attempt is over; ret tells how
	retClass := rerr
	switch {
	case !followReturned && nilSend:
		retClass = "sync-returned-errchan-nil"
	case !followReturned && len(blocked) == 0 && h.sinceProgress() >= vscRetries:
		retClass = "retries-without-progress"
	case !followReturned && len(blocked) == 0:
		retClass = "still-failing-after-retries"
	}
	tr.Emit("End", vlib.E{"head": head, "rounds": rounds, "ticks": 6, "returned": followReturned || len(blocked) == 0, "ret": retClass,
		"quiescent": ok && !h.timedOut, "blocked": blocked, "liveness": !h.timedOut && !sc.BadHash, "opens": before, "opens_after": opens(),
		"follow_returned": followReturned, "attempts": attempts, "failed_attempts": h.sink.failed.Load(),
		"attempts_since_progress": h.sinceProgress(), "honest_ahead": h.honestAhead()})
	sched.Uninstall()
	vlib.Eventually(5*time.Second, func() bool { n, _, _, _ := vscSyncGoroutines(); return n == 0 })
	vlib.Eventually(2*time.Second, func() bool {
		h.mu.Lock()
		defer h.mu.Unlock()
		for _, st := range h.strs {
			st.mu.Lock()
			s := st.state
			st.mu.Unlock()
			if s != "gone" {
				return false
			}
		}
		return true
	})
}

func vscPT(first, later string, k int, head uint64) vscPeerType {
	return vscPeerType{First: first, Later: later, K: k, Head: head}
}

func vscFollowBuiltin() []vscScenario {
	H := func(hd uint64) vscPeerType { return vscPT("Honest", "Honest", 0, hd) }
	var out []vscScenario
	for _, chained := range []bool{true, false} {
		c := "u"
		if chained {
			c = "c"
		}
		out = append(out,
			vscScenario{Name: "follow-honest-" + c, Chained: chained, Start: 0, Target: 4, Peers: []vscPeerType{H(6), H(6), H(6)}},
			vscScenario{Name: "follow-resume-" + c, Chained: chained, Start: 2, Target: 5, Peers: []vscPeerType{H(6), H(6), H(6)}},
			vscScenario{Name: "follow-liars-" + c, Chained: chained, Start: 0, Target: 4,
				Peers: []vscPeerType{vscPT("BadSig", "BadSig", 1, 6), vscPT("ForeignId", "ForeignId", 0, 6), H(6)}},
			vscScenario{Name: "follow-wrong-" + c, Chained: chained, Start: 1, Target: 5,
				Peers: []vscPeerType{vscPT("WrongRound", "WrongRound", 1, 6), vscPT("WrongRound", "WrongRound", 0, 6), vscPT("WrongRound", "WrongRound", 1, 6)}},
			vscScenario{Name: "follow-transient-" + c, Chained: chained, Start: 0, Target: 3,
				Peers: []vscPeerType{vscPT("CloseEarly", "Honest", 1, 6), vscPT("CloseEarly", "Honest", 0, 6), vscPT("Silent", "Honest", 0, 6)}},
			vscScenario{Name: "follow-stall-" + c, Chained: chained, Start: 0, Target: 3,
				Peers: []vscPeerType{vscPT("Stall", "Stall", 1, 6), vscPT("Stall", "Stall", 0, 6), vscPT("Stall", "Stall", 1, 6)}},
			vscScenario{Name: "follow-stall-honest-" + c, Chained: chained, Start: 0, Target: 3,
				Peers: []vscPeerType{vscPT("Stall", "Stall", 1, 6), H(6), vscPT("Stall", "Stall", 0, 6)}},
			vscScenario{Name: "follow-forever-" + c, Chained: chained, Start: 1, Target: 0, Peers: []vscPeerType{H(5), H(5), H(5)}},
			vscScenario{Name: "follow-skip-target-" + c, Chained: chained, Start: 1, Target: 3,
				Peers: []vscPeerType{vscPT("WrongRound", "WrongRound", 1, 8), vscPT("WrongRound", "WrongRound", 1, 8), vscPT("WrongRound", "WrongRound", 1, 8)}},
			vscScenario{Name: "follow-double-dispatch-" + c, Chained: chained, Start: 0, Target: 3, Dispatch: []uint64{3, 4, 5},
				Peers: []vscPeerType{H(6), H(6), H(6)}},
			// the lying peer is listed first: as coded the last decodable chain info wins and its hash is recomputed
			vscScenario{Name: "follow-lying-info-" + c, Chained: chained, Start: 0, Target: 3,
				Peers: []vscPeerType{vscPT("LyingInfo", "LyingInfo", 0, 6), H(6), H(6)}},
			vscScenario{Name: "follow-badhash-" + c, Chained: chained, Start: 0, Target: 3, BadHash: true, Peers: []vscPeerType{H(6), H(6), H(6)}},
		)
	}
	return out
}

func vscLoadScenarios(t *testing.T) []vscScenario {
	var scs []vscScenario
	if in := os.Getenv("VERIF_IN"); in != "" {
		lines, err := vlib.LoadJSONLines(in)
		if err != nil {
			t.Fatal(err)
		}
		for _, l := range lines {
			var s vscScenario
			if err := json.Unmarshal(l, &s); err != nil {
				t.Fatal(err)
			}
			if s.Mode == "follow" {
				scs = append(scs, s)
			}
		}
	}
	if os.Getenv("VERIF_NOBUILTIN") == "" {
		scs = append(scs, vscFollowBuiltin()...)
	}
	return scs
}

// TestVerifFollow runs the scenarios in child processes of this test binary: a scenario that
// makes the real code panic kills only its child; the parent records a Crash event for it and
// continues with the next scenario in a fresh child.
func TestVerifFollow(t *testing.T) {
	out := os.Getenv("VERIF_OUT")
	if out == "" {
		t.Skip("verif harness only")
	}
	seed := int64(vlib.EnvInt("VERIF_SEED", 1))
	scs := vscLoadScenarios(t)
	progress := out + ".progress"
	if os.Getenv("VERIF_CHILD") != "" {
		tr, err := vscOpenTrace(out)
		if err != nil {
			t.Fatal(err)
		}
		for i := vlib.EnvInt("VERIF_FROM", 0); i < len(scs); i++ {
			os.WriteFile(progress, []byte(strconv.Itoa(i)), 0o644) // scenario i is running
			vscRunFollow(t, tr, scs[i], seed*1000+int64(i))
		}
		os.WriteFile(progress, []byte(strconv.Itoa(len(scs))), 0o644)
		return
	}
	os.Remove(out)
	os.Remove(progress)
	parent, err := vscOpenTrace(out)
	if err != nil {
		t.Fatal(err)
	}
	for from := 0; from < len(scs); {
		cmd := exec.Command(os.Args[0], "-test.run", "^TestVerifFollow$", "-test.count=1", "-test.timeout", "600s")
		cmd.Env = append(os.Environ(), "VERIF_CHILD=1", "VERIF_FROM="+strconv.Itoa(from))
		output, err := cmd.CombinedOutput()
		reached := from
		if b, rerr := os.ReadFile(progress); rerr == nil {
			reached, _ = strconv.Atoi(strings.TrimSpace(string(b)))
		}
		if err == nil && reached >= len(scs) {
			break
		}
		// the child died while scenario `reached` was running
		what := "child exited: " + fmt.Sprint(err)
		for _, line := range strings.Split(string(output), "\n") {
			if strings.HasPrefix(line, "panic: ") || strings.HasPrefix(line, "fatal error: ") {
				what = line
				break
			}
		}
		stack := string(output)
		if i := strings.Index(stack, what); i >= 0 {
			stack = stack[i:]
		}
		if len(stack) > 1500 {
			stack = stack[:1500]
		}
		parent.Emit("Crash", vlib.E{"scenario": scs[reached].Name, "what": what, "stack": stack})
		from = reached + 1
	}
	os.Remove(progress)
}
