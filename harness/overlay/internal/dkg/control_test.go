package dkg

// Overlay test (injected by /verif with `go test -overlay`): drives ONE real
// dkg.Process (real bolt DKG store, real BLS signatures, real kyber executions
// against harness-run kyber peers) with scripts produced by TLC from
// spec/DKG.tla (operator commands, gossip packets with any claimed sender and
// signing key, time passing, execution outcome).  After every step it records
// the result of the call and the projection of GetCurrent/GetFinished as an
// ndjson trace that TLC validates against spec/Trace_DKG.tla.  It asserts
// nothing itself: the TLA+ monitors decide C08 and C09.
//
// The `Dkg` oneof variant of GossipPacket is deliberately never sent (F1:
// Process.Packet re-locks d.lock in BroadcastDKG and wedges the process).

import (
	"bytes"
	"context"
	"encoding/hex"
	"encoding/json"
	"fmt"
	"os"
	"path/filepath"
	"sort"
	"sync"
	"testing"
	"time"

	"github.com/BurntSushi/toml"
	"google.golang.org/grpc"
	"google.golang.org/protobuf/types/known/timestamppb"

	"github.com/drand/drand/v2/common/key"
	"github.com/drand/drand/v2/common/log"
	"github.com/drand/drand/v2/crypto"
	"github.com/drand/drand/v2/internal/net"
	"github.com/drand/drand/v2/internal/util"
	"github.com/drand/drand/v2/internal/vlib"
	pdkg "github.com/drand/drand/v2/protobuf/dkg"
	kdkg "github.com/drand/kyber/share/dkg"
	"github.com/drand/kyber/sign/schnorr"
)

const vdkBeacon = "default"

// ---------- script format (= the `x` records of spec/DKG.tla, via ToJson) ----------

type vdkTerms struct {
	Ep   int      `json:"ep"`
	Ldr  string   `json:"ldr"`
	Rem  []string `json:"rem"`
	Join []string `json:"join"`
	Leav []string `json:"leav"`
	Thr  int      `json:"thr"`
	Tmo  int      `json:"tmo"`
	Gt   string   `json:"gt"`
	Seed string   `json:"seed"`
	Sch  string   `json:"sch"`
}

type vdkStep struct {
	K       string    `json:"k"` // cmd | pkt | time | exec | replay
	Cmd     string    `json:"cmd,omitempty"`
	Typ     string    `json:"typ,omitempty"`
	Gf      string    `json:"gf,omitempty"`
	Out     string    `json:"out,omitempty"`
	T       *vdkTerms `json:"t,omitempty"`
	S       *vdkTerms `json:"s,omitempty"`
	Claimed int       `json:"claimed,omitempty"`
	Skey    string    `json:"skey,omitempty"`
	Arg     string    `json:"arg,omitempty"`
	Sarg    string    `json:"sarg,omitempty"`
}

type vdkScript struct {
	Name  string    `json:"name"`
	Me    string    `json:"me"`
	Steps []vdkStep `json:"steps"`
}

type vdkEv struct {
	ev string
	f  vlib.E
}

// ---------- identities ----------

type vdkIDs struct {
	sch   *crypto.Scheme
	addr  map[int]string
	keys  map[string]*key.Pair
	parts map[string]*pdkg.Participant
	order []string
}

var vdkKeyOfPart = map[string]string{"p1": "k1", "p2": "k2", "p3": "k3", "p4": "k4", "p5": "k5",
	"f1": "kf", "f2": "kf", "m2": "kf", "b4": "k4"}
var vdkAddrOfPart = map[string]int{"p1": 1, "p2": 2, "p3": 3, "p4": 4, "p5": 5, "f1": 1, "f2": 2, "m2": 2, "b4": 4, "g3": 3, "uu": 9}

func vdkNewIDs() (*vdkIDs, error) {
	sch, err := crypto.GetSchemeFromEnv()
	if err != nil {
		return nil, err
	}
	ids := &vdkIDs{sch: sch, addr: map[int]string{}, keys: map[string]*key.Pair{}, parts: map[string]*pdkg.Participant{}}
	for i := 1; i <= 5; i++ {
		ids.addr[i] = fmt.Sprintf("node%d.verif.test:%d", i, 4400+i)
	}
	ids.addr[9] = "unknown.verif.test:4409"
	mk := func(name string, addr int) error {
		kp, err := key.NewKeyPair(ids.addr[addr], sch)
		if err != nil {
			return err
		}
		ids.keys[name] = kp
		return nil
	}
	for i := 1; i <= 5; i++ {
		if err := mk(fmt.Sprintf("k%d", i), i); err != nil {
			return nil, err
		}
	}
	if err := mk("kf", 5); err != nil {
		return nil, err
	}
	if err := mk("ku", 9); err != nil {
		return nil, err
	}
	pub := func(k string) []byte {
		b, _ := ids.keys[k].Public.Key.MarshalBinary()
		return b
	}
	sig := func(k string) []byte { return append([]byte(nil), ids.keys[k].Public.Signature...) }
	P := func(a int, k, s []byte) *pdkg.Participant {
		return &pdkg.Participant{Address: ids.addr[a], Key: k, Signature: s}
	}
	for i := 1; i <= 5; i++ {
		k := fmt.Sprintf("k%d", i)
		ids.parts[fmt.Sprintf("p%d", i)] = P(i, pub(k), sig(k))
	}
	ids.parts["f1"] = P(1, pub("kf"), sig("kf"))
	ids.parts["f2"] = P(2, pub("kf"), sig("kf"))
	ids.parts["m2"] = P(2, pub("kf"), sig("k2"))
	bad := sig("k4")
	bad[len(bad)/2] ^= 0x5a
	bad[0] ^= 0x01
	ids.parts["b4"] = P(4, pub("k4"), bad)
	// key bytes that are no group element
	garbage := bytes.Repeat([]byte{0xff}, len(pub("k3")))
	if err := sch.KeyGroup.Point().UnmarshalBinary(garbage); err == nil {
		garbage = garbage[:len(garbage)-3]
		if err := sch.KeyGroup.Point().UnmarshalBinary(garbage); err == nil {
			return nil, fmt.Errorf("could not build key bytes that fail to unmarshal")
		}
	}
	ids.parts["g3"] = P(3, garbage, sig("k3"))
	ids.parts["uu"] = P(9, pub("ku"), sig("ku"))
	for k := range ids.parts {
		ids.order = append(ids.order, k)
	}
	sort.Strings(ids.order)
	return ids, nil
}

func (ids *vdkIDs) part(pid string) *pdkg.Participant {
	if pid == "" || pid == "none" {
		return nil
	}
	p, ok := ids.parts[pid]
	if !ok {
		p = ids.parts["uu"]
	}
	// fresh copy: the code under test mutates slices of participants
	return &pdkg.Participant{Address: p.Address, Key: append([]byte(nil), p.Key...), Signature: append([]byte(nil), p.Signature...)}
}

func (ids *vdkIDs) partList(pids []string) []*pdkg.Participant {
	if len(pids) == 0 {
		return nil
	}
	s := append([]string(nil), pids...)
	// canonical order = by address, so that substituting a key under an address keeps the position
	// (messageForSigning iterates the lists in order; permutations are C06's subject)
	sort.Slice(s, func(i, j int) bool {
		ai, aj := vdkAddrOfPart[s[i]], vdkAddrOfPart[s[j]]
		if ai != aj {
			return ai < aj
		}
		return s[i] < s[j]
	})
	out := make([]*pdkg.Participant, 0, len(s))
	for _, p := range s {
		out = append(out, ids.part(p))
	}
	return out
}

// partListRef orders a list the way a tamperer would who keeps the order of the concatenation
// joining ++ remaining ++ leaving of the reference terms (participants are matched by address;
// unknown ones go last, by address).  With ref == nil or equal lists this is the canonical order.
func (ids *vdkIDs) partListRef(pids []string, ref *vdkTerms) []*pdkg.Participant {
	out := ids.partList(pids)
	if ref == nil || len(out) < 2 {
		return out
	}
	pos := map[string]int{}
	n := 0
	for _, l := range [][]string{ref.Join, ref.Rem, ref.Leav} {
		for _, q := range ids.partList(l) {
			if q == nil {
				continue
			}
			if _, ok := pos[q.Address]; !ok {
				pos[q.Address] = n
				n++
			}
		}
	}
	rank := func(q *pdkg.Participant) int {
		if q == nil {
			return 1 << 21
		}
		if r, ok := pos[q.Address]; ok {
			return r
		}
		return 1 << 20
	}
	sort.SliceStable(out, func(i, j int) bool { return rank(out[i]) < rank(out[j]) })
	return out
}

func (ids *vdkIDs) pidOf(p *pdkg.Participant) string {
	if p == nil {
		return "none"
	}
	for _, k := range ids.order {
		if util.EqualParticipant(ids.parts[k], p) {
			return k
		}
	}
	return "uu"
}

func (ids *vdkIDs) pidSet(ps []*pdkg.Participant) []string {
	m := map[string]bool{}
	for _, p := range ps {
		if p != nil {
			m[ids.pidOf(p)] = true
		}
	}
	out := make([]string, 0, len(m))
	for k := range m {
		out = append(out, k)
	}
	sort.Strings(out)
	return out
}

type vdkIdentifier struct{ kp *key.Pair }

func (v vdkIdentifier) KeypairFor(string) (*key.Pair, error) { return v.kp, nil }

// ---------- in-memory DKG "network" of harness-run kyber peers ----------

type vdkBoard struct {
	n     *vdkNet
	addr  string
	deals chan kdkg.DealBundle
	resps chan kdkg.ResponseBundle
	justs chan kdkg.JustificationBundle
	mu    sync.Mutex
	seen  map[string]bool
}

func (b *vdkBoard) PushDeals(d *kdkg.DealBundle)                   { b.n.fromPeer(b, d) }
func (b *vdkBoard) PushResponses(r *kdkg.ResponseBundle)           { b.n.fromPeer(b, r) }
func (b *vdkBoard) PushJustifications(j *kdkg.JustificationBundle) { b.n.fromPeer(b, j) }
func (b *vdkBoard) IncomingDeal() <-chan kdkg.DealBundle           { return b.deals }
func (b *vdkBoard) IncomingResponse() <-chan kdkg.ResponseBundle   { return b.resps }
func (b *vdkBoard) IncomingJustification() <-chan kdkg.JustificationBundle {
	return b.justs
}

func (b *vdkBoard) deliver(p kdkg.Packet) {
	h := fmt.Sprintf("%T/%x", p, p.Hash())
	b.mu.Lock()
	if b.seen[h] {
		b.mu.Unlock()
		return
	}
	b.seen[h] = true
	b.mu.Unlock()
	switch pp := p.(type) {
	case *kdkg.DealBundle:
		select {
		case b.deals <- *pp:
		default:
		}
	case *kdkg.ResponseBundle:
		select {
		case b.resps <- *pp:
		default:
		}
	case *kdkg.JustificationBundle:
		select {
		case b.justs <- *pp:
		default:
		}
	}
}

type vdkNet struct {
	sch    *crypto.Scheme
	mu     sync.Mutex
	boards map[string]*vdkBoard
	node   *Process // may be nil (bare run)
}

func (n *vdkNet) board(addr string) *vdkBoard {
	n.mu.Lock()
	defer n.mu.Unlock()
	b := n.boards[addr]
	if b == nil {
		b = &vdkBoard{n: n, addr: addr, deals: make(chan kdkg.DealBundle, 64), resps: make(chan kdkg.ResponseBundle, 64),
			justs: make(chan kdkg.JustificationBundle, 64), seen: map[string]bool{}}
		n.boards[addr] = b
	}
	return b
}

func (n *vdkNet) fromPeer(src *vdkBoard, p kdkg.Packet) {
	n.mu.Lock()
	bs := make([]*vdkBoard, 0, len(n.boards))
	for _, b := range n.boards {
		bs = append(bs, b)
	}
	node := n.node
	n.mu.Unlock()
	for _, b := range bs {
		b.deliver(p)
	}
	if node != nil {
		proto, err := dkgPacketToProto(p, vdkBeacon)
		if err == nil {
			go func() {
				// the real entry point of the node for DKG bundles
				vlib.Call(10*time.Second, func() {
					_, _ = node.BroadcastDKG(context.Background(), &pdkg.DKGPacket{Dkg: proto})
				})
			}()
		}
	}
}

func (n *vdkNet) fromNode(addr string, in *pdkg.DKGPacket) {
	p, err := protoToDKGPacket(in.GetDkg(), n.sch)
	if err != nil {
		return
	}
	n.mu.Lock()
	b := n.boards[addr]
	n.mu.Unlock()
	if b != nil {
		b.deliver(p)
	}
}

// vdkClient is the net.DKGClient handed to the Process: gossip is swallowed
// (counted), DKG bundles are routed to the harness peers.
type vdkClient struct {
	mu      sync.Mutex
	sch     *crypto.Scheme
	net     *vdkNet
	pending []struct {
		addr string
		in   *pdkg.DKGPacket
	}
	gossip int
}

func (c *vdkClient) Packet(_ context.Context, _ net.Peer, _ *pdkg.GossipPacket, _ ...grpc.CallOption) (*pdkg.EmptyDKGResponse, error) {
	c.mu.Lock()
	c.gossip++
	c.mu.Unlock()
	return &pdkg.EmptyDKGResponse{}, nil
}

func (c *vdkClient) BroadcastDKG(_ context.Context, p net.Peer, in *pdkg.DKGPacket, _ ...grpc.CallOption) (*pdkg.EmptyDKGResponse, error) {
	c.mu.Lock()
	n := c.net
	if n == nil {
		c.pending = append(c.pending, struct {
			addr string
			in   *pdkg.DKGPacket
		}{p.Address(), in})
	}
	c.mu.Unlock()
	if n != nil {
		n.fromNode(p.Address(), in)
	}
	return &pdkg.EmptyDKGResponse{}, nil
}

func (c *vdkClient) attach(n *vdkNet) {
	c.mu.Lock()
	c.net = n
	pend := c.pending
	c.pending = nil
	c.mu.Unlock()
	for _, x := range pend {
		n.fromNode(x.addr, x.in)
	}
}

func (c *vdkClient) detach() {
	c.mu.Lock()
	c.net = nil
	c.pending = nil
	c.mu.Unlock()
}

// one kyber run description
type vdkRun struct {
	epoch     uint32
	threshold int
	newParts  []*pdkg.Participant // will be sorted by public key
	prev      *key.Group          // nil for an initial DKG
	prevShare map[string]*kdkg.DistKeyShare
}

type vdkPeerResult struct {
	pid string
	res *kdkg.Result
	err error
}

// vdkStartPeers starts a bare kyber protocol instance for every participant of
// the run except `skip` (the node under test). Returns a collector.
func vdkStartPeers(ids *vdkIDs, n *vdkNet, run vdkRun, skip string, phase time.Duration) func(wait time.Duration) []vdkPeerResult {
	sch := ids.sch
	suite := sch.KeyGroup.(kdkg.Suite)
	sorted := util.SortedByPublicKey(append([]*pdkg.Participant(nil), run.newParts...))
	newNodes := make([]kdkg.Node, 0, len(sorted))
	for i, p := range sorted {
		nd, err := util.ToNode(i, p, sch)
		if err != nil {
			return func(time.Duration) []vdkPeerResult { return nil }
		}
		newNodes = append(newNodes, nd)
	}
	var oldNodes []kdkg.Node
	all := map[string]bool{}
	for _, p := range sorted {
		all[ids.pidOf(p)] = true
	}
	if run.prev != nil {
		oldNodes = run.prev.DKGNodes()
		for _, nd := range run.prev.Nodes {
			pp, err := util.PublicKeyAsParticipant(nd.Identity)
			if err == nil {
				all[ids.pidOf(pp)] = true
			}
		}
	}
	st := &DBState{Epoch: run.epoch}
	type started struct {
		pid string
		pr  *kdkg.Protocol
	}
	var sts []started
	pids := make([]string, 0, len(all))
	for pid := range all {
		pids = append(pids, pid)
	}
	sort.Strings(pids)
	// boards first, so that no early bundle is lost
	for _, pid := range pids {
		if pid == skip || vdkKeyOfPart[pid] == "" {
			continue
		}
		n.board(ids.addr[vdkAddrOfPart[pid]])
	}
	for _, pid := range pids {
		if pid == skip {
			continue
		}
		kn := vdkKeyOfPart[pid]
		if kn == "" {
			continue
		}
		cfg := &kdkg.Config{
			Suite:     suite,
			Longterm:  ids.keys[kn].Key,
			OldNodes:  oldNodes,
			NewNodes:  newNodes,
			Threshold: run.threshold,
			FastSync:  true,
			Nonce:     nonceFor(st),
			Auth:      schnorr.NewScheme(suite),
		}
		if run.prev != nil {
			cfg.PublicCoeffs = run.prev.PublicKey.Coefficients
			cfg.OldThreshold = run.prev.Threshold
			cfg.Share = run.prevShare[pid]
		}
		ph := kdkg.NewTimePhaser(phase)
		pr, err := kdkg.NewProtocol(cfg, n.board(ids.addr[vdkAddrOfPart[pid]]), ph, false)
		if err != nil {
			continue
		}
		go ph.Start()
		sts = append(sts, started{pid, pr})
	}
	return func(wait time.Duration) []vdkPeerResult {
		deadline := time.After(wait)
		var out []vdkPeerResult
		for _, s := range sts {
			select {
			case r := <-s.pr.WaitEnd():
				out = append(out, vdkPeerResult{s.pid, r.Result, r.Error})
			case <-deadline:
				return out
			}
		}
		return out
	}
}

// ---------- fixture: the network's epoch-1 group {p1,p2,p3} for late joiners ----------

type vdkFixture struct {
	g1     time.Time
	group  *key.Group
	shares map[string]*kdkg.DistKeyShare
	gfOK   []byte
	gfBad  []byte
	seedX  []byte
}

func vdkGroupTOML(g *key.Group) ([]byte, error) {
	var b bytes.Buffer
	if err := toml.NewEncoder(&b).Encode(g.TOML()); err != nil {
		return nil, err
	}
	return b.Bytes(), nil
}

func vdkMakeFixture(ids *vdkIDs) (*vdkFixture, error) {
	fx := &vdkFixture{g1: time.Unix(time.Now().Unix()-3600, 0).UTC(), seedX: []byte("verif-other-genesis-seed-xxxxxxx")}
	parts := ids.partList([]string{"p1", "p2", "p3"})
	n := &vdkNet{sch: ids.sch, boards: map[string]*vdkBoard{}}
	collect := vdkStartPeers(ids, n, vdkRun{epoch: 1, threshold: 2, newParts: parts}, "", 2*time.Second)
	res := collect(20 * time.Second)
	fx.shares = map[string]*kdkg.DistKeyShare{}
	var any *kdkg.Result
	for _, r := range res {
		if r.err != nil || r.res == nil {
			return nil, fmt.Errorf("fixture DKG failed for %s: %v", r.pid, r.err)
		}
		fx.shares[r.pid] = r.res.Key
		any = r.res
	}
	if len(fx.shares) != 3 {
		return nil, fmt.Errorf("fixture DKG: %d results", len(fx.shares))
	}
	details := &DBState{BeaconID: vdkBeacon, Epoch: 1, Threshold: 2, SchemeID: ids.sch.Name, GenesisTime: fx.g1,
		CatchupPeriod: time.Second, BeaconPeriod: 3 * time.Second, Joining: parts}
	share := &key.Share{DistKeyShare: *any.Key, Scheme: ids.sch}
	sorted := util.SortedByPublicKey(append([]*pdkg.Participant(nil), parts...))
	var final []kdkg.Node
	for _, q := range any.QUAL {
		nd, err := util.ToNode(int(q.Index), sorted[q.Index], ids.sch)
		if err != nil {
			return nil, err
		}
		final = append(final, nd)
	}
	g, err := asGroup(context.Background(), details, share, final, fx.g1.Unix())
	if err != nil {
		return nil, err
	}
	fx.group = &g
	if fx.gfOK, err = vdkGroupTOML(&g); err != nil {
		return nil, err
	}
	bad := g
	bad.GenesisSeed = fx.seedX
	if fx.gfBad, err = vdkGroupTOML(&bad); err != nil {
		return nil, err
	}
	return fx, nil
}

// ---------- one scenario on fresh objects ----------

type vdkScen struct {
	ids    *vdkIDs
	fx     *vdkFixture
	sc     vdkScript
	me     string
	dir    string
	store  *BoltStore
	proc   *Process
	client *vdkClient
	phase  time.Duration
	short  time.Duration

	tick         int
	deadline     map[int]time.Time // short-timeout label -> instant
	tmoLabel     map[int64]int     // concrete timeout (UnixNano) -> label
	tmoLast      map[int]time.Time
	inst         int
	longBase     time.Time
	seed1        []byte
	seedID       map[string]string
	shares       map[string]map[string]*kdkg.DistKeyShare // hex(group hash) -> pid -> share
	stepIdx      int
	execWas      bool // the last successful execute left the node in Executing
	seenObs      bool
	preObs       *DBState
	preTime      bool
	lastState    Status
	lastEpoch    int
	lastFinEpoch int
	kickoff      time.Time // when the node's own kyber protocol starts (after the last successful execute)
	lastPkt      *pdkg.GossipPacket
	lastX        vlib.E
	execMiss     int
	late         bool
	wedged       bool
	evs          []vdkEv
}

func vdkGroupKey(g *key.Group) string {
	if g == nil {
		return ""
	}
	c := *g
	c.Nodes = append([]*key.Node(nil), g.Nodes...)
	return hex.EncodeToString(c.Hash())
}

func (s *vdkScen) emit(ev string, f vlib.E) { s.evs = append(s.evs, vdkEv{ev, f}) }

func (s *vdkScen) gtime(id string) *timestamppb.Timestamp {
	switch id {
	case "g1":
		return timestamppb.New(s.fx.g1)
	case "gx":
		return timestamppb.New(s.fx.g1.Add(100 * time.Second))
	}
	return timestamppb.New(time.Unix(0, 0))
}

func (s *vdkScen) gtID(t time.Time) string {
	switch {
	case t.IsZero() || t.Unix() == 0:
		return "g0"
	case t.Unix() == s.fx.g1.Unix():
		return "g1"
	case t.Unix() == s.fx.g1.Add(100*time.Second).Unix():
		return "gx"
	}
	return "g?"
}

func (s *vdkScen) seed(id string) []byte {
	switch id {
	case "s1":
		return append([]byte(nil), s.seed1...)
	case "sx":
		return append([]byte(nil), s.fx.seedX...)
	}
	return nil
}

func (s *vdkScen) seedOf(b []byte) string {
	if len(b) == 0 {
		return "none"
	}
	if id, ok := s.seedID[hex.EncodeToString(b)]; ok {
		return id
	}
	return "s?"
}

// learn the network's real genesis seed when the node completes its first epoch
func (s *vdkScen) learnSeed(fin *DBState) {
	if fin == nil || len(fin.GenesisSeed) == 0 {
		return
	}
	h := hex.EncodeToString(fin.GenesisSeed)
	if _, ok := s.seedID[h]; !ok && fin.Epoch == 1 {
		s.seedID[h] = "s1"
		s.seed1 = append([]byte(nil), fin.GenesisSeed...)
	}
}

// shortFor sizes a "short" timeout so that every step the script places before its expiry can
// really run before it (the script is known in advance; wall-clock time is the only clock the code has)
func (s *vdkScen) shortFor(label int) time.Duration {
	d := s.short
	need := label - s.tick
	calls, execs := 0, 0
	for i := s.stepIdx; i < len(s.sc.Steps) && need > 0; i++ {
		switch s.sc.Steps[i].K {
		case "time":
			need--
		case "exec":
			execs++
		default:
			calls++
		}
	}
	if w := 400*time.Millisecond + time.Duration(calls)*40*time.Millisecond + time.Duration(execs)*3500*time.Millisecond; w > d {
		d = w
	}
	return d
}

// newTimeout creates a fresh concrete instant for an abstract timeout label
func (s *vdkScen) newTimeout(label int) time.Time {
	var base time.Time
	now := time.Now()
	switch {
	case label >= 99:
		base = s.longBase
	case label > s.tick:
		d, ok := s.deadline[label]
		if !ok {
			d = now.Add(s.shortFor(label))
			s.deadline[label] = d
		}
		base = d
	default:
		if d, ok := s.deadline[label]; ok && d.Before(now) {
			base = d
		} else {
			base = now.Add(-time.Hour)
		}
	}
	s.inst++
	t := base.Add(time.Duration(s.inst) * time.Microsecond).Truncate(time.Microsecond).UTC()
	s.tmoLabel[t.UnixNano()] = label
	s.tmoLast[label] = t
	return t
}

func (s *vdkScen) tmoID(t time.Time) int {
	if t.Unix() == 0 && t.Nanosecond() == 0 {
		return 0
	}
	if l, ok := s.tmoLabel[t.UnixNano()]; ok {
		return l
	}
	return -1
}

// timeout for terms that an honest party signs about the attempt the node holds
func (s *vdkScen) heldTimeout(label int) time.Time {
	if cur, err := s.store.GetCurrent(vdkBeacon); err == nil && cur != nil {
		if s.tmoID(cur.Timeout) == label {
			return cur.Timeout
		}
	}
	if t, ok := s.tmoLast[label]; ok {
		return t
	}
	return s.newTimeout(label)
}

func (s *vdkScen) terms(t *vdkTerms, tmo time.Time) *pdkg.ProposalTerms {
	return s.termsRef(t, tmo, nil)
}

// termsRef: lists ordered along the concatenated order of ref (see partListRef)
func (s *vdkScen) termsRef(t *vdkTerms, tmo time.Time, ref *vdkTerms) *pdkg.ProposalTerms {
	schName := s.ids.sch.Name
	if t.Sch != "ok" && t.Sch != "" {
		schName = "verif-no-such-scheme"
	}
	return &pdkg.ProposalTerms{
		BeaconID:             vdkBeacon,
		Epoch:                uint32(t.Ep),
		Leader:               s.ids.part(t.Ldr),
		Threshold:            uint32(t.Thr),
		Timeout:              timestamppb.New(tmo),
		CatchupPeriodSeconds: 1,
		BeaconPeriodSeconds:  3,
		SchemeID:             schName,
		GenesisTime:          s.gtime(t.Gt),
		GenesisSeed:          s.seed(t.Seed),
		Joining:              s.ids.partListRef(t.Join, ref),
		Remaining:            s.ids.partListRef(t.Rem, ref),
		Leaving:              s.ids.partListRef(t.Leav, ref),
	}
}

func (s *vdkScen) project(d *DBState) vlib.E {
	if d == nil {
		return vlib.E{"st": "None", "ep": 0, "ldr": "none", "rem": []string{}, "join": []string{}, "leav": []string{},
			"thr": 0, "tmo": 0, "gt": "g0", "seed": "none", "acc": []string{}, "rej": []string{}, "fg": []string{},
			"hasfg": false, "share": false}
	}
	fg := []string{}
	if d.FinalGroup != nil {
		m := map[string]bool{}
		for _, nd := range d.FinalGroup.Nodes {
			pp, err := util.PublicKeyAsParticipant(nd.Identity)
			if err != nil {
				m["uu"] = true
				continue
			}
			m[s.ids.pidOf(pp)] = true
		}
		for k := range m {
			fg = append(fg, k)
		}
		sort.Strings(fg)
	}
	return vlib.E{"st": d.State.String(), "ep": int(d.Epoch), "ldr": s.ids.pidOf(d.Leader),
		"rem": s.ids.pidSet(d.Remaining), "join": s.ids.pidSet(d.Joining), "leav": s.ids.pidSet(d.Leaving),
		"thr": int(d.Threshold), "tmo": s.tmoID(d.Timeout), "gt": s.gtID(d.GenesisTime), "seed": s.seedOf(d.GenesisSeed),
		"acc": s.ids.pidSet(d.Acceptors), "rej": s.ids.pidSet(d.Rejectors), "fg": fg,
		"hasfg": d.FinalGroup != nil, "share": d.KeyShare != nil}
}

func (s *vdkScen) buckets() (cur, fin *DBState, err error) {
	cur, err = s.store.GetCurrent(vdkBeacon)
	if err != nil {
		return
	}
	fin, err = s.store.GetFinished(vdkBeacon)
	if err == nil {
		s.learnSeed(fin)
	}
	return
}

// an execution that ends although the script has not decided its outcome yet = the machine was too
// slow for the kyber phaser: the scenario is repeated with longer phases (or dropped)
func (s *vdkScen) noteSpontaneous(pre *DBState, timeStep bool) {
	s.preObs, s.preTime = pre, timeStep
}

func (s *vdkScen) judgeSpontaneous(cur *DBState) {
	pre, timeStep := s.preObs, s.preTime
	s.preObs = nil
	if pre == nil || pre.State != Executing || cur == nil || cur.State == Executing {
		return
	}
	if timeStep && s.tmoID(pre.Timeout) <= s.tick && cur.State == Failed {
		s.execWas = false
		return // the attempt's timeout passed: the execution legitimately gives up
	}
	s.late = true
}

// between two steps of the script nothing may happen to the buckets (an execution that ends on its
// own, e.g. a single-node group completing without any peer, is not what the script ordered)
func (s *vdkScen) checkQuiet() *DBState {
	cur, fin, _ := s.buckets()
	if s.seenObs && cur != nil {
		fe := -1
		if fin != nil {
			fe = int(fin.Epoch)
		}
		if cur.State != s.lastState || int(cur.Epoch) != s.lastEpoch || fe != s.lastFinEpoch {
			s.late = true
		}
	}
	return cur
}

func (s *vdkScen) observe(f vlib.E) vlib.E {
	cur, fin, err := s.buckets()
	if err != nil {
		f["storeerr"] = err.Error()
	}
	s.judgeSpontaneous(cur)
	if cur != nil {
		s.seenObs, s.lastState, s.lastEpoch, s.lastFinEpoch = true, cur.State, int(cur.Epoch), -1
		if fin != nil {
			s.lastFinEpoch = int(fin.Epoch)
		}
	}
	f["cur"] = s.project(cur)
	f["fin"] = s.project(fin)
	return f
}

func vdkTermsE(t *vdkTerms) vlib.E {
	nz := func(x []string) []string {
		o := make([]string, 0, len(x))
		o = append(o, x...)
		sort.Strings(o)
		return o
	}
	if t == nil {
		t = &vdkTerms{Ldr: "none", Gt: "g0", Seed: "none", Sch: "ok"}
	}
	return vlib.E{"ep": t.Ep, "ldr": t.Ldr, "rem": nz(t.Rem), "join": nz(t.Join), "leav": nz(t.Leav), "thr": t.Thr,
		"tmo": t.Tmo, "gt": t.Gt, "seed": t.Seed, "sch": t.Sch}
}

func vdkResult(cr vlib.CallResult, err error) (string, string) {
	switch {
	case !cr.Returned:
		return "blocked", "call did not return"
	case cr.Panic != "":
		return "panic", cr.Panic
	case err != nil:
		e := err.Error()
		if len(e) > 160 {
			e = e[:160]
		}
		return "err", e
	}
	return "ok", ""
}

func (s *vdkScen) checkLate() {
	// a step that the script places before a short timeout must really run (and finish) before it
	now := time.Now()
	for l, d := range s.deadline {
		if l > s.tick && now.After(d.Add(-100*time.Millisecond)) {
			s.late = true
		}
	}
}

func (s *vdkScen) doCmd(st vdkStep) {
	s.checkLate()
	cmd := &pdkg.DKGCommand{Metadata: &pdkg.CommandMetadata{BeaconID: vdkBeacon}}
	t := st.T
	if t == nil {
		t = &vdkTerms{}
	}
	switch st.Cmd {
	case "initial":
		schName := s.ids.sch.Name
		if t.Sch != "ok" && t.Sch != "" {
			schName = "verif-no-such-scheme"
		}
		cmd.Command = &pdkg.DKGCommand_Initial{Initial: &pdkg.FirstProposalOptions{
			Timeout: timestamppb.New(s.newTimeout(t.Tmo)), Threshold: uint32(t.Thr), PeriodSeconds: 3, Scheme: schName,
			CatchupPeriodSeconds: 1, GenesisTime: s.gtime(t.Gt), Joining: s.ids.partList(t.Join)}}
	case "reshare":
		cmd.Command = &pdkg.DKGCommand_Resharing{Resharing: &pdkg.ProposalOptions{
			Timeout: timestamppb.New(s.newTimeout(t.Tmo)), Threshold: uint32(t.Thr), CatchupPeriodSeconds: 1,
			Joining: s.ids.partList(t.Join), Leaving: s.ids.partList(t.Leav), Remaining: s.ids.partList(t.Rem)}}
	case "join":
		var gf []byte
		switch st.Gf {
		case "ok":
			gf = s.fx.gfOK
		case "bad":
			gf = s.fx.gfBad
		}
		cmd.Command = &pdkg.DKGCommand_Join{Join: &pdkg.JoinOptions{GroupFile: gf}}
	case "accept":
		cmd.Command = &pdkg.DKGCommand_Accept{Accept: &pdkg.AcceptOptions{}}
	case "reject":
		cmd.Command = &pdkg.DKGCommand_Reject{Reject: &pdkg.RejectOptions{}}
	case "execute":
		cmd.Command = &pdkg.DKGCommand_Execute{Execute: &pdkg.ExecutionOptions{}}
	case "abort":
		cmd.Command = &pdkg.DKGCommand_Abort{Abort: &pdkg.AbortOptions{}}
	}
	var err error
	pre := s.checkQuiet()
	cr := vlib.Call(15*time.Second, func() { _, err = s.proc.Command(context.Background(), cmd) })
	res, text := vdkResult(cr, err)
	s.noteSpontaneous(pre, false)
	s.checkLate()
	if !cr.Returned {
		s.wedged = true
	}
	if st.Cmd == "execute" && res == "ok" {
		s.kickoff = time.Now().Add(250 * time.Millisecond)
		if c, _, _ := s.buckets(); c != nil && c.State == Executing {
			s.execWas = true
		}
	}
	gf := st.Gf
	if gf == "" {
		gf = "none"
	}
	x := vlib.E{"k": "cmd", "cmd": st.Cmd, "t": vdkTermsE(st.T), "gf": gf}
	s.emit("Cmd", s.observe(vlib.E{"x": x, "res": res, "err": text}))
}

func (s *vdkScen) buildPacket(st vdkStep) *pdkg.GossipPacket {
	// sent (what arrives) and signed (what the signer saw) contents
	var sent, signed *pdkg.GossipPacket
	var signedTerms *pdkg.ProposalTerms
	S := st.S
	if S == nil {
		S = st.T
	}
	switch st.Typ {
	case "proposal":
		tmoT := s.newTimeout(st.T.Tmo)
		tmoS := tmoT
		if S.Tmo != st.T.Tmo {
			tmoS = s.newTimeout(S.Tmo)
		}
		sent = &pdkg.GossipPacket{Packet: &pdkg.GossipPacket_Proposal{Proposal: s.termsRef(st.T, tmoT, S)}}
		signedTerms = s.terms(S, tmoS)
		signed = &pdkg.GossipPacket{Packet: &pdkg.GossipPacket_Proposal{Proposal: signedTerms}}
	case "accept":
		signedTerms = s.termsRef(S, s.heldTimeout(S.Tmo), st.T)
		sent = &pdkg.GossipPacket{Packet: &pdkg.GossipPacket_Accept{Accept: &pdkg.AcceptProposal{Acceptor: s.ids.part(st.Arg)}}}
		signed = &pdkg.GossipPacket{Packet: &pdkg.GossipPacket_Accept{Accept: &pdkg.AcceptProposal{Acceptor: s.ids.part(st.Sarg)}}}
	case "reject":
		signedTerms = s.termsRef(S, s.heldTimeout(S.Tmo), st.T)
		sent = &pdkg.GossipPacket{Packet: &pdkg.GossipPacket_Reject{Reject: &pdkg.RejectProposal{Rejector: s.ids.part(st.Arg)}}}
		signed = &pdkg.GossipPacket{Packet: &pdkg.GossipPacket_Reject{Reject: &pdkg.RejectProposal{Rejector: s.ids.part(st.Sarg)}}}
	case "execute":
		signedTerms = s.termsRef(S, s.heldTimeout(S.Tmo), st.T)
		s.inst++
		kick := timestamppb.New(time.Now().Add(250*time.Millisecond + time.Duration(s.inst)*time.Microsecond))
		sent = &pdkg.GossipPacket{Packet: &pdkg.GossipPacket_Execute{Execute: &pdkg.StartExecution{Time: kick}}}
		signed = sent
	case "abort":
		signedTerms = s.termsRef(S, s.heldTimeout(S.Tmo), st.T)
		s.inst++
		sent = &pdkg.GossipPacket{Packet: &pdkg.GossipPacket_Abort{Abort: &pdkg.AbortDKG{Reason: fmt.Sprintf("verif-%d", s.inst)}}}
		signed = sent
	}
	kp := s.ids.keys[st.Skey]
	if kp == nil {
		kp = s.ids.keys["ku"]
	}
	// the honest signer's procedure (actions_signing.go:signMessage) with the chosen key
	msg := messageForSigning(vdkBeacon, signed, signedTerms)
	sig, err := s.ids.sch.AuthScheme.Sign(kp.Key, msg)
	if err != nil {
		sig = []byte("unsignable-unsignable")
	}
	addr := s.ids.addr[st.Claimed]
	if addr == "" {
		addr = s.ids.addr[9]
	}
	sent.Metadata = &pdkg.GossipMetadata{BeaconID: vdkBeacon, Address: addr, Signature: sig}
	return sent
}

func (s *vdkScen) sendPacket(p *pdkg.GossipPacket, x vlib.E) {
	s.checkLate()
	dup := s.proc.SeenPackets[hex.EncodeToString(p.Metadata.Signature)]
	var err error
	pre := s.checkQuiet()
	cr := vlib.Call(15*time.Second, func() { _, err = s.proc.Packet(context.Background(), p) })
	res, text := vdkResult(cr, err)
	s.noteSpontaneous(pre, false)
	s.checkLate()
	if !cr.Returned {
		s.wedged = true
	}
	if p.GetExecute() != nil && res == "ok" && !dup {
		s.kickoff = p.GetExecute().GetTime().AsTime()
		if c, _, _ := s.buckets(); c != nil && c.State == Executing {
			s.execWas = true
		}
	}
	s.emit("Pkt", s.observe(vlib.E{"x": x, "res": res, "err": text, "dup": dup}))
}

func (s *vdkScen) doPkt(st vdkStep) {
	p := s.buildPacket(st)
	arg, sarg := st.Arg, st.Sarg
	if arg == "" {
		arg = "none"
	}
	if sarg == "" {
		sarg = "none"
	}
	S := st.S
	if S == nil {
		S = st.T
	}
	x := vlib.E{"k": "pkt", "typ": st.Typ, "t": vdkTermsE(st.T), "s": vdkTermsE(S), "claimed": st.Claimed, "skey": st.Skey,
		"arg": arg, "sarg": sarg}
	s.lastPkt, s.lastX = p, x
	s.sendPacket(p, x)
}

func (s *vdkScen) doTime() {
	// wait until every short timeout issued so far (label <= tick+1) has passed
	pre := s.checkQuiet()
	s.tick++
	var until time.Time
	for l, d := range s.deadline {
		if l <= s.tick && d.After(until) {
			until = d
		}
	}
	if w := time.Until(until.Add(60 * time.Millisecond)); w > 0 {
		time.Sleep(w)
	}
	// a running execution whose attempt timed out stores Failed by itself
	cur, _, _ := s.buckets()
	if cur != nil && cur.State == Executing && s.tmoID(cur.Timeout) <= s.tick {
		vlib.Eventually(25*time.Second, func() bool {
			c, _, _ := s.buckets()
			return c == nil || c.State != Executing
		})
	} else {
		time.Sleep(20 * time.Millisecond)
	}
	s.noteSpontaneous(pre, true)
	s.emit("Time", s.observe(vlib.E{"x": vlib.E{"k": "time"}, "res": "ok", "err": ""}))
}

func (s *vdkScen) doExec(st vdkStep) {
	s.checkQuiet()
	cur, fin, _ := s.buckets()
	out := "none"
	if cur == nil {
		s.emit("Exec", s.observe(vlib.E{"x": vlib.E{"k": "exec", "out": st.Out}, "scripted": st.Out, "res": "ok", "err": "no state"}))
		return
	}
	wasExecuting := cur.State == Executing
	if !wasExecuting && s.execWas {
		s.late = true // the execution ended before the script decided (see noteSpontaneous)
	}
	s.execWas = false
	// the peers start once the node's own protocol runs: deals that arrive before that fill the
	// echo broadcast's deal channel (capacity = number of NEW nodes) and the node then blocks
	// on pushing its own deal when the old group is larger than the new one
	if w := time.Until(s.kickoff.Add(60 * time.Millisecond)); w > 0 && w < 2*time.Second {
		time.Sleep(w)
	}
	var collect func(time.Duration) []vdkPeerResult
	if st.Out == "complete" {
		prev := (*key.Group)(nil)
		if fin != nil && fin.FinalGroup != nil {
			prev = fin.FinalGroup
		} else if cur.FinalGroup != nil {
			prev = cur.FinalGroup
		}
		run := vdkRun{epoch: cur.Epoch, threshold: int(cur.Threshold),
			newParts: append(append([]*pdkg.Participant(nil), cur.Remaining...), cur.Joining...), prev: prev}
		if prev != nil {
			run.prevShare = s.shares[vdkGroupKey(prev)]
		}
		n := &vdkNet{sch: s.ids.sch, boards: map[string]*vdkBoard{}, node: s.proc}
		collect = vdkStartPeers(s.ids, n, run, s.me, s.phase)
		s.client.attach(n)
	}
	if wasExecuting {
		vlib.Eventually(4*s.phase+4*time.Second, func() bool {
			c, _, _ := s.buckets()
			return c == nil || c.State != Executing
		})
	} else {
		time.Sleep(300 * time.Millisecond)
	}
	c2, f2, _ := s.buckets()
	if wasExecuting && c2 != nil {
		switch c2.State {
		case Complete:
			out = "complete"
		case Failed:
			out = "failed"
		}
	} else {
		out = st.Out
	}
	if collect != nil {
		res := collect(2 * time.Second)
		if out == "complete" && f2 != nil && f2.FinalGroup != nil {
			m := map[string]*kdkg.DistKeyShare{}
			for _, r := range res {
				if r.err == nil && r.res != nil && r.res.Key != nil {
					m[r.pid] = r.res.Key
				}
			}
			s.shares[vdkGroupKey(f2.FinalGroup)] = m
		}
	}
	s.client.detach()
	if out != st.Out {
		s.execMiss++
	}
	if out == "none" {
		out = st.Out
	}
	x := vlib.E{"k": "exec", "out": out}
	if out == "complete" && wasExecuting && f2 != nil {
		// the qualified set is the kyber protocol's (environment's) choice: a peer that was too slow is evicted
		x["qual"] = s.project(f2)["fg"]
	}
	s.emit("Exec", s.observe(vlib.E{"x": x, "scripted": st.Out, "res": "ok", "err": ""}))
}

func vdkRunScenario(ids *vdkIDs, fx *vdkFixture, sc vdkScript, base string, short time.Duration, slow int) *vdkScen {
	// An execution that gets no bundles from peers fails on its own after 2-3 phases of the kyber
	// phaser (wall clock).  The script decides the outcome with an explicit exec step, so the phase is
	// sized so that the calls the script places between "execute" and the outcome fit into one phase.
	phase := time.Second
	between, open := 0, false
	for _, st := range sc.Steps {
		switch {
		case st.K == "exec":
			open = false
		case (st.K == "cmd" && st.Cmd == "execute") || (st.K == "pkt" && st.Typ == "execute"):
			if !open {
				open, between = true, 0
			}
		case open && st.K == "time":
			if phase < 15*time.Second {
				phase = 15 * time.Second
			}
		case open:
			between++
			if w := time.Second + time.Duration(between)*250*time.Millisecond; between > 3 && w > phase {
				phase = w
			}
		}
	}
	phase *= time.Duration(slow)
	if phase > 40*time.Second {
		phase = 40 * time.Second
	}
	s := &vdkScen{ids: ids, fx: fx, sc: sc, me: sc.Me, phase: phase, short: short,
		deadline: map[int]time.Time{}, tmoLabel: map[int64]int{}, tmoLast: map[int]time.Time{},
		seedID: map[string]string{}, shares: map[string]map[string]*kdkg.DistKeyShare{}}
	s.longBase = time.Now().Add(2 * time.Hour).Truncate(time.Second)
	s.seed1 = append([]byte(nil), fx.group.GenesisSeed...)
	s.seedID[hex.EncodeToString(s.seed1)] = "s1"
	s.seedID[hex.EncodeToString(fx.seedX)] = "sx"
	s.shares[vdkGroupKey(fx.group)] = fx.shares
	kn := vdkKeyOfPart[sc.Me]
	dir, err := os.MkdirTemp(base, "dkg-")
	if err != nil {
		s.emit("Reset", vlib.E{"scenario": sc.Name, "me": sc.Me, "fatal": err.Error()})
		return s
	}
	s.dir = dir
	store, err := NewDKGStore(dir)
	if err != nil {
		s.emit("Reset", vlib.E{"scenario": sc.Name, "me": sc.Me, "fatal": err.Error()})
		return s
	}
	s.store = store
	s.client = &vdkClient{sch: ids.sch}
	s.proc = NewDKGProcess(store, vdkIdentifier{ids.keys[kn]}, util.NewFanOutChan[SharingOutput](), s.client, nil,
		Config{Timeout: time.Minute, TimeBetweenDKGPhases: s.phase, KickoffGracePeriod: 250 * time.Millisecond},
		log.New(nil, log.ErrorLevel, false))
	s.emit("Reset", s.observe(vlib.E{"scenario": sc.Name, "me": sc.Me}))
	for i, st := range sc.Steps {
		if s.wedged {
			break
		}
		s.stepIdx = i
		switch st.K {
		case "cmd":
			s.doCmd(st)
		case "pkt":
			s.doPkt(st)
		case "replay":
			if s.lastPkt != nil {
				s.sendPacket(s.lastPkt, s.lastX)
			}
		case "time":
			s.doTime()
		case "exec":
			s.doExec(st)
		}
	}
	if !s.wedged {
		vlib.Call(5*time.Second, func() { s.proc.Close() })
	}
	os.RemoveAll(dir)
	return s
}

func TestVerifDKGControl(t *testing.T) {
	if os.Getenv("VERIF_OUT") == "" {
		t.Skip("verif harness only")
	}
	tr := vlib.MustOpenTraceEnv()
	defer tr.Close()
	var scripts []vdkScript
	if in := os.Getenv("VERIF_IN"); in != "" {
		lines, err := vlib.LoadJSONLines(in)
		if err != nil {
			t.Fatal(err)
		}
		for _, l := range lines {
			var s vdkScript
			if err := json.Unmarshal(l, &s); err != nil {
				t.Fatalf("bad script: %v: %s", err, string(l))
			}
			scripts = append(scripts, s)
		}
	}
	ids, err := vdkNewIDs()
	if err != nil {
		t.Fatal(err)
	}
	fx, err := vdkMakeFixture(ids)
	if err != nil {
		t.Fatal(err)
	}
	base := filepath.Join(filepath.Dir(os.Getenv("VERIF_OUT")), "dkg-stores")
	if err := os.MkdirAll(base, 0o755); err != nil {
		t.Fatal(err)
	}
	defer os.RemoveAll(base)
	par := vlib.EnvInt("VERIF_PAR", 12)
	short := time.Duration(vlib.EnvInt("VERIF_SHORT_MS", 900)) * time.Millisecond
	out := make([]*vdkScen, len(scripts))
	sem := make(chan struct{}, par)
	var wg sync.WaitGroup
	for i := range scripts {
		wg.Add(1)
		sem <- struct{}{}
		go func(i int) {
			defer wg.Done()
			defer func() { <-sem }()
			s := vdkRunScenario(ids, fx, scripts[i], base, short, 1)
			if s.late || s.execMiss > 0 {
				// a step overran a short timeout, an execution gave up on its own before the script
				// decided its outcome, or the scripted outcome could not be produced in time: the
				// environment could not keep the script; retry once, slower
				s = vdkRunScenario(ids, fx, scripts[i], base, 3*short, 4)
			}
			out[i] = s
		}(i)
	}
	wg.Wait()
	dropped, miss, wedged := 0, 0, 0
	for _, s := range out {
		if s.late {
			dropped++
			continue
		}
		miss += s.execMiss
		if s.wedged {
			wedged++
		}
		for _, e := range s.evs {
			tr.Emit(e.ev, e.f)
		}
	}
	tr.Emit("Summary", vlib.E{"scenarios": len(scripts), "dropped_late": dropped, "exec_outcome_differs": miss, "wedged": wedged})
}
