package dkg

// Overlay test (injected by /verif with `go test -overlay`): concretises the abstract DBState values
// of spec/Codec.tla per scheme and sends them through the REAL persistence code of the DKG database
// (DBState.TOML -> BurntSushi text -> DBStateTOML.FromTOML, BoltStore.SaveCurrent/GetCurrent,
// BoltStore.SaveFinished/GetFinished) and records the projection of what comes back.
// It asserts nothing; Trace_Codec.tla decides.

import (
	"bytes"
	"crypto/sha256"
	"encoding/json"
	"fmt"
	"os"
	"path/filepath"
	"reflect"
	"strings"
	"testing"
	"time"

	"github.com/BurntSushi/toml"

	"github.com/drand/drand/v2/common/key"
	"github.com/drand/drand/v2/crypto"
	"github.com/drand/drand/v2/internal/vlib"
	pdkg "github.com/drand/drand/v2/protobuf/dkg"
	"github.com/drand/kyber"
	"github.com/drand/kyber/share"
	kdkg "github.com/drand/kyber/share/dkg"
)

type vcdTrip struct {
	V    map[string]any `json:"v"`
	Path string         `json:"path"`
	Sel  string         `json:"sel"` // "" = every scheme, "first" = first scheme only, "rest" = all but the first
	Over map[string]any `json:"over"` // a value of the same type saved first under the same key (bolt paths)
}

func vcdInt(v map[string]any, k string) int { return int(v[k].(float64)) }
func vcdStr(v map[string]any, k string) string {
	s, _ := v[k].(string)
	return s
}

func vcdPoint(sch *crypto.Scheme, label string) kyber.Point {
	h := sha256.Sum256([]byte("verif-point:" + label))
	return sch.KeyGroup.Point().Mul(sch.KeyGroup.Scalar().SetBytes(h[:]), nil)
}

func vcdBytes(label string) []byte {
	h := sha256.Sum256([]byte("verif-seed:" + label))
	return h[:]
}

// the address catalogue of Codec.tla (AddrKinds); k distinguishes the holders within one value
var vcdAddrKinds = []string{"host", "ipv4", "ipv6", "ipv6loop", "ipv6zone", "dot", "upper", "port0", "lead0"}

func vcdAddr(kind string, k int) string {
	switch kind {
	case "ipv4":
		return fmt.Sprintf("10.0.%d.%d:4444", k/200, k%200+1)
	case "ipv6":
		return fmt.Sprintf("[2001:db8::%x]:4444", k)
	case "ipv6loop":
		if k == 1 {
			return "[::1]:80"
		}
		return fmt.Sprintf("[::%x]:80", k)
	case "ipv6zone":
		return fmt.Sprintf("[fe80::%x%%eth0]:4444", k)
	case "dot":
		return fmt.Sprintf("node%d.verif.test.:4444", k)
	case "upper":
		return fmt.Sprintf("NODE%d.VERIF.TEST:4444", k)
	case "port0":
		if k == 1 {
			return "localhost:0"
		}
		return fmt.Sprintf("localhost%d:0", k)
	case "lead0":
		return fmt.Sprintf("node%d.verif.test:0080", k)
	}
	return fmt.Sprintf("node%d.verif.test:44%d", k, k)
}

var vcdPartNo = map[string]int{"leader": 20, "rem1": 21, "rem2": 22, "join1": 23, "join2": 24, "leave1": 25, "leave2": 26,
	"acc1": 27, "acc2": 28, "rej1": 29, "rej2": 30}

func vcdPartAddr(kind, label string) string {
	if kind == "host" {
		return label + ".verif.test:4444"
	}
	return vcdAddr(kind, vcdPartNo[label])
}

func vcdPart(sch *crypto.Scheme, kind, label string) *pdkg.Participant {
	k, _ := vcdPoint(sch, "part:"+label).MarshalBinary()
	return &pdkg.Participant{Address: vcdPartAddr(kind, label), Key: k, Signature: []byte("sig-" + label)}
}

func vcdParts(sch *crypto.Scheme, kind string, on int, label string) []*pdkg.Participant {
	if on == 0 {
		return nil
	}
	return []*pdkg.Participant{vcdPart(sch, kind, label+"1"), vcdPart(sch, kind, label+"2")}
}

// every address a database record carries, in a fixed order
func vcdAddrsOf(d *DBState) []string {
	var out []string
	if d.Leader != nil {
		out = append(out, d.Leader.GetAddress())
	}
	for _, l := range [][]*pdkg.Participant{d.Remaining, d.Joining, d.Leaving, d.Acceptors, d.Rejectors} {
		for _, p := range l {
			out = append(out, p.GetAddress())
		}
	}
	if d.FinalGroup != nil {
		for _, n := range d.FinalGroup.Nodes {
			if n.Identity != nil {
				out = append(out, n.Addr)
			} else {
				out = append(out, "<no identity>")
			}
		}
	}
	return out
}

// the same list as the abstract value v prescribes it for an address kind
func vcdExpectedAddrs(v map[string]any, kind string) []string {
	var out []string
	if vcdInt(v, "leader") == 1 {
		out = append(out, vcdPartAddr(kind, "leader"))
	}
	for _, f := range [][2]string{{"remaining", "rem"}, {"joining", "join"}, {"leaving", "leave"}, {"acceptors", "acc"}, {"rejectors", "rej"}} {
		if vcdInt(v, f[0]) == 1 {
			out = append(out, vcdPartAddr(kind, f[1]+"1"), vcdPartAddr(kind, f[1]+"2"))
		}
	}
	if vcdInt(v, "fgroup") == 1 {
		for k := 1; k <= 3; k++ {
			out = append(out, vcdAddr(kind, k))
		}
	}
	return out
}

func vcdAddrKindOf(v map[string]any, d *DBState) string {
	got := vcdAddrsOf(d)
	if len(got) == 0 {
		return vcdStr(v, "addr")
	}
	for _, kind := range vcdAddrKinds {
		if reflect.DeepEqual(got, vcdExpectedAddrs(v, kind)) {
			return kind
		}
	}
	// lists of another shape are reported by the presence bits; compare what is there pairwise
	exp := vcdExpectedAddrs(v, vcdStr(v, "addr"))
	for i, a := range got {
		if i < len(exp) && a != exp[i] {
			return "other:" + a
		}
	}
	return vcdStr(v, "addr")
}

var (
	vcdGenesisT = time.Unix(1600000000, 0).UTC()
	vcdTimeoutT = time.Unix(1600000500, 0).UTC()
)

func vcdFinalGroup(sch *crypto.Scheme, kind string, n, thr int, coeffs int) *key.Group {
	g := &key.Group{Threshold: thr, Period: 30 * time.Second, CatchupPeriod: 15 * time.Second, Scheme: sch, ID: "a",
		GenesisTime: vcdGenesisT.Unix(), TransitionTime: 1600003000, GenesisSeed: vcdBytes("S")}
	for k := 1; k <= n; k++ {
		g.Nodes = append(g.Nodes, &key.Node{Index: uint32(2*k - 1), Identity: &key.Identity{
			Key: vcdPoint(sch, fmt.Sprintf("node:N%d", k)), Addr: vcdAddr(kind, k),
			Signature: []byte(fmt.Sprintf("signature-of-N%d", k)), Scheme: sch}})
	}
	if coeffs > 0 {
		g.PublicKey = &key.DistPublic{}
		for i := 1; i <= coeffs; i++ {
			g.PublicKey.Coefficients = append(g.PublicKey.Coefficients, vcdPoint(sch, fmt.Sprintf("coef:%d", i)))
		}
	}
	return g
}

func vcdState(sch *crypto.Scheme, v map[string]any) *DBState {
	kind := vcdStr(v, "addr")
	if kind == "" {
		kind = "host"
	}
	d := &DBState{
		BeaconID:      "a",
		Epoch:         3,
		State:         Status(vcdInt(v, "status")),
		Threshold:     2,
		Timeout:       time.Unix(0, 0).UTC(),
		SchemeID:      sch.Name,
		GenesisTime:   vcdGenesisT,
		CatchupPeriod: 15 * time.Second,
		BeaconPeriod:  30 * time.Second,
		Remaining:     vcdParts(sch, kind, vcdInt(v, "remaining"), "rem"),
		Joining:       vcdParts(sch, kind, vcdInt(v, "joining"), "join"),
		Leaving:       vcdParts(sch, kind, vcdInt(v, "leaving"), "leave"),
		Acceptors:     vcdParts(sch, kind, vcdInt(v, "acceptors"), "acc"),
		Rejectors:     vcdParts(sch, kind, vcdInt(v, "rejectors"), "rej"),
	}
	if vcdInt(v, "timeout") == 1 {
		d.Timeout = vcdTimeoutT
	}
	if vcdInt(v, "leader") == 1 {
		d.Leader = vcdPart(sch, kind, "leader")
	}
	if vcdInt(v, "seed") == 1 {
		d.GenesisSeed = vcdBytes("S")
	}
	if vcdInt(v, "fgroup") == 1 {
		d.FinalGroup = vcdFinalGroup(sch, kind, 3, 2, 2)
	}
	if vcdInt(v, "share") == 1 {
		d.KeyShare = &key.Share{Scheme: sch, DistKeyShare: kdkg.DistKeyShare{
			Commits: []kyber.Point{vcdPoint(sch, "coef:1"), vcdPoint(sch, "coef:2")},
			Share:   &share.PriShare{I: 1, V: sch.KeyGroup.Scalar().SetBytes(vcdBytes("share-scalar"))}}}
	}
	return d
}

func vcdBit(b bool) int {
	if b {
		return 1
	}
	return 0
}

func vcdPartsEq(a, b []*pdkg.Participant) bool {
	if len(a) != len(b) {
		return false
	}
	for i := range a {
		if a[i].GetAddress() != b[i].GetAddress() || !bytes.Equal(a[i].GetKey(), b[i].GetKey()) || !bytes.Equal(a[i].GetSignature(), b[i].GetSignature()) {
			return false
		}
	}
	return true
}

func vcdProject(orig, d *DBState) (map[string]any, []string) {
	var diff []string
	add := func(ok bool, name string) {
		if !ok {
			diff = append(diff, name)
		}
	}
	p := map[string]any{
		"type": "dbstate", "status": int(d.State), "leader": vcdBit(d.Leader != nil),
		"remaining": vcdBit(len(d.Remaining) > 0), "joining": vcdBit(len(d.Joining) > 0), "leaving": vcdBit(len(d.Leaving) > 0),
		"acceptors": vcdBit(len(d.Acceptors) > 0), "rejectors": vcdBit(len(d.Rejectors) > 0),
		"seed": vcdBit(len(d.GenesisSeed) > 0), "fgroup": vcdBit(d.FinalGroup != nil), "share": vcdBit(d.KeyShare != nil),
	}
	switch {
	case d.Timeout.Equal(time.Unix(0, 0)):
		p["timeout"] = 0
	case d.Timeout.Equal(vcdTimeoutT):
		p["timeout"] = 1
	default:
		p["timeout"] = 2
	}
	add(d.BeaconID == orig.BeaconID, "BeaconID")
	add(d.Epoch == orig.Epoch, "Epoch")
	add(d.Threshold == orig.Threshold, "Threshold")
	add(d.SchemeID == orig.SchemeID, "SchemeID")
	add(d.GenesisTime.Equal(orig.GenesisTime), "GenesisTime")
	add(bytes.Equal(d.GenesisSeed, orig.GenesisSeed), "GenesisSeed")
	add(d.CatchupPeriod == orig.CatchupPeriod, "CatchupPeriod")
	add(d.BeaconPeriod == orig.BeaconPeriod, "BeaconPeriod")
	if d.Leader != nil && orig.Leader != nil {
		add(vcdPartsEq([]*pdkg.Participant{d.Leader}, []*pdkg.Participant{orig.Leader}), "Leader")
	}
	add(vcdPartsEq(d.Remaining, orig.Remaining), "Remaining")
	add(vcdPartsEq(d.Joining, orig.Joining), "Joining")
	add(vcdPartsEq(d.Leaving, orig.Leaving), "Leaving")
	add(vcdPartsEq(d.Acceptors, orig.Acceptors), "Acceptors")
	add(vcdPartsEq(d.Rejectors, orig.Rejectors), "Rejectors")
	if d.FinalGroup != nil && orig.FinalGroup != nil {
		add(d.FinalGroup.Equal(orig.FinalGroup), "FinalGroup")
		add(d.FinalGroup.GenesisTime == orig.FinalGroup.GenesisTime && d.FinalGroup.CatchupPeriod == orig.FinalGroup.CatchupPeriod, "FinalGroup.times")
		add(bytes.Equal(d.FinalGroup.Hash(), orig.FinalGroup.Hash()), "FinalGroup.hash")
	}
	if d.KeyShare != nil && orig.KeyShare != nil {
		add(reflect.DeepEqual(d.KeyShare.Share.I, orig.KeyShare.Share.I) && d.KeyShare.Share.V.Equal(orig.KeyShare.Share.V), "KeyShare.share")
		ok := len(d.KeyShare.Commits) == len(orig.KeyShare.Commits)
		for i := 0; ok && i < len(d.KeyShare.Commits); i++ {
			ok = d.KeyShare.Commits[i].Equal(orig.KeyShare.Commits[i])
		}
		add(ok, "KeyShare.commits")
		add(d.KeyShare.Scheme != nil && d.KeyShare.Scheme.Name == orig.KeyShare.Scheme.Name, "KeyShare.scheme")
	}
	return p, diff
}

func vcdDecodeTOML(b []byte) (*DBState, error) {
	t := DBStateTOML{}
	if _, err := toml.NewDecoder(bytes.NewReader(b)).Decode(&t); err != nil {
		return nil, err
	}
	return t.FromTOML()
}

func TestVerifCodecDKG(t *testing.T) {
	if os.Getenv("VERIF_OUT") == "" {
		t.Skip("verif harness only")
	}
	tr := vlib.MustOpenTraceEnv()
	defer tr.Close()
	seed := vlib.EnvInt("VERIF_SEED", 1)
	quick := vlib.EnvStr("VERIF_TIER", "quick") == "quick"
	lines, err := vlib.LoadJSONLines(os.Getenv("VERIF_IN"))
	if err != nil {
		t.Fatal(err)
	}
	var trips []vcdTrip
	for _, l := range lines {
		var x vcdTrip
		if err := json.Unmarshal(l, &x); err != nil {
			t.Fatal(err)
		}
		trips = append(trips, x)
	}
	all := crypto.ListSchemes()
	schemes := all
	if quick {
		schemes = []string{all[seed%len(all)], all[(seed+2)%len(all)]}
	}
	dir := t.TempDir()
	for si, name := range schemes {
		sch, err := crypto.SchemeFromName(name)
		if err != nil {
			t.Fatal(err)
		}
		store, err := NewDKGStore(filepath.Join(dir, fmt.Sprint(si)))
		if err != nil {
			t.Fatal(err)
		}
		store.db.NoSync = true // durability is not what is observed here; keeps thousands of trips fast
		for k, x := range trips {
			if (x.Sel == "first" && si != 0) || (x.Sel == "rest" && si == 0) {
				continue
			}
			v, path := x.V, x.Path
			ev := vlib.E{"scheme": name, "v": v, "path": path, "err": ""}
			if vcdStr(v, "type") == "badgroup" { // a malformed final group inside a database record
				n := vcdInt(v, "n")
				bad := map[string]int{"thr_zero": 0, "thr_low": n/2 + 1 - 1, "thr_high": n + 1, "scheme_unknown": n/2 + 1}[vcdStr(v, "kind")]
				co := 0
				if vcdInt(v, "dist") == 1 {
					co = bad
					if co < 1 {
						co = 1
					}
				}
				st := vcdState(sch, map[string]any{"status": float64(Complete), "leader": 1.0, "remaining": 1.0, "joining": 0.0, "leaving": 0.0,
					"acceptors": 1.0, "rejectors": 0.0, "seed": 1.0, "fgroup": 0.0, "share": 0.0, "timeout": 1.0})
				st.FinalGroup = vcdFinalGroup(sch, "host", n, n/2+1, co)
				tt := st.TOML()
				tt.FinalGroup.Threshold = bad
				if vcdStr(v, "kind") == "scheme_unknown" {
					tt.FinalGroup.SchemeID = "unknown-scheme"
				}
				var buf bytes.Buffer
				err := toml.NewEncoder(&buf).Encode(tt)
				var d2 *DBState
				if err == nil {
					d2, err = vcdDecodeTOML(buf.Bytes())
				}
				ev["accepted"] = err == nil && d2 != nil
				if err != nil {
					ev["err"] = err.Error()
				}
				tr.Emit("Bad", ev)
				continue
			}
			orig := vcdState(sch, v)
			var d2 *DBState
			id := fmt.Sprintf("beacon-%d", k)
			over := x.Over
			if over == nil {
				over = map[string]any{"type": "none"}
			}
			ev["over"] = over
			if vcdStr(over, "type") != "none" {
				var err error
				if path == "boltfin" {
					err = store.SaveFinished(id, vcdState(sch, over))
				} else if path == "boltcur" {
					err = store.SaveCurrent(id, vcdState(sch, over))
				}
				if err != nil {
					ev["err"] = "saving the earlier value: " + err.Error()
				}
			}
			switch path {
			case "toml":
				b, err := encodeState(vcdState(sch, v))
				if err == nil {
					d2, err = vcdDecodeTOML(b)
				}
				if err != nil {
					ev["err"] = err.Error()
				}
			case "boltcur":
				err := store.SaveCurrent(id, vcdState(sch, v))
				if err == nil {
					d2, err = store.GetCurrent(id)
				}
				if err != nil {
					ev["err"] = err.Error()
				}
			case "boltfin":
				err := store.SaveFinished(id, vcdState(sch, v))
				var c2 *DBState
				if err == nil {
					d2, err = store.GetFinished(id)
				}
				if err == nil {
					c2, err = store.GetCurrent(id)
				}
				if err == nil && d2 != nil && c2 != nil {
					pc, dc := vcdProject(orig, c2)
					pf, df := vcdProject(orig, d2)
					if !reflect.DeepEqual(pc, pf) || !reflect.DeepEqual(dc, df) {
						err = fmt.Errorf("finished and current buckets differ after SaveFinished")
					}
				}
				if err != nil {
					ev["err"] = err.Error()
				}
			}
			ev["rest"], ev["restdiff"], ev["hasheq"], ev["p"] = true, "", true, map[string]any{}
			if ev["err"] == "" && d2 == nil {
				ev["err"] = "decoder returned nothing"
			}
			if ev["err"] == "" {
				p, diff := vcdProject(orig, d2)
				p["addr"] = vcdAddrKindOf(v, d2)
				ev["p"] = p
				if len(diff) > 0 {
					ev["rest"], ev["restdiff"] = false, strings.Join(diff, ",")
				}
			}
			tr.Emit("RT", ev)
		}
		store.Close()
	}
}
