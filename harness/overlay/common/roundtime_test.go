package common

// Overlay test (injected by /verif with `go test -overlay`): executes vectors generated from
// spec/RoundTime.tla (TLC grid + mid-range, Apalache 64-bit boundary witnesses) on the real
// TimeOfRound / CurrentRound / NextRound and records inputs and outputs.  It asserts nothing:
// calls whose values all fit TLC's 32-bit integers go to VERIF_OUT (validated by
// Trace_RoundTime.tla with TLC), the others to VERIF_OUT+".big" (judged by Apalache with
// Apa_RoundTimeJudge.tla).

import (
	"encoding/json"
	"math"
	"math/big"
	"math/rand"
	"os"
	"testing"
	"time"

	"github.com/drand/drand/v2/internal/vlib"
)

type vrtVec struct {
	Kind string `json:"kind"` // TOR | CUR
	Cls  string `json:"cls"`
	P    string `json:"p"`
	G    string `json:"g"`
	A    string `json:"a"` // round (TOR) or instant (CUR)
}

type vrtIn struct {
	kind, cls string
	p         uint64 // seconds, 1..2^32-1
	g         int64
	r         uint64 // TOR
	t         int64  // CUR
}

func vrtBig(s string) *big.Int {
	b, ok := new(big.Int).SetString(s, 10)
	if !ok {
		panic("bad integer " + s)
	}
	return b
}

var (
	vrtTop31 = big.NewInt(math.MaxInt32)
	vrtTop30 = big.NewInt(1 << 30)
)

func vrtFits(lim *big.Int, xs ...*big.Int) bool {
	for _, x := range xs {
		if x.CmpAbs(lim) > 0 {
			return false
		}
	}
	return true
}

func vrtI(x int64) *big.Int  { return big.NewInt(x) }
func vrtU(x uint64) *big.Int { return new(big.Int).SetUint64(x) }

// g + k*p
func vrtLin(g, k, p *big.Int) *big.Int {
	return new(big.Int).Add(g, new(big.Int).Mul(k, p))
}

func vrtStrs(xs ...*big.Int) []string {
	out := make([]string, len(xs))
	for i, x := range xs {
		out[i] = x.String()
	}
	return out
}

func vrtInts(xs ...*big.Int) []int64 {
	out := make([]int64, len(xs))
	for i, x := range xs {
		out[i] = x.Int64()
	}
	return out
}

const vrtMaxElapsed = int64(1) << 50

func vrtDerived(in []vrtIn, seed int64, nrand int) []vrtIn {
	var out []vrtIn
	// neighbours of the 64-bit witnesses (stay inside the statement's domain)
	for _, v := range in {
		if len(v.cls) < 4 || v.cls[:4] != "apa:" {
			continue
		}
		if v.kind == "TOR" {
			if v.r >= 1 {
				w := v
				w.r, w.cls = v.r-1, "nb:"+v.cls[4:]
				out = append(out, w)
			}
			if v.r < math.MaxUint64-2 {
				w := v
				w.r, w.cls = v.r+1, "nb:"+v.cls[4:]
				out = append(out, w)
			}
		} else {
			for _, d := range []int64{-1, 1} {
				t := v.t + d
				if t >= v.g && t-v.g <= vrtMaxElapsed {
					w := v
					w.t, w.cls = t, "nb:"+v.cls[4:]
					out = append(out, w)
				}
			}
		}
	}
	// seeded random points of the domain (inputs only; they are judged by the specification)
	rng := rand.New(rand.NewSource(seed))
	for i := 0; i < nrand; i++ {
		p := uint64(1) + uint64(rng.Int63n(int64(1)<<uint(1+rng.Intn(32))))
		if p > math.MaxUint32 {
			p = math.MaxUint32
		}
		g := rng.Int63n((int64(1) << uint(1+rng.Intn(32))) + 1)
		if i%2 == 0 {
			r := rng.Uint64() >> uint(rng.Intn(64))
			if r > math.MaxUint64-2 {
				r = math.MaxUint64 - 2
			}
			out = append(out, vrtIn{kind: "TOR", cls: "random", p: p, g: g, r: r})
		} else {
			e := rng.Int63n((int64(1) << uint(1+rng.Intn(50))) + 1)
			if i%8 != 7 { // mostly exactly on a boundary, sometimes just before it
				e = e / int64(p) * int64(p)
				if i%8 == 1 && e > 0 {
					e--
				}
			}
			out = append(out, vrtIn{kind: "CUR", cls: "random", p: p, g: g, t: g + e})
		}
	}
	return out
}

func TestVerifRoundTime(t *testing.T) {
	if os.Getenv("VERIF_OUT") == "" {
		t.Skip("verif harness only")
	}
	small := vlib.MustOpenTraceEnv()
	defer small.Close()
	bigTr, err := vlib.OpenTrace(os.Getenv("VERIF_OUT") + ".big")
	if err != nil {
		t.Fatal(err)
	}
	defer bigTr.Close()
	seed := int64(vlib.EnvInt("VERIF_SEED", 1))
	lines, err := vlib.LoadJSONLines(os.Getenv("VERIF_IN"))
	if err != nil {
		t.Fatal(err)
	}
	var in []vrtIn
	for _, l := range lines {
		var v vrtVec
		if err := json.Unmarshal(l, &v); err != nil {
			t.Fatal(err)
		}
		x := vrtIn{kind: v.Kind, cls: v.Cls, p: vrtBig(v.P).Uint64(), g: vrtBig(v.G).Int64()}
		if v.Kind == "TOR" {
			x.r = vrtBig(v.A).Uint64()
		} else {
			x.t = vrtBig(v.A).Int64()
		}
		in = append(in, x)
	}
	in = append(in, vrtDerived(in, seed, vlib.EnvInt("VERIF_RANDOM", 0))...)

	for _, v := range in {
		period := time.Duration(v.p) * time.Second
		P, G := vrtU(v.p), vrtI(v.g)
		switch v.kind {
		case "TOR":
			out := TimeOfRound(period, v.g, v.r)
			out1 := TimeOfRound(period, v.g, v.r+1)
			A, O, O1 := vrtU(v.r), vrtI(out), vrtI(out1)
			a1 := new(big.Int).Add(A, big.NewInt(1))
			if vrtFits(vrtTop30, P, a1) && vrtFits(vrtTop31, G, O, O1, vrtLin(G, a1, P)) {
				small.Emit("TOR", vlib.E{"cls": v.cls, "p": v.p, "g": v.g, "a": v.r, "o": vrtInts(O, O1)})
			} else {
				bigTr.Emit("TOR", vlib.E{"cls": v.cls, "p": P.String(), "g": G.String(), "a": A.String(), "o": vrtStrs(O, O1)})
			}
		case "CUR":
			cur := CurrentRound(v.t, period, v.g)
			next, ntime := NextRound(v.t, period, v.g)
			tcur := TimeOfRound(period, v.g, cur)
			tnext := TimeOfRound(period, v.g, cur+1)
			T := vrtI(v.t)
			C, N, NT, TC, TN := vrtU(cur), vrtU(next), vrtI(ntime), vrtI(tcur), vrtI(tnext)
			// every product the TLC monitors form must fit 32 bits
			k := new(big.Int).Set(C)
			if N.Cmp(k) > 0 {
				k.Set(N)
			}
			k.Add(k, big.NewInt(1))
			q := new(big.Int).Div(new(big.Int).Sub(T, G), P)
			q.Add(q, big.NewInt(2))
			if vrtFits(vrtTop30, P, C, N) && vrtFits(vrtTop31, G, T, NT, TC, TN, vrtLin(G, k, P), vrtLin(G, q, P)) {
				small.Emit("CUR", vlib.E{"cls": v.cls, "p": v.p, "g": v.g, "a": v.t, "o": vrtInts(C, N, NT, TC, TN)})
			} else {
				bigTr.Emit("CUR", vlib.E{"cls": v.cls, "p": P.String(), "g": G.String(), "a": T.String(), "o": vrtStrs(C, N, NT, TC, TN)})
			}
		}
	}
}
