package chain

// Overlay test (injected by /verif with `go test -overlay`): concretises the abstract values of
// spec/Hashes.tla (TLC walks and the TLC-enumerated catalogue) with real points of each scheme,
// runs the REAL hash functions and encoders/decoders (Info.Hash, Group.Hash, JSON / protobuf /
// hexjson / group TOML / group protobuf / group file) and records the digests.  It asserts nothing;
// Trace_Hashes.tla decides.

import (
	"bytes"
	"crypto/sha256"
	"encoding/hex"
	"encoding/json"
	"fmt"
	"os"
	"path/filepath"
	"testing"
	"time"

	"github.com/BurntSushi/toml"
	hexjson "github.com/nikkolasg/hexjson"

	"github.com/drand/drand/v2/common"
	"github.com/drand/drand/v2/common/key"
	"github.com/drand/drand/v2/crypto"
	"github.com/drand/drand/v2/internal/vlib"
	"github.com/drand/drand/v2/protobuf/drand"
	"github.com/drand/kyber"
)

type vhsAct struct {
	Name  string          `json:"name"`
	Field string          `json:"field,omitempty"`
	Path  string          `json:"path,omitempty"`
	NV    json.RawMessage `json:"nv,omitempty"`
	Strip bool            `json:"strip,omitempty"`
	// sequence families (one live value): a document with fields FV declaring the hash of DV
	FV     json.RawMessage `json:"fv,omitempty"`
	DV     json.RawMessage `json:"dv,omitempty"`
	Decl   string          `json:"decl,omitempty"`
	Accept bool            `json:"accept,omitempty"`
}

type vhsStep struct {
	A  json.RawMessage `json:"a"`
	V  json.RawMessage `json:"v"`
	a  vhsAct
	iv vhsInfoV
	gv vhsGroupV
}

type vhsScript struct {
	Fam   string    `json:"fam"`
	Name  string    `json:"name"`
	Class string    `json:"class"`
	Steps []vhsStep `json:"steps"`
}

type vhsInfoV struct {
	Period  int64  `json:"period"`
	Genesis int64  `json:"genesis"`
	Pk      string `json:"pk"`
	Seed    string `json:"seed"`
	ID      string `json:"id"`
}

type vhsGroupV struct {
	Nodes      [][]any  `json:"nodes"` // [[index, "key label"], ...] in listing order
	Thr        int      `json:"thr"`
	Genesis    int64    `json:"genesis"`
	Transition int64    `json:"transition"`
	Dist       []string `json:"dist"` // [] or [first, rest]
	ID         string   `json:"id"`
	Period     int64    `json:"period"`
	Seed       string   `json:"seed"` // "none" or a label
}

func vhsPoint(sch *crypto.Scheme, label string) kyber.Point {
	h := sha256.Sum256([]byte("verif-point:" + label))
	s := sch.KeyGroup.Scalar().SetBytes(h[:])
	return sch.KeyGroup.Point().Mul(s, nil)
}

func vhsSeed(label string) []byte {
	if label == "none" {
		return nil
	}
	h := sha256.Sum256([]byte("verif-seed:" + label))
	return h[:]
}

func vhsInfo(sch *crypto.Scheme, v vhsInfoV) *Info {
	return &Info{
		PublicKey:   vhsPoint(sch, "dist:"+v.Pk),
		ID:          v.ID,
		Period:      time.Duration(v.Period) * time.Second,
		Scheme:      sch.Name,
		GenesisTime: v.Genesis,
		GenesisSeed: vhsSeed(v.Seed),
	}
}

func vhsGroup(sch *crypto.Scheme, v vhsGroupV) *key.Group {
	g := &key.Group{
		Threshold:      v.Thr,
		Period:         time.Duration(v.Period) * time.Second,
		CatchupPeriod:  time.Duration(v.Period) * time.Second / 2,
		Scheme:         sch,
		ID:             v.ID,
		GenesisTime:    v.Genesis,
		TransitionTime: v.Transition,
		GenesisSeed:    vhsSeed(v.Seed),
	}
	for _, n := range v.Nodes {
		idx := uint32(n[0].(float64))
		label := n[1].(string)
		g.Nodes = append(g.Nodes, &key.Node{
			Index: idx,
			Identity: &key.Identity{
				Key:       vhsPoint(sch, "node:"+label),
				Addr:      fmt.Sprintf("node-%s.verif.test:4%03d", label, idx),
				Signature: []byte("sig-" + label),
				Scheme:    sch,
			},
		})
	}
	if len(v.Dist) == 2 {
		d := &key.DistPublic{}
		d.Coefficients = append(d.Coefficients, vhsPoint(sch, "dist:"+v.Dist[0]))
		for i := 2; i <= v.Thr; i++ {
			d.Coefficients = append(d.Coefficients, vhsPoint(sch, fmt.Sprintf("dist:%s:%s:%d", v.Dist[0], v.Dist[1], i)))
		}
		g.PublicKey = d
	}
	return g
}

// assign every field of the abstract value to the live Info, in place
func vhsAssignInfo(i *Info, sch *crypto.Scheme, v vhsInfoV) {
	n := vhsInfo(sch, v)
	i.PublicKey, i.ID, i.Period, i.Scheme, i.GenesisTime, i.GenesisSeed = n.PublicKey, n.ID, n.Period, n.Scheme, n.GenesisTime, n.GenesisSeed
}

// assign every field of the abstract value to the live Group, in place; a cached genesis seed
// (seed = "frozen" in Hashes.tla) is left as the code cached it, unless this very step reset the seed
func vhsAssignGroup(g *key.Group, sch *crypto.Scheme, v vhsGroupV, a vhsAct) {
	n := vhsGroup(sch, v)
	g.Threshold, g.Period, g.CatchupPeriod, g.ID, g.Nodes = n.Threshold, n.Period, n.CatchupPeriod, n.ID, n.Nodes
	g.GenesisTime, g.TransitionTime, g.PublicKey = n.GenesisTime, n.TransitionTime, n.PublicKey
	if v.Seed != "frozen" {
		g.GenesisSeed = n.GenesisSeed
	} else if a.Name == "set" && a.Field == "seed" {
		g.GenesisSeed = nil
	}
}

// decode a document (fields fv, declaring the hash of dv or none) INTO the live Info
func vhsDecodeInto(sch *crypto.Scheme, obj **Info, a vhsAct) (accepted bool, declared string, detail string) {
	var fv, dv vhsInfoV
	if err := json.Unmarshal(a.FV, &fv); err != nil {
		return false, "", "harness: " + err.Error()
	}
	var dh []byte
	if a.Decl != "none" {
		if err := json.Unmarshal(a.DV, &dv); err != nil {
			return false, "", "harness: " + err.Error()
		}
		dh = vhsInfo(sch, dv).Hash() // a fresh value, hashed once
	}
	doc := vhsInfo(sch, fv)
	switch a.Path {
	case "json":
		b, err := json.Marshal(doc)
		if err != nil {
			return false, vhsHex(dh), err.Error()
		}
		var m map[string]any
		_ = json.Unmarshal(b, &m)
		if dh == nil {
			delete(m, "chain_hash")
		} else {
			m["chain_hash"] = vhsHex(dh)
		}
		b2, _ := json.Marshal(m)
		err = json.Unmarshal(b2, *obj) // into the live value
		return err == nil, vhsHex(dh), vhsErr(err)
	case "proto":
		p := doc.ToProto(nil)
		p.Hash = dh
		n, err := InfoFromProto(p)
		if err == nil {
			*obj = n
		}
		return err == nil, vhsHex(dh), vhsErr(err)
	}
	return false, "", "unknown path"
}

func vhsHex(b []byte) string { return hex.EncodeToString(b) }

func vhsErr(err error) string {
	if err == nil {
		return ""
	}
	return err.Error()
}

// group through an encoding path
func vhsGroupVia(path, dir string, g *key.Group) (*key.Group, error) {
	switch path {
	case "toml":
		var buf bytes.Buffer
		if err := toml.NewEncoder(&buf).Encode(g.TOML()); err != nil {
			return nil, err
		}
		gt := new(key.GroupTOML)
		if _, err := toml.Decode(buf.String(), gt); err != nil {
			return nil, err
		}
		g2 := new(key.Group)
		return g2, g2.FromTOML(gt)
	case "proto":
		return key.GroupFromProto(g.ToProto(common.GetAppVersion()), nil)
	case "file":
		f := filepath.Join(dir, "group.toml")
		if err := key.Save(f, g, false); err != nil {
			return nil, err
		}
		g2 := new(key.Group)
		return g2, key.Load(f, g2)
	}
	return nil, fmt.Errorf("unknown path %s", path)
}

// chain info through an encoding path
func vhsInfoVia(path string, i *Info) (*Info, error) {
	switch path {
	case "json":
		b, err := json.Marshal(i)
		if err != nil {
			return nil, err
		}
		j := new(Info)
		return j, json.Unmarshal(b, j)
	case "proto":
		p := i.ToProto(nil)
		if !bytes.Equal(p.Hash, i.Hash()) {
			return nil, fmt.Errorf("ToProto carries another hash")
		}
		return InfoFromProto(p)
	case "hexjson":
		var buf bytes.Buffer
		if err := i.ToJSON(&buf, nil); err != nil {
			return nil, err
		}
		return InfoFromJSON(&buf)
	}
	return nil, fmt.Errorf("unknown path %s", path)
}

// decode a served chain info after changing one field but not the embedded hash
func vhsTamper(sch *crypto.Scheme, path string, orig *Info, v vhsInfoV, field string, nv json.RawMessage, strip bool) (accepted bool, detail string) {
	t := v
	switch field {
	case "period":
		_ = json.Unmarshal(nv, &t.Period)
	case "genesis":
		_ = json.Unmarshal(nv, &t.Genesis)
	case "pk":
		_ = json.Unmarshal(nv, &t.Pk)
	case "seed":
		_ = json.Unmarshal(nv, &t.Seed)
	case "id":
		_ = json.Unmarshal(nv, &t.ID)
	}
	ti := vhsInfo(sch, t)
	switch path {
	case "json":
		b, err := json.Marshal(orig)
		if err != nil {
			return false, "marshal: " + err.Error()
		}
		var m map[string]any
		if err := json.Unmarshal(b, &m); err != nil {
			return false, err.Error()
		}
		pk, _ := ti.PublicKey.MarshalBinary()
		switch field {
		case "period":
			m["period"] = t.Period
		case "genesis":
			m["genesis_time"] = t.Genesis
		case "pk":
			m["public_key"] = hex.EncodeToString(pk)
		case "seed":
			m["genesis_seed"] = hex.EncodeToString(ti.GenesisSeed)
		case "id":
			m["beacon_id"] = t.ID
		}
		if strip {
			delete(m, "chain_hash")
		}
		b2, _ := json.Marshal(m)
		j := new(Info)
		err = json.Unmarshal(b2, j)
		return err == nil, vhsErr(err)
	case "proto", "hexjson":
		p := orig.ToProto(nil) // carries Hash = orig.Hash()
		pk, _ := ti.PublicKey.MarshalBinary()
		switch field {
		case "period":
			p.Period = uint32(t.Period)
		case "genesis":
			p.GenesisTime = t.Genesis
		case "pk":
			p.PublicKey = pk
		case "seed":
			p.GroupHash = ti.GenesisSeed
		case "id":
			p.Metadata = &drand.Metadata{BeaconID: t.ID}
		}
		if strip {
			p.Hash = nil
		}
		if path == "proto" {
			_, err := InfoFromProto(p)
			return err == nil, vhsErr(err)
		}
		var buf bytes.Buffer
		if err := hexjson.NewEncoder(&buf).Encode(p); err != nil {
			return false, err.Error()
		}
		_, err := InfoFromJSON(&buf)
		return err == nil, vhsErr(err)
	}
	return false, "unknown path"
}

func TestVerifHashes(t *testing.T) {
	if os.Getenv("VERIF_OUT") == "" {
		t.Skip("verif harness only")
	}
	tr := vlib.MustOpenTraceEnv()
	defer tr.Close()
	seed := vlib.EnvInt("VERIF_SEED", 1)
	quick := vlib.EnvStr("VERIF_TIER", "quick") == "quick"
	lines, err := vlib.LoadJSONLines(os.Getenv("VERIF_IN"))
	if err != nil {
		t.Fatal(err)
	}
	var scripts []vhsScript
	for _, l := range lines {
		var s vhsScript
		if err := json.Unmarshal(l, &s); err != nil {
			t.Fatal(err)
		}
		for k := range s.Steps {
			st := &s.Steps[k]
			if err := json.Unmarshal(st.A, &st.a); err != nil {
				t.Fatal(err)
			}
			if s.Fam == "chain" || s.Fam == "chainseq" {
				err = json.Unmarshal(st.V, &st.iv)
			} else {
				err = json.Unmarshal(st.V, &st.gv)
			}
			if err != nil {
				t.Fatal(err)
			}
		}
		scripts = append(scripts, s)
	}
	all := crypto.ListSchemes()
	var schemes []string
	if quick { // two of the schemes, chosen by the seed (always two different key groups over the seeds)
		schemes = []string{all[seed%len(all)], all[(seed+2)%len(all)]}
	} else {
		schemes = all
	}
	dir := t.TempDir()
	for _, name := range schemes {
		sch, err := crypto.SchemeFromName(name)
		if err != nil {
			t.Fatal(err)
		}
		for _, sc := range scripts {
			tr.Emit("Reset", vlib.E{"scenario": sc.Name, "class": sc.Class, "scheme": name, "fam": sc.Fam})
			var liveInfo *Info
			var liveGroup *key.Group
			for _, st := range sc.Steps {
				ev := vlib.E{"a": st.A, "v": st.V}
				if sc.Fam == "chainseq" { // ONE Info value lives through the whole scenario
					switch st.a.Name {
					case "init":
						liveInfo = vhsInfo(sch, st.iv)
					case "set":
						vhsAssignInfo(liveInfo, sch, st.iv)
					case "copyset":
						c := *liveInfo
						liveInfo = &c
						vhsAssignInfo(liveInfo, sch, st.iv)
					case "toproto":
						ev["pch"] = vhsHex(liveInfo.ToProto(nil).Hash)
					case "decode":
						ev["accepted"], ev["dh"], ev["detail"] = vhsDecodeInto(sch, &liveInfo, st.a)
					}
					ev["ch"] = vhsHex(liveInfo.Hash())
				} else if sc.Fam == "groupseq" { // ONE Group value lives through the whole scenario
					switch st.a.Name {
					case "init":
						liveGroup = vhsGroup(sch, st.gv)
					case "set", "permute":
						vhsAssignGroup(liveGroup, sch, st.gv, st.a)
					case "copyset":
						c := *liveGroup
						liveGroup = &c
						vhsAssignGroup(liveGroup, sch, st.gv, st.a)
					}
					ev["gh"], ev["ch"] = vhsHex(liveGroup.Hash()), ""
					if liveGroup.PublicKey != nil {
						ev["ch"] = vhsHex(NewChainInfo(liveGroup).Hash()) // runs GetGenesisSeed on the live group
					}
				} else if sc.Fam == "chain" {
					i := vhsInfo(sch, st.iv)
					ev["ch"] = vhsHex(i.Hash())
					switch st.a.Name {
					case "via":
						j, err := vhsInfoVia(st.a.Path, vhsInfo(sch, st.iv))
						ev["perr"], ev["pch"] = vhsErr(err), ""
						if err == nil {
							ev["pch"] = vhsHex(j.Hash())
						}
					case "tamper":
						ev["accepted"], ev["detail"] = vhsTamper(sch, st.a.Path, i, st.iv, st.a.Field, st.a.NV, st.a.Strip)
					}
				} else {
					g := vhsGroup(sch, st.gv)
					ev["gh"], ev["ch"] = vhsHex(g.Hash()), ""
					if g.PublicKey != nil {
						ev["ch"] = vhsHex(NewChainInfo(vhsGroup(sch, st.gv)).Hash())
					}
					if st.a.Name == "via" {
						g2, err := vhsGroupVia(st.a.Path, dir, vhsGroup(sch, st.gv))
						ev["perr"], ev["pgh"], ev["pch"] = vhsErr(err), "", ""
						if err == nil {
							ev["pgh"] = vhsHex(g2.Hash())
							if g2.PublicKey != nil {
								ev["pch"] = vhsHex(NewChainInfo(g2).Hash())
							}
						}
					}
				}
				tr.Emit("Step", ev)
			}
		}
	}
}
