package chain

// Overlay test (injected by /verif with `go test -overlay`): concretises the abstract values of
// spec/Codec.tla per scheme, sends them through the REAL encoders/decoders of common/key,
// common/chain and common (group TOML / file store / protobuf wire, key pair, identity, share,
// chain info JSON / protobuf / hexjson, beacon JSON) and records the projection of the decoded
// value back to the abstract record.  It asserts nothing; Trace_Codec.tla decides.

import (
	"bytes"
	"encoding/json"
	"fmt"
	"os"
	"path/filepath"
	"strings"
	"testing"
	"time"

	"github.com/BurntSushi/toml"
	"google.golang.org/protobuf/proto"

	"github.com/drand/drand/v2/common"
	"github.com/drand/drand/v2/common/key"
	"github.com/drand/drand/v2/crypto"
	"github.com/drand/drand/v2/internal/vlib"
	"github.com/drand/drand/v2/protobuf/drand"
	"github.com/drand/kyber"
	"github.com/drand/kyber/share"
	"github.com/drand/kyber/share/dkg"
)

type vcdTrip struct {
	V    map[string]any `json:"v"`
	Path string         `json:"path"`
	Sel  string         `json:"sel"` // "" = every scheme, "first" = first scheme only, "rest" = all but the first
	Over map[string]any `json:"over"` // a value of the same type saved first under the same name (store paths)
}

func vcdInt(v map[string]any, k string) int { return int(v[k].(float64)) }
func vcdStr(v map[string]any, k string) string {
	s, _ := v[k].(string)
	return s
}

const (
	vcdGenesis    = int64(1600000000)
	vcdTransition = int64(1600003000)
	vcdPeriod     = 30 * time.Second
	vcdCatchup    = 15 * time.Second
)

func vcdMinT(n int) int { return n/2 + 1 }

func vcdSig(on bool, label string) []byte {
	if !on {
		return nil
	}
	return []byte("signature-of-" + label)
}

// the address catalogue of Codec.tla (AddrKinds), k distinguishes the nodes of one value
var vcdAddrKinds = []string{"host", "ipv4", "ipv6", "ipv6loop", "ipv6zone", "dot", "upper", "port0", "lead0"}

func vcdAddr(kind string, k int) string {
	switch kind {
	case "ipv4":
		return fmt.Sprintf("10.0.%d.%d:4444", k/200, k%200+1)
	case "ipv6":
		return fmt.Sprintf("[2001:db8::%x]:4444", k)
	case "ipv6loop":
		if k == 1 {
			return "[::1]:80"
		}
		return fmt.Sprintf("[::%x]:80", k)
	case "ipv6zone":
		return fmt.Sprintf("[fe80::%x%%eth0]:4444", k)
	case "dot":
		return fmt.Sprintf("node%d.verif.test.:4444", k)
	case "upper":
		return fmt.Sprintf("NODE%d.VERIF.TEST:4444", k)
	case "port0":
		if k == 1 {
			return "localhost:0"
		}
		return fmt.Sprintf("localhost%d:0", k)
	case "lead0":
		return fmt.Sprintf("node%d.verif.test:0080", k)
	}
	return fmt.Sprintf("node%d.verif.test:44%d", k, k)
}

// which kind of the catalogue the observed addresses (of nodes k = ks[i]) are; "other" if none
func vcdAddrKindOf(addrs []string, ks []int, dflt string) string {
	if len(addrs) == 0 {
		return dflt
	}
	for _, kind := range vcdAddrKinds {
		ok := true
		for i, a := range addrs {
			if a != vcdAddr(kind, ks[i]) {
				ok = false
				break
			}
		}
		if ok {
			return kind
		}
	}
	return "other:" + addrs[0]
}

func vcdNodes(sch *crypto.Scheme, n int, sig bool, kind string) []*key.Node {
	var out []*key.Node
	for k := 1; k <= n; k++ {
		label := fmt.Sprintf("N%d", k)
		out = append(out, &key.Node{
			Index: uint32(2*k - 1), // not 0..n-1: an index must travel, not be re-derived from the position
			Identity: &key.Identity{
				Key:       vhsPoint(sch, "node:"+label),
				Addr:      vcdAddr(kind, k),
				Signature: vcdSig(sig, label),
				Scheme:    sch,
			},
		})
	}
	return out
}

func vcdDist(sch *crypto.Scheme, n int) *key.DistPublic {
	d := &key.DistPublic{}
	for i := 1; i <= n; i++ {
		d.Coefficients = append(d.Coefficients, vhsPoint(sch, fmt.Sprintf("coef:%d", i)))
	}
	return d
}

func vcdGroup(sch *crypto.Scheme, v map[string]any) *key.Group {
	n := vcdInt(v, "n")
	thr := n
	if vcdStr(v, "thr") == "min" {
		thr = vcdMinT(n)
	}
	g := &key.Group{
		Threshold:   thr,
		Period:      vcdPeriod,
		Scheme:      sch,
		ID:          vcdStr(v, "id"),
		Nodes:       vcdNodes(sch, n, vcdInt(v, "sig") == 1, vcdStr(v, "addr")),
		GenesisTime: vcdGenesis,
	}
	if vcdInt(v, "catchup") == 1 {
		g.CatchupPeriod = vcdCatchup
	}
	if vcdInt(v, "transition") == 1 {
		g.TransitionTime = vcdTransition
	}
	if vcdStr(v, "seed") == "S" {
		g.GenesisSeed = vhsSeed("S")
	}
	if vcdInt(v, "dist") == 1 {
		g.PublicKey = vcdDist(sch, thr)
	}
	return g
}

type vcdDiff []string

func (d *vcdDiff) add(ok bool, name string) {
	if !ok {
		*d = append(*d, name)
	}
}

// projection of a decoded group to the abstract record of Codec.tla, relative to the original
func vcdProjectGroup(sch *crypto.Scheme, v map[string]any, orig, g *key.Group) (map[string]any, vcdDiff) {
	var diff vcdDiff
	p := map[string]any{"type": "group", "n": len(g.Nodes), "id": g.ID}
	if g.Threshold == orig.Threshold {
		p["thr"] = v["thr"]
	} else {
		p["thr"] = fmt.Sprintf("other:%d", g.Threshold)
	}
	switch g.TransitionTime {
	case 0:
		p["transition"] = 0
	case vcdTransition:
		p["transition"] = 1
	default:
		p["transition"] = 2
	}
	switch {
	case len(g.GenesisSeed) == 0:
		p["seed"] = "none"
	case bytes.Equal(g.GenesisSeed, vhsSeed("S")):
		p["seed"] = "S"
	case bytes.Equal(g.GenesisSeed, orig.Hash()):
		p["seed"] = "hash"
	default:
		p["seed"] = "other"
	}
	switch g.CatchupPeriod {
	case 0:
		p["catchup"] = 0
	case vcdCatchup:
		p["catchup"] = 1
	default:
		p["catchup"] = 2
	}
	p["dist"] = 0
	if g.PublicKey != nil {
		p["dist"] = 1
	}
	var addrs []string
	var ks []int
	for k, n := range g.Nodes {
		if n.Identity != nil {
			addrs, ks = append(addrs, n.Addr), append(ks, k+1)
		}
	}
	p["addr"] = vcdAddrKindOf(addrs, ks, vcdStr(v, "addr"))
	with, without := 0, 0
	for _, n := range g.Nodes {
		if len(n.Signature) > 0 {
			with++
		} else {
			without++
		}
	}
	switch {
	case with > 0 && without == 0:
		p["sig"] = 1
	case with == 0:
		p["sig"] = 0
	default:
		p["sig"] = 2
	}
	// content
	diff.add(g.Period == orig.Period, "period")
	diff.add(g.GenesisTime == orig.GenesisTime, "genesis")
	diff.add(g.Scheme != nil && g.Scheme.Name == orig.Scheme.Name, "scheme")
	if len(g.Nodes) == len(orig.Nodes) {
		for k := range g.Nodes {
			a, b := g.Nodes[k], orig.Nodes[k]
			diff.add(a.Index == b.Index, fmt.Sprintf("node%d.index", k))
			diff.add(a.Identity != nil && a.Key != nil && a.Key.Equal(b.Key), fmt.Sprintf("node%d.key", k))
			diff.add(a.Identity != nil && a.Addr == b.Addr, fmt.Sprintf("node%d.addr", k))
			diff.add(a.Identity != nil && bytes.Equal(a.Signature, b.Signature), fmt.Sprintf("node%d.signature", k))
			diff.add(a.Identity != nil && a.Identity.Scheme != nil && a.Identity.Scheme.Name == sch.Name, fmt.Sprintf("node%d.scheme", k))
		}
	}
	if g.PublicKey != nil && orig.PublicKey != nil {
		diff.add(g.PublicKey.Equal(orig.PublicKey), "dist.coefficients")
	}
	return p, diff
}

func vcdWire[M proto.Message](in M, out M) error {
	b, err := proto.Marshal(in)
	if err != nil {
		return err
	}
	return proto.Unmarshal(b, out)
}

func vcdGroupDecode(path, dir string, store key.Store, g *key.Group, mutTOML func(*key.GroupTOML), mutProto func(*drand.GroupPacket)) (*key.Group, error) {
	switch path {
	case "toml", "file":
		gt := g.TOML().(*key.GroupTOML)
		if mutTOML != nil {
			mutTOML(gt)
		}
		var buf bytes.Buffer
		if err := toml.NewEncoder(&buf).Encode(gt); err != nil {
			return nil, err
		}
		if path == "toml" {
			gt2 := new(key.GroupTOML)
			if _, err := toml.Decode(buf.String(), gt2); err != nil {
				return nil, err
			}
			g2 := new(key.Group)
			return g2, g2.FromTOML(gt2)
		}
		if mutTOML == nil { // the real writer
			if err := store.SaveGroup(g); err != nil {
				return nil, err
			}
		} else if err := os.WriteFile(key.GroupFilePath(store), buf.Bytes(), 0o600); err != nil {
			return nil, err
		}
		return store.LoadGroup()
	case "proto":
		pg := g.ToProto(common.GetAppVersion())
		if mutProto != nil {
			mutProto(pg)
		}
		pg2 := new(drand.GroupPacket)
		if err := vcdWire(pg, pg2); err != nil {
			return nil, err
		}
		return key.GroupFromProto(pg2, nil)
	}
	return nil, fmt.Errorf("unknown path %s", path)
}

func vcdBeaconBytes(label string, sch *crypto.Scheme) []byte {
	switch label {
	case "short":
		return []byte{0x01}
	case "g1":
		b, _ := vhsPoint(sch, "sig").MarshalBinary()
		return b
	case "g2":
		return bytes.Repeat([]byte{0xff, 0x00, 0x7f, 0x80}, 24)
	case "zeros":
		return make([]byte, 48)
	}
	return nil
}

func vcdBeacon(sch *crypto.Scheme, v map[string]any) *common.Beacon {
	b := &common.Beacon{Signature: vcdBeaconBytes(vcdStr(v, "sig"), sch)}
	switch vcdStr(v, "prev") {
	case "empty":
		b.PreviousSig = []byte{}
	case "present":
		b.PreviousSig = vcdBeaconBytes("g2", sch)
	}
	switch vcdStr(v, "round") {
	case "one":
		b.Round = 1
	case "max":
		b.Round = ^uint64(0)
	}
	return b
}

func vcdProjectBeacon(sch *crypto.Scheme, b *common.Beacon) map[string]any {
	p := map[string]any{"type": "beacon", "prev": "other", "sig": "other", "round": "other"}
	switch {
	case len(b.PreviousSig) == 0:
		p["prev"] = "absent"
	case bytes.Equal(b.PreviousSig, vcdBeaconBytes("g2", sch)):
		p["prev"] = "present"
	}
	for _, l := range []string{"short", "g1", "g2", "zeros"} {
		if bytes.Equal(b.Signature, vcdBeaconBytes(l, sch)) {
			p["sig"] = l
		}
	}
	switch b.Round {
	case 0:
		p["round"] = "zero"
	case 1:
		p["round"] = "one"
	case ^uint64(0):
		p["round"] = "max"
	}
	return p
}

func vcdShare(sch *crypto.Scheme, v map[string]any) *key.Share {
	n := vcdInt(v, "commits")
	h := vhsSeed("share-scalar")
	return &key.Share{
		Scheme: sch,
		DistKeyShare: dkg.DistKeyShare{
			Commits: vcdDist(sch, n).Coefficients,
			Share:   &share.PriShare{I: vcdInt(v, "index"), V: sch.KeyGroup.Scalar().SetBytes(h)},
		},
	}
}

func vcdSchemes(seed int, quick bool) []string {
	all := crypto.ListSchemes()
	if quick {
		return []string{all[seed%len(all)], all[(seed+2)%len(all)]}
	}
	return all
}

func vcdPointsEqual(a, b []kyber.Point) bool {
	if len(a) != len(b) {
		return false
	}
	for i := range a {
		if !a[i].Equal(b[i]) {
			return false
		}
	}
	return true
}

func TestVerifCodec(t *testing.T) {
	if os.Getenv("VERIF_OUT") == "" {
		t.Skip("verif harness only")
	}
	tr := vlib.MustOpenTraceEnv()
	defer tr.Close()
	seed := vlib.EnvInt("VERIF_SEED", 1)
	quick := vlib.EnvStr("VERIF_TIER", "quick") == "quick"
	lines, err := vlib.LoadJSONLines(os.Getenv("VERIF_IN"))
	if err != nil {
		t.Fatal(err)
	}
	var trips []vcdTrip
	for _, l := range lines {
		var x vcdTrip
		if err := json.Unmarshal(l, &x); err != nil {
			t.Fatal(err)
		}
		trips = append(trips, x)
	}
	dir := t.TempDir()
	for si, name := range vcdSchemes(seed, quick) {
		sch, err := crypto.SchemeFromName(name)
		if err != nil {
			t.Fatal(err)
		}
		store := key.NewFileStore(filepath.Join(dir, fmt.Sprint(si)), "verif")
		for _, x := range trips {
			if (x.Sel == "first" && si != 0) || (x.Sel == "rest" && si == 0) {
				continue
			}
			v, path := x.V, x.Path
			over := x.Over
			if over == nil {
				over = map[string]any{"type": "none"}
			}
			hasOver := vcdStr(over, "type") != "none"
			ev := vlib.E{"scheme": name, "v": v, "path": path, "over": over, "err": "", "rest": true, "restdiff": "", "hasheq": true, "p": map[string]any{}}
			var diff vcdDiff
			fail := func(err error) { ev["err"] = err.Error() }
			switch vcdStr(v, "type") {
			case "group":
				orig := vcdGroup(sch, v)
				if hasOver && path == "file" {
					if err := store.SaveGroup(vcdGroup(sch, over)); err != nil {
						fail(err)
						break
					}
				}
				g2, err := vcdGroupDecode(path, dir, store, vcdGroup(sch, v), nil, nil)
				if err != nil {
					fail(err)
					break
				}
				if g2 == nil {
					fail(fmt.Errorf("decoder returned no group"))
					break
				}
				ev["p"], diff = vcdProjectGroup(sch, v, orig, g2)
				ev["hasheq"] = bytes.Equal(g2.Hash(), orig.Hash())
			case "badgroup":
				n := vcdInt(v, "n")
				bad := map[string]int{"thr_zero": 0, "thr_low": vcdMinT(n) - 1, "thr_high": n + 1, "scheme_unknown": vcdMinT(n)}[vcdStr(v, "kind")]
				g := &key.Group{Threshold: vcdMinT(n), Period: vcdPeriod, CatchupPeriod: vcdCatchup, Scheme: sch, ID: "a",
					Nodes: vcdNodes(sch, n, true, "host"), GenesisTime: vcdGenesis, GenesisSeed: vhsSeed("S")}
				if vcdInt(v, "dist") == 1 {
					k := bad
					if k < 1 {
						k = 1
					}
					g.PublicKey = vcdDist(sch, k)
				}
				unknown := vcdStr(v, "kind") == "scheme_unknown"
				g2, err := vcdGroupDecode(path, dir, store, g,
					func(gt *key.GroupTOML) {
						gt.Threshold = bad
						if unknown {
							gt.SchemeID = "unknown-scheme"
						}
					},
					func(pg *drand.GroupPacket) {
						pg.Threshold = uint32(bad)
						if unknown {
							pg.SchemeID = "unknown-scheme"
						}
					})
				delete(ev, "over")
				delete(ev, "p")
				delete(ev, "rest")
				delete(ev, "restdiff")
				delete(ev, "hasheq")
				ev["accepted"] = err == nil && g2 != nil
				ev["err"] = vhsErr(err)
				tr.Emit("Bad", ev)
				continue
			case "pair":
				label := "pair"
				h := vhsSeed("pair-scalar")
				sc := sch.KeyGroup.Scalar().SetBytes(h)
				orig := &key.Pair{Key: sc, Public: &key.Identity{Key: sch.KeyGroup.Point().Mul(sc, nil), Addr: vcdAddr(vcdStr(v, "addr"), 101),
					Signature: vcdSig(vcdInt(v, "sig") == 1, label), Scheme: sch}}
				p2 := new(key.Pair)
				if path == "toml" { // only the private part travels on this path
					var buf bytes.Buffer
					if err := toml.NewEncoder(&buf).Encode(orig.TOML()); err != nil {
						fail(err)
						break
					}
					pt := new(key.PairTOML)
					if _, err := toml.Decode(buf.String(), pt); err != nil {
						fail(err)
						break
					}
					if err := p2.FromTOML(pt); err != nil {
						fail(err)
						break
					}
					ev["p"] = map[string]any{"type": "pair", "sig": v["sig"], "addr": v["addr"]}
				} else {
					if hasOver {
						osc := sch.KeyGroup.Scalar().SetBytes(vhsSeed("other-pair-scalar"))
						other := &key.Pair{Key: osc, Public: &key.Identity{Key: sch.KeyGroup.Point().Mul(osc, nil), Addr: "a-much-longer-host-name-of-the-other-pair.verif.test:44444",
							Signature: vcdSig(vcdInt(over, "sig") == 1, "the-other-pair-with-a-longer-signature"), Scheme: sch}}
						if err := store.SaveKeyPair(other); err != nil {
							fail(err)
							break
						}
					}
					if err := store.SaveKeyPair(orig); err != nil {
						fail(err)
						break
					}
					p2, err = store.LoadKeyPair()
					if err != nil {
						fail(err)
						break
					}
					s := 0
					if len(p2.Public.Signature) > 0 {
						s = 1
					}
					ev["p"] = map[string]any{"type": "pair", "sig": s, "addr": vcdAddrKindOf([]string{p2.Public.Addr}, []int{101}, "")}
					diff.add(p2.Public.Key != nil && p2.Public.Key.Equal(orig.Public.Key), "public.key")
					diff.add(p2.Public.Addr == orig.Public.Addr, "public.addr")
					diff.add(bytes.Equal(p2.Public.Signature, orig.Public.Signature), "public.signature")
				}
				diff.add(p2.Key != nil && p2.Key.Equal(orig.Key), "key")
				diff.add(p2.Public != nil && p2.Public.Scheme != nil && p2.Public.Scheme.Name == sch.Name, "scheme")
			case "identity":
				orig := &key.Identity{Key: vhsPoint(sch, "identity"), Addr: vcdAddr(vcdStr(v, "addr"), 102), Signature: vcdSig(vcdInt(v, "sig") == 1, "id"), Scheme: sch}
				var i2 *key.Identity
				if path == "toml" {
					var buf bytes.Buffer
					if err := toml.NewEncoder(&buf).Encode(orig.TOML()); err != nil {
						fail(err)
						break
					}
					pt := new(key.PublicTOML)
					if _, err := toml.Decode(buf.String(), pt); err != nil {
						fail(err)
						break
					}
					i2 = new(key.Identity)
					if err := i2.FromTOML(pt); err != nil {
						fail(err)
						break
					}
				} else {
					pi := new(drand.Identity)
					if err := vcdWire(orig.ToProto(), pi); err != nil {
						fail(err)
						break
					}
					i2, err = key.IdentityFromProto(pi, sch)
					if err != nil {
						fail(err)
						break
					}
				}
				s := 0
				if len(i2.Signature) > 0 {
					s = 1
				}
				ev["p"] = map[string]any{"type": "identity", "sig": s, "addr": vcdAddrKindOf([]string{i2.Addr}, []int{102}, "")}
				diff.add(i2.Key != nil && i2.Key.Equal(orig.Key), "key")
				diff.add(i2.Addr == orig.Addr, "addr")
				diff.add(bytes.Equal(i2.Signature, orig.Signature), "signature")
				diff.add(i2.Scheme != nil && i2.Scheme.Name == sch.Name, "scheme")
			case "share":
				orig := vcdShare(sch, v)
				s2 := new(key.Share)
				if path == "toml" {
					var buf bytes.Buffer
					if err := toml.NewEncoder(&buf).Encode(orig.TOML()); err != nil {
						fail(err)
						break
					}
					st := new(key.ShareTOML)
					if _, err := toml.Decode(buf.String(), st); err != nil {
						fail(err)
						break
					}
					if err := s2.FromTOML(st); err != nil {
						fail(err)
						break
					}
				} else {
					if hasOver {
						if err := store.SaveShare(vcdShare(sch, over)); err != nil {
							fail(err)
							break
						}
					}
					if err := store.SaveShare(orig); err != nil {
						fail(err)
						break
					}
					s2, err = store.LoadShare()
					if err != nil {
						fail(err)
						break
					}
				}
				idx := -1
				if s2.Share != nil {
					idx = s2.Share.I
				}
				ev["p"] = map[string]any{"type": "share", "commits": len(s2.Commits), "index": idx}
				diff.add(vcdPointsEqual(s2.Commits, orig.Commits), "commits")
				diff.add(s2.Share != nil && s2.Share.V != nil && s2.Share.V.Equal(orig.Share.V), "share.V")
				diff.add(s2.Scheme != nil && s2.Scheme.Name == sch.Name, "scheme")
			case "info":
				seedBytes := map[string][]byte{"S": vhsSeed("S"), "L": append(vhsSeed("L1"), vhsSeed("L2")...)}
				orig := &Info{PublicKey: vhsPoint(sch, "dist:A"), ID: vcdStr(v, "id"), Period: vcdPeriod, Scheme: sch.Name,
					GenesisTime: vcdGenesis, GenesisSeed: seedBytes[vcdStr(v, "seed")]}
				var i2 *Info
				switch path {
				case "json":
					b, err := json.Marshal(orig)
					if err != nil {
						fail(err)
						break
					}
					i2 = new(Info)
					if err := json.Unmarshal(b, i2); err != nil {
						fail(err)
						i2 = nil
					}
				case "proto":
					pp := new(drand.ChainInfoPacket)
					if err := vcdWire(orig.ToProto(nil), pp); err != nil {
						fail(err)
						break
					}
					i2, err = InfoFromProto(pp)
					if err != nil {
						fail(err)
						i2 = nil
					}
				case "hexjson":
					var buf bytes.Buffer
					if err := orig.ToJSON(&buf, nil); err != nil {
						fail(err)
						break
					}
					i2, err = InfoFromJSON(&buf)
					if err != nil {
						fail(err)
						i2 = nil
					}
				}
				if i2 == nil {
					break
				}
				sl := "other"
				for l, b := range seedBytes {
					if bytes.Equal(b, i2.GenesisSeed) {
						sl = l
					}
				}
				ev["p"] = map[string]any{"type": "info", "id": i2.ID, "seed": sl}
				diff.add(i2.PublicKey != nil && i2.PublicKey.Equal(orig.PublicKey), "public_key")
				diff.add(i2.Period == orig.Period, "period")
				diff.add(i2.GenesisTime == orig.GenesisTime, "genesis_time")
				diff.add(i2.Scheme == orig.Scheme, "scheme")
				ev["hasheq"] = bytes.Equal(i2.Hash(), orig.Hash())
			case "beacon": // json path (the protobuf path lives in internal/chain/beacon)
				orig := vcdBeacon(sch, v)
				b, err := orig.Marshal()
				if err != nil {
					fail(err)
					break
				}
				b2 := new(common.Beacon)
				if err := b2.Unmarshal(b); err != nil {
					fail(err)
					break
				}
				ev["p"] = vcdProjectBeacon(sch, b2)
			default:
				continue
			}
			if len(diff) > 0 {
				ev["rest"], ev["restdiff"] = false, strings.Join(diff, ",")
			}
			tr.Emit("RT", ev)
		}
	}
}
