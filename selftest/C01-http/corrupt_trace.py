#!/usr/bin/env python3
"""Hand-corruption self-test of Trace_HttpRelay (not a registered check).
usage: python3 selftest/C01-http/corrupt_trace.py [.work/C01/httprelay.ndjson]
Takes a trace recorded from the unchanged tree, corrupts ONE recorded field in four different ways and shows
that TLC raises the corresponding alarm each time (the untouched trace raises none)."""
import json, os, sys
sys.path.insert(0, os.path.join(os.path.dirname(os.path.abspath(__file__)), "..", "..", "tools"))
import core

src = sys.argv[1] if len(sys.argv) > 1 else os.path.join(core.WORK, "C01", "httprelay.ndjson")
lines = [json.loads(l) for l in open(src)]


def first(pred):
    for i, e in enumerate(lines):
        if pred(e):
            return i
    raise SystemExit("no suitable line")


good = lambda e: e.get("ev") == "ReqStart" and e.get("res") == "resp" and e["resp"]["status"] == 200
cases = {
    "verifies-false": (first(good), lambda e: e["resp"].__setitem__("verifies", False), "signature-does-not-verify"),
    "other-round": (first(good), lambda e: e["resp"].__setitem__("bround", e["resp"]["bround"] + 1), "other-round"),
    "empty-body": (first(good), lambda e: e["resp"].update(blen=0, dec=False), "empty-200-body"),
    "latest-lags": (first(lambda e: e.get("ev") == "ReqLatest" and e["resp"]["status"] == 200 and e["hb"] >= 2),
                    lambda e: e["resp"].__setitem__("bround", e["hb"] - 1), "latest-is-not-a-head-during-the-call"),
    "state-drift": (first(lambda e: e.get("ev") == "WatchItem"), lambda e: e.__setitem__("lat", e["lat"] + 1), "Conformance"),
}
rc = 0
for name, (i, mut, want) in cases.items():
    ctx = core.Ctx("C01-httpcorrupt", "quick", 1)
    cp = [json.loads(json.dumps(e)) for e in lines]
    mut(cp[i])
    p = os.path.join(ctx.work, name + ".ndjson")
    with open(p, "w") as fh:
        for e in cp:
            fh.write(json.dumps(e) + "\n")
    ok, alarms, _ = ctx.validate_trace("Trace_HttpRelay", "Trace_HttpRelay.cfg", p)
    hit = [a for a in alarms if a["line"] == i + 1 and (a["part"] == want or a["mon"] == want) and a["shape"] in ("other", "")]
    print("%-16s line %d: %s" % (name, i + 1, "FLAGGED " + json.dumps(hit[0]) if hit else "NOT FLAGGED"))
    rc |= 0 if hit else 1
sys.exit(rc)
