#!/usr/bin/env python3
"""Self-test (not a registered check): corrupt ONE recorded field of a dkgcontrol trace and show that
TLC (Trace_DKG) flags it.  Usage: python3 selftest/corrupt_dkg_trace.py [.work/C08/dkgcontrol.ndjson]"""
import json, os, sys, shutil, tempfile
sys.path.insert(0, os.path.join(os.path.dirname(os.path.abspath(__file__)), "..", "tools"))
import core

src = sys.argv[1] if len(sys.argv) > 1 else os.path.join(core.WORK, "C08", "dkgcontrol.ndjson")
lines = [json.loads(l) for l in open(src)]
# keep some scenarios of every kind (the whole trace would only make TLC slower)
scens, cur = [], None
for e in lines:
    if e["ev"] == "Reset":
        cur = [e]
        scens.append(cur)
    elif cur is not None and e["ev"] != "Summary":
        cur.append(e)
kind = lambda sc: sc[0]["scenario"].split("-")[1]
keep, cnt = [], {}
for sc in scens:
    k = kind(sc)
    cnt[k] = cnt.get(k, 0) + 1
    if cnt[k] <= {"sweep": 10, "edge": 20, "cex": 10, "walk": 4}.get(k, 3):
        keep.append(sc)
lines = [e for sc in keep for e in sc]


def corrupt(name, pick, change):
    out, done = [], None
    for e in lines:
        e = json.loads(json.dumps(e))
        if done is None and pick(e):
            change(e)
            done = e["seq"]
        out.append(e)
    d = tempfile.mkdtemp(prefix="corrupt-", dir=core.WORK)
    f = os.path.join(d, "t.ndjson")
    with open(f, "w") as fh:
        for e in out:
            fh.write(json.dumps(e) + "\n")
    r = core.run_tlc(os.path.join(d, "tlc"), "Trace_DKG", "Trace_DKG.cfg", workers=1, timeout=600, dfs_queue=True,
                     files={f: "trace.ndjson"})
    alarms = []
    for tag, obj in core.parse_vp_prints(r.prints):
        if tag == "ALARMS":
            alarms = obj
    hit = sorted({(a["mon"], a["detail"]) for a in alarms if done is not None and abs(a["line"] - [x["seq"] for x in out].index(done) - 1) <= 1})
    print("%s: corrupted seq %s -> alarms at that line: %s" % (name, done, hit))
    shutil.rmtree(d, ignore_errors=True)
    return bool(hit)


ok = True
# 1. a refused packet is recorded as having moved the node to Executing
ok &= corrupt("refused-packet-changes-status",
              lambda e: e["ev"] == "Pkt" and e["res"] == "err" and e["cur"]["st"] in ("Proposed", "Accepted", "Joined"),
              lambda e: e["cur"].__setitem__("st", "Executing"))
# 2. the finished record disappears on an aborted attempt
ok &= corrupt("finished-record-lost",
              lambda e: e["ev"] in ("Cmd", "Pkt") and e["fin"]["st"] == "Complete" and e["cur"]["st"] == "Aborted",
              lambda e: e["fin"].update({"st": "None", "ep": 0, "fg": [], "hasfg": False, "share": False}))
# 3. a forged packet (wrong key) is recorded as accepted
ok &= corrupt("forged-accept-recorded-as-ok",
              lambda e: e["ev"] == "Pkt" and e["x"]["typ"] == "accept" and e["res"] == "err" and e["x"]["skey"] == "kf"
              and e["cur"]["st"] in ("Proposed", "Accepted", "Proposing") and e["x"]["arg"] in e["cur"]["rem"] and e["x"]["arg"] not in e["cur"]["acc"],
              lambda e: (e.__setitem__("res", "ok"), e["cur"]["acc"].append(e["x"]["arg"]), e["cur"]["acc"].sort()))
sys.exit(0 if ok else 1)
