#!/bin/bash
# Runs every C15 mutation in a scratch worktree of /repo (never /repo itself); expects exit 1 each time.
# usage: selftest/C15/run_mutations.sh [name ...]
set -u
WT=${WT:-/tmp/wt-vsy}
HERE=$(cd "$(dirname "$0")" && pwd)
[ -d "$WT" ] || git -C /repo worktree add --detach "$WT" HEAD >/dev/null 2>&1
names=("$@")
[ ${#names[@]} -eq 0 ] && names=(log-share-debug dkgstatus-share secure-file-0644 publickey-returns-private share-file-not-secure log-dkg-config revert-fix-F11)
for n in "${names[@]}"; do
  git -C "$WT" checkout -q .
  # baseline = the tree with F11 repaired (fix-F11.diff, until the worktree's HEAD contains it)
  grep -q "BoltStoreOpenPerm = 0600" "$WT/internal/dkg/store.go" || git -C "$WT" apply "$HERE/fix-F11.diff"
  git -C "$WT" apply "$HERE/$n.diff" || { echo "MUT $n: patch does not apply"; continue; }
  (cd /verif && VERIF_REPO=$WT timeout 1500 python3 tools/check.py C15 --tier quick > "/verif/.work/vsy-mut-$n.log" 2>&1; echo "MUT $n: exit $?"; grep -h "^VIOLATION\|^  what\|^KNOWN\|^INCONCLUSIVE" "/verif/.work/vsy-mut-$n.log" | cut -c1-260)
  git -C "$WT" checkout -q .
done
