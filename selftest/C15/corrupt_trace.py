#!/usr/bin/env python3
"""Self-test of the code->spec direction of C15: corrupt ONE recorded field of the trace recorded from the real
code and show that TLC (Trace_Secrecy.tla) raises the corresponding alarm at exactly that line.

usage: python3 selftest/C15/corrupt_trace.py [trace.ndjson]      (default: .work/C15/secrecy.ndjson, after a check run)
  secret  : the oracle verdict of one DKGStatus response is flipped to "contains a share"  -> NoSecretEmitted
  sens    : one Response bundle is marked as carrying a plain deal share                     -> OnlyPublicOrEncrypted
  mode    : the mode of one key file observation is changed from 0600 to 0644               -> SecretFileOwnerOnly (key.private)
  holds   : one dkg.db observation after a finished DKG is marked "no secret found"        -> ScannerBlind
  emitter : one emission is attributed to an emitter the specification does not list       -> UnknownEmitter
  dropped : one Step line of a replayed walk is removed                                     -> Conformance (file machine)
exit 0 if every corruption is flagged at the corrupted line (dropped: after it) and the clean trace has no alarm."""
import json, os, sys, shutil
sys.path.insert(0, os.path.join(os.path.dirname(os.path.abspath(__file__)), "..", "..", "tools"))
import core


def validate(lines, name):
    d = os.path.join(core.WORK, "C15-selftest", name)
    shutil.rmtree(d, ignore_errors=True)
    os.makedirs(d)
    t = os.path.join(d, "in.ndjson")
    with open(t, "w") as fh:
        fh.write("\n".join(lines) + "\n")
    r = core.run_tlc(d, "Trace_Secrecy", "Trace_Secrecy.cfg", workers=1, timeout=900, dfs_queue=True, files={t: "trace.ndjson"})
    alarms, done = [], False
    for tag, obj in core.parse_vp_prints(r.prints):
        if tag == "ALARMS":
            alarms = obj
        if tag == "DONE":
            done = True
    return done, alarms


def main():
    src = sys.argv[1] if len(sys.argv) > 1 else os.path.join(core.WORK, "C15", "secrecy.ndjson")
    lines = [l.strip() for l in open(src) if l.strip()]
    evs = [json.loads(l) for l in lines]
    done, base = validate(lines, "clean")
    print("clean trace (%d lines): consumed=%s, alarms: %d" % (len(lines), done, len(base)))
    ok = done and not base

    def find(pred):
        for i, e in enumerate(evs):
            if pred(e):
                return i
        return None
    cases = [
        ("secret", find(lambda e: e["ev"] == "Emit" and e["key"] == "dkgcontrol/DKGStatus" and not e["err"]),
         lambda e: e.update(secret=True, hits=["Share/hex:Share:n1:e1"]), "NoSecretEmitted"),
        ("sens", find(lambda e: e["ev"] == "Emit" and e["key"] == "dkg.bcast/Response"),
         lambda e: e.update(sens=True, hits=["DealShare/raw:DealShare:to-n2:1"]), "OnlyPublicOrEncrypted"),
        ("mode", find(lambda e: e["ev"] == "File" and e["kind"] == "key.private" and e["holds"] and not e["cmp"]),
         lambda e: e.update(mode=0o644), "SecretFileOwnerOnly"),
        ("holds", find(lambda e: e["ev"] == "File" and e["kind"] == "dkg.db" and e["holds"] and not e["cmp"]),
         lambda e: e.update(holds=False, hits=[]), "ScannerBlind"),
        ("emitter", find(lambda e: e["ev"] == "Emit" and e["key"] == "protocol/GetIdentity"),
         lambda e: e.update(key="protocol/GetPrivateKey"), "UnknownEmitter"),
    ]
    for name, idx, f, mon in cases:
        if idx is None:
            print("%s: no line to corrupt in this trace" % name)
            ok = False
            continue
        e = json.loads(lines[idx])
        f(e)
        mod = lines[:idx] + [json.dumps(e)] + lines[idx + 1:]
        d, al = validate(mod, name)
        hit = [a for a in al if a["mon"] == mon and a["line"] == idx + 1]
        print("%s: line %d corrupted -> consumed=%s, alarms %s; expected %s at that line: %s" % (
            name, idx + 1, d, sorted(set((a["mon"], a["line"]) for a in al)), mon, "FLAGGED" if hit else "MISSED"))
        ok = ok and d and bool(hit)
    idx = find(lambda e: e["ev"] == "Step" and e["op"] == "GenerateKey")
    if idx is None:
        print("dropped: no Step line")
        ok = False
    else:
        d, al = validate(lines[:idx] + lines[idx + 1:], "dropped")
        hit = [a for a in al if a["mon"] == "Conformance" and a["line"] >= idx + 1]
        print("dropped: Step line %d removed -> consumed=%s, %d Conformance alarms from line %s: %s" % (
            idx + 1, d, len(hit), min([a["line"] for a in hit], default="-"), "FLAGGED" if hit else "MISSED"))
        ok = ok and d and bool(hit)
    print("PASS" if ok else "FAIL")
    sys.exit(0 if ok else 1)


if __name__ == "__main__":
    main()
