#!/usr/bin/env python3
"""Self-test of the trace binding: take a trace recorded by the last C11 run, corrupt ONE recorded
field (the round of one successful live Send is replaced by the following round, digest adjusted
or not), run Trace_SyncServe on it and print the alarms that TLC raises for the corrupted line.
usage: python3 selftest/C11/corrupt_trace.py [trace.ndjson]"""
import json, os, sys
sys.path.insert(0, os.path.join(os.path.dirname(os.path.abspath(__file__)), "..", "..", "tools"))
import core

src = sys.argv[1] if len(sys.argv) > 1 else os.path.join(core.WORK, "C11", "serve-1.ndjson")
lines = open(src).read().splitlines()
# pick a scenario without alarms: first successful Send of a scenario whose name has "-beh-"
scen, target = None, None
for i, ln in enumerate(lines):
    e = json.loads(ln)
    if e["ev"] == "Reset":
        scen = e.get("scenario", "")
    if e["ev"] == "Send" and e.get("res") == "ok" and "-beh-" in (scen or "") and target is None:
        target = i
e = json.loads(lines[target])
print("corrupting line %d: %s" % (target + 1, lines[target]))
e["r"] += 1
lines[target] = json.dumps(e, separators=(",", ":"))
ctx = core.Ctx("C11-corrupt", "quick", 1)
out = os.path.join(ctx.work, "corrupt.ndjson")
open(out, "w").write("\n".join(lines) + "\n")
ok, alarms, res = ctx.validate_trace("Trace_SyncServe", "Trace_SyncServe.cfg", out)
hits = [a for a in alarms if a["line"] == target + 1 or a["mon"] in ("DigestOk",)]
for a in hits[:5]:
    print("ALARM", a)
print("corrupted trace flagged: %s" % bool(hits))
sys.exit(0 if hits else 1)
