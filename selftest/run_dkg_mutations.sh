#!/bin/bash
# Mutation self-test for C08 / C09 (not a registered check). Usage: selftest/run_dkg_mutations.sh [C08|C09 ...]
# Applies every selftest/<Cnn>/*.diff in a scratch worktree of /repo and expects exit 1 from the check.
set -u
WT=/tmp/wt-vdk
git -C /repo worktree list | grep -q "$WT" || git -C /repo worktree add --detach $WT HEAD >/dev/null 2>&1
props=${@:-C08 C09}
for prop in $props; do
  for d in /verif/selftest/$prop/*.diff; do
    name=$(basename $d .diff)
    git -C $WT checkout -- . >/dev/null 2>&1
    # the repairs of F24 / F14-executing (uncommitted in /repo until the lead commits them) belong to the baseline
    for fx in /verif/selftest/C09/fix-F24.diff /verif/selftest/C08/fix-F14-executing.diff; do
      git -C $WT apply --check $fx 2>/dev/null && git -C $WT apply $fx
    done
    case $name in fix-*|revert-fix-*) continue;; esac
    if ! git -C $WT apply $d; then echo "$prop $name: PATCH DOES NOT APPLY"; continue; fi
    out=/verif/.work/selftest-$prop-$name.out
    ( cd /verif && VERIF_REPO=$WT timeout 1500 python3 tools/check.py $prop --tier quick > $out 2>&1 ); rc=$?
    echo "$prop $name: exit=$rc  $(grep -c '^VIOLATION' $out) violation line(s): $(grep -A1 '^VIOLATION' $out | grep 'what:' | sed 's/.*monitor \([A-Za-z0-9_]*\) failed (\([^)]*\)).*/\1[\2]/' | sort | uniq -c | tr '\n' ' ')"
    git -C $WT checkout -- . >/dev/null 2>&1
  done
done
