#!/bin/bash
# Applies each mutation of /verif/selftest/C18/*.diff (not the fix-*.diff) in a scratch worktree of /repo and runs the
# C18 check on it.  The mutations are written against the REPAIRED code: if /repo's HEAD does not contain the fixes
# fix-F7.diff / fix-F15.diff yet, they are applied to the worktree first.
# usage: run_mutations.sh [name ...]     (expects exit 1 for every mutation; "none" runs the repaired tree: expects 0)
set -u
WT=/tmp/wt-vsb
D=/verif/selftest/C18
cd /verif
[ -d $WT ] || git -C /repo worktree add --detach $WT HEAD >/dev/null 2>&1
reset_wt() {
  git -C $WT checkout -q -- .
  for f in fix-F7 fix-F15; do
    git -C $WT apply --check $D/$f.diff 2>/dev/null && git -C $WT apply $D/$f.diff
  done
}
names="$@"
[ -z "$names" ] && names=$(cd $D && ls *.diff | grep -v '^fix-' | sed 's/\.diff$//')
for n in $names; do
  reset_wt
  if [ "$n" != none ]; then
    git -C $WT apply $D/$n.diff || { echo "$n: patch does not apply"; continue; }
  fi
  VERIF_REPO=$WT VERIF_TLC_WORKERS=${VERIF_TLC_WORKERS:-4} timeout 2400 python3 tools/check.py C18 --tier quick > /verif/.work/vsb-mut-$n.log 2>&1
  rc=$?
  echo "== $n: exit $rc"
  grep -E "^KNOWN-FINDING|^VIOLATION|^  what|^INCONCLUSIVE" /verif/.work/vsb-mut-$n.log | cut -c1-260 | head -8
done
git -C $WT checkout -q -- .
rm -f /verif/replays/C18-*.json    # replays of mutated trees are not findings
