#!/bin/bash
# Applies each mutation of /verif/selftest/C18/*.diff in a scratch worktree of /repo and runs the C18 check on it.
# usage: run_mutations.sh [name ...]     (expects exit 1 for every mutation)
set -u
WT=/tmp/wt-vsb
cd /verif
[ -d $WT ] || git -C /repo worktree add --detach $WT HEAD >/dev/null 2>&1
names="$@"
[ -z "$names" ] && names=$(cd /verif/selftest/C18 && ls *.diff | sed 's/\.diff$//')
for n in $names; do
  git -C $WT checkout -q -- . && git -C $WT apply /verif/selftest/C18/$n.diff || { echo "$n: patch does not apply"; continue; }
  VERIF_REPO=$WT VERIF_TLC_WORKERS=${VERIF_TLC_WORKERS:-4} timeout 1500 python3 tools/check.py C18 --tier quick > /verif/.work/vsb-mut-$n.log 2>&1
  rc=$?
  echo "== $n: exit $rc"
  grep -E "^VIOLATION|^  what|^INCONCLUSIVE" /verif/.work/vsb-mut-$n.log | cut -c1-260 | head -8
  git -C $WT checkout -q -- .
done
