#!/usr/bin/env python3
"""Self-test of the code->spec direction of C18: corrupt ONE recorded field of a trace recorded from the
real stores and show that TLC (Trace_StoreBackend.tla) raises an alarm at exactly that line.

usage: python3 selftest/C18/corrupt_trace.py [trace.ndjson]     (default: .work/C18/backend.ndjson)
Three corruptions are tried on the first 4000 lines of the trace:
  label   : the round label of a successful untrimmed-bolt Get is changed   -> LabelMatchesData + RefinesSortedMap
  value   : the identity of a signature returned by a memdb read is changed  -> RefinesSortedMap
  dropped : one successful Put event is removed                               -> RefinesSortedMap later on
exit 0 if every corruption is flagged at/after the corrupted line and the uncorrupted prefix is clean."""
import json, os, sys, shutil
sys.path.insert(0, os.path.join(os.path.dirname(os.path.abspath(__file__)), "..", "..", "tools"))
import core

KNOWN = set()   # (backend, shape) of recorded known findings: none left (F7, F15 repaired)


def validate(lines, name):
    d = os.path.join(core.WORK, "C18-selftest", name)
    shutil.rmtree(d, ignore_errors=True)
    os.makedirs(d)
    t = os.path.join(d, "in.ndjson")
    with open(t, "w") as fh:
        fh.write("\n".join(lines) + "\n")
    r = core.run_tlc(d, "Trace_StoreBackend", "Trace_StoreBackend.cfg", workers=1, timeout=900, dfs_queue=True,
                     files={t: "trace.ndjson"})
    alarms, done = [], False
    for tag, obj in core.parse_vp_prints(r.prints):
        if tag == "ALARMS":
            alarms = obj
        if tag == "DONE":
            done = True
    return done, [a for a in alarms if (a["backend"], a["shape"]) not in KNOWN]


def main():
    src = sys.argv[1] if len(sys.argv) > 1 else os.path.join(core.WORK, "C18", "backend.ndjson")
    allines = [l.strip() for l in open(src) if l.strip()]
    # keep whole scenarios: one of each back-end, cut at Reset lines
    lines, seen, cur, keep = [], set(), [], False
    for l in allines:
        e = json.loads(l)
        if e["ev"] == "Reset":
            if keep:
                lines += cur
            cur, keep = [], False
            if e["backend"] not in seen and e["scenario"].startswith("random-"):
                seen.add(e["backend"])
                keep = True
        cur.append(l)
        if len(seen) == 4 and not keep:
            break
    if keep:
        lines += cur
    done, base = validate(lines, "clean")
    print("clean trace (%d lines, back-ends %s): consumed=%s, alarms other than the known findings: %d" % (len(lines), sorted(seen), done, len(base)))
    ok = done and not base
    be = None
    targets = {}
    for i, l in enumerate(lines):
        e = json.loads(l)
        if e["ev"] == "Reset":
            be = e["backend"]
        elif e["ev"] == "Op":
            if be == "bolt" and e["op"] == "get" and e["res"]["ok"] and "label" not in targets:
                targets["label"] = i
            if be == "memdb" and e["op"] in ("get", "last", "first") and e["res"]["ok"] and "value" not in targets:
                targets["value"] = i
            if be == "trimmed" and e["op"] == "put" and "dropped" not in targets and i > 0 and json.loads(lines[i - 1])["ev"] == "Op":
                targets["dropped"] = i
    for kind, i in sorted(targets.items()):
        mod = list(lines)
        e = json.loads(mod[i])
        if kind == "label":
            e["res"]["round"] += 1
            mod[i] = json.dumps(e, separators=(",", ":"))
        elif kind == "value":
            e["res"]["sig"][2] += 1
            mod[i] = json.dumps(e, separators=(",", ":"))
        else:
            del mod[i]
        done, al = validate(mod, kind)
        hit = [a for a in al if a["line"] >= i + 1 - (1 if kind == "dropped" else 0)]
        print("corruption %-7s at line %d (%s): consumed=%s -> %s" % (
            kind, i + 1, lines[i][:110], done, sorted({(a["mon"], a["op"], a["line"]) for a in al}) or "NOT FLAGGED"))
        ok = ok and done and bool(hit)
    print("corrupt-trace self-test:", "PASS" if ok and len(targets) == 3 else "FAIL")
    return 0 if ok and len(targets) == 3 else 1


if __name__ == "__main__":
    sys.exit(main())
