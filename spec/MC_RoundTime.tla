---------------------------- MODULE MC_RoundTime ----------------------------
(* Exhaustive TLC configurations of RoundTime.tla.                           *)
(*  grid : the statement's small grid on a machine wide enough that no guard  *)
(*         applies: decides the ideal relations (uniqueness, next, monotone). *)
(*  word : scaled-down WordBits-bit machines with the domain scaled like the  *)
(*         statement's (periods < 2^(W/2), genesis <= 2^(W/2), instants up to *)
(*         2^(W-5) after genesis, EVERY round number of the machine): decides *)
(*         that the guard as designed never lets a wrapped, negative or       *)
(*         beyond-the-buffer time out.                                        *)
EXTENDS RoundTime, TLC

MCPow2(k) == 2^k
MCFloorLog2(x) == CHOOSE k \in 0..(WordBits - 1) : 2^k <= x /\ x < 2^(k + 1)

GridPeriods == 1..6
GridGeneses == 0..5
GridRounds == 0..45
GridElapsed == 0..40

Half == WordBits \div 2
WordPeriods == 1..(2^Half - 1)
WordGeneses == 0..(2^Half)
WordRounds == 0..(MaxU - 1)
WordElapsed == 0..(2^(WordBits - 5))
=============================================================================
