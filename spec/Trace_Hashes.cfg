SPECIFICATION TraceSpec
CONSTANTS
  Family = "trace"
  Periods = {3}
  Geneses = {1}
  Firsts = {"A"}
  Seeds = {"S1"}
  Ids = {""}
  NodeIdx = {0}
  NodeKeys = {"N1"}
  MaxNodes = 1
  Transitions = {0}
  Rests = {"x"}
INVARIANT AtEnd
CHECK_DEADLOCK FALSE
