SPECIFICATION SimSpec
CONSTANTS
  Streams = {1}
  SameAddr = FALSE
  Writers = {1}
  Q = 100
  InitHead = 2
  MaxR = 4
  Froms = {0, 1, 2, 3, 4, 5, 1000}
  Backend = "bolt"
  Buf = 100
  Remap = FALSE
  Faults = {}
  MaxFaults = 0
  HoldReg = FALSE
CHECK_DEADLOCK FALSE
