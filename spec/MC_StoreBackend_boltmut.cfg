SPECIFICATION Spec
CONSTANTS
  Kinds = {"bolt"}
  K = 3
  Rounds = {0,1,2}
  Vals = {1,2}
  MaxPos = 5
  MutInCursor = TRUE
  Depth = 0
INVARIANTS TypeOK Inv_Sorted Inv_Capacity Inv_Content
PROPERTIES Act_Strict
VIEW View
