SPECIFICATION SimSpec
CONSTANTS
  Streams = {1}
  SameAddr = FALSE
  Writers = {1}
  Q = 100
  InitHead = 2
  MaxR = 4
  Froms = {0, 2}
  Backend = "bolt"
  Buf = 100
  Remap = FALSE
  Faults = {"wcancel"}
  MaxFaults = 1
  HoldReg = FALSE
CHECK_DEADLOCK FALSE
