SPECIFICATION TraceSpec
CONSTANTS
  Cap = 10
  MaxCalls = 100
INVARIANT AtEnd
CHECK_DEADLOCK FALSE
