------------------------------ MODULE SyncServe ------------------------------
(***************************************************************************)
(* Stream server + callback layer of one drand node, transcribed from      *)
(*   internal/chain/beacon/sync_manager.go : SyncChain                      *)
(*   internal/chain/beacon/store.go        : callbackStore.Put /            *)
(*                                           AddCallback / RemoveCallback / *)
(*                                           runWorker, appendStore.Put     *)
(*   internal/chain/boltdb (cursor = read transaction = snapshot at open)   *)
(*   internal/chain/memdb  (round-based cursor over the live ring buffer)   *)
(* One action per critical section / call (Appendix A.2 of DESIGN.md).      *)
(*                                                                         *)
(* store      rounds lo..head (content is a function of the round; the      *)
(*            trace spec compares digests separately)                       *)
(* writer w   Put = Store(w) [appendStore lock: head+1 becomes visible]     *)
(*                  RLock(w) [callbackStore read lock, snapshot of the      *)
(*                            registered callbacks]                         *)
(*                  DispatchSend(w,s)* [BLOCKING send into the queue of s]  *)
(*                  DispatchDone(w) [RUnlock, Put returns]                  *)
(* callback   one registration per stream: queue q[s] (capacity Q), channel *)
(*            state ch[s], worker wk[s]: WorkTake(s) (receive from the      *)
(*            channel) then WorkCall(s) (run the callback = send / close)   *)
(* stream s   Open -> [refused] -> ScanBegin -> ScanSend* -> afterScan ->   *)
(*            Register (AddCallback, replaces the callback with the same    *)
(*            id = address) -> live -> End                                  *)
(* consumer   reading | stalled (Send never returns) | disc (Send errors);  *)
(*            "slow" is reading under an unfair scheduler. ctxd = the       *)
(*            stream context was cancelled.                                 *)
(*                                                                         *)
(* Deliberate deviations (named): Go's pending-writer preference of         *)
(* RWMutex is not modelled (RLock is granted whenever no writer holds the   *)
(* lock); the order in which Put walks the callback map is free; errChan    *)
(* overflow of an orphaned worker is not modelled.                          *)
(***************************************************************************)
EXTENDS Naturals, Sequences, FiniteSets, TLC

CONSTANTS Streams,    \* stream (client connection) ids, naturals >= 1
          SameAddr,   \* TRUE: all streams come from one address (callback id collides)
          Writers,    \* goroutines calling Put (aggregator, sync manager)
          Q,          \* CallbackWorkerQueue
          InitHead,   \* rounds 0..InitHead stored initially
          MaxR,       \* last round the writers append
          Froms,      \* start rounds requested by clients
          Backend,    \* "bolt" (snapshot cursor) | "mem" (live cursor that remembers its round)
          Buf,        \* memdb buffer size (eviction of the oldest beyond it)
          Remap,      \* TRUE: every bolt write has to grow (re-map) the file - bbolt cannot re-map while a
                      \* read transaction (cursor scan) is open, the write waits for all open scans
          Faults,     \* subset of {"stall","disc","cancel","resume"} the environment may inject ("resume": a
                      \* stalled consumer may start reading again)
          MaxFaults   \* at most this many fault injections per behaviour

VARIABLES head, lo,           \* store
          wr,                 \* [Writers -> [pc, r, todo]]
          lockW,              \* stream holding the WRITE lock while blocked inside AddCallback (0 = none)
          cbs,                \* address -> stream whose callback is registered (0 = none)
          ch, q, wk, item,    \* per registration: channel state, queue, worker state, item in hand
          pc, from, cur, snap, pos, sent, phase, cons, ctxd, err, why,
          nfault,
          due,                \* history: rounds put into the queue of each stream's registration (see DueUpdate)
          dispd               \* history: rounds whose Put reached the dispatch (took the read lock)

vars == <<head, lo, wr, lockW, cbs, ch, q, wk, item, pc, from, cur, snap, pos, sent, phase, cons, ctxd, err, why, nfault, due, dispd>>

AddrOf(s) == IF SameAddr THEN 1 ELSE s
Addrs == {AddrOf(s) : s \in Streams}
CLOSE == 0   \* the "close" pair pushed by AddCallback when it replaces a callback (rounds dispatched are >= 1)

-----------------------------------------------------------------------------
(* Pure operators shared with Trace_SyncServe                                *)

Last(seq) == seq[Len(seq)]
Range(seq) == {seq[i] : i \in DOMAIN seq}

\* SyncChain head check: `last.Round < fromRound` => ErrNoBeaconStored
Refuses(h, f) == h < f
\* what a bolt cursor opened at head = h delivers for Seek(f); Next*
ScanRounds(f, h) == IF f = 0 THEN <<>> ELSE [i \in 1..(IF h >= f THEN h - f + 1 ELSE 0) |-> f + i - 1]

\* ---- C11 monitors over the sequence of rounds handed to Send of ONE stream
NoRepeat(seq) == \A i, j \in DOMAIN seq : i # j => seq[i] # seq[j]
InOrder(seq)  == \A i \in DOMAIN seq : i > 1 => seq[i - 1] <= seq[i]
\* no STORED round is skipped: l = lowest round the store still holds.  bolt keeps everything (l = 0,
\* i.e. every jump is a gap); the memdb ring buffer forgets its oldest rounds, a round that was evicted
\* before the stream reached it cannot be delivered any more and is not counted as skipped
NoGapL(seq, l) == \A i \in DOMAIN seq : i > 1 => \A m \in (seq[i - 1] + 1)..(seq[i] - 1) : m < l
NoGap(seq)    == NoGapL(seq, 0)
FromStart(seq, f) == (f # 0 /\ Len(seq) > 0) => seq[1] = f
Contiguous(seq, f) == NoRepeat(seq) /\ InOrder(seq) /\ NoGap(seq) /\ FromStart(seq, f)
\* incremental form: is appending r to seq still fine?  (name of the first monitor that breaks, or "ok")
SendVerdictL(seq, f, r, l) ==
  IF Len(seq) = 0 THEN (IF f # 0 /\ r # f THEN "FromStart" ELSE "ok")
  ELSE IF r \in Range(seq) THEN "NoRepeat"
  ELSE IF r < Last(seq) THEN "InOrder"
  ELSE IF \E m \in (Last(seq) + 1)..(r - 1) : m >= l THEN "NoGap"
  ELSE "ok"
SendVerdict(seq, f, r) == SendVerdictL(seq, f, r, 0)
\* the monitors broken by some prefix of seq, judged send by send as the trace spec does
VerdictsL(seq, f, l) == {SendVerdictL(SubSeq(seq, 1, i - 1), f, seq[i], l) : i \in DOMAIN seq} \ {"ok"}
Verdicts(seq, f) == VerdictsL(seq, f, 0)
\* a healthy registered stream has received everything once the system is quiet
Complete(seq, f, h) == LET R == Range(seq) IN
                       IF f # 0 THEN \A r \in f..h : r \in R
                       ELSE Len(seq) > 0 => \A r \in seq[1]..h : r \in R
\* ... except rounds the ring buffer no longer holds
CompleteL(seq, f, h, l) == LET R == Range(seq) IN
                           IF f # 0 THEN \A r \in f..h : r \in R \/ r < l
                           ELSE Len(seq) > 0 => \A r \in seq[1]..h : r \in R \/ r < l
Missing(seq, f, h) == LET R == Range(seq) IN
                      IF f # 0 THEN {r \in f..h : r \notin R}
                      ELSE IF Len(seq) > 0 THEN {r \in seq[1]..h : r \notin R} ELSE {}

-----------------------------------------------------------------------------
Init ==
  /\ head = InitHead
  /\ lo = IF Backend = "mem" /\ InitHead + 1 > Buf THEN (InitHead + 1) - Buf ELSE 0   \* the ring holds the last Buf rounds
  /\ wr = [w \in Writers |-> [pc |-> "idle", r |-> 0, todo |-> {}]]
  /\ lockW = 0
  /\ cbs = [a \in Addrs |-> 0]
  /\ ch = [s \in Streams |-> "none"]
  /\ q = [s \in Streams |-> <<>>]
  /\ wk = [s \in Streams |-> "none"]
  /\ item = [s \in Streams |-> 0]
  /\ pc = [s \in Streams |-> "init"]
  /\ from = [s \in Streams |-> 0]
  /\ cur = [s \in Streams |-> 0]
  /\ snap = [s \in Streams |-> 0]
  /\ pos = [s \in Streams |-> 0]
  /\ sent = [s \in Streams |-> <<>>]
  /\ phase = [s \in Streams |-> <<>>]
  /\ cons = [s \in Streams |-> "reading"]
  /\ ctxd = [s \in Streams |-> FALSE]
  /\ err = [s \in Streams |-> "none"]
  /\ why = [s \in Streams |-> "none"]
  /\ nfault = 0
  /\ due = [s \in Streams |-> {}]
  /\ dispd = {}

\* gRPC cancels the stream context when the handler returns
CtxDone(s) == ctxd[s] \/ pc[s] = "ended"

ReadLocked == \E w \in Writers : wr[w].pc = "dispatch"
LockFree == ~ReadLocked /\ lockW = 0

-----------------------------------------------------------------------------
(* Writer: callbackStore.Put(b) with b.Round = head+1                        *)

\* a bolt cursor scan holds a read transaction (db.View) from Cursor() until the callback returns
OpenScan == Backend = "bolt" /\ \E s \in Streams : pc[s] = "scan"

\* c.Store.Put: appendStore critical section, the beacon becomes visible to Last/cursors
Store(w) ==
  /\ \/ wr[w].pc = "idle" /\ ~(Remap /\ OpenScan) /\ \A v \in Writers : wr[v].pc # "storing"
     \/ wr[w].pc = "storing" /\ ~OpenScan
  /\ head < MaxR
  /\ head' = head + 1
  /\ lo' = IF Backend = "mem" /\ (head + 1) - lo + 1 > Buf THEN lo + 1 ELSE lo
  /\ wr' = [wr EXCEPT ![w] = [pc |-> "stored", r |-> head + 1, todo |-> {}]]
  /\ UNCHANGED <<lockW, cbs, ch, q, wk, item, pc, from, cur, snap, pos, sent, phase, cons, ctxd, err, why, nfault>>

\* the bolt write transaction inside appendStore.Put waits in db.mmap for the open scans (holding the
\* appendStore lock)
StoreWait(w) ==
  /\ wr[w].pc = "idle" /\ Remap /\ OpenScan /\ head < MaxR /\ \A v \in Writers : wr[v].pc # "storing"
  /\ wr' = [wr EXCEPT ![w].pc = "storing"]
  /\ UNCHANGED <<head, lo, lockW, cbs, ch, q, wk, item, pc, from, cur, snap, pos, sent, phase, cons, ctxd, err, why, nfault>>

\* c.RLock(): from here the set of callbacks is fixed until RUnlock
RLock(w) ==
  /\ wr[w].pc = "stored" /\ lockW = 0
  /\ wr' = [wr EXCEPT ![w].pc = "dispatch", ![w].todo = {cbs[a] : a \in {x \in Addrs : cbs[x] # 0}}]
  /\ UNCHANGED <<head, lo, lockW, cbs, ch, q, wk, item, pc, from, cur, snap, pos, sent, phase, cons, ctxd, err, why, nfault>>

\* j <- cbPair{cb, b}: blocks while the queue is full
DispatchSend(w, s) ==
  /\ wr[w].pc = "dispatch" /\ s \in wr[w].todo
  /\ Len(q[s]) < Q
  /\ q' = [q EXCEPT ![s] = Append(@, wr[w].r)]
  /\ wr' = [wr EXCEPT ![w].todo = @ \ {s}]
  /\ UNCHANGED <<head, lo, lockW, cbs, ch, wk, item, pc, from, cur, snap, pos, sent, phase, cons, ctxd, err, why, nfault>>

DispatchDone(w) ==
  /\ wr[w].pc = "dispatch" /\ wr[w].todo = {}
  /\ wr' = [wr EXCEPT ![w] = [pc |-> "idle", r |-> 0, todo |-> {}]]
  /\ UNCHANGED <<head, lo, lockW, cbs, ch, q, wk, item, pc, from, cur, snap, pos, sent, phase, cons, ctxd, err, why, nfault>>

-----------------------------------------------------------------------------
(* RemoveCallback(id): deletes whatever registration currently owns the id   *)
RemovedCbs(a) == [cbs EXCEPT ![a] = 0]
RemovedCh(a) == IF cbs[a] # 0 THEN [ch EXCEPT ![cbs[a]] = "closed"] ELSE ch

(* Worker of the registration of stream s (runWorker).  WorkTake = receive    *)
(* from the channel and run the callback up to the point where it either     *)
(* returns by itself (context done / close pair) or has entered stream.Send; *)
(* WorkCall = that Send returns (never, for a stalled consumer).             *)
WorkTake(s) ==
  /\ wk[s] = "idle" /\ Len(q[s]) > 0
  /\ q' = [q EXCEPT ![s] = Tail(@)]
  /\ LET x == Head(q[s]) IN
       IF CtxDone(s)                                  \* case <-ctx.Done(): return
         THEN UNCHANGED <<wk, item, err>>
       ELSE IF x = CLOSE                              \* errChan <- ErrCallbackReplaced
         THEN /\ err' = [err EXCEPT ![s] = IF @ = "none" THEN "replaced" ELSE @]
              /\ UNCHANGED <<wk, item>>
       ELSE /\ wk' = [wk EXCEPT ![s] = "busy"]        \* inside stream.Send(b)
            /\ item' = [item EXCEPT ![s] = x]
            /\ err' = err
  /\ UNCHANGED <<head, lo, wr, lockW, cbs, ch, pc, from, cur, snap, pos, sent, phase, cons, ctxd, why, nfault>>

\* stream.Send returned: nil for a reading consumer, an error when the consumer went away or the
\* context was cancelled meanwhile (then: RemoveCallback(id); errChan <- err)
WorkCall(s) ==
  /\ wk[s] = "busy"
  /\ \/ /\ ~CtxDone(s) /\ cons[s] = "reading"
        /\ sent' = [sent EXCEPT ![s] = Append(@, item[s])]
        /\ phase' = [phase EXCEPT ![s] = Append(@, "live")]
        /\ UNCHANGED <<err, cbs, ch>>
     \/ /\ (CtxDone(s) /\ cons[s] # "stalled") \/ cons[s] = "disc"
        /\ LockFree
        /\ cbs' = RemovedCbs(AddrOf(s))
        /\ ch' = RemovedCh(AddrOf(s))
        /\ err' = [err EXCEPT ![s] = IF @ = "none" THEN (IF CtxDone(s) THEN "ctx" ELSE "senderr") ELSE @]
        /\ UNCHANGED <<sent, phase>>
     \* cons[s] = "stalled": Send never returns, the worker stays busy
  /\ wk' = [wk EXCEPT ![s] = "idle"]
  /\ item' = [item EXCEPT ![s] = 0]
  /\ UNCHANGED <<head, lo, wr, lockW, q, pc, from, cur, snap, pos, cons, ctxd, why, nfault>>

WorkExit(s) ==
  /\ wk[s] = "idle" /\ ch[s] = "closed" /\ Len(q[s]) = 0
  /\ wk' = [wk EXCEPT ![s] = "none"]
  /\ UNCHANGED <<head, lo, wr, lockW, cbs, ch, q, item, pc, from, cur, snap, pos, sent, phase, cons, ctxd, err, why, nfault>>

-----------------------------------------------------------------------------
(* Stream                                                                    *)

End(s, w) == /\ pc' = [pc EXCEPT ![s] = "ended"] /\ why' = [why EXCEPT ![s] = w]

\* store.Last + head check
Open(s, f) ==
  /\ pc[s] = "init"
  /\ from' = [from EXCEPT ![s] = f]
  /\ IF Refuses(head, f) THEN End(s, "refused")
     ELSE /\ pc' = [pc EXCEPT ![s] = IF f = 0 THEN "afterScan" ELSE "cursor"]
          /\ why' = why
  /\ UNCHANGED <<head, lo, wr, lockW, cbs, ch, q, wk, item, cur, snap, pos, sent, phase, cons, ctxd, err, nfault>>

\* store.Cursor + Seek(from): bolt opens a read transaction (snapshot); memdb looks the round up in the live slice
ScanBegin(s) ==
  /\ pc[s] = "cursor"
  /\ snap' = [snap EXCEPT ![s] = head]
  /\ IF Backend = "bolt" /\ ctxd[s]
       THEN /\ End(s, "ctx")                              \* boltdb Cursor/Seek return ctx.Err() first
            /\ UNCHANGED <<cur, pos>>
       ELSE /\ why' = why
            /\ IF Backend = "mem" /\ from[s] < lo
                 THEN /\ pc' = [pc EXCEPT ![s] = "afterScan"]      \* Seek finds nothing: the scan is empty
                      /\ UNCHANGED <<cur, pos>>
                 ELSE /\ pc' = [pc EXCEPT ![s] = "scan"]
                      /\ cur' = [cur EXCEPT ![s] = from[s]]
                      /\ pos' = pos
  /\ UNCHANGED <<head, lo, wr, lockW, cbs, ch, q, wk, item, from, sent, phase, cons, ctxd, err, nfault>>

\* send(bb) followed by c.Next()
ScanSend(s) ==
  /\ pc[s] = "scan"
  /\ \/ /\ ctxd[s] /\ End(s, "ctx") /\ UNCHANGED <<sent, phase, cur, pos>>
     \/ /\ ~ctxd[s] /\ cons[s] = "disc" /\ End(s, "senderr") /\ UNCHANGED <<sent, phase, cur, pos>>
     \/ /\ ~ctxd[s] /\ cons[s] = "reading"
        /\ sent' = [sent EXCEPT ![s] = Append(@, cur[s])]
        /\ phase' = [phase EXCEPT ![s] = Append(@, "scan")]
        /\ why' = why
        /\ IF Backend = "bolt"
             THEN IF cur[s] + 1 <= snap[s]
                    THEN /\ cur' = [cur EXCEPT ![s] = @ + 1] /\ pc' = pc /\ pos' = pos
                    ELSE /\ pc' = [pc EXCEPT ![s] = "afterScan"] /\ UNCHANGED <<cur, pos>>
             ELSE \* memDBCursor.Next: the first stored beacon with a greater round (rounds evicted meanwhile are gone)
                  LET n == IF cur[s] + 1 >= lo THEN cur[s] + 1 ELSE lo IN
                  IF n <= head
                    THEN /\ cur' = [cur EXCEPT ![s] = n] /\ pc' = pc /\ pos' = pos
                    ELSE /\ pc' = [pc EXCEPT ![s] = "afterScan"] /\ UNCHANGED <<cur, pos>>
  /\ UNCHANGED <<head, lo, wr, lockW, cbs, ch, q, wk, item, from, snap, cons, ctxd, err, nfault>>

\* effect of AddCallback once the close pair (if any) could be pushed
Registered(s) ==
  LET a == AddrOf(s)
      o == cbs[a]
  IN /\ cbs' = [cbs EXCEPT ![a] = s]
     /\ ch' = [x \in Streams |-> IF x = s THEN "open" ELSE IF x = o THEN "closed" ELSE ch[x]]
     /\ q' = [x \in Streams |-> IF x = s THEN <<>> ELSE IF x = o THEN Append(q[x], CLOSE) ELSE q[x]]
     /\ wk' = [wk EXCEPT ![s] = "idle"]
     /\ pc' = [pc EXCEPT ![s] = "live"]
     /\ lockW' = 0

\* store.AddCallback(id, fn): write lock; replacing pushes a close pair into the OLD queue (blocking send)
Register(s) ==
  /\ pc[s] = "afterScan" /\ LockFree
  /\ LET o == cbs[AddrOf(s)] IN
       IF o # 0 /\ Len(q[o]) >= Q
         THEN /\ lockW' = s /\ pc' = [pc EXCEPT ![s] = "addBlocked"]
              /\ UNCHANGED <<cbs, ch, q, wk>>
         ELSE Registered(s)
  /\ UNCHANGED <<head, lo, wr, item, from, cur, snap, pos, sent, phase, cons, ctxd, err, why, nfault>>

RegisterUnblock(s) ==
  /\ pc[s] = "addBlocked" /\ lockW = s
  /\ Len(q[cbs[AddrOf(s)]]) < Q
  /\ Registered(s)
  /\ UNCHANGED <<head, lo, wr, item, from, cur, snap, pos, sent, phase, cons, ctxd, err, why, nfault>>

\* the final select of SyncChain
LiveEnd(s) ==
  /\ pc[s] = "live"
  /\ \/ /\ err[s] # "none" /\ End(s, err[s]) /\ UNCHANGED <<cbs, ch>>
     \/ /\ ctxd[s] /\ LockFree                     \* store.RemoveCallback(id); return ctx.Err()
        /\ cbs' = RemovedCbs(AddrOf(s)) /\ ch' = RemovedCh(AddrOf(s))
        /\ End(s, "ctx")
  /\ UNCHANGED <<head, lo, wr, lockW, q, wk, item, from, cur, snap, pos, sent, phase, cons, ctxd, err, nfault>>

-----------------------------------------------------------------------------
(* Environment: the remote consumer                                          *)
Active(s) == pc[s] \notin {"init", "ended"}
Fault(s, k) ==
  /\ k \in Faults \ {"resume", "wcancel"} /\ nfault < MaxFaults /\ Active(s) /\ cons[s] = "reading" /\ ~ctxd[s]
  /\ nfault' = nfault + 1
  /\ IF k = "cancel" THEN ctxd' = [ctxd EXCEPT ![s] = TRUE] /\ cons' = cons
     ELSE cons' = [cons EXCEPT ![s] = IF k = "stall" THEN "stalled" ELSE "disc"] /\ ctxd' = ctxd
  /\ UNCHANGED <<head, lo, wr, lockW, cbs, ch, q, wk, item, pc, from, cur, snap, pos, sent, phase, err, why>>

\* a stalled consumer starts reading again (the Send that did not return now returns)
Resume(s) ==
  /\ "resume" \in Faults /\ cons[s] = "stalled"
  /\ cons' = [cons EXCEPT ![s] = "reading"]
  /\ UNCHANGED <<head, lo, wr, lockW, cbs, ch, q, wk, item, pc, from, cur, snap, pos, sent, phase, ctxd, err, why, nfault>>

(* The context handed to Put may be cancelled at any time (the sync manager cancels / restarts a      *)
(* running sync).  As coded: the base store refuses a Put whose context is already done (bolt checks    *)
(* ctx first, memdb does not), and AFTER the write the context is never consulted again - a stored      *)
(* beacon is dispatched to every registered callback, and a Put parked on a full queue stays parked.    *)
(* So cancelling the writer's context is a no-op of the design once the write happened:                 *)
WCancel(w) ==
  /\ "wcancel" \in Faults /\ wr[w].pc \in {"stored", "dispatch"}
  /\ UNCHANGED vars
\* ... and before the write the Put returns ctx.Err() and nothing is stored
PutAborted(w) ==
  /\ "wcancel" \in Faults /\ wr[w].pc = "idle" /\ Backend = "bolt"
  /\ UNCHANGED vars

WriterNext == \E w \in Writers : Store(w) \/ StoreWait(w) \/ RLock(w) \/ DispatchDone(w) \/ \E s \in Streams : DispatchSend(w, s)
WorkerNext == \E s \in Streams : WorkTake(s) \/ WorkCall(s) \/ WorkExit(s)
StreamNext == \E s \in Streams : (\E f \in Froms : Open(s, f)) \/ ScanBegin(s) \/ ScanSend(s) \/ Register(s)
                                  \/ RegisterUnblock(s) \/ LiveEnd(s)
EnvNext == \/ \E s \in Streams : Resume(s) \/ \E k \in Faults \ {"resume", "wcancel"} : Fault(s, k)
           \/ \E w \in Writers : WCancel(w) \/ PutAborted(w)
SysNext == WriterNext \/ WorkerNext \/ StreamNext
\* bookkeeping of the history variable, conjoined to every step: a queue grows by at most one item
\* per step (a dispatched round, or the close pair)
DueUpdate == due' = [s \in Streams |->
                       IF Len(q'[s]) > Len(q[s]) /\ q'[s][Len(q'[s])] # CLOSE THEN due[s] \cup {q'[s][Len(q'[s])]}
                       ELSE due[s]]
             /\ dispd' = dispd \cup {wr[w].r : w \in {v \in Writers : wr[v].pc = "stored" /\ wr'[v].pc = "dispatch"}}
Next == (SysNext \/ EnvNext) /\ DueUpdate
Spec == Init /\ [][Next]_vars

-----------------------------------------------------------------------------
(* Monitors (observable state only)                                          *)

\* C11
Mon_NoRepeat  == \A s \in Streams : NoRepeat(sent[s])
Mon_InOrder   == \A s \in Streams : InOrder(sent[s])
Mon_NoGap     == \A s \in Streams : NoGapL(sent[s], lo)
\* the catch-up scan alone (cursor behaviour): consecutive scan sends skip no stored round
Mon_ScanNoGap == \A s \in Streams : \A i \in DOMAIN sent[s] :
                   (i > 1 /\ phase[s][i] = "scan") => \A m \in (sent[s][i - 1] + 1)..(sent[s][i] - 1) : m < lo
Mon_FromStart == \A s \in Streams : FromStart(sent[s], from[s])
\* every beacon in the store has been, or is being, dispatched to the callbacks registered at that time
Mon_StoredDispatched == \A r \in (InitHead + 1)..head :
                          r \in dispd \/ \E w \in Writers : wr[w].r = r /\ wr[w].pc = "stored"
\* nothing below the requested start round is ever handed to the stream (a request above the head is
\* refused; it is never turned into a "live only" stream)
Mon_BeforeStart == \A s \in Streams : from[s] # 0 => \A i \in DOMAIN sent[s] : sent[s][i] >= from[s]
Mon_C11 == Mon_BeforeStart /\ Mon_NoRepeat /\ Mon_InOrder /\ Mon_NoGap /\ Mon_FromStart

Healthy(s) == cons[s] = "reading" /\ ~ctxd[s]
Quiet == /\ \A w \in Writers : wr[w].pc = "idle"
         /\ \A s \in Streams : Len(q[s]) = 0 /\ wk[s] # "busy" /\ pc[s] \in {"init", "live", "ended"}
\* a healthy stream that is still open has everything once the system is quiet (a skipped round
\* is a violation even if no later round makes the gap visible; a stream whose callback was
\* removed behind its back silently stops)
Mon_LiveComplete == Quiet => \A s \in Streams :
                      (pc[s] = "live" /\ Healthy(s) /\ err[s] = "none") =>
                          ch[s] = "open" /\ CompleteL(sent[s], from[s], head, lo)

\* C12 (callback half)
StalledWorker(s) == wk[s] = "busy" /\ cons[s] = "stalled"
QueueStuck(s) == Len(q[s]) >= Q /\ StalledWorker(s)
WriterWaitsOnConsumer(w) ==
  \/ wr[w].pc = "dispatch" /\ \E s \in wr[w].todo : QueueStuck(s)          \* chan send in Put
  \/ wr[w].pc = "stored" /\ lockW # 0 /\ QueueStuck(cbs[AddrOf(lockW)])   \* RLock behind a blocked AddCallback
  \/ wr[w].pc = "storing" /\ Backend = "bolt"                             \* bolt re-map behind an open scan whose
     /\ \E s \in Streams : pc[s] = "scan" /\ cons[s] = "stalled"           \* consumer does not read
Mon_PutNeverWaitsOnConsumer == \A w \in Writers : ~WriterWaitsOnConsumer(w)

LockWedged == \/ \E w \in Writers : wr[w].pc = "dispatch" /\ \E s \in wr[w].todo : QueueStuck(s)
              \/ lockW # 0 /\ QueueStuck(cbs[AddrOf(lockW)])
WantsLock(s) == \/ pc[s] = "afterScan"
                \/ pc[s] = "addBlocked"
                \/ pc[s] = "live" /\ ctxd[s]
                \/ wk[s] = "busy" /\ cons[s] = "disc"
\* a stream other than the stalled one is never held up by the stalled consumer
Mon_OthersServed == ~(LockWedged /\ \E s \in Streams : cons[s] # "stalled" /\ WantsLock(s))
\* ... and keeps being served: once the queue of a healthy, registered stream is drained and its worker
\* is idle it has been handed every round dispatched to it, whatever the consumers of other
\* registrations - in particular of the same-address predecessor it replaced - are doing
ServedDue(s) == (/\ pc[s] = "live" /\ Healthy(s) /\ err[s] = "none" /\ ch[s] = "open"
                 /\ Len(q[s]) = 0 /\ wk[s] = "idle") => due[s] \subseteq Range(sent[s])
Mon_ReplacementServed == \A s \in Streams : ServedDue(s)
Mon_C12_callbacks == Mon_PutNeverWaitsOnConsumer /\ Mon_OthersServed /\ Mon_ReplacementServed

-----------------------------------------------------------------------------
TypeOK ==
  /\ head \in InitHead..MaxR /\ lo \in 0..head
  /\ \A s \in Streams : Len(q[s]) <= Q + 1
  /\ \A a \in Addrs : cbs[a] # 0 => ch[cbs[a]] = "open"
  /\ \A s \in Streams : ch[s] = "open" => cbs[AddrOf(s)] = s

\* everything the scan hands to Send is in the store, and live sends are dispatched rounds
Inv_SentStored == \A s \in Streams : \A i \in DOMAIN sent[s] : sent[s][i] <= head
=============================================================================
