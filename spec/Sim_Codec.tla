------------------------------ MODULE Sim_Codec ------------------------------
(* Spec -> code: TLC enumerates the complete value lattice of Codec.tla and    *)
(* writes it (with the paths each value has to travel) as JSON; the Go harness *)
(* concretises every value per scheme and runs the real encoders/decoders.     *)
EXTENDS Codec, Json, SequencesExt

VARIABLE done
SimInit == done = FALSE /\ val = [type |-> "none"] /\ op = [kind |-> "init"]
SimNext == /\ ~done
           /\ JsonSerialize("codec_catalogue.json",
                 [t \in Types |-> [paths |-> SetToSeq(PathsOf(t)), values |-> SetToSeq(ValuesOf(t)),
                                 overs |-> IF t = "badgroup" THEN <<>> ELSE SetToSeq(Overs(t))]])
           /\ PrintT(<<"VP", "CATALOGUE", ToJson([t \in Types |-> Cardinality(ValuesOf(t))])>>)
           /\ done' = TRUE /\ UNCHANGED vars
=============================================================================
