SPECIFICATION Spec
CONSTANTS
  W = {1, 2}
  MaxRound = 4
  Curs = {1, 2, 3, 4}
  Monotone = TRUE
  Ticks = FALSE
  IdleRec = FALSE
  Cap = 1
  Eager = FALSE
INVARIANTS TypeOK Inv_NoLaterRound Inv_RightRound
VIEW View
