------------------------------- MODULE Sim_DKG -------------------------------
(* Behaviour generation from DKG.tla (spec -> code direction).               *)
(*  - SimSpec: `-simulate' walks.  A walk is a multi-epoch history biased     *)
(*    towards what an honest network does next (so that epochs complete,      *)
(*    abort, fail and are retried) interleaved with arbitrary inputs of the   *)
(*    environment's catalogue.  Each walk is printed once as a JSON script    *)
(*    that the Go harness concretises with real keys and steps through a      *)
(*    real dkg.Process.                                                       *)
(*  - CexSpec: exhaustive search with the history variable (hidden by the     *)
(*    VIEW); the strict action properties of DKG.tla that the code as it is   *)
(*    violates yield shortest counterexamples, dumped with -dumpTrace json    *)
(*    and replayed on the real code (only there they become a verdict).       *)
EXTENDS DKG, Json

CONSTANTS Depth, Roles
VARIABLES hist, role,
          viol     \* monitor failures of the last step (computed once per transition; hidden by the VIEW)

svars == <<cur, fin, exec, tick, op, hist, role, viol>>
SimView == <<cur, fin, exec, tick, role>>

Step(x, o, t2) == /\ cur' = o.cur /\ fin' = o.fin /\ exec' = o.exec /\ tick' = t2
                  /\ op' = [x |-> x, res |-> o.res, why |-> o.why]
                  /\ hist' = Append(hist, x)
                  /\ role' = role
                  /\ viol' = C08Fails(role, x, t2, o.res, cur, fin, o.cur, o.fin)
                             \cup C09Fails(role, x, tick, o.res, cur, fin, o.cur, o.fin)
                             \cup (IF o.res = "panic" THEN {<<"Panic", x.k>>} ELSE {})

ApplyX(x) ==
  CASE x.k = "cmd" -> Step(x, CommandOp(role, cur, fin, exec, tick, x), tick)
    [] x.k = "pkt" -> Step(x, PacketOp(role, cur, fin, exec, tick, x), tick)
    [] x.k = "time" -> Step(x, TimeOp(cur, fin, exec, tick), tick + 1)
    [] x.k = "exec" -> Step(x, ExecOp(cur, fin, exec, tick, x.out), tick)

CallsAt(me, c, f, t) == Commands(me, c, f, t) \cup ProposalPackets(c, f, t) \cup FollowUpPackets(c, f, t)
AllInputs == CallsAt(role, cur, fin, tick)
             \cup (IF exec = "running" THEN {[k |-> "exec", out |-> "complete"], [k |-> "exec", out |-> "failed"]} ELSE {})
             \cup (IF tick < MaxTick THEN {[k |-> "time"]} ELSE {})

Kind(x) == CASE x.k = "cmd" -> "cmd-" \o x.cmd [] x.k = "pkt" -> "pkt-" \o x.typ [] x.k = "exec" -> "exec-" \o x.out [] OTHER -> "time"
RoleIn(me, d) == IF d.ldr = me THEN "ldr" ELSE IF me \in d.rem THEN "rem" ELSE IF me \in d.join THEN "join"
                 ELSE IF me \in d.leav THEN "leav" ELSE "none"

(* what an honest network / operator does next, as seen by this node *)
Honest ==
  LET base == Fallback(cur, fin)
      t == TermsOf(cur)
      nextProps == {p \in BaseProposals(cur, fin, tick) :
                      /\ (base.st = "Fresh" => p.ep = 1 \/ role \in p.join)
                      /\ (base.st # "Fresh" => p.ep = base.ep + 1)
                      /\ role \in p.rem \cup p.join \cup p.leav}
      asPkt(p) == Pkt("proposal", p, p, Addr[p.ldr], Key[p.ldr], "none", "none")
      asCmd(p) == Cmd(IF p.ep = 1 THEN "initial" ELSE "reshare", p, "none")
      propose == {IF p.ldr = role THEN asCmd(p) ELSE asPkt(p) : p \in nextProps}
      vote(a, ty) == Pkt(ty, t, t, Addr[a], Key[a], a, a)
      ctl(ty) == Pkt(ty, t, t, Addr[cur.ldr], Key[cur.ldr], "none", "none")
      others == cur.rem \ ({role} \cup cur.acc \cup cur.rej)
  IN IF exec = "running" THEN {[k |-> "exec", out |-> IF RandomElement(1..5) = 1 THEN "failed" ELSE "complete"]}
     ELSE IF cur.st \in {"Fresh", "Complete", "Left"} \cup Terminal THEN propose
     ELSE IF cur.st = "Proposed" THEN
            (IF role \in cur.rem THEN {Cmd("accept", NoTerms, "none"), Cmd("accept", NoTerms, "none"), Cmd("reject", NoTerms, "none")} ELSE {})
            \cup (IF role \in cur.join THEN {Cmd("join", NoTerms, IF cur.ep > 1 THEN "ok" ELSE "none")} ELSE {})
            \cup (IF role \in cur.leav THEN {ctl("execute")} ELSE {})
            \cup {vote(a, "accept") : a \in others}
     ELSE IF cur.st = "Proposing" THEN
            {vote(a, "accept") : a \in others} \cup {vote(a, "reject") : a \in others}
            \cup {Cmd("execute", NoTerms, "none"), Cmd("abort", NoTerms, "none")}
     ELSE IF cur.st \in {"Accepted", "Joined"} THEN
            {vote(a, "accept") : a \in others} \cup {ctl("execute"), ctl("execute"), ctl("abort")}
     ELSE IF cur.st = "Rejected" THEN {ctl("abort")}
     ELSE {}

SimInit == /\ cur = FreshRec /\ fin = NoneRec /\ exec = "none" /\ tick = 0
           /\ op = [x |-> [k |-> "init"], res |-> "ok", why |-> "init"]
           /\ hist = <<>> /\ role \in Roles /\ viol = {}

SimStep ==
  /\ Len(hist) < Depth
  /\ LET r == RandomElement(1..100)
     IN IF r <= 62 /\ Honest # {}
          THEN \E x \in Honest : ApplyX(x)
        ELSE IF r <= 68 /\ tick < MaxTick
          THEN ApplyX([k |-> "time"])
        ELSE \E x \in AllInputs : ApplyX(x)

SimFinish == /\ Len(hist) = Depth
             /\ PrintT(<<"VP", "BEH", ToJson([me |-> role, steps |-> hist])>>)
             /\ hist' = Append(hist, [k |-> "end"])
             /\ UNCHANGED <<cur, fin, exec, tick, op, role, viol>>

SimNext == SimStep \/ SimFinish
SimSpec == SimInit /\ [][SimNext]_svars

-----------------------------------------------------------------------------
(* exhaustive search with history, for shortest counterexamples *)
CexNext == \E x \in AllInputs : ApplyX(x)
CexSpec == SimInit /\ [][CexNext]_svars

\* the same checks as Act_C08 / Act_C09 of DKG.tla, for the role variable
MC_C08C09 == [][{f \in viol' : f[1] \notin Known08 \cup Known09 \cup {"Panic"} /\ f \notin Known08Details \cup Known09Details} = {}]_svars
MC_FinishedStable == [][op'.x.k # "exec" => fin' = fin]_svars

(* Every kind of monitor failure (and every panic) that the design model shows is printed ONCE,  *)
(* with the history that led to it (breadth-first => a shortest one), as a replay script for the *)
(* real code.  Register 7 holds the kinds already printed (one copy per TLC worker).             *)
Report ==
  LET new == viol' \ TLCGet(7)
      moved == cur' # cur \/ fin' # fin
      \* transition tour: every (status, input kind, new status, result) edge of the status graph once
      edge == <<"Edge", cur.st, Kind(op'.x), cur'.st, op'.res, RoleIn(role, cur')>>
      \* catalogue sweep: in every class of state, every call of the catalogue that the model REFUSES
      \* (no change of either bucket) is tried on the real code in one scenario
      cls == <<"Sweep", cur'.st, fin'.ep, RoleIn(role, cur'), HasTimedOut(cur', tick'), exec'>>
      refused == {x \in CallsAt(role, cur', fin', tick') :
                    LET o == IF x.k = "cmd" THEN CommandOp(role, cur', fin', exec', tick', x)
                                            ELSE PacketOp(role, cur', fin', exec', tick', x)
                    IN o.cur = cur' /\ o.fin = fin'}
  IN /\ (new # {} =>
           /\ TLCSet(7, TLCGet(7) \cup new)
           /\ \A f \in new : PrintT(<<"VP", "CEX", ToJson([mon |-> f[1], detail |-> f[2], me |-> role, steps |-> hist'])>>))
     /\ (moved /\ edge \notin TLCGet(8) =>
           /\ TLCSet(8, TLCGet(8) \cup {edge})
           /\ PrintT(<<"VP", "EDGE", ToJson([me |-> role, cls |-> ToString(edge), steps |-> hist'])>>))
     /\ (moved /\ cls \notin TLCGet(9) =>
           /\ TLCSet(9, TLCGet(9) \cup {cls})
           /\ PrintT(<<"VP", "SWEEP", ToJson([me |-> role, cls |-> ToString(cls), steps |-> hist', sweep |-> refused])>>))

CexInit == SimInit /\ TLCSet(7, {}) /\ TLCSet(8, {}) /\ TLCSet(9, {})
CexSpecR == CexInit /\ [][CexNext]_svars
=============================================================================
