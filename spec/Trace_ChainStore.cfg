SPECIFICATION TraceSpec
CONSTANTS
  Chained = TRUE
  MaxRound = 3
  Sigs = {0, 1, 2}
INVARIANT AtEnd
CHECK_DEADLOCK FALSE
