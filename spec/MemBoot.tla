------------------------------ MODULE MemBoot ------------------------------
(* BeaconProcess.storeCurrentFromPeerNetwork / loadBeaconFromPeers (internal/core/drand_beacon.go): a node   *)
(* with the in-memory store starts its chain from ONE beacon it asks its peers for over the public API:     *)
(*   1. ask every peer for the current round; the first answer that is not an error is taken;               *)
(*   2. if every peer failed, ask every peer for the latest round (round 0), first non-error answer taken;  *)
(*   3. an answer of round 0 -> the locally computed genesis beacon is stored;                              *)
(*      otherwise the answer is verified under the group key and stored only if it verifies.                *)
(* C01: whatever ends up in the store verifies for its round (peers may answer anything).                   *)
(* An answer is abstracted to [err, zero, vok]: error / round 0 / verifies for the round it carries.        *)
EXTENDS Integers, FiniteSets, TLC
CONSTANTS Peers
VARIABLES case, done
Answers == [err : BOOLEAN, zero : BOOLEAN, vok : BOOLEAN]
NoAns == [err |-> TRUE, zero |-> FALSE, vok |-> FALSE]
Usable(a) == {p \in DOMAIN a : ~a[p].err}
\* the beacon the node decides on: <<"none">> (start from scratch / error) or <<"genesis">> or <<"beacon", vok>>
Decide(ans) == IF ans.zero THEN <<"genesis">> ELSE IF ans.vok THEN <<"beacon", TRUE>> ELSE <<"none">>
\* fresh: the clock is before round 2, nothing is asked.  fT/fL: the peer whose answer arrives first among the usable ones
Outcome(fresh, aT, fT, aL, fL) ==
  IF fresh THEN <<"none">>
  ELSE IF Usable(aT) # {} THEN Decide(aT[fT])
  ELSE IF Usable(aL) # {} THEN Decide(aL[fL])
  ELSE <<"none">>
AsksLatest(fresh, aT) == ~fresh /\ Usable(aT) = {}
Init == case = [set |-> FALSE] /\ done = FALSE
Pick == /\ ~done /\ done' = TRUE
        /\ \E fresh \in BOOLEAN, aT \in [Peers -> Answers], aL \in [Peers -> Answers], fT \in Peers, fL \in Peers :
             /\ (Usable(aT) # {} => fT \in Usable(aT)) /\ (Usable(aL) # {} => fL \in Usable(aL))
             /\ case' = [set |-> TRUE, out |-> Outcome(fresh, aT, fT, aL, fL), aT |-> aT, aL |-> aL, fT |-> fT, fL |-> fL]
Next == Pick
Spec == Init /\ [][Next]_<<case, done>>
\* C01 on the design: a stored peer beacon verified
Inv_StoredVerifies == case.set /\ case.out[1] = "beacon" =>
                        \E p \in Peers : (case.aT[p].vok /\ ~case.aT[p].err /\ ~case.aT[p].zero) \/ (case.aL[p].vok /\ ~case.aL[p].err /\ ~case.aL[p].zero)
=============================================================================
