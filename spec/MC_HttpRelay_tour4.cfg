SPECIFICATION Spec
CONSTANTS
  W = {1, 2}
  MaxRound = 4
  Curs = {2, 3, 4}
  Monotone = FALSE
  Ticks = FALSE
  IdleRec = FALSE
  Cap = 1
  Eager = FALSE
INVARIANTS TypeOK Inv_Pending Inv_ParkedNext
VIEW ViewTour
