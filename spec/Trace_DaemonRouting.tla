------------------------- MODULE Trace_DaemonRouting -------------------------
(***************************************************************************)
(* Validates executions of a real multi-beacon DrandDaemon (recorded by    *)
(* the overlay test TestVerifRouting) against DaemonRouting.tla.           *)
(*                                                                         *)
(*  Reset  a fresh daemon; `disk` = chains whose group+share files exist   *)
(*  Act    one Load / DKGDone / Stop performed through the real entry      *)
(*         points, with the daemon's tables projected afterwards           *)
(*  Req    one request of the (endpoint x id x hash) product, with the     *)
(*         outcome and `who` = the fabricated chains whose key material    *)
(*         verifies / equals the answer (a crypto oracle, not a verdict)   *)
(*                                                                         *)
(* The specification's operators are applied to the logged arguments;      *)
(* differences between the specification and the observation are           *)
(* `Conformance` alarms (model drift).  The C19 monitors RoutedRight and   *)
(* KeepsWorking are evaluated on the OBSERVED answers against the ground   *)
(* truth `gt`, which is derived only from the history of actions that the  *)
(* daemon reported as successful - never from the daemon's tables.         *)
(***************************************************************************)
EXTENDS DaemonRouting, Json

TraceLog == ndJsonDeserialize("trace.ndjson")

VARIABLES l,        \* next line of the trace
          alarms,   \* monitor failures observed so far
          scen,     \* current scenario
          gt        \* ground truth: running chain -> has a group

tvars == <<st, steps, last, l, alarms, scen, gt>>

Range(s) == {s[k] : k \in DOMAIN s}
TraceChains == Range(TraceLog[1].chains)

Pairs(x) == Range(x)
ObsProcs(e)  == [c \in {p[1] : p \in Pairs(e.procs)} |-> (CHOOSE p \in Pairs(e.procs) : p[1] = c)[2]]
ObsHashes(e) == [k \in {p[1] : p \in Pairs(e.hashes)} |-> (CHOOSE p \in Pairs(e.hashes) : p[1] = k)[2]]
ObsHttpKeys(e) == Range(e.http)

Alarm(mon, e, extra) ==
  [mon |-> mon, scenario |-> scen, line |-> l, ev |-> e.ev, detail |-> extra,
   ep |-> IF "ep" \in DOMAIN e THEN e.ep ELSE IF "kind" \in DOMAIN e THEN e.kind ELSE "-",
   id |-> IF "id" \in DOMAIN e THEN e.id ELSE "-",
   hash |-> IF "hash" \in DOMAIN e THEN e.hash ELSE "-"]

TablesAlarms(e, s) ==
  (IF ObsProcs(e) # s.procs THEN {Alarm("Conformance", e, "beaconProcesses differs from the specification")} ELSE {})
  \cup (IF ObsHashes(e) # s.hashes THEN {Alarm("Conformance", e, "chainHashes differs from the specification")} ELSE {})
  \cup (IF ObsHttpKeys(e) # (DOMAIN s.http) \ {DefaultKey} THEN {Alarm("Conformance", e, "HTTP handler table differs from the specification")} ELSE {})

TraceInit == /\ st = EmptyState({}) /\ steps = 0 /\ last = [kind |-> "init"]
             /\ l = 1 /\ alarms = {} /\ scen = "none" /\ gt = EmptyFn

StepReset(e) ==
  /\ e.ev = "Reset"
  /\ LET s0 == EmptyState(Range(e.disk)) IN
     /\ st' = s0
     /\ alarms' = alarms \cup TablesAlarms(e, s0)
                         \cup (IF Range(e.chains) # TraceChains THEN {Alarm("ConstDrift", e, "chains")} ELSE {})
  /\ gt' = EmptyFn
  /\ scen' = e.scenario

StepAct(e) ==
  /\ e.ev = "Act"
  /\ LET r == CASE e.kind = "Load" -> LoadOp(st, e.id)
                [] e.kind = "DKGDone" -> DKGDoneOp(st, e.id)
                [] e.kind = "Stop" -> StopOp(st, e.id)
         A1 == IF r.ok # e.ok THEN {Alarm("Conformance", e, "action result differs from the specification")} ELSE {}
         A2 == IF ~e.settled THEN {Alarm("Harness", e, "running chains did not produce a round")} ELSE {}
         \* adopt what was observed so that the rest of the trace stays checkable
         s2 == [r.s EXCEPT !.procs = ObsProcs(e), !.hashes = ObsHashes(e)]
     IN /\ st' = s2
        /\ alarms' = alarms \cup A1 \cup A2 \cup TablesAlarms(e, r.s)
        /\ gt' = IF ~e.ok THEN gt
                 ELSE CASE e.kind = "Load" -> Put(gt, e.id, e.id \in st.disk)
                        [] e.kind = "DKGDone" -> Put(gt, e.id, TRUE)
                        [] e.kind = "Stop" -> Del(gt, e.id)
  /\ scen' = scen

StepReq(e) ==
  /\ e.ev = "Req"
  /\ LET req == [ep |-> e.ep, id |-> e.id, hash |-> e.hash]
         who == Range(e.who)
         served == e.res = "served"
         exp == Expected(st, req)
         must == MustServe(gt, req)
         \* ---- conformance with the specification's resolution
         C1 == IF served /\ exp = Refused THEN {Alarm("Conformance", e, "answered where the specification refuses")} ELSE {}
         C2 == IF e.res = "refused" /\ exp # Refused THEN {Alarm("Conformance", e, "refused where the specification answers")} ELSE {}
         C3 == IF served /\ exp # Refused /\ e.ident /\ exp \notin who THEN {Alarm("Conformance", e, "answered by another chain than the specification's")} ELSE {}
         \* ---- C19 monitors on the observed answer
         cands == IF e.ident THEN who ELSE DOMAIN gt
         okc == {x \in cands : NamedOK(gt, req, x)}
         M1 == IF served /\ okc = {}
                 THEN {Alarm("RoutedRight", e,
                         IF cands = {} THEN "answer-matches-no-running-chain"
                         ELSE WhyNot(gt, req, CHOOSE x \in cands : TRUE))}
                 ELSE {}
         M2 == IF served /\ e.meta # "" /\ ~(e.meta \in TraceChains /\ NamedOK(gt, req, e.meta))
                 THEN {Alarm("RoutedRight", e, "response-metadata-names-another-chain")} ELSE {}
         M3 == IF must # Refused /\ ~(served /\ (e.ident => must \in who))
                 THEN {Alarm("KeepsWorking", e, IF served THEN "answered-by-another-chain" ELSE e.res)} ELSE {}
         M4 == IF e.res \notin {"served", "refused"} /\ must = Refused
                 THEN {Alarm("KeepsWorking", e, e.res)} ELSE {}
     IN alarms' = alarms \cup C1 \cup C2 \cup C3 \cup M1 \cup M2 \cup M3 \cup M4
  /\ UNCHANGED <<st, gt, scen>>

StepOther(e) ==
  /\ e.ev \notin {"Reset", "Act", "Req"}
  /\ alarms' = alarms \cup {Alarm("Harness", e, "harness error")}
  /\ UNCHANGED <<st, gt, scen>>

TraceNext ==
  /\ l <= Len(TraceLog)
  /\ LET e == TraceLog[l] IN StepReset(e) \/ StepAct(e) \/ StepReq(e) \/ StepOther(e)
  /\ l' = l + 1
  /\ UNCHANGED <<steps, last>>

TraceSpec == TraceInit /\ [][TraceNext]_tvars

AtEnd == l = Len(TraceLog) + 1 =>
           /\ PrintT(<<"VP", "ALARMS", ToJson(alarms)>>)
           /\ PrintT(<<"VP", "DONE", ToJson([lines |-> Len(TraceLog)])>>)
=============================================================================
