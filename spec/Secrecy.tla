------------------------------- MODULE Secrecy -------------------------------
(***************************************************************************)
(* C15 - private keys and shares never leave the node.                     *)
(*                                                                         *)
(* Everything a node can emit (a packet it sends, a response or stream     *)
(* item it serves, an HTTP body, a log line) and every file it writes is a *)
(* set of ATOMS of key material.  Emitted contents are not written down as *)
(* literals: they are PROJECTIONS of the in-memory objects of the code     *)
(* (key.Pair, key.Share, key.Group, dkg.DBState, kyber bundles) onto the   *)
(* fields the code copies into the message (read from the code, see the    *)
(* comment at every entry), so "the projection omits the secret field" is  *)
(* what TLC checks.  Files follow the exact system calls of the code       *)
(* (os.Create / chmod / write for fs.CreateSecureFile, open(O_CREATE,perm) *)
(* for bolt) under a umask, one primitive per step.                        *)
(*                                                                         *)
(* The value of the module is twofold:                                     *)
(*  - Inventory / FileKinds: the list of emitting actions and files is the *)
(*    coverage obligation of the byte-scan harness (Trace_Secrecy reports  *)
(*    which entries an observed execution exercised, and rejects an        *)
(*    emitter it does not know);                                           *)
(*  - the file machine (pure operators OsCreate .. RunProgram) is replayed *)
(*    on the real key store / DKG store and compared step by step.         *)
(*                                                                         *)
(* Deliberate deviations from an ideal design are named:                   *)
(*  Justification: a dealer answers a public complaint with the plain      *)
(*                sub-share f_d(r) of the complainer (protocol design;     *)
(*                neither a long-term key nor a distributed share).        *)
(* Repaired (F11): dkg.NewDKGStore used to open the database that holds    *)
(*                the KeyShare of every finished epoch with 0660; it now   *)
(*                opens it with DkgDbPerm = 0600 and chmods an existing    *)
(*                file to that permission.                                 *)
(***************************************************************************)
EXTENDS Naturals, Sequences, FiniteSets, TLC

CONSTANTS Nodes,        \* modelled nodes (ids > 0)
          Peers,        \* ids that may appear in group material (superset of Nodes)
          MaxEpoch,     \* epochs 1..MaxEpoch
          Umasks,       \* process umasks explored (decimal: 18 = 0o022, 2 = 0o002, 63 = 0o077)
          DkgDbPerm,    \* internal/dkg/store.go BoltStoreOpenPerm (384 = 0o600 in the code)
          ChainDbPerm,  \* internal/chain/boltdb/store.go BoltStoreOpenPerm (432 = 0o660)
          PreModes      \* modes an operator may have given a pre-existing file

VARIABLES node,    \* [Nodes -> [keyed, up, epoch, dkg]]
          fs,      \* [Nodes -> [FileKinds -> [ex, mode, atoms]]]
          io,      \* [Nodes -> Seq(primitive file operation)]   pending system calls of the running save
          umask,   \* [Nodes -> Umasks]
          last     \* the last emission (history variable)

vars == <<node, fs, io, umask, last>>

-----------------------------------------------------------------------------
(* mode arithmetic (no bit operators in TLA+): b ranges over powers of two  *)
Bit(x, b) == (x \div b) % 2
RECURSIVE AndNotFrom(_, _, _)
AndNotFrom(x, m, b) == IF b > 256 THEN 0
                       ELSE (IF Bit(x, b) = 1 /\ Bit(m, b) = 0 THEN b ELSE 0) + AndNotFrom(x, m, 2 * b)
AndNot(x, m) == AndNotFrom(x, m, 1)          \* x & ~m on 9 permission bits
OwnerOnly(mode) == mode % 64 = 0             \* mode & 0o077 = 0

SecurePerm == 384    \* 0o600 internal/fs/fs.go rwFilePermission
CreatePerm == 438    \* 0o666 os.Create

-----------------------------------------------------------------------------
(* atoms *)
A(t, n, m, e) == <<t, n, m, e>>
PrivKey(n)       == A("PrivKey", n, 0, 0)       \* long-term private scalar
Share(n, e)      == A("Share", n, 0, e)         \* distributed key share of epoch e
DealShare(d,r,e) == A("DealShare", d, r, e)     \* plain sub-share f_d(r)
EncDeal(d, r, e) == A("EncDeal", d, r, e)       \* ECIES ciphertext of f_d(r) for r's long-term key
PubKey(n)        == A("PubKey", n, 0, 0)
IdSig(n)         == A("IdSig", n, 0, 0)         \* self signature over the identity
Commits(e)       == A("Commits", 0, 0, e)       \* distributed public polynomial
DealCommits(d,e) == A("DealCommits", d, 0, e)   \* dealer's public polynomial
PktSig(n)        == A("PktSig", n, 0, 0)        \* signature made with the long-term key on a packet
PartialSig(n, e) == A("PartialSig", n, 0, e)
Sig(e)           == A("Sig", 0, 0, e)           \* recovered group signature / randomness

Secret(a)    == a[1] \in {"PrivKey", "Share"}
Sensitive(a) == a[1] \in {"DealShare"}
PublicAtom(a) == a[1] \in {"PubKey", "IdSig", "Commits", "DealCommits", "PktSig", "PartialSig", "Sig"}

Ident(n)  == {PubKey(n), IdSig(n)}
Parts     == UNION {Ident(m) : m \in Peers}
Dist(e)   == IF e = 0 THEN {} ELSE {Commits(e)}
GroupAtoms(e) == IF e = 0 THEN {} ELSE Parts \cup Dist(e)
Beacons(e) == IF e = 0 THEN {} ELSE {Sig(e)}

(* in-memory objects: field -> atoms *)
PairObj(n) == [Key |-> {PrivKey(n)}, Public |-> Ident(n), Scheme |-> {}]                       \* key.Pair
ShareObj(n, e) == [V |-> IF e = 0 THEN {} ELSE {Share(n, e)}, I |-> {}, Commits |-> Dist(e), Scheme |-> {}]   \* key.Share
DBStateObj(n, e, fin) ==                                                                        \* dkg.DBState
  [Terms |-> Parts, FinalGroup |-> GroupAtoms(e), FinalGroupAddrs |-> {},
   KeyShare |-> IF fin /\ e > 0 THEN {Share(n, e)} ELSE {}]
DealBundleObj(d, e) ==                                                                          \* kyber dkg.DealBundle
  [DealerIndex |-> {}, Deals |-> {EncDeal(d, r, e) : r \in Peers}, Public |-> {DealCommits(d, e)},
   SessionID |-> {}, Signature |-> {PktSig(d)}]
JustifObj(d, e) ==                                                                              \* kyber dkg.JustificationBundle
  [DealerIndex |-> {}, Justifications |-> {DealShare(d, r, e) : r \in Peers \ {d}}, SessionID |-> {}, Signature |-> {PktSig(d)}]

Proj(o, F) == UNION {o[f] : f \in F}

(* the field lists of the code *)
PairTOMLFields      == {"Key", "Scheme"}                  \* keys.go (*Pair).TOML        -> drand_id.private
PublicTOMLFields    == {"Public", "Scheme"}               \* keys.go (*Identity).TOML    -> drand_id.public
IdentityRespFields  == {"Public", "Scheme"}               \* drand_beacon_public.go GetIdentity (bp.priv.Public.ToProto)
PublicKeyRespFields == {"Public", "Scheme"}               \* drand_beacon_control.go PublicKey (keyPair.Public.*)
ShareTOMLFields     == {"V", "I", "Commits", "Scheme"}    \* keys.go (*Share).TOML       -> dist_key.private
DBStateTOMLFields   == {"Terms", "FinalGroup", "KeyShare"} \* state_machine.go (*DBState).TOML -> dkg.db
DKGEntryFields      == {"Terms", "FinalGroupAddrs"}       \* actions_active.go DKGStatus (addresses of FinalGroup only)
DealProtoFields     == {"DealerIndex", "Deals", "Public", "SessionID", "Signature"}   \* broadcast.go dealToProto
JustifProtoFields   == {"DealerIndex", "Justifications", "SessionID", "Signature"}    \* broadcast.go justifToProto

-----------------------------------------------------------------------------
(* INVENTORY: every emitting action of a node, "channel/kind"               *)
GossipKinds  == {"dkg.gossip/Proposal", "dkg.gossip/Accept", "dkg.gossip/Reject", "dkg.gossip/Execute", "dkg.gossip/Abort"}
BcastKinds   == {"dkg.bcast/Deal", "dkg.bcast/Response", "dkg.bcast/Justification"}
OutKinds     == {"protocol.out/PartialBeacon", "protocol.out/SyncRequest", "protocol.out/StatusRequest",
                 "protocol.out/IdentityRequest", "protocol.out/Check"}
ProtocolResp == {"protocol/GetIdentity", "protocol/PartialBeacon", "protocol/SyncChain", "protocol/Status"}
PublicResp   == {"public/PublicRand", "public/PublicRandStream", "public/ChainInfo", "public/ListBeaconIDs"}
DkgPubResp   == {"dkgpublic/Packet", "dkgpublic/BroadcastDKG"}
MetricsResp  == {"metrics/Metrics"}
ControlResp  == {"control/PingPong", "control/Status", "control/ListSchemes", "control/PublicKey", "control/ChainInfo",
                 "control/GroupFile", "control/Shutdown", "control/LoadBeacon", "control/StartFollowChain",
                 "control/StartCheckChain", "control/BackupDatabase", "control/RemoteStatus"}
DkgCtlResp   == {"dkgcontrol/Command", "dkgcontrol/DKGStatus"}
HttpResp     == {"http/chains", "http/info", "http/public.latest", "http/public.round", "http/health"}
LogKinds     == {"log/line", "stdout/line", "trace/span"}   \* trace/span: a span exported to the tracing backend (name, attributes, recorded errors)

Responses == ProtocolResp \cup PublicResp \cup DkgPubResp \cup MetricsResp \cup ControlResp \cup DkgCtlResp \cup HttpResp

(* An ERROR REPLY is a response too: the error text of a refused request travels back to the (remote) caller
   (gRPC status message / HTTP error body) and is usually logged by both sides.  Every RPC that can refuse has
   its own emitter "<rpc>.err"; the ones below have no failing path in the code.                              *)
NeverFails == {"control/PingPong", "control/ListSchemes", "public/ListBeaconIDs", "metrics/Metrics", "http/chains"}
ErrOf(r) == r \o ".err"
ErrReplies == {ErrOf(r) : r \in Responses \ NeverFails}

Inventory == GossipKinds \cup BcastKinds \cup OutKinds \cup Responses \cup ErrReplies \cup LogKinds

(* peer / public facing emitters (the statement's "response, stream item, gossip or broadcast packet, HTTP body");
   control endpoints are local-operator-only but are checked all the same *)
PeerFacing == Inventory \ (ControlResp \cup DkgCtlResp \cup {ErrOf(r) : r \in ControlResp \cup DkgCtlResp} \cup LogKinds)

(* what the code puts into each emission, for node n whose last finished epoch is e and
   whose running ceremony (if any) is for epoch e+1                                            *)
Content(n, key, e) ==
  CASE key = "dkg.gossip/Proposal"    -> Parts \cup {PktSig(n)} \cup Beacons(e)       \* ProposalTerms: participants, genesis seed; metadata signature
    [] key \in {"dkg.gossip/Accept", "dkg.gossip/Reject"} -> Ident(n) \cup {PktSig(n)} \* Acceptor/Rejector participant
    [] key \in {"dkg.gossip/Execute", "dkg.gossip/Abort"} -> {PktSig(n)}
    [] key = "dkg.bcast/Deal"          -> Proj(DealBundleObj(n, e + 1), DealProtoFields)
    [] key = "dkg.bcast/Response"      -> {PktSig(n)}
    [] key = "dkg.bcast/Justification" -> Proj(JustifObj(n, e + 1), JustifProtoFields)
    [] key = "protocol.out/PartialBeacon" -> IF e = 0 THEN {} ELSE {PartialSig(n, e), Sig(e)}   \* partial + previous signature
    [] key \in {"protocol.out/SyncRequest", "protocol.out/StatusRequest", "protocol.out/IdentityRequest", "protocol.out/Check"} -> {}
    [] key = "protocol/GetIdentity"    -> Proj(PairObj(n), IdentityRespFields)
    [] key = "control/PublicKey"       -> Proj(PairObj(n), PublicKeyRespFields)
    [] key \in {"protocol/SyncChain", "public/PublicRand", "public/PublicRandStream",
                "http/public.latest", "http/public.round"} -> Beacons(e)
    [] key \in {"public/ChainInfo", "control/ChainInfo", "http/info"} -> Dist(e)        \* chain.Info: dist public key, hashes
    [] key = "control/GroupFile"       -> GroupAtoms(e)                                 \* Group.ToProto
    [] key = "dkgcontrol/DKGStatus"    -> Proj(DBStateObj(n, e, TRUE), DKGEntryFields)
    \* a refusal quotes the request (addresses, public keys, signed message, the caller's signature, rounds) and
    \* public facts about the node (actions_signing.go verifyMessage, broadcast.go BroadcastDKG, beacon/node.go
    \* ProcessPartialBeacon, drand_daemon_helper.go readBeaconID, state_machine.go Err*): never the key pair
    [] key \in ErrReplies -> Parts \cup Beacons(e) \cup {PktSig(p) : p \in Peers}
    [] key \in {"log/line", "stdout/line", "trace/span"} -> Parts \cup Dist(e) \cup Beacons(e) \cup {PktSig(n)} \* addresses, public keys, (short) signatures, hashes, paths
    [] OTHER -> {}     \* status flags, ids, empty acknowledgements, progress counters, metrics text, chain hashes, health

-----------------------------------------------------------------------------
(* FILES *)
FileKinds == {"key.private", "key.public", "group", "share", "dkg.db", "chain.db", "backup"}
NoFile == [ex |-> FALSE, mode |-> 0, atoms |-> {}]

(* what the code writes into each file (node n, finished epoch e) *)
FileContent(n, k, e) ==
  CASE k = "key.private" -> Proj(PairObj(n), PairTOMLFields)
    [] k = "key.public"  -> Proj(PairObj(n), PublicTOMLFields)
    [] k = "group"       -> GroupAtoms(e)
    [] k = "share"       -> Proj(ShareObj(n, e), ShareTOMLFields)
    [] k = "dkg.db"      -> Proj(DBStateObj(n, e, TRUE), DBStateTOMLFields)      \* finished + current buckets
    [] k \in {"chain.db", "backup"} -> Beacons(e)

(* the permission the code asks for when it creates the file *)
ReqPerm(k) == CASE k \in {"key.private", "share", "backup"} -> SecurePerm
                [] k \in {"key.public", "group"} -> CreatePerm
                [] k = "dkg.db" -> DkgDbPerm
                [] k = "chain.db" -> ChainDbPerm

HoldsSecret(f) == f.ex /\ \E a \in f.atoms : Secret(a)
ExpectHolds(n, k, e) == \E a \in FileContent(n, k, e) : Secret(a)

(* primitive operations, exactly the system calls *)
OsCreate(f, um) == IF f.ex THEN [f EXCEPT !.atoms = {}]                                   \* os.Create = O_RDWR|O_CREATE|O_TRUNC, 0666
                   ELSE [ex |-> TRUE, mode |-> AndNot(CreatePerm, um), atoms |-> {}]
OsOpenCreate(f, perm, um) == IF f.ex THEN f ELSE [ex |-> TRUE, mode |-> AndNot(perm, um), atoms |-> {}]   \* bolt.Open: O_RDWR|O_CREATE, perm
OsChmod(f, perm) == IF f.ex THEN [f EXCEPT !.mode = perm] ELSE f
OsWrite(f, atoms) == IF f.ex THEN [f EXCEPT !.atoms = atoms] ELSE f
OsRemove(f) == NoFile

Prim(op, k, perm, atoms) == [op |-> op, k |-> k, perm |-> perm, atoms |-> atoms]
(* key.Save(path, t, secure=true): fs.CreateSecureFile = os.Create; Close; Chmod 0600; OpenFile; then toml encode *)
SecureSave(k, atoms) == <<Prim("create", k, 0, {}), Prim("chmod", k, SecurePerm, {}), Prim("write", k, 0, atoms)>>
(* key.Save(path, t, secure=false): os.Create; toml encode *)
PlainSave(k, atoms)  == <<Prim("create", k, 0, {}), Prim("write", k, 0, atoms)>>
BoltOpen(k, perm)    == <<Prim("open", k, perm, {})>>
BoltPut(k, atoms)    == <<Prim("write", k, 0, atoms)>>
Remove(k)            == <<Prim("remove", k, 0, {})>>

ApplyPrim(F, p, um) ==
  [F EXCEPT ![p.k] = CASE p.op = "create" -> OsCreate(F[p.k], um)
                       [] p.op = "open"   -> OsOpenCreate(F[p.k], p.perm, um)
                       [] p.op = "chmod"  -> OsChmod(F[p.k], p.perm)
                       [] p.op = "write"  -> OsWrite(F[p.k], p.atoms)
                       [] p.op = "remove" -> OsRemove(F[p.k])]

RECURSIVE RunProgram(_, _, _)
RunProgram(F, prog, um) == IF prog = <<>> THEN F ELSE RunProgram(ApplyPrim(F, Head(prog), um), Tail(prog), um)

(* the file programs of the high-level steps (also used by the trace specification) *)
ProgGenerateKey(n) == SecureSave("key.private", FileContent(n, "key.private", 0)) \o PlainSave("key.public", FileContent(n, "key.public", 0))
                                                                 \* key/store.go SaveKeyPair
ProgStartDaemon(n, e) == BoltOpen("dkg.db", DkgDbPerm)           \* core/drand_daemon.go init -> dkg.NewDKGStore: bolt.Open(perm)
                         \o <<Prim("chmod", "dkg.db", DkgDbPerm, {})>>                 \* ... then os.Chmod (a database left by an earlier version)
                         \o (IF e > 0 THEN BoltPut("dkg.db", FileContent(n, "dkg.db", e))      \* migration of a v1 group+share into the DKG database
                                            \o BoltOpen("chain.db", ChainDbPerm) ELSE <<>>)
ProgPropose(n, e) == BoltPut("dkg.db", FileContent(n, "dkg.db", e))   \* SaveCurrent: the new current record has no KeyShare, the finished one stays
ProgComplete(n, e2) == BoltPut("dkg.db", FileContent(n, "dkg.db", e2))                  \* dkg/execution.go SaveFinished (both buckets)
                       \o PlainSave("group", FileContent(n, "group", e2))               \* core/drand_beacon.go storeDKGOutput: SaveGroup
                       \o SecureSave("share", FileContent(n, "share", e2))              \*                                       SaveShare
                       \o BoltOpen("chain.db", ChainDbPerm)                             \* createDBStore
ProgBeacon(n, e) == BoltPut("chain.db", FileContent(n, "chain.db", e))
ProgBackup(n, e) == SecureSave("backup", FileContent(n, "backup", e))                   \* control BackupDatabase: CreateSecureFile + SaveTo

-----------------------------------------------------------------------------
NoEmission == [key |-> "none", from |-> 0, atoms |-> {}]
Emission(n, key, e) == [key |-> key, from |-> n, atoms |-> Content(n, key, e)]

Init == /\ node = [n \in Nodes |-> [keyed |-> FALSE, up |-> FALSE, epoch |-> 0, dkg |-> "idle", dmg |-> "none"]]
        /\ fs = [n \in Nodes |-> [k \in FileKinds |-> NoFile]]
        /\ io = [n \in Nodes |-> <<>>]
        /\ umask \in [Nodes -> Umasks]
        /\ last = NoEmission

Idle(n) == io[n] = <<>>
Queue(n, prog) == io' = [io EXCEPT ![n] = prog]

(* an operator left a file behind (restored a backup with cp, touched it, ...) *)
PreCreate(n, k, m) == /\ ~node[n].keyed /\ Idle(n) /\ ~fs[n][k].ex
                      /\ fs' = [fs EXCEPT ![n][k] = [ex |-> TRUE, mode |-> m, atoms |-> {}]]
                      /\ UNCHANGED <<node, io, umask, last>>

(* one system call of the running save *)
FsStep(n) == /\ io[n] # <<>>
             /\ fs' = [fs EXCEPT ![n] = ApplyPrim(fs[n], Head(io[n]), umask[n])]
             /\ io' = [io EXCEPT ![n] = Tail(io[n])]
             /\ UNCHANGED <<node, umask, last>>

GenerateKey(n) == /\ ~node[n].keyed /\ Idle(n)
                  /\ node' = [node EXCEPT ![n].keyed = TRUE]
                  /\ Queue(n, ProgGenerateKey(n))
                  /\ last' = Emission(n, "stdout/line", 0)        \* "Saved the key : <addr> at <path>"
                  /\ UNCHANGED <<fs, umask>>

StartDaemon(n) == /\ node[n].keyed /\ ~node[n].up /\ Idle(n) /\ node[n].dmg = "none"
                  /\ node' = [node EXCEPT ![n].up = TRUE]
                  /\ Queue(n, ProgStartDaemon(n, node[n].epoch))
                  /\ last' = Emission(n, "log/line", node[n].epoch)
                  /\ UNCHANGED <<fs, umask>>

StopDaemon(n) == /\ node[n].up /\ Idle(n) /\ node[n].dkg = "idle"
                 /\ node' = [node EXCEPT ![n].up = FALSE]
                 /\ last' = Emission(n, "control/Shutdown", node[n].epoch)
                 /\ UNCHANGED <<fs, io, umask>>

(* --- DKG ceremony for epoch node[n].epoch + 1 --- *)
(* as leader (Command) or re-gossip of a received proposal (Packet) *)
Propose(n) == /\ node[n].up /\ Idle(n) /\ node[n].dkg = "idle" /\ node[n].epoch < MaxEpoch /\ node[n].dmg = "none"
              /\ node' = [node EXCEPT ![n].dkg = "proposed"]
              /\ Queue(n, ProgPropose(n, node[n].epoch))
              /\ last' = Emission(n, "dkg.gossip/Proposal", node[n].epoch)
              /\ UNCHANGED <<fs, umask>>

Answer(n, key) == /\ node[n].up /\ Idle(n) /\ node[n].dkg = "proposed"
                  /\ key \in {"dkg.gossip/Accept", "dkg.gossip/Reject"}
                  /\ last' = Emission(n, key, node[n].epoch)
                  /\ UNCHANGED <<node, fs, io, umask>>

Abort(n) == /\ node[n].up /\ node[n].dkg \in {"proposed", "executing"}
            /\ node' = [node EXCEPT ![n].dkg = "idle"]
            /\ last' = Emission(n, "dkg.gossip/Abort", node[n].epoch)
            /\ UNCHANGED <<fs, io, umask>>

Execute(n) == /\ node[n].up /\ node[n].dkg = "proposed"
              /\ node' = [node EXCEPT ![n].dkg = "executing"]
              /\ last' = Emission(n, "dkg.gossip/Execute", node[n].epoch)
              /\ UNCHANGED <<fs, io, umask>>

(* own bundle, or the echo re-broadcast of dealer d's bundle *)
Broadcast(n, d, key) == /\ node[n].up /\ Idle(n) /\ node[n].dkg = "executing"
                        /\ key \in BcastKinds
                        /\ last' = [key |-> key, from |-> n, atoms |-> Content(d, key, node[n].epoch)]
                        /\ UNCHANGED <<node, fs, io, umask>>

Complete(n) == /\ node[n].up /\ node[n].dkg = "executing" /\ Idle(n) /\ node[n].dmg = "none"
               /\ node' = [node EXCEPT ![n].dkg = "idle", ![n].epoch = @ + 1]
               /\ Queue(n, ProgComplete(n, node[n].epoch + 1))
               /\ last' = Emission(n, "stdout/line", node[n].epoch + 1)     \* "crypto store: saving private share in <path>"
               /\ UNCHANGED <<fs, umask>>

Fail(n) == /\ node[n].up /\ node[n].dkg = "executing"
           /\ node' = [node EXCEPT ![n].dkg = "idle"]
           /\ last' = Emission(n, "log/line", node[n].epoch)
           /\ UNCHANGED <<fs, io, umask>>

(* --- beacon production, serving, operator calls --- *)
Beacon(n) == /\ node[n].up /\ node[n].epoch > 0 /\ Idle(n)
             /\ Queue(n, ProgBeacon(n, node[n].epoch))
             /\ last' = Emission(n, "protocol.out/PartialBeacon", node[n].epoch)
             /\ UNCHANGED <<node, fs, umask>>

Send(n, key) == /\ node[n].up /\ Idle(n) /\ key \in OutKinds \ {"protocol.out/PartialBeacon"}
                /\ last' = Emission(n, key, node[n].epoch)
                /\ UNCHANGED <<node, fs, io, umask>>

Respond(n, key) == /\ node[n].up /\ Idle(n) /\ key \in Responses \ {"control/Shutdown", "control/BackupDatabase"}
                   /\ last' = Emission(n, key, node[n].epoch)
                   /\ UNCHANGED <<node, fs, io, umask>>

(* a request is refused (bad signature, outsider, tampered terms, wrong state, unknown beacon id, ...): nothing changes but the reply *)
Refuse(n, key) == /\ node[n].up /\ Idle(n) /\ key \in ErrReplies
                  /\ last' = Emission(n, key, node[n].epoch)
                  /\ UNCHANGED <<node, fs, io, umask>>

Backup(n) == /\ node[n].up /\ node[n].epoch > 0 /\ Idle(n)
             /\ Queue(n, ProgBackup(n, node[n].epoch))
             /\ last' = Emission(n, "control/BackupDatabase", node[n].epoch)
             /\ UNCHANGED <<node, fs, umask>>

(* --- a DAMAGED private file (fault family of the environment) ---
   An operator edits a key / share / group file by hand (v1 -> v2 migration, address change) and leaves it
   unparsable or ill-typed while it still holds the secret.  DamageForms places the fault relative to the
   secret's line; the design model only remembers WHICH file is damaged, the forms are the harness' obligation.
   Every loader of the file (key.Load <- LoadKeyPair / LoadShare / LoadGroup <- daemon start, control LoadBeacon,
   control PublicKey, self-sign migration, CLI show) then fails, and the failure is returned to the caller, logged,
   printed and recorded on the tracing span.  What the error may quote is a projection of the decoder's error object. *)
DamageFiles == {"key.private", "share", "group"}
DamageForms == {"syntax-before", "syntax-on", "syntax-after-1", "syntax-after-2", "truncated-after", "duplicated-key",
                "wrong-type-after", "wrong-type-before", "empty"}
ParseErrObj(n, k, e) == [Path |-> {}, Message |-> {}, Position |-> {}, LastKey |-> {}, Usage |-> {},
                         Input |-> FileContent(n, k, e)]             \* toml.ParseError keeps the whole document
LoadErrFields == {"Message", "Position", "LastKey"}                   \* key/store.go Load: `return err` -> ParseError.Error()
LoadErrEmitters == {"control/LoadBeacon.err", "control/PublicKey.err", "log/line", "stdout/line", "trace/span"}

Damage(n, k) == /\ node[n].keyed /\ Idle(n) /\ node[n].dmg = "none" /\ node[n].dkg = "idle"
                /\ k \in DamageFiles /\ fs[n][k].ex /\ fs[n][k].atoms # {}
                /\ node' = [node EXCEPT ![n].dmg = k]
                /\ UNCHANGED <<fs, io, umask, last>>
Repair(n) == /\ node[n].dmg # "none"
             /\ node' = [node EXCEPT ![n].dmg = "none"]
             /\ UNCHANGED <<fs, io, umask, last>>
LoadDamaged(n, key) == /\ node[n].dmg # "none" /\ Idle(n) /\ key \in LoadErrEmitters
                       /\ (key = "control/PublicKey.err" => node[n].up)
                       /\ last' = [key |-> key, from |-> n,
                                   atoms |-> Proj(ParseErrObj(n, node[n].dmg, node[n].epoch), LoadErrFields)]
                       /\ UNCHANGED <<node, fs, io, umask>>

Log(n) == /\ node[n].keyed /\ Idle(n)
          /\ last' = Emission(n, "log/line", node[n].epoch)
          /\ UNCHANGED <<node, fs, io, umask>>

Next == \E n \in Nodes :
          \/ \E k \in {"key.private", "share", "dkg.db"}, m \in PreModes : PreCreate(n, k, m)
          \/ FsStep(n) \/ GenerateKey(n) \/ StartDaemon(n) \/ StopDaemon(n)
          \/ Propose(n)
          \/ \E key \in GossipKinds : Answer(n, key)
          \/ Abort(n) \/ Execute(n) \/ Complete(n) \/ Fail(n)
          \/ \E d \in Peers, key \in BcastKinds : Broadcast(n, d, key)
          \/ Beacon(n) \/ Backup(n) \/ Log(n)
          \/ \E key \in OutKinds : Send(n, key)
          \/ \E key \in Responses : Respond(n, key)
          \/ \E key \in ErrReplies : Refuse(n, key)
          \/ \E k \in DamageFiles : Damage(n, k)
          \/ Repair(n)
          \/ \E key \in LoadErrEmitters : LoadDamaged(n, key)

Spec == Init /\ [][Next]_vars

-----------------------------------------------------------------------------
(* MONITORS (also evaluated by Trace_Secrecy on observed emissions / files) *)

(* no emission carries a long-term private key or a distributed share *)
EmissionClean(em) == \A a \in em.atoms : ~Secret(a)
(* "the only key material that leaves a node is public ... and the encrypted deals":
   the one protocol exception is named                                             *)
EmissionAllowed(em) == \A a \in em.atoms :
                          \/ PublicAtom(a)
                          \/ a[1] = "EncDeal"
                          \/ (a[1] = "DealShare" /\ em.key = "dkg.bcast/Justification")
(* a file that holds a secret is readable by its owner only *)
FileOwnerOnly(f) == HoldsSecret(f) => OwnerOnly(f.mode)

NoSecretEmitted       == EmissionClean(last)
OnlyPublicOrEncrypted == EmissionAllowed(last)
SecretFileOwnerOnly   == \A n \in Nodes, k \in FileKinds : FileOwnerOnly(fs[n][k])
KeyFilesOwnerOnly     == \A n \in Nodes, k \in {"key.private", "share", "backup"} : FileOwnerOnly(fs[n][k])
(* secrets sit only in the three files the statement names *)
SecretsOnlyInNamedFiles == \A n \in Nodes, k \in FileKinds : HoldsSecret(fs[n][k]) => k \in {"key.private", "share", "dkg.db"}

TypeOK == /\ \A n \in Nodes : /\ node[n].keyed \in BOOLEAN /\ node[n].up \in BOOLEAN
                              /\ node[n].epoch \in 0..MaxEpoch
                              /\ node[n].dkg \in {"idle", "proposed", "executing"}
                              /\ node[n].dmg \in {"none"} \cup DamageFiles
          /\ last.key \in Inventory \cup {"none"}

View == <<node, fs, io, umask, last.key, last.atoms>>
=============================================================================
