SPECIFICATION Spec
CONSTANTS
  Scripts <- ScriptsFamily
  Variant = "code"
INVARIANTS TypeOK Inv_ChainIntact Inv_FinishedWhole Inv_DkgDbConsistent Inv_QuiescentConsistent
CHECK_DEADLOCK FALSE
