SPECIFICATION TraceSpec
CONSTANTS
  Chains <- TraceChains
  MaxSteps = 0
INVARIANT AtEnd
CHECK_DEADLOCK FALSE
