SPECIFICATION TraceSpec
INVARIANT AtEnd
CHECK_DEADLOCK FALSE
