--------------------------- MODULE Sim_SyncServe ---------------------------
(* Behaviour generation (spec -> code).  The design actions of SyncServe are  *)
(* split into CONTROLLED steps - those the Go harness can hold back with a    *)
(* gate (serve.beforeScan, the stream's Send, serve.afterScan,                *)
(* serve.registered, cb.beforeDispatch, cb.dispatch) or performs itself       *)
(* (Open, Put, consumer faults) - and EAGER steps that the real code takes by *)
(* itself as soon as they are enabled (worker receive, worker exit, the final *)
(* select of SyncChain, a blocked AddCallback that gets room).  Eager steps   *)
(* have priority, so every generated behaviour is executable.  The history is *)
(* part of the state: exhaustive search enumerates ALL maximal behaviours of  *)
(* the bounded model (each printed once, at its terminal state); -simulate    *)
(* samples them for the larger constants.                                     *)
EXTENDS SyncServe, Json

CONSTANT HoldReg   \* TRUE: releasing a stream from the serve.registered gate is a scheduled step of its own

VARIABLES hist,   \* sequence of steps taken
          held    \* held[s]: stream s is parked at the serve.registered gate (before its select)
svars == <<vars, hist, held>>

SimInit == Init /\ hist = <<>> /\ held = [s \in Streams |-> FALSE]

H(a, s, w, x) == [a |-> a, s |-> s, w |-> w, x |-> x]

\* the whole burst of sends of one Put after the read lock was taken (cb.dispatch gate released):
\* every callback whose queue has room is served; the Put returns iff none was full
SimDispatch(w) ==
  /\ wr[w].pc = "dispatch"
  /\ LET T == wr[w].todo
         full == {s \in T : Len(q[s]) >= Q}
     IN /\ (T = {} \/ full # T)
        /\ q' = [s \in Streams |-> IF s \in T \ full THEN Append(q[s], wr[w].r) ELSE q[s]]
        /\ wr' = [wr EXCEPT ![w] = IF full = {} THEN [pc |-> "idle", r |-> 0, todo |-> {}]
                                   ELSE [pc |-> "dispatch", r |-> wr[w].r, todo |-> full]]
        /\ hist' = Append(hist, H(IF full = {} THEN "Dispatch" ELSE "DispatchBlocked", 0, w, wr[w].r))
  /\ UNCHANGED <<head, lo, lockW, cbs, ch, wk, item, pc, from, cur, snap, pos, sent, phase, cons, ctxd, err, why, nfault, held>>

EagerEnabled ==
  \E s \in Streams : \/ ENABLED WorkTake(s) \/ ENABLED WorkExit(s) \/ ENABLED RegisterUnblock(s)
                     \/ (~held[s] /\ ENABLED LiveEnd(s))

Eager ==
  \E s \in Streams :
     \/ WorkTake(s) /\ hist' = Append(hist, H("WorkTake", s, 0, Head(q[s]))) /\ held' = held
     \/ WorkExit(s) /\ hist' = hist /\ held' = held
     \/ RegisterUnblock(s) /\ hist' = Append(hist, H("Registered", s, 0, 0)) /\ held' = [held EXCEPT ![s] = HoldReg]
     \* x = 1: both cases of the select were ready, Go chooses at random (the replay cannot be predicted)
     \/ ~held[s] /\ LiveEnd(s) /\ held' = held
        /\ hist' = Append(hist, H("End", s, 0, IF err[s] # "none" /\ ctxd[s] THEN 1 ELSE 0))

Controlled ==
  \/ \E w \in Writers :
        \/ Store(w) /\ hist' = Append(hist, H("Store", 0, w, head + 1)) /\ held' = held
        \/ RLock(w) /\ hist' = Append(hist, H("RLock", 0, w, wr[w].r)) /\ held' = held
        \* the writer's context is cancelled right after the write committed (Store; WCancel), or before it
        \* (PutAborted); both count against the fault budget
        \/ /\ "wcancel" \in Faults /\ nfault < MaxFaults /\ wr[w].pc = "idle" /\ head < MaxR
           /\ head' = head + 1 /\ lo' = lo
           /\ wr' = [wr EXCEPT ![w] = [pc |-> "stored", r |-> head + 1, todo |-> {}]]
           /\ nfault' = nfault + 1
           /\ hist' = Append(hist, H("StoreC", 0, w, head + 1)) /\ held' = held
           /\ UNCHANGED <<lockW, cbs, ch, q, wk, item, pc, from, cur, snap, pos, sent, phase, cons, ctxd, err, why>>
        \/ /\ "wcancel" \in Faults /\ nfault < MaxFaults /\ wr[w].pc = "idle" /\ head < MaxR /\ Backend = "bolt"
           /\ nfault' = nfault + 1
           /\ hist' = Append(hist, H("PutAborted", 0, w, head + 1)) /\ held' = held
           /\ UNCHANGED <<head, lo, wr, lockW, cbs, ch, q, wk, item, pc, from, cur, snap, pos, sent, phase, cons, ctxd, err, why>>
        \/ SimDispatch(w)
  \/ \E s \in Streams :
        \/ \E f \in Froms : Open(s, f) /\ hist' = Append(hist, H("Open", s, 0, f)) /\ held' = held
        \/ ScanBegin(s) /\ hist' = Append(hist, H("ScanBegin", s, 0, 0)) /\ held' = held
        \/ ScanSend(s) /\ hist' = Append(hist, H("ScanSend", s, 0, cur[s])) /\ held' = held
        \/ Register(s) /\ hist' = Append(hist, H("Register", s, 0, 0))
                       /\ held' = [held EXCEPT ![s] = (HoldReg /\ pc'[s] = "live")]
        \/ /\ held[s] /\ held' = [held EXCEPT ![s] = FALSE] /\ hist' = Append(hist, H("Release", s, 0, 0))
           /\ UNCHANGED vars
        \/ WorkCall(s) /\ hist' = Append(hist, H("Deliver", s, 0, item[s])) /\ held' = held
        \/ \E k \in Faults \ {"resume", "wcancel"} : Fault(s, k) /\ hist' = Append(hist, H(k, s, 0, 0)) /\ held' = held
        \/ Resume(s) /\ hist' = Append(hist, H("resume", s, 0, 0)) /\ held' = held

Terminal == ~EagerEnabled /\ ~ENABLED Controlled

Tags == UNION {VerdictsL(sent[s], from[s], lo) : s \in Streams}
        \cup (IF Mon_StoredDispatched THEN {} ELSE {"StoredButNeverDispatched"})
        \cup (IF Mon_BeforeStart THEN {} ELSE {"BeforeStart"})
        \cup {m \in {"LiveComplete", "PutNeverWaitsOnConsumer", "OthersServed"} :
                \/ m = "OthersServed" /\ ~Mon_ReplacementServed
                \/ m = "LiveComplete" /\ ~Mon_LiveComplete
                \/ m = "PutNeverWaitsOnConsumer" /\ ~Mon_PutNeverWaitsOnConsumer
                \/ m = "OthersServed" /\ ~Mon_OthersServed}

Summary == [steps |-> hist, sent |-> sent, why |-> why, pc |-> pc, head |-> head, tags |-> Tags,
            wpc |-> [w \in Writers |-> wr[w].pc]]

\* one printing step at the end of every maximal behaviour
SimFinish ==
  /\ Terminal /\ (hist = <<>> \/ hist[Len(hist)].a # "end")
  /\ PrintT(<<"VP", IF Tags = {} THEN "BEH" ELSE "CEX", ToJson(Summary)>>)
  /\ hist' = Append(hist, H("end", 0, 0, 0))
  /\ UNCHANGED <<vars, held>>

SimNext == (IF EagerEnabled THEN Eager ELSE (Controlled \/ SimFinish)) /\ DueUpdate
SimSpec == SimInit /\ [][SimNext]_svars
=============================================================================
