------------------------ MODULE Apa_RoundTimeJudge ------------------------
(***************************************************************************)
(* RoundTime.tla on the REAL machine (64-bit words, 36-bit buffer) for     *)
(* judging calls observed on the real code whose values exceed TLC's       *)
(* 32-bit integers.  A generated module EXTENDS this one and lists every   *)
(* observed call as a literal application of JudgeTOR / JudgeCUR           *)
(* (conformance with the transcription + the monitors of RoundTime.tla);   *)
(* apalache-mc (--length=0) evaluates them.  Pow2 is plain exponentiation  *)
(* here: every exponent is a literal once the FloorLog2 chain has folded.  *)
(***************************************************************************)
EXTENDS Integers, Sequences, Apa_RoundTimeTables

VARIABLES
  \* @type: Int;
  p,
  \* @type: Int;
  g,
  \* @type: Str;
  kind,
  \* @type: Int;
  arg,
  \* @type: Seq(Int);
  res,
  \* @type: Seq(Set(Str));
  verdicts

Pow2(k) == 2^k

INSTANCE RoundTime WITH WordBits <- 64, BufBits <- 36,
                        Periods <- {1}, Geneses <- {0}, RoundArgs <- {0}, Elapsed <- {0}

JNext == UNCHANGED <<p, g, kind, arg, res, verdicts>>
NoAlarm == \A i \in DOMAIN verdicts : verdicts[i] = {}
=============================================================================
