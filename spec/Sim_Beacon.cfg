SPECIFICATION SimSpec
CONSTANTS
  n1 = n1
  n2 = n2
  n3 = n3
  Nodes = {n1, n2, n3}
  Thr = 2
  P = 2
  MaxRound = 4
  MaxSkew = 2
  SyncDelivery = FALSE
  Faults = 0
  Depth = 80
CHECK_DEADLOCK FALSE
