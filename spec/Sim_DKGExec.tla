---------------------------- MODULE Sim_DKGExec ----------------------------
(* Behaviour generation for replay on real dkg.Process networks: TLC         *)
(* -simulate walks of DKGExec.tla (delivery orders of gossip and bundles,    *)
(* start order, phase timeouts, clock ticks between completions) extended    *)
(* with duplicate deliveries (no-ops in the model, exercised on the code).   *)
(* Each walk is printed once as JSON; a walk that ends with nodes holding     *)
(* different groups is tagged CEX (a model counterexample to replay).        *)
EXTENDS DKGExec, Json

CONSTANTS Depth, MaxDup,
          ShiftRanks   \* TRUE: a joiner never holds the last index (old and new indices of members differ)
VARIABLES hist, dups
svars == <<vars, hist, dups>>

\* every order of the public keys (a late node does not hold the last index, so that QUAL has a gap)
SimRanks == {r \in [Nodes -> 1..Cardinality(Nodes)] :
               /\ \A a, b \in Nodes : a # b => r[a] # r[b]
               /\ \A x \in LateSet : r[x] < Cardinality(Nodes)
               /\ ShiftRanks => \A j \in JoinSet : r[j] < Cardinality(Nodes)}

Parts == JoinSet \cup RemainSet
AllOutcome == prop # NoTerms /\ \A n \in Parts : st[n] \in {"Done", "Failed"}

SimInit == Init /\ hist = <<>> /\ dups = 0

SimStep == /\ Len(hist) < Depth /\ ~AllOutcome
           /\ Next
           /\ hist' = Append(hist, op')
           /\ dups' = dups

\* a copy of a packet / bundle the node already knows: nothing changes
GDup(pid, to) == /\ Len(hist) < Depth /\ ~AllOutcome /\ dups < MaxDup
                 /\ pid \in seen[to]
                 /\ hist' = Append(hist, [name |-> "GDup", typ |-> pid[1], origin |-> pid[2], to |-> to])
                 /\ dups' = dups + 1
                 /\ UNCHANGED vars
BDup(b, to) == /\ Len(hist) < Depth /\ ~AllOutcome /\ dups < MaxDup
               /\ b \in hashes[to] /\ phase[to] # "idle"
               /\ hist' = Append(hist, [name |-> "BDup", kind |-> b[1], origin |-> b[2], to |-> to])
               /\ dups' = dups + 1
               /\ UNCHANGED vars

Printed == Len(hist) > 0 /\ hist[Len(hist)].name = "End"
SimFinish == /\ ~Printed
             /\ (AllOutcome \/ Len(hist) >= Depth \/ ~ENABLED Next)
             /\ PrintT(<<"VP", IF Inv_SameGroup THEN "BEH" ELSE "CEX",
                         ToJson([rank |-> [n \in Nodes |-> rank[n]], complete |-> AllOutcome, hist |-> hist])>>)
             /\ hist' = Append(hist, [name |-> "End"])
             /\ UNCHANGED <<vars, dups>>

SimNext == \/ SimStep
           \/ \E n \in Nodes : \E pid \in seen[n] : GDup(pid, n)
           \/ \E n \in Nodes : \E b \in hashes[n] : BDup(b, n)
           \/ SimFinish
SimSpec == SimInit /\ [][SimNext]_svars
=============================================================================
