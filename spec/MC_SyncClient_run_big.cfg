SPECIFICATION Spec
CONSTANTS
  Peers = {1, 2, 3}
  MaxR = 4
  PT <- PTFull
  Modes = {"run"}
  ChainedSet = {TRUE, FALSE}
  Starts = {1}
  Targets = {0, 3}
  Corruptions <- NoCorruption
  NT = 1
  FollowRetries = TRUE
  FollowAppend = TRUE
  ResyncChecksRound = TRUE
  ResyncDeletesFirst = FALSE
  CheckZeroIsClock = FALSE
  Aborts = FALSE
  PinsOperatorHash = TRUE
  MaxAgg = 0
  QCap = 1
  Linger = FALSE
  History = TRUE
  Eager = FALSE
INVARIANTS TypeOK Inv_OnlyVerifiedInOrder Inv_NothingFromLiars Inv_Chain Inv_RepairUntouched
VIEW View
CHECK_DEADLOCK FALSE
