SPECIFICATION Spec
CONSTANTS
  Scripts <- ScriptsStd
  Variant = "code"
INVARIANTS TypeOK Inv_ChainIntact Inv_FinishedWhole Inv_DkgDbConsistent Inv_QuiescentConsistent
CHECK_DEADLOCK FALSE
