SPECIFICATION Spec
CONSTANTS
  Streams = {1}
  SameAddr = FALSE
  Writers = {1}
  Q = 2
  InitHead = 2
  MaxR = 4
  Froms = {1}
  Backend = "bolt"
  Buf = 100
  Remap = TRUE
  Faults = {"stall"}
  MaxFaults = 1
INVARIANTS Mon_PutNeverWaitsOnConsumer
CHECK_DEADLOCK FALSE
