SPECIFICATION SimSpec
CONSTANTS
  Family = "chainseq"
  Mode = "walk"
  Depth = 40
  Periods = {3, 30}
  Geneses = {1600000000, 1600000030}
  Firsts = {"A", "B"}
  Seeds = {"S1", "S2"}
  Ids = {"", "default", "a", "b"}
  NodeIdx = {0}
  NodeKeys = {"N1"}
  MaxNodes = 1
  Transitions = {0}
  Rests = {"x"}
CHECK_DEADLOCK FALSE
