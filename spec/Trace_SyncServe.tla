--------------------------- MODULE Trace_SyncServe ---------------------------
(***************************************************************************)
(* Validates executions of the REAL SyncChain / callbackStore (recorded by  *)
(* the overlay test TestVerifServe) against SyncServe.tla.  The trace spec  *)
(* is a deterministic observer: every recorded event updates the abstract   *)
(* state (store head + digests, registered callbacks, per stream: phase,    *)
(* rounds handed to Send, rounds dispatched before / after registration),   *)
(* the monitors of SyncServe (SendVerdict = NoRepeat/InOrder/NoGap/FromStart,*)
(* Complete, Refuses) are evaluated on the OBSERVED values, and the          *)
(* behaviour predicted by the specification for a replayed TLC behaviour     *)
(* (xsent / xtags) is compared with the observation (difference => alarm     *)
(* Conformance = model drift).  Every alarm carries a `shape`: the           *)
(* interleaving pattern (in terms of the recorded linearization points) that *)
(* led to it, so that known defects can be told apart from new ones.         *)
(***************************************************************************)
EXTENDS Naturals, Sequences, FiniteSets, TLC, Json

SS == INSTANCE SyncServe WITH
        Streams <- {1}, SameAddr <- FALSE, Writers <- {1}, Q <- 1, InitHead <- 0, MaxR <- 0, Froms <- {0},
        Backend <- "bolt", Buf <- 1, Remap <- FALSE, Faults <- {}, MaxFaults <- 0,
        head <- 0, lo <- 0, wr <- 0, lockW <- 0, cbs <- 0, ch <- 0, q <- 0, wk <- 0, item <- 0, pc <- 0,
        from <- 0, cur <- 0, snap <- 0, pos <- 0, sent <- 0, phase <- 0, cons <- 0, ctxd <- 0, err <- 0,
        why <- 0, nfault <- 0, due <- 0, dispd <- 0

TraceLog == ndJsonDeserialize("trace.ndjson")

VARIABLES l,        \* next line of the trace
          alarms,   \* monitor failures observed so far
          scen,     \* current scenario (from the last Reset line)
          g,        \* observed global state
          ss        \* observed per-stream state (function stream -> record)

tvars == <<l, alarms, scen, g, ss>>

Range(s) == {s[k] : k \in DOMAIN s}
EmptyFn == [x \in {} |-> 0]
Upd(f, k, v) == [x \in (DOMAIN f) \cup {k} |-> IF x = k THEN v ELSE f[x]]
Get(f, k, d) == IF k \in DOMAIN f THEN f[k] ELSE d
Pos(seq, v) == IF \E i \in DOMAIN seq : seq[i] = v THEN CHOOSE i \in DOMAIN seq : seq[i] = v ELSE 0
Count(seq, v) == Cardinality({i \in DOMAIN seq : seq[i] = v})
Has(e, f) == f \in DOMAIN e

G0 == [wcan |-> {}, head |-> 0, phead |-> 0, lo |-> 0, dig |-> EmptyFn, pend |-> EmptyFn, reg |-> EmptyFn, dpos |-> EmptyFn, ppos |-> EmptyFn, dset |-> EmptyFn,
       q |-> 0, backend |-> "bolt", gated |-> FALSE, buf |-> 0, wedged |-> FALSE]

NewStream(f, a, h) ==
  [from |-> f, a |-> a, pc |-> "open", sent |-> <<>>, nscan |-> 0, skipped |-> {}, dispAfter |-> {},
   health |-> "ok", pred |-> 0, orphan |-> FALSE, repl |-> FALSE, seekmiss |-> FALSE, lost |-> {}, disp |-> 0, taken |-> 0, overflow |-> {}, headOpen |-> h,
   evict |-> FALSE, why |-> "none"]

Alarm(mon, e, shape, detail) ==
  [mon |-> mon, scenario |-> scen, ev |-> e.ev, line |-> l, shape |-> shape, detail |-> detail]

TraceInit == l = 1 /\ alarms = {} /\ scen = "none" /\ g = G0 /\ ss = EmptyFn

Known(e) == e.s \in DOMAIN ss

\* lowest round the store still holds, counting Puts that were called but whose append.stored stamp
\* is not recorded yet (the memdb ring evicts inside Put, slightly before the stamp)
LoNow == IF g.backend = "mem" /\ g.phead + 1 > g.lo + g.buf THEN (g.phead + 1) - g.buf ELSE g.lo

-----------------------------------------------------------------------------
StepReset(e) ==
  /\ e.ev = "Reset"
  /\ scen' = e.scenario
  /\ ss' = EmptyFn
  /\ IF Has(e, "error")
       THEN /\ g' = G0
            /\ alarms' = alarms \cup {[mon |-> "Conformance", scenario |-> e.scenario, ev |-> "Reset", line |-> l,
                                       shape |-> "setup", detail |-> e.error]}
       ELSE /\ g' = [G0 EXCEPT !.head = e.head, !.phead = e.head, !.lo = e.lo, !.q = e.q, !.backend = e.backend,
                               !.gated = e.gated, !.buf = e.buf,
                               !.dig = [r \in {p[1] : p \in Range(e.init)} |->
                                          (CHOOSE p \in Range(e.init) : p[1] = r)[2]]]
            /\ alarms' = alarms

StepOpen(e) ==
  /\ e.ev = "Open"
  /\ ss' = Upd(ss, e.s, NewStream(e.from, e.a, g.head))
  /\ UNCHANGED <<g, alarms, scen>>

StepBeforeScan(e) ==
  /\ e.ev = "BeforeScan" /\ Known(e)
  /\ ss' = [ss EXCEPT ![e.s].pc = "scan"]
  /\ UNCHANGED <<g, alarms, scen>>

StepSendEnter(e) ==
  /\ e.ev = "SendEnter" /\ Known(e)
  \* the worker received one beacon from the stream's queue (may be recorded before the PutDone of that beacon)
  /\ ss' = IF ss[e.s].pc = "live" THEN [ss EXCEPT ![e.s].taken = @ + 1] ELSE ss
  /\ UNCHANGED <<g, alarms, scen>>

Between(a, b) == {x \in a..b : TRUE}

StepSend(e) ==
  /\ e.ev = "Send" /\ Known(e)
  /\ LET x == ss[e.s]
         live == x.pc \notin {"open", "scan"}
         v == SS!SendVerdictL(x.sent, x.from, e.r, LoNow)
         last == IF Len(x.sent) > 0 THEN SS!Last(x.sent) ELSE 0
         scanpart == {x.sent[i] : i \in 1..x.nscan}
         shape ==
           CASE v = "NoGap" ->
                  IF live /\ Between(last + 1, e.r - 1) \subseteq x.skipped THEN "put-between-scan-and-register"
                  ELSE IF live /\ Between(last + 1, e.r - 1) \subseteq x.overflow THEN "queue-overflow-dropped"
                  ELSE IF ~live /\ g.backend = "mem" /\ x.evict THEN "memdb-eviction-shifts-cursor"
                  ELSE "other"
             [] v = "NoRepeat" ->
                  IF live /\ e.r \in x.dispAfter /\ e.r \in scanpart /\ Count(x.sent, e.r) = 1
                    THEN "stored-before-scan-dispatched-after-register" ELSE "other"
             [] v = "InOrder" ->
                  \* the Put of the smaller round had not returned when the larger round was dispatched: concurrent Puts
                  IF live /\ e.r \in x.dispAfter /\ last \in x.dispAfter
                     /\ (e.r \notin DOMAIN g.ppos \/ g.ppos[e.r] > Get(g.dpos, last, 0))
                    THEN "concurrent-puts-dispatch-reordered" ELSE "other"
             [] v = "FromStart" ->
                  IF g.backend = "mem" /\ x.seekmiss THEN "memdb-seek-evicted-round" ELSE "other"
             [] OTHER -> "other"
         A1 == IF e.res = "ok" /\ v # "ok"
                 THEN {Alarm(v, e, shape, IF live THEN "live" ELSE "scan")} ELSE {}
         \* a beacon is visible to cursors from the commit inside Put, slightly before the append.stored stamp
         stored == IF e.r \in DOMAIN g.dig THEN g.dig[e.r] ELSE Get(g.pend, e.r, "")
         A2 == IF e.res = "ok" /\ stored = ""
                 THEN {Alarm("DigestOk", e, "not-stored", "round handed to Send is not in the store")}
               ELSE IF e.res = "ok" /\ stored # e.dg
                 THEN {Alarm("DigestOk", e, "differs", "beacon handed to Send differs from the stored one")}
               ELSE {}
         A3 == IF e.res = "ok" /\ live /\ e.r \notin x.dispAfter /\ v = "ok"
                 THEN {Alarm("Conformance", e, "phantom", "live send of a round that was not dispatched to this stream")}
               ELSE {}
         \* nothing below the requested start round
         A0 == IF e.res = "ok" /\ x.from # 0 /\ e.r < x.from
                 THEN {Alarm("BeforeStart", e, IF live THEN "live" ELSE "scan", "a round below the requested start round was handed to the stream")}
                 ELSE {}
     IN /\ alarms' = alarms \cup A0 \cup A1 \cup A2 \cup A3
        /\ ss' = IF e.res = "ok"
                   THEN [ss EXCEPT ![e.s].sent = Append(@, e.r),
                                   ![e.s].nscan = IF live THEN @ ELSE @ + 1]
                   ELSE ss
  /\ UNCHANGED <<g, scen>>

StepAfterScan(e) ==
  /\ e.ev = "AfterScan" /\ Known(e)
  \* memdb Seek is an exact match: a requested round the ring has already forgotten gives an empty scan
  /\ ss' = [ss EXCEPT ![e.s].pc = "after",
                      ![e.s].seekmiss = (g.backend = "mem" /\ ss[e.s].from # 0 /\ ss[e.s].nscan = 0 /\ ss[e.s].from < LoNow)]
  /\ UNCHANGED <<g, alarms, scen>>

\* effect of AddCallback(id) by stream n: it owns the id from now on, the previous owner is replaced
AddEffect(n) ==
  LET a == ss[n].a
      old == Get(g.reg, a, 0)
      s1 == IF old # 0 /\ old # n /\ old \in DOMAIN ss THEN [ss EXCEPT ![old].repl = TRUE] ELSE ss
  IN /\ ss' = [s1 EXCEPT ![n].pc = "live", ![n].pred = IF old # n THEN old ELSE @]
     /\ g' = [g EXCEPT !.reg = Upd(g.reg, a, n)]

StepCbAdd(e) ==
  /\ e.ev = "CbAdd" /\ Known(e)
  /\ AddEffect(e.s)
  /\ UNCHANGED <<alarms, scen>>

\* serve.registered: SyncChain returned from AddCallback.  Normally the cb.add stamp came first; if the
\* code path through AddCallback did not reach that stamp the registration is recorded here.
StepRegistered(e) ==
  /\ e.ev = "Registered" /\ Known(e)
  /\ IF ss[e.s].pc # "live" THEN AddEffect(e.s) ELSE UNCHANGED <<g, ss>>
  /\ UNCHANGED <<alarms, scen>>

StepCbRemove(e) ==
  /\ e.ev = "CbRemove"
  /\ LET o == Get(g.reg, e.a, 0) IN
       /\ g' = [g EXCEPT !.reg = Upd(g.reg, e.a, 0)]
       /\ ss' = IF o # 0 /\ o \in DOMAIN ss /\ e.by # o /\ ss[o].health = "ok" /\ ss[o].pc = "live"
                  THEN [ss EXCEPT ![o].orphan = TRUE] ELSE ss
  /\ UNCHANGED <<alarms, scen>>

StepStored(e) ==
  /\ e.ev = "Stored"
  /\ LET evicts == g.backend = "mem" /\ (e.r - g.lo + 1 > g.buf) IN
       /\ g' = [g EXCEPT !.head = e.r, !.dig = Upd(g.dig, e.r, e.dg), !.lo = IF evicts THEN @ + 1 ELSE @]
       /\ ss' = IF evicts THEN [s \in DOMAIN ss |-> IF ss[s].pc = "scan" THEN [ss[s] EXCEPT !.evict = TRUE] ELSE ss[s]]
                ELSE ss
  /\ alarms' = alarms \cup (IF e.r # g.head + 1
                              THEN {Alarm("Conformance", e, "store", "stored round is not head+1")} ELSE {})
  /\ scen' = scen

StepDispatch(e) ==
  /\ e.ev = "Dispatch"
  /\ LET D == {s \in DOMAIN ss : Get(g.reg, ss[s].a, 0) = s} IN
       /\ g' = [g EXCEPT !.dpos = Upd(g.dpos, e.r, l), !.dset = Upd(g.dset, e.r, D)]
       /\ ss' = [s \in DOMAIN ss |->
                   IF s \in D THEN [ss[s] EXCEPT !.dispAfter = @ \cup {e.r}]
                   ELSE IF ss[s].pc \in {"open", "scan", "after"} THEN [ss[s] EXCEPT !.skipped = @ \cup {e.r}]
                   ELSE IF ss[s].pc = "live" /\ ss[s].orphan THEN [ss[s] EXCEPT !.lost = @ \cup {e.r}]
                   ELSE ss[s]]
  /\ UNCHANGED <<alarms, scen>>

StepPutDone(e) ==
  /\ e.ev = "PutDone"
  /\ LET D == Get(g.dset, e.r, {}) IN
       ss' = [s \in DOMAIN ss |-> IF s \in D THEN [ss[s] EXCEPT !.disp = @ + 1,
                                                    \* the Put returned although the stream's queue already held Q items
                                                    !.overflow = IF ss[s].disp >= ss[s].taken + g.q THEN @ \cup {e.r} ELSE @]
                                  ELSE ss[s]]
  /\ g' = [g EXCEPT !.wedged = FALSE, !.ppos = Upd(g.ppos, e.r, l)]
  \* the Put returned: a beacon that is in the store must have been dispatched (whatever its context)
  /\ alarms' = alarms
       \cup (IF e.r > 0 /\ e.r \in DOMAIN g.dig /\ e.r \notin DOMAIN g.dpos
               THEN {Alarm("StoredButNeverDispatched", e,
                           IF e.r \in g.wcan THEN "writer-context-cancelled" ELSE "other",
                           "the beacon is stored (head advanced) but was not handed to the registered callbacks")}
               ELSE {})
       \cup (IF e.res = "canceled" /\ e.r \notin DOMAIN g.dig THEN {} ELSE
            IF e.res # "ok" THEN {Alarm("Conformance", e, "store", "Put returned an error")} ELSE {})
  /\ scen' = scen

\* the Put did not return although the harness holds none of its gates
StepPutBlocked(e) ==
  /\ e.ev = "PutBlocked"
  /\ LET D == Get(g.dset, e.r, {})
         shape ==
           IF e.where = "chan send" /\ \E s \in D : ss[s].health = "stall" /\ ss[s].disp = ss[s].taken + g.q
             THEN "stalled-consumer-queue-full"
           ELSE IF e.where = "bolt-remap" /\ \E s \in DOMAIN ss : ss[s].pc = "scan" /\ ss[s].health = "stall"
             THEN "bolt-remap-behind-open-scan"
           ELSE "other"
     IN alarms' = alarms \cup {Alarm("PutNeverWaitsOnConsumer", e, shape, e.where)}
  /\ g' = [g EXCEPT !.wedged = TRUE]
  /\ UNCHANGED <<ss, scen>>

StepStreamBlocked(e) ==
  /\ e.ev = "StreamBlocked" /\ Known(e)
  /\ LET shape == IF g.wedged /\ e.where = "Lock" /\ ss[e.s].health = "ok" THEN "register-behind-blocked-put"
                  ELSE IF e.where = "chan send" THEN "replace-behind-stalled-queue"
                  ELSE "other"
     IN alarms' = alarms \cup {Alarm("OthersServed", e, shape, e.where)}
  /\ UNCHANGED <<g, ss, scen>>

StepFault(e) ==
  /\ e.ev = "Fault" /\ Known(e)
  /\ ss' = [ss EXCEPT ![e.s].health = IF e.k = "resume" THEN "ok" ELSE e.k]
  /\ UNCHANGED <<g, alarms, scen>>

StepEnd(e) ==
  /\ e.ev = "End" /\ Known(e)
  /\ LET x == ss[e.s]
         A == IF e.why = "refused" /\ ~(\E h \in x.headOpen..g.head : SS!Refuses(h, x.from))
                THEN {Alarm("Refusal", e, "other", "stream refused although the requested round is stored")} ELSE {}
     IN alarms' = alarms \cup A
  /\ ss' = [ss EXCEPT ![e.s].pc = "ended", ![e.s].why = e.why]
  /\ UNCHANGED <<g, scen>>

StepDiverged(e) ==
  /\ e.ev = "Diverged"
  /\ alarms' = alarms \cup {Alarm("Conformance", e, "diverged", e.want)}
  /\ UNCHANGED <<g, ss, scen>>

StepQuiesce(e) ==
  /\ e.ev = "Quiesce"
  /\ LET parkedSend == {p[2] : p \in {y \in Range(e.parked) : y[1] = "send"}}
         writerParked == \E y \in Range(e.parked) : y[1] \in {"dispatch", "beforeDispatch"}
         check == {s \in DOMAIN ss : /\ ss[s].pc = "live" /\ ss[s].health = "ok" /\ ~ss[s].repl
                                     /\ s \notin parkedSend /\ ~g.wedged /\ ~e.diverged /\ ~writerParked}
         bad(s) == \/ ss[s].orphan
                   \/ ~ss[s].orphan /\ ( \/ ~SS!CompleteL(ss[s].sent, ss[s].from, g.head, LoNow)
                                         \/ ~(ss[s].dispAfter \subseteq Range(ss[s].sent)) )
         missing(s) == IF Len(ss[s].sent) = 0 /\ ss[s].from = 0 THEN ss[s].dispAfter
                       ELSE {m \in SS!Missing(ss[s].sent, ss[s].from, g.head) : m >= LoNow}
         overtaken(s, m) == /\ m \in DOMAIN g.dpos /\ m \notin ss[s].dispAfter
                            /\ \E r \in Range(ss[s].sent) : r < m /\ r \in ss[s].dispAfter /\ g.dpos[m] < Get(g.dpos, r, 0)
         shape(s) == IF ss[s].orphan THEN "callback-removed-by-predecessor"
                     ELSE IF g.backend = "mem" /\ ss[s].seekmiss THEN "memdb-seek-evicted-round"
                     ELSE IF missing(s) # {} /\ missing(s) \subseteq ss[s].skipped THEN "put-between-scan-and-register"
                     \* a later round was dispatched before this stream registered, an earlier one afterwards
                     ELSE IF missing(s) # {} /\ \A m \in missing(s) : m \in ss[s].skipped \/ overtaken(s, m)
                       THEN "concurrent-puts-dispatch-reordered"
                     ELSE IF missing(s) # {} /\ missing(s) \subseteq ss[s].overflow THEN "queue-overflow-dropped"
                     ELSE IF g.backend = "mem" /\ ss[s].evict THEN "memdb-eviction-shifts-cursor"
                     ELSE "other"
         A1 == {Alarm("LiveComplete", [ev |-> "Quiesce"], shape(s), "stream is open and healthy but has not received every stored round")
                  : s \in {t \in check : bad(t)}}
         \* C12: a healthy registered stream is served whatever the consumers of OTHER registrations do
         stalled == {t \in DOMAIN ss : ss[t].health = "stall"}
         starved == {s \in check : stalled # {} /\ ~(ss[s].dispAfter \subseteq Range(ss[s].sent))}
         A4 == {Alarm("OthersServed", [ev |-> "Quiesce"],
                      IF ss[s].pred \in stalled THEN "replacement-behind-stalled-predecessor" ELSE "starved-behind-stalled-stream",
                      "a healthy registered stream was not handed the beacons dispatched to it while another consumer is stalled")
                  : s \in starved}
         hasX == Has(e, "xsent") /\ ~e.diverged /\ ~(Has(e, "nondet") /\ e.nondet)
         obs(i) == IF i \in DOMAIN ss THEN ss[i].sent ELSE <<>>
         A2 == IF hasX /\ \E i \in DOMAIN e.xsent : e.xsent[i] # obs(i)
                 THEN {Alarm("Conformance", [ev |-> "Quiesce"], "prediction", "rounds handed to Send differ from the behaviour TLC generated")}
                 ELSE {}
         mine == {a.mon : a \in {b \in alarms \cup A1 : b.scenario = scen}}
         A3 == IF hasX /\ \E i \in DOMAIN e.xtags : e.xtags[i] \notin mine
                 THEN {Alarm("Optimistic", [ev |-> "Quiesce"], "prediction", "a monitor failure predicted by the specification was not observed")}
                 ELSE {}
     IN alarms' = alarms \cup A1 \cup A2 \cup A3 \cup A4
  /\ UNCHANGED <<g, ss, scen>>

StepPutCall(e) ==
  /\ e.ev = "PutCall"
  /\ g' = [g EXCEPT !.pend = Upd(g.pend, e.r, e.dg), !.phead = IF e.r > @ THEN e.r ELSE @]
  /\ UNCHANGED <<ss, alarms, scen>>

StepWCancel(e) ==
  /\ e.ev = "WCancel"
  /\ g' = [g EXCEPT !.wcan = @ \cup {e.r}]
  /\ UNCHANGED <<ss, alarms, scen>>

\* events that carry no information for this module
StepOther(e) ==
  /\ \/ e.ev \in {"Registered"} /\ ~Known(e)
     \/ e.ev \in {"BeforeScan", "SendEnter", "Send", "AfterScan", "CbAdd", "StreamBlocked", "Fault", "End"} /\ ~Known(e)
  /\ UNCHANGED <<g, ss, alarms, scen>>

TraceNext ==
  /\ l <= Len(TraceLog)
  /\ LET e == TraceLog[l] IN
       \/ StepReset(e) \/ StepOpen(e) \/ StepBeforeScan(e) \/ StepSendEnter(e) \/ StepSend(e) \/ StepAfterScan(e)
       \/ StepCbAdd(e) \/ StepRegistered(e) \/ StepCbRemove(e) \/ StepStored(e) \/ StepDispatch(e) \/ StepPutDone(e)
       \/ StepPutBlocked(e) \/ StepStreamBlocked(e) \/ StepFault(e) \/ StepEnd(e) \/ StepDiverged(e)
       \/ StepQuiesce(e) \/ StepPutCall(e) \/ StepWCancel(e) \/ StepOther(e)
  /\ l' = l + 1

TraceSpec == TraceInit /\ [][TraceNext]_tvars

AtEnd == l = Len(TraceLog) + 1 =>
           /\ PrintT(<<"VP", "ALARMS", ToJson(alarms)>>)
           /\ PrintT(<<"VP", "DONE", ToJson([lines |-> Len(TraceLog)])>>)
=============================================================================
