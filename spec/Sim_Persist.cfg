SPECIFICATION SimSpec
CONSTANTS
  Scripts <- ScriptsStd
  Variant = "code"
INVARIANTS TypeOK
CHECK_DEADLOCK FALSE
