--------------------------- MODULE Trace_Persist ---------------------------
(***************************************************************************)
(* Validates executions of a real DrandDaemon recorded by the overlay test *)
(* TestVerifPersist against Persist.tla.                                   *)
(*   Reset    a scripted run starts: the spec expands the run into its     *)
(*            persistence steps (Expand)                                   *)
(*   Step     the real code has just performed a persistence step (logged  *)
(*            where it happens): it must be the step the spec's script     *)
(*            has next (else alarm Conformance/order); ApplyStep gives the *)
(*            spec's persistent state after it; the state after every step *)
(*            is remembered (hist)                                         *)
(*   Commit   a write transaction of dkg.db / the chain db was committed     *)
(*            (observed at bbolt's page writer): a step must be exactly the *)
(*            number of transactions Commits(op) says (Conformance/commits) *)
(*   Restart  Crash after step j + Restart: a fresh daemon was started on  *)
(*            the copy of the directories taken after step j.  The         *)
(*            persistent state read from the copy must be the spec's       *)
(*            (Conformance/disk), what the restart found must be what      *)
(*            RestartOf says (Conformance/restart), and the monitors of    *)
(*            C13 are evaluated on the OBSERVED record.                     *)
(***************************************************************************)
EXTENDS Persist, Json

TraceLog == ndJsonDeserialize("trace.ndjson")
TraceScripts == {}

VARIABLES l,        \* next line of the trace
          alarms,   \* monitor failures observed so far
          scen,     \* current scenario
          hist,     \* hist[j + 1] = [disk, served, pc] after j observed steps
          ncommit,  \* <<dkg.db, chain db>> write transactions committed since the last step
          watching  \* the databases whose commits the harness observes by now

tvars == <<script, steps, pc, disk, served, mode, rec, l, alarms, scen, hist, ncommit, watching>>

Range(s) == {s[k] : k \in DOMAIN s}

Alarm(mon, e, what, cause, g, s, outcome) ==
  [mon |-> mon, scenario |-> scen, ev |-> e.ev, line |-> l,
   detail |-> [what |-> what, cause |-> cause, group |-> g, share |-> s, outcome |-> outcome]]

\* pk = <<group file, share file>> as they were before the last DKG completion / leave started
Snap(d, sv, p, pk) == [disk |-> d, served |-> sv, pc |-> p, pk |-> pk]

TraceInit == /\ script = << >> /\ steps = << >> /\ pc = 1 /\ disk = EmptyDisk /\ served = {}
             /\ mode = "run" /\ rec = NoRec
             /\ ncommit = <<0, 0>> /\ watching = {}
             /\ l = 1 /\ alarms = {} /\ scen = "none" /\ hist = << Snap(EmptyDisk, {}, 1, <<Absent, Absent>>) >>

StepReset(e) ==
  /\ e.ev = "Reset"
  /\ script' = e.script
  /\ steps' = Expand(e.script)
  /\ pc' = 1 /\ disk' = EmptyDisk /\ served' = {} /\ mode' = "run" /\ rec' = NoRec
  /\ scen' = e.scenario /\ ncommit' = <<0, 0>> /\ watching' = {}
  /\ hist' = << Snap(EmptyDisk, {}, 1, <<Absent, Absent>>) >>
  /\ alarms' = alarms

\* the logged step as a spec step
AsStep(e) == [op |-> e.op, f |-> e.f, a |-> e.a, b |-> 0]
SameStep(s, e) == s.op = e.op /\ s.f = e.f /\ s.a = e.a

StepStep(e) ==
  /\ e.ev = "Step"
  /\ LET expected == pc <= Len(steps) /\ SameStep(steps[pc], e)
         \* the code did something else than the script's next step: look for it further on
         ahead == {i \in pc..Len(steps) : SameStep(steps[i], e)}
         npc == IF expected THEN pc + 1
                ELSE IF ahead # {} THEN (CHOOSE i \in ahead : \A k \in ahead : i <= k) + 1
                ELSE pc
         d2 == ApplyStep(disk, AsStep(e))
         sv2 == ApplyServed(served, AsStep(e))
         A1 == IF ~expected
                 THEN {Alarm("Conformance", e, "order: the code performed a persistence step that is not the next step of the run",
                             Cause(steps, pc - 1), "-", "-", "-")}
                 ELSE {}
         A2 == IF e.j # Len(hist)
                 THEN {Alarm("Conformance", e, "step counter", "-", "-", "-", "-")} ELSE {}
         want == Commits(e.op)
         A3 == IF ("dkg" \in watching /\ ncommit[1] # want[1]) \/ ("chain" \in watching /\ ncommit[2] # want[2])
                 THEN {Alarm("Conformance", e, "commits: the step is not the number of bolt write transactions the specification says",
                             Cause(steps, pc - 1), "-", "-", "-")}
                 ELSE {}
     IN /\ pc' = npc /\ disk' = d2 /\ served' = sv2 /\ ncommit' = <<0, 0>>
        /\ hist' = Append(hist, Snap(d2, sv2, npc,
                                     IF IsKeyStart(AsStep(e)) THEN <<disk.group, disk.share>> ELSE hist[Len(hist)].pk))
        /\ alarms' = alarms \cup A1 \cup A2 \cup A3
  /\ UNCHANGED <<script, steps, mode, rec, scen, watching>>

\* observed persistent state -> spec state
ObsDisk(o) == [chain |-> Range(o.chain), cur |-> o.cur, fin |-> o.fin, group |-> o.group, share |-> o.share]
ObsRec(r) == [groupEpoch |-> r.groupEpoch, shareEpoch |-> r.shareEpoch, finishedEpoch |-> r.finishedEpoch,
              finWhole |-> r.finWhole, chainRounds |-> Range(r.chainRounds), chainVerifies |-> r.chainVerifies,
              cur |-> r.cur, outcome |-> r.outcome]

StepRestart(e) ==
  /\ e.ev = "Restart"
  /\ LET known == e.j + 1 <= Len(hist)
         pre == IF known THEN hist[e.j + 1] ELSE hist[Len(hist)]
         od == ObsDisk(e.obs)
         or == ObsRec(e.rec)
         expect == RestartOf(od).rec
         cause == Cause(steps, pre.pc - 1)
         g == Cls(or.groupEpoch, or.finishedEpoch, pre.pk[1])
         s == Cls(or.shareEpoch, or.finishedEpoch, pre.pk[2])
         A0 == IF ~known THEN {Alarm("Conformance", e, "restart of an unknown crash point", "-", "-", "-", "-")} ELSE {}
         \* e.c > 0: the copy was taken after the c-th commit INSIDE the step that follows step j,
         \* a state the specification does not have (its steps are single transactions)
         A1 == IF e.c > 0
                 THEN {Alarm("Conformance", e, "commits: crash point inside a step (a step of the specification was more than one bolt transaction)", cause, g, s, or.outcome)}
                 ELSE IF od # pre.disk
                 THEN {Alarm("Conformance", e, "disk: the persistent state read from the copy differs from the specification's", cause, g, s, or.outcome)}
                 ELSE {}
         A2 == IF or # expect
                 THEN {Alarm("Conformance", e, "restart: what the restart found differs from RestartOf", cause, g, s, or.outcome)}
                 ELSE {}
         M1 == IF ~Mon_ChainIntact(or, pre.served)
                 THEN {Alarm("ChainIntact", e, "chain store is not a valid gap-free chain containing every served round", cause, g, s, or.outcome)}
                 ELSE {}
         M2 == IF ~Mon_FinishedWhole(or)
                 THEN {Alarm("FinishedWhole", e, "completed DKG record is not one whole epoch", cause, g, s, or.outcome)}
                 ELSE {}
         M5 == IF ~Mon_DkgDbConsistent(or)
                 THEN {Alarm("DkgDbConsistent", e, "the DKG database is not usable for the next proposal: its current record is behind / not the completed record of the same epoch", cause, g, s, or.outcome)}
                 ELSE {}
         M3 == IF ~Mon_KeyEpoch(or)
                 THEN {Alarm("KeyEpoch", e, "group file and share are not both of the epoch the database records as completed", cause, g, s, or.outcome)}
                 ELSE {}
         M4 == IF ~Mon_Resumes(or)
                 THEN {Alarm("Resumes", e, "the restarted node does not resume", cause, g, s, or.outcome)}
                 ELSE {}
     IN /\ alarms' = alarms \cup A0 \cup A1 \cup A2 \cup M1 \cup M2 \cup M3 \cup M4 \cup M5
        /\ rec' = or
  /\ UNCHANGED <<script, steps, pc, disk, served, mode, scen, hist, ncommit, watching>>

StepCommit(e) ==
  /\ e.ev = "Commit"
  /\ ncommit' = IF e.db = "dkg" THEN <<ncommit[1] + 1, ncommit[2]>> ELSE <<ncommit[1], ncommit[2] + 1>>
  /\ UNCHANGED <<script, steps, pc, disk, served, mode, rec, scen, hist, alarms, watching>>

StepWatch(e) ==
  /\ e.ev = "Watch"
  /\ watching' = watching \cup {e.db}
  /\ UNCHANGED <<script, steps, pc, disk, served, mode, rec, scen, hist, alarms, ncommit>>

StepOther(e) ==
  /\ e.ev \in {"Note", "RunEnd"}
  /\ alarms' = alarms \cup
       (IF e.ev = "RunEnd" /\ (pc # Len(steps) + 1 \/ e.steps # Len(steps))
          THEN {Alarm("Conformance", e, "order: the run ended without performing every persistence step of the script",
                      Cause(steps, pc - 1), "-", "-", "-")}
          ELSE {})
  /\ UNCHANGED <<script, steps, pc, disk, served, mode, rec, scen, hist, ncommit, watching>>

TraceNext ==
  /\ l <= Len(TraceLog)
  /\ LET e == TraceLog[l] IN StepReset(e) \/ StepStep(e) \/ StepRestart(e) \/ StepCommit(e) \/ StepWatch(e) \/ StepOther(e)
  /\ l' = l + 1

TraceSpec == TraceInit /\ [][TraceNext]_tvars

\* printed once, in the last state
AtEnd == l = Len(TraceLog) + 1 =>
           /\ PrintT(<<"VP", "ALARMS", ToJson(alarms)>>)
           /\ PrintT(<<"VP", "DONE", ToJson([lines |-> Len(TraceLog)])>>)
=============================================================================
