SPECIFICATION MCSpec
CONSTANTS
  Kinds = {"memdb"}
  K = 2
  Rounds = {0,1,2,3,4}
  Vals = {1,2}
  MutInCursor = FALSE
  Depth = 0
  CoverOneIn = 1
INVARIANTS TypeOK Inv_Sorted Inv_Capacity Inv_Content 
PROPERTIES Act_ModuloNamed Act_PrevAlways Act_Ring Act_Classify
VIEW View
