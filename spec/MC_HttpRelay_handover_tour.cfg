SPECIFICATION SpecFine
CONSTANTS
  W = {1, 2}
  MaxRound = 3
  Curs = {3}
  Monotone = TRUE
  Ticks = FALSE
  IdleRec = FALSE
  Cap = 1
  Eager = TRUE
INVARIANTS TypeFineOK Inv_Todo Inv_RelayNotWedged
VIEW ViewFineTour
