---------------------------- MODULE Sim_Secrecy ----------------------------
(* Behaviour generation (spec -> code): TLC -simulate walks the file machine *)
(* of Secrecy.tla for one node; every walk is printed as a JSON script of    *)
(* high level steps (operator leftovers, key generation, daemon start/stop,  *)
(* proposal, DKG completion, beacon, backup) that the Go harness replays on  *)
(* the real key store / DKG store / chain store under the walk's umask.      *)
(* The system calls of one save run to completion before the next step.      *)
(* PLAN is the list of emitters the daemon harness has to exercise.          *)
EXTENDS Secrecy, Json

CONSTANT Depth
VARIABLE hist
svars == <<node, fs, io, umask, last, hist>>

N == CHOOSE n \in Nodes : TRUE

Rec(op, k, m) == [op |-> op, k |-> k, m |-> m]

SimInit == Init /\ hist = <<>>

HighLevel ==
  \/ \E k \in {"key.private", "share", "dkg.db"}, m \in PreModes : PreCreate(N, k, m) /\ hist' = Append(hist, Rec("PreCreate", k, m))
  \/ GenerateKey(N) /\ hist' = Append(hist, Rec("GenerateKey", "", 0))
  \/ StartDaemon(N) /\ hist' = Append(hist, Rec("StartDaemon", "", 0))
  \/ (hist # <<>> /\ hist[Len(hist)].op # "StartDaemon" /\ StopDaemon(N) /\ hist' = Append(hist, Rec("StopDaemon", "", 0)))
  \/ Propose(N)     /\ hist' = Append(hist, Rec("Propose", "", 0))
  \/ (Execute(N) /\ UNCHANGED hist)
  \/ (Abort(N) /\ UNCHANGED hist)
  \/ Complete(N)    /\ hist' = Append(hist, Rec("Complete", "", 0))
  \/ Beacon(N)      /\ hist' = Append(hist, Rec("Beacon", "", 0))
  \/ Backup(N)      /\ hist' = Append(hist, Rec("Backup", "", 0))

SimStep == /\ Len(hist) < Depth
           /\ IF io[N] # <<>> THEN FsStep(N) /\ UNCHANGED hist ELSE HighLevel

SimFinish == /\ Len(hist) = Depth /\ io[N] = <<>>
             /\ PrintT(<<"VP", "BEH", ToJson([umask |-> umask[N], steps |-> hist])>>)
             /\ hist' = Append(hist, Rec("end", "", 0))
             /\ UNCHANGED <<node, fs, io, umask, last>>
SimDrain == /\ Len(hist) = Depth /\ io[N] # <<>> /\ FsStep(N) /\ UNCHANGED hist

SimNext == SimStep \/ SimDrain \/ SimFinish
SimSpec == SimInit /\ [][SimNext]_svars

ASSUME PrintT(<<"VP", "PLAN", ToJson([responses |-> Responses, errors |-> ErrReplies, damage_forms |-> DamageForms, damage_files |-> DamageFiles, load_emitters |-> LoadErrEmitters, out |-> OutKinds, inventory |-> Inventory,
                                      peerfacing |-> PeerFacing, files |-> FileKinds])>>)
=============================================================================
