-------------------------- MODULE Sim_StoreBackend --------------------------
(* Spec -> code direction for C18.  Three ways TLC produces call sequences   *)
(* that the Go harness replays on the REAL stores:                           *)
(*  BEH  random walks of the design model (tlc -simulate), printed at the    *)
(*       end of each walk;                                                   *)
(*  COV  a state cover of the complete graph of a small config: the BFS path *)
(*       to every distinct state (printed once per new state);               *)
(*  CEX  the path to the first call at which the transcribed code breaks a   *)
(*       monitor (strict configs: model counterexamples, to be reproduced).  *)
EXTENDS StoreBackend, Json

CONSTANTS Depth,        \* length of a simulation walk
          CoverOneIn    \* state cover: print one state in CoverOneIn

\* One successor per step, drawn by TLC's seeded generator (RandomElement), weighted so that
\* cursor calls are frequent: a walk costs one Apply per step instead of one per possible call.
Weighted == <<"put", "put", "put", "put", "put", "put", "del", "del", "get", "get", "get", "last", "len",
              "open", "open", "open", "first", "first", "next", "next", "next", "next", "next", "next", "next",
              "seek", "seek", "seek", "clast", "close", "close">>
SimStep ==
  /\ Len(hist) <= Depth
  /\ \E i \in {RandomElement({j \in DOMAIN Weighted : CanCall(b, Cur, Weighted[j], MutInCursor)})} :
     \E r \in {RandomElement(Rounds)} : \E v \in {RandomElement(Vals)} :
        Call(Weighted[i], IF Weighted[i] \in {"put", "get", "del", "seek"} THEN r ELSE 0,
             IF Weighted[i] = "put" THEN v ELSE 0)
\* the walk ends with one printing step (each walk is printed once)
SimFinish == /\ Len(hist) = Depth + 1
             /\ PrintT(<<"VP", "BEH", ToJson(hist)>>)
             /\ hist' = Append(hist, [op |-> "end"])
             /\ UNCHANGED <<b, st, m, cur, rc, dirty, op>>
SimNext == SimStep \/ SimFinish
SimSpec == Init /\ [][SimNext]_vars

\* State cover: evaluated once per distinct (VIEW) state; hist is the BFS path that reached the
\* state first.  One state in CoverOneIn is printed (seeded draw).
Inv_Cover == RandomElement(1..CoverOneIn) = 1 => PrintT(<<"VP", "COV", ToJson(hist)>>)

\* Classification of every call of the complete graph at which the transcribed code breaks a
\* monitor: the path to the first call of each class (back-end, call, shape, failed monitors) is
\* printed as a model counterexample (CEX).  Never false: which classes are tolerated is decided by
\* StoreBackend!Act_ModuloNamed, and a class becomes a verdict only when the trace monitors see it on
\* the real stores.  (TLC register 1 holds the classes seen by this worker.)
ClassInit == TLCSet(1, {})
Act_Classify ==
  [][LET f == FailedMonitors(b, PreS, op'.op, op'.round, op'.res, Apply(b, K, PreS, op'.op, op'.round, op'.v))
         key == <<b, op'.op, op'.shape, f>>
     IN \/ f = {}
        \/ key \in TLCGet(1)
        \/ /\ TLCSet(1, TLCGet(1) \cup {key})
           /\ PrintT(<<"VP", "CEX", ToJson([script |-> hist', failed |-> f, shape |-> op'.shape])>>)]_vars
MCInit == Init /\ ClassInit
MCSpec == MCInit /\ [][Next]_vars
=============================================================================
