---------------------------- MODULE Sim_RoundTime ----------------------------
(* Vector generation by TLC (spec -> code direction): the calls of the        *)
(* exhaustive grid configuration (MC_RoundTime_grid: every behaviour of       *)
(* RoundTime!Spec there is one call) and seed-dependent mid-range calls up to  *)
(* 2^31-1 (boundary-directed: the largest rounds whose time still fits,        *)
(* instants exactly on / just before / just after a round boundary).  Written  *)
(* as JSON; the Go harness executes every one of them on the real functions.   *)
(* Values above 2^31 come from Apalache (Apa_RoundTime.tla).                   *)
EXTENDS MC_RoundTime, Json, FiniteSets

CONSTANT Seed

GridTOR == {<<pp, gg, r>> : pp \in GridPeriods, gg \in GridGeneses, r \in GridRounds}
GridCUR == UNION {{<<pp, gg, gg + e>> : e \in GridElapsed} : pp \in GridPeriods, gg \in GridGeneses}

Top == 2147483647
MidPeriods == {1, 2, 3, 25, 30, 60, 3600, 86400, 65535, 65536, 1000003 + 17 * Seed, 7 + Seed, 2^20 - 1, 2^24}
MidGeneses == {0, 1, 1595431050, 1677685200, 2^30, 1000000007 + Seed * 31337}
\* largest round r with gg + (r+1)*pp <= Top (so that r and r+1 are both judged by TLC)
TopRound(pp, gg) == ((Top - gg) \div pp) - 1
MidRounds(pp, gg) ==
  LET k == TopRound(pp, gg) IN
  {r \in {k, k - 1, k \div 2, (k \div 3) + Seed, (Seed * 7919) % (k + 1), 1, 2} : r >= 0 /\ r <= k /\ r < 2^30}
MidTOR == UNION {{<<pp, gg, r>> : r \in MidRounds(pp, gg)} : pp \in MidPeriods, gg \in MidGeneses}
MidCUR == UNION {{<<pp, gg, gg + j * pp + d>> :
                    j \in {r \in MidRounds(pp, gg) : r >= 1 /\ r + 2 <= TopRound(pp, gg)}, d \in {0 - 1, 0, 1}}
                 : pp \in MidPeriods, gg \in MidGeneses}

\* every period up to 256 s at instants exactly on, just before and just after a round
\* boundary (the floor of the elapsed periods is where a division can go wrong for
\* particular periods only)
BoundaryPeriods == 1..256
BoundaryCUR == UNION {{<<pp, gg, gg + k * pp + d>> : k \in {1, 2, 3, 10, 1000 + Seed}, d \in {0 - 1, 0, 1}}
                      : pp \in BoundaryPeriods, gg \in {0, 1595431050}}

VARIABLE done
SimInit == done = FALSE /\ p = 1 /\ g = 0 /\ kind = "sim" /\ arg = 0 /\ res = <<>>
SimNext == /\ ~done
           /\ JsonSerialize("roundtime_vectors.json",
                            [gridtor |-> GridTOR, gridcur |-> GridCUR, midtor |-> MidTOR, midcur |-> MidCUR \cup BoundaryCUR])
           /\ PrintT(<<"VP", "VECTORS", ToJson([gridtor |-> Cardinality(GridTOR), gridcur |-> Cardinality(GridCUR),
                                                midtor |-> Cardinality(MidTOR), midcur |-> Cardinality(MidCUR \cup BoundaryCUR)])>>)
           /\ done' = TRUE /\ UNCHANGED vars
=============================================================================
