--------------------------- MODULE BeaconReshare ---------------------------
(***************************************************************************)
(* The transition of a running beacon network to a reshared group          *)
(* (internal/chain/beacon/node.go: TransitionNewGroup, the "transition"    *)
(* callback, vault.SetInfo; chainstore.go: runAggregator with the live     *)
(* threshold and polynomial; cache.go: one slot per signer index in a      *)
(* round cache, first partial wins; internal/core/drand_beacon.go:         *)
(* transitionToNext / storeDKGOutput / Load).                              *)
(*                                                                         *)
(* Focus: which share epoch signs and counts around the transition round,  *)
(* and whether the chain keeps going (C07).  Simplifications with respect  *)
(* to Beacon.tla: one global clock (no skew), no catch-up timers (every    *)
(* tick re-broadcasts on top of the stored head, which is what keeps the   *)
(* real network alive), sync is one beacon per step.                       *)
(*                                                                         *)
(* epochs: 0 = old group/share, 1 = new.  A partial is valid at a receiver *)
(* iff it was made with the share of the epoch that is live in the         *)
(* receiver's vault (VerifyPartial against the live public polynomial).    *)
(* A round cache keeps ONE partial per signer index (roundCache.append:    *)
(* "seen" -> ignored); Recover re-verifies against the live polynomial.    *)
(***************************************************************************)
EXTENDS Integers, FiniteSets, TLC

CONSTANTS Nodes,      \* members (same set before and after, indices unchanged)
          ThrOld, ThrNew,
          T,          \* transition round: rounds >= T belong to the new group
          MaxRound,
          Restarts,   \* max number of restarts in the window (F41)
          ExtraTicks  \* ticks after the clock reached MaxRound (time goes on; every tick re-broadcasts)

VARIABLES clockR,   \* round of the (common) clock
          head,     \* [Nodes -> Nat]
          vault,    \* [Nodes -> {0,1}]   epoch live in the handler's vault
          reg,      \* [Nodes -> BOOLEAN] TransitionNewGroup registered (new group/share also on disk)
          swp,      \* [Nodes -> BOOLEAN] round >= T-1 stored, "transition" callback not run yet
          cache,    \* [Nodes -> [round -> [signer -> epoch]]]  (partial function on signers)
          net,      \* set of [from, to, round, ep]
          signedAt, \* [Nodes -> set of <<round, ep, clockR>>]  broadcasts already made (one per tick and epoch)
          up, restarts,
          oldCounted \* TRUE if a beacon of a round >= T was ever aggregated with the old threshold/polynomial

vars == <<clockR, head, vault, reg, swp, cache, net, signedAt, up, restarts, oldCounted>>

Rounds == 1..MaxRound
CR == IF clockR > MaxRound THEN MaxRound ELSE clockR   \* round of the clock (clockR counts ticks)
Thr(e) == IF e = 0 THEN ThrOld ELSE ThrNew
EmptyRC == [r \in Rounds |-> [s \in {} |-> 0]]

Init == /\ clockR = 1
        /\ head = [n \in Nodes |-> 0] /\ vault = [n \in Nodes |-> 0]
        /\ reg = [n \in Nodes |-> TRUE]    \* the resharing completed well before the transition round on every node
        /\ swp = [n \in Nodes |-> FALSE]
        /\ cache = [n \in Nodes |-> EmptyRC] /\ net = {}
        /\ signedAt = [n \in Nodes |-> {}] /\ up = [n \in Nodes |-> TRUE] /\ restarts = 0
        /\ oldCounted = FALSE

\* storing round r at node n (by aggregation or sync): flush, maybe arm the transition callback
Stored(n, r, c) == [x \in Rounds |-> IF x <= r THEN [s \in {} |-> 0] ELSE c[x]]

\* runAggregator on an accepted partial (signer s, round r, epoch e) at node n
\* returns [head, cache, swp, old]
Aggregate(n, s, r, e) ==
  LET rc == cache[n][r]
      rc2 == IF s \in DOMAIN rc THEN rc ELSE [x \in (DOMAIN rc) \cup {s} |-> IF x = s THEN e ELSE rc[x]]   \* first one wins
      c2 == [cache[n] EXCEPT ![r] = rc2]
      live == vault[n]
      good == {x \in DOMAIN rc2 : rc2[x] = live}
  IN IF r <= head[n] \/ r > head[n] + 4 THEN [head |-> head[n], cache |-> cache[n], swp |-> swp[n], old |-> FALSE]
     ELSE IF Cardinality(DOMAIN rc2) >= Thr(live) /\ Cardinality(good) >= Thr(live) /\ r = head[n] + 1
       THEN [head |-> r, cache |-> Stored(n, r, c2), swp |-> swp[n] \/ (reg[n] /\ vault[n] = 0 /\ r >= T - 1),
             old |-> (live = 0 /\ r >= T)]
       ELSE [head |-> head[n], cache |-> c2, swp |-> swp[n], old |-> FALSE]

ApplyAgg(n, a) == /\ head' = [head EXCEPT ![n] = a.head]
                  /\ cache' = [cache EXCEPT ![n] = a.cache]
                  /\ swp' = [swp EXCEPT ![n] = a.swp]
                  /\ oldCounted' = (oldCounted \/ a.old)

Tick == /\ clockR < MaxRound + ExtraTicks /\ clockR' = clockR + 1
        /\ UNCHANGED <<head, vault, reg, swp, cache, net, signedAt, up, restarts, oldCounted>>

\* broadcastNextPartial on top of the stored head, with the share that is live NOW.  The broadcast is processed
\* by every receiver at once (ProcessPartialBeacon: past round ignored, future rejected, VerifyPartial against the
\* receiver's live polynomial; then runAggregator); message delay is not modelled here (Beacon.tla does that).
RecvOK(m, r, e) == up[m] /\ r > head[m] /\ r <= CR + 1 /\ e = vault[m]
Sign(n) ==
  /\ up[n]
  /\ LET r == head[n] + 1 e == vault[n] IN
       /\ r <= CR /\ r \in Rounds
       /\ <<r, e, clockR>> \notin signedAt[n]
       /\ signedAt' = [signedAt EXCEPT ![n] = @ \cup {<<r, e, clockR>>}]
       /\ LET agg(m) == IF m = n \/ RecvOK(m, r, e) THEN Aggregate(m, n, r, e)
                        ELSE [head |-> head[m], cache |-> cache[m], swp |-> swp[m], old |-> FALSE]
          IN /\ head' = [m \in Nodes |-> agg(m).head]
             /\ cache' = [m \in Nodes |-> agg(m).cache]
             /\ swp' = [m \in Nodes |-> agg(m).swp]
             /\ oldCounted' = (oldCounted \/ \E m \in Nodes : agg(m).old)
  /\ UNCHANGED <<clockR, vault, reg, net, up, restarts>>

Deliver(m) == FALSE /\ UNCHANGED vars

\* the "transition" callback runs in a callback worker, some time after the beacon was stored
Switch(n) == /\ up[n] /\ swp[n] /\ vault' = [vault EXCEPT ![n] = 1] /\ swp' = [swp EXCEPT ![n] = FALSE]
             /\ UNCHANGED <<clockR, head, reg, cache, net, signedAt, up, restarts, oldCounted>>

\* DKG result stored: new group/share written to disk, TransitionNewGroup registered
Register(n) == /\ up[n] /\ ~reg[n] /\ head[n] < T - 1
               /\ reg' = [reg EXCEPT ![n] = TRUE]
               /\ UNCHANGED <<clockR, head, vault, swp, cache, net, signedAt, up, restarts, oldCounted>>

\* sync: one verified beacon from a peer that is ahead
Sync(n, p) == /\ up[n] /\ up[p] /\ head[p] > head[n] /\ head[n] + 1 < CR
              /\ LET r == head[n] + 1 IN
                   /\ head' = [head EXCEPT ![n] = r]
                   /\ cache' = [cache EXCEPT ![n] = Stored(n, r, @)]
                   /\ swp' = [swp EXCEPT ![n] = @ \/ (reg[n] /\ vault[n] = 0 /\ r >= T - 1)]
              /\ UNCHANGED <<clockR, vault, reg, net, signedAt, up, restarts, oldCounted>>

\* restart: the handler is rebuilt from the files: the NEW group and share if the DKG result was stored (F41)
Restart(n) == /\ restarts < Restarts /\ up[n]
              /\ restarts' = restarts + 1
              /\ vault' = [vault EXCEPT ![n] = IF reg[n] THEN 1 ELSE @]
              /\ swp' = [swp EXCEPT ![n] = FALSE]
              /\ cache' = [cache EXCEPT ![n] = EmptyRC]
              /\ signedAt' = [signedAt EXCEPT ![n] = {}]
              /\ UNCHANGED <<clockR, head, reg, net, up, oldCounted>>

Other == Tick \/ (\E n \in Nodes : Sign(n) \/ Register(n) \/ Restart(n))
         \/ (\E m \in net : Deliver(m)) \/ (\E n, p \in Nodes : Sync(n, p))
\* NextRace: the "transition" callback worker may run arbitrarily late after the beacon was stored
NextRace == Other \/ (\E n \in Nodes : Switch(n))
\* Next: the callback worker runs at once (as it practically does): while a switch is pending nothing else happens
Next == IF \E n \in Nodes : up[n] /\ swp[n] THEN \E n \in Nodes : Switch(n) ELSE Other
Spec == Init /\ [][Next]_vars
SpecRace == Init /\ [][NextRace]_vars

-----------------------------------------------------------------------------
\* C07: from the transition on only shares of the new group count
OnlyNewShares == ~oldCounted
\* no node uses the new share before it stored round T-1 unless it restarted (F41 is the named deviation)
VaultFollowsChain == \A n \in Nodes : vault[n] = 1 => (head[n] >= T - 1 \/ restarts > 0)

\* C07/C05: the chain does not halt at the transition as long as everybody is up
Done == \A n \in Nodes : head[n] = MaxRound
Live == <>[]Done
Fair == /\ WF_vars(Tick) /\ \A n \in Nodes : WF_vars(Sign(n)) /\ WF_vars(Switch(n)) /\ WF_vars(Register(n))
        /\ WF_vars(\E m \in net : Deliver(m)) /\ \A n, p \in Nodes : WF_vars(Sync(n, p))
LiveSpec == Spec /\ Fair
LiveSpecRace == SpecRace /\ Fair
=============================================================================
