SPECIFICATION SpecFine
CONSTANTS
  W = {1, 2}
  MaxRound = 3
  Curs = {2, 3}
  Monotone = TRUE
  Ticks = FALSE
  IdleRec = FALSE
  Cap = 1
  Eager = FALSE
INVARIANTS TypeFineOK Inv_Todo Inv_RelayNotWedged Inv_C01_HTTP
VIEW ViewFine
