------------------------------ MODULE DKGExec ------------------------------
(***************************************************************************)
(* Execution / completion part of a drand DKG ceremony with SEVERAL nodes   *)
(* (property C06).  Transcribed from internal/dkg:                          *)
(*   actions_active.go  Command -> StartNetwork/StartProposal/StartJoin/    *)
(*                      StartAccept/StartExecute (+ gossip)                 *)
(*   actions_passive.go Packet -> applyPacketToState (+ re-gossip),         *)
(*                      BroadcastDKG                                        *)
(*   actions.go         gossip / sendToPeer (retry on error)                *)
(*   broadcast.go       echoBroadcast: Push*, BroadcastDKG, sendout (dedupe  *)
(*                      by hash, every NEW bundle is re-sent once)           *)
(*   execution.go       setupDKG, executeDKG, startDKGExecution, asGroup,   *)
(*                      executeAndFinishDKG                                 *)
(*   util/participant_utils.go SortedByPublicKey                            *)
(*                                                                         *)
(* One ceremony (epoch 1 = first DKG, epoch 2 = resharing) is modelled.     *)
(* The gossip packets (proposal / accept / execute) and the kyber bundles   *)
(* (deal / response / justification) travel as individual messages that are delivered in    *)
(* any order; a copy that reaches a node that already knows the packet is a *)
(* no-op (checked on the real code by Trace_DKGExec), so the exhaustive     *)
(* model only keeps copies addressed to nodes that do not know it yet.      *)
(*                                                                         *)
(* TRUSTED BASE (black box): kyber's Pedersen DKG.  A node answers when it  *)
(* has every deal (fast sync), finishes when it has every response and      *)
(* nobody complained; otherwise it moves on phase timeouts.  The phases are *)
(* assumed to do what they are for: a phase timeout fires only after every  *)
(* timely bundle of the phase reached every node, and the bundles of the    *)
(* nodes in LateSet (and of leavers, who never deal) miss every phase at     *)
(* every node.  Under this assumption kyber yields, at every node that is   *)
(* not late, QUAL = participants \ LateSet and a share on one polynomial;   *)
(* the late node is evicted and fails.                                      *)
(*                                                                         *)
(* A holder whose response never arrives counts as a complaint against      *)
(* every dealer, so each timely dealer publishes a justification bundle.    *)
(*                                                                         *)
(* Faithful to the locking of the code: Command(proposal) keeps the process  *)
(* lock until every recipient has answered the leader's own proposal call    *)
(* (variable plock): until then the leader neither executes nor handles      *)
(* incoming packets.                                                         *)
(*                                                                         *)
(* What is NOT trusted and therefore explicit: the canonical order (sorted  *)
(* by public key) that defines indices, the terms every node stored from    *)
(* the proposal, the group built from QUAL + terms + a LOCAL transition     *)
(* time read from the node's own clock at its own completion moment, the    *)
(* genesis seed rule.                                                       *)
(***************************************************************************)
EXTENDS Naturals, Sequences, FiniteSets, TLC

CONSTANTS
  Nodes,         \* node ids (naturals)
  Epoch,         \* 1: first DKG (every participant joins), 2: resharing
  JoinSet,       \* participants that join
  RemainSet,     \* members of the previous group that stay (Epoch 2)
  LeaveSet,      \* members of the previous group that leave (Epoch 2)
  Leader,
  Thr,
  Period,        \* beacon period (seconds)
  Genesis,       \* genesis time (seconds)
  TMin, TMax,    \* the wall clock (seconds) is TMin when the ceremony starts and may reach TMax
  LateSet,       \* participants whose bundles miss every phase everywhere (see header)
  RankChoices,   \* set of functions Nodes -> Nat explored by Init: order of the public keys
  PermuteLists,  \* TRUE: every order of the participant lists of the proposal is explored
  AtomicGossip,  \* TRUE: the whole proposal/accept/execute gossip is one step
  AtomicExec,    \* TRUE: the whole kyber run is one step
  MaxDrop,       \* number of bundles the network may lose on one directed link (0 or 1)
  DropKinds,     \* kinds of bundles ("D", "R", "J") that may be lost
  Offline        \* leaving nodes that are switched off: nothing reaches them, they relay nothing

VARIABLES
  rank,     \* [Nodes -> Nat]  order of the nodes' public keys (bytes)
  prop,     \* proposal terms built by the leader
  st,       \* [Nodes -> status]
  stored,   \* [Nodes -> terms]     terms a node stored (current DBState)
  seen,     \* [Nodes -> SUBSET pid] Process.SeenPackets
  gnet,     \* set of <<pid, to>>    gossip calls in flight
  plock,    \* recipients whose proposal call from the leader has not returned: the leader's
            \* Command(proposal) keeps the process lock until all of them have
  phase,    \* [Nodes -> phase of the execution]
  hashes,   \* [Nodes -> SUBSET bundle]  echoBroadcast.hashes
  bnet,     \* set of <<bundle, to>> bundle sends in flight
  dropped,  \* number of direct bundle copies lost so far
  qual,     \* [Nodes -> SUBSET Nodes]   kyber's QUAL at the node
  clock,    \* wall clock
  fin,      \* [Nodes -> group]      finished.FinalGroup of this epoch
  op        \* last action (history; hidden by VIEW)

vars == <<rank, dropped, prop, st, stored, seen, gnet, plock, phase, hashes, bnet, qual, clock, fin, op>>

Range(s) == {s[k] : k \in DOMAIN s}

-----------------------------------------------------------------------------
(* Round <-> time (common/time.go), integers                                 *)

NextRoundOf(now, period, genesis) ==
  IF now < genesis THEN 1 ELSE ((now - genesis) \div period) + 2
CurrentRound(now, period, genesis) ==
  LET nr == NextRoundOf(now, period, genesis) IN IF nr <= 1 THEN nr ELSE nr - 1
TimeOfRound(period, genesis, round) ==
  IF round = 0 THEN genesis ELSE genesis + (round - 1) * period

RoundsUntilTransition == 10

(* execution.go:startDKGExecution                                            *)
TransitionTime(epoch, period, genesis, now) ==
  IF epoch = 1 THEN genesis
  ELSE TimeOfRound(period, genesis, CurrentRound(now, period, genesis) + RoundsUntilTransition)

-----------------------------------------------------------------------------
(* Participants, canonical order, indices                                    *)

NoTerms == [epoch |-> 0]
Participants(t) == Range(t.joining) \cup Range(t.remaining)
Recipients(t) == Participants(t) \cup Range(t.leaving)

(* util.SortedByPublicKey(append(Remaining, Joining...)): position of n      *)
IndexOf(n, parts, rk) == Cardinality({m \in parts : rk[m] < rk[n]})

SeqsOf(S) == {s \in [1..Cardinality(S) -> S] : Range(s) = S}
(* a canonical listing: by node id                                           *)
RECURSIVE ById(_)
ById(S) == IF S = {} THEN <<>>
           ELSE LET m == CHOOSE x \in S : \A y \in S : x <= y IN <<m>> \o ById(S \ {m})

MkTerms(js, rs, ls) ==
  [epoch |-> Epoch, thr |-> Thr, period |-> Period, genesis |-> Genesis,
   seed |-> IF Epoch = 1 THEN "none" ELSE "prev",
   joining |-> js, remaining |-> rs, leaving |-> ls, leader |-> Leader]

(* Who deals: all participants of a first DKG, the whole previous group in   *)
(* a resharing (config.OldNodes).                                            *)
DealersOf(t) == IF t.epoch = 1 THEN Participants(t) ELSE Range(t.remaining) \cup Range(t.leaving)

-----------------------------------------------------------------------------
(* The group a node builds (execution.go:asGroup)                            *)

NoGroup == [thr |-> 0]

PkOf(epoch, q) == IF epoch = 1 THEN <<"pk", q>> ELSE <<"pk", "prev">>

BuildGroup(t, q, rk, now) ==
  LET parts == Participants(t)
      members == {<<n, IndexOf(n, parts, rk)>> : n \in q}
      tt == TransitionTime(t.epoch, t.period, t.genesis, now)
      pk == PkOf(t.epoch, q)
  IN [members |-> members, thr |-> t.thr, period |-> t.period, genesis |-> t.genesis,
      transition |-> tt, pk |-> pk, scheme |-> "sch",
      \* len(group.GenesisSeed) == 0 => group.GenesisSeed = group.Hash()
      seed |-> IF t.seed = "none" THEN <<"H", members, t.thr, t.genesis, tt, pk>> ELSE <<t.seed>>]

\* named after the fields of key.Group
GroupFields == {"Nodes", "Threshold", "Period", "GenesisTime", "TransitionTime", "PublicKey", "Scheme", "GenesisSeed"}
Field(g, f) ==
  CASE f = "Nodes" -> g.members [] f = "Threshold" -> g.thr [] f = "Period" -> g.period
    [] f = "GenesisTime" -> g.genesis [] f = "TransitionTime" -> g.transition [] f = "PublicKey" -> g.pk
    [] f = "Scheme" -> g.scheme [] f = "GenesisSeed" -> g.seed
DiffFields(g1, g2) == {f \in GroupFields : Field(g1, f) # Field(g2, f)}

-----------------------------------------------------------------------------
(* Monitors (over observable values)                                         *)

\* F: function from the nodes that completed the epoch to their group
SameGroup(F) == \A a \in DOMAIN F : \A b \in DOMAIN F : DiffFields(F[a], F[b]) = {}
SameGroupExcept(F, X) == \A a \in DOMAIN F : \A b \in DOMAIN F : DiffFields(F[a], F[b]) \subseteq X

\* the mechanism: indices are the positions of the keys in sorted order (whatever the listing order)
IndexIsRank(members, parts, rk) ==
  \A mi \in members : mi[1] \in parts /\ mi[2] = IndexOf(mi[1], parts, rk)

\* the property: two ceremonies over the same keys whose participants were listed in a
\* different order give every member the same index
OrderIndependent(members1, members2) ==
  \A a \in members1 : \A b \in members2 : a[1] = b[1] => a[2] = b[2]

\* a node that completed is a member of its own group at the index of its share
OwnIndex(n, members, shareIdx) == <<n, shareIdx>> \in members

Done(F) == {n \in DOMAIN F : F[n] # NoGroup}
FinOf(F) == [n \in Done(F) |-> F[n]]

-----------------------------------------------------------------------------
(* Gossip packets                                                            *)

PktP == <<"P", 0>>
PktE == <<"E", 0>>
PktA(n) == <<"A", n>>

ProposalPhase == {"Proposing", "Proposed", "Accepted", "Joined"}

(* DBState.Apply for a packet that `to` has not seen; t = the proposal.      *)
(* Result: ok (no error), new status, whether the execution is set up.       *)
ApplyPacket(to, pid, s, t) ==
  CASE pid[1] = "P" ->
         IF s \in {"Fresh", "Prev"} /\ to \in Recipients(t)
           THEN [ok |-> TRUE, st |-> "Proposed", setup |-> FALSE, store |-> TRUE]
           ELSE [ok |-> FALSE, st |-> s, setup |-> FALSE, store |-> FALSE]
    [] pid[1] = "A" ->
         IF s \in ProposalPhase
           THEN [ok |-> TRUE, st |-> s, setup |-> FALSE, store |-> FALSE]
           ELSE [ok |-> FALSE, st |-> s, setup |-> FALSE, store |-> FALSE]
    [] pid[1] = "E" ->
         IF to \in Range(t.leaving) /\ s \in {"Proposed", "Joined"}
           THEN [ok |-> TRUE, st |-> "Left", setup |-> FALSE, store |-> FALSE]
         ELSE IF s \in {"Joined", "Accepted", "Proposing"} /\ to \in Participants(t)
           THEN [ok |-> TRUE, st |-> "Executing", setup |-> TRUE, store |-> FALSE]
           ELSE [ok |-> FALSE, st |-> s, setup |-> FALSE, store |-> FALSE]
    \* reject / abort packets are not part of this model
    [] OTHER -> [ok |-> FALSE, st |-> s, setup |-> FALSE, store |-> FALSE]

-----------------------------------------------------------------------------
(* kyber bundles and the black box                                           *)

Deal(n) == <<"D", n>>
Resp(n) == <<"R", n>>
Just(n) == <<"J", n>>

DealsKnown(h) == {b[2] : b \in {x \in h : x[1] = "D"}}
RespsKnown(h) == {b[2] : b \in {x \in h : x[1] = "R"}}
JustsKnown(h) == {b[2] : b \in {x \in h : x[1] = "J"}}

Missing(t, late) == late \cup Range(t.leaving)

(* A holder whose response is absent counts as a complaint against every     *)
(* dealer: each timely dealer publishes a justification (the absent          *)
(* holder's share) when it enters the justification phase.                   *)
NeedJust(n, t, late) == n \in DealersOf(t) /\ n \notin late /\ (Participants(t) \cap late) # {}
JustPush(n, t, late) == IF NeedJust(n, t, late) THEN {Just(n)} ELSE {}

(* What a node does, without any timeout, once it knows the bundles in h.    *)
(* Returns the new phase and the bundles it pushes.                          *)
RECURSIVE Advance(_, _, _, _, _)
Advance(n, ph, h, t, late) ==
  LET parts == Participants(t)
      dealers == DealersOf(t)
  IN IF ph = "deal" /\ dealers \subseteq DealsKnown(h)
       THEN LET r == Advance(n, "resp", h \cup {Resp(n)}, t, late)
            IN [ph |-> r.ph, h |-> r.h, push |-> {Resp(n)} \cup r.push]
     ELSE IF ph = "resp" /\ parts \subseteq RespsKnown(h)
       THEN IF n \in late
              THEN [ph |-> "failed", h |-> h, push |-> {}]     \* >= Thr complaints against itself
            ELSE IF Missing(t, late) = {}
              THEN [ph |-> "done", h |-> h, push |-> {}]       \* no complaint: result from the response phase
              ELSE [ph |-> "just", h |-> h \cup JustPush(n, t, late), push |-> JustPush(n, t, late)]
     ELSE [ph |-> ph, h |-> h, push |-> {}]

(* The protocol starts at the kick-off time: a dealer pushes its deal.       *)
StartNode(n, h, t, late) ==
  LET h1 == IF n \in DealersOf(t) THEN h \cup {Deal(n)} ELSE h
      r == Advance(n, "deal", h1, t, late)
  IN [ph |-> r.ph, h |-> r.h, push |-> (IF n \in DealersOf(t) THEN {Deal(n)} ELSE {}) \cup r.push]

(* A phase timeout of node n (phaser tick).                                  *)
TimeoutNode(n, ph, h, t, late) ==
  IF ph = "deal"
    THEN LET r == Advance(n, "resp", h \cup {Resp(n)}, t, late)
         IN [ph |-> r.ph, h |-> r.h, push |-> {Resp(n)} \cup r.push]
  ELSE IF ph = "resp" THEN IF n \in late THEN [ph |-> "failed", h |-> h, push |-> {}]
                           ELSE [ph |-> "just", h |-> h \cup JustPush(n, t, late), push |-> JustPush(n, t, late)]
  ELSE IF ph = "just" THEN [ph |-> IF n \in late THEN "failed" ELSE "done", h |-> h, push |-> {}]
  ELSE [ph |-> ph, h |-> h, push |-> {}]

QualOf(t, late) == Participants(t) \ late

(* echoBroadcast.BroadcastDKG at node `to` in phase ph knowing h:            *)
(*   no board yet -> error, the copy is lost; known hash -> ignored;         *)
(*   else remembered, re-sent once, handed to kyber.                         *)
EchoRecv(ph, h, b) ==
  IF ph = "idle" THEN [lost |-> TRUE, new |-> FALSE, h |-> h]
  ELSE IF b \in h THEN [lost |-> FALSE, new |-> FALSE, h |-> h]
  ELSE [lost |-> FALSE, new |-> TRUE, h |-> h \cup {b}]

-----------------------------------------------------------------------------
(* Design-level state machine                                                *)

InitStatus(n) == IF Epoch = 2 /\ n \in RemainSet \cup LeaveSet THEN "Prev" ELSE "Fresh"

Init ==
  /\ rank \in RankChoices
  /\ prop = NoTerms
  /\ st = [n \in Nodes |-> InitStatus(n)]
  /\ stored = [n \in Nodes |-> NoTerms]
  /\ seen = [n \in Nodes |-> {}]
  /\ gnet = {}
  /\ plock = {}
  /\ phase = [n \in Nodes |-> "idle"]
  /\ hashes = [n \in Nodes |-> {}]
  /\ bnet = {}
  /\ dropped = 0
  /\ qual = [n \in Nodes |-> {}]
  /\ clock = TMin
  /\ fin = [n \in Nodes |-> NoGroup]
  /\ op = [name |-> "Init"]

ListChoices(S) == IF PermuteLists THEN SeqsOf(S) ELSE {ById(S)}

SendGossip(net, pid, sender, t, sn) ==
  net \cup {<<pid, m>> : m \in {x \in (Recipients(t) \ Offline) \ {sender} : pid \notin sn[x]}}

(* Command(Initial / Resharing): StartNetwork / StartProposal               *)
Propose(js, rs, ls) ==
  /\ ~AtomicGossip
  /\ prop = NoTerms
  /\ LET t == MkTerms(js, rs, ls)
         sn == [seen EXCEPT ![Leader] = @ \cup {PktP}] IN
     /\ prop' = t
     /\ st' = [st EXCEPT ![Leader] = "Proposing"]
     /\ stored' = [stored EXCEPT ![Leader] = t]
     /\ seen' = sn
     \* the leader's own calls are tracked in plock: Command returns when all have returned
     \* (only the joining and remaining nodes: the proposal is sent to the leavers as well, but
     \* Command does not wait for them - "if it fails, no big deal")
     /\ plock' = Participants(t) \ {Leader}
     /\ gnet' = gnet \cup {<<PktP, m>> : m \in Range(ls) \ Offline}
  /\ op' = [name |-> "Propose", join |-> js, remain |-> rs, leave |-> ls]
  /\ UNCHANGED <<rank, dropped, phase, hashes, bnet, qual, clock, fin>>

(* Command(Join): joiners do not gossip                                      *)
Join(n) ==
  /\ n \in JoinSet /\ st[n] = "Proposed"
  /\ st' = [st EXCEPT ![n] = "Joined"]
  /\ op' = [name |-> "Join", n |-> n]
  /\ UNCHANGED <<rank, dropped, prop, stored, seen, gnet, plock, phase, hashes, bnet, qual, clock, fin>>

(* Command(Accept)                                                           *)
Accept(n) ==
  /\ n \in RemainSet /\ st[n] = "Proposed"
  /\ LET sn == [seen EXCEPT ![n] = @ \cup {PktA(n)}] IN
     /\ st' = [st EXCEPT ![n] = "Accepted"]
     /\ seen' = sn
     /\ gnet' = SendGossip(gnet, PktA(n), n, stored[n], sn)
  /\ op' = [name |-> "Accept", n |-> n]
  /\ UNCHANGED <<rank, dropped, prop, stored, plock, phase, hashes, bnet, qual, clock, fin>>

(* Command(Execute) by the leader: nothing makes it wait for the accepts.    *)
Execute ==
  /\ st[Leader] = "Proposing"
  /\ plock = {}           \* the proposal command still holds the lock otherwise
  /\ LET sn == [seen EXCEPT ![Leader] = @ \cup {PktE}] IN
     /\ st' = [st EXCEPT ![Leader] = "Executing"]
     /\ phase' = [phase EXCEPT ![Leader] = "setup"]
     /\ seen' = sn
     /\ gnet' = SendGossip(gnet, PktE, Leader, stored[Leader], sn)
  /\ op' = [name |-> "Execute"]
  /\ UNCHANGED <<rank, dropped, prop, stored, plock, hashes, bnet, qual, clock, fin>>

(* Process.Packet at `to`.  A copy for a node that has seen the packet is     *)
(* ignored; an error leaves the call pending (sendToPeer retries).           *)
GDeliver(pid, to) ==
  /\ <<pid, to>> \in gnet
  /\ to = Leader => plock = {}     \* Process.Packet waits for the process lock
  /\ IF pid \in seen[to]
       THEN /\ gnet' = gnet \ {<<pid, to>>}
            /\ UNCHANGED <<st, stored, seen, phase>>
       ELSE LET r == ApplyPacket(to, pid, st[to], prop) IN
            /\ r.ok
            /\ st' = [st EXCEPT ![to] = r.st]
            /\ stored' = IF r.store THEN [stored EXCEPT ![to] = prop] ELSE stored
            /\ phase' = IF r.setup THEN [phase EXCEPT ![to] = "setup"] ELSE phase
            /\ LET sn == [seen EXCEPT ![to] = @ \cup {pid}] IN
               /\ seen' = sn
               /\ gnet' = SendGossip(gnet \ {<<pid, to>>}, pid, to, prop, sn)
  /\ op' = [name |-> "GDeliver", typ |-> pid[1], origin |-> pid[2], to |-> to, from |-> 0]
  /\ UNCHANGED <<rank, dropped, prop, plock, hashes, bnet, qual, clock, fin>>

(* the leader's own proposal call to m is answered                           *)
PDeliver(m) ==
  /\ m \in plock
  /\ IF PktP \in seen[m]
       THEN UNCHANGED <<st, stored, seen, gnet>>
       ELSE LET r == ApplyPacket(m, PktP, st[m], prop)
                sn == [seen EXCEPT ![m] = @ \cup {PktP}] IN
            /\ r.ok
            /\ st' = [st EXCEPT ![m] = r.st]
            /\ stored' = [stored EXCEPT ![m] = prop]
            /\ seen' = sn
            /\ gnet' = SendGossip(gnet \ {<<PktP, m>>}, PktP, m, prop, sn)
  /\ plock' = plock \ {m}
  /\ op' = [name |-> "GDeliver", typ |-> "P", origin |-> 0, to |-> m, from |-> Leader]
  /\ UNCHANGED <<rank, dropped, prop, phase, hashes, bnet, qual, clock, fin>>

(* the whole gossip phase in one step (configs that explore something else) *)
GossipAll(js, rs, ls) ==
  /\ AtomicGossip
  /\ prop = NoTerms
  /\ LET t == MkTerms(js, rs, ls) IN
     /\ prop' = t
     /\ st' = [n \in Nodes |-> IF n \in Participants(t) THEN "Executing"
                               ELSE IF n \in Range(t.leaving) \ Offline THEN "Left" ELSE st[n]]
     /\ stored' = [n \in Nodes |-> IF n \in Recipients(t) \ Offline THEN t ELSE stored[n]]
     /\ phase' = [n \in Nodes |-> IF n \in Participants(t) THEN "setup" ELSE "idle"]
  /\ op' = [name |-> "GossipAll", join |-> js, remain |-> rs, leave |-> ls]
  /\ UNCHANGED <<rank, dropped, seen, gnet, plock, hashes, bnet, qual, clock, fin>>

ExecNodes == Participants(prop)

SendBundles(net, bs, sender, hs) ==
  IF sender \in LateSet THEN net
  ELSE net \cup {bm \in bs \X (ExecNodes \ {sender}) : bm[1] \notin hs[bm[2]]}

SetQual(ph, n) == IF ph = "done" THEN [qual EXCEPT ![n] = QualOf(prop, LateSet)] ELSE qual

(* kick-off timer of node n.  KickoffGracePeriod is assumed to cover the     *)
(* gossip latency: every participant has set up its board before anybody      *)
(* starts (otherwise bundles are refused and lost).                           *)
Start(n) ==
  /\ ~AtomicExec
  /\ prop # NoTerms /\ n \in ExecNodes /\ phase[n] = "setup"
  /\ \A m \in ExecNodes : phase[m] # "idle"
  /\ LET r == StartNode(n, hashes[n], prop, LateSet)
         hs == [hashes EXCEPT ![n] = r.h] IN
     /\ phase' = [phase EXCEPT ![n] = r.ph]
     /\ hashes' = hs
     /\ bnet' = SendBundles(bnet, r.push, n, hs)
     /\ qual' = SetQual(r.ph, n)
  /\ op' = [name |-> "Start", n |-> n]
  /\ UNCHANGED <<rank, dropped, prop, st, stored, seen, gnet, plock, clock, fin>>

(* echoBroadcast.BroadcastDKG(b) at node `to`                                *)
BDeliver(b, to) ==
  /\ <<b, to>> \in bnet
  /\ LET e == EchoRecv(phase[to], hashes[to], b) IN
     IF ~e.new
       THEN /\ bnet' = bnet \ {<<b, to>>}
            /\ UNCHANGED <<phase, hashes, qual>>
       ELSE LET r == IF phase[to] \in {"deal", "resp"}
                       THEN Advance(to, phase[to], e.h, prop, LateSet)
                       ELSE [ph |-> phase[to], h |-> e.h, push |-> {}]
                hs == [hashes EXCEPT ![to] = r.h] IN
            /\ phase' = [phase EXCEPT ![to] = r.ph]
            /\ hashes' = hs
            /\ bnet' = SendBundles(bnet \ {<<b, to>>}, {b} \cup r.push, to, hs)
            /\ qual' = SetQual(r.ph, to)
  /\ op' = [name |-> "BDeliver", kind |-> b[1], origin |-> b[2], to |-> to]
  /\ UNCHANGED <<rank, dropped, prop, st, stored, seen, gnet, plock, clock, fin>>

Timely == ExecNodes \ LateSet

(* The network loses the copy of bundle b that its author sent directly to   *)
(* `to` (at most MaxDrop times per ceremony).  Only the echo of another node  *)
(* can still bring b to `to`: taken while nobody else has b, so the copy in   *)
(* flight is the author's; at least three nodes must be relaying.            *)
BDrop(b, to) ==
  /\ dropped < MaxDrop /\ b[1] \in DropKinds
  /\ <<b, to>> \in bnet
  /\ Cardinality(Timely) >= 3
  /\ \A x \in ExecNodes \ {b[2]} : b \notin hashes[x]
  /\ bnet' = bnet \ {<<b, to>>}
  /\ dropped' = dropped + 1
  /\ op' = [name |-> "BDrop", kind |-> b[1], origin |-> b[2], to |-> to]
  /\ UNCHANGED <<rank, prop, st, stored, seen, gnet, plock, phase, hashes, qual, clock, fin>>

(* phase timeout of node n, under the synchrony assumption of the header     *)
Timeout(n) ==
  /\ ~AtomicExec
  /\ prop # NoTerms /\ n \in ExecNodes
  /\ Missing(prop, LateSet) # {}
  /\ \/ /\ phase[n] = "deal"
        /\ \A m \in ExecNodes : phase[m] \notin {"idle", "setup"}
        /\ \A m \in ExecNodes : (DealersOf(prop) \ Missing(prop, LateSet)) \subseteq DealsKnown(hashes[m])
     \/ /\ phase[n] = "resp"
        /\ \A m \in ExecNodes : phase[m] \notin {"idle", "setup", "deal"}
        /\ \A m \in ExecNodes : Timely \subseteq RespsKnown(hashes[m])
     \/ /\ phase[n] = "just"
        /\ \A m \in ExecNodes : phase[m] \notin {"idle", "setup", "deal", "resp"}
        /\ \A m \in ExecNodes : {d \in ExecNodes : NeedJust(d, prop, LateSet)} \subseteq JustsKnown(hashes[m])
  /\ LET r == TimeoutNode(n, phase[n], hashes[n], prop, LateSet)
         hs == [hashes EXCEPT ![n] = r.h] IN
     /\ phase' = [phase EXCEPT ![n] = r.ph]
     /\ hashes' = hs
     /\ bnet' = SendBundles(bnet, r.push, n, hs)
     /\ qual' = SetQual(r.ph, n)
  /\ op' = [name |-> "Timeout", n |-> n]
  /\ UNCHANGED <<rank, dropped, prop, st, stored, seen, gnet, plock, clock, fin>>

(* the whole kyber run in one step                                           *)
ExecAll ==
  /\ AtomicExec
  /\ prop # NoTerms
  /\ \A m \in ExecNodes : phase[m] = "setup"
  /\ phase' = [n \in Nodes |-> IF n \in ExecNodes THEN (IF n \in LateSet THEN "failed" ELSE "done") ELSE phase[n]]
  /\ qual' = [n \in Nodes |-> IF n \in Timely THEN QualOf(prop, LateSet) ELSE qual[n]]
  /\ op' = [name |-> "ExecAll"]
  /\ UNCHANGED <<rank, dropped, prop, st, stored, seen, gnet, plock, hashes, bnet, clock, fin>>

(* time passes while nodes are finishing                                     *)
Tick ==
  /\ clock < TMax
  /\ \E n \in Nodes : phase[n] = "done" /\ st[n] = "Executing"
  /\ clock' = clock + 1
  /\ op' = [name |-> "Tick", now |-> clock + 1]
  /\ UNCHANGED <<rank, dropped, prop, st, stored, seen, gnet, plock, phase, hashes, bnet, qual, fin>>

(* startDKGExecution result -> asGroup -> DBState.Complete -> SaveFinished,  *)
(* the transition time is read from the node's OWN clock NOW.                *)
Complete(n) ==
  /\ phase[n] = "done" /\ st[n] = "Executing"
  /\ fin' = [fin EXCEPT ![n] = BuildGroup(stored[n], qual[n], rank, clock)]
  /\ st' = [st EXCEPT ![n] = "Done"]
  /\ op' = [name |-> "Complete", n |-> n, now |-> clock]
  /\ UNCHANGED <<rank, dropped, prop, stored, seen, gnet, plock, phase, hashes, bnet, qual, clock>>

(* error path -> Failed -> SaveCurrent                                       *)
Fail(n) ==
  /\ phase[n] = "failed" /\ st[n] = "Executing"
  /\ st' = [st EXCEPT ![n] = "Failed"]
  /\ op' = [name |-> "Fail", n |-> n]
  /\ UNCHANGED <<rank, dropped, prop, stored, seen, gnet, plock, phase, hashes, bnet, qual, clock, fin>>

Next ==
  \/ \E js \in ListChoices(JoinSet), rs \in ListChoices(RemainSet), ls \in ListChoices(LeaveSet) :
        Propose(js, rs, ls) \/ GossipAll(js, rs, ls)
  \/ \E n \in Nodes : Join(n) \/ Accept(n) \/ Start(n) \/ Timeout(n) \/ Complete(n) \/ Fail(n)
  \/ Execute
  \/ \E m \in gnet : GDeliver(m[1], m[2])
  \/ \E m \in plock : PDeliver(m)
  \/ \E m \in bnet : BDeliver(m[1], m[2]) \/ BDrop(m[1], m[2])
  \/ ExecAll
  \/ Tick

Spec == Init /\ [][Next]_vars

View == <<rank, dropped, prop, st, stored, seen, gnet, plock, phase, hashes, bnet, qual, clock, fin>>

-----------------------------------------------------------------------------
(* Invariants of the design                                                  *)

TypeOK ==
  /\ \A n \in Nodes : st[n] \in {"Fresh", "Prev", "Proposing", "Proposed", "Accepted", "Joined",
                                 "Executing", "Done", "Left", "Failed"}
  /\ \A n \in Nodes : phase[n] \in {"idle", "setup", "deal", "resp", "just", "done", "failed"}
  /\ clock \in TMin..TMax

\* C06, first clause: one group (every field) at all nodes that completed
Inv_SameGroup == SameGroup(FinOf(fin))
\* ... the same but for the transition time (what holds even if F9 is real)
Inv_SameGroupButTransition == SameGroupExcept(FinOf(fin), {"TransitionTime"})

\* every node executes the terms of the one signed proposal
Inv_SameTerms == \A n \in Nodes : st[n] \in {"Executing", "Done"} => stored[n] = prop

\* indices depend on the keys only: whatever listing order Init/Propose chose, a member's index
\* is the position of its key (so any two listings agree: OrderIndependent)
Inv_OrderIndependent ==
  \A n \in Done(fin) : IndexIsRank(fin[n].members, JoinSet \cup RemainSet, rank)
Inv_OwnIndex ==
  \A n \in Done(fin) : OwnIndex(n, fin[n].members, IndexOf(n, JoinSet \cup RemainSet, rank))

\* the black box is used as stated: every node that finishes kyber has the same QUAL
Inv_SameQual == \A a, b \in Nodes : (phase[a] = "done" /\ phase[b] = "done") => qual[a] = qual[b]

\* nothing is refused for lack of a board (the grace-period assumption is effective)
Inv_NoLoss == \A m \in bnet : phase[m[2]] # "idle"

\* the echo heals a lost direct copy: once nothing is in flight every node knows every bundle
\* that a node which is not late has pushed
Inv_EchoHeals ==
  (prop # NoTerms /\ bnet = {}) =>
     \A m \in ExecNodes : \A x \in ExecNodes \ LateSet : \A b \in hashes[x] :
         (b[2] \notin LateSet /\ phase[m] # "idle") => b \in hashes[m]

\* reachability witnesses (negated in *_reach configs)
AllCompleted == \A n \in (JoinSet \cup RemainSet) \ LateSet : st[n] = "Done"
NotAllCompleted == ~AllCompleted
=============================================================================
