SPECIFICATION Spec
CONSTANTS
  n1 = n1
  n2 = n2
  n3 = n3
  Nodes = {n1, n2, n3}
  Thr = 2
  P = 2
  MaxRound = 2
  MaxSkew = 1
  SyncDelivery = FALSE
  Faults = 0
SYMMETRY Sym
INVARIANTS TypeOK NoEarlyPartial NoEarlyBeacon CacheAboveAggLast
PROPERTIES NoSkip
CHECK_DEADLOCK FALSE
VIEW View
