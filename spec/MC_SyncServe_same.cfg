SPECIFICATION Spec
CONSTANTS
  Streams = {1, 2}
  SameAddr = TRUE
  Writers = {1}
  Q = 2
  InitHead = 2
  MaxR = 4
  Froms = {0, 2}
  Backend = "bolt"
  Buf = 100
  Remap = FALSE
  Faults = {"cancel", "disc"}
  MaxFaults = 1
INVARIANTS TypeOK Inv_SentStored Mon_InOrder Mon_FromStart Mon_BeforeStart Mon_StoredDispatched
CHECK_DEADLOCK FALSE
