---------------------------- MODULE Trace_Hashes ----------------------------
(***************************************************************************)
(* Validates hash computations of the real code (Info.Hash, Group.Hash,    *)
(* the encoders/decoders, recorded by the overlay test TestVerifHashes)    *)
(* against Hashes.tla.  Each Step event carries the action, the abstract   *)
(* value and the observed digests; the abstract hash tuples are computed   *)
(* with the specification's operators and the monitors are evaluated on    *)
(* every PAIR of computations of the scenario (one scheme, one TLC walk or *)
(* the complete catalogue): digests equal iff abstract tuples equal.       *)
(***************************************************************************)
EXTENDS Hashes, Json

TraceLog == ndJsonDeserialize("trace.ndjson")

VARIABLES l, alarms, scen,
          seenG,    \* <<group hash tuple, digest, how>> observed in this scenario
          seenC     \* <<chain hash tuple, digest, how>> observed in this scenario

tvars == <<val, act, prev, l, alarms, scen, seenG, seenC>>

Alarm(mon, e, which, fields, how) ==
  [mon |-> mon, scenario |-> scen.class, scheme |-> scen.scheme, hash |-> which,
   fields |-> fields, how |-> how, action |-> e.a.name]

\* compare one new computation <<t, d, how>> with everything seen so far
Check(seen, names, which, t, d, how, e) ==
  UNION {
    (IF ~Mon_SameParamsSameHash(s[1], s[2], t, d)
       THEN {Alarm("Mon_SameParamsSameHash", e, which, {}, <<s[3], how>>)} ELSE {})
    \cup
    (IF ~Mon_DiffParamsDiffHash(s[1], s[2], t, d)
       THEN {Alarm("Mon_DiffParamsDiffHash", e, which, Diff(names, s[1], t), <<s[3], how>>)} ELSE {})
    : s \in seen }

How(e) == IF e.a.name = "via" THEN e.a.path ELSE "direct"

TraceInit == /\ l = 1 /\ alarms = {} /\ scen = [name |-> "none", class |-> "none", scheme |-> "none", fam |-> "none"]
             /\ seenG = {} /\ seenC = {}
             /\ val = 0 /\ act = [name |-> "init"] /\ prev = 0

StepReset(e) ==
  /\ e.ev = "Reset"
  /\ scen' = [name |-> e.scenario, class |-> e.class, scheme |-> e.scheme, fam |-> e.fam]
  /\ seenG' = {} /\ seenC' = {} /\ alarms' = alarms
  /\ UNCHANGED <<val, act, prev>>

\* a group value: its hash, and the hash of its chain info once it has a key
StepGroup(e) ==
  /\ e.ev = "Step" /\ scen.fam \in {"group", "groupseq"}
  /\ LET tG == GroupHash(e.v)
         viaOK == e.a.name = "via" /\ e.perr = ""
         newG == {<<tG, e.gh, "direct">>} \cup (IF viaOK THEN {<<tG, e.pgh, e.a.path>>} ELSE {})
         tC == ChainHash(ChainOfGroup(e.v))
         newC == IF ~HasChain(e.v) THEN {}
                 ELSE {<<tC, e.ch, "group">>} \cup (IF viaOK THEN {<<tC, e.pch, "group-" \o e.a.path>>} ELSE {})
         A1 == UNION {Check(seenG \cup (newG \ {n}), GroupFieldNames, "group", n[1], n[2], n[3], e) : n \in newG}
         A2 == UNION {Check(seenC \cup (newC \ {n}), ChainFieldNames, "chain", n[1], n[2], n[3], e) : n \in newC}
         A3 == IF e.a.name = "via" /\ e.perr # "" THEN {Alarm("Conformance", e, "group", {}, <<e.a.path, e.perr>>)} ELSE {}
     IN /\ seenG' = seenG \cup newG /\ seenC' = seenC \cup newC
        /\ alarms' = alarms \cup A1 \cup A2 \cup A3
  /\ val' = e.v /\ act' = e.a /\ prev' = val /\ scen' = scen

\* a standalone chain info
StepChain(e) ==
  /\ e.ev = "Step" /\ scen.fam \in {"chain", "chainseq"}
  /\ LET tC == ChainHash(ChainOfInfo(e.v))
         newC == {<<tC, e.ch, "direct">>} \cup (IF e.a.name = "via" /\ e.perr = "" THEN {<<tC, e.pch, e.a.path>>} ELSE {})
                 \cup (IF e.a.name = "toproto" THEN {<<tC, e.pch, "toproto-declared">>} ELSE {})
         A1 == UNION {Check(seenC \cup (newC \ {n}), ChainFieldNames, "chain", n[1], n[2], n[3], e) : n \in newC}
         A2 == IF e.a.name = "via" /\ e.perr # "" THEN {Alarm("Conformance", e, "chain", {}, <<e.a.path, e.perr>>)} ELSE {}
         tampered == [e.v EXCEPT ![e.a.field] = e.a.nv]
         A3 == IF e.a.name = "tamper" /\ ~e.a.strip /\ ~Mon_TamperRejected(e.v, tampered, e.accepted)
                 THEN {Alarm("Mon_TamperRejected", e, "chain", {e.a.field}, <<e.a.path, "accepted">>)} ELSE {}
         \* not claimed by the statement, but what the code does (drift if it stops doing it): fields
         \* that still match their embedded hash, or that come without one, are accepted
         A4 == IF e.a.name = "tamper" /\ ~e.accepted
                  /\ (e.a.strip \/ ChainHash(ChainOfInfo(tampered)) = ChainHash(ChainOfInfo(e.v)))
                 THEN {Alarm("Conformance", e, "chain", {e.a.field},
                             <<e.a.path, IF e.a.strip THEN "rejected although no hash is embedded"
                                         ELSE "rejected although the hash still matches">>)} ELSE {}
         \* sequence family: a document (fields fv, declaring the hash of dv) decoded INTO the live value
         dec == e.a.name = "decode"
         A5 == IF dec /\ e.a.decl # "none" /\ ~Mon_TamperRejected(e.a.dv, e.a.fv, e.accepted)
                 THEN {Alarm("Mon_TamperRejected", e, "chain", Diff(ChainFieldNames, ChainHash(ChainOfInfo(e.a.dv)), ChainHash(ChainOfInfo(e.a.fv))),
                             <<e.a.path, "accepted">>)} ELSE {}
         A6 == IF dec /\ e.a.decl # "none" /\ ~Mon_DecodedHashIsDeclared(e.accepted, e.dh, e.ch)
                 THEN {Alarm("Mon_DecodedHashIsDeclared", e, "chain", {}, <<e.a.path, e.a.decl>>)} ELSE {}
         A7 == IF dec /\ e.accepted # e.a.accept /\ A5 = {}
                 THEN {Alarm("Conformance", e, "chain", {}, <<e.a.path, "a document that declares no hash or the hash of its fields was rejected">>)} ELSE {}
     IN /\ seenC' = seenC \cup newC /\ seenG' = seenG
        /\ alarms' = alarms \cup A1 \cup A2 \cup A3 \cup A4 \cup A5 \cup A6 \cup A7
  /\ val' = e.v /\ act' = e.a /\ prev' = val /\ scen' = scen

TraceNext ==
  /\ l <= Len(TraceLog)
  /\ LET e == TraceLog[l] IN StepReset(e) \/ StepGroup(e) \/ StepChain(e)
  /\ l' = l + 1

TraceSpec == TraceInit /\ [][TraceNext]_tvars

AtEnd == l = Len(TraceLog) + 1 =>
           /\ PrintT(<<"VP", "ALARMS", ToJson(alarms)>>)
           /\ PrintT(<<"VP", "DONE", ToJson([lines |-> Len(TraceLog)])>>)
=============================================================================
