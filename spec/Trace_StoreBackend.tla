------------------------- MODULE Trace_StoreBackend -------------------------
(***************************************************************************)
(* Code -> spec direction for C18.  The overlay tests TestVerifBackend     *)
(* (packages boltdb and memdb) record every call made on a REAL store and  *)
(* what it returned.  For every recorded call this module applies          *)
(* StoreBackend!Apply for the back-end of the scenario and                 *)
(*   - compares the observed result with the transcribed code (operators Impl..):     *)
(*     a difference is alarm "Conformance" (the spec does not describe     *)
(*     the code: model drift, inconclusive),                               *)
(*   - evaluates the monitors on the OBSERVED result against the reference *)
(*     sorted map (operators Ref..): a failure is an alarm named after the monitor    *)
(*     (a violation of C18 seen on the real code).                         *)
(* Nothing observed is adopted: the map content is fully determined by the *)
(* Put/Del calls of the scenario.                                          *)
(***************************************************************************)
EXTENDS StoreBackend, Json

TraceLog == ndJsonDeserialize("trace.ndjson")

VARIABLES l,        \* next line of the trace
          alarms,   \* [key -> [scenario, line, count]]; key = [mon, backend, op, shape, detail]
          scen,     \* current scenario (from the last Reset line)
          tk        \* memdb capacity of the current scenario

tvars == <<b, st, m, cur, rc, dirty, op, hist, l, alarms, scen, tk>>

Range(s) == {s[i] : i \in DOMAIN s}

Key(mon, o, shape, detail) == [mon |-> mon, backend |-> b, op |-> o, shape |-> shape, detail |-> detail]
\* add the keys ks (first occurrence remembers scenario and line)
Add(al, ks) ==
  [k \in (DOMAIN al) \cup ks |->
     IF k \in DOMAIN al
       THEN (IF k \in ks THEN [al[k] EXCEPT !.count = @ + 1] ELSE al[k])
       ELSE [scenario |-> scen, line |-> l, count |-> 1]]

TraceInit == /\ b = "bolt" /\ st = <<>> /\ m = EmptyMap /\ cur = ClosedCur /\ rc = ClosedRC /\ dirty = FALSE
             /\ op = [op |-> "init"] /\ hist = <<>>
             /\ l = 1 /\ alarms = [k \in {} |-> 0] /\ scen = "none" /\ tk = 0

StepReset(e) ==
  /\ e.ev = "Reset"
  /\ b' = e.backend /\ tk' = e.k /\ scen' = e.scenario
  /\ st' = <<>> /\ m' = EmptyMap /\ cur' = ClosedCur /\ rc' = ClosedRC /\ dirty' = FALSE
  /\ alarms' = IF e.backend \in {"bolt", "trimmed", "trimmedc", "memdb"} THEN alarms
               ELSE Add(alarms, {Key("Conformance", "reset", "-", "unknown back-end")})

\* the dump that may follow a mutation: Get of every round lo..hi and Len, all through the API
DumpObs(d, r) ==
  IF \E i \in DOMAIN d.items : d.items[i][1] = r
    THEN LET it == d.items[CHOOSE i \in DOMAIN d.items : d.items[i][1] = r] IN Found(it[2], it[3], it[4])
    ELSE NotFound
DumpAlarms(e, x) ==
  IF "dump" \notin DOMAIN e THEN {}
  ELSE LET d == e.dump
           asked == d.lo .. d.hi
           badRef == {r \in asked : DumpObs(d, r) # RefGet(b, x.S.m, r)}
           badImpl == {r \in asked : DumpObs(d, r) # ImplGet(b, x.S.st, r)}
           badLabel == {r \in asked : ~LabelMatchesData("get", DumpObs(d, r))}
           found == {r \in asked : DumpObs(d, r).ok}
       IN (IF badRef # {} \/ d.len # RefLen(x.S.m).n THEN {Key("RefinesSortedMap", e.op, x.shape, "dump")} ELSE {})
          \cup (IF badImpl # {} \/ d.len # ImplLen(x.S.st).n \/ d.err THEN {Key("Conformance", e.op, x.shape, "dump")} ELSE {})
          \cup (IF badLabel # {} THEN {Key("LabelMatchesData", e.op, x.shape, "dump")} ELSE {})
          \cup (IF b = "memdb" /\ e.op = "put" /\ (DOMAIN m) \cup {e.round} \subseteq asked
                   /\ ~RingForgetsOnlyOldest(tk, m, e.round, found)
                  THEN {Key("RingForgetsOnlyOldest", e.op, x.shape, "dump")} ELSE {})

StepOp(e) ==
  /\ e.ev = "Op"
  /\ \E x \in {Apply(b, tk, Pack(st, m, cur, rc, dirty), e.op, e.round, e.v)} :
       LET S == Pack(st, m, cur, rc, dirty)
           obs == e.res
           failed == FailedMonitors(b, S, e.op, e.round, obs, x)
           A1 == {Key(mon, e.op, x.shape, "") : mon \in failed}
           A2 == IF obs # x.res THEN {Key("Conformance", e.op, x.shape, "")} ELSE {}
       IN /\ st' = x.S.st /\ m' = x.S.m /\ cur' = x.S.cur /\ rc' = x.S.rc /\ dirty' = x.S.dirty
          /\ alarms' = Add(alarms, A1 \cup A2 \cup DumpAlarms(e, x))
  /\ UNCHANGED <<b, tk, scen>>

\* a real call did not return within its deadline / the harness gave up on the scenario
StepAbort(e) ==
  /\ e.ev = "Abort"
  /\ alarms' = Add(alarms, {Key("Conformance", "abort", "-", e.detail)})
  /\ UNCHANGED <<b, st, m, cur, rc, dirty, tk, scen>>

TraceNext ==
  /\ l <= Len(TraceLog)
  /\ LET e == TraceLog[l] IN StepReset(e) \/ StepOp(e) \/ StepAbort(e)
  /\ l' = l + 1
  /\ UNCHANGED <<op, hist>>

TraceSpec == TraceInit /\ [][TraceNext]_tvars

AlarmList == {[mon |-> k.mon, backend |-> k.backend, op |-> k.op, shape |-> k.shape, detail |-> k.detail,
               scenario |-> alarms[k].scenario, line |-> alarms[k].line, count |-> alarms[k].count]
              : k \in DOMAIN alarms}

\* printed once, in the last state
AtEnd == l = Len(TraceLog) + 1 =>
           /\ PrintT(<<"VP", "ALARMS", ToJson(AlarmList)>>)
           /\ PrintT(<<"VP", "DONE", ToJson([lines |-> Len(TraceLog)])>>)
=============================================================================
