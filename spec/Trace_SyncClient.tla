-------------------------- MODULE Trace_SyncClient --------------------------
(***************************************************************************)
(* Validates executions of the real SyncManager (recorded by the overlay   *)
(* tests TestVerifSyncClient in internal/chain/beacon and TestVerifFollow  *)
(* in internal/core) against SyncClient.tla.                               *)
(*                                                                         *)
(* Every recorded step is explained with the specification's operators     *)
(* (ItemOf for what a scripted peer delivers, CheckOp for the chain check, *)
(* StoreHead for `from`); differences are `Conformance` alarms (model      *)
(* drift, never a verdict).  The monitors of SyncClient.tla are evaluated  *)
(* on the OBSERVED values (round, head before the write, oracle booleans,  *)
(* store read-back) and the observed state is adopted, so one divergence   *)
(* does not hide the rest of the trace ("permissive twin" of TaskItem).    *)
(***************************************************************************)
EXTENDS SyncClient, Json, Integers

TraceLog == ndJsonDeserialize("trace.ndjson")

VARIABLES l,        \* next line
          alarms,   \* monitor failures so far
          sc,       \* current scenario (the Reset line)
          ts,       \* tracked raw store: [0..maxr -> {"none","ok","bad"}]
          str,      \* sequence of stream records, index = sid
          info      \* reported set, last Sync result, counters

tvars == <<vars, l, alarms, sc, ts, str, info>>

Range(s) == {s[k] : k \in DOMAIN s}
TRounds == 0..8

Alarm(mon, e, detail) == [mon |-> mon, scenario |-> sc.scenario, mode |-> sc.mode, chained |-> sc.chained,
                          ev |-> e.ev, line |-> l, detail |-> detail]
Conf(e, detail) == {Alarm("Conformance", e, detail)}

NoScenario == [scenario |-> "none", mode |-> "none", chained |-> FALSE, start |-> 0, target |-> 0, maxr |-> 8,
               peers |-> <<>>, corrupt |-> <<>>, budget |-> 0, harness |-> "none"]
NoInfo == [reported |-> {}, checked |-> FALSE, ret |-> "", ticks |-> 0, reqs |-> 0]

TInitStore(e) ==
  LET co == Range(e.corrupt) IN
  [r \in TRounds |->
     IF r > e.start THEN "none"
     ELSE IF \E c \in co : c[1] = r /\ c[2] = "del" THEN "none"
     ELSE IF \E c \in co : c[1] = r /\ c[2] = "bad" THEN "bad" ELSE "ok"]

Resync == sc.mode = "repair"
\* only the trimmed bolt format rebuilds the previous signature of round r from the entry of round r-1
Trimmed == IF "backend" \in DOMAIN sc THEN sc.backend = "trimmed" ELSE TRUE
TChained == sc.chained /\ Trimmed
THead == StoreHead(ts)
TGoal == IF sc.mode = "repair" THEN 0
         ELSE IF sc.target > 0 THEN sc.target
         ELSE LET hs == {p[4] : p \in {q \in Range(sc.peers) : q[2] = "Honest"}} IN
              IF hs = {} THEN 0 ELSE CHOOSE h \in hs : \A g \in hs : g <= h
THonestAhead ==
  \E p \in Range(sc.peers) : p[2] = "Honest" /\
     IF sc.mode = "repair" THEN p[4] >= sc.start ELSE (TGoal > 0 /\ p[4] >= TGoal)

Opened(p) == \E i \in DOMAIN str : str[i].peer = p

-----------------------------------------------------------------------------
TraceInit ==
  /\ cfg = [mode |-> "trace"] /\ store = [r \in TRounds |-> "none"] /\ alast = 0 /\ slast = 0
  /\ called = <<>> /\ tasks = <<>> /\ queue = <<>> /\ age = 0 /\ cur = 0 /\ ctxDone = FALSE
  /\ notif = 0 /\ drv = [phase |-> "trace"] /\ agg = 0 /\ obs = [kind |-> "init"]
  /\ l = 1 /\ alarms = {} /\ sc = NoScenario
  /\ ts = [r \in TRounds |-> IF r = 0 THEN "ok" ELSE "none"]
  /\ str = <<>> /\ info = NoInfo

StepReset(e) ==
  /\ e.ev = "Reset"
  /\ sc' = e /\ ts' = TInitStore(e) /\ str' = <<>> /\ info' = NoInfo
  /\ alarms' = alarms

\* client.SyncChain was called by tryNode
StepOpen(e) ==
  /\ e.ev = "Open"
  /\ LET known == e.peer >= 1 /\ e.peer <= Len(sc.peers)
         pt == IF known THEN sc.peers[e.peer] ELSE <<"Silent", "Silent", 0, 0>>
         kind == IF Opened(e.peer) THEN pt[2] ELSE pt[1]
         A1 == IF e.sid # Len(str) + 1 THEN Conf(e, "stream ids out of sequence") ELSE {}
         A2 == IF ~known THEN Conf(e, "SyncChain called for our own address or an unknown peer") ELSE {}
         A3 == IF known /\ kind # e.kind THEN Conf(e, "harness picked another behaviour than the scenario") ELSE {}
         A4 == IF ~e.reqid THEN Conf(e, "sync request does not carry the pinned beacon id") ELSE {}
         A5 == IF Resync
                 THEN IF e.from \notin info.reported THEN Conf(e, "resync stream does not start at a reported round") ELSE {}
                 ELSE IF e.from # THead + 1 THEN Conf(e, "stream does not start at last+1") ELSE {}
     IN /\ alarms' = alarms \cup A1 \cup A2 \cup A3 \cup A4 \cup A5
        /\ str' = Append(str, [peer |-> e.peer, kind |-> e.kind, k |-> pt[3], hd |-> pt[4], from |-> e.from,
                               pos |-> 0, taint |-> FALSE, why |-> "none", pendLie |-> FALSE, pendRound |-> 0, pendT |-> "none",
                               pendStorable |-> FALSE, pendSeen |-> TRUE, open |-> e.res = "ok"])
  /\ UNCHANGED <<sc, ts, info>>

Req(s) == IF Resync THEN {s.from} ELSE {}

\* the verified in-order item that was pending when the stream moved on must have reached the store
\* (unless another writer - aggregator, second Sync goroutine - stored that round meanwhile)
Unstored(s) == s.pendStorable /\ ~s.pendSeen /\ ts[s.pendRound] # "ok"

\* tryNode took an item from the stream
StepRecv(e) ==
  /\ e.ev = "Recv"
  /\ LET s == str[e.sid]
         it == ItemOf(s.kind, s.k, s.from, e.j, s.hd)
         A1 == IF e.j # s.pos THEN Conf(e, "items out of sequence") ELSE {}
         A2 == IF it.t # e.t \/ it.round # e.round THEN Conf(e, "harness item differs from ItemOf") ELSE {}
         A3 == IF Unstored(s) THEN Conf(e, "a verified in-order item was not stored") ELSE {}
         storable == Verified(e.t) /\ (IF Resync THEN e.round = s.from ELSE e.round = THead + 1)
     IN /\ alarms' = alarms \cup A1 \cup A2 \cup A3
        /\ str' = [str EXCEPT ![e.sid] =
              [s EXCEPT !.pos = e.j + 1, !.taint = s.taint \/ s.pendLie,
                        !.why = IF ~s.taint /\ s.pendLie THEN s.pendT ELSE s.why,
                        !.pendLie = IsLie(e.t, Resync, e.round, THead, Req(s)),
                        !.pendRound = e.round, !.pendT = e.t, !.pendStorable = storable, !.pendSeen = FALSE]]
  /\ UNCHANGED <<sc, ts, info>>

\* the item passed the beacon-id test and VerifyBeacon (hook sync.beforePut)
StepBeforePut(e) ==
  /\ e.ev = "BeforePut"
  /\ LET s == str[e.sid]
         A1 == IF s.pendRound # e.round THEN Conf(e, "put attempt for another round than the item received") ELSE {}
     IN alarms' = alarms \cup A1
  /\ UNCHANGED <<sc, ts, str, info>>

\* a beacon reached the raw base store
StepPut(e) ==
  /\ e.ev = "Put"
  /\ LET bySync == e.sid >= 1
         s == IF bySync THEN str[e.sid] ELSE [taint |-> FALSE, from |-> 0, why |-> "none"]
         resync == bySync /\ Resync
         stored == e.res = "ok"
         A1 == IF stored /\ ~OnlyVerifiedInOrder(resync, e.verifies, e.round, e.hb, IF bySync THEN Req(s) ELSE {})
                 THEN {Alarm("OnlyVerifiedInOrder", e,
                         IF ~e.verifies THEN "unverified-beacon-stored"
                         ELSE IF resync THEN "repair-wrote-unrequested-round"
                         ELSE IF e.round > e.hb + 1 THEN "gap" ELSE "rewrite")}
                 ELSE {}
         A2 == IF stored /\ bySync /\ ~NothingFromLiars(s.taint)
                 THEN {Alarm("NothingFromLiars", e, "stored-after-" \o s.why)} ELSE {}
         A3 == IF e.hb >= 0 /\ e.hb # THead THEN Conf(e, "head before the put differs from the tracked store") ELSE {}
         \* a repair goes through the raw store, behind the append store's back: it must never write above the stored head
         A5 == IF stored /\ resync /\ e.hb >= 0 /\ e.round > e.hb
                 THEN {Alarm("WritesAboveHead", e, "repair-wrote-above-the-head")} ELSE {}
         A4 == IF e.sid = 0 THEN Conf(e, "put by an unknown writer") ELSE {}
     IN /\ alarms' = alarms \cup A1 \cup A2 \cup A3 \cup A4 \cup A5
        /\ ts' = IF stored /\ e.round \in TRounds
                   THEN [ts EXCEPT ![e.round] = IF e.verifies THEN "ok" ELSE "bad"] ELSE ts
        /\ str' = IF bySync THEN [str EXCEPT ![e.sid].pendSeen = TRUE] ELSE str
  /\ UNCHANGED <<sc, info>>

\* an entry was removed from the raw base store
StepDel(e) ==
  /\ e.ev = "Del"
  /\ ts' = IF e.res = "ok" /\ e.round \in TRounds THEN [ts EXCEPT ![e.round] = "none"] ELSE ts
  /\ UNCHANGED <<alarms, sc, str, info>>

StepStreamEnd(e) ==
  /\ e.ev \in {"CtxDone", "Close"}
  \* (an item taken just before the cancellation may legitimately fail to be stored: Put returns ctx.Err())
  /\ alarms' = alarms
  /\ str' = [str EXCEPT ![e.sid].open = FALSE, ![e.sid].pendStorable = FALSE]
  /\ UNCHANGED <<sc, ts, info>>

StepEnv(e) ==
  /\ e.ev \in {"Tick", "Req", "AggPut", "SyncRet", "Progress", "Abort"}
  /\ info' = CASE e.ev = "Tick" -> [info EXCEPT !.ticks = @ + 1]
               [] e.ev = "Req" -> [info EXCEPT !.reqs = @ + 1]
               [] e.ev = "SyncRet" -> [info EXCEPT !.ret = e.err]
               [] OTHER -> info
  /\ UNCHANGED <<alarms, sc, ts, str>>

\* CheckPastBeacons returned
StepCheck(e) ==
  /\ e.ev = "Check"
  /\ LET rep == Range(e.reported)
         bad == Range(e.oracle)
         aborted == e.err # "nil" \/ ~e.returned
         A1 == IF aborted
                 THEN IF {r \in 1..Min2(e.upTo, THead) : r \in bad} # {}
                        THEN {Alarm("CheckExact", e, "check-aborted")} ELSE {}
                 ELSE IF ~CheckExact(rep, bad, e.upTo, THead)
                        THEN {Alarm("CheckExact", e, IF \E r \in rep : r > THead THEN "reported-round-above-head"
                                                      ELSE IF rep \subseteq bad THEN "missed-faulty-round" ELSE "reported-sound-round")}
                        ELSE {}
         A2 == IF aborted # LastUnreadable(ts, TChained) THEN Conf(e, "the check aborts exactly when Last() is unreadable")
               ELSE IF ~aborted /\ rep # CheckOp(ts, TChained, e.upTo) THEN Conf(e, "reported set differs from CheckOp") ELSE {}
         A3 == IF e.head >= 0 /\ e.head # THead THEN Conf(e, "head differs from the tracked store") ELSE {}
     IN /\ alarms' = alarms \cup A1 \cup A2 \cup A3
        /\ info' = [info EXCEPT !.reported = rep, !.checked = TRUE]
  /\ UNCHANGED <<sc, ts, str>>

Cls(rows, r) == LET m == {x \in Range(rows) : x[1] = r} IN IF m = {} THEN <<r, "none", "-">> ELSE CHOOSE x \in m : TRUE

\* CorrectPastBeacons returned (or is stuck): store read back before and after
StepCorrected(e) ==
  /\ e.ev = "Corrected"
  /\ LET rep == Range(e.reported) \cap TRounds      \* (a round beyond the fabricated chain cannot be read back)
         pre == [r \in TRounds |-> <<Cls(e.pre, r)[2], Cls(e.pre, r)[3]>>]
         post == [r \in TRounds |-> <<Cls(e.post, r)[2], Cls(e.post, r)[3]>>]
         postc == [r \in TRounds |-> post[r][1]]
         \* in a chained trimmed store the read-back of r+1 depends on r: compare only rounds
         \* whose predecessor was not reported either
         indep == {r \in TRounds : r \notin rep /\ (TChained /\ r > 0 => (r - 1) \notin rep)}
         touched == {r \in indep : post[r] # pre[r]}
         A1 == IF touched # {}
                 THEN {Alarm("RepairExact", e, IF \A r \in touched : post[r][1] = "ok"
                                                 THEN "unreported-round-written-with-valid-beacon"
                                                 ELSE "unreported-round-damaged")} ELSE {}
         interrupted == IF "interrupted" \in DOMAIN e THEN e.interrupted ELSE FALSE
         A2 == IF e.returned /\ ~interrupted /\ THonestAhead /\ ~RepairRestored(postc, rep)
                 THEN {Alarm("RepairExact", e, "reported-round-not-restored")} ELSE {}
         \* however the repair ended (done, cancelled, failed write): what was stored and readable before it still is,
         \* by Get (read-back classes) and by a cursor scan
         prec == [r \in TRounds |-> pre[r][1]]
         curLost == IF "pre_cursor" \in DOMAIN e THEN Range(e.pre_cursor) \ Range(e.post_cursor) ELSE {}
         A3 == IF RepairLosesRound(prec, postc) \/ curLost # {}
                 THEN {Alarm("RepairLosesRound", e, IF interrupted THEN "round-missing-after-interrupted-repair"
                                                                    ELSE "round-missing-after-repair")} ELSE {}
         top(f) == LET S == {r \in TRounds : f[r] # "none"} IN IF S = {} THEN 0 ELSE CHOOSE r \in S : \A q \in S : q <= r
         A4 == IF top(postc) > top(prec) THEN {Alarm("WritesAboveHead", e, "head-moved-by-repair")} ELSE {}
     IN alarms' = alarms \cup A1 \cup A2 \cup A3 \cup A4
  /\ UNCHANGED <<sc, ts, str, info>>

\* end of the scenario: the system is quiescent (or the fair environment used its budget)
StepEnd(e) ==
  /\ e.ev = "End"
  /\ LET okAt(r) == Cls(e.rounds, r)[2] = "ok"
         want(r) == ts[r] = "ok" /\ (TChained /\ r > 0 => ts[r - 1] = "ok")
         A1 == IF e.quiescent /\ e.head >= 0 /\ \E r \in TRounds : okAt(r) # want(r) THEN Conf(e, "final store differs from the tracked store") ELSE {}
         repaired == e.returned /\ \A r \in info.reported : okAt(r)
         converged == IF sc.mode = "repair" THEN repaired ELSE ConvergedAt(e.head, TGoal)
         since == IF "attempts_since_progress" \in DOMAIN e THEN e.attempts_since_progress ELSE 0
         cause == IF Len(e.blocked) > 0 /\ sc.mode = "follow" THEN "blocked-on-silent-stream-no-timeout"
                  ELSE IF Len(e.blocked) > 0 /\ sc.mode = "repair" /\ ~e.returned THEN "blocked-on-silent-stream-no-timeout"
                  ELSE IF sc.mode = "follow" /\ e.ret = "sync-returned-errchan-nil" THEN "no-retry-after-failed-attempt"
                  ELSE IF sc.mode = "follow" /\ since >= 5 THEN "retries-without-progress"
                  ELSE IF sc.mode = "follow" THEN "still-failing-after-retries"
                  ELSE IF sc.mode = "repair" THEN "gave-up-after-retry"
                  ELSE IF sc.mode = "run" THEN "budget-exhausted" ELSE "other"
         \* a follower that keeps retrying is "not converging" (rather than slow) only when the real code ended
         \* at least 5 attempts in a row without storing a beacon (End.attempts_since_progress, counted by the harness
         \* from the process's own announcements of failed attempts); a stream that never ends is the other cause
         judged == sc.mode # "follow" \/ sc.harness # "core" \/ converged \/ Len(e.blocked) > 0
                   \/ e.ret = "sync-returned-errchan-nil" \/ e.follow_returned \/ since >= 5
         A2 == IF e.liveness /\ e.quiescent /\ THonestAhead /\ ~converged /\ judged
                 THEN {Alarm("Converges", e, cause)} ELSE {}
     IN alarms' = alarms \cup A1 \cup A2
  /\ UNCHANGED <<sc, ts, str, info>>

\* the process running the real code died (panic) during the current scenario
StepCrash(e) ==
  /\ e.ev = "Crash"
  /\ alarms' = alarms \cup
       (IF THonestAhead THEN {Alarm("Converges", e, "process-crashed")} ELSE {Alarm("Crash", e, e.what)})
  /\ UNCHANGED <<sc, ts, str, info>>

StepTimeout(e) ==
  /\ e.ev = "Timeout"
  /\ alarms' = alarms \cup {Alarm("Inconclusive", e, e.what)}
  /\ UNCHANGED <<sc, ts, str, info>>

TraceNext ==
  /\ l <= Len(TraceLog)
  /\ LET e == TraceLog[l] IN
       \/ StepReset(e) \/ StepOpen(e) \/ StepRecv(e) \/ StepBeforePut(e) \/ StepPut(e) \/ StepDel(e) \/ StepStreamEnd(e)
       \/ StepEnv(e) \/ StepCheck(e) \/ StepCorrected(e) \/ StepEnd(e) \/ StepTimeout(e) \/ StepCrash(e)
  /\ l' = l + 1
  /\ UNCHANGED vars

TraceSpec == TraceInit /\ [][TraceNext]_tvars

AtEnd == l = Len(TraceLog) + 1 =>
           /\ PrintT(<<"VP", "ALARMS", ToJson(alarms)>>)
           /\ PrintT(<<"VP", "DONE", ToJson([lines |-> Len(TraceLog)])>>)
=============================================================================
