SPECIFICATION Spec
CONSTANTS
  Kinds = {"trimmedc"}
  K = 3
  Rounds = {0,1,2,3,4}
  Vals = {1,2}
  MaxPos = 5
  MutInCursor = FALSE
  Depth = 0
INVARIANTS TypeOK Inv_Sorted Inv_Capacity Inv_Content
PROPERTIES Act_StrictCex
VIEW View
