----------------------------- MODULE MC_DKGExec -----------------------------
(* Constant definitions for the exhaustive configurations of DKGExec.tla.   *)
EXTENDS DKGExec

N == Cardinality(Nodes)
\* every order of the public keys
AllRanks == {r \in [Nodes -> 1..N] : \A a, b \in Nodes : a # b => r[a] # r[b]}
\* one fixed order that is neither the identity nor its reverse (keys are random in reality)
RotRank == {[n \in Nodes |-> (n % N) + 1]}
IdRank == {[n \in Nodes |-> n]}
=============================================================================
