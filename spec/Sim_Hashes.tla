----------------------------- MODULE Sim_Hashes -----------------------------
(* Behaviour generation for Hashes.tla (spec -> code): `tlc -simulate` walks   *)
(* over the actions of the family selected by the configuration; every walk is *)
(* printed as a JSON script (action + abstract value after it) that the Go     *)
(* harness concretises with real points of each scheme and runs on the real    *)
(* hash functions and encoders.  Mode "catalogue" instead writes the complete   *)
(* set of chain-info values of the configuration (every pair of them is then    *)
(* compared by Trace_Hashes).                                                   *)
EXTENDS Hashes, Json, SequencesExt

CONSTANTS Depth, Mode
VARIABLE hist
svars == <<val, act, prev, hist>>

\* walks start from the smallest value or from a full three-node group with a key
GroupFull == [nodes |-> <<<<0, "N1">>, <<1, "N2">>, <<2, "N3">>>>, thr |-> 2,
              genesis |-> CHOOSE x \in Geneses : TRUE, transition |-> 0, dist |-> <<"A", "x">>, id |-> "",
              period |-> CHOOSE x \in Periods : TRUE, seed |-> CHOOSE x \in Seeds : TRUE]

AllInfos == [period : Periods, genesis : Geneses, pk : Firsts, seed : Seeds, id : Ids]

SimInit == /\ val \in (IF IsChainFam THEN {InfoInit}
                      ELSE IF Family = "groupseq" THEN {Observe(GroupInit @@ [frozen |-> <<>>]), Observe(GroupFull @@ [frozen |-> <<>>])}
                      ELSE {GroupInit, GroupFull})
           /\ act = [name |-> "init"] /\ prev = val
           /\ hist = <<[a |-> [name |-> "init"], v |-> val]>>
\* TLC picks uniformly among successor STATES, and resharing has by far the most parameter
\* combinations: the walk therefore cycles through classes of actions so that permutations,
\* threshold changes, encoding paths and tampering all occur in every walk
GroupSets == G_SetNodeKey \/ G_SetNodeIndex \/ G_SetThr \/ G_SetGenesis \/ G_SetTransition \/ G_SetDist
             \/ G_SetId \/ G_SetPeriod \/ G_SetSeed
ChainSets == C_SetPeriod \/ C_SetGenesis \/ C_SetPk \/ C_SetSeed \/ C_SetId
Phase == Len(hist) % 6
SimAction ==
  IF Family = "chainseq" THEN        \* one live Info: assign, decode into it, copy, hash - in turn
    CASE Phase \in {0, 3} -> ChainSeqSets
      [] Phase \in {1, 4} -> Q_Decode
      [] Phase = 2 -> (Q_Hash \/ Q_ToProto)
      [] OTHER -> Q_CopySet
  ELSE IF Family = "groupseq" THEN   \* one live Group
    CASE Phase \in {0, 3} -> R_Sets
      [] Phase = 1 -> (R_Permute \/ (~ENABLED R_Permute /\ R_Sets))
      [] Phase = 2 -> R_CopySet
      [] Phase = 4 -> R_Hash
      [] OTHER -> GroupSeqNext
  ELSE IF Family = "group" THEN
    CASE Phase = 0 -> G_Via
      [] Phase = 1 -> GroupSets
      [] Phase = 2 -> (G_Permute \/ (~ENABLED G_Permute /\ GroupSets))
      [] Phase = 3 -> (G_Reshare \/ (~ENABLED G_Reshare /\ G_SetDist))
      [] Phase = 4 -> (G_SetThr \/ (~ENABLED G_SetThr /\ GroupSets))
      [] OTHER -> GroupNext
  ELSE
    CASE Phase \in {0, 3} -> ChainSets
      [] Phase = 1 -> C_Via
      [] Phase = 2 -> C_Tamper
      [] OTHER -> ChainNext
SimStep == /\ Mode = "walk" /\ Len(hist) < Depth
           /\ SimAction
           /\ hist' = Append(hist, [a |-> act', v |-> val'])
SimFinish == /\ Mode = "walk" /\ Len(hist) = Depth
             /\ PrintT(<<"VP", "BEH", ToJson([fam |-> Family, steps |-> hist])>>)
             /\ hist' = Append(hist, [a |-> [name |-> "end"], v |-> val])
             /\ UNCHANGED vars
SimCatalogue == /\ Mode = "catalogue" /\ Len(hist) = 1
                /\ JsonSerialize("hashes_catalogue.json",
                      [fam |-> "chain", steps |-> [k \in 1..Cardinality(AllInfos) |->
                                                      [a |-> [name |-> "catalogue"], v |-> SetToSeq(AllInfos)[k]]]])
                /\ hist' = Append(hist, [a |-> [name |-> "end"], v |-> val])
                /\ UNCHANGED vars
SimNext == SimStep \/ SimFinish \/ SimCatalogue
SimSpec == SimInit /\ [][SimNext]_svars
=============================================================================
