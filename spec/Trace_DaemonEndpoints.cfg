SPECIFICATION TraceSpec
CONSTANTS
  Chains = {"default", "a"}
  MaxSteps = 0
  Skip = {}
  NoScan = FALSE
INVARIANT AtEnd
CHECK_DEADLOCK FALSE
