SPECIFICATION Spec
CONSTANTS
  Cap = 3
  MaxCalls = 9
INVARIANT Inv_ParkedBounded
CHECK_DEADLOCK FALSE
