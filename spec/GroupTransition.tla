--------------------------- MODULE GroupTransition ---------------------------
(* BeaconProcess.validateGroupTransition (internal/core/drand_beacon_control.go): a reshared group is      *)
(* adopted only if it keeps the chain's identity parameters and its transition time is not in the past.    *)
(* C07: "a successful resharing never changes ... genesis time, genesis seed, period ... or beacon id".    *)
EXTENDS Integers, TLC
CONSTANTS Vals     \* two values per field are enough to distinguish "same" from "changed"
VARIABLES case, done
Groups == [gen : Vals, period : Vals, id : Vals \cup {0}, seed : Vals, trans : 0..2]   \* id 0 = "" (default), 1 = "default"
SameId(a, b) == (a \in {0, 1} /\ b \in {0, 1}) \/ a = b      \* "" and "default" designate the same beacon
\* the operator under test, as coded
Accepts(old, new, now) == /\ old.gen = new.gen /\ old.period = new.period /\ SameId(old.id, new.id)
                          /\ old.seed = new.seed /\ new.trans >= now
\* the property: an adopted group keeps the identity parameters
IdentityKept(old, new) == old.gen = new.gen /\ old.period = new.period /\ SameId(old.id, new.id) /\ old.seed = new.seed
Init == case = [set |-> FALSE] /\ done = FALSE
Pick == /\ ~done /\ \E o \in Groups, n \in Groups, now \in 0..2 : case' = [set |-> TRUE, old |-> o, new |-> n, now |-> now]
        /\ done' = TRUE
Next == Pick
Spec == Init /\ [][Next]_<<case, done>>
Inv_AcceptImpliesIdentity == case.set /\ Accepts(case.old, case.new, case.now) => IdentityKept(case.old, case.new)
=============================================================================
