SPECIFICATION TraceSpec
CONSTANTS
  Nodes = {1}
  Peers = {1, 2, 3}
  MaxEpoch = 3
  Umasks = {18}
  DkgDbPerm = 384
  ChainDbPerm = 432
  PreModes = {420}
INVARIANT AtEnd
CHECK_DEADLOCK FALSE
