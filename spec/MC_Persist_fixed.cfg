SPECIFICATION Spec
CONSTANTS
  Scripts <- ScriptsFamily
  Variant = "fixed"
INVARIANTS TypeOK Inv_C13
CHECK_DEADLOCK FALSE
