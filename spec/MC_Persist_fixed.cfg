SPECIFICATION Spec
CONSTANTS
  Scripts <- ScriptsFamilyNoCb
  Variant = "fixed"
INVARIANTS TypeOK Inv_C13
CHECK_DEADLOCK FALSE
