SPECIFICATION Spec
CONSTANTS
  MaxNodes = 10
  Types = {"group", "pair", "identity", "share", "info", "dbstate", "beacon", "badgroup"}
INVARIANTS Inv_Idempotent Inv_KeepsHash Inv_SameType Inv_ValidInRange Inv_MalformedOutOfRange
CHECK_DEADLOCK FALSE
