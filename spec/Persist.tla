------------------------------- MODULE Persist -------------------------------
(***************************************************************************)
(* C13: a crash at any point leaves a restartable, self-consistent node.   *)
(*                                                                         *)
(* Persistent state of ONE drand node and every step that changes it, in   *)
(* the order the code performs them:                                       *)
(*   chain db  (multibeacon/<id>/db/drand.db)     set of stored rounds     *)
(*   dkg.db    bucket dkg (current) + dkg_finished (completed record)      *)
(*   key folder (multibeacon/<id>/groups): drand_group.toml, dist_key.private *)
(*                                                                         *)
(* code                                                    step here       *)
(*   boltdb.(trimmed)Store.Put (one bolt tx per beacon)     BeaconTx(r)     *)
(*   callbackStore.Put dispatch AFTER the tx returned       Serve(r)        *)
(*   beacon.NewHandler: s.Put(genesis)                      GenesisTx       *)
(*   dkg.BoltStore.SaveCurrent                              SaveCurrentTx   *)
(*   dkg.BoltStore.SaveFinished (both buckets, ONE tx)      SaveFinishedTx  *)
(*   key.Save: os.Create / fs.CreateSecureFile (truncates)  CreateTruncate  *)
(*   key.Save: toml Encode, part of the bytes written       WriteSome       *)
(*   key.Save: toml Encode complete                         Write           *)
(*   fileStore.Reset (leaveNetwork; UNREACHABLE in this tree, in no run)    DeleteShare, DeleteGroup *)
(*                                                                         *)
(* dkg.Process.executeAndFinishDKG: SaveFinished, THEN the result is sent  *)
(* on the fan-out, THEN BeaconProcess.onDKGCompleted -> storeDKGOutput:    *)
(* SaveGroup THEN SaveShare (both key.Save, no temp file + rename), THEN   *)
(* (first DKG) StartBeacon -> NewHandler.                                  *)
(*                                                                         *)
(* Crash is enabled in every state.  Restart mirrors                       *)
(* DrandDaemon.LoadBeaconFromStore / BeaconProcess.Load / newBeacon.       *)
(* bbolt's transaction atomicity is trusted base: a bolt tx is one step.   *)
(*                                                                         *)
(* The transition function is made of pure operators (Expand, ApplyStep,   *)
(* RestartOf, the monitors) so that Trace_Persist can apply them to what *)
(* was observed on the real code.                                          *)
(***************************************************************************)
EXTENDS Integers, Sequences, FiniteSets, TLC

CONSTANTS Scripts,   \* set of high-level runs; a run is a sequence of <<do, arg>>:
                     \*   <<"dkg", e>>      DKG of epoch e completes with this node in the new group
                     \*   <<"beacons", n>>  n more rounds are produced, stored and served
                     \*   <<"left", e>>     DKG of epoch e in which this node is a leaver (state Left)
                     \*   <<"leavecb", e>>  BeaconProcess.leaveNetwork runs (fileStore.Reset).  UNREACHABLE IN
                     \*                     THIS TREE (see below): no script of any config contains it
          Variant    \* "code": what the tree does.  "fixed": proposed repair (files replaced
                     \* atomically by temp file + rename, restart reconciles the key folder with
                     \* the completed record of dkg.db, which contains group and share)

VARIABLES script,   \* the run chosen
          steps,    \* its expansion into persistence steps
          pc,       \* next step
          disk,     \* persistent state
          served,   \* rounds handed to callbacks / readable by clients before the crash
          mode,     \* "run" | "down" | "up"
          rec       \* what the restart found (NoRec before)

vars == <<script, steps, pc, disk, served, mode, rec>>

-----------------------------------------------------------------------------
(* persistent state                                                          *)

\* a key file is: 0 = absent, -1 = torn (created/truncated or partly written, unreadable),
\* e > 0 = the whole file of epoch e
Absent == 0
Torn == -1
Readable(v) == v > 0

NoFin == <<0, 0, 0>>          \* <<epoch, epoch of FinalGroup, epoch of KeyShare>>
FreshCur == <<0, "Fresh">>    \* <<epoch, state>> of the current bucket

EmptyDisk == [chain |-> {}, cur |-> FreshCur, fin |-> NoFin, group |-> Absent, share |-> Absent]

SetFile(d, f, v) == IF f = "group" THEN [d EXCEPT !.group = v] ELSE [d EXCEPT !.share = v]

-----------------------------------------------------------------------------
(* a run, expanded into the persistence steps the code performs, in its order *)

St(op, f, a, b) == [op |-> op, f |-> f, a |-> a, b |-> b]    \* b = index of the high-level op

SaveSteps(f, e, b) == << St("CreateTruncate", f, e, b), St("WriteSome", f, e, b), St("Write", f, e, b) >>

\* executeAndFinishDKG -> fan-out -> joinNetwork / transitionToNext -> storeDKGOutput
DkgSteps(e, b, first) ==
  << St("SaveCurrentTx", "Proposed", e, b), St("SaveCurrentTx", "Executing", e, b),
     St("SaveFinishedTx", "-", e, b) >>
  \o SaveSteps("group", e, b) \o SaveSteps("share", e, b)
  \o (IF first THEN << St("GenesisTx", "-", 0, b) >> ELSE << >>)

BeaconSteps(from, n, b) ==
  [i \in 1..(2 * n) |-> IF i % 2 = 1 THEN St("BeaconTx", "-", from + (i - 1) \div 2, b)
                                     ELSE St("Serve", "-", from + (i - 2) \div 2, b)]

RECURSIVE ExpandFrom(_, _, _, _)
ExpandFrom(s, i, head, started) ==
  IF i > Len(s) THEN << >>
  ELSE LET do == s[i][1]
           arg == s[i][2]
       IN CASE do = "dkg" -> DkgSteps(arg, i, ~started) \o ExpandFrom(s, i + 1, head, TRUE)
            [] do = "beacons" -> BeaconSteps(head + 1, arg, i) \o ExpandFrom(s, i + 1, head + arg, started)
            [] do = "left" -> << St("SaveCurrentTx", "Proposed", arg, i), St("SaveCurrentTx", "Left", arg, i) >>
                              \o ExpandFrom(s, i + 1, head, started)
            \* UNREACHABLE IN THIS TREE, kept for documentation only, enabled by no config.
            \* onDKGCompleted calls leaveNetwork only for a completed result whose new group
            \* lacks this node.  The only producer of such results is this node's own
            \* dkg.Process.executeAndFinishDKG, and it emits one only after DBState.Complete,
            \* which is invalid from the state Left a leaver is in (a leader that leaves goes
            \* to Left in StartExecuting as well), with a group built from the QUAL of its own
            \* kyber result, which exists only for members of the new group and always
            \* contains the node itself; Migrate writes dkg.db without a result on the channel.
            [] do = "leavecb" -> << St("DeleteShare", "share", 0, i), St("DeleteGroup", "group", 0, i) >>
                                 \o ExpandFrom(s, i + 1, head, started)
            [] OTHER -> ExpandFrom(s, i + 1, head, started)

Expand(s) == ExpandFrom(s, 1, 0, FALSE)

\* effect of one step on the persistent state
ApplyStep(d, s) ==
  CASE s.op = "BeaconTx" -> [d EXCEPT !.chain = @ \cup {s.a}]
    [] s.op = "GenesisTx" -> [d EXCEPT !.chain = @ \cup {0}]
    [] s.op = "Serve" -> d
    [] s.op = "SaveCurrentTx" -> [d EXCEPT !.cur = <<s.a, s.f>>]
    [] s.op = "SaveFinishedTx" -> [d EXCEPT !.fin = <<s.a, s.a, s.a>>, !.cur = <<s.a, "Complete">>]
    [] s.op \in {"CreateTruncate", "WriteSome"} -> IF Variant = "fixed" THEN d ELSE SetFile(d, s.f, Torn)
    [] s.op = "Write" -> SetFile(d, s.f, s.a)
    [] s.op = "DeleteShare" -> [d EXCEPT !.share = Absent]
    [] s.op = "DeleteGroup" -> [d EXCEPT !.group = Absent]
    [] OTHER -> d

ApplyServed(sv, s) == IF s.op = "Serve" THEN sv \cup {s.a} ELSE sv

\* how many committed bolt write transactions of <<dkg.db, chain db>> a step IS: a step that
\* touches a database is exactly ONE transaction of it (SaveFinished writes both buckets in one
\* db.Update; one transaction per beacon), so no crash can fall inside it.  The harness observes
\* the commits of both files at their real grain (bbolt's page writer); more or fewer commits
\* than this is a conformance difference, and a crash after an extra commit is a crash point
\* of its own, judged by the monitors like any other.
Commits(op) == CASE op \in {"SaveCurrentTx", "SaveFinishedTx"} -> <<1, 0>>
                 [] op = "BeaconTx" -> <<0, 1>>     \* (GenesisTx = creating the db + genesis put, before the chain db is watched)
                 [] OTHER -> <<0, 0>>

-----------------------------------------------------------------------------
(* Restart: LoadBeaconsFromDisk -> LoadBeaconFromStore                        *)
(*   status := DKGStatus; freshRun := status.Complete == nil                  *)
(*   freshRun: g, err := LoadGroup; err other than not-exist => error;        *)
(*             g == nil => fresh install (return, no beacon);                 *)
(*             else LoadShare (error => error); Migrate(g, share) writes a    *)
(*             completed record of epoch 1 from the files                     *)
(*   bp.Load: LoadGroup error/nil => ErrDKGNotStarted; LoadShare error => err *)
(*   StartBeacon(catchup) -> newBeacon -> NewHandler (stores genesis again)   *)
(* any error is returned by LoadBeaconsFromDisk and `drand start` exits.      *)

RestartOf(d0) ==
  LET d == IF Variant = "fixed" /\ d0.fin[1] > 0
             THEN [d0 EXCEPT !.group = d0.fin[2], !.share = d0.fin[3]]    \* reconcile from dkg.db
             ELSE d0
      fresh == d.fin[1] = 0
      migr == fresh /\ Readable(d.group) /\ Readable(d.share)
      d1 == IF migr THEN [d EXCEPT !.fin = <<1, d.group, d.share>>, !.cur = <<1, "Complete">>] ELSE d
      outcome == IF fresh /\ d.group = Absent THEN "startsFresh"
                 ELSE IF ~Readable(d.group) \/ ~Readable(d.share) THEN "refusesToStart"
                 ELSE "resumes"
      d2 == IF outcome = "resumes" THEN [d1 EXCEPT !.chain = @ \cup {0}] ELSE d1
  IN [disk |-> d2,
      rec |-> [groupEpoch |-> d.group, shareEpoch |-> d.share,
               finishedEpoch |-> d1.fin[1],
               finWhole |-> (d1.fin[2] = d1.fin[1] /\ d1.fin[3] = d1.fin[1]),
               chainRounds |-> d.chain, chainVerifies |-> TRUE,
               cur |-> d1.cur,
               outcome |-> outcome]]

NoRec == [groupEpoch |-> 0, shareEpoch |-> 0, finishedEpoch |-> 0, finWhole |-> TRUE,
          chainRounds |-> {}, chainVerifies |-> TRUE, cur |-> FreshCur, outcome |-> "none"]

-----------------------------------------------------------------------------
(* Monitors: the statement of C13, over what a restart finds (r) and what was *)
(* served before the crash (sv).                                              *)

SetMax(S) == CHOOSE x \in S : \A y \in S : y <= x
GapFree(S) == S = {} \/ S = 0..SetMax(S)

\* "a chain store that is a valid gap-free chain containing every beacon it had already served"
Mon_ChainIntact(r, sv) == r.chainVerifies /\ GapFree(r.chainRounds) /\ sv \subseteq r.chainRounds

\* "a key-generation database whose completed record is one whole epoch"
Mon_FinishedWhole(r) == r.finWhole

\* "a group file and private share that belong to one and the same epoch, namely the latest
\* epoch that database records as completed (or the previous one if the crash came before the
\* completion was recorded)".  The code records the completion (SaveFinishedTx) BEFORE it
\* touches the files, so when the crash came before the completion was recorded the data
\* base still names the previous epoch and the two readings coincide: group and share are
\* whole, of one epoch, and that epoch is the one the database names (0 = none at all).
Mon_KeyEpoch(r) == r.groupEpoch = r.shareEpoch /\ r.groupEpoch = r.finishedEpoch

\* "resumes producing or syncing beacons without operator repair"; a node that never
\* completed a DKG has nothing to resume and starts fresh.
Mon_Resumes(r) == IF r.finishedEpoch = 0 THEN r.outcome = "startsFresh" ELSE r.outcome = "resumes"

\* "a key-generation database whose completed record is one whole epoch ... resumes without
\* operator repair": the DKG state the restarted node reports must be usable for the next
\* proposal.  The current record is never behind the completed one, and if both name the same
\* epoch the current record IS the Complete one.  (Otherwise, e.g. completed = N and current =
\* Executing N: Executing is not terminal, so Packet/Command do not fall back to the completed
\* record, and Executing -> Proposed is not a legal move: every later proposal is refused
\* until the database is repaired by hand.)
DkgUsable(cur, finE) == finE = 0 \/ cur[1] > finE \/ (cur[1] = finE /\ cur[2] = "Complete")
Mon_DkgDbConsistent(r) == DkgUsable(r.cur, r.finishedEpoch)

Mon_C13(r, sv) == /\ Mon_ChainIntact(r, sv) /\ Mon_FinishedWhole(r) /\ Mon_DkgDbConsistent(r)
                  /\ Mon_KeyEpoch(r) /\ Mon_Resumes(r)

-----------------------------------------------------------------------------
(* classification of a crash point (used in alarm signatures, not in verdicts) *)

IsKeyStart(s) == s.op \in {"SaveFinishedTx", "DeleteShare"}
IsKeyStep(s) == s.op \in {"SaveFinishedTx", "CreateTruncate", "WriteSome", "Write", "DeleteShare", "DeleteGroup"}

\* which operation on the key material (DKG completion or leave) the crash after step k
\* interrupted / followed
Cause(st, k) ==
  LET started == {i \in 1..k : i <= Len(st) /\ IsKeyStart(st[i])} IN
  IF started = {} THEN "none"
  ELSE LET i == SetMax(started)
           b == st[i].b
           done == \A j \in 1..Len(st) : (st[j].b = b /\ IsKeyStep(st[j])) => j <= k
       IN IF st[i].op = "SaveFinishedTx"
            THEN (IF done THEN "dkg-done" ELSE "dkg-interrupted")
            ELSE (IF done THEN "leavecb-done" ELSE "leavecb-interrupted")

\* a key file (v) relative to the completed epoch f and to what the file was before the last
\* operation on the key material started (pv): "old" = untouched by that operation
Cls(v, f, pv) ==
  IF v = f THEN "fin"
  ELSE IF v = Torn THEN "torn"
  ELSE IF v = pv THEN "old"
  ELSE IF v = Absent THEN "absent"
  ELSE "other"

-----------------------------------------------------------------------------
(* design-level state machine                                                 *)

Init == /\ script \in Scripts
        /\ steps = Expand(script)
        /\ pc = 1 /\ disk = EmptyDisk /\ served = {} /\ mode = "run" /\ rec = NoRec

Step == /\ mode = "run" /\ pc <= Len(steps)
        /\ disk' = ApplyStep(disk, steps[pc])
        /\ served' = ApplyServed(served, steps[pc])
        /\ pc' = pc + 1
        /\ UNCHANGED <<script, steps, mode, rec>>

Crash == /\ mode = "run" /\ mode' = "down"
         /\ UNCHANGED <<script, steps, pc, disk, served, rec>>

Restart == /\ mode = "down"
           /\ LET r == RestartOf(disk) IN rec' = r.rec /\ disk' = r.disk
           /\ mode' = "up"
           /\ UNCHANGED <<script, steps, pc, served>>

Next == Step \/ Crash \/ Restart
Spec == Init /\ [][Next]_vars

-----------------------------------------------------------------------------
(* invariants of the exhaustive configs                                       *)

Epochs == 0..9
TypeOK == /\ pc \in 1..(Len(steps) + 1)
          /\ mode \in {"run", "down", "up"}
          /\ disk.group \in {Torn} \cup Epochs /\ disk.share \in {Torn} \cup Epochs
          /\ disk.fin[1] \in Epochs
          /\ served \subseteq disk.chain

\* parts of the statement that the design keeps at every crash point
Inv_ChainIntact == mode = "up" => Mon_ChainIntact(rec, served)
Inv_FinishedWhole == mode = "up" => Mon_FinishedWhole(rec)
Inv_DkgDbConsistent == mode = "up" => Mon_DkgDbConsistent(rec)
\* the whole statement; the design as coded does NOT keep it (F10): TLC reports a model
\* counterexample which becomes a verdict only through the replay on the real code
Inv_C13 == mode = "up" => Mon_C13(rec, served)
\* what remains true for the code as it is: outside the windows of a DKG completion / leave
\* the key folder matches the database
Inv_QuiescentConsistent ==
  (mode = "up" /\ Cause(steps, pc - 1) \in {"none", "dkg-done"}) => Mon_C13(rec, served)

\* the runs
ScriptStd == << <<"dkg", 1>>, <<"beacons", 2>>, <<"dkg", 2>>, <<"beacons", 5>>, <<"left", 3>>,
                <<"beacons", 2>> >>
ScriptsStd == {ScriptStd}

\* a family of runs: first DKG, then any sequence of up to 3 further operations
FamOps(e) == { <<"beacons", 1>>, <<"beacons", 2>>, <<"dkg", e>>, <<"left", e>> }
NextEpoch(s) == 1 + Cardinality({i \in 1..Len(s) : s[i][1] \in {"dkg", "left"}})
RECURSIVE FamFrom(_, _)
FamFrom(s, n) == IF n = 0 THEN {s}
                 ELSE {s} \cup UNION { FamFrom(Append(s, o), n - 1) : o \in FamOps(NextEpoch(s)) }
ScriptsFamily == FamFrom(<< <<"dkg", 1>>, <<"beacons", 1>> >>, 3)
=============================================================================
