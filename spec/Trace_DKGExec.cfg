SPECIFICATION TraceSpec
CONSTANTS
  Nodes = {}
  Epoch = 1
  JoinSet = {}
  RemainSet = {}
  LeaveSet = {}
  Leader = 0
  Thr = 0
  Period = 1
  Genesis = 0
  TMin = 0
  TMax = 0
  LateSet = {}
  RankChoices <- TRank
  PermuteLists = FALSE
  AtomicGossip = FALSE
  AtomicExec = FALSE
  MaxDrop = 0
  DropKinds = {}
  Offline = {}
INVARIANT AtEnd
CHECK_DEADLOCK FALSE
