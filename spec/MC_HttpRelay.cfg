SPECIFICATION Spec
CONSTANTS
  W = {1, 2}
  MaxRound = 4
  Curs = {1, 2, 3, 4}
  Monotone = FALSE
  Ticks = TRUE
  IdleRec = TRUE
  Cap = 1
  Eager = FALSE
INVARIANTS TypeOK Inv_Pending Inv_ParkedNext Inv_C01_HTTP
VIEW View
