SPECIFICATION Spec
CONSTANTS
  Peers = {1, 2}
INVARIANT Inv_StoredVerifies
CHECK_DEADLOCK FALSE
