SPECIFICATION SimSpec
CONSTANTS
  Streams = {1}
  SameAddr = FALSE
  Writers = {1}
  Q = 100
  InitHead = 9
  MaxR = 11
  Froms = {7}
  Backend = "mem"
  Buf = 10
  Remap = FALSE
  Faults = {}
  MaxFaults = 0
  HoldReg = FALSE
CHECK_DEADLOCK FALSE
