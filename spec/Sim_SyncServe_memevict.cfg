SPECIFICATION SimSpec
CONSTANTS
  Streams = {1}
  SameAddr = FALSE
  Writers = {1}
  Q = 100
  InitHead = 10
  MaxR = 12
  Froms = {1, 8}
  Backend = "mem"
  Buf = 10
  Remap = FALSE
  Faults = {}
  MaxFaults = 0
  HoldReg = FALSE
CHECK_DEADLOCK FALSE
