-------------------------- MODULE Trace_ChainStore --------------------------
(* Validates the real store stack (TestVerifChainStore) against ChainStore.tla: each recorded   *)
(* Put / tryAppend / Restart is applied with the specification's operators; the observed base    *)
(* store content is compared (Conformance) and judged by the C02 monitors (GapFree, WriteOnce,   *)
(* Linked, one step at a time), then adopted.                                                    *)
EXTENDS ChainStore, Json

TraceLog == ndJsonDeserialize("trace.ndjson")
VARIABLES l, alarms, scen, chainedT
tvars == <<vars, l, alarms, scen, chainedT>>

Range(s) == {s[k] : k \in DOMAIN s}
ObsBase(rows) == [r \in {x[1] : x \in Range(rows)} |-> LET x == CHOOSE y \in Range(rows) : y[1] = r IN <<x[2], x[3]>>]
Alarm(mon, e, d) == [mon |-> mon, scenario |-> scen, ev |-> e.ev, line |-> l, detail |-> d]
If(c, S) == IF c THEN S ELSE {}

TraceInit == Init /\ l = 1 /\ alarms = {} /\ scen = "none" /\ chainedT = TRUE

Monitors(pre, post, e) ==
  If(DOMAIN post = {} \/ ~GapFree(post), {Alarm("GapFree", e, "stored rounds are not 0..head")})
  \cup If(DOMAIN post # {} /\ ~WriteOnce(pre, post), {Alarm("WriteOnce", e, "a stored round was replaced or lost")})
  \cup If(DOMAIN post # {} /\ GapFree(post) /\ chainedT /\ ~(\A r \in DOMAIN post : r > 0 => post[r][2] = post[r - 1][1]),
          {Alarm("Linked", e, "previous signature is not the stored signature of round-1")})
  \cup If(DOMAIN post # {} /\ DOMAIN pre # {} /\ ~GrowsByOne(pre, post), {Alarm("GrowsByOne", e, "head moved by more than one")})

StepInit(e) ==
  /\ e.ev = "Init" /\ scen' = e.scenario /\ chainedT' = e.chained
  /\ base' = (0 :> <<0, -1>>) /\ aLast' = Genesis /\ sLast' = Genesis /\ hist' = [op |-> "init"]
  /\ alarms' = alarms

StepPut(e) ==
  /\ e.ev = "Put"
  /\ LET b == <<e.b[1], e.b[2], e.b[3]>>
         st == State
         p == IF e.op = "SyncPut" THEN PutOpC(st, b, chainedT) ELSE TryAppendOpC(st, e.view, b, chainedT)
         obs == ObsBase(e.rows)
         expect == p.st.base
         A1 == If(obs # expect, {Alarm("Conformance", e, "base store differs from the specification's")})
         A2 == If(e.op = "SyncPut" /\ e.res # p.res, {Alarm("Conformance", e, "result class differs")})
         A3 == If(e.op = "AggPut" /\ e.ret # p.ret, {Alarm("Conformance", e, "tryAppend result differs")})
         A4 == If(e.res = "blocked", {Alarm("PutBlocked", e, "Put did not return")})
     IN /\ alarms' = alarms \cup A1 \cup A2 \cup A3 \cup A4 \cup Monitors(base, obs, e)
        /\ base' = obs
        /\ aLast' = IF obs = expect THEN p.st.aLast ELSE <<e.last[1], e.last[2], e.last[3]>>
        /\ sLast' = IF obs = expect THEN p.st.sLast ELSE <<e.last[1], e.last[2], e.last[3]>>
  /\ hist' = hist /\ scen' = scen /\ chainedT' = chainedT

StepRestart(e) ==
  /\ e.ev = "Restart"
  /\ LET obs == ObsBase(e.rows) IN
       /\ alarms' = alarms \cup If(obs # base, {Alarm("WriteOnce", e, "store content changed across restart")})
       /\ base' = obs
       /\ LET h == HeadOf(obs) IN aLast' = <<h, obs[h][1], obs[h][2]>> /\ sLast' = <<h, obs[h][1], obs[h][2]>>
  /\ hist' = hist /\ scen' = scen /\ chainedT' = chainedT

StepRace(e) ==
  /\ e.ev = "Race"
  /\ LET obs == ObsBase(e.rows)
         oks == Cardinality({k \in DOMAIN e.results : e.results[k] = "ok"})
     IN /\ alarms' = alarms \cup If(e.inside > 1, {Alarm("MutualExclusion", e, "two writers inside appendStore.Put")})
                            \cup If(oks # 1, {Alarm("WriteOnce", e, "two different beacons accepted for one round")})
                            \cup Monitors(base, obs, e)
        /\ base' = obs
        /\ LET h == HeadOf(obs) IN aLast' = <<h, obs[h][1], obs[h][2]>> /\ sLast' = <<h, obs[h][1], obs[h][2]>>
  /\ hist' = hist /\ scen' = scen /\ chainedT' = chainedT

\* A's base write fails (state unchanged: appendStore.last is only advanced after a successful write, under
\* the mutex), so B's Put of head+2 must be refused.
StepFailRace(e) ==
  /\ e.ev = "FailRace"
  /\ LET obs == ObsBase(e.rows)
         pb == PutOpC(State, <<e.b[1], e.b[2], e.b[3]>>, chainedT)
     IN /\ alarms' = alarms \cup If(obs # base, {Alarm("Conformance", e, "store changed although the write failed")})
                            \cup If(e.resB # pb.res /\ e.resB # "blocked", {Alarm("Conformance", e, "result of the second writer differs")})
                            \cup If(e.resB = "blocked", {Alarm("PutBlocked", e, "second writer never returned")})
                            \cup Monitors(base, obs, e)
        /\ base' = obs
        /\ LET h == HeadOf(obs) IN aLast' = <<h, obs[h][1], obs[h][2]>> /\ sLast' = <<h, obs[h][1], obs[h][2]>>
  /\ hist' = hist /\ scen' = scen /\ chainedT' = chainedT

TraceNext == /\ l <= Len(TraceLog)
             /\ LET e == TraceLog[l] IN StepInit(e) \/ StepPut(e) \/ StepRestart(e) \/ StepRace(e) \/ StepFailRace(e)
             /\ l' = l + 1
TraceSpec == TraceInit /\ [][TraceNext]_tvars
AtEnd == l = Len(TraceLog) + 1 =>
           /\ PrintT(<<"VP", "ALARMS", ToJson(alarms)>>)
           /\ PrintT(<<"VP", "DONE", ToJson([lines |-> Len(TraceLog)])>>)
=============================================================================
