SPECIFICATION TraceSpec
CONSTANTS
  W <- TraceW
  MaxRound = 1000000
  Curs = {1}
  Monotone = FALSE
  Ticks = FALSE
  IdleRec = FALSE
  Cap = 1
  Eager = FALSE
INVARIANT AtEnd
CHECK_DEADLOCK FALSE
