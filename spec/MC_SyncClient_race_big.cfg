SPECIFICATION Spec
CONSTANTS
  Peers = {1, 2}
  MaxR = 4
  PT <- PTRace
  Modes = {"run"}
  ChainedSet = {TRUE, FALSE}
  Starts = {1}
  Targets = {3}
  Corruptions <- NoCorruption
  NT = 2
  FollowRetries = TRUE
  FollowAppend = TRUE
  ResyncChecksRound = TRUE
  ResyncDeletesFirst = FALSE
  CheckZeroIsClock = FALSE
  Aborts = FALSE
  PinsOperatorHash = TRUE
  MaxAgg = 1
  QCap = 2
  Linger = TRUE
  History = TRUE
  Eager = FALSE
INVARIANTS TypeOK Inv_OnlyVerifiedInOrder Inv_NothingFromLiars Inv_Chain Inv_RepairUntouched
VIEW View
CHECK_DEADLOCK FALSE
