SPECIFICATION TraceSpec
CONSTANTS
  Pow2 <- TracePow2
  FloorLog2 <- TraceFloorLog2
  WordBits = 30
  BufBits = 20
  Periods = {1}
  Geneses = {0}
  RoundArgs = {0}
  Elapsed = {0}
INVARIANT AtEnd
CHECK_DEADLOCK FALSE
