SPECIFICATION LiveSpec
CONSTANTS
  Peers = {1, 2, 3}
  MaxR = 4
  PT <- PTLiveQuick
  Modes = {"follow"}
  ChainedSet = {TRUE}
  Starts = {1}
  Targets = {3}
  Corruptions <- NoCorruption
  NT = 1
  FollowRetries = TRUE
  FollowAppend = TRUE
  ResyncChecksRound = TRUE
  ResyncDeletesFirst = FALSE
  CheckZeroIsClock = FALSE
  Aborts = FALSE
  PinsOperatorHash = TRUE
  MaxAgg = 0
  QCap = 1
  Linger = FALSE
  History = FALSE
  Eager = TRUE
INVARIANTS TypeOK
PROPERTIES Converges
CHECK_DEADLOCK FALSE
