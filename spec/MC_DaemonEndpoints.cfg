SPECIFICATION SpecSeq
CONSTANTS
  Chains = {"default", "a"}
  MaxSteps = 0
  Skip <- SkipNone
  NoScan = FALSE
INVARIANTS Inv_Responds Inv_NoLockLeft Inv_ProcessAlive
VIEW ViewSeq
