---------------------------- MODULE DaemonRouting ----------------------------
(***************************************************************************)
(* C19 "requests reach only the beacon chain they name".                   *)
(*                                                                         *)
(* Transcription of the routing state of a multi-beacon drand daemon:      *)
(*   procs   = DrandDaemon.beaconProcesses  (id -> has the process a group)*)
(*   hashes  = DrandDaemon.chainHashes      (hex hash | "default" -> id)   *)
(*   http    = handler/http DrandHandler.beacons (hex hash | "default" ->  *)
(*             the process the registered drandProxy points at)            *)
(*   disk    = chains whose group+share files exist in the key store       *)
(* and of the code that maintains and reads it:                            *)
(*   LoadOp     dd.LoadBeacon -> LoadBeaconFromDisk -> InstantiateBeacon-  *)
(*              Process [-> Migrate -> bp.Load -> AddBeaconHandler]        *)
(*   DKGDoneOp  bp.storeDKGOutput -> opts.dkgCallback -> AddBeaconHandler  *)
(*   StopOp     dd.Shutdown(id) -> RemoveBeaconHandler, RemoveBeaconProcess*)
(*   Resolve    dd.readBeaconID + dd.getBeaconProcessByID                  *)
(*   HttpResolve  DrandHandler.getBeaconHandler (+ readChainHash)          *)
(*   DkgResolve   dd.beaconExists (DKG proxy endpoints: raw id, no hash)   *)
(* All operators are pure functions of a state record so that              *)
(* Trace_DaemonRouting applies them to calls observed on the real daemon.  *)
(*                                                                         *)
(* Tokens.  A beacon id in a request is "none" (absent/empty), "unknown"   *)
(* (an id no process has) or a chain id.  A chain hash is "none",          *)
(* "unknown" (well-formed, of no chain), "malformed" (wrong length for     *)
(* gRPC / not hexadecimal for HTTP) or H(c), the hash of chain c.          *)
(***************************************************************************)
EXTENDS Naturals, Sequences, FiniteSets, TLC

CONSTANTS Chains,     \* the beacon ids the daemon may host; contains "default"
          MaxSteps    \* bound on the length of load/stop histories (exhaustive configs)

VARIABLES st,         \* [procs, hashes, http, disk]
          steps,      \* number of actions taken
          last        \* last action (history variable, hidden by the VIEW)

vars == <<st, steps, last>>

DefaultID  == "default"
DefaultKey == "default"          \* common.DefaultChainHash
NoneTok == "none"
UnknownTok == "unknown"
MalformedTok == "malformed"

H(c) == "h_" \o c

IdToks   == {NoneTok, UnknownTok} \cup Chains
HashToks == {NoneTok, UnknownTok, MalformedTok} \cup {H(c) : c \in Chains}

\* endpoints and what they need from the process that receives the request
GrpcNeedGroup == {"PublicRand", "PublicRandStream", "ChainInfo", "PartialBeacon", "SyncChain", "GroupFile"}
GrpcAlways    == {"GetIdentity", "PublicKey", "Status", "RemoteStatus"}
HttpEndpoints == {"HttpInfo", "HttpLatest", "HttpRound", "HttpHealth"}
DkgEndpoints  == {"DKGStatus"}
Endpoints == GrpcNeedGroup \cup GrpcAlways \cup HttpEndpoints \cup DkgEndpoints

Requests == [ep : GrpcNeedGroup \cup GrpcAlways, id : IdToks, hash : HashToks]
            \cup [ep : HttpEndpoints, id : {NoneTok}, hash : HashToks]
            \cup [ep : DkgEndpoints, id : IdToks, hash : {NoneTok}]

Refused == "refused"

Put(f, k, v) == [x \in (DOMAIN f) \cup {k} |-> IF x = k THEN v ELSE f[x]]
Del(f, k) == [x \in (DOMAIN f) \ {k} |-> f[x]]
EmptyFn == [x \in {} |-> 0]

EmptyState(d) == [procs |-> EmptyFn, hashes |-> EmptyFn, http |-> EmptyFn, disk |-> d]

-----------------------------------------------------------------------------
(* maintenance of the tables                                                 *)

\* dd.AddBeaconHandler(id, bp): handler.RegisterNewBeaconHandler(proxy(bp), hash);
\* chainHashes[hash] = id; for the default id also the two "default" entries.
AddHandler(s, id) ==
  LET h1 == Put(s.http, H(id), id)
      c1 == Put(s.hashes, H(id), id)
  IN [s EXCEPT !.http   = IF id = DefaultID THEN Put(h1, DefaultKey, id) ELSE h1,
               !.hashes = IF id = DefaultID THEN Put(c1, DefaultKey, id) ELSE c1]

\* dd.LoadBeacon(id): refused when already running; otherwise a new process; when the key
\* store holds a group (and share) it is loaded and the handlers are registered.
LoadOp(s, id) ==
  IF id \in DOMAIN s.procs THEN [s |-> s, ok |-> FALSE]
  ELSE IF id \in s.disk
         THEN [s |-> AddHandler([s EXCEPT !.procs = Put(@, id, TRUE)], id), ok |-> TRUE]
         ELSE [s |-> [s EXCEPT !.procs = Put(@, id, FALSE)], ok |-> TRUE]

\* a DKG result for a loaded process without group: storeDKGOutput (+ dkgCallback)
DKGDoneOp(s, id) ==
  IF id \in DOMAIN s.procs /\ ~s.procs[id]
    THEN [s |-> AddHandler([s EXCEPT !.procs = Put(@, id, TRUE), !.disk = @ \cup {id}], id), ok |-> TRUE]
    ELSE [s |-> s, ok |-> FALSE]

\* dd.Shutdown with a beacon id: RemoveBeaconHandler (only when the process has a group),
\* bp.Stop, RemoveBeaconProcess.
StopOp(s, id) ==
  IF id \notin DOMAIN s.procs THEN [s |-> s, ok |-> FALSE]
  ELSE LET g == s.procs[id]
           h1 == IF g THEN Del(s.http, H(id)) ELSE s.http
           h2 == IF g /\ id = DefaultID THEN Del(h1, DefaultKey) ELSE h1
           c1 == IF g THEN Del(s.hashes, H(id)) ELSE s.hashes
           c2 == IF id = DefaultID THEN Del(c1, DefaultKey) ELSE c1
       IN [s |-> [s EXCEPT !.procs = Del(@, id), !.http = h2, !.hashes = c2], ok |-> TRUE]

-----------------------------------------------------------------------------
(* resolution of a request                                                   *)

Canon(idTok) == IF idTok = NoneTok THEN DefaultID ELSE idTok    \* common.GetCanonicalBeaconID

\* dd.readBeaconID: the id a request is for, or Refused
ReadBeaconID(s, idTok, hashTok) ==
  LET byId == Canon(idTok) IN
  IF hashTok # NoneTok
    THEN IF hashTok \in DOMAIN s.hashes
           THEN IF idTok # NoneTok /\ byId # s.hashes[hashTok]
                  THEN Refused                            \* "invalid chain hash"
                  ELSE s.hashes[hashTok]
           ELSE IF byId \in DOMAIN s.procs /\ ~s.procs[byId]
                  THEN byId                               \* process still waiting for its chain hash
                  ELSE Refused                            \* ErrUnknownChainhash
    ELSE byId

\* dd.readBeaconID followed by dd.getBeaconProcessByID
Resolve(s, idTok, hashTok) ==
  LET pick == ReadBeaconID(s, idTok, hashTok)
  IN IF pick # Refused /\ pick \in DOMAIN s.procs THEN pick ELSE Refused

\* handler/http: readChainHash + getBeaconHandler
HttpResolve(s, hashTok) ==
  IF hashTok = MalformedTok THEN Refused                               \* 400, hex.DecodeString failed
  ELSE LET k == IF hashTok = NoneTok THEN DefaultKey ELSE hashTok IN
       IF k \in DOMAIN s.http THEN s.http[k] ELSE Refused

\* DKG proxy: the raw id must be a key of beaconProcesses
DkgResolve(s, idTok) == IF idTok \in DOMAIN s.procs THEN idTok ELSE Refused

\* the chain whose process answers req in state s, or Refused
Expected(s, req) ==
  IF req.ep \in HttpEndpoints THEN HttpResolve(s, req.hash)            \* (registered handlers always have a group)
  ELSE IF req.ep \in DkgEndpoints THEN DkgResolve(s, req.id)
  ELSE LET x == Resolve(s, req.id, req.hash) IN
       IF x = Refused THEN Refused
       ELSE IF req.ep \in GrpcNeedGroup /\ ~s.procs[x] THEN Refused    \* "DKG not finished yet" and the like
       ELSE x

-----------------------------------------------------------------------------
(* Monitors.  gt is the ground truth "which chains run, and do they have a   *)
(* group" (in the design model: s.procs; on traces: derived from the         *)
(* history of successful load/dkg/stop actions, never from the tables).      *)

GroupedHashes(gt) == {H(c) : c \in {d \in DOMAIN gt : gt[d]}}

\* chain x answering request req is what the request named
IdNamed(req, x)   == req.id # NoneTok => x = req.id
HashNamed(gt, req, x) ==
  req.hash # NoneTok =>
     \/ gt[x] /\ req.hash = H(x)
     \* Deviation kept from the code and stated as an assumption of the check: a process that has no
     \* group yet has no chain hash, so a hash that belongs to no running chain cannot mismatch it
     \* (readBeaconID accepts it "for the case where our node is still waiting for the chain hash").
     \/ ~gt[x] /\ req.hash \notin GroupedHashes(gt) /\ x = Canon(req.id)
DefaultOnly(req, x) == (req.id = NoneTok /\ req.hash = NoneTok) => x = DefaultID
StillRuns(gt, x) == x \in DOMAIN gt

NamedOK(gt, req, x) == StillRuns(gt, x) /\ IdNamed(req, x) /\ HashNamed(gt, req, x) /\ DefaultOnly(req, x)

\* first failing clause, for reports
WhyNot(gt, req, x) ==
  IF ~StillRuns(gt, x) THEN "answered-by-a-chain-that-is-not-running"
  ELSE IF ~IdNamed(req, x) THEN "answered-by-another-id"
  ELSE IF ~HashNamed(gt, req, x) THEN "answered-by-a-chain-with-another-hash"
  ELSE IF ~DefaultOnly(req, x) THEN "unnamed-request-not-answered-by-default"
  ELSE "ok"

\* "the others keep working": when the request names a running chain consistently (id and/or its own
\* hash, or nothing = default) and the endpoint can be answered in that chain's state, it is answered.
MustServe(gt, req) ==
  IF req.ep \in DkgEndpoints THEN (IF req.id \in DOMAIN gt THEN req.id ELSE Refused)
  ELSE LET T == {x \in DOMAIN gt : /\ IdNamed(req, x)
                                   /\ DefaultOnly(req, x)
                                   /\ req.hash # NoneTok => (gt[x] /\ req.hash = H(x))}
       IN IF T = {} THEN Refused
          ELSE LET x == CHOOSE y \in T : TRUE IN
               IF (req.ep \in GrpcNeedGroup \cup HttpEndpoints) /\ ~gt[x] THEN Refused ELSE x

RoutedRight(gt, req, ans) == ans = Refused \/ NamedOK(gt, req, ans)
KeepsWorking(gt, req, ans) == MustServe(gt, req) # Refused => ans = MustServe(gt, req)

-----------------------------------------------------------------------------
(* Design-level state machine                                                *)

Init == /\ \E d \in SUBSET Chains : st = EmptyState(d)
        /\ steps = 0 /\ last = [kind |-> "init"]

Load(id) == /\ steps < MaxSteps
            /\ st' = LoadOp(st, id).s
            /\ steps' = steps + 1 /\ last' = [kind |-> "Load", id |-> id, ok |-> LoadOp(st, id).ok]
DKGDone(id) == /\ steps < MaxSteps
               /\ DKGDoneOp(st, id).ok
               /\ st' = DKGDoneOp(st, id).s
               /\ steps' = steps + 1 /\ last' = [kind |-> "DKGDone", id |-> id, ok |-> TRUE]
Stop(id) == /\ steps < MaxSteps
            /\ st' = StopOp(st, id).s
            /\ steps' = steps + 1 /\ last' = [kind |-> "Stop", id |-> id, ok |-> StopOp(st, id).ok]

Next == \E id \in Chains : Load(id) \/ DKGDone(id) \/ Stop(id)
Spec == Init /\ [][Next]_vars
View == st

TypeOK == /\ DOMAIN st.procs \subseteq Chains
          /\ \A k \in DOMAIN st.hashes : st.hashes[k] \in Chains
          /\ \A k \in DOMAIN st.http : st.http[k] \in Chains

\* the tables name exactly the running chains that have a group (no stale, no missing entry)
Inv_Tables ==
  /\ DOMAIN st.hashes = GroupedHashes(st.procs) \cup (IF DefaultID \in DOMAIN st.procs /\ st.procs[DefaultID] THEN {DefaultKey} ELSE {})
  /\ DOMAIN st.http = DOMAIN st.hashes
  /\ \A c \in DOMAIN st.procs : st.procs[c] => st.hashes[H(c)] = c /\ st.http[H(c)] = c
  /\ \A c \in DOMAIN st.procs : st.procs[c] => c \in st.disk

\* C19 on the design: in every reachable state, every request of the product is answered by the chain
\* it names or refused, and consistent requests for running chains are answered.
Inv_RoutedRight == \A req \in Requests : RoutedRight(st.procs, req, Expected(st, req))
Inv_KeepsWorking == \A req \in Requests : KeepsWorking(st.procs, req, Expected(st, req))
=============================================================================
