SPECIFICATION Spec
CONSTANTS
  H0 = 2
  MaxPuts = 2
  Reqs = {0, 1, 2, 3, 4, 5}
INVARIANT Inv_C01_RightRound
CHECK_DEADLOCK FALSE
