--------------------------- MODULE PartialHandover ---------------------------
(* The hand-over of verified partials from their receivers to the aggregator                                  *)
(* (internal/chain/beacon/chainstore.go: NewValidPartial -> chan newPartials (defaultPartialChanBuffer slots)  *)
(* -> runAggregator).  The send BLOCKS when the buffer is full: a caller (a PartialBeacon RPC handler, or the  *)
(* node's own broadcast) returns only once its partial is in the buffer.  That back-pressure is what bounds    *)
(* the verified partials waiting in front of the partial cache while the aggregator is busy (it is inside a    *)
(* store write that may take long): at most Cap in the buffer plus one in the aggregator's hands; everything   *)
(* else is still owned by a caller that has not returned (and occupies one of the transport's bounded stream   *)
(* slots).  C12: a member cannot make the node hold an unbounded number of partials.                          *)
EXTENDS Naturals
CONSTANTS Cap, MaxCalls
VARIABLES buf,      \* partials in the channel
          held,     \* 1 while the aggregator works on a partial it took
          busy,     \* the aggregator is stuck inside that work (slow store, stalled stream queue)
          blocked,  \* callers waiting in the send
          returned  \* calls that returned (their partial is the node's responsibility now), not yet consumed
vars == <<buf, held, busy, blocked, returned>>
Init == buf = 0 /\ held = 0 /\ busy = FALSE /\ blocked = 0 /\ returned = 0
\* a caller hands a partial over: it returns at once iff there is room
Submit == /\ buf + blocked + returned < MaxCalls
          /\ IF buf < Cap THEN buf' = buf + 1 /\ returned' = returned + 1 /\ UNCHANGED blocked
                          ELSE blocked' = blocked + 1 /\ UNCHANGED <<buf, returned>>
          /\ UNCHANGED <<held, busy>>
\* the aggregator takes the next partial; a blocked caller (if any) gets the free slot and returns
Take == /\ held = 0 /\ buf > 0
        /\ held' = 1
        /\ IF blocked > 0 THEN blocked' = blocked - 1 /\ returned' = returned + 1 /\ UNCHANGED buf
                          ELSE buf' = buf - 1 /\ UNCHANGED <<blocked, returned>>
        /\ UNCHANGED busy
Stall == held = 1 /\ ~busy /\ busy' = TRUE /\ UNCHANGED <<buf, held, blocked, returned>>
Done == /\ held = 1 /\ held' = 0 /\ busy' = FALSE /\ returned' = returned - 1
        /\ UNCHANGED <<buf, blocked>>
Next == Submit \/ Take \/ Stall \/ Done
Spec == Init /\ [][Next]_vars
\* what the node holds on behalf of callers that are gone
Parked == buf + held
Inv_ParkedBounded == Parked <= Cap + 1 /\ returned = Parked
\* calls that can return while the aggregator is stuck, starting from b buffered partials
ReturnsWhileBusy(b, k) == IF k <= Cap - b THEN k ELSE Cap - b
=============================================================================
