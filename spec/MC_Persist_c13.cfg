SPECIFICATION Spec
CONSTANTS
  Scripts <- ScriptsStd
  Variant = "code"
INVARIANTS Inv_C13
CHECK_DEADLOCK FALSE
