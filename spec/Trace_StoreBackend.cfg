SPECIFICATION TraceSpec
CONSTANTS
  Kinds = {"bolt"}
  K = 0
  Rounds = {0}
  Vals = {0}
  MutInCursor = TRUE
INVARIANT AtEnd
CHECK_DEADLOCK FALSE
