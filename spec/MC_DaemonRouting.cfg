SPECIFICATION Spec
CONSTANTS
  Chains = {"default", "a", "b"}
  MaxSteps = 4
INVARIANTS TypeOK Inv_Tables Inv_RoutedRight Inv_KeepsWorking
VIEW View
