SPECIFICATION MCSpec
CONSTANTS
  Kinds = {"bolt", "trimmed", "trimmedc", "memdb"}
  K = 3
  Rounds = {0,1,2,3,4}
  Vals = {0,1,2}
  MutInCursor = FALSE
  Depth = 0
  CoverOneIn = 4
INVARIANTS TypeOK Inv_Sorted Inv_Capacity Inv_Content Inv_Cover
PROPERTIES Act_ModuloNamed Act_PrevAlways Act_Ring Act_Classify
VIEW View
