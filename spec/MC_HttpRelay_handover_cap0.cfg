SPECIFICATION SpecFine
CONSTANTS
  W = {1, 2}
  MaxRound = 3
  Curs = {2, 3}
  Monotone = TRUE
  Ticks = FALSE
  IdleRec = FALSE
  Cap = 0
  Eager = TRUE
INVARIANTS TypeFineOK Inv_RelayNotWedged
VIEW ViewFine
