SPECIFICATION Spec
CONSTANTS
  Vals = {1, 2}
INVARIANT Inv_AcceptImpliesIdentity
CHECK_DEADLOCK FALSE
