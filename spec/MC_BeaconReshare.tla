---------------------------- MODULE MC_BeaconReshare ----------------------------
EXTENDS BeaconReshare
CONSTANTS n1, n2, n3
Sym == Permutations({n1, n2, n3})
=============================================================================
