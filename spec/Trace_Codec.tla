----------------------------- MODULE Trace_Codec -----------------------------
(***************************************************************************)
(* Validates trips of concrete values through the real encoders/decoders   *)
(* (recorded by the overlay tests TestVerifCodec...) against Codec.tla: for *)
(* every trip the expected result is computed with Normalise and compared  *)
(* with the observed projection of the decoded value; malformed group      *)
(* encodings must have been rejected.                                      *)
(***************************************************************************)
EXTENDS Codec, Json

TraceLog == ndJsonDeserialize("trace.ndjson")

VARIABLES l, alarms
tvars == <<val, op, l, alarms>>

Alarm(mon, e, fields, detail) ==
  [mon |-> mon, type |-> e.v.type, path |-> e.path, scheme |-> e.scheme, fields |-> fields, detail |-> detail,
   overwrite |-> ("over" \in DOMAIN e /\ e.over.type # "none")]

TraceInit == l = 1 /\ alarms = {} /\ val = [type |-> "none"] /\ op = [kind |-> "init"]

StepRT(e) ==
  /\ e.ev = "RT"
  /\ LET A0 == IF e.path \notin PathsOf(e.v.type) \/ e.v \notin ValuesOf(e.v.type)
                    \/ e.over \notin OversOn(e.v.type, e.path)
                 THEN {Alarm("Conformance", e, {}, "not a value/path of Codec.tla")} ELSE {}
         A1 == IF ~Mon_RoundTripIdentity(e.v, e.path, e.err, e.p, e.rest)
                 THEN {Alarm("Mon_RoundTripIdentity", e,
                             IF e.err # "" THEN {"<decode failed>"}
                             ELSE DiffFields(e.v, e.path, e.p) \cup (IF e.rest THEN {} ELSE {"<content>"}),
                             IF e.err # "" THEN e.err ELSE e.restdiff)}
                 ELSE {}
         A2 == IF ~Mon_RoundTripHash(e.v, e.err, e.hasheq)
                 THEN {Alarm("Mon_RoundTripHash", e, {}, "hash of the decoded value differs")} ELSE {}
     IN alarms' = alarms \cup A0 \cup A1 \cup A2
  /\ val' = e.v /\ op' = [kind |-> "roundtrip", path |-> e.path, over |-> e.over, result |-> e.p]

StepBad(e) ==
  /\ e.ev = "Bad"
  /\ LET A0 == IF e.path \notin PathsOf("badgroup") \/ e.v \notin BadGroups
                 THEN {Alarm("Conformance", e, {}, "not a malformed value/path of Codec.tla")} ELSE {}
         A1 == IF ~Mon_MalformedRejected(e.v, e.accepted)
                 THEN {Alarm("Mon_MalformedRejected", e, {e.v.kind}, "accepted")} ELSE {}
     IN alarms' = alarms \cup A0 \cup A1
  /\ val' = e.v /\ op' = [kind |-> "malformed", path |-> e.path, result |-> IF e.accepted THEN "Accept" ELSE "Reject"]

TraceNext ==
  /\ l <= Len(TraceLog)
  /\ LET e == TraceLog[l] IN StepRT(e) \/ StepBad(e)
  /\ l' = l + 1

TraceSpec == TraceInit /\ [][TraceNext]_tvars

AtEnd == l = Len(TraceLog) + 1 =>
           /\ PrintT(<<"VP", "ALARMS", ToJson(alarms)>>)
           /\ PrintT(<<"VP", "DONE", ToJson([lines |-> Len(TraceLog)])>>)
=============================================================================
