SPECIFICATION TraceSpec
CONSTANTS
  Scripts <- TraceScripts
  Variant = "code"
INVARIANT AtEnd
CHECK_DEADLOCK FALSE
