SPECIFICATION Spec
CONSTANTS
  n1 = n1
  n2 = n2
  n3 = n3
  n4 = n4
  Nodes = {n1, n2, n3, n4}
  OldM = {n1, n2, n3}
  NewM = {n1, n2, n4}
  ThrOld = 2
  ThrNew = 2
  T = 2
  MaxRound = 3
  ExtraTicks = 2
  IdxOld <- MCIdxOld
  IdxNew <- MCIdxNew
INVARIANTS OnlyNewShares VaultFollowsChain NoFuture
CHECK_DEADLOCK FALSE
