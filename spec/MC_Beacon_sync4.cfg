SPECIFICATION Spec
CONSTANTS
  n1 = n1
  n2 = n2
  n3 = n3
  n4 = n4
  Nodes = {n1, n2, n3, n4}
  Thr = 3
  P = 2
  MaxRound = 2
  MaxSkew = 2
  SyncDelivery = TRUE
  Faults = 1
SYMMETRY Sym4
INVARIANTS TypeOK NoEarlyPartial NoEarlyBeacon CacheAboveAggLast
CHECK_DEADLOCK FALSE
VIEW View
