SPECIFICATION SimSpec
CONSTANTS
  Streams = {1, 2}
  SameAddr = TRUE
  Writers = {1}
  Q = 100
  InitHead = 2
  MaxR = 4
  Froms = {0}
  Backend = "bolt"
  Buf = 100
  Remap = FALSE
  Faults = {"cancel"}
  MaxFaults = 1
  HoldReg = TRUE
CHECK_DEADLOCK FALSE
