------------------------------ MODULE Trace_DKG ------------------------------
(***************************************************************************)
(* Validates executions of a real dkg.Process (recorded by the overlay     *)
(* test TestVerifDKGControl: real bolt store, real signatures, real kyber  *)
(* executions) against DKG.tla (code -> spec direction).                   *)
(*                                                                         *)
(* Every recorded call (operator command, gossip packet, time passing,     *)
(* execution outcome) is re-applied with the specification's transition    *)
(* function to the buckets observed before the call; result and both       *)
(* buckets are compared with the observation (difference => alarm          *)
(* "Conformance" = model drift, never a verdict); the monitors C08Fails /  *)
(* C09Fails of DKG.tla are evaluated on the OBSERVED values (failure =>    *)
(* alarm named after the monitor = verdict); the observed buckets are then *)
(* adopted, so the rest of the trace stays checkable after a divergence.   *)
(* This is the "permissive twin" of DESIGN 1.2: what the code did is       *)
(* applied, and judged.                                                    *)
(***************************************************************************)
EXTENDS DKG, Json

TraceLog == ndJsonDeserialize("trace.ndjson")

VARIABLES l,        \* next line of the trace
          alarms,   \* monitor failures and conformance differences so far
          scen,     \* current scenario (from the last Reset line)
          tme,      \* participant id of the node under test in this scenario
          stats     \* <<steps, steps that changed DKG state, accepted packets>>

tvars == <<cur, fin, exec, tick, op, l, alarms, scen, tme, stats>>

SetOf(s) == {s[i] : i \in DOMAIN s}

ObsRec(j) == [st |-> j.st, ep |-> j.ep, ldr |-> j.ldr, rem |-> SetOf(j.rem), join |-> SetOf(j.join),
              leav |-> SetOf(j.leav), thr |-> j.thr, tmo |-> j.tmo, gt |-> j.gt, seed |-> j.seed,
              acc |-> SetOf(j.acc), rej |-> SetOf(j.rej), fg |-> SetOf(j.fg), hasfg |-> j.hasfg, share |-> j.share]

ObsTerms(j) == [ep |-> j.ep, ldr |-> j.ldr, rem |-> SetOf(j.rem), join |-> SetOf(j.join), leav |-> SetOf(j.leav),
                thr |-> j.thr, tmo |-> j.tmo, gt |-> j.gt, seed |-> j.seed, sch |-> j.sch]

ObsX(j) == CASE j.k = "cmd" -> [k |-> "cmd", cmd |-> j.cmd, t |-> ObsTerms(j.t), gf |-> j.gf]
             [] j.k = "pkt" -> [k |-> "pkt", typ |-> j.typ, t |-> ObsTerms(j.t), s |-> ObsTerms(j.s),
                                claimed |-> j.claimed, skey |-> j.skey, arg |-> j.arg, sarg |-> j.sarg]
             [] j.k = "exec" -> [k |-> "exec", out |-> j.out,
                                 qual |-> IF "qual" \in DOMAIN j THEN SetOf(j.qual) ELSE AllQual]
             [] OTHER -> [k |-> "time"]

What(x) == CASE x.k = "cmd" -> "cmd-" \o x.cmd [] x.k = "pkt" -> "pkt-" \o x.typ [] x.k = "exec" -> "exec-" \o x.out [] OTHER -> "time"

Alarm(mon, detail, e, x, extra) ==
  [mon |-> mon, detail |-> detail, scenario |-> scen, me |-> tme, ev |-> e.ev, line |-> l, what |-> What(x),
   pre |-> cur.st, extra |-> extra]

TraceInit == /\ cur = FreshRec /\ fin = NoneRec /\ exec = "none" /\ tick = 0
             /\ op = [x |-> [k |-> "init"], res |-> "ok", why |-> "init"]
             /\ l = 1 /\ alarms = {} /\ scen = "none" /\ tme = "p2" /\ stats = <<0, 0, 0>>

StepReset(e) ==
  /\ e.ev = "Reset"
  /\ cur' = FreshRec /\ fin' = NoneRec /\ exec' = "none" /\ tick' = 0
  /\ scen' = e.scenario /\ tme' = e.me
  /\ alarms' = alarms \cup
       (IF "fatal" \in DOMAIN e THEN {[mon |-> "Harness", detail |-> "fatal", scenario |-> e.scenario, me |-> e.me, ev |-> "Reset", line |-> l, what |-> e.fatal, pre |-> "", extra |-> ""]}
        ELSE IF ObsRec(e.cur) # FreshRec \/ ObsRec(e.fin) # NoneRec
          THEN {[mon |-> "Conformance", detail |-> "initial-buckets", scenario |-> e.scenario, me |-> e.me, ev |-> "Reset", line |-> l, what |-> "reset", pre |-> "", extra |-> ""]}
        ELSE {})
  /\ stats' = stats

StepCall(e) ==
  /\ e.ev \in {"Cmd", "Pkt", "Time", "Exec"}
  /\ LET x == ObsX(e.x)
         dup == e.ev = "Pkt" /\ e.dup                    \* byte-identical packet already in Process.SeenPackets
         now2 == IF x.k = "time" THEN tick + 1 ELSE tick
         o == CASE x.k = "cmd" -> CommandOp(tme, cur, fin, exec, tick, x)
                [] x.k = "pkt" -> IF dup THEN Out("ok", "duplicate packet ignored", cur, fin, exec)
                                  ELSE PacketOp(tme, cur, fin, exec, tick, x)
                [] x.k = "exec" -> ExecOpQ(cur, fin, exec, tick, x.out, x.qual)
                [] OTHER -> TimeOp(cur, fin, exec, tick)
         oc == ObsRec(e.cur)
         of == ObsRec(e.fin)
         \* the specification refuses the packet for an authentication reason, the code acted on it
         unauth == /\ x.k = "pkt" /\ ~dup /\ o.res # "ok" /\ o.why \in AuthRefusals
                   /\ (e.res = "ok" \/ oc # cur \/ of # fin)
         A0 == IF unauth THEN {Alarm("C09_AcceptedUnauthenticated", x.typ \o "-" \o o.why, e, x,
                                     "spec " \o o.res \o " (" \o o.why \o "), code " \o e.res)} ELSE {}
         A1 == IF o.res # e.res /\ ~unauth
                 THEN {Alarm("Conformance", "result", e, x, "spec " \o o.res \o " (" \o o.why \o "), code " \o e.res \o " (" \o e.err \o ")")} ELSE {}
         A2 == IF o.cur # oc /\ ~unauth THEN {Alarm("Conformance", "current-bucket", e, x, "spec " \o o.cur.st \o " (" \o o.why \o "), code " \o oc.st)} ELSE {}
         A3 == IF o.fin # of THEN {Alarm("Conformance", "finished-bucket", e, x, "spec " \o o.fin.st \o ", code " \o of.st)} ELSE {}
         A4 == IF e.res = "blocked" THEN {Alarm("Blocked", What(x), e, x, "the call did not return")} ELSE {}
         A5 == IF "storeerr" \in DOMAIN e THEN {Alarm("Harness", "store-read", e, x, e.storeerr)} ELSE {}
         M8 == {Alarm(f[1], f[2], e, x, "") : f \in C08Fails(tme, x, now2, e.res, cur, fin, oc, of)}
         M9 == {Alarm(f[1], f[2], e, x, "") : f \in C09Fails(tme, x, tick, e.res, cur, fin, oc, of)}
     IN /\ alarms' = alarms \cup A0 \cup A1 \cup A2 \cup A3 \cup A4 \cup A5 \cup M8 \cup M9
        /\ cur' = oc /\ fin' = of
        /\ exec' = IF (x.k = "cmd" /\ x.cmd = "execute") \/ (x.k = "pkt" /\ x.typ = "execute" /\ ~dup)
                     THEN (IF e.res = "ok" THEN "running" ELSE exec)
                     ELSE o.exec
        /\ tick' = now2
        /\ stats' = <<stats[1] + 1,
                      stats[2] + (IF oc # cur \/ of # fin THEN 1 ELSE 0),
                      stats[3] + (IF x.k = "pkt" /\ (oc # cur \/ of # fin) THEN 1 ELSE 0)>>
  /\ scen' = scen /\ tme' = tme

StepOther(e) ==
  /\ e.ev \notin {"Reset", "Cmd", "Pkt", "Time", "Exec"}
  /\ UNCHANGED <<cur, fin, exec, tick, alarms, scen, tme, stats>>

TraceNext ==
  /\ l <= Len(TraceLog)
  /\ LET e == TraceLog[l] IN StepReset(e) \/ StepCall(e) \/ StepOther(e)
  /\ l' = l + 1
  /\ op' = op

TraceSpec == TraceInit /\ [][TraceNext]_tvars

\* printed once, in the last state
AtEnd == l = Len(TraceLog) + 1 =>
           /\ PrintT(<<"VP", "ALARMS", ToJson(alarms)>>)
           /\ PrintT(<<"VP", "DONE", ToJson([lines |-> Len(TraceLog), steps |-> stats[1], changed |-> stats[2], pkt_changed |-> stats[3]])>>)
=============================================================================
