SPECIFICATION TraceSpec
CONSTANTS
  Me = "p2"
  MaxEpoch = 3
  MaxTick = 3
  Rich = TRUE
  Shapes = {"keep", "swap"}
INVARIANT AtEnd
CHECK_DEADLOCK FALSE
