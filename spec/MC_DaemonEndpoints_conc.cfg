SPECIFICATION SpecC
CONSTANTS
  Chains = {"default", "a"}
  MaxSteps = 0
  Skip <- SkipNone
  NoScan = FALSE
INVARIANTS Inv_NoDeadlock Inv_ConcNoLockLeft Inv_DeadlockIsABBA
CHECK_DEADLOCK FALSE
