SPECIFICATION SimSpec
CONSTANTS
  Peers = {1, 2, 3}
  MaxR = 6
  PT <- PTSim
  Modes = {"run", "run", "follow", "repair"}
  ChainedSet = {TRUE, FALSE}
  Starts = {0, 1, 2, 3}
  Targets = {0}
  Corruptions <- NoCorruption
  NT = 2
  FollowRetries = TRUE
  FollowAppend = TRUE
  ResyncChecksRound = TRUE
  ResyncDeletesFirst = FALSE
  CheckZeroIsClock = FALSE
  Aborts = FALSE
  PinsOperatorHash = TRUE
  MaxAgg = 2
  QCap = 3
  Linger = TRUE
  History = TRUE
  Eager = TRUE
  Depth = 12
CHECK_DEADLOCK FALSE
