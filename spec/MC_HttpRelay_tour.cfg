SPECIFICATION Spec
CONSTANTS
  W = {1, 2}
  MaxRound = 3
  Curs = {2, 3}
  Monotone = FALSE
  Ticks = FALSE
  IdleRec = FALSE
  Cap = 1
  Eager = FALSE
INVARIANTS TypeOK Inv_Pending Inv_ParkedNext
VIEW ViewTour
