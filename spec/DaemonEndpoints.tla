--------------------------- MODULE DaemonEndpoints ---------------------------
(***************************************************************************)
(* C14 "no message from the network can crash or wedge a node".            *)
(*                                                                         *)
(* Lock model of the peer-facing / public handlers of a drand daemon.      *)
(* For every endpoint, request path class and node state the module gives  *)
(* the PROGRAM of the handler: the locks it acquires and releases, in      *)
(* order, including nested calls, where it panics and where it returns,    *)
(* transcribed from                                                        *)
(*   internal/core/drand_daemon_helper.go   readBeaconID, getBeaconProcess-*)
(*                                          ByID            (dd.state)     *)
(*   internal/core/drand_daemon_public.go / drand_beacon_public.go /       *)
(*   drand_beacon_control.go:Status                          (bp.state)    *)
(*   internal/core/drand_daemon_dkg_proxy.go, internal/dkg/actions_passive *)
(*   .go (Packet, BroadcastDKG), broadcast.go               (d.lock, echo) *)
(*   handler/http/server.go     (DrandHandler.state, chainInfoLk, pendingLk*)
(*   internal/core/drand_beacon.go:storeDKGOutput, drand_daemon.go:        *)
(*   AddBeaconHandler / dkgCallback          (internal event, Conc part)   *)
(*   internal/net/listener.go + internal/core/drand_daemon_interceptors.go *)
(*   every gRPC request first passes NodeVersionValidator / NodeVersion-   *)
(*   StreamValidator, which are chained BEFORE (outside) the recovery      *)
(*   interceptor: a panic there is not contained, it kills the process     *)
(*   (op Fatal).  Only a panic of the handler itself (op Panic) is turned  *)
(*   into an error.                                                        *)
(* Locks are NOT re-entrant (sync.Mutex / sync.RWMutex); a read lock is    *)
(* not granted while a writer waits (Go's RWMutex).  A lock taken with     *)
(* `defer Unlock` is released by a panic, any other held lock is not.      *)
(*                                                                         *)
(* World: the daemon hosts the TARGET chain "default" in node state ns and *)
(* a bystander chain "a" that always runs (routing tables = World(ns),     *)
(* built with the operators of DaemonRouting).                             *)
(*                                                                         *)
(* Two state machines over the same programs:                              *)
(*  Seq  : calls one after the other (any endpoint x class, any state);    *)
(*         a call that needs a lock that is still held can never proceed   *)
(*         (nobody is left to release it): it is STUCK.  Invariants        *)
(*         Inv_Responds, Inv_NoLockLeft.                                   *)
(*  Conc : one request concurrently with one internal event of the daemon  *)
(*         (a DKG result being stored, a beacon being shut down),          *)
(*         interleaved at lock operations.  Invariant Inv_NoDeadlock.      *)
(***************************************************************************)
EXTENDS DaemonRouting

\* Restrictions of the environment, to explore AROUND a confirmed and not yet repaired defect.  There is none at
\* present (F1 and F40 are repaired): every configuration uses Skip = {} and NoScan = FALSE.
CONSTANTS Skip,     \* set of <<endpoint, body class>> pairs the environment does not send
          NoScan    \* TRUE: the environment sends no routed request whose chain hash is unknown to the daemon

VARIABLES ns,       \* node state of the target chain
          lk,       \* lock -> [w : holder or 0, r : set of holders, q : set of waiting writers]
          th,       \* thread id -> [call, prog, pc, held, status]
          nxt       \* next thread id (Seq part)

evars == <<st, steps, last, ns, lk, th, nxt>>

Target == DefaultID
Bystander == "a"
NodeStates == {"fresh", "proposal", "running", "stopped"}

\* routing tables of the daemon in node state s
World(s) ==
  LET disk == {Bystander} \cup (IF s \in {"running", "stopped"} THEN {Target} ELSE {})
      w1 == LoadOp(EmptyState(disk), Bystander).s
  IN IF s = "stopped" THEN w1 ELSE LoadOp(w1, Target).s

WorldOf == [s \in NodeStates |-> World(s)]       \* (a constant: evaluated once)

\* state of the DKG state machine of the target chain, as far as it decides handler paths:
\* isValidStateChange(current, Proposed) holds from Fresh and from Complete (a migrated running chain)
AdmitsProposal(s) == s \in {"fresh", "running"}       \* (the bystander chain always runs: it always admits one)

-----------------------------------------------------------------------------
(* lock names and operations of a program                                    *)

BP(c) == "bp_" \o c       \* BeaconProcess.state of chain c
CI(c) == "ci_" \o c       \* http BeaconHandler.chainInfoLk of chain c
PL(c) == "pl_" \o c       \* http BeaconHandler.pendingLk of chain c
Locks == {"dkg", "dd", "hs", "echo"} \cup {BP(c) : c \in Chains} \cup {CI(c) : c \in Chains} \cup {PL(c) : c \in Chains}

Acq(l, m, d) == [k |-> "acq", l |-> l, m |-> m, d |-> d]    \* m: "R" | "W"; d: released by defer
Rel(l)       == [k |-> "rel", l |-> l, m |-> "-", d |-> FALSE]
Wait         == [k |-> "wait", l |-> "-", m |-> "-", d |-> FALSE]  \* the handler waits for an event while holding its locks
Panic        == [k |-> "panic", l |-> "-", m |-> "-", d |-> FALSE]  \* in the handler, inside the recovery interceptor
Fatal        == [k |-> "fatal", l |-> "-", m |-> "-", d |-> FALSE]  \* outside the recovery interceptor: the process dies
Ret(r)       == [k |-> "ret", l |-> r, m |-> "-", d |-> FALSE]

RECURSIVE SeqOfSet(_)
SeqOfSet(S) == IF S = {} THEN <<>> ELSE LET x == CHOOSE y \in S : TRUE IN <<x>> \o SeqOfSet(S \ {x})
RECURSIVE Flat(_)
Flat(ss) == IF ss = <<>> THEN <<>> ELSE Head(ss) \o Flat(Tail(ss))

-----------------------------------------------------------------------------
(* request classes                                                           *)

RoutedEps == {"PartialBeacon", "PublicRand", "PublicRandStream", "SyncChain", "ChainInfo", "GetIdentity", "Status"}
PlainEps  == {"ListBeaconIDs", "Metrics", "HttpChains", "ProbeHttpTable"}   \* (ProbeHttpTable: the daemon's own write access to the HTTP table, used as a probe)
HttpEps   == {"HttpInfo", "HttpLatest", "HttpRound", "HttpHealth"}

\* body classes: what decides the path through the handler after routing
RoutedBodies(ep) == IF ep = "PublicRand" THEN {"any", "next"} ELSE {"any"}
GossipMeta  == {"nil", "shortSig", "ok"}                    \* GossipPacket.metadata
Variants    == {"none", "proposal", "proposalNoLeader", "accept", "reject", "abort", "execute", "dkgNilInner", "dkgNoMeta", "dkgWithMeta"}
BcastBodies == {"nilDkg", "noMeta", "ok"}                   \* DKGPacket.dkg / its metadata
HttpBodies(ep) == IF ep = "HttpRound" THEN {"any", "badRound"} ELSE {"any"}

\* what the request announces as node version (metadata.node_version; every prerelease spelling belongs to the
\* class its numbers put it in): "none" = no metadata / no node_version
VerClasses == {"none", "compatible", "incompatible"}
UnaryRouted  == {"PartialBeacon", "PublicRand", "ChainInfo", "GetIdentity", "Status"}
StreamRouted == {"PublicRandStream", "SyncChain"}

\* the calls enumerated by the exhaustive configurations
Calls ==
  [ep : RoutedEps, id : IdToks, hash : HashToks, gm : {"-"}, body : {"any", "next"}, ver : {"none"}]
  \cup [ep : RoutedEps, id : {DefaultID}, hash : {NoneTok}, gm : {"-"}, body : {"any"}, ver : VerClasses]
  \cup [ep : PlainEps, id : {NoneTok}, hash : {NoneTok}, gm : {"-"}, body : {"any"}, ver : {"none"}]
  \cup [ep : HttpEps, id : {NoneTok}, hash : HashToks, gm : {"-"}, body : {"any", "badRound"}, ver : {"none"}]
  \cup [ep : {"DKGPacket"}, id : IdToks, hash : {NoneTok}, gm : GossipMeta, body : Variants, ver : {"none"}]
  \cup [ep : {"BroadcastDKG"}, id : IdToks, hash : {NoneTok}, gm : {"-"}, body : BcastBodies, ver : {"none"}]

WellFormed(c) ==
  /\ c.ep \in RoutedEps => c.body \in RoutedBodies(c.ep)
  /\ c.ep \in HttpEps => c.body \in HttpBodies(c.ep)
  /\ c.ep \notin RoutedEps => c.ver = "none"

\* a call record the programs are defined for (observed calls combine the classes freely)
KnownCall(c) ==
  /\ WellFormed(c) /\ c.ver \in VerClasses /\ c.id \in IdToks /\ c.hash \in HashToks
  /\ \/ c.ep \in RoutedEps /\ c.gm = "-"
     \/ c.ep \in PlainEps /\ c.gm = "-" /\ c.body = "any"
     \/ c.ep \in HttpEps /\ c.gm = "-"
     \/ c.ep = "DKGPacket" /\ c.gm \in GossipMeta /\ c.body \in Variants
     \/ c.ep = "BroadcastDKG" /\ c.gm = "-" /\ c.body \in BcastBodies

-----------------------------------------------------------------------------
(* programs                                                                  *)

\* dd.readBeaconID: with a chain hash, dd.state is read-locked to look the hash up and - when it is unknown - to
\* pick the process of the (canonical) beacon id; dd.state is RELEASED before that process' state is read-locked
\* (a beacon process registers its chain hash with the daemon while holding its own state lock, see DKGCompleteOps).
\* Then dd.getBeaconProcessByID (dd.state WRITE lock).
ReadIDOps(s, c) ==
  IF c.hash = NoneTok THEN <<>>
  ELSE <<Acq("dd", "R", FALSE), Rel("dd")>>
       \o (IF c.hash \notin DOMAIN s.hashes /\ Canon(c.id) \in DOMAIN s.procs
            THEN <<Acq(BP(Canon(c.id)), "R", FALSE), Rel(BP(Canon(c.id)))>> ELSE <<>>)
GetProcOps == <<Acq("dd", "W", FALSE), Rel("dd")>>

HandlerOps(s, c, x) ==
  LET g == s.procs[x]
      r == IF g THEN "ok" ELSE "reject" IN
  CASE c.ep = "GetIdentity" -> <<Ret("ok")>>
    [] c.ep = "PublicRand" /\ c.body = "next" /\ g ->
         <<Acq(BP(x), "R", TRUE), Wait, Rel(BP(x)), Ret("reject")>>         \* waits <= period+1s under the read lock
    [] c.ep \in {"PartialBeacon", "PublicRand", "Status"} ->
         <<Acq(BP(x), "R", TRUE), Rel(BP(x)), Ret(IF c.ep = "Status" THEN "ok" ELSE r)>>
    [] OTHER -> <<Acq(BP(x), "R", FALSE), Rel(BP(x)), Ret(r)>>               \* ChainInfo, SyncChain, PublicRandStream

RoutedOps(s, c) ==
  LET rid == ReadBeaconID(s, c.id, c.hash) IN
  IF rid = Refused THEN ReadIDOps(s, c) \o <<Ret("reject")>>
  ELSE IF rid \notin DOMAIN s.procs THEN ReadIDOps(s, c) \o GetProcOps \o <<Ret("reject")>>
  ELSE ReadIDOps(s, c) \o GetProcOps \o HandlerOps(s, c, rid)

\* dd.Packet (proxy) then dkg.Process.Packet: metadata and signature length are checked without any lock; the Dkg
\* variant is handed to d.BroadcastDKG WITHOUT d.lock held (a short locked look at SeenPackets before, BroadcastDKG
\* rejects a packet without inner packet / metadata and takes d.lock itself to find the execution); every other
\* variant is applied to the DKG state under d.lock (defer).
DKGPacketOps(nsv, s, c) ==
  IF c.gm = "nil" THEN <<Ret("reject")>>
  ELSE IF c.id \notin DOMAIN s.procs THEN <<Ret("reject")>>                 \* beaconExists on the raw id
  ELSE IF c.gm = "shortSig" THEN <<Ret("reject")>>
  ELSE IF c.body \in {"dkgNilInner", "dkgNoMeta", "dkgWithMeta"}
    THEN <<Acq("dkg", "W", TRUE), Rel("dkg")>>                              \* hasSeenPacket
         \o (IF c.body = "dkgWithMeta" THEN <<Acq("dkg", "W", FALSE), Rel("dkg")>> ELSE <<>>)
         \o <<Ret("reject")>>                                               \* no execution in progress in these node states
  ELSE <<Acq("dkg", "W", TRUE)>> \o
       (\* DBState.Proposed reads terms.Leader.Address once the state change is admissible
        IF c.body = "proposalNoLeader" /\ ((c.id = Target /\ AdmitsProposal(nsv)) \/ c.id = Bystander)
          THEN <<Panic>>
          ELSE <<Rel("dkg"), Ret("reject")>>)

BroadcastOps(s, c) ==
  IF c.body \in {"nilDkg", "noMeta"} THEN <<Ret("reject")>>
  ELSE IF c.id \notin DOMAIN s.procs THEN <<Ret("reject")>>
  ELSE <<Acq("dkg", "W", FALSE), Rel("dkg"), Ret("reject")>>                 \* no execution in progress in these node states

HttpLookup == <<Acq("hs", "R", TRUE), Rel("hs")>>
HttpInfoOps(x) == HttpLookup \o <<Acq(CI(x), "R", FALSE), Rel(CI(x)), Acq(CI(x), "W", TRUE),
                                  Acq(BP(x), "R", FALSE), Rel(BP(x)), Rel(CI(x))>>
HttpStartOps(x) == <<Acq(PL(x), "W", FALSE), Rel(PL(x))>>
HttpOps(s, c) ==
  IF c.body = "badRound" \/ c.hash = MalformedTok THEN <<Ret("reject")>>
  ELSE LET x == HttpResolve(s, c.hash) IN
       IF x = Refused THEN HttpLookup \o <<Ret("reject")>>
       ELSE CASE c.ep = "HttpInfo" -> HttpInfoOps(x) \o <<Ret("ok")>>
              [] c.ep = "HttpLatest" -> HttpLookup \o <<Acq(BP(x), "R", TRUE), Rel(BP(x))>> \o HttpInfoOps(x) \o <<Ret("ok")>>
              [] c.ep = "HttpRound" -> HttpLookup \o HttpInfoOps(x) \o HttpLookup \o HttpStartOps(x)
                                        \o <<Acq(PL(x), "R", FALSE), Rel(PL(x)), Acq(BP(x), "R", TRUE), Rel(BP(x)), Ret("ok")>>
              [] c.ep = "HttpHealth" -> HttpLookup \o HttpStartOps(x) \o <<Acq(PL(x), "R", FALSE), Rel(PL(x))>>
                                         \o HttpInfoOps(x) \o <<Ret("ok")>>

Prog(nsv, c) ==
  LET s == WorldOf[nsv] IN
  \* NodeVersionValidator (unary): a request whose metadata announces an incompatible version is refused before the
  \* handler; it takes no lock and has no panic point (a panic here would be Fatal).  NodeVersionStreamValidator
  \* looks for the metadata on the service object instead of the request: stream requests are never refused here.
  CASE c.ep \in UnaryRouted /\ c.ver = "incompatible" -> <<Ret("reject")>>
    [] c.ep \in RoutedEps -> RoutedOps(s, c)
    [] c.ep = "ListBeaconIDs" -> <<Acq("dd", "R", TRUE), Rel("dd"), Ret("ok")>>
    [] c.ep \in {"Metrics", "HttpChains"} -> <<Ret("ok")>>
    [] c.ep = "ProbeHttpTable" -> <<Acq("hs", "W", TRUE), Rel("hs"), Ret("ok")>>
    [] c.ep = "DKGPacket" -> DKGPacketOps(nsv, s, c)
    [] c.ep = "BroadcastDKG" -> BroadcastOps(s, c)
    [] c.ep \in HttpEps -> HttpOps(s, c)

\* internal events of the daemon that run concurrently with requests
\* bp.storeDKGOutput: bp.state write-locked with defer, then opts.dkgCallback -> dd.state.Lock,
\* AddBeaconHandler (handler.state, dd.state, twice for the default beacon); then StartBeacon -> newBeacon
DKGCompleteOps(x) ==
  <<Acq(BP(x), "W", TRUE), Acq("dd", "W", FALSE), Rel("dd"), Acq("hs", "W", TRUE), Rel("hs"), Acq("dd", "W", FALSE), Rel("dd")>>
  \o (IF x = DefaultID THEN <<Acq("hs", "W", TRUE), Rel("hs"), Acq("dd", "W", FALSE), Rel("dd")>> ELSE <<>>)
  \o <<Rel(BP(x)), Acq(BP(x), "W", TRUE), Rel(BP(x)), Ret("ok")>>
\* dd.Shutdown(id): getBeaconProcessByID, RemoveBeaconHandler, bp.Stop (+StopBeacon), RemoveBeaconProcess
ShutdownOps(x) ==
  <<Acq("dd", "W", FALSE), Rel("dd"), Acq("hs", "W", TRUE), Rel("hs")>>
  \o (IF x = DefaultID THEN <<Acq("hs", "W", TRUE), Rel("hs")>> ELSE <<>>)
  \o <<Acq(BP(x), "R", FALSE), Rel(BP(x)), Acq(BP(x), "W", TRUE), Rel(BP(x)), Acq("dd", "W", FALSE), Rel("dd"), Ret("ok")>>

-----------------------------------------------------------------------------
(* execution of programs                                                     *)

FreeLocks == [l \in Locks |-> [w |-> 0, r |-> {}, q |-> {}]]

CanAcq(L, t, op) ==
  IF op.m = "W" THEN L[op.l].w = 0 /\ L[op.l].r = {}
  ELSE L[op.l].w = 0 /\ (L[op.l].q \ {t}) = {}
Take(L, t, op) ==
  IF op.m = "W" THEN [L EXCEPT ![op.l].w = t, ![op.l].q = @ \ {t}]
  ELSE [L EXCEPT ![op.l].r = @ \cup {t}]
Drop(L, t, l) ==
  IF L[l].w = t THEN [L EXCEPT ![l].w = 0] ELSE [L EXCEPT ![l].r = @ \ {t}]
RECURSIVE DropAll(_, _, _)
DropAll(L, t, hs) == IF hs = <<>> THEN L ELSE DropAll(Drop(L, t, Head(hs).l), t, Tail(hs))
DeferredOf(held) == SelectSeq(held, LAMBDA h : h.d)
KeptOf(held) == SelectSeq(held, LAMBDA h : ~h.d)
RemoveHeld(held, l) ==
  \* the most recent hold of l
  LET idx == {i \in DOMAIN held : held[i].l = l} IN
  IF idx = {} THEN held
  ELSE LET m == CHOOSE i \in idx : \A j \in idx : j <= i IN
       [i \in 1..(Len(held) - 1) |-> IF i < m THEN held[i] ELSE held[i + 1]]

\* Run a program to its end from lock state L when nobody else moves (sequential semantics).
\* Result: [res |-> "done"|"panic"|"crash"|"stuck", ret, L, on]   (on = the lock a stuck call waits for)
RECURSIVE RunSeq(_, _, _, _, _)
RunSeq(prog, pc, L, t, held) ==
  IF pc > Len(prog) THEN [res |-> "done", ret |-> "ok", L |-> L, on |-> "-"]
  ELSE LET op == prog[pc] IN
    CASE op.k = "acq" -> IF CanAcq(L, t, op)
                           THEN RunSeq(prog, pc + 1, Take(L, t, op), t, Append(held, [l |-> op.l, d |-> op.d]))
                           ELSE [res |-> "stuck", ret |-> "-", L |-> L, on |-> op.l]
      [] op.k = "rel" -> RunSeq(prog, pc + 1, Drop(L, t, op.l), t, RemoveHeld(held, op.l))
      [] op.k = "wait" -> RunSeq(prog, pc + 1, L, t, held)
      [] op.k = "panic" -> [res |-> "panic", ret |-> "-", L |-> DropAll(L, t, DeferredOf(held)), on |-> "-"]
      [] op.k = "fatal" -> [res |-> "crash", ret |-> "-", L |-> L, on |-> "-"]
      [] op.k = "ret" -> [res |-> "done", ret |-> op.l, L |-> L, on |-> "-"]

HeldLocks(L) == {l \in Locks : L[l].w # 0 \/ L[l].r # {}}

\* outcome of one call on a quiescent daemon in node state s
Outcome(s, c) == RunSeq(Prog(s, c), 1, FreeLocks, 1, <<>>)
\* would call p return if it were made after call c (p runs on what c left behind)?
ProbeFrom(s, L, p) == RunSeq(Prog(s, p), 1, L, 2, <<>>)
ProbeAfter(s, c, p) == ProbeFrom(s, Outcome(s, c).L, p)

-----------------------------------------------------------------------------
(* Monitors (on observed outcomes; also the invariants of the Seq machine)   *)

Responds(res) == res # "stuck"                    \* every call returns or is rejected
ProcessAlive(res) == res # "crash"                \* no request kills the process (a panic is contained)
NoLockLeft(L) == HeldLocks(L) = {}                \* no lock stays held after a call ended
StillServes(proberes) == proberes # "stuck"       \* a later call on the same / another endpoint returns

-----------------------------------------------------------------------------
(* Seq: one call after the other                                             *)

Sent(c) == WellFormed(c) /\ <<c.ep, c.body>> \notin Skip
SentIn(s, c) == Sent(c) /\ (NoScan /\ c.ep \in RoutedEps => c.hash \in {NoneTok} \cup DOMAIN World(s).hashes)

InitE == /\ ns \in NodeStates
         /\ st = World(ns) /\ steps = 0 /\ last = [kind |-> "init"]
         /\ lk = FreeLocks /\ th = [t \in {} |-> 0] /\ nxt = 1

\* a whole call as one step (it runs alone): the locks it leaves and whether it got stuck
DoCall(c) ==
  /\ Sent(c)
  /\ Cardinality(DOMAIN th) < 3
  /\ LET o == RunSeq(Prog(ns, c), 1, lk, nxt, <<>>) IN
     /\ lk' = o.L
     /\ th' = [t \in (DOMAIN th) \cup {nxt} |-> IF t = nxt THEN [call |-> c, status |-> o.res, on |-> o.on] ELSE th[t]]
  /\ nxt' = nxt + 1
  /\ UNCHANGED <<st, steps, last, ns>>

NextSeq == \E c \in Calls : DoCall(c)
SpecSeq == InitE /\ [][NextSeq]_evars
ViewSeq == <<ns, lk, {th[t].status : t \in DOMAIN th}>>

Inv_Responds   == \A t \in DOMAIN th : Responds(th[t].status)
Inv_ProcessAlive == \A t \in DOMAIN th : ProcessAlive(th[t].status)
Inv_NoLockLeft == (\A t \in DOMAIN th : th[t].status # "stuck") => NoLockLeft(lk)
\* every program that returns releases what it acquired, in every state (static well-formedness of the
\* transcription; a constant-level formula, checked once by an ASSUME of the MC module)
Balanced == \A s \in NodeStates : \A c \in {d \in Calls : Sent(d)} :
               Outcome(s, c).res = "done" => NoLockLeft(Outcome(s, c).L)

-----------------------------------------------------------------------------
(* Conc: one request || one internal event, interleaved at lock operations   *)

Events(s) == IF s \in {"fresh", "proposal"} THEN {[ev |-> "DKGComplete", x |-> Target]}
             ELSE IF s = "running" THEN {[ev |-> "Shutdown", x |-> Target], [ev |-> "Shutdown", x |-> Bystander]}
             ELSE {[ev |-> "Shutdown", x |-> Bystander]}
EventProg(e) == IF e.ev = "DKGComplete" THEN DKGCompleteOps(e.x) ELSE ShutdownOps(e.x)

Thread(call, prog) == [call |-> call, prog |-> prog, pc |-> 1, held |-> <<>>, status |-> "run"]

InitC == /\ ns \in NodeStates
         /\ st = World(ns) /\ steps = 0 /\ last = [kind |-> "init"]
         /\ lk = FreeLocks /\ nxt = 0
         /\ \E c \in {d \in Calls : SentIn(ns, d)} : \E e \in Events(ns) :
              th = [t \in {1, 2} |-> IF t = 1 THEN Thread(c, Prog(ns, c)) ELSE Thread(e, EventProg(e))]

StepC(t) ==
  /\ th[t].status = "run"
  /\ th[t].pc <= Len(th[t].prog)
  /\ LET op == th[t].prog[th[t].pc] IN
     CASE op.k = "acq" ->
            IF CanAcq(lk, t, op)
              THEN /\ lk' = Take(lk, t, op)
                   /\ th' = [th EXCEPT ![t].pc = @ + 1, ![t].held = Append(@, [l |-> op.l, d |-> op.d])]
              ELSE \* a writer that cannot get the lock announces itself (blocks later readers)
                   /\ op.m = "W" /\ t \notin lk[op.l].q
                   /\ lk' = [lk EXCEPT ![op.l].q = @ \cup {t}]
                   /\ th' = th
       [] op.k = "rel" -> /\ lk' = Drop(lk, t, op.l)
                          /\ th' = [th EXCEPT ![t].pc = @ + 1, ![t].held = RemoveHeld(@, op.l)]
       [] op.k = "wait" -> lk' = lk /\ th' = [th EXCEPT ![t].pc = @ + 1]
       [] op.k = "panic" -> /\ lk' = DropAll(lk, t, DeferredOf(th[t].held))
                            /\ th' = [th EXCEPT ![t].status = "panic", ![t].held = KeptOf(@)]
       [] op.k = "fatal" -> lk' = lk /\ th' = [th EXCEPT ![t].status = "crash"]
       [] op.k = "ret" -> lk' = lk /\ th' = [th EXCEPT ![t].status = "done"]
  /\ UNCHANGED <<st, steps, last, ns, nxt>>

NextC == \E t \in {1, 2} : StepC(t)
SpecC == InitC /\ [][NextC]_evars

\* static lock-order analysis of two programs: <<held lock, its mode, lock being acquired, its mode>>
RECURSIVE HoldPairs(_, _, _)
HoldPairs(prog, pc, held) ==
  IF pc > Len(prog) THEN {}
  ELSE LET op == prog[pc] IN
    CASE op.k = "acq" -> {<<held[i].l, held[i].m, op.l, op.m>> : i \in DOMAIN held}
                         \cup HoldPairs(prog, pc + 1, Append(held, [l |-> op.l, m |-> op.m]))
      [] op.k = "rel" -> HoldPairs(prog, pc + 1, RemoveHeld(held, op.l))
      [] op.k \in {"panic", "fatal", "ret"} -> {}
      [] OTHER -> HoldPairs(prog, pc + 1, held)
Conflicts(m1, m2) == ~(m1 = "R" /\ m2 = "R")
\* thread 1 holds A and wants B while thread 2 holds B and wants A
ABBA(p1, p2) ==
  \E a \in HoldPairs(p1, 1, <<>>), b \in HoldPairs(p2, 1, <<>>) :
     /\ a[1] = b[3] /\ a[3] = b[1] /\ a[1] # a[3]
     /\ Conflicts(a[2], b[4]) /\ Conflicts(b[2], a[4])
\* can request c of node state s deadlock with internal event e?
CanDeadlock(s, c, e) == ABBA(Prog(s, c), EventProg(e))

Running(t) == th[t].status = "run"
CanStep(t) == /\ Running(t) /\ th[t].pc <= Len(th[t].prog)
              /\ LET op == th[t].prog[th[t].pc] IN
                 op.k = "acq" => (CanAcq(lk, t, op) \/ (op.m = "W" /\ t \notin lk[op.l].q))
\* no reachable state in which a handler (or the daemon's own step) waits for a lock for ever
Inv_NoDeadlock == (\E t \in {1, 2} : Running(t)) => (\E t \in {1, 2} : CanStep(t))
\* every deadlock of the Conc machine is a lock-order inversion of the two programs
Inv_DeadlockIsABBA == ((\E t \in {1, 2} : Running(t)) /\ ~(\E t \in {1, 2} : CanStep(t))) => ABBA(th[1].prog, th[2].prog)
Inv_ConcNoLockLeft == (\A t \in {1, 2} : ~Running(t)) => NoLockLeft(lk)
=============================================================================
