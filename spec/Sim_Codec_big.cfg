INIT SimInit
NEXT SimNext
CONSTANTS
  MaxNodes = 10
  Types = {"group", "pair", "identity", "share", "info", "dbstate", "beacon", "badgroup"}
CHECK_DEADLOCK FALSE
