SPECIFICATION TraceSpec
CONSTANTS
  Max <- TraceMax
  Idx <- TraceIdx
  Rounds = {1}
  Prevs = {0}
INVARIANT AtEnd
CHECK_DEADLOCK FALSE
