SPECIFICATION SimSpec
CONSTANTS
  Nodes = {1, 2, 3}
  Epoch = 1
  JoinSet = {1, 2, 3}
  RemainSet = {}
  LeaveSet = {}
  Leader = 1
  Thr = 2
  Period = 3
  Genesis = 100
  TMin = 110
  TMax = 112
  LateSet = {}
  RankChoices <- SimRanks
  PermuteLists = TRUE
  AtomicGossip = FALSE
  AtomicExec = FALSE
  Depth = 120
  MaxDup = 4
CHECK_DEADLOCK FALSE
