SPECIFICATION SimSpec
CONSTANTS
  Nodes = {1, 2, 3}
  Epoch = 2
  JoinSet = {}
  RemainSet = {1, 2, 3}
  LeaveSet = {}
  Leader = 1
  Thr = 2
  Period = 3
  Genesis = 100
  TMin = 110
  TMax = 112
  LateSet = {}
  RankChoices <- SimRanks
  PermuteLists = TRUE
  AtomicGossip = FALSE
  AtomicExec = FALSE
  Depth = 200
  MaxDup = 4
CHECK_DEADLOCK FALSE
