SPECIFICATION SimSpec
CONSTANTS
  Nodes = {1, 2, 3, 4, 5}
  Epoch = 2
  JoinSet = {5}
  RemainSet = {1, 2, 3}
  LeaveSet = {4}
  Leader = 1
  Thr = 3
  Period = 3
  Genesis = 100
  TMin = 110
  TMax = 112
  LateSet = {}
  RankChoices <- SimRanks
  PermuteLists = TRUE
  AtomicGossip = FALSE
  AtomicExec = FALSE
  MaxDrop = 0
  DropKinds = {"D", "R", "J"}
  Offline = {}
  Depth = 330
  MaxDup = 4
  ShiftRanks = FALSE
CHECK_DEADLOCK FALSE
