SPECIFICATION SimSpec
CONSTANTS
  Nodes = {1, 2, 3, 4}
  Epoch = 2
  JoinSet = {4}
  RemainSet = {1, 2, 3}
  LeaveSet = {}
  Leader = 2
  Thr = 3
  Period = 3
  Genesis = 100
  TMin = 110
  TMax = 112
  LateSet = {}
  RankChoices <- SimRanks
  PermuteLists = TRUE
  AtomicGossip = TRUE
  AtomicExec = FALSE
  MaxDrop = 1
  DropKinds = {"D", "R"}
  Depth = 150
  MaxDup = 4
  ShiftRanks = TRUE
CHECK_DEADLOCK FALSE
