--------------------------- MODULE Sim_SyncClient ---------------------------
(* Behaviour generation (spec -> code): TLC -simulate draws a scenario (mode,  *)
(* scheme, start height, target, three peer behaviours, corruptions) and walks *)
(* the design model with the eager environment; the walk's environment steps   *)
(* (tick / request / aggregator put) are printed together with the scenario as *)
(* a JSON script that the Go harness replays on the real SyncManager.  The     *)
(* internal steps (permutation, item processing) are the code's own.           *)
EXTENDS MC_SyncClient, Json

CONSTANT Depth
VARIABLES hist, stage
svars == <<vars, hist, stage>>

PTSim == PTFull \o
  << <<"Honest", "Honest", 0, 6>>, <<"Honest", "Honest", 0, 3>>, <<"Stall", "Stall", 2, 6>>,
     <<"CloseEarly", "CloseEarly", 2, 6>>, <<"BadSig", "BadSig", 2, 6>>, <<"WrongRound", "WrongRound", 2, 6>>,
     <<"ForeignId", "ForeignId", 2, 6>>, <<"WrongRound", "Honest", 0, 6>>, <<"ForeignId", "Honest", 1, 6>>,
     <<"Honest", "Honest", 0, 6>>, <<"Honest", "Honest", 0, 5>> >>

SimInit ==
  /\ cfg = [mode |-> "unset"] /\ store = [r \in Rounds |-> "none"] /\ alast = 0 /\ slast = 0
  /\ called = [p \in Peers |-> FALSE] /\ tasks = [i \in 1..NT |-> FreeTask]
  /\ queue = <<>> /\ age = 3 /\ cur = 0 /\ ctxDone = FALSE /\ notif = 0 /\ agg = 0
  /\ drv = [phase |-> "unset", pin |-> "genuine", reported |-> {}, todo |-> <<>>, retried |-> FALSE, failed |-> {}, faults |-> 1]
  /\ obs = [kind |-> "init"] /\ hist = <<>> /\ stage = "choose"

\* RandomElement is re-evaluated at every use, so every draw is first stored in a variable
\* (one stage per dependent draw).
SimChoose1 ==
  /\ stage = "choose"
  /\ cfg' = [mode |-> RandomElement(Modes), chained |-> RandomElement(ChainedSet),
             ptype |-> [p \in Peers |-> RandomElement(1..Len(PT))]]
  /\ stage' = "choose2" /\ hist' = hist
  /\ UNCHANGED <<store, alast, slast, called, tasks, queue, age, cur, ctxDone, notif, agg, obs, drv>>

SimChoose2 ==
  /\ stage = "choose2"
  /\ cfg' = [mode |-> cfg.mode, chained |-> cfg.chained, ptype |-> cfg.ptype,
             start |-> IF cfg.mode = "repair" THEN RandomElement({2, 3, 4, 5}) ELSE RandomElement(Starts)]
  /\ stage' = "choose3" /\ hist' = hist
  /\ UNCHANGED <<store, alast, slast, called, tasks, queue, age, cur, ctxDone, notif, agg, obs, drv>>

SimChoose3 ==
  /\ stage = "choose3"
  /\ LET st == cfg.start IN
     cfg' = [mode |-> cfg.mode, chained |-> cfg.chained, ptype |-> cfg.ptype, start |-> st,
             target |-> IF cfg.mode = "repair" THEN RandomElement({st, st + 1, st - 1})
                        ELSE RandomElement({0} \cup ((st + 1)..MaxR)),
             pick |-> [r \in 1..st |-> IF cfg.mode = "repair" THEN RandomElement({"keep", "keep", "del", "bad"}) ELSE "keep"]]
  /\ stage' = "choose4" /\ hist' = hist
  /\ UNCHANGED <<store, alast, slast, called, tasks, queue, age, cur, ctxDone, notif, agg, obs, drv>>

SimChoose4 ==
  /\ stage = "choose4"
  /\ LET co == {<<r, cfg.pick[r]>> : r \in {x \in 1..cfg.start : cfg.pick[x] # "keep"}}
         s0 == InitStore(cfg.start, co)
     IN /\ cfg' = [mode |-> cfg.mode, chained |-> cfg.chained, start |-> cfg.start, target |-> cfg.target,
                   ptype |-> cfg.ptype, peers |-> [p \in Peers |-> PT[cfg.ptype[p]]], corrupt |-> co, store0 |-> s0]
        /\ store' = s0 /\ alast' = StoreHead(s0) /\ slast' = StoreHead(s0)
        /\ drv' = [drv EXCEPT !.phase = IF cfg.mode = "follow" THEN "start" ELSE IF cfg.mode = "repair" THEN "check" ELSE "run"]
  /\ stage' = "walk" /\ hist' = hist
  /\ UNCHANGED <<called, tasks, queue, age, cur, ctxDone, notif, agg, obs>>

SimChoose == SimChoose1 \/ SimChoose2 \/ SimChoose3 \/ SimChoose4

EnvLabel == IF obs'.kind \in {"tick", "request", "aggput"} THEN <<obs'.kind>> ELSE <<>>

SimStep ==
  /\ stage = "walk" /\ Len(hist) < Depth
  /\ Next
  /\ hist' = hist \o EnvLabel /\ stage' = stage

SimFinish ==
  /\ stage = "walk"
  /\ Len(hist) >= Depth \/ ~ENABLED Next
  /\ PrintT(<<"VP", "SCN", ToJson([mode |-> cfg.mode, chained |-> cfg.chained, start |-> cfg.start, target |-> cfg.target,
                                   peers |-> [p \in Peers |-> PT[cfg.ptype[p]]], corrupt |-> cfg.corrupt,
                                   env |-> hist, head |-> StoreHead(store)])>>)
  /\ stage' = "done" /\ UNCHANGED <<vars, hist>>

SimNext == SimChoose \/ SimStep \/ SimFinish
SimSpec == SimInit /\ [][SimNext]_svars
=============================================================================
