SPECIFICATION TraceSpec
CONSTANTS
  MaxNodes = 3
  Types = {"group", "pair", "identity", "share", "info", "dbstate", "beacon", "badgroup"}
INVARIANT AtEnd
CHECK_DEADLOCK FALSE
