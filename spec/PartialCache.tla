----------------------------- MODULE PartialCache -----------------------------
(***************************************************************************)
(* Line-by-line transcription of internal/chain/beacon/cache.go            *)
(* (partialCache / roundCache), the data structure that decides how many   *)
(* DISTINCT signer indices contributed to a (round, previous) pair (C03)   *)
(* and bounds the memory a single signer can occupy (C12).                 *)
(*                                                                         *)
(* cache = [rounds |-> [id -> [idx -> tag]], rcvd |-> [Idx -> Seq(id)]]    *)
(*   id  = <<round, prev>>   (roundID(round, previous))                    *)
(*   tag = identity of the partial whose bytes are kept for idx            *)
(* The operators are pure so that Trace_PartialCache can apply them to     *)
(* observed calls of the real code.                                        *)
(***************************************************************************)
EXTENDS Naturals, Sequences, FiniteSets, TLC

CONSTANTS Max,      \* MaxPartialsPerNode
          Idx,      \* signer indices
          Rounds,   \* round numbers used by the environment
          Prevs     \* previous-signature identities used by the environment

VARIABLES cache,   \* the data structure
          op       \* last operation (history variable; hidden by VIEW in exhaustive configs)

vars == <<cache, op>>

Ids == Rounds \X Prevs

Remove(f, k) == [x \in DOMAIN f \ {k} |-> f[x]]
EmptyFn == [x \in {} |-> 0]

EmptyCache == [rounds |-> EmptyFn, rcvd |-> [i \in Idx |-> <<>>]]

Rcvd(c, i) == IF i \in DOMAIN c.rcvd THEN c.rcvd[i] ELSE <<>>
SetRcvd(c, i, s) == [j \in (DOMAIN c.rcvd) \cup {i} |-> IF j = i THEN s ELSE c.rcvd[j]]

(* getCache(id, p): the round for id, created if needed.  Unless the signer already has a       *)
(* partial in that round, the per-signer limit is applied first: when the signer already has     *)
(* Max ids recorded its oldest one is evicted - for a new round AND for joining a round that     *)
(* another signer created (repair of F18: the limit used to be skipped for existing rounds).     *)
GetCache(c, idx, id) ==
  IF id \in DOMAIN c.rounds /\ idx \in DOMAIN c.rounds[id] THEN [c |-> c, ok |-> TRUE]
  ELSE
    LET ev == Head(Rcvd(c, idx))
        full == Len(Rcvd(c, idx)) >= Max
    IN IF full /\ ev \notin DOMAIN c.rounds
         THEN [c |-> c, ok |-> FALSE]            \* "evicted round missing from cache"
         ELSE LET c1 == IF ~full THEN c
                        ELSE LET sigs2 == Remove(c.rounds[ev], idx)     \* round.flushIndex(idx)
                                 r1 == IF DOMAIN sigs2 = {} THEN Remove(c.rounds, ev)
                                       ELSE [c.rounds EXCEPT ![ev] = sigs2]
                             IN [rounds |-> r1, rcvd |-> SetRcvd(c, idx, Tail(Rcvd(c, idx)))]   \* Append records id when it is stored
                  r2 == IF id \in DOMAIN c1.rounds THEN c1.rounds
                        ELSE [x \in (DOMAIN c1.rounds) \cup {id} |-> IF x = id THEN EmptyFn ELSE c1.rounds[x]]
              IN [c |-> [rounds |-> r2, rcvd |-> c1.rcvd], ok |-> TRUE]

(* partialCache.Append(p) where p has signer idx, id and bytes identity tag  *)
AppendOp(c, idx, id, tag) ==
  LET g == GetCache(c, idx, id) IN
  IF ~g.ok THEN [c |-> c, err |-> TRUE]
  ELSE LET c1 == g.c IN
       IF idx \in DOMAIN c1.rounds[id]
         THEN [c |-> c1, err |-> FALSE]          \* roundCache.append returned false
         ELSE [c |-> [rounds |-> [c1.rounds EXCEPT ![id] =
                                     [j \in (DOMAIN @) \cup {idx} |-> IF j = idx THEN tag ELSE @[j]]],
                      rcvd |-> SetRcvd(c1, idx, Append(Rcvd(c1, idx), id))],
               err |-> FALSE]

(* partialCache.FlushRounds(r)                                               *)
FlushOp(c, r) ==
  LET D == {id \in DOMAIN c.rounds : id[1] <= r}
      keep(i, x) == ~(x \in D /\ i \in DOMAIN c.rounds[x])
  IN [rounds |-> [id \in (DOMAIN c.rounds) \ D |-> c.rounds[id]],
      rcvd |-> [i \in DOMAIN c.rcvd |-> SelectSeq(c.rcvd[i], LAMBDA x : keep(i, x))]]

RoundLen(c, id) == IF id \in DOMAIN c.rounds THEN Cardinality(DOMAIN c.rounds[id]) ELSE 0

-----------------------------------------------------------------------------
(* Monitors (observable state only)                                          *)

RoundsHolding(c, i) == {id \in DOMAIN c.rounds : i \in DOMAIN c.rounds[id]}

\* C12: memory per signer is bounded whatever it sends.
SigsBounded(c) == \A i \in DOMAIN c.rcvd : Cardinality(RoundsHolding(c, i)) <= Max
RcvdBounded(c, k) == \A i \in DOMAIN c.rcvd : Len(c.rcvd[i]) <= k * Max
CacheBounded(c) == SigsBounded(c) /\ RcvdBounded(c, 3)

\* C12: a step that processes a partial of signer i never removes another
\* signer's partial from any round.
NoCrossEviction(pre, i, post) ==
  \A id \in DOMAIN pre.rounds : \A j \in DOMAIN pre.rounds[id] :
     j # i => (id \in DOMAIN post.rounds /\ j \in DOMAIN post.rounds[id] /\ post.rounds[id][j] = pre.rounds[id][j])

\* C03: what a round counts are distinct signer indices, and a duplicate from the
\* same signer never replaces or adds anything.
DuplicateIsNoOp(pre, i, id, post) ==
  (id \in DOMAIN pre.rounds /\ i \in DOMAIN pre.rounds[id]) => post = pre

\* Flush removes exactly the rounds <= r.
FlushExact(pre, r, post) ==
  /\ DOMAIN post.rounds = {id \in DOMAIN pre.rounds : id[1] > r}
  /\ \A id \in DOMAIN post.rounds : post.rounds[id] = pre.rounds[id]

-----------------------------------------------------------------------------
(* Design-level state machine (environment = any signer sends anything)      *)

Init == cache = EmptyCache /\ op = [kind |-> "init"]

DoAppend(i, id) ==
  LET r == AppendOp(cache, i, id, i) IN
  /\ cache' = r.c
  /\ op' = [kind |-> "append", idx |-> i, round |-> id[1], prev |-> id[2]]

DoFlush(r) == cache' = FlushOp(cache, r) /\ op' = [kind |-> "flush", round |-> r]

Next == \/ \E i \in Idx, id \in Ids : DoAppend(i, id)
        \/ \E r \in Rounds : DoFlush(r)

Spec == Init /\ [][Next]_vars
View == cache

TypeOK == /\ DOMAIN cache.rounds \subseteq Ids
          /\ \A id \in DOMAIN cache.rounds : DOMAIN cache.rounds[id] \subseteq Idx
          /\ \A id \in DOMAIN cache.rounds : DOMAIN cache.rounds[id] # {}

\* state constraint for the exhaustive multi-signer configs: with two cooperating signers
\* the per-signer id list grows without bound (see F18), so the model is cut here.
RcvdCut == \A i \in DOMAIN cache.rcvd : Len(cache.rcvd[i]) <= 2 * Max
Inv_CacheBounded == CacheBounded(cache)
\* the weaker bound the code does keep: the per-signer id list never exceeds 2*Max
Inv_SigsBounded == SigsBounded(cache)
Inv_RcvdBounded == RcvdBounded(cache, 3)

\* every id a signer holds a slot for is recorded in its rcvd list
Inv_Accounted == \A id \in DOMAIN cache.rounds : \A i \in DOMAIN cache.rounds[id] :
                    \E k \in DOMAIN cache.rcvd[i] : cache.rcvd[i][k] = id

Act_NoCrossEviction ==
  [][\A i \in Idx, id \in Ids :
        (cache' = AppendOp(cache, i, id, i).c) => NoCrossEviction(cache, i, cache')]_vars

Act_DuplicateIsNoOp ==
  [][\A i \in Idx, id \in Ids :
        (cache' = AppendOp(cache, i, id, i).c) => DuplicateIsNoOp(cache, i, id, cache')]_vars
=============================================================================
