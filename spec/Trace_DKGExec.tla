--------------------------- MODULE Trace_DKGExec ---------------------------
(***************************************************************************)
(* Validates executions of REAL dkg.Process networks (recorded by the      *)
(* overlay test TestVerifDKGExec) against DKGExec.tla.                      *)
(*                                                                         *)
(* Every recorded call is replayed with the specification's operators      *)
(* (ApplyPacket, EchoRecv, TransitionTime, IndexOf, BuildGroup's rules);    *)
(* differences between what the code did and what the specification says    *)
(* are `Conformance` alarms (model drift, never a verdict).  The monitors   *)
(* of C06 (SameGroup, OrderIndependent, OwnIndex, ShareOnPoly,              *)
(* ThresholdSigns) are evaluated on the OBSERVED values.                    *)
(***************************************************************************)
EXTENDS DKGExec, Json

TraceLog == ndJsonDeserialize("trace.ndjson")

VARIABLES l,        \* next line
          alarms,
          scen,     \* the Reset record of the running ceremony
          tprop,    \* the proposal (terms stored by the leader)
          tst,      \* node -> status (observed, adopted)
          tseen,    \* node -> set of packet ids the node has processed
          thash,    \* node -> set of bundles the node's echo broadcast knows
          tsent,    \* set of <<from, bundle, to>> observed sends
          texpect,  \* sends the echo rule requires
          tfin,     \* node -> observed group (+ completion window)
          twins     \* key set tag -> index map observed in an earlier ceremony over the same keys

tvars == <<vars, l, alarms, scen, tprop, tst, tseen, thash, tsent, texpect, tfin, twins>>

NoScen == [scenario |-> "none", class |-> "none", epoch |-> 0, nodes |-> <<>>, join |-> <<>>, remain |-> <<>>,
           leave |-> <<>>, leader |-> 0, thr |-> 0, period |-> 1, genesis |-> 0, rank |-> <<>>, late |-> <<>>,
           prevSeed |-> "none", scheme |-> "", twin |-> ""]

Has(e, f) == f \in DOMAIN e

SNodes == Range(scen.nodes)
SParts == Range(scen.join) \cup Range(scen.remain)
SLate == Range(scen.late)
SRank == [n \in SNodes |-> (CHOOSE p \in Range(scen.rank) : p[1] = n)[2]]
EmptyFn == [x \in {} |-> 0]
TRank == {EmptyFn}

Alarm(mon, e, detail, field, shape) ==
  [mon |-> mon, scenario |-> scen.scenario, class |-> scen.class, epoch |-> scen.epoch, ev |-> e.ev, line |-> l,
   detail |-> detail, field |-> field, shape |-> shape]
Conf(e, detail) == {Alarm("Conformance", e, detail, "", "")}
If(c, S) == IF c THEN S ELSE {}

\* terms as logged -> terms of the specification
TermsOf(x) == [epoch |-> x.epoch, thr |-> x.thr, period |-> x.period, genesis |-> x.genesis, seed |-> x.seed,
               joining |-> x.join, remaining |-> x.remain, leaving |-> x.leave, leader |-> x.leader]

TraceInit ==
  /\ Init
  /\ l = 1 /\ alarms = {} /\ scen = NoScen /\ tprop = NoTerms
  /\ tst = EmptyFn /\ tseen = EmptyFn /\ thash = EmptyFn /\ tsent = {} /\ texpect = {} /\ tfin = EmptyFn
  /\ twins = EmptyFn

StepReset(e) ==
  /\ e.ev = "Reset"
  /\ scen' = e
  \* the terms the leader is asked to propose
  /\ tprop' = [epoch |-> e.epoch, thr |-> e.thr, period |-> e.period, genesis |-> e.genesis, seed |-> e.prevSeed,
               joining |-> e.join, remaining |-> e.remain, leaving |-> e.leave, leader |-> e.leader]
  /\ LET ns == Range(e.nodes) old == Range(e.remain) \cup Range(e.leave) IN
     /\ tst' = [n \in ns |-> IF e.epoch = 2 /\ n \in old THEN "Prev" ELSE "Fresh"]
     /\ tseen' = [n \in ns |-> {}]
     /\ thash' = [n \in ns |-> {}]
  /\ tsent' = {} /\ texpect' = {} /\ tfin' = EmptyFn
  /\ alarms' = alarms /\ twins' = twins

\* ---- operator commands
StepCmd(e) ==
  /\ e.ev = "Cmd"
  /\ LET n == e.n
         pre == tst[n]
         expSt == CASE e.cmd = "propose" -> "Proposing"
                    [] e.cmd = "join" -> IF pre = "Proposed" /\ n \in Range(scen.join) THEN "Joined" ELSE pre
                    [] e.cmd = "accept" -> IF pre = "Proposed" /\ n \in Range(scen.remain) THEN "Accepted" ELSE pre
                    [] e.cmd = "execute" -> IF pre = "Proposing" THEN "Executing" ELSE pre
                    [] OTHER -> pre
         A1 == If(e.st # expSt, Conf(e, "status after command differs from the specification"))
         A2 == If(e.cmd = "propose" /\ TermsOf(e.terms) # tprop,
                  Conf(e, "leader stored other terms than it was asked to propose"))
         pid == CASE e.cmd = "propose" -> {PktP} [] e.cmd = "accept" -> {PktA(n)} [] e.cmd = "execute" -> {PktE} [] OTHER -> {}
     IN /\ alarms' = alarms \cup A1 \cup A2
        /\ tst' = [tst EXCEPT ![n] = e.st]
        /\ tseen' = IF e.st = expSt /\ e.st # pre THEN [tseen EXCEPT ![n] = @ \cup pid] ELSE tseen
        /\ tprop' = tprop
  /\ UNCHANGED <<scen, thash, tsent, texpect, tfin, twins>>

\* ---- Process.Packet
StepG(e) ==
  /\ e.ev = "G"
  /\ LET to == e.to
         pid == <<e.typ, e.origin>>
         \* a copy of a packet the node itself originated is known to it (SeenPackets is filled when it gossips)
         own == (e.typ \in {"P", "E"} /\ to = scen.leader) \/ (e.typ = "A" /\ e.origin = to)
         known == pid \in tseen[to] \/ own
         r == IF known \/ tprop = NoTerms THEN [ok |-> TRUE, st |-> tst[to], setup |-> FALSE, store |-> FALSE]
              ELSE ApplyPacket(to, pid, tst[to], tprop)
         A0 == If(~known /\ tprop = NoTerms, Conf(e, "gossip before any proposal"))
         A1 == If(e.ok # r.ok, Conf(e, IF known THEN "a packet already seen was not ignored" ELSE "result of Packet differs from ApplyPacket"))
         A2 == If(Has(e, "st") /\ e.st # (IF r.ok THEN r.st ELSE tst[to]), Conf(e, "status after Packet differs from ApplyPacket"))
         A3 == If(~known /\ r.ok /\ r.store /\ Has(e, "terms") /\ TermsOf(e.terms) # tprop,
                  Conf(e, "stored terms differ from the signed proposal"))
     IN /\ alarms' = alarms \cup A0 \cup A1 \cup A2 \cup A3
        /\ tst' = [tst EXCEPT ![to] = IF Has(e, "st") THEN e.st ELSE IF r.ok THEN r.st ELSE @]
        /\ tseen' = IF e.ok THEN [tseen EXCEPT ![to] = @ \cup {pid}] ELSE tseen
  /\ UNCHANGED <<scen, tprop, thash, tsent, texpect, tfin, twins>>

HasBoard(n) == tst[n] \in {"Executing", "Done", "Failed"}

\* ---- a node sends a bundle (own push or echo)
StepBSend(e) ==
  /\ e.ev = "BSend"
  /\ LET b == <<e.kind, e.origin>>
         m == <<e.from, b, e.to>>
         own == e.origin = e.from
         \* (a relay may be logged before the delivery that caused it: checked at End)
         A1 == {}
         A2 == If(m \in tsent, Conf(e, "the same bundle was sent twice to the same node"))
         A3 == If(e.kind \notin {"D", "R", "J"} \/ (e.kind = "J" /\ (own /\ ~NeedJust(e.from, tprop, SLate))),
                  Conf(e, "bundle outside the black-box envelope (a complaint was raised against a timely dealer)"))
     IN /\ alarms' = alarms \cup A1 \cup A2 \cup A3
        /\ tsent' = tsent \cup {m}
        /\ thash' = IF own THEN [thash EXCEPT ![e.from] = @ \cup {b}] ELSE thash
        /\ texpect' = IF own /\ e.from \notin SLate
                        THEN texpect \cup {<<e.from, b, x>> : x \in SParts \ {e.from}} ELSE texpect
  /\ UNCHANGED <<scen, tprop, tst, tseen, tfin, twins>>

\* ---- echoBroadcast.BroadcastDKG
StepB(e) ==
  /\ e.ev = "B"
  /\ LET to == e.to
         b == <<e.kind, e.origin>>
         r == EchoRecv(IF HasBoard(to) THEN "setup" ELSE "idle", thash[to], b)
         A1 == If(e.ok # ~r.lost, Conf(e, "bundle refused/accepted differently from EchoRecv (board)"))
         \* (a node knows its own bundle from the moment it pushes it; the push may be logged a moment later)
         A2 == If(~r.lost /\ e.ok /\ e.known # (b \in thash[to] \/ e.origin = to), Conf(e, "dedupe by hash differs from EchoRecv"))
         A3 == If(~r.lost /\ e.ok /\ ~e.after, Conf(e, "bundle not remembered after delivery"))
     IN /\ alarms' = alarms \cup A1 \cup A2 \cup A3
        /\ thash' = IF e.ok /\ e.after THEN [thash EXCEPT ![to] = @ \cup {b}] ELSE thash
        \* every NEW bundle is re-sent once to everybody else
        /\ texpect' = IF e.ok /\ ~e.known /\ e.after /\ to \notin SLate
                        THEN texpect \cup {<<to, b, x>> : x \in SParts \ {to}} ELSE texpect
  /\ UNCHANGED <<scen, tprop, tst, tseen, tsent, tfin, twins>>

\* ---- completion
ObsGroup(e) == [members |-> Range(e.members), thr |-> e.thr, period |-> e.period, genesis |-> e.genesis,
                transition |-> e.transition, pk |-> e.pk, scheme |-> e.scheme, seed |-> e.seed]

\* the transition time is the specification's function of SOME clock reading inside the node's completion window
LocalClockExplains(e) ==
  \E now \in e.nowLo..e.nowHi : e.transition = TransitionTime(scen.epoch, scen.period, scen.genesis, now)

StepComplete(e) ==
  /\ e.ev = "Complete"
  /\ IF Has(e, "broken")
       THEN /\ alarms' = alarms \cup {Alarm("OwnIndex", e, "finished state without group or share", "", "")}
            /\ UNCHANGED <<tfin, tst, twins>>
       ELSE
       LET n == e.n
           g == ObsGroup(e)
           explained == LocalClockExplains(e)
           \* conformance with asGroup / startDKGExecution
           C1 == If(tprop # NoTerms /\ (e.thr # tprop.thr \/ e.period # tprop.period \/ e.genesis # tprop.genesis),
                    Conf(e, "threshold/period/genesis of the group differ from the stored terms"))
           C2 == If(~explained, Conf(e, "transition time is not TimeOfRound(CurrentRound(local now)+10)"))
           C3 == If((scen.epoch = 1 /\ ~e.seedIsHash) \/ (scen.epoch = 2 /\ e.seed # scen.prevSeed) \/ e.stateSeed # e.seed,
                    Conf(e, "genesis seed rule"))
           C4 == If({m[1] : m \in g.members} # SParts \ SLate, Conf(e, "QUAL differs from the black-box prediction"))
           C5 == If(e.ncoef # e.thr \/ e.scheme # scen.scheme \/ e.epoch # scen.epoch, Conf(e, "public polynomial degree / scheme / epoch"))
           \* monitors
           C6 == If(~IndexIsRank(g.members, SParts, SRank), Conf(e, "member indices are not the positions of the keys in sorted order"))
           M1 == If(~OwnIndex(n, g.members, e.shareIdx),
                    {Alarm("OwnIndex", e, "the node is not a member of its own group at the index of its share", "", "")})
           hasTwin == scen.twin \in DOMAIN twins
           M2 == If(hasTwin /\ ~OrderIndependent(g.members, twins[scen.twin]),
                    {Alarm("OrderIndependent", e, "the same keys listed in another order got other indices", "", "")})
           M3 == If(~e.onPoly, {Alarm("ShareOnPoly", e, "share.V*G differs from the group's public polynomial at the share index", "", "")})
           M4 == UNION {
                   {Alarm("SameGroup", e, "nodes hold different groups", f,
                          IF f = "TransitionTime"
                            THEN (IF explained /\ tfin[a].explained THEN "completion-straddles-round-boundary" ELSE "not-from-local-clock")
                            ELSE "none")
                      : f \in DiffFields(g, tfin[a].g)}
                   : a \in DOMAIN tfin}
           \* C07: a completed resharing keeps what clients pinned (distributed key, genesis time and seed, period, scheme)
           M6 == If(scen.epoch = 2 /\ Has(scen, "prevDk") /\ Has(e, "dk"),
                    UNION {If(e.dk # scen.prevDk, {Alarm("IdentityKept", e, "the resharing changed the distributed public key", "PublicKey", "")}),
                           If(e.seed # scen.prevSeed, {Alarm("IdentityKept", e, "the resharing changed the genesis seed", "GenesisSeed", "")}),
                           If(e.genesis # scen.genesis, {Alarm("IdentityKept", e, "the resharing changed the genesis time", "GenesisTime", "")}),
                           If(e.period # scen.period, {Alarm("IdentityKept", e, "the resharing changed the period", "Period", "")}),
                           If(e.scheme # scen.scheme, {Alarm("IdentityKept", e, "the resharing changed the scheme", "Scheme", "")})})
       IN /\ alarms' = alarms \cup C1 \cup C2 \cup C3 \cup C4 \cup C5 \cup C6 \cup M1 \cup M2 \cup M3 \cup M4 \cup M6
          /\ tfin' = [x \in (DOMAIN tfin) \cup {n} |-> IF x = n THEN [g |-> g, explained |-> explained] ELSE tfin[x]]
          /\ tst' = [tst EXCEPT ![n] = "Done"]
          /\ twins' = IF hasTwin THEN twins
                       ELSE [x \in (DOMAIN twins) \cup {scen.twin} |-> IF x = scen.twin THEN g.members ELSE twins[x]]
  /\ UNCHANGED <<scen, tprop, tseen, thash, tsent, texpect>>

StepFail(e) ==
  /\ e.ev = "Fail"
  /\ alarms' = alarms \cup If(e.n \notin SLate, Conf(e, "a node that is not late failed"))
  /\ tst' = [tst EXCEPT ![e.n] = "Failed"]
  /\ UNCHANGED <<scen, tprop, tseen, thash, tsent, texpect, tfin, twins>>

StepEnd(e) ==
  /\ e.ev = "End"
  /\ LET ab == e.aborted # ""
         A0 == If(ab, {Alarm("Aborted", e, e.aborted, "", "")})
         A1 == If(~ab /\ Range(e.done) # SParts \ SLate, Conf(e, "not exactly the timely participants completed"))
         A2 == If(~ab /\ ~(texpect \subseteq tsent), Conf(e, "echo broadcast did not re-send every new bundle to everybody"))
         A3 == If(\E m \in tsent : m[2][2] # m[1] /\ m[2] \notin thash[m[1]], Conf(e, "a node relayed a bundle it never received"))
         M5 == If(~e.signs \/ ~e.partialsOk,
                  {Alarm("ThresholdSigns", e, "a threshold subset of the shares does not produce a signature valid under the group key", "", "")})
     IN alarms' = alarms \cup A0 \cup A1 \cup A2 \cup A3 \cup M5
  /\ UNCHANGED <<scen, tprop, tst, tseen, thash, tsent, texpect, tfin, twins>>

StepOther(e) ==
  /\ e.ev \in {"Start", "Tick", "Skip", "CmdRet", "BDrop"}
  /\ UNCHANGED <<alarms, scen, tprop, tst, tseen, thash, tsent, texpect, tfin, twins>>

TraceNext ==
  /\ l <= Len(TraceLog)
  /\ LET e == TraceLog[l] IN
       StepReset(e) \/ StepCmd(e) \/ StepG(e) \/ StepBSend(e) \/ StepB(e) \/ StepComplete(e) \/ StepFail(e) \/ StepEnd(e) \/ StepOther(e)
  /\ l' = l + 1
  /\ UNCHANGED vars

TraceSpec == TraceInit /\ [][TraceNext]_tvars

AtEnd == l = Len(TraceLog) + 1 =>
           /\ PrintT(<<"VP", "ALARMS", ToJson(alarms)>>)
           /\ PrintT(<<"VP", "DONE", ToJson([lines |-> Len(TraceLog)])>>)
=============================================================================
