SPECIFICATION Spec
CONSTANTS
  Kinds = {"bolt","trimmed","trimmedc","memdb"}
  K = 3
  Rounds = {0,1,2,3,4}
  Vals = {0,1}
  MaxPos = 5
  MutInCursor = FALSE
  Depth = 0
INVARIANTS Inv_Cover
PROPERTIES Act_ModuloNamed
VIEW View
