--------------------------- MODULE Apa_RoundTime ---------------------------
(***************************************************************************)
(* RoundTime.tla on the REAL machine (64-bit words, 36-bit buffer), for    *)
(* apalache-mc (unbounded integers through SMT; TLC integers are 32-bit).  *)
(* Used for three things, all with --length=0:                             *)
(*  1. Lemma_SmallIsExact: justifies Mon_NoWrapSmall used by the TLC trace  *)
(*     spec for values below 2^31;                                         *)
(*  2. boundary witnesses: a generated query module asks for inputs in the  *)
(*     classes below (just below / at / above the coded guard, period+1 a  *)
(*     power of two, instants exactly on a round boundary, 2^50 s after    *)
(*     genesis, products that wrap, ...); the Go harness runs them on the   *)
(*     real functions;                                                     *)
(*  (3. observed 64-bit calls are judged with Apa_RoundTimeJudge.tla.)      *)
(***************************************************************************)
EXTENDS Integers, Sequences
T == INSTANCE Apa_RoundTimeTables

VARIABLES
  \* @type: Int;
  p,
  \* @type: Int;
  g,
  \* @type: Str;
  kind,
  \* @type: Int;
  arg,
  \* @type: Seq(Int);
  res

\* For queries with SYMBOLIC periods a sequence literal indexed by the exponent and a CHOOSE
\* are much cheaper than the literal chains of Apa_RoundTimeTables (which are made to fold
\* on literal arguments and are used for judging); Lemma_Tables pins both.
\* @type: Seq(Int);
Tbl == <<
  1, 2, 4, 8,
  16, 32, 64, 128,
  256, 512, 1024, 2048,
  4096, 8192, 16384, 32768,
  65536, 131072, 262144, 524288,
  1048576, 2097152, 4194304, 8388608,
  16777216, 33554432, 67108864, 134217728,
  268435456, 536870912, 1073741824, 2147483648,
  4294967296, 8589934592, 17179869184, 34359738368,
  68719476736, 137438953472, 274877906944, 549755813888,
  1099511627776, 2199023255552, 4398046511104, 8796093022208,
  17592186044416, 35184372088832, 70368744177664, 140737488355328,
  281474976710656, 562949953421312, 1125899906842624, 2251799813685248,
  4503599627370496, 9007199254740992, 18014398509481984, 36028797018963968,
  72057594037927936, 144115188075855872, 288230376151711744, 576460752303423488,
  1152921504606846976, 2305843009213693952, 4611686018427387904, 9223372036854775808,
  18446744073709551616, 36893488147419103232 >>
Pow2(k) == Tbl[k + 1]
FloorLog2(x) == CHOOSE k \in 0..63 : Pow2(k) <= x /\ x < Pow2(k + 1)

INSTANCE RoundTime WITH WordBits <- 64, BufBits <- 36,   \* Pow2, FloorLog2: the literal tables above
                        Periods <- {1}, Geneses <- {0}, RoundArgs <- {0}, Elapsed <- {0}

\* the domain of the statement
MaxPeriod == Pow2(32) - 1
MaxGenesis == Pow2(32)
MaxElapsed == Pow2(50)
InDomain(pp, gg) == 1 <= pp /\ pp <= MaxPeriod /\ 0 <= gg /\ gg <= MaxGenesis

-----------------------------------------------------------------------------
(* 1. lemmas (one call: --init=LemmaInit --inv=Lemmas)                       *)
Small == Pow2(30)
LemmaInit == /\ p \in 1..Small /\ g \in 0..(2 * Small - 1) /\ arg \in 1..MaxU
             /\ kind = "lemma" /\ res = <<>>
LemmaNext == UNCHANGED <<p, g, kind, arg, res>>
\* the TLC trace spec only sees calls with p, r+1 <= 2^30 and genesis and every time below 2^31:
\* such a round is below the guard of its period and such a time is below the buffer
Lemma_SmallIsExact == (arg <= Small + 1 => arg < Guard(p)) /\ 2 * Small < ErrVal
\* the literal tables are what they must be (arg ranges over every uint64 here)
Lemma_Tables == /\ PowOK /\ LogOK(arg) /\ MaxU = 18446744073709551615 /\ ErrVal = 9223371968135299071
                /\ T!FloorLog2(arg) = FloorLog2(arg)
Lemmas == Lemma_SmallIsExact /\ Lemma_Tables

-----------------------------------------------------------------------------
(* 2. boundary classes (predicates over period, genesis, argument)           *)

\* round arguments
R_BelowGuard(pp, gg, r) == r = Guard(pp) - 1
R_TwoBelowGuard(pp, gg, r) == r = Guard(pp) - 2
R_AtGuard(pp, gg, r) == r = Guard(pp)
R_AboveGuard(pp, gg, r) == r = Guard(pp) + 1
\* where a guard that is one bit too weak / too strict would first differ
R_DoubleGuard(pp, gg, r) == r = 2 * Guard(pp)
R_DoubleGuardM2(pp, gg, r) == r = 2 * Guard(pp) - 2
R_HalfGuard(pp, gg, r) == r = (Guard(pp) \div 2) + 1
R_Pow2m1BelowGuard(pp, gg, r) == (\E k \in 1..32 : pp + 1 = Pow2(k)) /\ r = Guard(pp) - 1
R_Pow2m1AtGuard(pp, gg, r) == (\E k \in 1..32 : pp + 1 = Pow2(k)) /\ r = Guard(pp)
R_Pow2BelowGuard(pp, gg, r) == (\E k \in 0..31 : pp = Pow2(k)) /\ r = Guard(pp) - 1
R_Pow2AtGuard(pp, gg, r) == (\E k \in 0..31 : pp = Pow2(k)) /\ r = Guard(pp)
R_MaxPeriodBelowGuard(pp, gg, r) == pp = MaxPeriod /\ r = Guard(pp) - 1
R_MaxPeriodMaxGenesis(pp, gg, r) == pp = MaxPeriod /\ gg = MaxGenesis /\ r = Guard(pp) - 1
R_Pow2m2MaxGenesis(pp, gg, r) == (\E k \in 2..32 : pp + 2 = Pow2(k)) /\ gg = MaxGenesis /\ r = Guard(pp) - 1
R_Max(pp, gg, r) == r = MaxU - 1
R_HalfMax(pp, gg, r) == r = MaxI
R_HalfMaxP1(pp, gg, r) == r = MaxI + 1
R_Zero(pp, gg, r) == r = 0
R_One(pp, gg, r) == r = 1
R_Two(pp, gg, r) == r = 2
R_AtElapsedMax(pp, gg, r) == (r - 1) * pp <= MaxElapsed /\ MaxElapsed < r * pp
R_BetweenGuardAndLimit(pp, gg, r) == r >= Guard(pp) /\ r < 2 * Guard(pp)
R_ProductWraps(pp, gg, r) == pp >= 4 /\ (r - 1) * pp >= MaxU + 1 /\ r <= MaxU - 1
R_ProductWrapsSmall(pp, gg, r) == pp >= 3 /\ (r - 1) * pp >= MaxU + 1 /\ U((r - 1) * pp) < Pow2(40) /\ r <= MaxU - 1
R_ProductNegative(pp, gg, r) == (r - 1) * pp > MaxI /\ (r - 1) * pp <= MaxU /\ r <= MaxU - 1
R_AboveBufferBelowGuard(pp, gg, r) == gg + (r - 1) * pp > ErrVal /\ r < Guard(pp) /\ r >= 1
R_JustAboveBuffer(pp, gg, r) == gg + (r - 1) * pp > ErrVal /\ gg + (r - 2) * pp <= ErrVal

\* instants
T_Genesis(pp, gg, t) == t = gg
T_GenesisP1(pp, gg, t) == t = gg + 1
T_OnBoundaryFar(pp, gg, t) == t - gg >= Pow2(49) /\ t - gg <= MaxElapsed /\ (t - gg) % pp = 0
T_BeforeBoundaryFar(pp, gg, t) == t - gg >= Pow2(49) /\ t - gg <= MaxElapsed /\ (t - gg) % pp = pp - 1
T_AfterBoundaryFar(pp, gg, t) == pp > 1 /\ t - gg >= Pow2(49) /\ t - gg <= MaxElapsed /\ (t - gg) % pp = 1
T_MaxElapsed(pp, gg, t) == t = gg + MaxElapsed
T_MaxElapsedM1(pp, gg, t) == t = gg + MaxElapsed - 1
T_MaxAll(pp, gg, t) == pp = MaxPeriod /\ gg = MaxGenesis /\ t = gg + MaxElapsed
T_BigPeriodBoundary(pp, gg, t) == pp >= Pow2(31) /\ t - gg >= Pow2(48) /\ t - gg <= MaxElapsed /\ (t - gg) % pp = 0
T_BigPeriodBefore(pp, gg, t) == pp >= Pow2(31) /\ t - gg >= Pow2(48) /\ t - gg <= MaxElapsed /\ (t - gg) % pp = pp - 1
T_Pow2m1Boundary(pp, gg, t) == (\E k \in 1..32 : pp + 1 = Pow2(k)) /\ t - gg >= Pow2(45) /\ t - gg <= MaxElapsed /\ (t - gg) % pp = 0
T_Pow2m1Before(pp, gg, t) == (\E k \in 2..32 : pp + 1 = Pow2(k)) /\ t - gg >= Pow2(45) /\ t - gg <= MaxElapsed /\ (t - gg) % pp = pp - 1
T_PeriodOneFar(pp, gg, t) == pp = 1 /\ t - gg >= Pow2(49) /\ t - gg <= MaxElapsed
T_FirstPeriod(pp, gg, t) == t - gg < pp /\ t - gg >= pp - 1
T_SecondPeriod(pp, gg, t) == t - gg = pp
T_Beyond32(pp, gg, t) == t - gg >= Pow2(32) /\ t - gg <= Pow2(33) /\ (t - gg) % pp = 0

=============================================================================
