SPECIFICATION Spec
CONSTANTS
  Chained = FALSE
  MaxRound = 3
  Sigs = {0, 1, 2}
INVARIANTS Inv_GapFree Inv_Linked Inv_LastIsHead
PROPERTIES Act_WriteOnce
VIEW View
