SPECIFICATION Spec
CONSTANTS
  Pow2 <- MCPow2
  FloorLog2 <- MCFloorLog2
  WordBits = 12
  BufBits = 8
  Periods <- WordPeriods
  Geneses <- WordGeneses
  RoundArgs <- WordRounds
  Elapsed <- WordElapsed
INVARIANTS Inv_Tables Inv_Judge Inv_CurrentUnique Inv_CurrentSchedule Inv_Next Inv_Monotone Inv_NoWrap Inv_Ideal
CHECK_DEADLOCK FALSE
