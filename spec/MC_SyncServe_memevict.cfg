SPECIFICATION Spec
CONSTANTS
  Streams = {1}
  SameAddr = FALSE
  Writers = {1}
  Q = 2
  InitHead = 4
  MaxR = 7
  Froms = {1, 3}
  Backend = "mem"
  Buf = 4
  Remap = FALSE
  Faults = {}
  MaxFaults = 0
INVARIANTS TypeOK Inv_SentStored Mon_InOrder Mon_ScanNoGap
CHECK_DEADLOCK FALSE
