SPECIFICATION Spec
CONSTANTS
  Streams = {1}
  SameAddr = FALSE
  Writers = {1}
  Q = 2
  InitHead = 2
  MaxR = 5
  Froms = {1, 2}
  Backend = "mem"
  Buf = 4
  Remap = FALSE
  Faults = {}
  MaxFaults = 0
INVARIANTS TypeOK Inv_SentStored Mon_InOrder Mon_FromStart Mon_NoGap
CHECK_DEADLOCK FALSE
