SPECIFICATION TraceSpec
CONSTANTS
  Peers = {1}
  MaxR = 8
  PT = PT
  Modes = {"run"}
  ChainedSet = {TRUE}
  Starts = {0}
  Targets = {0}
  Corruptions = Corruptions
  NT = 1
  FollowRetries = TRUE
  FollowAppend = TRUE
  ResyncChecksRound = TRUE
  ResyncDeletesFirst = FALSE
  CheckZeroIsClock = FALSE
  Aborts = FALSE
  PinsOperatorHash = TRUE
  MaxAgg = 0
  QCap = 3
  Linger = TRUE
  History = TRUE
  Eager = FALSE
INVARIANT AtEnd
CHECK_DEADLOCK FALSE
