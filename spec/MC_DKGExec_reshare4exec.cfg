SPECIFICATION Spec
CONSTANTS
  Nodes = {1, 2, 3, 4}
  Epoch = 2
  JoinSet = {}
  RemainSet = {1, 2, 3, 4}
  LeaveSet = {}
  Leader = 3
  Thr = 3
  Period = 3
  Genesis = 100
  TMin = 110
  TMax = 110
  LateSet = {}
  RankChoices <- RotRank
  PermuteLists = FALSE
  AtomicGossip = TRUE
  AtomicExec = FALSE
  MaxDrop = 0
  DropKinds = {"D", "R", "J"}
  Offline = {}
INVARIANTS TypeOK Inv_SameTerms Inv_OrderIndependent Inv_OwnIndex Inv_SameQual Inv_NoLoss Inv_EchoHeals Inv_SameGroupButTransition Inv_SameGroup
VIEW View
CHECK_DEADLOCK FALSE
