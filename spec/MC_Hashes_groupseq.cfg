SPECIFICATION Spec
CONSTANTS
  Family = "groupseq"
  Periods = {3}
  Geneses = {1600000000, 1600000030}
  Firsts = {"A", "B"}
  Seeds = {"S1"}
  Ids = {"", "a"}
  NodeIdx = {0, 1}
  NodeKeys = {"N1", "N2"}
  MaxNodes = 2
  Transitions = {0, 1600003000}
  Rests = {"x"}
INVARIANTS TypeOK Inv_PerturbChanges Inv_DefaultIdEquivalent Inv_PermuteKeeps Inv_SeqFrozen Inv_SeqFrozenChain
VIEW View
CHECK_DEADLOCK FALSE
