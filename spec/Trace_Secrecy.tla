--------------------------- MODULE Trace_Secrecy ---------------------------
(***************************************************************************)
(* Validates executions of the real code recorded by the overlay tests     *)
(* TestVerifSecrecyDKG (internal/dkg) and TestVerifSecrecyDaemon           *)
(* (internal/core) against Secrecy.tla.                                    *)
(*                                                                         *)
(*  Emit  - one message / response / stream item / HTTP body / log line a  *)
(*          node produced, with the byte-scan oracle's verdict (secret =   *)
(*          a long-term private key or a share was found, sens = a plain   *)
(*          deal share was found).  The emitter must be in the Inventory   *)
(*          of the specification (else UnknownEmitter = model drift); the  *)
(*          monitors NoSecretEmitted / OnlyPublicOrEncrypted are evaluated *)
(*          on the observed verdict.                                       *)
(*  File  - mode and content class of a file after a persistence step.     *)
(*          Monitor SecretFileOwnerOnly on the observed values; in "files" *)
(*          scenarios (replays of TLC walks) the observed file is compared *)
(*          with the file machine of the specification (Conformance); in   *)
(*          the others with the content table and the requested            *)
(*          permission under the scenario's umask.                         *)
(*  Step  - a high level step of a replayed walk: the specification's file *)
(*          program is run on the predicted file system.                   *)
(*  SelfTest - positive control of the scan, one per encoding.             *)
(***************************************************************************)
EXTENDS Secrecy, Json

TraceLog == ndJsonDeserialize("trace.ndjson")

VARIABLES l, alarms, scen, cls, um, F, seen, fseen, cases

tvars == <<node, fs, io, umask, last, l, alarms, scen, cls, um, F, seen, fseen, cases>>

EmptyFS == [k \in FileKinds |-> NoFile]

Alarm(mon, e, where, detail) == [mon |-> mon, scenario |-> scen, ev |-> e.ev, line |-> l, where |-> where, detail |-> detail]

Range(s) == {s[k] : k \in DOMAIN s}
(* "Share/hex:Share:n2:e1" -> "Share/hex" would need string slicing; the harness logs hits as <<class/enc:name>>
   and the first hit is reported verbatim in the text, the signature uses the class carried by the flags *)
FirstHit(e) == IF e.hits = <<>> THEN "-" ELSE e.hits[1]

Access(mode) == IF Bit(mode, 4) = 1 \/ Bit(mode, 2) = 1 THEN "world-accessible" ELSE "group-accessible"

TraceInit == /\ Init
             /\ l = 1 /\ alarms = {} /\ scen = "none" /\ cls = "none" /\ um = 18
             /\ F = EmptyFS /\ seen = {} /\ fseen = {} /\ cases = {}

StepReset(e) ==
  /\ e.ev = "Reset"
  /\ scen' = e.scenario /\ cls' = e.class /\ um' = e.umask
  /\ F' = EmptyFS
  /\ UNCHANGED <<alarms, seen, fseen>>

(* the file program of a high level step, from the specification *)
ProgOf(e) ==
  CASE e.op = "PreCreate"   -> <<>>
    [] e.op = "GenerateKey" -> ProgGenerateKey(e.node)
    [] e.op = "StartDaemon" -> ProgStartDaemon(e.node, e.epoch)
    [] e.op = "StopDaemon"  -> <<>>
    [] e.op = "Propose"     -> ProgPropose(e.node, e.epoch)
    [] e.op = "Complete"    -> ProgComplete(e.node, e.epoch)       \* e.epoch = the epoch just finished
    [] e.op = "Beacon"      -> BoltOpen("chain.db", ChainDbPerm) \o ProgBeacon(e.node, e.epoch)
    [] e.op = "Backup"      -> ProgBackup(e.node, e.epoch)
    [] OTHER -> <<>>

StepStep(e) ==
  /\ e.ev = "Step"
  /\ LET F1 == IF e.op = "PreCreate" THEN [F EXCEPT ![e.k] = [ex |-> TRUE, mode |-> e.m, atoms |-> {}]] ELSE F
     IN F' = RunProgram(F1, ProgOf(e), um)
  /\ alarms' = alarms \cup (IF e.err # "" THEN {Alarm("StepFailed", e, e.op, e.err)} ELSE {})
  /\ UNCHANGED <<scen, cls, um, seen, fseen>>

StepEmit(e) ==
  /\ e.ev = "Emit"
  /\ LET A1 == IF e.key \notin Inventory THEN {Alarm("UnknownEmitter", e, e.key, "not in Inventory")} ELSE {}
         \* the monitors of the specification on the observed emission (atoms as seen by the oracle)
         obs == [key |-> e.key, from |-> e.node,
                 atoms |-> (IF e.secret THEN {PrivKey(e.node)} ELSE {}) \cup (IF e.sens THEN {DealShare(e.node, 0, 0)} ELSE {})]
         A2 == IF ~EmissionClean(obs) THEN {Alarm("NoSecretEmitted", e, e.key, FirstHit(e))} ELSE {}
         A3 == IF EmissionClean(obs) /\ ~EmissionAllowed(obs) THEN {Alarm("OnlyPublicOrEncrypted", e, e.key, FirstHit(e))} ELSE {}
         \* positive control of the deal-share scan: a justification publishes the plain sub-share by design
         A4 == IF e.key = "dkg.bcast/Justification" /\ ~e.err /\ ~e.sens
                 THEN {Alarm("ScannerBlind", e, e.key, "the scan does not find the deal share a justification publishes")} ELSE {}
     IN alarms' = alarms \cup A1 \cup A2 \cup A3 \cup A4
  /\ seen' = seen \cup {e.key}
  /\ cases' = IF "case" \in DOMAIN e THEN cases \cup {e.key \o " " \o e.case} ELSE cases      \* the refusal path that was driven
  /\ UNCHANGED <<scen, cls, um, F, fseen>>

StepFile(e) ==
  /\ e.ev = "File"
  /\ LET known == e.kind \in FileKinds
         obs == [ex |-> e.ex, mode |-> e.mode, atoms |-> IF e.holds THEN {PrivKey(e.node)} ELSE {}]
         \* monitor on the observed file
         A1 == IF ~FileOwnerOnly(obs) THEN {Alarm("SecretFileOwnerOnly", e, e.kind, Access(e.mode))} ELSE {}
         \* replayed walk: the file machine of the specification predicts existence, mode and content class
         P == IF known THEN F[e.kind] ELSE NoFile
         A2 == IF e.cmp /\ known /\ P.ex # e.ex THEN {Alarm("Conformance", e, e.kind, "existence differs from the file machine")} ELSE {}
         A3 == IF e.cmp /\ known /\ P.ex /\ e.ex /\ P.mode # e.mode THEN {Alarm("Conformance", e, e.kind, "mode differs from the file machine")} ELSE {}
         A4 == IF e.cmp /\ known /\ P.ex /\ e.ex /\ (HoldsSecret(P) # e.holds)
                 THEN {Alarm(IF e.holds THEN "Conformance" ELSE "ScannerBlind", e, e.kind, "secret content differs from the file machine")} ELSE {}
         \* free runs: content table and requested permission
         exp == known /\ ExpectHolds(e.node, e.kind, e.epoch)
         A5 == IF ~e.cmp /\ e.ex /\ known /\ exp /\ ~e.holds /\ e.size > 0
                 THEN {Alarm("ScannerBlind", e, e.kind, "the scan does not find the secret the code stores here")} ELSE {}
         A6 == IF ~e.cmp /\ e.ex /\ e.holds /\ ~exp
                 THEN {Alarm("Conformance", e, e.kind, "a secret in a file the specification does not expect it in")} ELSE {}
         A7 == IF ~e.cmp /\ e.ex /\ known /\ e.mode # AndNot(ReqPerm(e.kind), um) /\ e.mode # ReqPerm(e.kind)
                 THEN {Alarm("Conformance", e, e.kind, "mode is not the requested permission under the umask")} ELSE {}
     IN alarms' = alarms \cup A1 \cup A2 \cup A3 \cup A4 \cup A5 \cup A6 \cup A7
  /\ fseen' = IF e.ex THEN fseen \cup {e.kind} ELSE fseen
  /\ UNCHANGED <<scen, cls, um, F, seen>>

StepSelfTest(e) ==
  /\ e.ev = "SelfTest"
  /\ alarms' = alarms \cup (IF ~e.hit \/ ~e.clean THEN {Alarm("ScannerBlind", e, e.enc, "positive control failed")} ELSE {})
  /\ UNCHANGED <<scen, cls, um, F, seen, fseen>>

(* every deal that crossed the network decrypts under a recipient's long-term key and is not plain *)
StepDeals(e) ==
  /\ e.ev = "Deals"
  /\ alarms' = alarms \cup (IF e.plain > 0 THEN {Alarm("OnlyPublicOrEncrypted", e, "dkg.bcast/Deal", "plain deal share inside the deal")} ELSE {})
                      \cup (IF e.decrypted # e.seen THEN {Alarm("Conformance", e, "dkg.bcast/Deal", "a deal does not decrypt under any node's key")} ELSE {})
  /\ UNCHANGED <<scen, cls, um, F, seen, fseen>>

StepAbort(e) ==
  /\ e.ev = "Abort"
  /\ alarms' = alarms \cup {Alarm("ScenarioAborted", e, e.scenario, e.why)}
  /\ UNCHANGED <<scen, cls, um, F, seen, fseen>>

StepOther(e) ==
  /\ e.ev \in {"End", "Note"}
  /\ UNCHANGED <<alarms, scen, cls, um, F, seen, fseen>>

TraceNext ==
  /\ l <= Len(TraceLog)
  /\ LET e == TraceLog[l] IN
       StepReset(e) \/ StepStep(e) \/ StepEmit(e) \/ StepFile(e) \/ StepSelfTest(e) \/ StepDeals(e) \/ StepAbort(e) \/ StepOther(e)
  /\ l' = l + 1
  /\ (IF TraceLog[l].ev = "Emit" THEN TRUE ELSE UNCHANGED cases)
  /\ UNCHANGED <<node, fs, io, umask, last>>

TraceSpec == TraceInit /\ [][TraceNext]_tvars

AtEnd == l = Len(TraceLog) + 1 =>
           /\ PrintT(<<"VP", "ALARMS", ToJson(alarms)>>)
           /\ PrintT(<<"VP", "DONE", ToJson([lines |-> Len(TraceLog), emitters |-> seen, files |-> fseen,
                                             unexercised |-> Inventory \ seen, inventory |-> Cardinality(Inventory), refusals |-> cases,
                                             peerfacing_unexercised |-> PeerFacing \ seen])>>)
=============================================================================
