---------------------------- MODULE MC_BeaconMembers ----------------------------
EXTENDS BeaconMembers
CONSTANTS n1, n2, n3, n4
Ord(n) == CASE n = n1 -> 1 [] n = n2 -> 2 [] n = n3 -> 3 [] n = n4 -> 4
\* indices as key.LoadGroup / the DKG assign them: position in the (sorted) member list of the epoch
IdxIn(S) == [n \in S |-> Cardinality({m \in S : Ord(m) < Ord(n)})]
MCIdxOld == IdxIn(OldM)
MCIdxNew == IdxIn(NewM)
=============================================================================
