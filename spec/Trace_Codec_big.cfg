SPECIFICATION TraceSpec
CONSTANTS
  MaxNodes = 10
  Types = {"group", "pair", "identity", "share", "info", "dbstate", "beacon", "badgroup"}
INVARIANT AtEnd
CHECK_DEADLOCK FALSE
