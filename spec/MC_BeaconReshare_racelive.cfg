SPECIFICATION LiveSpecRace
CONSTANTS
  n1 = n1
  n2 = n2
  n3 = n3
  Nodes = {n1, n2, n3}
  ThrOld = 2
  ThrNew = 3
  T = 2
  MaxRound = 3
  Restarts = 0
  ExtraTicks = 2
PROPERTIES Live
CHECK_DEADLOCK FALSE
