SPECIFICATION Spec
CONSTANTS
  Pow2 <- MCPow2
  FloorLog2 <- MCFloorLog2
  WordBits = 30
  BufBits = 20
  Periods <- GridPeriods
  Geneses <- GridGeneses
  RoundArgs <- GridRounds
  Elapsed <- GridElapsed
INVARIANTS Inv_Tables Inv_Judge Inv_JudgeSmall Inv_CurrentUnique Inv_CurrentSchedule Inv_Next Inv_Monotone Inv_NoWrap Inv_Ideal Inv_OnlyOne
CHECK_DEADLOCK FALSE
