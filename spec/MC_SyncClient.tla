---------------------------- MODULE MC_SyncClient ----------------------------
(* Constant definitions for the exhaustive configurations of SyncClient.tla. *)
EXTENDS SyncClient

\* one type per behaviour, fault after one good item, plus two transient failures
PTQuick == << <<"Honest", "Honest", 0, 4>>, <<"Silent", "Silent", 0, 4>>, <<"Stall", "Stall", 1, 4>>,
              <<"CloseEarly", "CloseEarly", 1, 4>>, <<"BadSig", "BadSig", 1, 4>>,
              <<"WrongRound", "WrongRound", 1, 4>>, <<"ForeignId", "ForeignId", 1, 4>>,
              <<"CloseEarly", "Honest", 1, 4>>, <<"Silent", "Honest", 0, 4>> >>

\* safety of the participant does not depend on transient failures: one type per behaviour
PTKinds == << <<"Honest", "Honest", 0, 4>>, <<"Silent", "Silent", 0, 4>>, <<"Stall", "Stall", 1, 4>>,
              <<"CloseEarly", "CloseEarly", 1, 4>>, <<"BadSig", "BadSig", 1, 4>>,
              <<"WrongRound", "WrongRound", 1, 4>>, <<"ForeignId", "ForeignId", 1, 4>> >>
PTLiveQuick == << <<"Honest", "Honest", 0, 4>>, <<"Silent", "Silent", 0, 4>>, <<"Stall", "Stall", 1, 4>>,
                  <<"CloseEarly", "CloseEarly", 1, 4>>, <<"BadSig", "BadSig", 1, 4>>, <<"CloseEarly", "Honest", 1, 4>> >>

\* follow: a peer that lies in its chain-info packet and serves its own self-signed chain comes first in
\* the operator's list (the peer ids of a mix are ordered by type index)
PTFollow == << <<"LyingInfo", "LyingInfo", 0, 4>> >> \o PTQuick

\* both fault positions, an honest peer that is behind, every liar turning honest
PTFull == PTQuick \o
          << <<"Stall", "Stall", 0, 4>>, <<"CloseEarly", "CloseEarly", 0, 4>>, <<"BadSig", "BadSig", 0, 4>>,
             <<"WrongRound", "WrongRound", 0, 4>>, <<"ForeignId", "ForeignId", 0, 4>>,
             <<"Honest", "Honest", 0, 2>>, <<"BadSig", "Honest", 0, 4>>, <<"Stall", "Honest", 0, 4>> >>

\* liveness configurations: at least the behaviours that can block or fail a whole attempt
PTLive == << <<"Honest", "Honest", 0, 4>>, <<"Silent", "Silent", 0, 4>>, <<"Stall", "Stall", 1, 4>>,
             <<"CloseEarly", "CloseEarly", 1, 4>>, <<"BadSig", "BadSig", 1, 4>>,
             <<"WrongRound", "WrongRound", 1, 4>>, <<"ForeignId", "ForeignId", 1, 4>>,
             <<"CloseEarly", "Honest", 1, 4>> >>

\* repair asks for a single round per stream, so only faults at the first item matter
PTRepair == << <<"Honest", "Honest", 0, 4>>, <<"Silent", "Silent", 0, 4>>, <<"Stall", "Stall", 0, 4>>,
               <<"CloseEarly", "CloseEarly", 0, 4>>, <<"BadSig", "BadSig", 0, 4>>,
               <<"WrongRound", "WrongRound", 0, 4>>, <<"ForeignId", "ForeignId", 0, 4>>,
               <<"CloseEarly", "Honest", 0, 4>> >>
\* the same without WrongRound (which the code mishandled before fix F32)
PTRepairNoWrong == << <<"Honest", "Honest", 0, 4>>, <<"Silent", "Silent", 0, 4>>, <<"Stall", "Stall", 0, 4>>,
               <<"CloseEarly", "CloseEarly", 0, 4>>, <<"BadSig", "BadSig", 0, 4>>,
               <<"ForeignId", "ForeignId", 0, 4>>, <<"CloseEarly", "Honest", 0, 4>> >>
PTNoStall == << <<"Honest", "Honest", 0, 4>>, <<"Silent", "Silent", 0, 4>>,
               <<"CloseEarly", "CloseEarly", 0, 4>>, <<"BadSig", "BadSig", 0, 4>>,
               <<"WrongRound", "WrongRound", 0, 4>>, <<"ForeignId", "ForeignId", 0, 4>>,
               <<"CloseEarly", "Honest", 0, 4>> >>

\* two peers, concurrent Sync goroutines and the aggregator (writers racing for the append store)
PTRace == << <<"Honest", "Honest", 0, 4>>, <<"Stall", "Stall", 1, 4>>, <<"WrongRound", "WrongRound", 1, 4>>,
             <<"BadSig", "BadSig", 1, 4>>, <<"CloseEarly", "Honest", 1, 4>> >>
PTRaceQuick == << <<"Honest", "Honest", 0, 4>>, <<"Stall", "Stall", 1, 4>>, <<"WrongRound", "WrongRound", 1, 4>> >>
\* behaviours that cannot block a reader for ever
PTLiveNoStall == << <<"Honest", "Honest", 0, 4>>, <<"Silent", "Silent", 0, 4>>,
             <<"CloseEarly", "CloseEarly", 1, 4>>, <<"BadSig", "BadSig", 1, 4>>,
             <<"ForeignId", "ForeignId", 1, 4>>, <<"CloseEarly", "Honest", 1, 4>>, <<"Silent", "Honest", 0, 4>> >>
PTRepairLive == << <<"Honest", "Honest", 0, 4>>, <<"Silent", "Silent", 0, 4>>,
               <<"CloseEarly", "CloseEarly", 0, 4>>, <<"BadSig", "BadSig", 0, 4>>, <<"WrongRound", "WrongRound", 0, 4>>,
               <<"ForeignId", "ForeignId", 0, 4>>, <<"CloseEarly", "Honest", 0, 4>> >>

NoCorruption == {{}}
CorrQuick == {{}, {<<1, "del">>}, {<<2, "bad">>}, {<<1, "bad">>, <<3, "del">>}, {<<3, "bad">>}}
CorrFullNoAbort == CorrQuick \cup {{<<1, "del">>, <<2, "bad">>}, {<<2, "bad">>, <<3, "bad">>}, {<<3, "del">>}, {<<1, "bad">>}}
CorrAbort == {{<<2, "del">>}, {<<2, "del">>, <<1, "bad">>}}
CorrFull == CorrQuick \cup {{<<2, "del">>}, {<<1, "del">>, <<2, "del">>}, {<<2, "bad">>, <<3, "bad">>}, {<<3, "del">>}}
=============================================================================
