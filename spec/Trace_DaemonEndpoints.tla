------------------------ MODULE Trace_DaemonEndpoints ------------------------
(***************************************************************************)
(* Validates what the overlay test TestVerifEndpoints observed on real     *)
(* DrandDaemons against DaemonEndpoints.tla.                               *)
(*                                                                         *)
(*  World  a fresh daemon in node state ns (its routing tables projected)  *)
(*  Call   one request of class (ep, id, hash, gm, body) in node state ns, *)
(*         via "direct" (the service object, under a deadline) or "net"    *)
(*         (the real gRPC / REST listeners), with                          *)
(*           res     ok | reject | panic | blocked                         *)
(*           onKind  for a blocked call, from the goroutine dump: mutex |  *)
(*                   rwmutex | chan | parked (the handler is parked) or    *)
(*                   other (no parked handler found: not a verdict)        *)
(*           stage   where a panic was caught: handler (inside the         *)
(*                   recovery interceptor) | interceptor (outside)         *)
(*           probes  later calls on the same and on other endpoints        *)
(*           free    TryLock observations of the daemon's own mutexes      *)
(*           loop    the beacon loops still produce rounds                 *)
(*           alive   the process still answers on its listeners            *)
(*  Crash  (added by the orchestrator) the harness process died            *)
(*                                                                         *)
(* The specification's program for the call is run (Outcome, ProbeAfter);  *)
(* a difference with the observation is a `Conformance` alarm (drift).     *)
(* The C14 monitors are evaluated on the OBSERVED values:                  *)
(*   Responds      the call returned or was rejected within the deadline   *)
(*   StillServes   every later probe call returned                         *)
(*   NoLockLeft    the daemon's mutexes are free after the call            *)
(*   LoopAlive     no service loop stopped                                 *)
(*   ProcessAlive  the process survived and still serves (net path)        *)
(***************************************************************************)
EXTENDS DaemonEndpoints, Json

TraceLog == ndJsonDeserialize("trace.ndjson")

VARIABLES l, alarms

tvars == <<st, steps, last, ns, lk, th, nxt, l, alarms>>

Range(s) == {s[k] : k \in DOMAIN s}

CallOf(e) == [ep |-> e.ep, id |-> e.id, hash |-> e.hash, gm |-> e.gm, body |-> e.body, ver |-> e.ver]

Alarm(mon, e, extra) ==
  [mon |-> mon, line |-> l, ns |-> e.ns, via |-> e.via, ep |-> e.ep, id |-> e.id, hash |-> e.hash, gm |-> e.gm,
   body |-> e.body, shape |-> e.shape, res |-> e.res, on |-> e.on, detail |-> extra, cls |-> "-"]

ObsClass(res) == CASE res \in {"ok", "reject"} -> "done" [] res = "panic" -> "panic" [] res = "blocked" -> "stuck" [] OTHER -> "?"
\* a panic that the harness caught in the version validators is one that nothing catches on the real listener
ObsOf(e) == IF e.res = "panic" /\ e.stage = "interceptor" THEN "crash" ELSE ObsClass(e.res)
\* what the goroutine dump shows about a call that did not return: parked in the handler (on a lock, a channel, ...)
ParkedKinds == {"mutex", "rwmutex", "chan", "parked"}

BlockedProbes(e) == {p \in Range(e.probes) : p.res = "blocked"}
ProbeCall(p) == [ep |-> p.ep, id |-> p.id, hash |-> p.hash, gm |-> p.gm, body |-> p.body, ver |-> "none"]

TraceInit == /\ ns = "fresh" /\ st = EmptyState({}) /\ steps = 0 /\ last = [kind |-> "init"]
             /\ lk = FreeLocks /\ th = [t \in {} |-> 0] /\ nxt = 1
             /\ l = 1 /\ alarms = {}

StepCall(e) ==
  /\ e.ev = "Call"
  /\ LET c == CallOf(e)
         known == KnownCall(c) /\ e.ns \in NodeStates
         o == Outcome(e.ns, c)
         direct == e.via = "direct"
         \* ---- conformance (model drift)
         C0 == IF ~known THEN {Alarm("Conformance", e, "request class unknown to the specification")} ELSE {}
         C1 == IF known /\ direct /\ ObsOf(e) # o.res
                 THEN {Alarm("Conformance", e, "outcome differs from the specification's program")} ELSE {}
         C2 == IF known /\ ~direct /\ ((e.res = "blocked") # (o.res = "stuck"))
                 THEN {Alarm("Conformance", e, "outcome on the listener differs from the specification's program")} ELSE {}
         C3 == IF known /\ ~direct /\ o.res = "panic" /\ ~(e.res = "reject" /\ e.code \in {"Internal", "transport", "500"})
                 THEN {Alarm("Conformance", e, "a panic of the handler is not what the caller saw")} ELSE {}
         \* (when the call left no lock and no probe blocked there is nothing to compare)
         C4 == IF known /\ direct /\ (HeldLocks(o.L) # {} \/ BlockedProbes(e) # {}) /\ \E p \in Range(e.probes) : (p.res = "blocked") # (ProbeFrom(e.ns, o.L, ProbeCall(p)).res = "stuck")
                 THEN {Alarm("Conformance", e, "probe outcome differs from the specification's lock state")} ELSE {}
         C5 == IF known /\ direct /\ e.res = "blocked" /\ o.res = "stuck" /\ e.onKind \notin {"mutex", "rwmutex"}
                 THEN {Alarm("Conformance", e, "blocked, but not on a lock")} ELSE {}
         \* ---- monitors on what was observed
         \* a call that did not return is a verdict only when the goroutine dump shows its handler parked
         M1 == IF ~Responds(ObsClass(e.res)) /\ e.onKind \in ParkedKinds
                 THEN {Alarm("Responds", e, CASE e.onKind \in {"mutex", "rwmutex"} -> "blocked-on-lock"
                                               [] e.onKind = "chan" -> "parked-on-channel"
                                               [] OTHER -> "parked")} ELSE {}
         H1 == IF ~Responds(ObsClass(e.res)) /\ e.onKind \notin ParkedKinds
                 THEN {Alarm("Harness", e, "no answer within the deadline, but the goroutine dump does not show a parked handler")} ELSE {}
         M2 == IF \E p \in Range(e.probes) : ~StillServes(ObsClass(p.res)) /\ p.onKind \in ParkedKinds
                 THEN {Alarm("StillServes", e, IF e.res = "blocked" THEN "after-blocked-call" ELSE "after-returned-call")} ELSE {}
         H2 == IF \E p \in Range(e.probes) : ~StillServes(ObsClass(p.res)) /\ p.onKind \notin ParkedKinds
                 THEN {Alarm("Harness", e, "a probe got no answer within the deadline, but the goroutine dump does not show it parked")} ELSE {}
         M3 == IF \E f \in Range(e.free) : ~f[2]
                 THEN {Alarm("NoLockLeft", e, (CHOOSE f \in Range(e.free) : ~f[2])[1])} ELSE {}
         M4 == IF ~e.loop THEN {Alarm("LoopAlive", e, "a beacon loop stopped producing rounds")} ELSE {}
         M5 == IF ~e.alive THEN {Alarm("ProcessAlive", e, "the process does not answer on its listeners any more")} ELSE {}
         M6 == IF ~ProcessAlive(ObsOf(e))
                 THEN {Alarm("ProcessAlive", e, "panic-outside-the-recovery-interceptor")} ELSE {}
     IN alarms' = alarms \cup C0 \cup C1 \cup C2 \cup C3 \cup C4 \cup C5 \cup M1 \cup H1 \cup M2 \cup H2 \cup M3 \cup M4 \cup M5 \cup M6

\* a request concurrent with an internal event of the daemon (gated replay of the Conc machine)
ConcAlarm(mon, e, cls, extra) ==
  [mon |-> mon, line |-> l, ns |-> e.ns, via |-> "conc:" \o e.event, ep |-> e.ep, id |-> e.id, hash |-> e.hash, gm |-> e.gm,
   body |-> e.body, shape |-> e.shape, res |-> e.res, on |-> e.on \o " || " \o e.t2on, detail |-> extra, cls |-> cls]
StepConc(e) ==
  /\ e.ev = "Conc"
  /\ LET c == CallOf(e)
         known == KnownCall(c) /\ e.ns \in NodeStates
         ie == [ev |-> e.event, x |-> e.x]
         pred == CanDeadlock(e.ns, c, ie)
         obs == e.res = "blocked" \/ e.t2 = "blocked"
         cls == IF c.ep \in RoutedEps /\ c.hash \notin ({NoneTok} \cup DOMAIN WorldOf[e.ns].hashes)
                  THEN "routed-request-with-a-hash-unknown-to-the-daemon" ELSE "other"
         C0 == IF ~known THEN {ConcAlarm("Conformance", e, cls, "request class unknown to the specification")} ELSE {}
         C1 == IF known /\ pred # obs THEN {ConcAlarm("Conformance", e, cls, "deadlock differs from the specification's lock-order analysis")} ELSE {}
         M1 == IF obs THEN {ConcAlarm("NoDeadlock", e, cls, "request-and-internal-step-wait-for-each-other")} ELSE {}
         M2 == IF \E p \in Range(e.probes) : ~StillServes(ObsClass(p.res))
                 THEN {ConcAlarm("StillServes", e, cls, IF obs THEN "after-deadlock" ELSE "after-returned-call")} ELSE {}
         M3 == IF ~obs /\ ~Responds(ObsClass(e.res)) THEN {ConcAlarm("Responds", e, cls, "no-answer-within-deadline")} ELSE {}
     IN alarms' = alarms \cup C0 \cup C1 \cup M1 \cup M2 \cup M3

StepWorld(e) ==
  /\ e.ev = "World"
  /\ LET w == WorldOf[e.ns]
         procs == [c \in {p[1] : p \in Range(e.procs)} |-> (CHOOSE p \in Range(e.procs) : p[1] = c)[2]]
         hashes == [k \in {p[1] : p \in Range(e.hashes)} |-> (CHOOSE p \in Range(e.hashes) : p[1] = k)[2]]
     IN alarms' = alarms \cup
          (IF procs # w.procs \/ hashes # w.hashes \/ Range(e.http) # (DOMAIN w.http) \ {DefaultKey}
             THEN {[mon |-> "Conformance", line |-> l, ns |-> e.ns, via |-> "-", ep |-> "World", id |-> "-", hash |-> "-", gm |-> "-",
                    body |-> "-", shape |-> "-", res |-> "-", on |-> "-", detail |-> "the daemon's tables are not those of the specification's world", cls |-> "-"]}
             ELSE {})

StepCrash(e) ==
  /\ e.ev = "Crash"
  /\ alarms' = alarms \cup {[mon |-> "ProcessAlive", line |-> l, ns |-> e.ns, via |-> e.via, ep |-> e.ep, id |-> e.id, hash |-> e.hash, gm |-> e.gm,
                             body |-> e.body, shape |-> e.shape, res |-> "crash", on |-> "-", detail |-> "the process died", cls |-> "-"]}

StepHarness(e) ==
  /\ e.ev = "HarnessError"
  /\ alarms' = alarms \cup {[mon |-> "Harness", line |-> l, ns |-> e.ns, via |-> "-", ep |-> "-", id |-> "-", hash |-> "-", gm |-> "-",
                             body |-> "-", shape |-> "-", res |-> "-", on |-> "-", detail |-> e.err, cls |-> "-"]}

StepOther(e) == e.ev \in {"Start", "Begin", "LaneDone", "Done"} /\ alarms' = alarms

TraceNext ==
  /\ l <= Len(TraceLog)
  /\ LET e == TraceLog[l] IN StepCall(e) \/ StepConc(e) \/ StepWorld(e) \/ StepCrash(e) \/ StepHarness(e) \/ StepOther(e)
  /\ l' = l + 1
  /\ UNCHANGED <<st, steps, last, ns, lk, th, nxt>>

TraceSpec == TraceInit /\ [][TraceNext]_tvars

AtEnd == l = Len(TraceLog) + 1 =>
           /\ PrintT(<<"VP", "ALARMS", ToJson(alarms)>>)
           /\ PrintT(<<"VP", "DONE", ToJson([lines |-> Len(TraceLog)])>>)
=============================================================================
