SPECIFICATION Spec
CONSTANTS
  Streams = {1, 2}
  SameAddr = TRUE
  Writers = {1}
  Q = 2
  InitHead = 2
  MaxR = 5
  Froms = {0, 2}
  Backend = "bolt"
  Buf = 100
  Remap = FALSE
  Faults = {"stall"}
  MaxFaults = 1
INVARIANTS TypeOK Mon_ReplacementServed
CHECK_DEADLOCK FALSE
