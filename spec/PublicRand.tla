----------------------------- MODULE PublicRand -----------------------------
(***************************************************************************)
(* BeaconProcess.PublicRand (internal/core/drand_beacon_public.go): one    *)
(* request racing with beacons being stored.                               *)
(*   Start(r)    read Store().Last()  (hread)                              *)
(*   Decide      wanted = hread+1 -> AddCallback (one-shot callback that   *)
(*               answers only if the FIRST beacon it sees is `wanted`);    *)
(*               wanted = 0 -> answer the beacon read by Last();           *)
(*               otherwise Store().Get(wanted)                             *)
(*   Put         a beacon is stored (aggregator / sync) - at any point     *)
(*   Answer      the callback fired / the client context ended             *)
(* C01 (last clause): a successful answer to a request for round r > 0 is   *)
(* the beacon of round r; for r = 0 it is a beacon that was the head at     *)
(* some instant during the call.                                            *)
(***************************************************************************)
EXTENDS Naturals, TLC
CONSTANTS H0,        \* head when the request starts
          MaxPuts,   \* beacons stored while the request is in progress
          Reqs       \* requested rounds explored

VARIABLES head, pc, wanted, hread, cbSeen, resp, puts
vars == <<head, pc, wanted, hread, cbSeen, resp, puts>>

NoResp == [ok |-> FALSE, round |-> 0, set |-> FALSE]
Init == /\ head = H0 /\ pc = "idle" /\ wanted = 0 /\ hread = 0 /\ cbSeen = 0 /\ resp = NoResp /\ puts = 0

Start(r) == /\ pc = "idle" /\ wanted' = r /\ hread' = head /\ pc' = "afterLast"
            /\ UNCHANGED <<head, cbSeen, resp, puts>>

Put == /\ puts < MaxPuts /\ pc # "idle"
       /\ head' = head + 1 /\ puts' = puts + 1
       /\ cbSeen' = IF pc = "registered" /\ cbSeen = 0 THEN head + 1 ELSE cbSeen
       /\ UNCHANGED <<pc, wanted, hread, resp>>

\* pure: the answer of the direct paths given the head at the time of Get
Direct(w, hr, hd) == IF w = 0 THEN [ok |-> TRUE, round |-> hr, set |-> TRUE]
                     ELSE IF w <= hd THEN [ok |-> TRUE, round |-> w, set |-> TRUE]
                     ELSE [ok |-> FALSE, round |-> 0, set |-> TRUE]
\* pure: the answer of the callback path given the first beacon the callback saw (0 = none, ctx ended)
Waited(w, seen) == IF seen = w THEN [ok |-> TRUE, round |-> w, set |-> TRUE] ELSE [ok |-> FALSE, round |-> 0, set |-> TRUE]

Decide == /\ pc = "afterLast"
          /\ IF wanted = hread + 1
               THEN pc' = "registered" /\ resp' = resp
               ELSE pc' = "done" /\ resp' = Direct(wanted, hread, head)
          /\ UNCHANGED <<head, wanted, hread, cbSeen, puts>>

Answer == /\ pc = "registered" /\ cbSeen # 0
          /\ resp' = Waited(wanted, cbSeen) /\ pc' = "done"
          /\ UNCHANGED <<head, wanted, hread, cbSeen, puts>>

Cancel == /\ pc = "registered" /\ cbSeen = 0 /\ puts = MaxPuts   \* client context ends / waited too long
          /\ resp' = Waited(wanted, 0) /\ pc' = "done"
          /\ UNCHANGED <<head, wanted, hread, cbSeen, puts>>

Next == (\E r \in Reqs : Start(r)) \/ Put \/ Decide \/ Answer \/ Cancel
Spec == Init /\ [][Next]_vars

\* the monitor, also used on observed answers
RightRound(w, hr, hd, r) == r.ok => (IF w > 0 THEN r.round = w ELSE r.round >= hr /\ r.round <= hd)
Inv_C01_RightRound == resp.set => RightRound(wanted, hread, head, resp)
=============================================================================
