--------------------------- MODULE BeaconMembers ---------------------------
(***************************************************************************)
(* A resharing that CHANGES THE MEMBERSHIP of a running beacon network     *)
(* (internal/core/drand_beacon.go: onDKGCompleted -> transitionToNext for  *)
(* members that stay, joinNetwork -> StartBeacon(catchup) for newcomers;   *)
(* internal/chain/beacon/node.go: Catchup, TransitionNewGroup, the         *)
(* "transition" callback; chainstore.go: runAggregator; cache.go).         *)
(*                                                                         *)
(* BeaconReshare.tla fixes the member set; here:                           *)
(*   Stay  = OldM \cap NewM  switch their vault when round T-1 is stored;  *)
(*   Join  = NewM \ OldM     start (Catchup) with the NEW group and share  *)
(*           as soon as the resharing is complete, i.e. before T: until T  *)
(*           their partials verify nowhere and they verify nobody's; they  *)
(*           follow the chain by sync only;                                *)
(*   Leave = OldM \ NewM     as coded they are never told (the DKG result  *)
(*           that would call leaveNetwork is not produced for a node that  *)
(*           is not in the new group): they keep their old share, keep     *)
(*           ticking, and follow the chain by sync after T.                *)
(* A partial carries the signer's INDEX in the group of the epoch it was   *)
(* made for; a round cache keeps one partial per index (first wins).  The  *)
(* same index can denote different nodes in the two epochs.                *)
(* A node broadcasts to the members of the group live in its vault.        *)
(***************************************************************************)
EXTENDS Integers, FiniteSets, TLC

CONSTANTS Nodes, OldM, NewM,
          ThrOld, ThrNew,
          T,           \* transition round
          MaxRound, ExtraTicks,
          IdxOld, IdxNew   \* [member -> index] per epoch

VARIABLES clockR, head, vault, reg, swp, cache, signedAt, up, oldCounted, done

vars == <<clockR, head, vault, reg, swp, cache, signedAt, up, oldCounted, done>>

Rounds == 1..MaxRound
CR == IF clockR > MaxRound THEN MaxRound ELSE clockR
Thr(e) == IF e = 0 THEN ThrOld ELSE ThrNew
Mem(e) == IF e = 0 THEN OldM ELSE NewM
Idx(n, e) == IF e = 0 THEN IdxOld[n] ELSE IdxNew[n]
Stay == OldM \cap NewM
Join == NewM \ OldM
Leave == OldM \ NewM
EmptyRC == [r \in Rounds |-> [s \in {} |-> 0]]

Init == /\ clockR = 1
        /\ head = [n \in Nodes |-> 0] /\ vault = [n \in Nodes |-> IF n \in OldM THEN 0 ELSE 1]
        /\ reg = [n \in Nodes |-> FALSE] /\ swp = [n \in Nodes |-> FALSE]
        /\ cache = [n \in Nodes |-> EmptyRC]
        /\ signedAt = [n \in Nodes |-> <<0, 0, 0>>]
        /\ up = [n \in Nodes |-> n \in OldM]       \* newcomers do not run a beacon before the resharing is complete
        /\ oldCounted = FALSE /\ done = FALSE

Stored(n, r, c) == [x \in Rounds |-> IF x <= r THEN [s \in {} |-> 0] ELSE c[x]]
Arms(n, r) == reg[n] /\ vault[n] = 0 /\ r >= T - 1

\* runAggregator at node m on an accepted partial (index i, round r, epoch e)
Aggregate(m, i, r, e) ==
  LET rc == cache[m][r]
      rc2 == IF i \in DOMAIN rc THEN rc ELSE [x \in (DOMAIN rc) \cup {i} |-> IF x = i THEN e ELSE rc[x]]
      c2 == [cache[m] EXCEPT ![r] = rc2]
      live == vault[m]
      good == {x \in DOMAIN rc2 : rc2[x] = live}
  IN IF r <= head[m] \/ r > head[m] + 4 THEN [head |-> head[m], cache |-> cache[m], swp |-> swp[m], old |-> FALSE]
     ELSE IF Cardinality(DOMAIN rc2) >= Thr(live) /\ Cardinality(good) >= Thr(live) /\ r = head[m] + 1
       THEN [head |-> r, cache |-> Stored(m, r, c2), swp |-> swp[m] \/ Arms(m, r), old |-> (done /\ live = 0 /\ r >= T)]
       ELSE [head |-> head[m], cache |-> c2, swp |-> swp[m], old |-> FALSE]

Tick == /\ clockR < MaxRound + ExtraTicks /\ clockR' = clockR + 1
        /\ UNCHANGED <<head, vault, reg, swp, cache, signedAt, up, oldCounted, done>>

\* the resharing completes (here: for everybody at once) some time before the transition round
Complete == /\ ~done /\ clockR < T /\ done' = TRUE
            /\ reg' = [n \in Nodes |-> n \in Stay]
            /\ up' = [n \in Nodes |-> up[n] \/ n \in Join]
            \* a member that already stored round T-1 ... cannot be: clockR < T and heads never pass the clock
            /\ swp' = [n \in Nodes |-> n \in Stay /\ head[n] >= T - 1]
            /\ UNCHANGED <<clockR, head, vault, cache, signedAt, oldCounted>>

RecvOK(m, r, e) == up[m] /\ r > head[m] /\ r <= CR + 1 /\ e = vault[m]
Sign(n) ==
  /\ up[n]
  /\ LET r == head[n] + 1 e == vault[n] i == Idx(n, e) IN
       /\ r <= CR /\ r \in Rounds
       \* one broadcast per (round, share, tick); the triple only grows (head, vault and clock never go back),
       \* so remembering the last one is enough
       /\ signedAt[n] # <<r, e, clockR>>
       /\ signedAt' = [signedAt EXCEPT ![n] = <<r, e, clockR>>]
       /\ LET agg(m) == IF m = n \/ (m \in Mem(e) /\ RecvOK(m, r, e)) THEN Aggregate(m, i, r, e)
                        ELSE [head |-> head[m], cache |-> cache[m], swp |-> swp[m], old |-> FALSE]
          IN /\ head' = [m \in Nodes |-> agg(m).head]
             /\ cache' = [m \in Nodes |-> agg(m).cache]
             /\ swp' = [m \in Nodes |-> agg(m).swp]
             /\ oldCounted' = (oldCounted \/ \E m \in Nodes : agg(m).old)
  /\ UNCHANGED <<clockR, vault, reg, up, done>>

Switch(n) == /\ up[n] /\ swp[n] /\ vault' = [vault EXCEPT ![n] = 1] /\ swp' = [swp EXCEPT ![n] = FALSE]
             /\ UNCHANGED <<clockR, head, reg, cache, signedAt, up, oldCounted, done>>

\* sync: one verified beacon from a peer that is ahead (any node that serves the chain, member or not)
Sync(n, p) == /\ up[n] /\ up[p] /\ head[p] > head[n] /\ head[n] + 1 < CR
              /\ LET r == head[n] + 1 IN
                   /\ head' = [head EXCEPT ![n] = r]
                   /\ cache' = [cache EXCEPT ![n] = Stored(n, r, @)]
                   /\ swp' = [swp EXCEPT ![n] = @ \/ Arms(n, r)]
              /\ UNCHANGED <<clockR, vault, reg, signedAt, up, oldCounted, done>>

Other == Tick \/ Complete \/ (\E n \in Nodes : Sign(n)) \/ (\E n, p \in Nodes : Sync(n, p))
NextRace == Other \/ (\E n \in Nodes : Switch(n))
Next == IF \E n \in Nodes : up[n] /\ swp[n] THEN \E n \in Nodes : Switch(n) ELSE Other
Spec == Init /\ [][Next]_vars
SpecRace == Init /\ [][NextRace]_vars

-----------------------------------------------------------------------------
\* C07: from the transition on only shares of the new group count
OnlyNewShares == ~oldCounted
\* a member that stays uses the new share only after it stored round T-1
VaultFollowsChain == \A n \in Stay : vault[n] = 1 => head[n] >= T - 1
\* nobody is ahead of the clock (C04 at this level)
NoFuture == \A n \in Nodes : head[n] <= CR
\* C02 at this level is by construction (one value per round); C07 continuity:
\* every member of the new group ends with the whole chain
DoneAll == \A n \in NewM : head[n] = MaxRound
DoneOld == \A n \in OldM : head[n] = MaxRound
\* if the resharing never completes (or completes too late to matter) the old group goes on
Live == <>[](IF done THEN DoneAll ELSE DoneOld)
Fair == /\ WF_vars(Tick) /\ WF_vars(Complete)
        /\ \A n \in Nodes : WF_vars(Sign(n)) /\ WF_vars(Switch(n))
        /\ \A n, p \in Nodes : WF_vars(Sync(n, p))
LiveSpec == Spec /\ Fair
LiveSpecRace == SpecRace /\ Fair
=============================================================================
