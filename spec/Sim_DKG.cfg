SPECIFICATION SimSpec
CONSTANTS
  Me = "p2"
  MaxEpoch = 3
  MaxTick = 2
  Rich = TRUE
  Shapes = {"keep", "swap"}
  Depth = 28
  Roles = {"p1", "p2", "p3", "p4"}
CHECK_DEADLOCK FALSE
