SPECIFICATION Spec
CONSTANTS
  Peers = {1, 2}
  MaxR = 4
  PT <- PTRaceQuick
  Modes = {"run"}
  ChainedSet = {TRUE}
  Starts = {1}
  Targets = {3}
  Corruptions <- NoCorruption
  NT = 2
  FollowRetries = TRUE
  FollowAppend = TRUE
  ResyncChecksRound = TRUE
  ResyncDeletesFirst = FALSE
  CheckZeroIsClock = FALSE
  Aborts = FALSE
  PinsOperatorHash = TRUE
  MaxAgg = 1
  QCap = 1
  Linger = TRUE
  History = TRUE
  Eager = FALSE
INVARIANTS TypeOK Inv_OnlyVerifiedInOrder Inv_NothingFromLiars Inv_Chain Inv_RepairUntouched
VIEW View
CHECK_DEADLOCK FALSE
