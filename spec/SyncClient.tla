------------------------------ MODULE SyncClient ------------------------------
(***************************************************************************)
(* The client side of chain synchronisation (C10), transcribed from         *)
(*   internal/chain/beacon/sync_manager.go  Run / Sync / tryNode / ReSync / *)
(*                                          CheckPastBeacons / Correct...   *)
(*   internal/chain/beacon/store.go         appendStore / schemeStore Put    *)
(*   internal/chain/beacon/chainstore.go    the participant store stack      *)
(*   internal/core/drand_beacon_control.go  StartFollowChain (its own stack, *)
(*                                          its errChan loop), StartCheckChain*)
(*                                                                         *)
(* One action per critical section / call:                                  *)
(*   TaskNext    Sync loop: next peer of the permutation, ctx test, the head*)
(*               of tryNode (store.Last, from, client.SyncChain)            *)
(*   TaskItem    one iteration of tryNode's receive loop: beacon-id test,   *)
(*               VerifyBeacon, Put (secure stack or raw store in resync)    *)
(*   TaskNotify  `s.newSyncedBeacon <- beacon` when the 1-slot channel was  *)
(*               full (otherwise folded into TaskItem)                      *)
(*   TaskReap    Sync returned: innerCancel (Run) / errChan (follow) /      *)
(*               ReSync retry + next faulty round (repair)                  *)
(*   RunSkip / RunRestartWith(perm)                                         *)
(*               Run: `case request := <-s.newReq`: request filled or a    *)
(*               recent sync in progress / cancel + Sync with a fresh       *)
(*               random permutation (expiry after `factor` = 2 periods)     *)
(*   RunNotif    Run: `case <-s.newSyncedBeacon`                            *)
(*   Tick, Request, AggPut   environment: time, Handler.run / aggregator    *)
(*               asking for a sync, aggregator appending the next round     *)
(*   FollowStart, RepairCheck, RepairStart   the control-API drivers        *)
(*                                                                         *)
(* Crypto is symbolic: the content of round r in a store is "ok" (the       *)
(* unique valid beacon of r), "bad" (bytes that do not verify) or "none".   *)
(* A streamed item is a valid beacon of some round, a beacon with a bad     *)
(* signature, or a valid beacon under a foreign beacon id.  The harness     *)
(* concretises them with real BLS keys; whether bytes verify is computed    *)
(* there by an independent oracle and logged as a boolean.                  *)
(*                                                                         *)
(* Named deviations of the code from the intended design are explicit:      *)
(*   tryNode has no per-peer timeout; only Run's expiry cancels a stream    *)
(*     (F30 follow, F31 repair: still as coded)                             *)
(*   the check aborts when Last() of a chained trimmed store is unreadable  *)
(*     (F33: still as coded)                                                *)
(* Repaired in /repo, kept as switches so that the old behaviour can be      *)
(* explored again: FollowRetries (F3: errChan was nil), FollowAppend (F4:   *)
(* no appendStore in the follow stack), ResyncChecksRound (F32: resync      *)
(* wrote any verified round into the raw store).                            *)
(***************************************************************************)
EXTENDS Naturals, Sequences, FiniteSets, TLC

CONSTANTS Peers,         \* peer ids
          MaxR,          \* highest round of the chain (no peer is above it)
          PT,            \* tuple of peer types <<first, later, k, head>>:
                         \*   behaviour of the first stream, of later streams,
                         \*   good items before the fault, peer's head
          Modes,         \* subset of {"run", "follow", "repair"}
          ChainedSet,    \* subset of BOOLEAN
          Starts,        \* start heights of the client's store
          Targets,       \* requested rounds (0 = follow for ever)
          Corruptions,   \* repair mode: set of sets of <<round, "del"|"bad">>
          NT,            \* slots for concurrently alive Sync goroutines
          FollowRetries, \* TRUE = as coded since fix F3 (FALSE: errChan was a nil channel, no retry ever)
          FollowAppend,  \* TRUE = as coded since fix F4 (FALSE: the follow stack had no appendStore)
          PinsOperatorHash, \* TRUE = as coded: StartFollowChain recomputes the hash of the chain info it fetched and
                         \* compares it with the operator's; FALSE: it trusts the hash FIELD of a peer's packet
          CheckZeroIsClock, \* FALSE = as coded: upTo = 0 checks nothing and every target is clamped to the stored head;
                         \* TRUE: upTo = 0 means "up to the clock's round" (MaxR here) and is not clamped
          ResyncDeletesFirst, \* FALSE = as coded: a corrected round is ONE overwriting store transaction;
                         \* TRUE: insecureStore.Del(round) and then insecureStore.Put(beacon), two transactions
          Aborts,        \* TRUE: the environment may cancel the repair's context between any two store
                         \* operations and make one store write fail (repair mode)
          ResyncChecksRound, \* TRUE = as coded since fix F32 (FALSE: resync wrote any verified round)
          MaxAgg,        \* aggregator puts (run mode)
          QCap,          \* modelled capacity of s.newReq (3 in the code)
          History,       \* TRUE: keep the last observable step in `obs` (off in liveness configs)
          Linger,        \* TRUE: a cancelled Sync goroutine keeps running until it notices;
                         \* FALSE: it exits at the instant it is cancelled (smaller model)
          Eager          \* TRUE: time advances only when no internal step is
                         \* enabled (processing an item is faster than a period)

VARIABLES cfg,      \* scenario: mode, chained, start, target, ptype, corrupt, store0
          store,    \* [0..MaxR -> {"none","ok","bad"}]  raw base store
          alast,    \* appendStore.last.Round
          slast,    \* schemeStore.last.Round
          called,   \* [Peers -> BOOLEAN]  a stream was already opened to the peer
          tasks,    \* [1..NT -> task]     Sync goroutines
          queue,    \* Run: s.newReq (capacity 3) of upTo values
          age,      \* Run: periods since lastRoundTime, saturating at 3
          cur,      \* Run: slot of the Sync goroutine that owns Run's `ctx` (0 = none)
          ctxDone,  \* Run: ctx.Err() != nil
          notif,    \* s.newSyncedBeacon occupancy (0..1)
          drv,      \* follow / repair driver
          agg,      \* aggregator puts done
          obs       \* last observable step (history variable, hidden by VIEW)

vars == <<cfg, store, alast, slast, called, tasks, queue, age, cur, ctxDone, notif, drv, agg, obs>>

Kinds == {"Honest", "Silent", "Stall", "CloseEarly", "BadSig", "WrongRound", "ForeignId", "LyingInfo"}
Liars == {"BadSig", "WrongRound", "ForeignId"}
Rounds == 0..MaxR

Min2(a, b) == IF a < b THEN a ELSE b
Max2(a, b) == IF a > b THEN a ELSE b
Perms(S) == {s \in [1..Cardinality(S) -> S] : \A i, j \in 1..Cardinality(S) : i # j => s[i] # s[j]}
AllPerms == Perms(Peers)
SortedSeq(S) == CHOOSE s \in Perms(S) : \A i, j \in 1..Cardinality(S) : i < j => s[i] < s[j]

-----------------------------------------------------------------------------
(* Pure operators (shared with Trace_SyncClient)                            *)

\* store.Last(): highest stored round (bolt cursor.Last)
StoreHead(s) == CHOOSE r \in DOMAIN s : s[r] # "none" /\ \A q \in DOMAIN s : q > r => s[q] = "none"

\* What the stream of a peer of behaviour `kind` (k good items first, head hd)
\* opened at round `from` delivers as its pos-th item (pos = 0, 1, ...).
\*   t = "good"   valid beacon of `round`, right beacon id
\*       "wrong"  valid beacon of a round that is not the next of the stream
\*       "badsig" beacon of `round` whose signature does not verify
\*       "foreign" valid beacon of `round` under another beacon id
\*       "forged" beacon of `round` of the peer's OWN chain: it verifies under that peer's key only
\*                (peer kind "LyingInfo": its chain-info packet carries the genuine chain hash in the
\*                hash field but the peer's own public key and genesis seed)
\*       "close"  the channel is closed      "block"  nothing arrives
ItemOf(kind, k, from, pos, hd) ==
  LET r == from + pos
      blk == [t |-> "block", round |-> 0]
      cls == [t |-> "close", round |-> 0]
      good(x) == IF x <= hd THEN [t |-> "good", round |-> x] ELSE blk
  IN IF from > hd THEN cls                      \* server: "no beacon stored above"
     ELSE CASE kind = "Honest" -> good(r)
            [] kind = "LyingInfo" -> IF r <= hd THEN [t |-> "forged", round |-> r] ELSE blk
            [] kind = "Stall" -> IF pos < k THEN good(r) ELSE blk
            [] kind = "CloseEarly" -> IF pos < k /\ r <= hd THEN good(r) ELSE cls
            [] kind = "BadSig" -> IF pos = k /\ r <= hd THEN [t |-> "badsig", round |-> r] ELSE good(r)
            [] kind = "ForeignId" -> IF pos = k /\ r <= hd THEN [t |-> "foreign", round |-> r] ELSE good(r)
            [] kind = "WrongRound" -> IF pos < k THEN good(r)
                                      ELSE IF r + 1 > hd THEN blk
                                      ELSE [t |-> IF pos = k THEN "wrong" ELSE "good", round |-> r + 1]
            [] OTHER -> cls

\* An item after which an honest client must take nothing more from the stream: a bad
\* signature, a foreign beacon id, or a valid beacon that is not storable in chain order
\* at the moment it is processed (beyond the next round; in repair: not a requested round).
\* A valid beacon of a round the store already has is a harmless duplicate (race with the
\* aggregator or with a second Sync goroutine).
IsLie(t, resync, round, headBefore, requested) ==
  \/ t \in {"badsig", "foreign", "forged"}
  \/ IF resync THEN round \notin requested ELSE round > headBefore + 1
\* Items that pass the beacon-id test and VerifyBeacon under the genuine chain's key
Verified(t) == t \in {"good", "wrong"}
\* ... under the key the client pinned ("genuine", or "liar" when it took a LyingInfo peer's key)
VerifiedUnder(pin, t) == IF pin = "liar" THEN t = "forged" ELSE Verified(t)

\* StartFollowChain / chainInfoFromPeers over the peer kinds in the order the operator listed them:
\* as coded every peer is asked, the last decodable packet wins and its RECOMPUTED hash must equal the
\* operator's hash (a lying packet there makes follow refuse); when only the packet's hash field is
\* trusted, the first peer declaring the operator's hash wins - a LyingInfo peer declares it too.
PinOf(kinds, recompute) ==
  IF recompute THEN (IF kinds[Len(kinds)] = "LyingInfo" THEN "refused" ELSE "genuine")
  ELSE (IF kinds[1] = "LyingInfo" THEN "liar" ELSE "genuine")

\* s.store.Put of a VERIFIED beacon of `round` (not resync).
\*   stack "full"   : callback -> append -> scheme -> discrepancy -> base   (chainstore.go)
\*   stack "follow" : callback -> scheme -> base              (StartFollowChain before fix F4;
\*                    since then it builds callback -> append -> scheme -> base)
SecurePut(stack, chained, al, sl, round) ==
  IF stack = "full"
    THEN IF round = al THEN "already"                    \* ErrBeaconAlreadyStored (same bytes: BLS uniqueness)
         ELSE IF round # al + 1 THEN "err"               \* invalid round inserted
         ELSE IF chained /\ round # sl + 1 THEN "err"    \* invalid previous signature
         ELSE "ok"
    ELSE IF chained /\ round # sl + 1 THEN "err" ELSE "ok"

StackOf(mode) == IF mode = "follow" /\ ~FollowAppend THEN "follow" ELSE "full"

\* CheckPastBeacons on a trimmed store: chained schemes read the previous
\* signature from the previous round's entry.
\* ... and store.Last() itself fails there when the entry before the head is missing: the check
\* then returns an error instead of a report (named deviation)
LastUnreadable(s, chained) == chained /\ StoreHead(s) >= 1 /\ s[StoreHead(s) - 1] = "none"
Faulty(s, chained, r) == s[r] # "ok" \/ (chained /\ s[r - 1] # "ok")
CheckOp(s, chained, upTo) == {r \in 1..Min2(upTo, StoreHead(s)) : Faulty(s, chained, r)}
\* the variant that reads upTo = 0 as the clock's round without clamping it to the head
CheckOpClock(s, chained, upTo, clockRound) ==
  IF upTo = 0 THEN {r \in 1..clockRound : Faulty(s, chained, r)} ELSE CheckOp(s, chained, upTo)

-----------------------------------------------------------------------------
(* Monitors (observable values only)                                        *)

\* every beacon written by sync verifies and is the next round of the store;
\* in repair mode it verifies and is one of the requested rounds
OnlyVerifiedInOrder(resync, verifies, round, headBefore, requested) ==
  /\ verifies
  /\ IF resync THEN round \in requested ELSE round = headBefore + 1

\* nothing is stored from a stream after it delivered a lie
NothingFromLiars(tainted) == ~tainted

\* the check reports exactly the rounds that cannot be read back or do not verify
CheckExact(reported, oracleBad, upTo, head) == reported = {r \in 1..Min2(upTo, head) : r \in oracleBad}

\* repair leaves every round that was not reported untouched ...
RepairUntouched(pre, post, reported) == \A r \in DOMAIN pre : r \notin reported => post[r] = pre[r]
\* ... and restores the reported ones
RepairRestored(post, reported) == \A r \in reported : post[r] = "ok"

\* liveness, evaluated at quiescence on observed executions
ConvergedAt(head, goal) == head >= goal

-----------------------------------------------------------------------------
H(x) == IF History THEN x ELSE [kind |-> "init"]

FreeTask == [st |-> "free", owner |-> "", perm |-> <<>>, peer |-> 0, kind |-> "", k |-> 0, hd |-> 0,
             from |-> 0, pos |-> 0, rfrom |-> 0, upTo |-> 0, canc |-> FALSE, ok |-> FALSE,
             res |-> "", taint |-> FALSE, lput |-> 0]

NewTask(owner, perm, rfrom, upTo) ==
  [FreeTask EXCEPT !.st = "next", !.owner = owner, !.perm = perm, !.rfrom = rfrom, !.upTo = upTo]

FreeSlots == {i \in 1..NT : tasks[i].st = "free"}
PType(p) == PT[cfg.ptype[p]]

InitStore(start, corrupt) ==
  [r \in Rounds |->
     IF r > start THEN "none"
     ELSE IF <<r, "del">> \in corrupt THEN "none"
     ELSE IF <<r, "bad">> \in corrupt THEN "bad" ELSE "ok"]

Init ==
  /\ \E m \in Modes, ch \in ChainedSet, st \in Starts, tg \in Targets,
        pt \in [Peers -> 1..Len(PT)], co \in Corruptions :
       /\ \A p, q \in Peers : p < q => pt[p] <= pt[q]        \* peers are interchangeable: one mix per multiset
       /\ m # "repair" => co = {}
       /\ m = "repair" => st >= 1
                          /\ \A c1 \in co : c1[1] >= 1 /\ c1[1] <= st
                          /\ \A c2, d2 \in co : c2[1] = d2[1] => c2 = d2
       /\ m # "repair" => (tg = 0 \/ tg > st)
       /\ cfg = [mode |-> m, chained |-> ch, start |-> st, target |-> tg, ptype |-> pt,
                 peers |-> [p \in Peers |-> PT[pt[p]]],    \* (readable form of ptype, for replay scripts)
                 corrupt |-> co, store0 |-> InitStore(st, co)]
       /\ store = InitStore(st, co)
       /\ alast = StoreHead(InitStore(st, co)) /\ slast = StoreHead(InitStore(st, co))
       /\ drv = [phase |-> IF m = "follow"
                             THEN (IF PinOf([p \in 1..Cardinality(Peers) |-> PT[pt[p]][1]], PinsOperatorHash) = "refused"
                                     THEN "refused" ELSE "start")
                             ELSE IF m = "repair" THEN "check" ELSE "run",
                 pin |-> IF m = "follow" /\ PinOf([p \in 1..Cardinality(Peers) |-> PT[pt[p]][1]], PinsOperatorHash) = "liar"
                           THEN "liar" ELSE "genuine",
                 reported |-> {}, todo |-> <<>>, retried |-> FALSE, failed |-> {}, faults |-> 1]
  /\ called = [p \in Peers |-> FALSE]
  /\ tasks = [i \in 1..NT |-> FreeTask]
  /\ queue = <<>> /\ age = 3 /\ cur = 0 /\ ctxDone = FALSE /\ notif = 0 /\ agg = 0
  /\ obs = [kind |-> "init"]

-----------------------------------------------------------------------------
(* Sync goroutines                                                          *)

Ret(t, ok, res) == [t EXCEPT !.st = "ret", !.ok = ok, !.res = res]

\* Sync: next peer of the permutation; tryNode up to client.SyncChain
TaskNext(i) ==
  LET t == tasks[i] IN
  /\ t.st = "next"
  /\ UNCHANGED <<cfg, store, alast, slast, queue, age, cur, ctxDone, notif, drv, agg>>
  /\ IF t.perm = <<>>
       THEN /\ tasks' = [tasks EXCEPT ![i] = Ret(t, FALSE, "failedall")]
            /\ UNCHANGED called /\ obs' = H([kind |-> "ret", res |-> "failedall"])
       ELSE IF t.canc
         THEN /\ tasks' = [tasks EXCEPT ![i] = Ret(t, FALSE, "ctx")]
              /\ UNCHANGED called /\ obs' = H([kind |-> "ret", res |-> "ctx"])
         ELSE LET p == Head(t.perm)
                  ty == PType(p)
                  kind == IF called[p] THEN ty[2] ELSE ty[1]
                  from == IF t.rfrom = 0 THEN StoreHead(store) + 1 ELSE t.rfrom
              IN /\ called' = IF ty[1] # ty[2] THEN [called EXCEPT ![p] = TRUE] ELSE called
                 /\ obs' = H([kind |-> "open", peer |-> p, from |-> from, beh |-> kind])
                 /\ IF kind = "Silent"                              \* SyncChain returns an error
                      THEN tasks' = [tasks EXCEPT ![i].perm = Tail(t.perm)]
                      ELSE tasks' = [tasks EXCEPT ![i] =
                              [t EXCEPT !.st = "stream", !.perm = Tail(t.perm), !.peer = p, !.kind = kind,
                                        !.k = ty[3], !.hd = ty[4], !.from = from, !.pos = 0, !.taint = FALSE]]

\* after the notification: the target test of tryNode
Continue(t) == IF t.lput = t.upTo THEN Ret(t, TRUE, "nil") ELSE [t EXCEPT !.st = "stream", !.pos = @ + 1]

PutObs(t, round, hb, res) ==
  [kind |-> "put", resync |-> t.rfrom > 0, verifies |-> TRUE, round |-> round, hb |-> hb,
   req |-> t.rfrom..t.upTo, taint |-> t.taint, res |-> res]

\* tryNode: one iteration of the receive loop
TaskItem(i) ==
  LET t == tasks[i]
      it == ItemOf(t.kind, t.k, t.from, t.pos, t.hd)
      abandon == [t EXCEPT !.st = "next"]
      hb == StoreHead(store)
  IN
  /\ t.st = "stream"
  /\ UNCHANGED <<cfg, called, queue, age, cur, ctxDone, drv, agg>>
  /\ \/ /\ t.canc                                    \* case <-cnode.Done()
        /\ tasks' = [tasks EXCEPT ![i] = abandon]
        /\ UNCHANGED <<store, alast, slast, notif>> /\ obs' = H([kind |-> "cancelled"])
     \/ /\ it.t = "close"
        /\ tasks' = [tasks EXCEPT ![i] = abandon]
        /\ UNCHANGED <<store, alast, slast, notif>> /\ obs' = H([kind |-> "closed"])
     \/ /\ it.t \in {"badsig", "foreign", "forged", "good", "wrong"} /\ ~VerifiedUnder(drv.pin, it.t)
                                                   \* wrong beaconID / invalid beacon under the pinned key
        /\ tasks' = [tasks EXCEPT ![i] = abandon]
        /\ UNCHANGED <<store, alast, slast, notif>> /\ obs' = H([kind |-> "rejected", t |-> it.t])
     \/ /\ VerifiedUnder(drv.pin, it.t)
        /\ LET t1 == [t EXCEPT !.lput = it.round]
               \* the stream is tainted for the items that FOLLOW a lie
               t2(x) == [x EXCEPT !.taint = @ \/ IsLie(it.t, t.rfrom > 0, it.round, hb, t.rfrom..t.upTo)]
               \* after a successful Put: `s.newSyncedBeacon <- beacon` (succeeds at once when the slot is free)
               stored(x) == IF notif = 0 THEN Continue(x) ELSE [x EXCEPT !.st = "notify"] IN
           IF t.rfrom > 0 /\ ResyncChecksRound /\ it.round \notin t.rfrom..t.upTo
             THEN \* resync: a round that was not requested abandons the peer (fix F32)
                  /\ UNCHANGED <<store, alast, slast, notif>>
                  /\ tasks' = [tasks EXCEPT ![i] = [t1 EXCEPT !.st = "next"]]
                  /\ obs' = H([kind |-> "rejected", t |-> "unrequested"])
           ELSE IF t.rfrom > 0
             THEN \* resync: insecureStore.Put of a requested (or, before F32, any) verified round
                  IF ResyncDeletesFirst
                    THEN \* first transaction: the stored entry is removed; the write follows in TaskWrite
                         /\ store' = [store EXCEPT ![it.round] = "none"]
                         /\ UNCHANGED <<alast, slast, notif>>
                         /\ tasks' = [tasks EXCEPT ![i] = [t2(t1) EXCEPT !.st = "write"]]
                         /\ obs' = H([kind |-> "del", round |-> it.round])
                    ELSE \/ /\ store' = [store EXCEPT ![it.round] = IF Verified(it.t) THEN "ok" ELSE "bad"]
                            /\ UNCHANGED <<alast, slast>>
                            /\ tasks' = [tasks EXCEPT ![i] = stored(t2(t1))]
                            /\ notif' = 1
                            /\ obs' = H([PutObs(t1, it.round, hb, "ok") EXCEPT !.verifies = Verified(it.t)])
                         \/ \* the (single) write fails: nothing changes, the peer is abandoned
                            /\ Aborts /\ drv.faults > 0
                            /\ UNCHANGED <<store, alast, slast, notif>>
                            /\ tasks' = [tasks EXCEPT ![i] = [t1 EXCEPT !.st = "next"]]
                            /\ obs' = H([kind |-> "puterr", round |-> it.round])
             ELSE LET res == SecurePut(StackOf(cfg.mode), cfg.chained, alast, slast, it.round) IN
                  CASE res = "ok" ->
                         /\ store' = [store EXCEPT ![it.round] = IF Verified(it.t) THEN "ok" ELSE "bad"]
                         /\ alast' = IF StackOf(cfg.mode) = "full" THEN it.round ELSE alast
                         /\ slast' = it.round
                         /\ tasks' = [tasks EXCEPT ![i] = stored(t2(t1))]
                         /\ notif' = 1
                         /\ obs' = H([PutObs(t1, it.round, hb, "ok") EXCEPT !.verifies = Verified(it.t)])
                    [] res = "already" ->
                         /\ UNCHANGED <<store, alast, slast, notif>>
                         /\ tasks' = [tasks EXCEPT ![i] =
                               IF it.round = t.upTo THEN Ret(t1, TRUE, "nil") ELSE [t1 EXCEPT !.st = "next"]]
                         /\ obs' = H([kind |-> "already", round |-> it.round])
                    [] OTHER ->
                         /\ UNCHANGED <<store, alast, slast, notif>>
                         /\ tasks' = [tasks EXCEPT ![i] = [t1 EXCEPT !.st = "next"]]
                         /\ obs' = H([kind |-> "puterr", round |-> it.round])

\* tryNode (ResyncDeletesFirst only): the second store transaction of a corrected round
TaskWrite(i) ==
  LET t == tasks[i] IN
  /\ t.st = "write"
  /\ UNCHANGED <<cfg, alast, slast, called, queue, age, cur, ctxDone, drv, agg>>
  /\ \/ /\ ~t.canc                                  \* insecureStore.Put succeeds
        /\ store' = [store EXCEPT ![t.lput] = "ok"]
        /\ tasks' = [tasks EXCEPT ![i] = IF notif = 0 THEN Continue(t) ELSE [t EXCEPT !.st = "notify"]]
        /\ notif' = 1
        /\ obs' = H([kind |-> "put2", round |-> t.lput])
     \/ /\ t.canc \/ (Aborts /\ drv.faults > 0)      \* Put returns ctx.Err() / the write fails
        /\ UNCHANGED <<store, notif>>
        /\ tasks' = [tasks EXCEPT ![i] = [t EXCEPT !.st = "next"]]
        /\ obs' = H([kind |-> "puterr", round |-> t.lput])

\* tryNode: `s.newSyncedBeacon <- beacon` was blocked on the full 1-slot channel; then the target test
TaskNotify(i) ==
  LET t == tasks[i] IN
  /\ t.st = "notify" /\ notif = 0
  /\ notif' = 1
  /\ tasks' = [tasks EXCEPT ![i] = Continue(t)]
  /\ obs' = H([kind |-> "notify"])
  /\ UNCHANGED <<cfg, store, alast, slast, called, queue, age, cur, ctxDone, drv, agg>>

\* Sync returned
TaskReap(i) ==
  LET t == tasks[i] IN
  /\ t.st = "ret"
  /\ UNCHANGED <<cfg, store, alast, slast, called, queue, age, notif, agg>>
  /\ obs' = H([kind |-> "reap", owner |-> t.owner, ok |-> t.ok])
  /\ CASE t.owner = "run" ->                       \* innerCancel()
            /\ tasks' = [tasks EXCEPT ![i] = FreeTask]
            /\ IF cur = i THEN cur' = 0 /\ ctxDone' = TRUE ELSE UNCHANGED <<cur, ctxDone>>
            /\ UNCHANGED drv
       [] t.owner = "follow" ->                    \* errChan <- err ; errChan is nil unless FollowRetries
            /\ tasks' = [tasks EXCEPT ![i] = FreeTask]
            /\ drv' = [drv EXCEPT !.phase = IF t.ok THEN "done"
                                            ELSE IF FollowRetries THEN "start" ELSE "stuck"]
            /\ UNCHANGED <<cur, ctxDone>>
       [] OTHER ->                                 \* ReSync / CorrectPastBeacons
            /\ UNCHANGED <<cur, ctxDone>>
            /\ IF t.canc                                  \* CorrectPastBeacons: `case <-ctx.Done(): return ctx.Err()`
                 THEN /\ tasks' = [tasks EXCEPT ![i] = FreeTask]
                      /\ drv' = [drv EXCEPT !.todo = <<>>, !.phase = "aborted"]
               ELSE IF ~t.ok /\ t.res = "failedall" /\ ~drv.retried
                 THEN /\ \E pm \in AllPerms : tasks' = [tasks EXCEPT ![i] = NewTask("repair", pm, t.rfrom, t.upTo)]
                      /\ drv' = [drv EXCEPT !.retried = TRUE]
                 ELSE /\ tasks' = [tasks EXCEPT ![i] = FreeTask]
                      /\ drv' = [drv EXCEPT !.todo = Tail(@), !.retried = FALSE,
                                            !.failed = IF t.ok THEN @ ELSE @ \cup {t.rfrom},
                                            !.phase = IF Len(drv.todo) = 1 THEN "done" ELSE "correct"]

-----------------------------------------------------------------------------
(* SyncManager.Run                                                          *)

\* `case request := <-s.newReq` when the request is filled or a sync is in progress and recent
NeedSync(upTo) == ~(upTo > 0 /\ StoreHead(store) >= upTo)
Expired == ctxDone \/ age > 2
RunSkip ==
  /\ cfg.mode = "run" /\ queue # <<>>
  /\ ~(NeedSync(Head(queue)) /\ Expired)
  /\ queue' = Tail(queue)
  /\ obs' = H([kind |-> "req", what |-> IF NeedSync(Head(queue)) THEN "dropped" ELSE "filled"])
  /\ UNCHANGED <<cfg, store, alast, slast, called, tasks, age, cur, ctxDone, notif, drv, agg>>

\* ... when the previous sync is over or made no progress for `factor` periods:
\* cancel it and start Sync with a fresh random permutation pm
RunRestartWith(pm) ==
  /\ cfg.mode = "run" /\ queue # <<>>
  /\ NeedSync(Head(queue)) /\ Expired
  /\ (Linger \/ cur = 0) => FreeSlots # {}
  /\ LET i == IF ~Linger /\ cur # 0 THEN cur ELSE CHOOSE j \in FreeSlots : TRUE
         t0 == IF cur # 0 THEN [tasks EXCEPT ![cur].canc = TRUE] ELSE tasks
     IN tasks' = [t0 EXCEPT ![i] = NewTask("run", pm, 0, Head(queue))] /\ cur' = i
  /\ queue' = Tail(queue) /\ ctxDone' = FALSE /\ age' = 0
  /\ obs' = H([kind |-> "req", what |-> "restart"])
  /\ UNCHANGED <<cfg, store, alast, slast, called, notif, drv, agg>>

RunReq == RunSkip \/ \E pm \in AllPerms : RunRestartWith(pm)

RunNotif ==
  /\ notif = 1 /\ notif' = 0 /\ age' = 0
  /\ obs' = H([kind |-> "notif"])
  /\ UNCHANGED <<cfg, store, alast, slast, called, tasks, queue, cur, ctxDone, drv, agg>>

-----------------------------------------------------------------------------
(* Environment                                                              *)

TaskEnabled(i) ==
  LET t == tasks[i] IN
  \/ t.st \in {"next", "ret", "write"}
  \/ t.st = "notify" /\ notif = 0
  \/ t.st = "stream" /\ (t.canc \/ ItemOf(t.kind, t.k, t.from, t.pos, t.hd).t # "block")
Busy == notif = 1 \/ queue # <<>> \/ \E i \in 1..NT : TaskEnabled(i)

Tick ==
  /\ cfg.mode = "run" /\ (Eager => ~Busy)
  /\ age' = Min2(age + 1, 3)
  /\ obs' = H([kind |-> "tick"])
  /\ UNCHANGED <<cfg, store, alast, slast, called, tasks, queue, cur, ctxDone, notif, drv, agg>>

\* Handler.run at every round while behind / the aggregator after a gap
Request ==
  /\ cfg.mode = "run" /\ Len(queue) < QCap /\ (Eager => ~Busy)
  /\ queue' = Append(queue, cfg.target)
  /\ obs' = H([kind |-> "request"])
  /\ UNCHANGED <<cfg, store, alast, slast, called, tasks, age, cur, ctxDone, notif, drv, agg>>

\* the aggregator appends the next round through the same secure stack
AggPut ==
  /\ cfg.mode = "run" /\ agg < MaxAgg /\ alast < MaxR
  /\ store' = [store EXCEPT ![alast + 1] = "ok"]
  /\ alast' = alast + 1 /\ slast' = alast + 1 /\ agg' = agg + 1
  /\ obs' = H([kind |-> "aggput", round |-> alast + 1])
  /\ UNCHANGED <<cfg, called, tasks, queue, age, cur, ctxDone, notif, drv>>

-----------------------------------------------------------------------------
(* StartFollowChain / StartCheckChain drivers                               *)

FollowStartWith(pm) ==
  /\ cfg.mode = "follow" /\ drv.phase = "start" /\ FreeSlots # {}
  /\ LET i == CHOOSE j \in FreeSlots : TRUE IN tasks' = [tasks EXCEPT ![i] = NewTask("follow", pm, 0, cfg.target)]
  /\ drv' = [drv EXCEPT !.phase = "wait"]
  /\ obs' = H([kind |-> "followstart"])
  /\ UNCHANGED <<cfg, store, alast, slast, called, queue, age, cur, ctxDone, notif, agg>>
FollowStart == \E pm \in AllPerms : FollowStartWith(pm)

RepairCheck ==
  /\ cfg.mode = "repair" /\ drv.phase = "check"
  /\ IF LastUnreadable(store, cfg.chained)
       THEN /\ drv' = [drv EXCEPT !.phase = "aborted"]
            /\ obs' = H([kind |-> "checkaborted"])
       ELSE LET rep == IF CheckZeroIsClock THEN CheckOpClock(store, cfg.chained, cfg.target, MaxR)
                       ELSE CheckOp(store, cfg.chained, cfg.target) IN
            /\ drv' = [drv EXCEPT !.reported = rep, !.todo = SortedSeq(rep),
                                  !.phase = IF rep = {} THEN "done" ELSE "correct"]
            /\ obs' = H([kind |-> "check", reported |-> rep])
  /\ UNCHANGED <<cfg, store, alast, slast, called, tasks, queue, age, cur, ctxDone, notif, agg>>

RepairStartWith(pm) ==
  /\ cfg.mode = "repair" /\ drv.phase = "correct" /\ drv.todo # <<>>
  /\ \A i \in 1..NT : tasks[i].st = "free"
  /\ tasks' = [tasks EXCEPT ![1] = NewTask("repair", pm, Head(drv.todo), Head(drv.todo))]
  /\ drv' = [drv EXCEPT !.phase = "resync"]
  /\ obs' = H([kind |-> "resync", round |-> Head(drv.todo)])
  /\ UNCHANGED <<cfg, store, alast, slast, called, queue, age, cur, ctxDone, notif, agg>>
RepairStart == \E pm \in AllPerms : RepairStartWith(pm)

\* the operator hangs up / the daemon stops: the context of the running correction is cancelled
RepairCancel ==
  /\ cfg.mode = "repair" /\ Aborts /\ drv.phase = "resync"
  /\ \E i \in 1..NT : tasks[i].owner = "repair" /\ ~tasks[i].canc
  /\ tasks' = [i \in 1..NT |-> IF tasks[i].owner = "repair" THEN [tasks[i] EXCEPT !.canc = TRUE] ELSE tasks[i]]
  /\ obs' = H([kind |-> "repaircancel"])
  /\ UNCHANGED <<cfg, store, alast, slast, called, queue, age, cur, ctxDone, notif, drv, agg>>

\* In follow and repair mode SyncManager.Run is running as well; it only drains the notification slot.
Next ==
  \/ \E i \in 1..NT : TaskNext(i) \/ TaskItem(i) \/ TaskWrite(i) \/ TaskNotify(i) \/ TaskReap(i)
  \/ RepairCancel
  \/ RunReq \/ RunNotif \/ Tick \/ Request \/ AggPut
  \/ FollowStart \/ RepairCheck \/ RepairStart

TaskStep(i) == TaskNext(i) \/ TaskItem(i) \/ TaskWrite(i) \/ TaskNotify(i) \/ TaskReap(i)

Spec == Init /\ [][Next]_vars

\* Fairness: every goroutine runs; the environment keeps ticking and asking; the random
\* permutation of Sync is fair (every order is drawn again and again: strong fairness).
Fairness ==
  /\ \A i \in 1..NT : WF_vars(TaskStep(i))
  /\ WF_vars(RunNotif) /\ SF_vars(Tick) /\ SF_vars(Request)
  /\ WF_vars(FollowStart) /\ WF_vars(RepairCheck) /\ WF_vars(RepairStart)
  /\ WF_vars(RunSkip) /\ \A pm \in AllPerms : SF_vars(RunRestartWith(pm))
LiveSpec == Spec /\ Fairness

View == <<cfg, store, alast, slast, called, tasks, queue, age, cur, ctxDone, notif, drv, agg>>

-----------------------------------------------------------------------------
(* Properties of the design                                                 *)

TypeOK ==
  /\ store \in [Rounds -> {"none", "ok", "bad"}]
  /\ alast \in Rounds /\ slast \in Rounds
  /\ Len(queue) <= QCap /\ age \in 0..3 /\ notif \in 0..1 /\ cur \in 0..NT
  /\ \A i \in 1..NT : tasks[i].st \in {"free", "next", "stream", "write", "notify", "ret"}

Inv_OnlyVerifiedInOrder ==
  obs.kind = "put" => OnlyVerifiedInOrder(obs.resync, obs.verifies, obs.round, obs.hb, obs.req)
Inv_NothingFromLiars == obs.kind = "put" => NothingFromLiars(obs.taint)

\* outside repair the store is always a gap-free valid chain
Inv_Chain == cfg.mode # "repair" => \A r \in Rounds : r <= StoreHead(store) => store[r] = "ok"

\* repair never touches a round that the check did not report
Inv_RepairUntouched ==
  (cfg.mode = "repair" /\ drv.phase # "check") => RepairUntouched(cfg.store0, store, drv.reported)

\* a repair that ended - done, cancelled or after a failed write - has lost no round that was stored before it
\* (C02 and C10: RepairLosesRound)
RepairLosesRound(pre, post) == \E r \in DOMAIN pre : pre[r] # "none" /\ post[r] = "none"
Inv_RepairKeepsRounds ==
  (cfg.mode = "repair" /\ drv.phase \in {"done", "aborted"}) => ~RepairLosesRound(cfg.store0, store)

\* a repair writes through the raw store: it never moves the head (C02: WritesAboveHead)
Inv_RepairKeepsHead == cfg.mode = "repair" => StoreHead(store) <= StoreHead(cfg.store0)

\* the check always produces a report
Inv_CheckNeverAborts == drv.phase # "aborted"

Goal == IF cfg.mode = "repair" THEN 0 ELSE IF cfg.target = 0 THEN MaxR ELSE cfg.target
\* an honest reachable peer that is ahead (a first transient failure is allowed)
HonestAhead ==
  \E p \in Peers : PType(p)[2] = "Honest" /\ PType(p)[4] >= Goal
                   /\ (cfg.mode = "repair" => PType(p)[4] >= cfg.start)
Converged ==
  IF cfg.mode = "repair"
    THEN drv.phase = "done" /\ RepairRestored(store, drv.reported)
    ELSE ConvergedAt(StoreHead(store), Goal)
Converges == HonestAhead => <>Converged
=============================================================================
