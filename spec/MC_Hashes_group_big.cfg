SPECIFICATION Spec
CONSTANTS
  Family = "group"
  Periods = {3, 30}
  Geneses = {1600000000, 1600000030}
  Firsts = {"A", "B"}
  Seeds = {"S1"}
  Ids = {"", "default", "a"}
  NodeIdx = {0, 1, 2, 5}
  NodeKeys = {"N1", "N2", "N3"}
  MaxNodes = 3
  Transitions = {0, 1600003000, 1600006000}
  Rests = {"x", "y"}
INVARIANTS TypeOK Inv_PerturbChanges Inv_DefaultIdEquivalent Inv_GroupChain Inv_PermuteKeeps Inv_ReshareKeepsChain Inv_ViaKeeps
VIEW View
CHECK_DEADLOCK FALSE
