------------------------------ MODULE HttpRelay ------------------------------
(***************************************************************************)
(* Transcription of handler/http/server.go: one BeaconHandler of the       *)
(* public HTTP API (C01, HTTP part).                                       *)
(*                                                                         *)
(*   latest   bh.latestRound   (0 = "not synchronised with the watch")     *)
(*   pending  bh.pending       (waiters parked for "the next round")       *)
(*   req      one entry per in-flight request slot                         *)
(*              pc = "idle"    no request                                  *)
(*                   "checked" getRand took the FIRST look at latestRound  *)
(*                             (RLock) and decided to block; it has not    *)
(*                             yet taken the write lock for the second look*)
(*                   "parked"  its channel is in bh.pending                *)
(*   stream   "off" (startOnce not run) | "conn" (Watch channel open) |    *)
(*            "backoff" (channel closed, loop sleeps watchConnectBackoff)  *)
(*   sent     last round sent on the current connection (Monotone only)    *)
(*   head     last round of the backing node (client.Get / items <= head)  *)
(*   cur      wall-clock round: dateOfRound(r) <= now  <=>  r <= cur       *)
(*   out      responses produced by the last step (observable)             *)
(*   act      label of the last step (history; hidden by VIEW)             *)
(*                                                                         *)
(* One action per critical section of pendingLk / per client call:         *)
(*   ReqStart    PublicRand up to the first look in getRand (RLock)        *)
(*   ReqCheck2   second look under Lock: park, or fall through             *)
(*   WatchItem   one iteration of watchWithTimeout on a received item: every *)
(*               parked request is handed (round, json); it answers with it *)
(*               only if that is its round and the json is not empty, else  *)
(*               it fetches its round the regular way (repair of F12 a/b)   *)
(*   StreamFail  the iteration on a closed channel: latestRound = 0 and the *)
(*               parked requests are released to fetch for themselves       *)
(*   Reconnect   Watch calls client.Watch again after the back-off         *)
(*   IdleReconn  the expectedRoundDelayBackoff timer: new Watch, no reset  *)
(*   Timeout     request context done while parked                         *)
(*   ReqLatest   LatestRand (client.Get(0))                                *)
(*   NodeAdvance / Tick   environment                                      *)
(*                                                                         *)
(* A response body is abstracted to: x >= 1 = json of the beacon of round  *)
(* x, 0 = the empty byte string, -1 = no body of interest (not 200).       *)
(* Deliberate deviations from the code, all named:                         *)
(*  - the wall clock only classifies requests (cur); the harness freezes   *)
(*    it per scenario (period 1 h), Tick is explored by TLC only;          *)
(*  - Timeout is one step (select on ctx.Done, Lock, remove);              *)
(*  - Health / ChainInfo / ChainHashes do not touch this state (Health     *)
(*    may run startOnce, which is the same as the first ReqStart).         *)
(***************************************************************************)
EXTENDS Naturals, Integers, FiniteSets, Sequences, TLC

CONSTANTS W,         \* request slots (concurrent HTTP requests)
          MaxRound,  \* rounds 1..MaxRound exist, requests for 1..MaxRound+1
          Curs,      \* possible wall-clock rounds at the start
          Monotone,  \* TRUE: one connection only delivers increasing rounds (may skip)
          Ticks,     \* TRUE: the wall clock may advance
          IdleRec    \* TRUE: idle-timer reconnects are explored

VARIABLES latest, pending, req, stream, sent, head, cur, out, act

vars == <<latest, pending, req, stream, sent, head, cur, out, act>>

IdleReq == [pc |-> "idle", round |-> 0]

-----------------------------------------------------------------------------
(* Pure operators (also applied by Trace_HttpRelay to observed calls)        *)

\* getRand: block = (bh.latestRound+1 == round) && bh.latestRound != 0
Blocks(lat, r) == lat + 1 = r /\ lat # 0

\* PublicRand: roundExpectedTime.After(time.Now().Add(info.Period)) -> 404
TooFar(r, cu) == r > cu + 1

\* watchWithTimeout: b = json(next); if latestRound+1 != next.round && latestRound != 0 { b = []byte{} }
ItemBody(lat, x) == IF lat + 1 # x /\ lat # 0 THEN 0 ELSE x
\* getRand, released with watchUpdate{round: x, data: b}: r.round == round && len(r.data) > 0
ItemServes(lat, x, r) == x = r /\ ItemBody(lat, x) # 0

\* getRand after it decided not to block: future round -> nil (404); else client.Get(round)
Direct(r, cu, hd) == IF r > cu THEN [status |-> 404, body |-> -1]
                     ELSE IF r <= hd THEN [status |-> 200, body |-> r]
                     ELSE [status |-> 500, body |-> -1]

\* LatestRand: client.Get(0)
LatestResp(hd) == IF hd >= 1 THEN [status |-> 200, body |-> hd] ELSE [status |-> 500, body |-> -1]

Resp(w, r, s, b, via) == [w |-> w, round |-> r, status |-> s, body |-> b, via |-> via]

-----------------------------------------------------------------------------
(* Monitors: C01 for the HTTP interface, over observable responses only      *)

\* a successful answer is never empty ...
NoEmpty200(rsp) == rsp.status = 200 => rsp.body # 0
\* ... and to a request for round r > 0 it is the beacon of round r, to `latest` a beacon >= 1
RightRound(rsp) == (rsp.status = 200 /\ rsp.body # 0) =>
                      IF rsp.round > 0 THEN rsp.body = rsp.round ELSE rsp.body >= 1
RespOK(rsp) == NoEmpty200(rsp) /\ RightRound(rsp)
Mon_C01_HTTP(o) == \A rsp \in o : RespOK(rsp)

-----------------------------------------------------------------------------
Init == /\ latest = 0 /\ pending = {} /\ req = [w \in W |-> IdleReq]
        /\ stream = "off" /\ sent = 0 /\ head = 0 /\ cur \in Curs
        /\ out = {} /\ act = <<"Init", cur>>

\* canonical slot choice (slots are interchangeable): the lowest idle slot
Lowest(w) == req[w].pc = "idle" /\ \A v \in W : v < w => req[v].pc # "idle"

Started == IF stream = "off" THEN "conn" ELSE stream

ReqStart(w, r) ==
  /\ Lowest(w)
  /\ act' = <<"ReqStart", w, r>>
  /\ UNCHANGED <<latest, pending, head, cur, sent>>
  /\ IF TooFar(r, cur)
       THEN /\ out' = {Resp(w, r, 404, -1, "far")}
            /\ UNCHANGED <<req, stream>>
       ELSE /\ stream' = Started            \* bh.startOnce.Do(start): go Watch -> client.Watch
            /\ IF Blocks(latest, r)
                 THEN /\ req' = [req EXCEPT ![w] = [pc |-> "checked", round |-> r]]
                      /\ out' = {}
                 ELSE /\ LET d == Direct(r, cur, head) IN out' = {Resp(w, r, d.status, d.body, "direct")}
                      /\ UNCHANGED req

ReqCheck2(w) ==
  /\ req[w].pc = "checked"
  /\ act' = <<"ReqCheck2", w>>
  /\ UNCHANGED <<latest, stream, head, cur, sent>>
  /\ IF Blocks(latest, req[w].round)
       THEN /\ pending' = pending \cup {w}
            /\ req' = [req EXCEPT ![w].pc = "parked"]
            /\ out' = {}
       ELSE /\ LET d == Direct(req[w].round, cur, head) IN
                 out' = {Resp(w, req[w].round, d.status, d.body, "direct2")}
            /\ req' = [req EXCEPT ![w] = IdleReq]
            /\ UNCHANGED pending

\* a released request whose round was not served by the watch loop goes on like one that never parked
Refetch(w, via) == LET d == Direct(req[w].round, cur, head) IN Resp(w, req[w].round, d.status, d.body, via)

WatchItem(x) ==
  /\ stream = "conn"
  /\ x \in 1..head
  /\ Monotone => x > sent
  /\ act' = <<"WatchItem", x>>
  /\ out' = {IF ItemServes(latest, x, req[w].round) THEN Resp(w, req[w].round, 200, x, "item")
                                                    ELSE Refetch(w, "item-refetch") : w \in pending}
  /\ latest' = x
  /\ pending' = {}
  /\ req' = [w \in W |-> IF w \in pending THEN IdleReq ELSE req[w]]
  /\ sent' = IF Monotone THEN x ELSE 0
  /\ UNCHANGED <<stream, head, cur>>

StreamFail ==
  /\ stream = "conn"
  /\ act' = <<"StreamFail">>
  /\ stream' = "backoff"
  /\ latest' = 0
  /\ out' = {Refetch(w, "fail-refetch") : w \in pending}     \* releasePending(watchUpdate{})
  /\ pending' = {}
  /\ req' = [w \in W |-> IF w \in pending THEN IdleReq ELSE req[w]]
  /\ UNCHANGED <<sent, head, cur>>

Reconnect ==
  /\ stream = "backoff"
  /\ act' = <<"Reconnect">>
  /\ stream' = "conn" /\ sent' = 0
  /\ out' = {}
  /\ UNCHANGED <<latest, pending, req, head, cur>>

IdleReconn ==
  /\ IdleRec /\ stream = "conn" /\ (Monotone => sent # 0)
  /\ act' = <<"IdleReconn">>
  /\ sent' = 0
  /\ out' = {}
  /\ UNCHANGED <<latest, pending, req, stream, head, cur>>

Timeout(w) ==
  /\ req[w].pc = "parked"
  /\ act' = <<"Timeout", w>>
  /\ pending' = pending \ {w}
  /\ out' = {Resp(w, req[w].round, 500, -1, "timeout")}
  /\ req' = [req EXCEPT ![w] = IdleReq]
  /\ UNCHANGED <<latest, stream, sent, head, cur>>

ReqLatest(w) ==
  /\ Lowest(w)
  /\ act' = <<"ReqLatest", w>>
  /\ LET d == LatestResp(head) IN out' = {Resp(w, 0, d.status, d.body, "latest")}
  /\ UNCHANGED <<latest, pending, req, stream, sent, head, cur>>

NodeAdvance ==
  /\ head < MaxRound
  /\ act' = <<"NodeAdvance">>
  /\ head' = head + 1
  /\ out' = {}
  /\ UNCHANGED <<latest, pending, req, stream, sent, cur>>

Tick ==
  /\ Ticks /\ cur < MaxRound
  /\ act' = <<"Tick">>
  /\ cur' = cur + 1
  /\ out' = {}
  /\ UNCHANGED <<latest, pending, req, stream, sent, head>>

Next == \/ \E w \in W, r \in 1..(MaxRound + 1) : ReqStart(w, r)
        \/ \E w \in W : ReqCheck2(w)
        \/ \E x \in 1..MaxRound : WatchItem(x)
        \/ StreamFail \/ Reconnect \/ IdleReconn
        \/ \E w \in W : Timeout(w)
        \/ \E w \in W : ReqLatest(w)
        \/ NodeAdvance \/ Tick

Spec == Init /\ [][Next]_vars

\* exhaustive configs hide only the label; the tour config also hides the responses
View == <<latest, pending, req, stream, sent, head, cur, out>>
ViewTour == <<latest, pending, req, stream, sent, head, cur>>

-----------------------------------------------------------------------------
TypeOK == /\ latest \in 0..MaxRound /\ head \in 0..MaxRound /\ cur \in 1..MaxRound
          /\ sent \in 0..MaxRound /\ pending \subseteq W
          /\ stream \in {"off", "conn", "backoff"}
          /\ \A w \in W : req[w].pc \in {"idle", "checked", "parked"} /\ req[w].round \in 0..(MaxRound + 1)

\* bh.pending holds exactly the parked requests; nothing is parked before the watch started
Inv_Pending == /\ pending = {w \in W : req[w].pc = "parked"}
               /\ stream = "off" => (pending = {} /\ latest = 0)
               /\ stream = "backoff" => (latest = 0 /\ pending = {})
\* a request stays parked only while the watch loop is exactly one round behind it
Inv_ParkedNext == \A w \in pending : latest # 0 /\ latest + 1 = req[w].round

\* C01 on the design (failed in two shapes before the repair of F12 a/b: empty 200 after a skipped
\* round; another round after a stream reset - MC_HttpRelay_f12a / _f12b keep searching for them)
Inv_C01_HTTP == Mon_C01_HTTP(out)
Inv_NoEmpty200 == \A rsp \in out : NoEmpty200(rsp)
Inv_RightRound == \A rsp \in out : RightRound(rsp)
\* (the realistic instance of F12b: a LATER round than the one asked for)
Inv_NoLaterRound == \A rsp \in out : (rsp.status = 200 /\ rsp.round > 0) => rsp.body <= rsp.round
=============================================================================
