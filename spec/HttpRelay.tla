------------------------------ MODULE HttpRelay ------------------------------
(***************************************************************************)
(* Transcription of handler/http/server.go: one BeaconHandler of the       *)
(* public HTTP API (C01, HTTP part).                                       *)
(*                                                                         *)
(*   latest   bh.latestRound   (0 = "not synchronised with the watch")     *)
(*   pending  bh.pending       (waiters parked for "the next round")       *)
(*   req      one entry per in-flight request slot                         *)
(*              pc = "idle"    no request                                  *)
(*                   "checked" getRand took the FIRST look at latestRound  *)
(*                             (RLock) and decided to block; it has not    *)
(*                             yet taken the write lock for the second look*)
(*                   "parked"  its channel is in bh.pending                *)
(*   stream   "off" (startOnce not run) | "conn" (Watch channel open) |    *)
(*            "backoff" (channel closed, loop sleeps watchConnectBackoff)  *)
(*   sent     last round sent on the current connection (Monotone only)    *)
(*   head     last round of the backing node (client.Get / items <= head)  *)
(*   cur      wall-clock round: dateOfRound(r) <= now  <=>  r <= cur       *)
(*   out      responses produced by the last step (observable)             *)
(*   act      label of the last step (history; hidden by VIEW)             *)
(*                                                                         *)
(* One action per critical section of pendingLk / per client call:         *)
(*   ReqStart    PublicRand up to the first look in getRand (RLock)        *)
(*   ReqCheck2   second look under Lock: park, or fall through             *)
(*   WatchItem   one iteration of watchWithTimeout on a received item: every *)
(*               parked request is handed (round, json); it answers with it *)
(*               only if that is its round and the json is not empty, else  *)
(*               it fetches its round the regular way (repair of F12 a/b)   *)
(*   StreamFail  the iteration on a closed channel: latestRound = 0 and the *)
(*               parked requests are released to fetch for themselves       *)
(*   Reconnect   Watch calls client.Watch again after the back-off         *)
(*   IdleReconn  the expectedRoundDelayBackoff timer: new Watch, no reset  *)
(*   Timeout     request context done while parked                         *)
(*   ReqLatest   LatestRand (client.Get(0))                                *)
(*   NodeAdvance / Tick   environment                                      *)
(*                                                                         *)
(* A response body is abstracted to: x >= 1 = json of the beacon of round  *)
(* x, 0 = the empty byte string, -1 = no body of interest (not 200).       *)
(* Deliberate deviations from the code, all named:                         *)
(*  - the wall clock only classifies requests (cur); the harness freezes   *)
(*    it per scenario (period 1 h), Tick is explored by TLC only;          *)
(*  - Timeout is one step (select on ctx.Done, Lock, remove);              *)
(*  - Health / ChainInfo / ChainHashes do not touch this state (Health     *)
(*    may run startOnce, which is the same as the first ReqStart).         *)
(***************************************************************************)
EXTENDS Naturals, Integers, FiniteSets, Sequences, TLC

CONSTANTS W,         \* request slots (concurrent HTTP requests)
          MaxRound,  \* rounds 1..MaxRound exist, requests for 1..MaxRound+1
          Curs,      \* possible wall-clock rounds at the start
          Monotone,  \* TRUE: one connection only delivers increasing rounds (may skip)
          Ticks,     \* TRUE: the wall clock may advance
          IdleRec,   \* TRUE: idle-timer reconnects are explored
          Cap,       \* capacity of a waiter's channel (make(chan watchUpdate, 1)); SpecFine only
          Eager      \* SpecFine only: steps the goroutines take by themselves have priority (replayable schedules)

VARIABLES latest, pending, req, stream, sent, head, cur, out, act,
          \* the hand-over at its real grain (SpecFine; constant under Spec):
          lk,        \* writer of pendingLk: "free" | "watch" (a request holds it only inside one step)
          wpc,       \* the watch loop: st = "recv" | "wantlock" | "gate" (hook http.watch.locked) | "sending"
          ch,        \* per request slot: content of its waiter channel (at most max(Cap,1) updates)
          ctxd       \* per request slot: its context is done (client went away)

fvars == <<lk, wpc, ch, ctxd>>
vars == <<latest, pending, req, stream, sent, head, cur, out, act, lk, wpc, ch, ctxd>>

IdleReq == [pc |-> "idle", round |-> 0]

-----------------------------------------------------------------------------
(* Pure operators (also applied by Trace_HttpRelay to observed calls)        *)

\* getRand: block = (bh.latestRound+1 == round) && bh.latestRound != 0
Blocks(lat, r) == lat + 1 = r /\ lat # 0

\* PublicRand: roundExpectedTime.After(time.Now().Add(info.Period)) -> 404
TooFar(r, cu) == r > cu + 1

\* watchWithTimeout: b = json(next); if latestRound+1 != next.round && latestRound != 0 { b = []byte{} }
ItemBody(lat, x) == IF lat + 1 # x /\ lat # 0 THEN 0 ELSE x
\* getRand, released with watchUpdate{round: x, data: b}: r.round == round && len(r.data) > 0
ItemServes(lat, x, r) == x = r /\ ItemBody(lat, x) # 0

\* getRand after it decided not to block: future round -> nil (404); else client.Get(round)
Direct(r, cu, hd) == IF r > cu THEN [status |-> 404, body |-> -1]
                     ELSE IF r <= hd THEN [status |-> 200, body |-> r]
                     ELSE [status |-> 500, body |-> -1]

\* LatestRand: client.Get(0)
LatestResp(hd) == IF hd >= 1 THEN [status |-> 200, body |-> hd] ELSE [status |-> 500, body |-> -1]

Resp(w, r, s, b, via) == [w |-> w, round |-> r, status |-> s, body |-> b, via |-> via]

-----------------------------------------------------------------------------
(* Monitors: C01 for the HTTP interface, over observable responses only      *)

\* a successful answer is never empty ...
NoEmpty200(rsp) == rsp.status = 200 => rsp.body # 0
\* ... and to a request for round r > 0 it is the beacon of round r, to `latest` a beacon >= 1
RightRound(rsp) == (rsp.status = 200 /\ rsp.body # 0) =>
                      IF rsp.round > 0 THEN rsp.body = rsp.round ELSE rsp.body >= 1
RespOK(rsp) == NoEmpty200(rsp) /\ RightRound(rsp)
Mon_C01_HTTP(o) == \A rsp \in o : RespOK(rsp)

-----------------------------------------------------------------------------
Init == /\ latest = 0 /\ pending = {} /\ req = [w \in W |-> IdleReq]
        /\ stream = "off" /\ sent = 0 /\ head = 0 /\ cur \in Curs
        /\ out = {} /\ act = <<"Init", cur>>
        /\ lk = "free" /\ wpc = [st |-> "recv", x |-> 0, fail |-> FALSE, todo |-> {}, body |-> 0]
        /\ ch = [w \in W |-> <<>>] /\ ctxd = [w \in W |-> FALSE]

\* canonical slot choice (slots are interchangeable): the lowest idle slot
Lowest(w) == req[w].pc = "idle" /\ \A v \in W : v < w => req[v].pc # "idle"

Started == IF stream = "off" THEN "conn" ELSE stream

ReqStart(w, r) ==
  /\ UNCHANGED fvars
  /\ Lowest(w)
  /\ act' = <<"ReqStart", w, r>>
  /\ UNCHANGED <<latest, pending, head, cur, sent>>
  /\ IF TooFar(r, cur)
       THEN /\ out' = {Resp(w, r, 404, -1, "far")}
            /\ UNCHANGED <<req, stream>>
       ELSE /\ stream' = Started            \* bh.startOnce.Do(start): go Watch -> client.Watch
            /\ IF Blocks(latest, r)
                 THEN /\ req' = [req EXCEPT ![w] = [pc |-> "checked", round |-> r]]
                      /\ out' = {}
                 ELSE /\ LET d == Direct(r, cur, head) IN out' = {Resp(w, r, d.status, d.body, "direct")}
                      /\ UNCHANGED req

ReqCheck2(w) ==
  /\ UNCHANGED fvars
  /\ req[w].pc = "checked"
  /\ act' = <<"ReqCheck2", w>>
  /\ UNCHANGED <<latest, stream, head, cur, sent>>
  /\ IF Blocks(latest, req[w].round)
       THEN /\ pending' = pending \cup {w}
            /\ req' = [req EXCEPT ![w].pc = "parked"]
            /\ out' = {}
       ELSE /\ LET d == Direct(req[w].round, cur, head) IN
                 out' = {Resp(w, req[w].round, d.status, d.body, "direct2")}
            /\ req' = [req EXCEPT ![w] = IdleReq]
            /\ UNCHANGED pending

\* a released request whose round was not served by the watch loop goes on like one that never parked
Refetch(w, via) == LET d == Direct(req[w].round, cur, head) IN Resp(w, req[w].round, d.status, d.body, via)

WatchItem(x) ==
  /\ UNCHANGED fvars
  /\ stream = "conn"
  /\ x \in 1..head
  /\ Monotone => x > sent
  /\ act' = <<"WatchItem", x>>
  /\ out' = {IF ItemServes(latest, x, req[w].round) THEN Resp(w, req[w].round, 200, x, "item")
                                                    ELSE Refetch(w, "item-refetch") : w \in pending}
  /\ latest' = x
  /\ pending' = {}
  /\ req' = [w \in W |-> IF w \in pending THEN IdleReq ELSE req[w]]
  /\ sent' = IF Monotone THEN x ELSE 0
  /\ UNCHANGED <<stream, head, cur>>

StreamFail ==
  /\ UNCHANGED fvars
  /\ stream = "conn"
  /\ act' = <<"StreamFail">>
  /\ stream' = "backoff"
  /\ latest' = 0
  /\ out' = {Refetch(w, "fail-refetch") : w \in pending}     \* releasePending(watchUpdate{})
  /\ pending' = {}
  /\ req' = [w \in W |-> IF w \in pending THEN IdleReq ELSE req[w]]
  /\ UNCHANGED <<sent, head, cur>>

Reconnect ==
  /\ UNCHANGED fvars
  /\ stream = "backoff"
  /\ act' = <<"Reconnect">>
  /\ stream' = "conn" /\ sent' = 0
  /\ out' = {}
  /\ UNCHANGED <<latest, pending, req, head, cur>>

IdleReconn ==
  /\ UNCHANGED fvars
  /\ IdleRec /\ stream = "conn" /\ (Monotone => sent # 0)
  /\ act' = <<"IdleReconn">>
  /\ sent' = 0
  /\ out' = {}
  /\ UNCHANGED <<latest, pending, req, stream, head, cur>>

Timeout(w) ==
  /\ UNCHANGED fvars
  /\ req[w].pc = "parked"
  /\ act' = <<"Timeout", w>>
  /\ pending' = pending \ {w}
  /\ out' = {Resp(w, req[w].round, 500, -1, "timeout")}
  /\ req' = [req EXCEPT ![w] = IdleReq]
  /\ UNCHANGED <<latest, stream, sent, head, cur>>

ReqLatest(w) ==
  /\ UNCHANGED fvars
  /\ Lowest(w)
  /\ act' = <<"ReqLatest", w>>
  /\ LET d == LatestResp(head) IN out' = {Resp(w, 0, d.status, d.body, "latest")}
  /\ UNCHANGED <<latest, pending, req, stream, sent, head, cur>>

NodeAdvance ==
  /\ UNCHANGED fvars
  /\ head < MaxRound
  /\ act' = <<"NodeAdvance">>
  /\ head' = head + 1
  /\ out' = {}
  /\ UNCHANGED <<latest, pending, req, stream, sent, cur>>

Tick ==
  /\ UNCHANGED fvars
  /\ Ticks /\ cur < MaxRound
  /\ act' = <<"Tick">>
  /\ cur' = cur + 1
  /\ out' = {}
  /\ UNCHANGED <<latest, pending, req, stream, sent, head>>

Next == \/ \E w \in W, r \in 1..(MaxRound + 1) : ReqStart(w, r)
        \/ \E w \in W : ReqCheck2(w)
        \/ \E x \in 1..MaxRound : WatchItem(x)
        \/ StreamFail \/ Reconnect \/ IdleReconn
        \/ \E w \in W : Timeout(w)
        \/ \E w \in W : ReqLatest(w)
        \/ NodeAdvance \/ Tick

\* The coarse machine: one watch-loop iteration (Lock; update; send to every waiter; Unlock) is ONE step and so
\* is a cancelled request (ctx.Done; Lock; remove; drain; Unlock).  That is sound as long as a send to a waiter
\* never blocks inside the critical section - which is what SpecFine below establishes for Cap >= 1.
\* (every coarse action leaves the fine-grain variables alone)

Spec == Init /\ [][Next]_vars

-----------------------------------------------------------------------------
(* The hand-over between the watch loop and the parked requests at its real grain (C14: no request may  *)
(* leave pendingLk held or the watch loop stopped).                                                     *)
(*   FRecv(x)    the loop receives item x from the stream (then marshals it, wants the lock)            *)
(*   FFailRecv   the loop sees the stream closed                                                        *)
(*   FLock       bh.pendingLk.Lock() granted; on an item the loop is now at hook http.watch.locked      *)
(*   FRelease    (the harness opens the gate) latestRound = x; releasePending copies and clears the list*)
(*   FSend(w)    waiter <- u  for one waiter of the copied list (blocks while the channel is full)      *)
(*   FUnlock     bh.pendingLk.Unlock(); back to the select                                              *)
(*   Cancel(w)   the client of parked request w goes away (its context is done)                         *)
(*   FDone(w)    the select of getRand takes the ctx.Done branch; the request now wants the write lock  *)
(*   FUnreg(w)   Lock; remove itself from bh.pending; drain its channel; return ctx.Err(); Unlock       *)
(*   FTake(w)    the select takes the channel branch: answer with the update or fetch the regular way   *)
(* Requests that need pendingLk (ReqStart: RLock, ReqCheck2: Lock) wait while the loop holds it.         *)

Upd(r, b) == [round |-> r, body |-> b]
WIdle == [st |-> "recv", x |-> 0, fail |-> FALSE, todo |-> {}, body |-> 0]
Finish(w) == /\ req' = [req EXCEPT ![w] = IdleReq]
             /\ ch' = [ch EXCEPT ![w] = <<>>]
             /\ ctxd' = [ctxd EXCEPT ![w] = FALSE]

\* a send returns at once iff there is room in the channel or (unbuffered) the receiver sits in its select
SendOK(w) == IF Cap = 0 THEN req[w].pc = "parked" /\ ch[w] = <<>> ELSE Len(ch[w]) < Cap
\* the watch loop is stuck in `waiter <- u` while it holds pendingLk; every waiter left in its list has
\* either left its select for good (it waits for the very lock the loop holds) or has a full channel
WatchBlocked == wpc.st = "sending" /\ wpc.todo # {} /\ \A w \in wpc.todo : ~SendOK(w)
\* C14 for the relay: the loop never blocks holding the lock, hence every request that waits for the lock
\* gets it and a fresh request afterwards is answered
RelayNotWedged == ~WatchBlocked

FRecv(x) ==
  /\ stream = "conn" /\ wpc.st = "recv"
  /\ x \in 1..head
  /\ Monotone => x > sent
  /\ act' = <<"FRecv", x>>
  /\ wpc' = [WIdle EXCEPT !.st = "wantlock", !.x = x]
  /\ sent' = IF Monotone THEN x ELSE 0
  /\ out' = {}
  /\ UNCHANGED <<latest, pending, req, stream, head, cur, lk, ch, ctxd>>

FFailRecv ==
  /\ stream = "conn" /\ wpc.st = "recv"
  /\ act' = <<"FFailRecv">>
  /\ wpc' = [WIdle EXCEPT !.st = "wantlock", !.fail = TRUE]
  /\ stream' = "backoff"
  /\ out' = {}
  /\ UNCHANGED <<latest, pending, req, sent, head, cur, lk, ch, ctxd>>

FLock ==
  /\ wpc.st = "wantlock" /\ lk = "free"
  /\ act' = <<"FLock">>
  /\ lk' = "watch"
  /\ out' = {}
  /\ IF wpc.fail
       THEN /\ latest' = 0                                      \* releasePending(watchUpdate{})
            /\ wpc' = [wpc EXCEPT !.st = "sending", !.todo = pending, !.body = 0]
            /\ pending' = {}
       ELSE /\ wpc' = [wpc EXCEPT !.st = "gate"]
            /\ UNCHANGED <<latest, pending>>
  /\ UNCHANGED <<req, stream, sent, head, cur, ch, ctxd>>

FRelease ==
  /\ wpc.st = "gate"
  /\ act' = <<"FRelease">>
  /\ wpc' = [wpc EXCEPT !.st = "sending", !.todo = pending, !.body = ItemBody(latest, wpc.x)]
  /\ latest' = wpc.x
  /\ pending' = {}
  /\ out' = {}
  /\ UNCHANGED <<req, stream, sent, head, cur, lk, ch, ctxd>>

\* what a request does with the update it receives
Deliver(w, u) ==
  /\ out' = {IF u.round = req[w].round /\ u.body # 0 THEN Resp(w, req[w].round, 200, u.body, "item")
                                                     ELSE Refetch(w, "item-refetch")}
  /\ Finish(w)

FSend(w) ==
  /\ wpc.st = "sending" /\ w \in wpc.todo /\ SendOK(w)
  /\ act' = <<"FSend", w>>
  /\ wpc' = [wpc EXCEPT !.todo = @ \ {w}]
  /\ LET u == IF wpc.fail THEN Upd(0, 0) ELSE Upd(wpc.x, wpc.body) IN
       IF Cap = 0 THEN Deliver(w, u)                            \* rendezvous with the select
       ELSE /\ ch' = [ch EXCEPT ![w] = Append(@, u)]
            /\ out' = {}
            /\ UNCHANGED <<req, ctxd>>
  /\ UNCHANGED <<latest, pending, stream, sent, head, cur, lk>>

FUnlock ==
  /\ wpc.st = "sending" /\ wpc.todo = {}
  /\ act' = <<"FUnlock">>
  /\ lk' = "free" /\ wpc' = WIdle
  /\ out' = {}
  /\ UNCHANGED <<latest, pending, req, stream, sent, head, cur, ch, ctxd>>

Cancel(w) ==
  /\ req[w].pc = "parked" /\ ~ctxd[w]
  /\ act' = <<"Cancel", w>>
  /\ ctxd' = [ctxd EXCEPT ![w] = TRUE]
  /\ out' = {}
  /\ UNCHANGED <<latest, pending, req, stream, sent, head, cur, lk, wpc, ch>>

FDone(w) ==
  /\ req[w].pc = "parked" /\ ctxd[w]
  /\ act' = <<"FDone", w>>
  /\ req' = [req EXCEPT ![w].pc = "wantlock"]
  /\ out' = {}
  /\ UNCHANGED <<latest, pending, stream, sent, head, cur, lk, wpc, ch, ctxd>>

FUnreg(w) ==
  /\ req[w].pc = "wantlock" /\ lk = "free"
  /\ act' = <<"FUnreg", w>>
  /\ pending' = pending \ {w}
  /\ out' = {Resp(w, req[w].round, 500, -1, "timeout")}
  /\ Finish(w)
  /\ UNCHANGED <<latest, stream, sent, head, cur, lk, wpc>>

FTake(w) ==
  /\ req[w].pc = "parked" /\ ch[w] # <<>>
  /\ act' = <<"FTake", w>>
  /\ Deliver(w, Head(ch[w]))
  /\ UNCHANGED <<latest, pending, stream, sent, head, cur, lk, wpc>>

\* steps the goroutines take by themselves (not schedulable from outside once they are possible)
Internal == \/ FLock \/ FUnlock
            \/ \E w \in W : FSend(w) \/ FDone(w) \/ FUnreg(w) \/ FTake(w)
\* steps of the environment / the harness.  With Eager they wait until the goroutines have done what they can
\* do by themselves, which makes every behaviour a schedule the harness can drive through the two gates.
Ext == ~(Eager /\ ENABLED Internal)
EReqStart(w, r) == Ext /\ lk = "free" /\ ReqStart(w, r)
EReqCheck2(w) == Ext /\ lk = "free" /\ ReqCheck2(w)
EReqLatest(w) == Ext /\ ReqLatest(w)
EReconnect == Ext /\ wpc.st = "recv" /\ Reconnect
ENodeAdvance == Ext /\ NodeAdvance
EFRecv(x) == Ext /\ FRecv(x)
EFFailRecv == Ext /\ FFailRecv
EFRelease == Ext /\ FRelease
ECancel(w) == Ext /\ Cancel(w)

NextFine == \/ FLock \/ FUnlock
            \/ \E w \in W : FSend(w) \/ FDone(w) \/ FUnreg(w) \/ FTake(w)
            \/ \E w \in W, r \in 1..(MaxRound + 1) : EReqStart(w, r)
            \/ \E w \in W : EReqCheck2(w) \/ EReqLatest(w) \/ ECancel(w)
            \/ EReconnect \/ ENodeAdvance \/ EFFailRecv \/ EFRelease
            \/ \E x \in 1..MaxRound : EFRecv(x)
SpecFine == Init /\ [][NextFine]_vars

ViewFine == <<latest, pending, req, stream, sent, head, cur, out, lk, wpc, ch, ctxd>>
ViewFineTour == <<latest, pending, req, stream, sent, head, cur, lk, wpc, ch, ctxd>>

\* exhaustive configs hide only the label; the tour config also hides the responses
View == <<latest, pending, req, stream, sent, head, cur, out>>
ViewTour == <<latest, pending, req, stream, sent, head, cur>>

-----------------------------------------------------------------------------
TypeFineOK == /\ lk \in {"free", "watch"}
              /\ wpc.st \in {"recv", "wantlock", "gate", "sending"} /\ wpc.todo \subseteq W
              /\ \A w \in W : Len(ch[w]) <= (IF Cap = 0 THEN 0 ELSE Cap) /\ ctxd[w] \in BOOLEAN
              /\ (lk = "watch") = (wpc.st \in {"gate", "sending"})
              /\ \A w \in W : req[w].pc \in {"idle", "checked", "parked", "wantlock"}
\* the loop's copied list only holds requests that are still in flight, and nobody is in both lists
Inv_Todo == /\ \A w \in wpc.todo : req[w].pc \in {"parked", "wantlock"}
            /\ wpc.todo \cap pending = {}
Inv_RelayNotWedged == RelayNotWedged

TypeOK == /\ latest \in 0..MaxRound /\ head \in 0..MaxRound /\ cur \in 1..MaxRound
          /\ sent \in 0..MaxRound /\ pending \subseteq W
          /\ stream \in {"off", "conn", "backoff"}
          /\ \A w \in W : req[w].pc \in {"idle", "checked", "parked"} /\ req[w].round \in 0..(MaxRound + 1)

\* bh.pending holds exactly the parked requests; nothing is parked before the watch started
Inv_Pending == /\ pending = {w \in W : req[w].pc = "parked"}
               /\ stream = "off" => (pending = {} /\ latest = 0)
               /\ stream = "backoff" => (latest = 0 /\ pending = {})
\* a request stays parked only while the watch loop is exactly one round behind it
Inv_ParkedNext == \A w \in pending : latest # 0 /\ latest + 1 = req[w].round

\* C01 on the design (failed in two shapes before the repair of F12 a/b: empty 200 after a skipped
\* round; another round after a stream reset - MC_HttpRelay_f12a / _f12b keep searching for them)
Inv_C01_HTTP == Mon_C01_HTTP(out)
Inv_NoEmpty200 == \A rsp \in out : NoEmpty200(rsp)
Inv_RightRound == \A rsp \in out : RightRound(rsp)
\* (the realistic instance of F12b: a LATER round than the one asked for)
Inv_NoLaterRound == \A rsp \in out : (rsp.status = 200 /\ rsp.round > 0) => rsp.body <= rsp.round
=============================================================================
