-------------------------- MODULE Trace_PublicRand --------------------------
(* Validates BeaconProcess.PublicRand / PublicRandStream executions (TestVerifPublicAPI) against  *)
(* PublicRand.tla: the recorded steps are applied with the specification's operators, the observed   *)
(* answer is compared with the specification's (Conformance) and judged by the C01 monitors.        *)
EXTENDS PublicRand, Sequences, Json

TraceLog == ndJsonDeserialize("trace.ndjson")
VARIABLES l, alarms, scen, hstart
tvars == <<vars, l, alarms, scen, hstart>>

Alarm(mon, e, d) == [mon |-> mon, scenario |-> scen, ev |-> e.ev, line |-> l, detail |-> d]
If(c, S) == IF c THEN S ELSE {}
Range(s) == {s[k] : k \in DOMAIN s}

TraceInit == Init /\ l = 1 /\ alarms = {} /\ scen = "none" /\ hstart = 0

StepInit(e) == /\ e.ev = "Init" /\ scen' = e.scenario /\ head' = 0 /\ pc' = "idle" /\ wanted' = 0 /\ hread' = 0
               /\ cbSeen' = 0 /\ resp' = NoResp /\ puts' = 0 /\ alarms' = alarms /\ hstart' = 0

StepPut(e) == /\ e.ev = "Put"
              /\ head' = e.round
              /\ cbSeen' = IF pc = "registered" /\ cbSeen = 0 THEN e.round ELSE cbSeen
              /\ alarms' = alarms \cup If(e.round # head + 1, {Alarm("Conformance", e, "harness put out of order")})
              /\ UNCHANGED <<pc, wanted, hread, resp, puts, scen, hstart>>

StepStart(e) == /\ e.ev = "Start" /\ wanted' = e.r /\ hread' = e.hread /\ pc' = "afterLast" /\ hstart' = head
                /\ alarms' = alarms \cup If(e.hread # head, {Alarm("Conformance", e, "Last() read differs from the stored head")})
                /\ UNCHANGED <<head, cbSeen, resp, puts, scen>>

StepDecide(e) == /\ e.ev = "Decide"
                 /\ LET waits == wanted = hread + 1 IN
                      /\ pc' = IF e.registered THEN "registered" ELSE "done"
                      \* the direct Get reads the store now
                      /\ resp' = IF e.registered THEN resp ELSE Direct(wanted, hread, head)
                      /\ alarms' = alarms \cup If(e.registered # waits, {Alarm("Conformance", e, "callback path taken differs")})
                 /\ UNCHANGED <<head, wanted, hread, cbSeen, puts, scen, hstart>>

StepResp(e) ==
  /\ e.ev = "Resp"
  /\ LET obs == [ok |-> e.ok, round |-> e.round, set |-> TRUE]
         expect == IF pc = "registered" THEN Waited(wanted, cbSeen) ELSE resp
         \* the direct Get happens right after Last(): the harness stored its in-window beacons before Decide, so head is the head at Get
         A1 == If(~RightRound(wanted, hstart, e.head, obs), {Alarm("RightRound", e, IF wanted = 0 THEN "latest is not a head during the call" ELSE "answer carries another round than requested")})
         A2 == If(e.ok /\ ~e.verifies, {Alarm("AnswerUnverifiable", e, "served beacon does not verify under the group key")})
         A3 == If(e.ok /\ ~e.randok, {Alarm("RandomnessNotHash", e, "randomness is not sha256(signature)")})
         A4 == If(e.blocked, {Alarm("Conformance", e, "request never returned")})
         A5 == If(~e.blocked /\ obs.ok # expect.ok, {Alarm("Conformance", e, "success/failure differs from the specification")})
     IN alarms' = alarms \cup A1 \cup A2 \cup A3 \cup A4 \cup A5
  /\ pc' = "idle" /\ resp' = NoResp
  /\ UNCHANGED <<head, wanted, hread, cbSeen, puts, scen, hstart>>

StepStream(e) ==
  /\ e.ev = "Stream"
  /\ LET it == e.items
         A1 == If(\E k \in DOMAIN it : ~it[k][2], {Alarm("AnswerUnverifiable", e, "stream item does not verify")})
         A2 == If(\E k \in DOMAIN it : ~it[k][3], {Alarm("RandomnessNotHash", e, "stream randomness is not sha256(signature)")})
         A3 == If(\E k \in DOMAIN it : it[k][1] # e.from + k - 1, {Alarm("StreamOrder", e, "stream items are not from, from+1, ...")})
     IN alarms' = alarms \cup A1 \cup A2 \cup A3
  /\ UNCHANGED <<vars, scen, hstart>>

Other(e) == e.ev \in {"Note"} /\ alarms' = alarms /\ UNCHANGED <<vars, scen, hstart>>

TraceNext == /\ l <= Len(TraceLog)
             /\ LET e == TraceLog[l] IN StepInit(e) \/ StepPut(e) \/ StepStart(e) \/ StepDecide(e) \/ StepResp(e) \/ StepStream(e) \/ Other(e)
             /\ l' = l + 1
TraceSpec == TraceInit /\ [][TraceNext]_tvars
AtEnd == l = Len(TraceLog) + 1 =>
           /\ PrintT(<<"VP", "ALARMS", ToJson(alarms)>>)
           /\ PrintT(<<"VP", "DONE", ToJson([lines |-> Len(TraceLog)])>>)
=============================================================================
