SPECIFICATION MCSpec
CONSTANTS
  Kinds = {"bolt", "trimmed", "trimmedc"}
  K = 3
  Rounds = {0,1,2}
  Vals = {1,2}
  MutInCursor = TRUE
  Depth = 0
  CoverOneIn = 1
INVARIANTS TypeOK Inv_Sorted Inv_Capacity Inv_Content 
PROPERTIES Act_ModuloNamed Act_PrevAlways Act_Ring Act_Classify
VIEW View
