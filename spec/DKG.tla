--------------------------------- MODULE DKG ---------------------------------
(***************************************************************************)
(* Control and authentication part of drand's DKG (internal/dkg), written  *)
(* as an OPEN-SYSTEM MODEL OF ONE NODE (properties C08 and C09).           *)
(*                                                                         *)
(* Transcribed from                                                        *)
(*   state_machine.go   (DBState methods, isValidStateChange, ValidateProposal)*)
(*   actions_active.go  (Process.Command, StartXxx)                        *)
(*   actions_passive.go (Process.Packet, applyPacketToState)               *)
(*   actions_signing.go (messageForSigning, verifyMessage)                 *)
(*   store.go           (two buckets: current / finished)                  *)
(*   execution.go       (executeDKG/setupDKG, executeAndFinishDKG)         *)
(*                                                                         *)
(* State of the node = the two database buckets as abstract records plus   *)
(* "a key-sharing execution is running".  The environment may issue any    *)
(* operator command, any gossip packet of a finite catalogue with any      *)
(* claimed sender and any signing key, let time pass (timeouts expire) and *)
(* decide the outcome of a running execution.                              *)
(*                                                                         *)
(* The transition function is a set of PURE operators (CommandOp,          *)
(* PacketOp, TimeOp, ExecOp) so that Trace_DKG can apply them to calls     *)
(* observed on the real dkg.Process.  The monitors (C08Fails, C09Fails)    *)
(* mention only observable values: the input, the result, both buckets     *)
(* before and after.  They do not use the guards of the transition         *)
(* function.                                                               *)
(*                                                                         *)
(* Deliberate deviations / abstractions (named):                           *)
(*  - participant lists are sets (list order/permutations belong to C06);  *)
(*  - the kyber protocol is a black box: ExecOp(out), out chosen by the    *)
(*    environment, QUAL = all participants when it completes;              *)
(*  - de-duplication of byte-identical packets (Process.SeenPackets) is    *)
(*    modelled only in Trace_DKG (event field dup);                        *)
(*  - the `Dkg' oneof variant of GossipPacket is left out (F1 / C14);      *)
(*  - the v1->v2 key migration inside StartProposal is left out (never     *)
(*    triggered: all participants carry signatures);                       *)
(*  - a nil-pointer panic of the code is a result value "panic".           *)
(***************************************************************************)
EXTENDS Naturals, Sequences, FiniteSets, TLC

CONSTANTS Me,        \* participant id of the node under test: "p1" leader, "p2" member, "p3" leaver, "p4" joiner
          MaxEpoch,  \* the environment offers proposals with epoch <= MaxEpoch
          MaxTick,   \* number of TimePasses steps
          Rich,      \* TRUE: complete catalogue; FALSE: reduced catalogue (quick tier)
          Shapes     \* reshare shapes on offer: subset of {"keep", "swap"}

VARIABLES cur,    \* bucket "dkg"          (GetCurrent; Fresh record when empty)
          fin,    \* bucket "dkg_finished" (GetFinished; NoneRec when empty)
          exec,   \* "none" | "running": executeDKG succeeded and its goroutine has not finished
          tick,   \* abstract wall clock; a record with tmo <= tick has timed out
          op      \* history: last input and its result (hidden by VIEW)

vars == <<cur, fin, exec, tick, op>>
View == <<cur, fin, exec, tick>>

-----------------------------------------------------------------------------
(* Identities are (address, key, self-signature) triples.                   *)
(*  p1..p4  honest identities (p1 leads; p4 is the candidate joiner)        *)
(*  p5      outsider / attacker with its own address                        *)
(*  f1, f2  attacker key kf, validly self-signed, under address 1 / 2       *)
(*  m2      address 2, key kf, but p2's self-signature (key swapped in      *)
(*          transit: the signed message of a packet does not change)        *)
(*  b4      p4 with a broken self-signature                                 *)
(*  g3      address 3 with key bytes that are no group element              *)
(*  uu      anything the harness does not recognise                         *)
Parts == {"p1", "p2", "p3", "p4", "p5", "f1", "f2", "m2", "b4", "g3", "uu"}

Addr == [x \in Parts \cup {"none"} |->
           CASE x \in {"p1", "f1"} -> 1
             [] x \in {"p2", "f2", "m2"} -> 2
             [] x \in {"p3", "g3"} -> 3
             [] x \in {"p4", "b4"} -> 4
             [] x = "p5" -> 5
             [] x = "uu" -> 9
             [] OTHER -> 0]

Key == [x \in Parts \cup {"none"} |->
           CASE x = "p1" -> "k1" [] x = "p2" -> "k2" [] x = "p3" -> "k3"
             [] x \in {"p4", "b4"} -> "k4" [] x = "p5" -> "k5"
             [] x \in {"f1", "f2", "m2"} -> "kf"
             [] x = "g3" -> "kg"
             [] x = "uu" -> "ku"
             [] OTHER -> "k0"]

\* which key produced the self-signature carried by the participant
SigOf == [x \in Parts \cup {"none"} |->
           CASE x = "p1" -> "k1" [] x \in {"p2", "m2"} -> "k2" [] x \in {"p3", "g3"} -> "k3"
             [] x = "p4" -> "k4" [] x = "p5" -> "k5"
             [] x \in {"f1", "f2"} -> "kf"
             [] x = "b4" -> "bad"
             [] x = "uu" -> "ku"
             [] OTHER -> "k0"]

\* the genuine key of an address (what an honest observer of the network knows)
GenuineKey(a) == CASE a = 1 -> "k1" [] a = 2 -> "k2" [] a = 3 -> "k3" [] a = 4 -> "k4" [] a = 5 -> "k5" [] OTHER -> "k0"

KeyOK(p) == Key[p] # "kg"                  \* bytes unmarshal to a point
SelfSigOK(p) == KeyOK(p) /\ SigOf[p] = Key[p]

Addrs(S) == {Addr[p] : p \in S}
MinT(n) == (n \div 2) + 1                  \* kyber dkg.MinimumT
LongTmo == 99

Statuses == {"Fresh", "Proposed", "Proposing", "Accepted", "Rejected", "Aborted", "Executing",
             "Complete", "TimedOut", "Joined", "Left", "Failed"}
Terminal == {"Aborted", "TimedOut", "Failed"}            \* terminalStates
ProposalPhase == {"Proposing", "Proposed", "Accepted", "Rejected", "Joined"}   \* isProposalPhase

-----------------------------------------------------------------------------
(* Records                                                                  *)

FreshRec == [st |-> "Fresh", ep |-> 0, ldr |-> "none", rem |-> {}, join |-> {}, leav |-> {},
             thr |-> 0, tmo |-> 0, gt |-> "g0", seed |-> "none", acc |-> {}, rej |-> {},
             fg |-> {}, hasfg |-> FALSE, share |-> FALSE]
NoneRec == [FreshRec EXCEPT !.st = "None"]               \* GetFinished returned nil

NoTerms == [ep |-> 0, ldr |-> "none", rem |-> {}, join |-> {}, leav |-> {}, thr |-> 0, tmo |-> 0,
            gt |-> "g0", seed |-> "none", sch |-> "ok"]

\* termsFromState
TermsOf(r) == [ep |-> r.ep, ldr |-> r.ldr, rem |-> r.rem, join |-> r.join, leav |-> r.leav,
               thr |-> r.thr, tmo |-> r.tmo, gt |-> r.gt, seed |-> r.seed, sch |-> "ok"]

\* what messageForSigning writes for the terms: NOT the genesis seed and NOT the participants' keys
Covered(t) == <<t.ep, Addr[t.ldr], SigOf[t.ldr], t.thr, t.tmo, t.gt, t.sch,
                {<<Addr[p], SigOf[p]>> : p \in t.join},
                {<<Addr[p], SigOf[p]>> : p \in t.rem},
                {<<Addr[p], SigOf[p]>> : p \in t.leav}>>

FromTerms(t, status, seed) ==
  [st |-> status, ep |-> t.ep, ldr |-> t.ldr, rem |-> t.rem, join |-> t.join, leav |-> t.leav,
   thr |-> t.thr, tmo |-> t.tmo, gt |-> t.gt, seed |-> seed, acc |-> {}, rej |-> {},
   fg |-> {}, hasfg |-> FALSE, share |-> FALSE]

\* first failing check of a list <<condition, name>>, "ok" when none fails
FirstErr(s) == IF \E i \in DOMAIN s : s[i][1]
                 THEN s[CHOOSE i \in DOMAIN s : s[i][1] /\ \A j \in 1..(i - 1) : ~s[j][1]][2]
                 ELSE "ok"

-----------------------------------------------------------------------------
(* state_machine.go                                                         *)

CodeTable ==                                             \* isValidStateChange
  {<<"Fresh", "Proposing">>, <<"Fresh", "Proposed">>,
   <<"Joined", "Left">>, <<"Joined", "Executing">>, <<"Joined", "Aborted">>, <<"Joined", "TimedOut">>,
   <<"Proposing", "Executing">>, <<"Proposing", "Aborted">>, <<"Proposing", "TimedOut">>,
   <<"Proposed", "Accepted">>, <<"Proposed", "Rejected">>, <<"Proposed", "Joined">>, <<"Proposed", "Left">>,
   <<"Proposed", "Aborted">>, <<"Proposed", "TimedOut">>,
   <<"Accepted", "Executing">>, <<"Accepted", "Aborted">>, <<"Accepted", "TimedOut">>,
   <<"Rejected", "Aborted">>, <<"Rejected", "TimedOut">>,
   <<"Executing", "Complete">>, <<"Executing", "TimedOut">>, <<"Executing", "Failed">>,
   <<"Complete", "Proposing">>, <<"Complete", "Proposed">>,
   <<"Left", "Joined">>, <<"Left", "Aborted">>, <<"Left", "Proposed">>,
   <<"Aborted", "Proposing">>, <<"Aborted", "Proposed">>,
   <<"TimedOut", "Proposing">>, <<"TimedOut", "Proposed">>, <<"TimedOut", "Aborted">>,
   <<"Failed", "Proposing">>, <<"Failed", "Proposed">>, <<"Failed", "Left">>, <<"Failed", "Aborted">>}

CanGo(a, b) == <<a, b>> \in CodeTable
HasTimedOut(r, now) == r.tmo <= now                       \* hasTimedOut

\* ValidateProposal(currentState, terms): "ok", "panic" or the name of the error
ValidateProposal(base, t, now) ==
  LET n == Cardinality(t.join) + Cardinality(t.rem)
      all == FirstErr(<<
        <<t.sch # "ok", "ErrInvalidScheme">>,
        <<\E p \in t.join : ~SelfSigOK(p), "ErrInvalidKeyScheme">>,          \* validateJoinerSignatures
        <<t.tmo <= now, "ErrTimeoutReached">>,
        <<t.thr > n, "ErrThresholdHigherThanNodeCount">>,
        <<t.thr < MinT(n), "ErrThresholdTooLow">>,
        <<t.ep < base.ep, "ErrInvalidEpoch">>,                                \* validateEpoch
        <<t.ep = base.ep /\ base.st \notin {"Aborted", "TimedOut", "Failed"}, "ErrInvalidEpoch">>,
        <<t.ep > base.ep + 1 /\ base.st \notin {"Left", "Fresh"}, "ErrInvalidEpoch">> >>)
      first == FirstErr(<<
        <<t.seed # "none", "ErrNoGenesisSeedForFirstEpoch">>,
        <<t.rem # {} \/ t.leav # {}, "ErrOnlyJoinersAllowedForFirstEpoch">>,
        <<t.ldr \notin t.join, "ErrLeaderNotJoining">>,
        <<Cardinality(t.join) < t.thr, "ErrThresholdHigherThanNodeCount">> >>)
      reshare == FirstErr(<<
        <<t.rem = {}, "ErrNoNodesRemaining">>,
        <<t.ldr \in t.join, "ErrLeaderCantJoinAfterFirstEpoch">>,
        <<t.ldr \in t.leav \/ t.ldr \notin t.rem, "ErrLeaderNotRemaining">>,
        <<Cardinality(t.rem) < base.thr, "ErrNodeCountTooLow">> >>)
      remainers == FirstErr(<<                                                \* validateReshareForRemainers
        <<t.gt # base.gt, "ErrGenesisTimeNotEqual">>,
        <<t.seed # base.seed, "ErrGenesisSeedCannotChange">>,
        <<~base.hasfg, "panic">>,                    \* currentState.FinalGroup.Nodes with FinalGroup == nil
        <<~(Addrs(t.rem \cup t.leav) \subseteq Addrs(base.fg)), "ErrRemainingAndLeavingNodesMustExistInCurrentEpoch">>,
        <<~(Addrs(base.fg) \subseteq Addrs(t.rem \cup t.leav)), "ErrMissingNodesInProposal">>,   \* ContainsAll: ADDRESSES only
        <<Cardinality(t.rem) < base.thr, "ErrNodeCountTooLow">> >>)
  IN IF all # "ok" THEN all
     ELSE IF t.ep = 1 THEN first
     ELSE IF reshare # "ok" THEN reshare
     ELSE IF base.st # "Fresh" THEN remainers
     ELSE "ok"

R(err, next) == [err |-> err, next |-> next]

\* DBState.Proposing (leader side)
Proposing(me, base, t, now) ==
  LET v == ValidateProposal(base, t, now)
      e == FirstErr(<<
        <<~CanGo(base.st, "Proposing"), "InvalidStateChange">>,
        <<t.ldr # me, "ErrCannotProposeAsNonLeader">>,
        <<v # "ok", v>>,
        <<base.st = "Fresh" /\ t.ep > 1, "ErrInvalidEpoch">> >>)
  IN R(e, FromTerms(t, "Proposing", base.seed))

\* DBState.Proposed (receiving side); claimed = metadata.Address
Proposed(me, base, t, claimed, now) ==
  LET v == ValidateProposal(base, t, now)
      e == FirstErr(<<
        <<~CanGo(base.st, "Proposed"), "InvalidStateChange">>,
        <<t.ldr = "none", "panic">>,                    \* terms.Leader.Address with Leader == nil
        <<Addr[t.ldr] # claimed, "ErrCannotProposeAsNonLeader">>,
        <<v # "ok", v>>,
        <<me \notin t.join /\ me \notin t.rem /\ me \notin t.leav, "ErrSelfMissingFromProposal">> >>)
  IN R(e, FromTerms(t, "Proposed", t.seed))

\* DBState.Left
LeftOf(me, d, now) ==
  R(FirstErr(<<
        <<~CanGo(d.st, "Left"), "InvalidStateChange">>,
        <<HasTimedOut(d, now), "ErrTimeoutReached">>,
        <<me \notin d.leav /\ me \notin d.join, "ErrCannotLeaveIfNotALeaver">> >>),
    [d EXCEPT !.st = "Left"])

\* DBState.Joined; gf = the group file handed to the join command
GroupFiles == {"none", "ok", "bad"}
GfGroup == {"p1", "p2", "p3"}                   \* the network's epoch-1 group known to a late joiner
GfSeed(gf) == IF gf = "ok" THEN "s1" ELSE "sx"
Joined(me, d, gf, now) ==
  LET usegf == IF d.ep > 1 THEN gf ELSE "none"      \* StartJoin parses the file only when state.Epoch > 1
  IN R(FirstErr(<<
        <<d.ep > 1 /\ gf = "none", "group file required">>,
        <<~CanGo(d.st, "Joined"), "InvalidStateChange">>,
        <<HasTimedOut(d, now), "ErrTimeoutReached">>,
        <<me \notin d.join, "ErrCannotJoinIfNotInJoining">>,
        <<usegf # "none" /\ d.gt # "g1", "ErrGenesisTimeNotConsistentWithProposal">>,
        <<usegf # "none" /\ GfSeed(usegf) # d.seed, "ErrGenesisSeedCannotChange">> >>),
       [d EXCEPT !.st = "Joined", !.fg = IF usegf = "none" THEN {} ELSE GfGroup,
                 !.hasfg = (usegf # "none")])

Accepted(me, d, now) ==
  R(FirstErr(<<
        <<~CanGo(d.st, "Accepted"), "InvalidStateChange">>,
        <<HasTimedOut(d, now), "ErrTimeoutReached">>,
        <<me \in d.leav, "ErrCannotAcceptProposalWhereLeaving">>,
        <<me \in d.join, "ErrCannotAcceptProposalWhereJoining">> >>),
    [d EXCEPT !.st = "Accepted", !.acc = @ \cup {me}, !.rej = @ \ {me}])

Rejected(me, d, now) ==
  R(FirstErr(<<
        <<~CanGo(d.st, "Rejected"), "InvalidStateChange">>,
        <<HasTimedOut(d, now), "ErrTimeoutReached">>,
        <<me \in d.join, "ErrCannotRejectProposalWhereJoining">>,
        <<me \in d.leav, "ErrCannotRejectProposalWhereLeaving">> >>),
    [d EXCEPT !.st = "Rejected", !.rej = @ \cup {me}, !.acc = @ \ {me}])

StartAbort(d) == R(IF CanGo(d.st, "Aborted") THEN "ok" ELSE "InvalidStateChange", [d EXCEPT !.st = "Aborted"])

\* DBState.StartExecuting (operator command of the leader)
StartExecuting(me, d, now) ==
  IF HasTimedOut(d, now) THEN R("ErrTimeoutReached", d)
  ELSE IF me \in d.leav THEN LeftOf(me, d, now)
  ELSE R(FirstErr(<<
        <<~CanGo(d.st, "Executing"), "InvalidStateChange">>,
        <<d.ldr # me, "ErrOnlyLeaderCanTriggerExecute">> >>),
       [d EXCEPT !.st = "Executing"])

\* DBState.Executing (execute packet)
ExecutingOf(me, d, claimed, now) ==
  IF HasTimedOut(d, now) THEN R("ErrTimeoutReached", d)
  ELSE IF me \in d.leav /\ CanGo(d.st, "Left")
    THEN (IF claimed # Addr[d.ldr] THEN R("ErrOnlyLeaderCanTriggerExecute", d)      \* (F24 repaired: leader check first)
          ELSE LeftOf(me, d, now))
  ELSE R(FirstErr(<<
        <<~CanGo(d.st, "Executing"), "InvalidStateChange">>,
        <<me \notin d.rem /\ me \notin d.join, "ErrCannotExecuteIfNotJoinerOrRemainer">>,
        <<claimed # Addr[d.ldr], "ErrOnlyLeaderCanTriggerExecute">> >>),
       [d EXCEPT !.st = "Executing"])

AbortedOf(d, claimed) ==
  R(FirstErr(<<
        <<~CanGo(d.st, "Aborted"), "InvalidStateChange">>,
        <<Addr[d.ldr] # claimed, "ErrOnlyLeaderCanRemoteAbort">> >>),
    [d EXCEPT !.st = "Aborted"])

ReceivedAcceptance(d, them, claimed) ==
  R(FirstErr(<<
        <<d.st \notin ProposalPhase, "ErrReceivedAcceptance">>,
        <<them \notin d.rem, "ErrUnknownAcceptor">>,
        <<them \in d.acc, "ErrDuplicateAcceptance">>,
        <<claimed # Addr[them], "ErrInvalidAcceptor">> >>),
    [d EXCEPT !.acc = @ \cup {them}, !.rej = @ \ {them}])

ReceivedRejection(d, them, claimed) ==
  R(FirstErr(<<
        <<d.st \notin ProposalPhase, "ErrReceivedRejection">>,
        <<them \notin d.rem, "ErrUnknownRejector">>,
        <<them \in d.rej, "ErrDuplicateRejection">>,
        <<claimed # Addr[them], "ErrInvalidRejector">> >>),
    [d EXCEPT !.rej = @ \cup {them}, !.acc = @ \ {them}])

-----------------------------------------------------------------------------
(* Process.Command / Process.Packet                                         *)

\* "if we have aborted or timed out, apply the proposal to the last successful state"
Fallback(c, f) == IF c.st \in Terminal THEN (IF f.st = "None" THEN FreshRec ELSE f) ELSE c

\* setupDKG fails when a participant's key does not unmarshal (util.ToNode)
SetupOK(d) == \A p \in d.rem \cup d.join : KeyOK(p)

Out(res, why, c, f, x) == [res |-> res, why |-> why, cur |-> c, fin |-> f, exec |-> x]
\* executeDKG: when setupDKG fails after Executing was stored, the attempt is marked Failed (F14-executing repaired)
SetupFailed(next) == IF next.st = "Executing" THEN [next EXCEPT !.st = "Failed"] ELSE next
ResOf(err) == IF err = "panic" THEN "panic" ELSE "err"

Cmds == {"initial", "reshare", "join", "accept", "reject", "execute", "abort"}

(* c = [k |-> "cmd", cmd, t (thr, tmo, join, rem, leav, gt, sch as typed by the operator), gf] *)
CommandOp(me, c0, f0, x0, now, c) ==
  LET base == Fallback(c0, f0)
      t == IF c.cmd = "initial"
             THEN [c.t EXCEPT !.ep = 1, !.ldr = me, !.rem = {}, !.leav = {}, !.seed = "none"]      \* StartNetwork
             ELSE [c.t EXCEPT !.ep = base.ep + 1, !.ldr = me, !.gt = base.gt, !.seed = base.seed, \* StartProposal
                              !.sch = IF base.st = "Fresh" THEN "bad" ELSE "ok"]
      a == CASE c.cmd \in {"initial", "reshare"} -> Proposing(me, base, t, now)
             [] c.cmd = "join" -> Joined(me, base, c.gf, now)
             [] c.cmd = "accept" -> Accepted(me, base, now)
             [] c.cmd = "reject" -> Rejected(me, base, now)
             [] c.cmd = "execute" -> StartExecuting(me, base, now)
             [] c.cmd = "abort" -> StartAbort(base)
  IN IF a.err # "ok" THEN Out(ResOf(a.err), a.err, c0, f0, x0)
     ELSE \* SaveCurrent happened; what follows can still make the call return an error
       IF c.cmd = "execute" /\ ~SetupOK(a.next)
         THEN Out("err", "setupDKG failed: attempt stored as Failed", SetupFailed(a.next), f0, x0)
       ELSE IF c.cmd \in {"initial", "reshare"} /\ (a.next.join \cup a.next.rem) \ {me} = {}
         THEN Out("err", "gossip recipients was empty (state already saved)", a.next, f0, x0)
       ELSE Out("ok", "ok", a.next, f0, IF c.cmd = "execute" THEN "running" ELSE x0)

PktTypes == {"proposal", "accept", "reject", "execute", "abort"}

\* DBState.Apply
Apply(me, base, p, now) ==
  CASE p.typ = "proposal" -> Proposed(me, base, p.t, p.claimed, now)
    [] p.typ = "accept" -> ReceivedAcceptance(base, p.arg, p.claimed)
    [] p.typ = "reject" -> ReceivedRejection(base, p.arg, p.claimed)
    [] p.typ = "execute" -> ExecutingOf(me, base, p.claimed, now)
    [] p.typ = "abort" -> AbortedOf(base, p.claimed)

(* verifyMessage(packet, termsFromState(nextState)) AS CODED: the verifying key is the key of the   *)
(* participant of the NEXT state's Remaining ++ Joining that has the claimed address.               *)
(* p.s = the terms the signer signed, p.skey = the key it signed with, p.sarg = acceptor it signed. *)
VerKeyHolder(next, claimed) == {q \in next.rem \cup next.join : Addr[q] = claimed}
VerifyMessage(p, next) ==
  LET H == VerKeyHolder(next, p.claimed)
  IN IF H = {} THEN "no such participant"
     ELSE LET q == CHOOSE q \in H : TRUE
          IN IF ~KeyOK(q) THEN "ErrInvalidKeyScheme"
             ELSE IF /\ p.skey = Key[q]
                     /\ Covered(p.s) = Covered(TermsOf(next))
                     /\ (p.typ \in {"accept", "reject"} => Addr[p.sarg] = Addr[p.arg])
                  THEN "ok" ELSE "bad signature"

(* The refusals of a packet that are AUTHENTICATION decisions (who sent it, which key signed it, is the    *)
(* sender entitled, are the joiners who they claim to be).  When the specification refuses a packet for   *)
(* one of them and the code changes state on it, that is a C09 verdict, not model drift.                  *)
AuthRefusals == {"bad signature", "no such participant", "ErrInvalidKeyScheme",
                 "ErrCannotProposeAsNonLeader", "ErrOnlyLeaderCanTriggerExecute", "ErrOnlyLeaderCanRemoteAbort",
                 "ErrInvalidAcceptor", "ErrInvalidRejector", "ErrUnknownAcceptor", "ErrUnknownRejector"}

(* p = [k |-> "pkt", typ, t (terms sent; proposals), s (terms signed), claimed, skey, arg, sarg] *)
PacketOp(me, c0, f0, x0, now, p) ==
  LET base == Fallback(c0, f0)
      a == Apply(me, base, p, now)
  IN IF a.err # "ok" THEN Out(ResOf(a.err), a.err, c0, f0, x0)
     ELSE LET v == VerifyMessage(p, a.next)
          IN IF v # "ok" THEN Out("err", v, c0, f0, x0)
             ELSE IF p.typ = "execute" /\ ~SetupOK(a.next)                      \* SaveCurrent, then executeDKG fails
               THEN Out("err", "setupDKG failed: attempt stored as Failed", SetupFailed(a.next), f0, x0)
             ELSE Out("ok", "ok", a.next, f0, IF p.typ = "execute" THEN "running" ELSE x0)

(* executeAndFinishDKG, outcome of the kyber protocol chosen by the environment *)
\* qual = the qualified set the kyber protocol ended with ({"*"} = every participant; a peer that is too
\* slow is evicted by the others, which the environment may let happen)
AllQual == {"*"}
CompleteRec(d, qual) == [d EXCEPT !.st = "Complete", !.fg = IF qual = AllQual THEN d.rem \cup d.join ELSE qual,
                                  !.hasfg = TRUE, !.share = TRUE,
                                  !.seed = IF d.seed = "none" THEN "s1" ELSE d.seed]
ExecOpQ(c0, f0, x0, now, out, qual) ==
  IF x0 # "running" THEN Out("ok", "no execution", c0, f0, x0)
  ELSE IF out = "complete"
    THEN IF c0.st = "Executing" /\ ~HasTimedOut(c0, now)
           THEN Out("ok", "SaveFinished", CompleteRec(c0, qual), CompleteRec(c0, qual), "none")
           ELSE Out("ok", "Complete() refused", c0, f0, "none")
    ELSE IF c0.st = "Executing"
           THEN Out("ok", "Failed", [c0 EXCEPT !.st = "Failed"], f0, "none")
           ELSE Out("ok", "Failed() refused", c0, f0, "none")

ExecOp(c0, f0, x0, now, out) == ExecOpQ(c0, f0, x0, now, out, AllQual)

(* wall clock passes every "short" timeout issued so far; a running execution *)
(* takes its `time.After(time.Until(current.Timeout))' branch                  *)
TimeOp(c0, f0, x0, now) ==
  IF x0 = "running" /\ HasTimedOut(c0, now + 1)
    THEN ExecOp(c0, f0, x0, now + 1, "failed")
    ELSE Out("ok", "time", c0, f0, x0)

-----------------------------------------------------------------------------
(* MONITORS.  Observable values only:                                        *)
(*   me, the input x (command / packet / time / exec), now, the result res,  *)
(*   both buckets before (c0, f0) and after (c1, f1).                        *)

LegalTable ==      \* the protocol's legal transitions (independent copy of the documented table)
  {<<"Fresh", "Proposing">>, <<"Fresh", "Proposed">>,
   <<"Joined", "Left">>, <<"Joined", "Executing">>, <<"Joined", "Aborted">>, <<"Joined", "TimedOut">>,
   <<"Proposing", "Executing">>, <<"Proposing", "Aborted">>, <<"Proposing", "TimedOut">>,
   <<"Proposed", "Accepted">>, <<"Proposed", "Rejected">>, <<"Proposed", "Joined">>, <<"Proposed", "Left">>,
   <<"Proposed", "Aborted">>, <<"Proposed", "TimedOut">>,
   <<"Accepted", "Executing">>, <<"Accepted", "Aborted">>, <<"Accepted", "TimedOut">>,
   <<"Rejected", "Aborted">>, <<"Rejected", "TimedOut">>,
   <<"Executing", "Complete">>, <<"Executing", "TimedOut">>, <<"Executing", "Failed">>,
   <<"Complete", "Proposing">>, <<"Complete", "Proposed">>,
   <<"Left", "Joined">>, <<"Left", "Aborted">>, <<"Left", "Proposed">>,
   <<"Aborted", "Proposing">>, <<"Aborted", "Proposed">>,
   <<"TimedOut", "Proposing">>, <<"TimedOut", "Proposed">>, <<"TimedOut", "Aborted">>,
   <<"Failed", "Proposing">>, <<"Failed", "Proposed">>, <<"Failed", "Left">>, <<"Failed", "Aborted">>}

\* what the node's role in the attempt recorded in d allows it to become
RoleAllows(me, d) ==
  CASE d.st = "Proposing" -> d.ldr = me
    [] d.st = "Proposed" -> me \in d.rem \cup d.join \cup d.leav
    [] d.st \in {"Accepted", "Rejected"} -> me \in d.rem
    [] d.st = "Joined" -> me \in d.join
    [] d.st = "Left" -> me \in d.leav \cup d.join
    [] d.st = "Executing" -> me \in d.rem \cup d.join
    [] OTHER -> TRUE

SameAttempt(a, b) == TermsOf(a) = TermsOf(b)

IsProposalInput(x) == (x.k = "pkt" /\ x.typ = "proposal") \/ (x.k = "cmd" /\ x.cmd \in {"initial", "reshare"})

\* the terms a proposal input asks the node to adopt (commands are completed the way the CLI does)
InputTerms(me, c0, f0, x) ==
  IF x.k = "pkt" THEN x.t
  ELSE LET base == Fallback(c0, f0)
       IN IF x.cmd = "initial"
            THEN [x.t EXCEPT !.ep = 1, !.ldr = me, !.rem = {}, !.leav = {}, !.seed = "none"]
            ELSE [x.t EXCEPT !.ep = base.ep + 1, !.ldr = me, !.gt = base.gt, !.seed = base.seed]

(* Why a proposal is not acceptable, judged against the LAST COMPLETED epoch f0 (independent of the *)
(* code's validation order).  Members are identities (address AND key).                              *)
ProposalDefects(me, c0, f0, t, now) ==
  LET n == Cardinality(t.join) + Cardinality(t.rem)
      member == f0.st = "Complete"
      uptodate == member /\ c0.st \in (Terminal \cup {"Complete"})
  IN  (IF member /\ t.ep <= f0.ep THEN {"stale"} ELSE {})
 \cup (IF uptodate /\ t.ep > f0.ep + 1 THEN {"skipped-epoch"} ELSE {})
 \cup (IF t.tmo <= now THEN {"expired"} ELSE {})
 \cup (IF t.thr < MinT(n) THEN {"below-threshold"} ELSE {})
 \cup (IF member /\ t.ep > 1 /\ Cardinality(t.rem) < f0.thr THEN {"too-few-remaining"} ELSE {})
 \cup (IF t.thr > n \/ t.sch # "ok" \/ t.ep < 1
          \/ (t.ep = 1 /\ (t.rem # {} \/ t.leav # {} \/ t.ldr \notin t.join \/ t.seed # "none"))
          \/ (t.ep > 1 /\ (t.rem = {} \/ t.ldr \notin t.rem \/ t.ldr \in t.leav \/ t.ldr \in t.join))
          \/ (\E p \in t.join : ~SelfSigOK(p))
       THEN {"malformed"} ELSE {})
 \cup (IF member /\ t.ep > 1 /\ ~(Addrs(f0.fg) \subseteq Addrs(t.rem \cup t.leav)) THEN {"drops-member"} ELSE {})
 \cup (IF member /\ t.ep > 1 /\ (Addrs(f0.fg) \subseteq Addrs(t.rem \cup t.leav)) /\ ~(f0.fg \subseteq t.rem \cup t.leav)
          THEN {"drops-member-key"} ELSE {})
 \cup (IF member /\ t.ep > 1 /\ ~(t.rem \cup t.leav \subseteq f0.fg) /\ (f0.fg \subseteq t.rem \cup t.leav)
          THEN {"non-member-remaining"} ELSE {})
 \cup (IF member /\ t.ep > 1 /\ (t.gt # f0.gt \/ t.seed # f0.seed) THEN {"changes-genesis"} ELSE {})

Changed(c0, f0, c1, f1) == c1 # c0 \/ f1 # f0

(* C08.  Result: set of <<monitor, detail>> that fail on this step. *)
C08Fails(me, x, now, res, c0, f0, c1, f1) ==
  LET adopted == IsProposalInput(x) /\ c1 # c0 /\ c1.st \in {"Proposed", "Proposing"}
      t == InputTerms(me, c0, f0, x)
      defects == ProposalDefects(me, c0, f0, t, now)
      over == c0.st \in Terminal                                     \* the attempt is aborted / failed / timed out
      lapsed == c0.st \in ProposalPhase /\ HasTimedOut(c0, now)      \* timeout reached, status never became TimedOut
      \* a well-formed proposal for the epoch after the last completed one, genuinely from its leader
      wellformed == /\ IsProposalInput(x)
                    /\ t.ep = (IF f0.st = "None" THEN 1 ELSE f0.ep + 1)
                    /\ (f0.st = "None" => t.ep = 1)
                    /\ defects = {}
                    /\ me \in t.rem \cup t.join \cup t.leav
                    /\ (x.k = "pkt" => /\ x.claimed = Addr[t.ldr] /\ x.skey = Key[t.ldr] /\ x.s = x.t
                                       /\ t.ldr # me
                                       /\ (f0.st = "Complete" => t.ldr \in f0.fg))
                    /\ (x.k = "cmd" => t.ldr = me /\ (t.join \cup t.rem) \ {me} # {})
      \* one call may take two legal steps when it starts an execution that cannot be set up
      isExecute == (x.k = "cmd" /\ x.cmd = "execute") \/ (x.k = "pkt" /\ x.typ = "execute")
      legal == \/ <<c0.st, c1.st>> \in LegalTable
               \/ (isExecute /\ <<c0.st, "Executing">> \in LegalTable /\ <<"Executing", c1.st>> \in LegalTable)
      \* statuses from which the protocol offers a legal way to the next proposal (directly, or by abort)
      usable == c1.st \in {"Fresh", "Complete", "Aborted", "TimedOut", "Failed", "Left",
                           "Joined", "Proposing", "Proposed", "Accepted", "Rejected"}
  IN  (IF c1.st # c0.st /\ (~legal \/ ~RoleAllows(me, c1))
         THEN {<<"LegalStep", IF ~legal THEN "transition-not-in-table" ELSE "not-allowed-for-role">>} ELSE {})
 \cup (IF c1.st = c0.st /\ ~SameAttempt(c0, c1) /\ c0.st # "Fresh"
         THEN {<<"LegalStep", "terms-changed-without-transition">>} ELSE {})
 \cup (IF \/ (f0.st # "None" /\ f1.st # "None" /\ f1.ep < f0.ep)
          \/ (f1.st # "None" /\ c1.st # "Fresh" /\ c1.ep < f1.ep)
          \/ (c0.st \notin Terminal /\ c1.ep < c0.ep)
         THEN {<<"EpochMonotone", "epoch-decreased">>} ELSE {})
 \cup (IF f1 # f0 /\ ~(/\ f1.st = "Complete" /\ f1.hasfg /\ f1.share
                       /\ (f0.st = "None" \/ f1.ep > f0.ep)
                       /\ x.k = "exec" /\ c0.st = "Executing" /\ c1 = f1)
         THEN {<<"FinishedOnlyByLaterComplete", "finished-record-replaced">>} ELSE {})
 \cup (IF res # "ok" /\ f1 # f0 THEN {<<"RejectedKeepsFinished", "finished-changed-on-error">>} ELSE {})
 \cup (IF res # "ok" /\ c1 # c0 /\ ~usable
         THEN {<<"RejectedLeavesUsable",
                 "error-left-node-in-" \o c1.st \o "-" \o
                 (IF x.k = "cmd" THEN "cmd-" \o x.cmd ELSE IF x.k = "pkt" THEN "pkt-" \o x.typ ELSE x.k) \o
                 (IF \E p \in c1.rem \cup c1.join : ~KeyOK(p) THEN "-participant-key-unusable" ELSE "")>>}
         ELSE {})
 \cup (IF adopted /\ defects # {}
         THEN {<<"InvalidProposalRejected", d>> : d \in defects} ELSE {})
 \cup (IF over /\ wellformed /\ ~(res = "ok" /\ c1.st \in {"Proposed", "Proposing"} /\ c1.ep = t.ep /\ f1 = f0)
         THEN {<<"StillUsable", "after-" \o c0.st>>} ELSE {})
 \cup (IF lapsed /\ x.k = "cmd" /\ x.cmd = "abort" /\ ~(res = "ok" /\ c1.st = "Aborted" /\ f1 = f0)
         THEN {<<"StillUsable", "abort-refused-after-timeout">>} ELSE {})
 \* information only (not part of C08's verdict): nothing ever sets TimedOut, so after the timeout the next
 \* proposal is refused until somebody aborts explicitly (abort + proposal works, see the line above)
 \cup (IF lapsed /\ wellformed /\ ~(res = "ok" /\ c1.st \in {"Proposed", "Proposing"} /\ c1.ep = t.ep /\ f1 = f0)
         THEN {<<"Info_TimedOutNeedsAbort", "timeout-reached-status-not-terminal">>} ELSE {})

(* C09.  Only packets; only when the node changed DKG state on the packet. *)
C09Fails(me, x, now, res, c0, f0, c1, f1) ==
  IF ~(x.k = "pkt" /\ Changed(c0, f0, c1, f1)) THEN {}
  ELSE
  LET applied == TermsOf(c1)                        \* the terms the node now holds
      holders == {q \in c1.rem \cup c1.join \cup c1.leav \cup {c1.ldr} : Addr[q] = x.claimed}
      pinned == f0.st = "Complete" /\ x.claimed \in Addrs(f0.fg)    \* the node already knows the sender
      pinnedKeys == {Key[q] : q \in {r \in f0.fg : Addr[r] = x.claimed}}
      needsLeader == x.typ \in {"proposal", "execute", "abort"}
      \* the attempt held BEFORE this packet already lists a key for the sender that is not the recorded one
      tainted == x.typ # "proposal" /\ \E q \in c0.rem \cup c0.join : Addr[q] = x.claimed /\ Key[q] \notin pinnedKeys
  IN  (IF ~(\E q \in holders : Key[q] = x.skey)
         THEN {<<"C09_SignedBySender", x.typ>>} ELSE {})
 \cup (IF pinned /\ x.skey \notin pinnedKeys
         THEN {<<"C09_KeyFromGroup", IF tainted THEN "follow-up-after-substituted-proposal" ELSE x.typ>>} ELSE {})
 \cup (IF needsLeader /\ x.claimed # Addr[c1.ldr]
         THEN {<<"C09_Entitled", x.typ \o "-not-from-leader" \o
                                  (IF x.typ = "execute" /\ c1.st = "Left" /\ me \in c1.leav THEN "-to-leaver" ELSE "")>>} ELSE {})
 \cup (IF x.typ \in {"accept", "reject"} /\ ~(x.arg \in c1.rem /\ Addr[x.arg] = x.claimed /\ x.sarg = x.arg)
         THEN {<<"C09_Entitled", x.typ \o "-not-by-the-member-itself">>} ELSE {})
 \cup (IF x.s # applied
         THEN {<<"C09_SigCoversTerms",
                 IF Covered(x.s) # Covered(applied)
                   THEN (IF [x.s EXCEPT !.rem = {}, !.join = {}, !.leav = {}] = [applied EXCEPT !.rem = {}, !.join = {}, !.leav = {}]
                            /\ x.s.rem \cup x.s.join \cup x.s.leav = applied.rem \cup applied.join \cup applied.leav
                         THEN "list-membership" ELSE "signed-field")
                 ELSE IF x.s.seed # applied.seed THEN "genesis-seed-not-signed"
                 ELSE "participant-key-not-signed">>}
         ELSE {})

-----------------------------------------------------------------------------
(* The environment's catalogue (what TLC feeds the node)                     *)

G3 == {"p1", "p2", "p3"}
G4 == {"p1", "p2", "p3", "p4"}

MaxA(S) == CHOOSE p \in S : \A q \in S : Addr[q] <= Addr[p]
MinA(S) == CHOOSE p \in S : \A q \in S : Addr[p] <= Addr[q]
Swap1(S, a, b) == IF a \in S THEN (S \ {a}) \cup {b} ELSE S        \* substitute participant b for a
SubstT(t, a, b) == [t EXCEPT !.ldr = IF @ = a THEN b ELSE @, !.rem = Swap1(@, a, b),
                            !.join = Swap1(@, a, b), !.leav = Swap1(@, a, b)]

LeaderOf(S) == IF S = {} THEN "none"
               ELSE IF \E p \in S : Addr[p] = 1 THEN CHOOSE p \in S : Addr[p] = 1
               ELSE CHOOSE p \in S : \A q \in S : Addr[p] <= Addr[q]

Genesis(J, tm) == [ep |-> 1, ldr |-> LeaderOf(J), rem |-> {}, join |-> J, leav |-> {},
                   thr |-> MinT(Cardinality(J)), tmo |-> tm, gt |-> "g1", seed |-> "none", sch |-> "ok"]

\* reshare shapes relative to the previous group g
Reshare(e, g, shape, tm) ==
  LET out == IF "p3" \in g THEN "p3" ELSE "p4"
      inn == IF "p3" \in g THEN "p4" ELSE "p3"
      rem == IF shape = "keep" THEN g ELSE g \ {out}
      leav == IF shape = "keep" THEN {} ELSE g \cap {out}
      join == IF shape = "keep" THEN {} ELSE {inn} \ g
  IN [ep |-> e, ldr |-> LeaderOf(rem), rem |-> rem, join |-> join, leav |-> leav,
      thr |-> MinT(Cardinality(rem) + Cardinality(join)), tmo |-> tm, gt |-> "g1", seed |-> "s1", sch |-> "ok"]

PrevGroup(f) == IF f.st = "None" THEN G3 ELSE f.fg

\* a short timeout is offered only while the clock can still pass it
Timeouts(now) == {LongTmo} \cup (IF now < MaxTick THEN {now + 1} ELSE {})

\* unmutated proposals on offer in a state
BaseProposals(c, f, now) ==
  LET base == Fallback(c, f)
      e0 == base.ep + 1
      eps == ({e0} \cup (IF base.st = "Fresh" THEN {2} ELSE {})) \cap 2..MaxEpoch
  IN {Genesis(J, tm) : J \in {G3} \cup (IF Rich THEN {G4} ELSE {}), tm \in Timeouts(now)}
     \cup {Reshare(e, PrevGroup(f), sh, tm) : e \in eps, sh \in Shapes, tm \in Timeouts(now)}

\* single mutations of a proposal's terms (before signing)
Mutations(t, now) ==
  LET n == Cardinality(t.join) + Cardinality(t.rem)
      core ==
        {[t EXCEPT !.ep = @ + 1],                                        \* skipped epoch
         [t EXCEPT !.tmo = now],                                         \* already expired
         [t EXCEPT !.thr = MinT(n) - 1],                                 \* below the minimum
         [t EXCEPT !.thr = n + 1],                                       \* above n
         [t EXCEPT !.gt = "gx"],                                         \* genesis time changed
         [t EXCEPT !.seed = "sx"],                                       \* genesis seed changed
         SubstT(t, "p1", "f1"),                                          \* attacker key under the leader's address
         SubstT(t, "p2", "f2")}                                          \* attacker key under a member's address
        \cup (IF t.ep > 1 THEN {[t EXCEPT !.ep = @ - 1]} ELSE {})        \* stale epoch
        \cup (IF "p2" \in t.rem THEN {[t EXCEPT !.rem = @ \ {"p2"}]} ELSE {})                    \* drops a member
        \* drops a member but names another one twice (remaining AND leaving): the lists are as long as the group
        \cup (IF "p2" \in t.rem /\ (t.rem \cup t.leav) \ {"p2", t.ldr} # {}
              THEN LET q == MaxA((t.rem \cup t.leav) \ {"p2", t.ldr})
                   IN {[t EXCEPT !.rem = (@ \ {"p2"}) \cup {q}, !.leav = @ \cup {q}]} ELSE {})
        \cup (IF t.ep > 1 THEN {[t EXCEPT !.rem = @ \ {t.ldr}, !.leav = @ \cup {t.ldr}],        \* leader leaving
                                [t EXCEPT !.rem = @ \ {t.ldr}, !.join = @ \cup {t.ldr}]} ELSE {}) \* leader joining
        \cup (IF "p4" \in t.join THEN {SubstT(t, "p4", "b4")} ELSE {})   \* bad joiner self-signature
      extra ==
        {[t EXCEPT !.sch = "bad"],                                       \* unknown scheme
         SubstT(t, "p3", "g3")}                                          \* key bytes that are no point
        \cup (IF t.ep > 1 THEN {[t EXCEPT !.rem = @ \cup {"p5"}]} ELSE {})   \* outsider among the remaining
  IN IF Rich THEN core \cup extra ELSE core \cup {SubstT(t, "p3", "g3")}

(* Boundary shifts: one participant moves across an adjacent list boundary while the concatenation       *)
(* joining ++ remaining ++ leaving keeps its order (lists are ordered by address): head of Leaving ->    *)
(* tail of Remaining, tail of Remaining -> head of Leaving, tail of Joining -> head of Remaining, head   *)
(* of Remaining -> tail of Joining.  The signed bytes must say WHICH list a participant is in.           *)
Shifts(t) ==
  IF t.ep <= 1 THEN {}
  ELSE (IF t.leav # {} THEN {[t EXCEPT !.leav = @ \ {MinA(t.leav)}, !.rem = @ \cup {MinA(t.leav)}]} ELSE {})
       \cup (IF t.rem # {} THEN {[t EXCEPT !.rem = @ \ {MaxA(t.rem)}, !.leav = @ \cup {MaxA(t.rem)}],
                                 [t EXCEPT !.rem = @ \ {MinA(t.rem)}, !.join = @ \cup {MinA(t.rem)}]} ELSE {})
       \cup (IF t.join # {} THEN {[t EXCEPT !.join = @ \ {MaxA(t.join)}, !.rem = @ \cup {MaxA(t.join)}]} ELSE {})
NodeCount(t) == Cardinality(t.join) + Cardinality(t.rem)
\* a threshold that is admissible before and after the shift, so that only the signature can refuse it
ShiftThr(t, u) == IF MinT(NodeCount(t)) > MinT(NodeCount(u)) THEN MinT(NodeCount(t)) ELSE MinT(NodeCount(u))

Pkt(typ, t, s, claimed, skey, arg, sarg) ==
  [k |-> "pkt", typ |-> typ, t |-> t, s |-> s, claimed |-> claimed, skey |-> skey, arg |-> arg, sarg |-> sarg]

AllKeys == {"k1", "k2", "k3", "k4", "k5", "kf"}

\* (claimed sender, signing key) pairs tried for a packet whose rightful sender is participant r
Senders(r) ==
  {<<Addr[r], Key[r]>>,                      \* the right one
   <<Addr[r], "kf">>,                        \* right name, attacker key
   <<Addr[r], IF Key[r] = "k2" THEN "k3" ELSE "k2">>,   \* right name, another member's key
   <<5, "k5">>}                              \* outsider under its own name
  \cup (IF Rich THEN {<<2, "k2">>, <<3, "k3">>} ELSE {<<IF Addr[r] = 2 THEN 3 ELSE 2, IF Addr[r] = 2 THEN "k3" ELSE "k2">>})

ProposalPackets(c, f, now) ==
  LET B == BaseProposals(c, f, now)
      honest == {Pkt("proposal", t, t, Addr[t.ldr], Key[t.ldr], "none", "none") : t \in B}
      Bl == {t \in B : t.tmo = LongTmo}
      \* the reduced catalogue mutates the genesis proposal and the "keep" reshare only
      Bm == IF Rich THEN Bl ELSE {t \in Bl : t.leav = {}}
      mutated == {Pkt("proposal", m, m, Addr[m.ldr], Key[m.ldr], "none", "none") : m \in UNION {Mutations(t, now) : t \in Bm}}
      forged == UNION {{Pkt("proposal", t, t, sk[1], sk[2], "none", "none") : sk \in Senders(t.ldr)} : t \in Bm}
      \* altered after the leader signed: s = what was signed, t = what arrives
      tampered == UNION {{Pkt("proposal", SubstT(t, "p2", "m2"), t, Addr[t.ldr], Key[t.ldr], "none", "none"),
                          Pkt("proposal", [t EXCEPT !.seed = "sx"], t, Addr[t.ldr], Key[t.ldr], "none", "none"),
                          Pkt("proposal", [t EXCEPT !.thr = @ + 1], t, Addr[t.ldr], Key[t.ldr], "none", "none"),
                          Pkt("proposal", [t EXCEPT !.tmo = IF @ = LongTmo THEN now + 1 ELSE LongTmo], t, Addr[t.ldr], Key[t.ldr], "none", "none")}
                         : t \in Bm}
      shifted == UNION {{Pkt("proposal", [u EXCEPT !.thr = ShiftThr(t, u)], [t EXCEPT !.thr = ShiftThr(t, u)],
                             Addr[t.ldr], Key[t.ldr], "none", "none") : u \in Shifts(t)} : t \in Bl}
  IN honest \cup mutated \cup forged \cup tampered \cup shifted

\* accept / reject / execute / abort relative to the attempt the node currently holds
FollowUpPackets(c, f, now) ==
  LET d == Fallback(c, f)
      t == TermsOf(d)
      signedVariants == {t, [t EXCEPT !.seed = IF @ = "sx" THEN "s1" ELSE "sx"], [t EXCEPT !.thr = @ + 1]}
                        \cup (IF Rich THEN {[t EXCEPT !.ep = @ + 1], SubstT(t, "p3", "g3")} ELSE {})
                        \cup Shifts(t)
      \* the member whose votes are forged / tampered with (all of them in the complete catalogue)
      victims == IF Rich THEN d.rem \cup d.join \cup d.leav \cup {"p5"}
                 ELSE IF d.rem \ {d.ldr} = {} THEN {"p5"}
                 ELSE {CHOOSE a \in d.rem \ {d.ldr} : \A b \in d.rem \ {d.ldr} : Addr[a] >= Addr[b], "p5"}
      honestVotes == {Pkt("accept", t, t, Addr[a], Key[a], a, a) : a \in d.rem}
                     \cup {Pkt("reject", t, t, Addr[a], Key[a], a, a) : a \in IF Rich THEN d.rem ELSE victims \cap d.rem}
      tys == IF Rich THEN {"accept", "reject"} ELSE {"accept"}
      votes == honestVotes
               \cup UNION {{Pkt(ty, t, t, sk[1], sk[2], a, a) : ty \in tys, sk \in Senders(a)} : a \in victims}
               \cup {Pkt(ty, t, s, Addr[a], Key[a], a, a) : ty \in tys, a \in victims \cap d.rem, s \in signedVariants}
               \cup {Pkt(ty, t, t, Addr[d.ldr], Key[d.ldr], a, a) : ty \in tys, a \in victims \cap d.rem}                \* the leader votes for a
               \cup {Pkt("accept", t, t, Addr[b], Key[b], a, b) : a \in victims \cap d.rem, b \in d.rem \cap {d.ldr}}  \* signed by b about b, names a
      ctl == {Pkt(ty, t, s, Addr[d.ldr], Key[d.ldr], "none", "none") : ty \in {"execute", "abort"}, s \in signedVariants}
             \cup UNION {{Pkt(ty, t, t, sk[1], sk[2], "none", "none") : sk \in Senders(d.ldr)} : ty \in {"execute", "abort"}}
  IN IF d.ldr = "none" THEN {Pkt("abort", t, t, 1, "k1", "none", "none"), Pkt("execute", t, t, 1, "k1", "none", "none"),
                             Pkt("accept", t, t, 2, "k2", "p2", "p2")}
     ELSE votes \cup ctl

Cmd(cmd, t, gf) == [k |-> "cmd", cmd |-> cmd, t |-> t, gf |-> gf]

Commands(me, c, f, now) ==
  LET base == Fallback(c, f)
      g == PrevGroup(f)
      ini == {Genesis(J, tm) : J \in {G3} \cup (IF Rich THEN {G4, {me}} ELSE {}), tm \in Timeouts(now)}
      rs == IF base.ep + 1 > MaxEpoch THEN {}
            ELSE {Reshare(base.ep + 1, g, sh, tm) : sh \in Shapes, tm \in Timeouts(now)}
      mut(t) == {t, [t EXCEPT !.thr = MinT(Cardinality(t.join) + Cardinality(t.rem)) - 1], [t EXCEPT !.tmo = now]}
                \cup (IF "p2" \in t.rem /\ me # "p2" THEN {[t EXCEPT !.rem = @ \ {"p2"}]} ELSE {})
                \cup (IF "p2" \in t.rem /\ me # "p2" /\ (t.rem \cup t.leav) \ {"p2", me} # {}
                      THEN LET q == MaxA((t.rem \cup t.leav) \ {"p2", me})
                           IN {[t EXCEPT !.rem = (@ \ {"p2"}) \cup {q}, !.leav = @ \cup {q}]} ELSE {})
                \cup (IF Rich THEN {[t EXCEPT !.thr = Cardinality(t.join) + Cardinality(t.rem) + 1], SubstT(t, "p3", "g3")} ELSE {})
      muts(T) == IF Rich THEN UNION {mut(t) : t \in T}
                 ELSE T \cup UNION {mut(t) : t \in {u \in T : u.tmo = LongTmo /\ u.leav = {}}}
  IN {Cmd("initial", m, "none") : m \in muts(ini)}
     \cup {Cmd("reshare", m, "none") : m \in muts(rs)}
     \cup {Cmd("join", NoTerms, gf) : gf \in GroupFiles}
     \cup {Cmd(x, NoTerms, "none") : x \in {"accept", "reject", "execute", "abort"}}

-----------------------------------------------------------------------------
(* Design-level state machine                                               *)

Init == /\ cur = FreshRec /\ fin = NoneRec /\ exec = "none" /\ tick = 0
        /\ op = [x |-> [k |-> "init"], res |-> "ok", why |-> "init"]

Take(x, o) == /\ cur' = o.cur /\ fin' = o.fin /\ exec' = o.exec
              /\ op' = [x |-> x, res |-> o.res, why |-> o.why]

DoCommand == \E c \in Commands(Me, cur, fin, tick) :
               Take(c, CommandOp(Me, cur, fin, exec, tick, c)) /\ tick' = tick
DoPacket == \E p \in ProposalPackets(cur, fin, tick) \cup FollowUpPackets(cur, fin, tick) :
               Take(p, PacketOp(Me, cur, fin, exec, tick, p)) /\ tick' = tick
DoTime == /\ tick < MaxTick
          /\ Take([k |-> "time"], TimeOp(cur, fin, exec, tick)) /\ tick' = tick + 1
DoExec == /\ exec = "running"
          /\ \E out \in {"complete", "failed"} :
               Take([k |-> "exec", out |-> out], ExecOp(cur, fin, exec, tick, out)) /\ tick' = tick

Next == DoCommand \/ DoPacket \/ DoTime \/ DoExec
Spec == Init /\ [][Next]_vars

\* the environment stops offering new epochs beyond the bound
EpochBound == cur.ep <= MaxEpoch + 1
\* quick tier: do not explore beyond a completed epoch whose group already contains a substituted key
HonestFinished == fin.fg \subseteq {"p1", "p2", "p3", "p4"}

-----------------------------------------------------------------------------
(* What TLC checks on the design                                             *)

RecOK(r) == /\ r.st \in Statuses \cup {"None"}
            /\ r.rem \subseteq Parts /\ r.join \subseteq Parts /\ r.leav \subseteq Parts
            /\ r.acc \subseteq r.rem /\ r.rej \subseteq r.rem /\ r.acc \cap r.rej = {}
            /\ r.fg \subseteq Parts
TypeOK == /\ RecOK(cur) /\ RecOK(fin) /\ cur.st # "None"
          /\ fin.st \in {"None", "Complete"}
          /\ exec \in {"none", "running"}
          /\ (fin.st = "Complete" => fin.hasfg /\ fin.share)

\* every stored attempt has participants with pairwise different addresses (VerKeyHolder is then unique)
UniqueAddrs(r) == \A p, q \in r.rem \cup r.join \cup r.leav : Addr[p] = Addr[q] => p = q
Inv_UniqueAddrs == UniqueAddrs(cur) /\ UniqueAddrs(fin)

Fails08 == C08Fails(Me, op'.x, tick, op'.res, cur, fin, cur', fin')
Fails09 == C09Fails(Me, op'.x, tick, op'.res, cur, fin, cur', fin')
Names(F) == {f[1] : f \in F}

\* deviations of the unchanged code that the design model already shows (see known_findings.json);
\* they are checked separately (MC_DKG_dev.cfg expects a counterexample), everything else must hold.
Known08 == {"Info_TimedOutNeedsAbort"}
Known08Details == {<<"InvalidProposalRejected", "drops-member-key">>}
Known09 == {"C09_KeyFromGroup"}
Known09Details == {<<"C09_SigCoversTerms", "genesis-seed-not-signed">>,
                   <<"C09_SigCoversTerms", "participant-key-not-signed">>}

Act_C08 == [][{f \in Fails08 : f[1] \notin Known08 /\ f \notin Known08Details} = {}]_vars
Act_C09 == [][{f \in Fails09 : f[1] \notin Known09 /\ f \notin Known09Details} = {}]_vars
\* the strict versions (violated by the code as it is)
Act_C08_strict == [][Fails08 = {}]_vars
Act_C09_strict == [][Fails09 = {}]_vars
\* conformance of the model with itself: an "err"/"panic" result of a packet never moves the finished bucket
Act_FinishedStable == [][op'.x.k # "exec" => fin' = fin]_vars
=============================================================================
