SPECIFICATION SimSpec
CONSTANTS
  Kinds = {"memdb"}
  K = 10
  Rounds = {0, 1, 2, 3, 4, 5, 6, 7, 8, 9, 10, 11, 12, 13}
  Vals = {0, 1, 2}
  MutInCursor = TRUE
  Depth = 60
  CoverOneIn = 1
CHECK_DEADLOCK FALSE
