INIT SimInit
NEXT SimNext
CONSTANTS
  MaxNodes = 3
  Types = {"group", "pair", "identity", "share", "info", "dbstate", "beacon", "badgroup"}
CHECK_DEADLOCK FALSE
