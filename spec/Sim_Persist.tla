---------------------------- MODULE Sim_Persist ----------------------------
(* Fault enumeration for the Go harness (spec -> code direction): TLC explores *)
(* Persist exhaustively and prints, for every run of Scripts, its expansion    *)
(* into persistence steps (STEPS) and, for every reachable Crash/Restart, the  *)
(* crash point and what the model says a restart finds (POINT).  The harness   *)
(* executes the run on a real daemon, realises the crash points as directory   *)
(* snapshots and restarts fresh daemons on them.                               *)
EXTENDS Persist, Json

SimInit == /\ Init
           /\ PrintT(<<"VP", "STEPS", ToJson([script |-> script, steps |-> steps])>>)

SimRestart == /\ Restart
              /\ PrintT(<<"VP", "POINT",
                          ToJson([script |-> script, k |-> pc - 1,
                                  after |-> IF pc = 1 THEN [op |-> "Start", f |-> "-", a |-> 0, b |-> 0] ELSE steps[pc - 1],
                                  cause |-> Cause(steps, pc - 1),
                                  expect |-> rec',
                                  holds |-> Mon_C13(rec', served)])>>)

SimNext == Step \/ Crash \/ SimRestart
SimSpec == SimInit /\ [][SimNext]_vars
=============================================================================
