SPECIFICATION Spec
CONSTANTS
  Nodes = {1}
  Peers = {1, 2, 3}
  MaxEpoch = 2
  Umasks = {18}
  DkgDbPerm = 384
  ChainDbPerm = 432
  PreModes = {420, 416}
INVARIANTS TypeOK NoSecretEmitted OnlyPublicOrEncrypted SecretFileOwnerOnly KeyFilesOwnerOnly SecretsOnlyInNamedFiles
VIEW View
CHECK_DEADLOCK FALSE
