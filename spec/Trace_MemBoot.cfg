SPECIFICATION TraceSpec
CONSTANTS
  Peers = {1, 2}
INVARIANT AtEnd
CHECK_DEADLOCK FALSE
