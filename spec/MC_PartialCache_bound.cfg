SPECIFICATION Spec
CONSTANTS
  Max = 2
  Idx = {1, 2}
  Rounds = {1, 2}
  Prevs = {0, 1}
INVARIANTS Inv_SigsBounded Inv_RcvdBounded
VIEW View
