--------------------------- MODULE Trace_HttpRelay ---------------------------
(***************************************************************************)
(* Validates executions of the REAL DrandHandler (handler/http/server.go), *)
(* recorded by the overlay test TestVerifHttpRelay, against HttpRelay.tla. *)
(* Every recorded step is explained with the module's pure operators       *)
(* (Blocks / TooFar / Direct / ItemBody / LatestResp); a difference between *)
(* what the code did and what the specification predicts is a Conformance  *)
(* alarm (model drift).  The C01 monitor is evaluated on the OBSERVED       *)
(* responses only:                                                         *)
(*   status 200 to a request for round r > 0  =>  the body is exactly one  *)
(*   beacon, of round r, whose signature verifies under the pinned key of  *)
(*   the chain that was asked, with randomness = sha256(signature);        *)
(*   for `latest` the beacon is one that was the node's head during the    *)
(*   call; a request that names no servable round never gets a 200.        *)
(* `verifies` / `randok` / `dec` / `extra` are oracle booleans computed by *)
(* the harness the way an outside client would (scheme.VerifyBeacon with   *)
(* the pinned chain info).  The observed state (latestRound, pending) is   *)
(* adopted after every step so that the rest of a trace stays checkable.   *)
(* The `shape` of an alarm is computed here from the specification's own   *)
(* state: the two shapes of F12 (repaired; they are what the handler did   *)
(* before) are named only when the waiter was parked with the              *)
(* specification's consent: empty 200 after a skipped round / the round of *)
(* the first item after a stream failure that left the waiter parked.      *)
(***************************************************************************)
EXTENDS HttpRelay, Json

TraceLog == ndJsonDeserialize("trace.ndjson")

VARIABLES l, alarms, scen,
          hold,     \* hand-over scenarios: round of the item with which the watch loop is parked at
                    \* http.watch.locked holding pendingLk (0 = not parked)
          canc      \* requests cancelled while the loop was parked there

tvars == <<vars, l, alarms, scen, hold, canc>>

TraceW == 1..8

Range(s) == {s[k] : k \in DOMAIN s}

TIdle == [pc |-> "idle", round |-> 0, legit |-> FALSE, reset |-> FALSE]

Alarm(mon, e, part, shape, w, r) ==
  [mon |-> mon, scenario |-> scen, ev |-> e.ev, line |-> l, part |-> part, shape |-> shape, w |-> w, round |-> r]
Conf(e, part) == Alarm("Conformance", e, part, "", 0, 0)

\* abstract value of an observed response
ObsBody(rp) == IF rp.blen = 0 THEN 0 ELSE IF rp.dec /\ ~rp.extra THEN rp.bround ELSE -2
ObsAbs(rp) == [status |-> rp.status, body |-> IF rp.status = 200 THEN ObsBody(rp) ELSE -1]

\* ---- the monitor, on one observed response.  r = requested round (0 = latest, -1 = the request
\* names nothing that could be served); shE / shO = shape labels for the two F12 parts
Mon_C01_HTTP_Obs(e, w, r, rp, shE, shO, hb, ha) ==
  IF rp.status # 200 THEN {}
  ELSE IF r = -1 THEN {Alarm("Mon_C01_HTTP", e, "success-without-beacon", "other", w, r)}
  ELSE IF rp.blen = 0 THEN {Alarm("Mon_C01_HTTP", e, "empty-200-body", shE, w, r)}
  ELSE IF ~rp.dec \/ rp.extra THEN {Alarm("Mon_C01_HTTP", e, "body-is-not-exactly-one-beacon", "other", w, r)}
  ELSE (IF r > 0 /\ rp.bround # r THEN {Alarm("Mon_C01_HTTP", e, "other-round", shO, w, r)} ELSE {})
       \cup (IF r = 0 /\ ~(rp.bround >= 1 /\ rp.bround >= hb /\ rp.bround <= ha)
               THEN {Alarm("Mon_C01_HTTP", e, "latest-is-not-a-head-during-the-call", "other", w, r)} ELSE {})
       \cup (IF ~rp.verifies THEN {Alarm("Mon_C01_HTTP", e, "signature-does-not-verify", "other", w, r)} ELSE {})
       \cup (IF ~rp.randok THEN {Alarm("Mon_C01_HTTP", e, "randomness-is-not-sha256-of-signature", "other", w, r)} ELSE {})

\* conformance of the observed handler state
StateConf(e, lat, pend) ==
  (IF e.lat # lat THEN {Conf(e, "latestRound differs from the specification")} ELSE {})
  \cup (IF e.np # Cardinality(pend) THEN {Conf(e, "length of bh.pending differs from the specification")} ELSE {})

TraceInit ==
  /\ latest = 0 /\ pending = {} /\ req = [w \in TraceW |-> TIdle]
  /\ stream = "off" /\ sent = 0 /\ head = 0 /\ cur = 1 /\ out = {} /\ act = <<"Init", 1>>
  /\ lk = "free" /\ wpc = WIdle /\ ch = [w \in TraceW |-> <<>>] /\ ctxd = [w \in TraceW |-> FALSE]
  /\ l = 1 /\ alarms = {} /\ scen = "none" /\ hold = 0 /\ canc = {}

StepReset(e) ==
  /\ e.ev = "Reset"
  /\ latest' = 0 /\ pending' = {} /\ req' = [w \in TraceW |-> TIdle]
  /\ stream' = "off" /\ head' = 0 /\ cur' = e.cur
  /\ scen' = e.scenario
  /\ alarms' = alarms

\* PublicRand up to the first look (or all the way when it does not block)
StepReqStart(e) ==
  /\ e.ev = "ReqStart"
  /\ LET w == e.w
         r == e.round
         far == TooFar(r, cur)
         blk == ~far /\ Blocks(latest, r)
         d == IF far THEN [status |-> 404, body |-> -1] ELSE Direct(r, cur, head)
         A1 == IF e.res = "checked" /\ ~blk THEN {Conf(e, "request blocks where the specification answers directly")}
               ELSE IF e.res = "resp" /\ blk THEN {Conf(e, "request answered where the specification blocks")}
               ELSE IF e.res = "resp" /\ ObsAbs(e.resp) # d THEN {Conf(e, "answer differs from the specification")}
               ELSE IF e.res \notin {"checked", "resp"} THEN {Conf(e, "request neither answered nor reached the second look")}
               ELSE {}
         A2 == IF e.res = "resp" THEN Mon_C01_HTTP_Obs(e, w, r, e.resp, "other", "other", 0, 0) ELSE {}
         A3 == IF (e.nw = 0) # (stream = "off" /\ far) THEN {Conf(e, "watch loop start differs from the specification")} ELSE {}
     IN /\ req' = [req EXCEPT ![w] = IF e.res = "checked"
                                       THEN [pc |-> "checked", round |-> r, legit |-> blk, reset |-> FALSE]
                                       ELSE TIdle]
        /\ stream' = IF e.nw > 0 /\ stream = "off" THEN "conn" ELSE stream
        /\ latest' = e.lat
        /\ alarms' = alarms \cup A1 \cup A2 \cup A3 \cup StateConf(e, latest, pending)
  /\ UNCHANGED <<pending, head, cur, scen>>

\* second look under the write lock
StepReqCheck2(e) ==
  /\ e.ev = "ReqCheck2"
  /\ LET w == e.w
         r == req[w].round
         blk == Blocks(latest, r)
         d == Direct(r, cur, head)
         pend2 == IF e.res = "parked" THEN pending \cup {w} ELSE pending
         A0 == IF req[w].pc # "checked" THEN {Conf(e, "second look of a request that is not between the two looks")} ELSE {}
         A1 == IF e.res = "parked" /\ ~blk THEN {Conf(e, "request parks where the specification answers directly")}
               ELSE IF e.res = "resp" /\ blk THEN {Conf(e, "request answered where the specification parks it")}
               ELSE IF e.res = "resp" /\ ObsAbs(e.resp) # d THEN {Conf(e, "answer differs from the specification")}
               ELSE IF e.res \notin {"parked", "resp"} THEN {Conf(e, "request neither answered nor parked")}
               ELSE {}
         A2 == IF e.res = "resp" THEN Mon_C01_HTTP_Obs(e, w, r, e.resp, "other", "other", 0, 0) ELSE {}
     IN /\ pending' = pend2
        /\ req' = [req EXCEPT ![w] = IF e.res = "parked"
                                       THEN [pc |-> "parked", round |-> r, legit |-> (req[w].legit /\ blk), reset |-> FALSE]
                                       ELSE TIdle]
        /\ latest' = e.lat
        /\ alarms' = alarms \cup A0 \cup A1 \cup A2 \cup StateConf(e, latest, pend2)
  /\ UNCHANGED <<stream, head, cur, scen>>

\* one iteration of the watch loop on item x; e.resps = <<w, response>> of every request that returned
StepWatchItem(e) ==
  /\ e.ev = "WatchItem"
  /\ LET x == e.x
         skip == latest # 0 /\ latest + 1 # x
         rel == {p[1] : p \in Range(e.resps)}
         rpOf(w) == (CHOOSE p \in Range(e.resps) : p[1] = w)[2]
         shE(w) == IF req[w].legit /\ skip THEN "watch-skipped-round-empty-200" ELSE "other"
         shO(w) == IF req[w].legit /\ req[w].reset /\ latest = 0 /\ ~skip
                      /\ rpOf(w).bround = x /\ rpOf(w).verifies /\ rpOf(w).randok
                     THEN "stream-reset-then-other-round" ELSE "other"
         A0 == IF stream # "conn" THEN {Conf(e, "item consumed while the specification has no open stream")} ELSE {}
         A1 == IF rel # pending THEN {Conf(e, "set of released waiters differs from bh.pending of the specification")} ELSE {}
         exp(w) == IF ItemServes(latest, x, req[w].round) THEN [status |-> 200, body |-> x]
                   ELSE Direct(req[w].round, cur, head)
         A2 == UNION {IF ObsAbs(rpOf(w)) # exp(w)
                         THEN {Conf(e, "answer of a released request differs from the specification")} ELSE {} : w \in rel \cap pending}
         A3 == UNION {Mon_C01_HTTP_Obs(e, w, req[w].round, rpOf(w), shE(w), shO(w), 0, 0) : w \in rel}
         A4 == IF e.lat # x THEN {Conf(e, "latestRound is not the item's round")} ELSE {}
         pend2 == pending \ rel
     IN /\ pending' = pend2
        /\ req' = [w \in TraceW |-> IF w \in rel THEN TIdle ELSE req[w]]
        /\ latest' = e.lat
        /\ alarms' = alarms \cup A0 \cup A1 \cup A2 \cup A3 \cup A4
                       \cup (IF e.np # Cardinality(pend2) THEN {Conf(e, "length of bh.pending differs from the specification")} ELSE {})
  /\ UNCHANGED <<stream, head, cur, scen>>

\* the iteration on a closed channel; e.resps = <<w, response>> of every request that returned
StepStreamFail(e) ==
  /\ e.ev = "StreamFail"
  /\ LET rel == {p[1] : p \in Range(e.resps)}
         rpOf(w) == (CHOOSE p \in Range(e.resps) : p[1] = w)[2]
         pend2 == pending \ rel
         A1 == IF rel # pending THEN {Conf(e, "set of released waiters differs from bh.pending of the specification")} ELSE {}
         A2 == UNION {IF ObsAbs(rpOf(w)) # Direct(req[w].round, cur, head)
                         THEN {Conf(e, "answer of a released request differs from the specification")} ELSE {} : w \in rel \cap pending}
         A3 == UNION {Mon_C01_HTTP_Obs(e, w, req[w].round, rpOf(w), "other", "other", 0, 0) : w \in rel}
     IN /\ pending' = pend2
        /\ req' = [w \in TraceW |-> IF w \in rel THEN TIdle
                                    ELSE IF req[w].pc = "parked" THEN [req[w] EXCEPT !.reset = TRUE] ELSE req[w]]
        /\ alarms' = alarms \cup A1 \cup A2 \cup A3 \cup StateConf(e, 0, pend2)
                       \cup (IF stream # "conn" THEN {Conf(e, "stream failed while the specification has no open stream")} ELSE {})
  /\ latest' = e.lat
  /\ stream' = "backoff"
  /\ UNCHANGED <<head, cur, scen>>

StepReconnect(e) ==
  /\ e.ev \in {"Reconnect", "IdleReconn"}
  /\ stream' = "conn"
  /\ latest' = e.lat
  /\ alarms' = alarms \cup StateConf(e, latest, pending)
                 \cup (IF ~e.ok THEN {Conf(e, "client.Watch was not called again")} ELSE {})
                 \cup (IF e.ev = "Reconnect" /\ stream # "backoff" THEN {Conf(e, "reconnect without a failed stream")} ELSE {})
  /\ UNCHANGED <<pending, req, head, cur, scen>>

StepTimeout(e) ==
  /\ e.ev = "Timeout"
  /\ LET w == e.w
         pend2 == pending \ {w}
         A0 == IF req[w].pc # "parked" THEN {Conf(e, "timeout of a request that is not parked")} ELSE {}
         A1 == IF e.res # "resp" THEN {Conf(e, "cancelled request did not return")}
               ELSE IF ObsAbs(e.resp) # [status |-> 500, body |-> -1] THEN {Conf(e, "answer differs from the specification")} ELSE {}
         A2 == IF e.res = "resp" THEN Mon_C01_HTTP_Obs(e, w, req[w].round, e.resp, "other", "other", 0, 0) ELSE {}
     IN /\ pending' = pend2
        /\ req' = [req EXCEPT ![w] = TIdle]
        /\ latest' = e.lat
        /\ alarms' = alarms \cup A0 \cup A1 \cup A2 \cup StateConf(e, latest, pend2)
  /\ UNCHANGED <<stream, head, cur, scen>>

StepReqLatest(e) ==
  /\ e.ev = "ReqLatest"
  /\ LET A1 == IF e.res # "resp" THEN {Conf(e, "latest request did not return")}
               ELSE IF ObsAbs(e.resp) # LatestResp(head) THEN {Conf(e, "answer differs from the specification")} ELSE {}
         A2 == IF e.res = "resp" THEN Mon_C01_HTTP_Obs(e, e.w, 0, e.resp, "other", "other", e.hb, e.ha) ELSE {}
     IN alarms' = alarms \cup A1 \cup A2
  /\ UNCHANGED <<latest, pending, req, stream, head, cur, scen>>

StepNodeAdvance(e) ==
  /\ e.ev = "NodeAdvance"
  /\ head' = e.head
  /\ alarms' = alarms \cup (IF e.head # head + 1 THEN {Conf(e, "head did not advance by one")} ELSE {})
  /\ UNCHANGED <<latest, pending, req, stream, cur, scen>>

\* the other paths: requests that name a chain / round explicitly (e.round = -1: nothing servable is named)
StepMisc(e) ==
  /\ e.ev = "Misc"
  /\ LET A1 == IF e.res # "resp" THEN {Conf(e, "request did not return")}
               ELSE IF e.resp.status # e.want THEN {Conf(e, "status differs from the documented one")} ELSE {}
         A2 == IF e.res = "resp" /\ e.kind # "info"
                 THEN Mon_C01_HTTP_Obs(e, 0, e.round, e.resp, "other", "other", e.hb, e.ha) ELSE {}
         A3 == IF e.res = "resp" /\ e.kind = "info" /\ e.resp.status = 200 /\ ~e.infook
                 THEN {Alarm("Mon_HTTP_Info", e, "info-is-not-the-named-chain", "other", 0, 0)} ELSE {}
     IN alarms' = alarms \cup A1 \cup A2 \cup A3
  /\ UNCHANGED <<latest, pending, req, stream, head, cur, scen>>

\* harness self-reports (a step that could not be driven): never a verdict
StepHarness(e) ==
  /\ e.ev = "Harness"
  /\ alarms' = alarms \cup {Alarm("Harness", e, e.what, "", 0, 0)}
  /\ UNCHANGED <<latest, pending, req, stream, head, cur, scen>>

\* ---- the hand-over at its real grain (C14).  RelayNotWedged is judged on what was observed: the watch
\* loop leaves its critical section, every cancelled handler returns, and the relay answers afterwards.
Wedge(e, part, kind, w) == Alarm("RelayNotWedged", e, part, kind, w, 0)

\* the loop took item x, holds pendingLk and is parked at the hook (nothing is changed yet)
StepWatchLock(e) ==
  /\ e.ev = "WatchLock"
  /\ hold' = e.x /\ canc' = {}
  /\ alarms' = alarms \cup (IF ~e.parked THEN {Conf(e, "watch loop did not reach http.watch.locked")} ELSE {})
                       \cup (IF stream # "conn" THEN {Conf(e, "item consumed while the specification has no open stream")} ELSE {})
  /\ UNCHANGED <<latest, pending, req, stream, head, cur, scen>>

\* the client of a parked request goes away.  While the loop holds the lock the handler cannot unregister
\* (FDone, then it waits for FUnreg); otherwise this is the Timeout step.
StepCancel(e) ==
  /\ e.ev = "Cancel"
  /\ LET w == e.w
         held == hold # 0
         goes == e.res = "resp"
         pend2 == IF goes THEN pending \ {w} ELSE pending
         A0 == IF req[w].pc # "parked" THEN {Conf(e, "cancel of a request that is not parked")} ELSE {}
         A1 == IF held /\ goes THEN {Conf(e, "cancelled request returned although the watch loop holds pendingLk")}
               ELSE IF ~held /\ ~goes THEN {Wedge(e, "handler-never-returned", "cancel", w)}
               ELSE IF goes /\ ObsAbs(e.resp) # [status |-> 500, body |-> -1] THEN {Conf(e, "answer differs from the specification")}
               ELSE {}
         A2 == IF goes THEN Mon_C01_HTTP_Obs(e, w, req[w].round, e.resp, "other", "other", 0, 0) ELSE {}
         A3 == IF ~held THEN StateConf(e, latest, pend2) ELSE {}
     IN /\ pending' = pend2
        /\ req' = [req EXCEPT ![w] = IF goes THEN TIdle ELSE req[w]]
        /\ canc' = IF goes THEN canc ELSE canc \cup {w}
        /\ alarms' = alarms \cup A0 \cup A1 \cup A2 \cup A3
  /\ UNCHANGED <<latest, stream, head, cur, scen, hold>>

\* the gate is opened: FRelease, FSend to every waiter, FUnlock, then FUnreg of the cancelled ones
StepWatchRelease(e) ==
  /\ e.ev = "WatchRelease"
  /\ LET x == hold
         rel == {p[1] : p \in Range(e.resps)}
         rpOf(w) == (CHOOSE p \in Range(e.resps) : p[1] = w)[2]
         exp(w) == IF w \in canc THEN [status |-> 500, body |-> -1]
                   ELSE IF ItemServes(latest, x, req[w].round) THEN [status |-> 200, body |-> x]
                   ELSE Direct(req[w].round, cur, head)
         W1 == IF ~e.done THEN {Wedge(e, "watch-loop-blocked-holding-pendingLk", "release", 0)} ELSE {}
         W2 == {Wedge(e, "handler-never-returned", "release", w) : w \in Range(e.stuck)}
         A0 == IF hold = 0 THEN {Conf(e, "release of a watch loop that is not parked")} ELSE {}
         A1 == IF e.done /\ rel # pending THEN {Conf(e, "set of released waiters differs from bh.pending of the specification")} ELSE {}
         A2 == UNION {IF ObsAbs(rpOf(w)) # exp(w)
                         THEN {Conf(e, "answer of a released request differs from the specification")} ELSE {} : w \in rel \cap pending}
         A3 == UNION {Mon_C01_HTTP_Obs(e, w, req[w].round, rpOf(w), "other", "other", 0, 0) : w \in rel}
         A4 == IF e.done /\ e.lat # x THEN {Conf(e, "latestRound is not the item's round")} ELSE {}
         pend2 == pending \ rel
         A5 == IF e.done /\ e.np # Cardinality(pend2) THEN {Conf(e, "length of bh.pending differs from the specification")} ELSE {}
     IN /\ pending' = pend2
        /\ req' = [w \in TraceW |-> IF w \in rel THEN TIdle ELSE req[w]]
        /\ latest' = IF e.done THEN e.lat ELSE latest
        /\ alarms' = alarms \cup W1 \cup W2 \cup A0 \cup A1 \cup A2 \cup A3 \cup A4 \cup A5
  /\ hold' = 0 /\ canc' = {}
  /\ UNCHANGED <<stream, head, cur, scen>>

\* a fresh request after the behaviour
StepProbe(e) ==
  /\ e.ev = "Probe"
  /\ alarms' = alarms \cup (IF ~e.ok THEN {Wedge(e, "probe-not-answered", e.kind, 0)} ELSE {})
  /\ UNCHANGED <<latest, pending, req, stream, head, cur, scen, hold, canc>>

TraceNext ==
  /\ l <= Len(TraceLog)
  /\ LET e == TraceLog[l] IN
       \/ (StepReset(e) /\ hold' = 0 /\ canc' = {})
       \/ ((\/ StepReqStart(e) \/ StepReqCheck2(e) \/ StepWatchItem(e) \/ StepStreamFail(e)
            \/ StepReconnect(e) \/ StepTimeout(e) \/ StepReqLatest(e) \/ StepNodeAdvance(e) \/ StepMisc(e)
            \/ StepHarness(e)) /\ UNCHANGED <<hold, canc>>)
       \/ StepWatchLock(e) \/ StepCancel(e) \/ StepWatchRelease(e) \/ StepProbe(e)
  /\ l' = l + 1
  /\ UNCHANGED <<sent, out, act, fvars>>

TraceSpec == TraceInit /\ [][TraceNext]_tvars

AtEnd == l = Len(TraceLog) + 1 =>
           /\ PrintT(<<"VP", "ALARMS", ToJson(alarms)>>)
           /\ PrintT(<<"VP", "DONE", ToJson([lines |-> Len(TraceLog)])>>)
=============================================================================
