-------------------------- MODULE Sim_PartialCache --------------------------
(* Behaviour generation at the real constant: TLC -simulate walks the design *)
(* model; every walk is printed as a JSON script that the Go harness replays *)
(* on the real partialCache (spec -> code direction).  A walk that reaches a *)
(* state violating a bound is tagged as a model counterexample.              *)
EXTENDS PartialCache, Json

CONSTANT Depth
VARIABLE hist
svars == <<cache, op, hist>>

SimInit == Init /\ hist = <<>>
SimStep == /\ Len(hist) < Depth
           /\ \/ \E i \in Idx, id \in Ids : DoAppend(i, id)
              \/ (Len(hist) % 97 = 96 /\ \E r \in Rounds : DoFlush(r - 1))
           /\ hist' = Append(hist, op')
\* the walk ends with one printing step (so that each walk is printed once)
SimFinish == /\ Len(hist) = Depth
             /\ PrintT(<<"VP", IF SigsBounded(cache) THEN "BEH" ELSE "CEX", ToJson(hist)>>)
             /\ hist' = Append(hist, [kind |-> "end"])
             /\ UNCHANGED <<cache, op>>
SimNext == SimStep \/ SimFinish
SimSpec == SimInit /\ [][SimNext]_svars

=============================================================================
