SPECIFICATION TraceSpec
CONSTANTS
  H0 = 2
  MaxPuts = 2
  Reqs = {0}
INVARIANT AtEnd
CHECK_DEADLOCK FALSE
