SPECIFICATION Spec
CONSTANTS
  Chains = {"default", "a", "b", "c"}
  MaxSteps = 8
INVARIANTS TypeOK Inv_Tables Inv_RoutedRight Inv_KeepsWorking
VIEW View
