SPECIFICATION Spec
CONSTANTS
  Streams = {1}
  SameAddr = FALSE
  Writers = {1}
  Q = 2
  InitHead = 4
  MaxR = 7
  Froms = {1}
  Backend = "mem"
  Buf = 4
  Remap = FALSE
  Faults = {}
  MaxFaults = 0
INVARIANTS Mon_FromStart
CHECK_DEADLOCK FALSE
