SPECIFICATION Spec
CONSTANTS
  Kinds = {"trimmed","trimmedc"}
  K = 3
  Rounds = {0,1,2}
  Vals = {1,2}
  MaxPos = 5
  MutInCursor = TRUE
  Depth = 0
INVARIANTS TypeOK Inv_Sorted Inv_Capacity Inv_Content
PROPERTIES Act_ModuloNamed Act_PrevAlways
VIEW View
