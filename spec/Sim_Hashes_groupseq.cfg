SPECIFICATION SimSpec
CONSTANTS
  Family = "groupseq"
  Mode = "walk"
  Depth = 40
  Periods = {3, 30}
  Geneses = {1600000000, 1600000030}
  Firsts = {"A", "B"}
  Seeds = {"S1", "S2"}
  Ids = {"", "default", "a", "b"}
  NodeIdx = {0, 1, 2, 5}
  NodeKeys = {"N1", "N2", "N3", "N4"}
  MaxNodes = 3
  Transitions = {0, 1600003000, 1600006000}
  Rests = {"x", "y"}
CHECK_DEADLOCK FALSE
