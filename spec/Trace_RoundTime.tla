--------------------------- MODULE Trace_RoundTime ---------------------------
(***************************************************************************)
(* Validates calls of the real common/time.go functions (recorded by the   *)
(* overlay test TestVerifRoundTime) whose every value is below 2^31, with  *)
(* the operators of RoundTime.tla: each logged call is judged by           *)
(* JudgeSmallTOR / JudgeSmallCUR (conformance with the definitions + the   *)
(* monitors, evaluated on the OBSERVED results).  Calls with larger values *)
(* are judged by Apalache with the 64-bit instance (Apa_RoundTimeJudge).   *)
(* Calls are independent (pure functions): there is no state to adopt.     *)
(***************************************************************************)
EXTENDS RoundTime, TLC, Json

TraceLog == ndJsonDeserialize("trace.ndjson")

\* the machine-level operators are not used below 2^31 (see JudgeSmall... in RoundTime.tla)
TracePow2(k) == 2^k
TraceFloorLog2(x) == 0

VARIABLES l, alarms
tvars == <<p, g, kind, arg, res, l, alarms>>

Alarm(mon, e) == [mon |-> mon, line |-> l, call |-> e.ev, cls |-> e.cls,
                  detail |-> <<e.p, e.g, e.a, e.o>>]

TraceInit == l = 1 /\ alarms = {} /\ p = 0 /\ g = 0 /\ kind = "init" /\ arg = 0 /\ res = <<>>

Verdict(e) ==
  IF e.ev = "TOR" THEN JudgeSmallTOR(e.p, e.g, e.a, e.o[1], e.o[2])
  ELSE IF e.ev = "CUR" THEN JudgeSmallCUR(e.p, e.g, e.a, e.o[1], e.o[2], e.o[3], e.o[4], e.o[5])
  ELSE {"UnknownEvent"}

TraceNext ==
  /\ l <= Len(TraceLog)
  /\ LET e == TraceLog[l] IN
       /\ p' = e.p /\ g' = e.g /\ kind' = e.ev /\ arg' = e.a /\ res' = e.o
       /\ alarms' = alarms \cup {Alarm(m, e) : m \in Verdict(e)}
  /\ l' = l + 1

TraceSpec == TraceInit /\ [][TraceNext]_tvars

AtEnd == l = Len(TraceLog) + 1 =>
           /\ PrintT(<<"VP", "ALARMS", ToJson(alarms)>>)
           /\ PrintT(<<"VP", "DONE", ToJson([lines |-> Len(TraceLog)])>>)
=============================================================================
