----------------------------- MODULE Sim_Beacon -----------------------------
(* Behaviour generation for replay on real Handlers: TLC -simulate walks of   *)
(* Beacon.tla (per-message delivery, internal steps eager as in the code);    *)
(* each walk is printed once as JSON: the action labels with their arguments  *)
(* and, per step, the model's heads and whether a sync request was pending    *)
(* (replay compares heads only while no sync interfered).                     *)
EXTENDS Beacon, Json
CONSTANTS n1, n2, n3, Depth
VARIABLE hist
svars == <<vars, hist>>

SimInit == Init /\ hist = <<>>
Snapshot == [act |-> act', heads |-> <<head'[n1], head'[n2], head'[n3]>>,
             syncing |-> \E n \in Nodes : want'[n] # 0]
SimStep == /\ Len(hist) < Depth
           /\ Next
           /\ hist' = Append(hist, Snapshot)
SimPad == /\ Len(hist) < Depth /\ ~ENABLED Next
          /\ hist' = Append(hist, [act |-> [name |-> "Pad"], heads |-> <<head[n1], head[n2], head[n3]>>, syncing |-> FALSE])
          /\ UNCHANGED vars
\* exactly one printing step per walk
SimFinish == /\ Len(hist) = Depth
             /\ PrintT(<<"VP", IF early = "no" THEN "BEH" ELSE "CEX", ToJson(hist)>>)
             /\ hist' = Append(hist, [act |-> [name |-> "End"], heads |-> <<0, 0, 0>>, syncing |-> FALSE])
             /\ UNCHANGED vars
SimNext == SimStep \/ SimPad \/ SimFinish
SimSpec == SimInit /\ [][SimNext]_svars
=============================================================================
