SPECIFICATION Spec
CONSTANTS
  Nodes = {1, 2, 3, 4}
  Epoch = 2
  JoinSet = {4}
  RemainSet = {1, 2}
  LeaveSet = {3}
  Leader = 1
  Thr = 2
  Period = 3
  Genesis = 100
  TMin = 110
  TMax = 112
  LateSet = {}
  RankChoices <- AllRanks
  PermuteLists = TRUE
  AtomicGossip = TRUE
  AtomicExec = TRUE
  MaxDrop = 0
  DropKinds = {"D", "R", "J"}
  Offline = {}
INVARIANTS TypeOK Inv_SameTerms Inv_OrderIndependent Inv_OwnIndex Inv_SameQual Inv_NoLoss Inv_EchoHeals Inv_SameGroupButTransition
VIEW View
CHECK_DEADLOCK FALSE
